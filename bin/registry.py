"""Registry of properties and suites, merged from bin/registry.d/*.json (one file per model slice).

suite entry : {"driver": <lean_exe name>, "n_quick": int, "n_thorough": int, ["suite": harness suite name], ["env": {...}]}
prop entry  : {"modules": [Lean modules with the property theorems], "suites": [suite names], "facts": bool,
               "modelled_not_verified": [...], "assumptions": [...]}
A property may be extended by several files: lists are concatenated (order-preserving, de-duplicated)."""
import glob
import json
import os

SUITES, PROPS = {}, {}
for _f in sorted(glob.glob(os.path.join(os.path.dirname(os.path.abspath(__file__)), "registry.d", "*.json"))):
    _d = json.load(open(_f))
    SUITES.update(_d.get("suites", {}))
    for _k, _v in _d.get("props", {}).items():
        if _k not in PROPS:
            PROPS[_k] = dict(_v)
        else:
            for _kk, _vv in _v.items():
                if isinstance(_vv, list):
                    PROPS[_k][_kk] = list(dict.fromkeys(PROPS[_k].get(_kk, []) + _vv))
                elif _kk == "facts":
                    PROPS[_k][_kk] = PROPS[_k].get(_kk, False) or _vv
                else:
                    PROPS[_k][_kk] = _vv
