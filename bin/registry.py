"""Registry of properties (which Lean modules state their theorems, which correspondence suites tie
their model slice to /repo) and of suites (harness suite name, Lean driver, sizes per tier)."""

SUITES = {
    "mint": {"driver": "drv_mint", "n_quick": 150, "n_thorough": 3000},
    "mint_extreme": {"suite": "mint", "driver": "drv_mint", "n_quick": 150, "n_thorough": 3000,
                     "env": {"VERIF_MINT_EXTREME": "1"}},
}

BANK = ["x/bank modelled by its contract (mint adds to supply, send is a transfer); exercised, not verified"]

PROPS = {
    "C13": {
        "modules": ["SgeProofs.Properties.C13"],
        "suites": ["mint"],
        "facts": False,
        "modelled_not_verified": BANK + ["256-bit overflow panics of sdkmath not modelled"],
        "assumptions": ["burns by governance/staking modules are outside the claim (as the property states)"],
    },
}
