import SgeProofs.Properties.C13
