import Sge.Dec
import Sge.Mint
import Sge.Core.Run
import Sge.Ovm
import Sge.Subaccount
import Sge.Reward
import Sge.Ticket
import Sge.Params
