import Sge.Dec
import Sge.Mint
import Sge.Core.Chain
import Sge.Ovm
