import Sge.Dec
import Sge.Mint
import Sge.Reward
