import Sge.Dec
import Sge.Mint
