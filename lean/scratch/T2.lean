import SgeProofs.Lemmas.RewardInv
namespace Sge.Reward
open Sge
structure PoolEq (s : State) : Prop where
  bets : ∀ b ∈ s.bets, 0 ≤ b.amount
  eq : s.bank POOL = booked s.campaigns

theorem poolEq_withdrawFunds' {s s' : State} {m : WithdrawMsg} (hI : Inv s) (hP : PoolEq s)
    (h : withdrawFunds s m = .ok s') : PoolEq s' := by
  obtain ⟨c, gs, amount, bank, hget, _, hprom, _, _, _, _, hsend, rfl⟩ := withdrawFunds_ok h
  have hu := getC_uid _ _ _ hget
  have hmem := getC_mem _ _ _ hget
  have hne : m.promoter ≠ POOL := by rw [hprom]; exact hI.promOk c hmem
  rw [← hu] at hget
  refine ⟨hP.bets, ?_⟩
  · show bank POOL = booked (setC s.campaigns _)
    rw [send_from_pool hsend hne, booked_setC_same _ c _ hget, hP.eq]
    · simp only [Pool.avail]; omega
    · rfl
end Sge.Reward
