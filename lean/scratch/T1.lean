import SgeProofs.Lemmas.Reward
namespace Sge.Reward
open Sge

theorem createCampaign_ok {s s' : State} {m : CreateMsg} (h : createCampaign s m = .ok s') :
    ∃ funds gs bank, m.funds = some funds ∧ 0 < funds ∧ getC s.campaigns m.uid = none ∧ m.tv = true ∧
      (getA s.byAddr m.promoter).isSome = true ∧
      (if m.creator ≠ m.promoter then authorize s.time s.grants m.promoter m.creator 0 (some funds) else .ok s.grants) = .ok gs ∧
      createChecks s.fixed s.time m funds = none ∧
      send s.bank m.promoter POOL funds = .ok bank ∧
      s' = { s with
        grants := gs, bank := bank,
        campaigns := setC s.campaigns
          { uid := m.uid, creator := m.creator, promoter := m.promoter, startTS := m.startTS,
            endTS := m.endTS, category := m.category, rtype := m.rtype, amtType := m.amtType,
            amt := storeAmt (m.ra.getD default), pool := { total := funds, spent := 0, withdrawn := 0 },
            active := m.active, capCount := m.capCount, maxBet := storeCons m.cons } } := by
  unfold createCampaign at h
  repeat (split at h <;> try (cases h; done))
  all_goals (trace_state; sorry)

end Sge.Reward
