import SgeProofs.Lemmas.CollateralWager
open Sge.Core
#check @col_visit_some
#print axioms col_visit_some
#print axioms requeue_col
