import SgeProofs.Properties.C02Reach
open Sge.Core Sge
#print axioms c02_collateral_partial
#print axioms c02_monitor_inequality_partial
#print axioms c02_current_round_partial
#print axioms c02_nonneg_parts_monotone
#print axioms c02_counterexample_undercollateralised
