import SgeProofs.Lemmas.CollateralSettle
open Sge.Core
#check @endBlockO_col
#print axioms endBlockO_col
#print axioms houseWithdrawO_col
