/-
  line protocol of the combined slice (core + x/subaccount). Core op lines are those of Driver/CoreStep.lean
  (MA MU MR GR GV HD HW W EB and the quiet set-up lines PARAMS BAL T) plus `S src dst amt` (bank MsgSend); they are parsed into `Core.Op` and executed
  by `Sge.Combined.step` (`EB` = the combined end-block). Subaccount lines:
    SP w d                                      quiet: x/subaccount params (wager / deposit enabled)
    SC creator owner n (ts amt)*                MsgCreate
    ST creator owner n (ts amt)*                MsgTopUp
    SU owner                                    MsgWithdrawUnlockedBalances
    SW owner outerOk innerCreator main sub <tk:4> uid amount market odds ov mult typeOk n (odds mult)*   MsgWager
    SD owner <tk:4> market amount pd            MsgHouseDeposit
    SX owner <tk:4> market idx mode amount pd   MsgHouseWithdraw
  After every non-quiet op: the result class, the core state exactly as drv_core prints it (ending with `--`), then
    SN nextId wagerEnabled depositEnabled
    SA addr owner deposited spent withdrawn lost bank released nlocks (ts:amt)*     per subaccount record, by address
    SO owner addr                                                                  store 0x01, by owner
    SR addr owner                                                                  store 0x02, by address
    ==
-/
import Sge.Combined
import Driver.CoreStep
open Sge Sge.Core Driver
open Sge.Combined (SubRec subAddr)

def insSorted {α : Type} (key : α → Nat) (x : α) : List α → List α
  | [] => [x]
  | y :: ys => if key x < key y then x :: y :: ys else y :: insSorted key x ys

def sortBy {α : Type} (key : α → Nat) (l : List α) : List α := l.foldl (fun acc x => insSorted key x acc) []

def showLocks (ls : List Sge.Subaccount.Lock) : String :=
  " ".intercalate ((sortBy (fun (l : Sge.Subaccount.Lock) => l.1) ls).map fun l => s!"{l.1}:{l.2}")

def dumpSub (s : Sge.Combined.State) : List String :=
  [s!"SN {s.nextId} {b01 s.wagerEnabled} {b01 s.depositEnabled}"] ++
  (sortBy (fun (x : Nat × SubRec) => x.1) s.subs).map (fun x =>
    let owner := match Sge.Combined.aget s.subOwner x.1 with | some o => toString o | none => "-"
    let r := x.2
    let lk := showLocks r.locks
    s!"SA {x.1} {owner} {r.sum.deposited} {r.sum.spent} {r.sum.withdrawn} {r.sum.lost} {s.bal x.1} {r.released} {r.locks.length}" ++
      (if lk.isEmpty then "" else " " ++ lk)) ++
  (sortBy (fun (x : Nat × Nat) => x.1) s.owners).map (fun x => s!"SO {x.1} {x.2}") ++
  (sortBy (fun (x : Nat × Nat) => x.1) s.subOwner).map (fun x => s!"SR {x.1} {x.2}") ++
  ["=="]

def dumpAll (s : Sge.Combined.State) : List String := dump s.core ++ dumpSub s

structure CSt where
  s : Sge.Combined.State := {}
  halted : Bool := false

def cfin (st : CSt) (r : Sge.Combined.State × Res) : CSt × List String :=
  ({ st with s := r.1, halted := st.halted || r.2 == .halt }, showRes r.2 :: dumpAll r.1)

def mkTk (valid : String) : Tk := { ok := valid == "1", kycIgnore := true, kycApproved := false, kycId := 0 }

def parseLocks : List String → List Sge.Subaccount.Lock
  | t :: a :: rest => (parseNat t, parseInt a) :: parseLocks rest
  | _ => []

def parseWagerTail : List String → Option (Nat × Int × WagerPayload)
  | uid :: amount :: market :: odds :: ov :: mult :: typeOk :: _n :: pairs =>
    some (parseNat uid, parseInt amount,
      { market := parseNat market, odds := parseNat odds,
        oddsVal := if ov == "x" then none else some ⟨parseInt ov⟩, mult := ⟨parseInt mult⟩,
        allOdds := parsePairs pairs, oddsTypeOk := typeOk == "1" })
  | _ => none

/-- the non-quiet core op lines of Driver/CoreStep.lean as `Core.Op`s -/
def parseCoreOp (ws : List String) : Option Core.Op :=
  match ws with
  | "MA" :: creator :: tk :: uid :: start :: en :: status :: _n :: odds =>
    some (.marketAdd (parseNat creator) (mkTk tk) (parseNat uid) (parseNat start) (parseNat en) (odds.map parseNat) (parseNat status))
  | ["MU", tk, uid, start, en, status] =>
    some (.marketUpdate (mkTk tk) (parseNat uid) (parseNat start) (parseNat en) (parseNat status))
  | "MR" :: tk :: uid :: ts :: status :: _n :: ws =>
    some (.marketResolve (mkTk tk) (parseNat uid) (parseNat ts) (parseNat status) (ws.map parseNat))
  | "HD" :: creator :: rest =>
    let (tk, rest) := parseTk rest
    match rest with
    | [market, amount, pd] => some (.deposit (parseNat creator) tk (parseNat market) (parseInt amount) (parseNat pd))
    | _ => none
  | "HW" :: creator :: rest =>
    let (tk, rest) := parseTk rest
    match rest with
    | [market, idx, mode, amount, pd] =>
      some (.withdraw (parseNat creator) tk (parseNat market) (parseNat idx) (parseNat mode) (parseInt amount) (parseNat pd))
    | _ => none
  | "W" :: creator :: rest =>
    let (tk, rest) := parseTk rest
    (parseWagerTail rest).map fun r => .wager (parseNat creator) tk r.1 r.2.1 r.2.2
  | ["S", src, dst, amt] => some (.send (parseNat src) (parseNat dst) (parseInt amt))   -- bank MsgSend (not a drv_core line)
  | _ => none

def parseSubOp (ws : List String) : Option Sge.Combined.Op :=
  match ws with
  | "SC" :: creator :: owner :: _n :: ls => some (.create (parseNat creator) (parseNat owner) (parseLocks ls))
  | "ST" :: creator :: owner :: _n :: ls => some (.topUp (parseNat creator) (parseNat owner) (parseLocks ls))
  | ["SU", owner] => some (.withdrawUnlocked (parseNat owner))
  | "SW" :: owner :: outerOk :: ic :: main :: sub :: rest =>
    let (tk, rest) := parseTk rest
    (parseWagerTail rest).map fun r =>
      .subWager (parseNat owner) (outerOk == "1") (parseNat ic) (parseInt main) (parseInt sub) tk r.1 r.2.1 r.2.2
  | "SD" :: owner :: rest =>
    let (tk, rest) := parseTk rest
    match rest with
    | [market, amount, pd] => some (.subDeposit (parseNat owner) tk (parseNat market) (parseInt amount) (parseNat pd))
    | _ => none
  | "SX" :: owner :: rest =>
    let (tk, rest) := parseTk rest
    match rest with
    | [market, idx, mode, amount, pd] =>
      some (.subWithdraw (parseNat owner) tk (parseNat market) (parseNat idx) (parseNat mode) (parseInt amount) (parseNat pd))
    | _ => none
  | _ => none

def cstep (st : CSt) (line : String) : CSt × List String :=
  let s := st.s
  let ws := words line
  match ws with
  | ["N", h] => ({}, [s!"n {h}"])
  | [] => (st, [])
  | ["EB"] =>
    if st.halted then (st, ["r halt"] ++ dumpAll s) else cfin st (Sge.Combined.step s (.core .endBlock))
  | ["SP", w, d] => ({ st with s := (Sge.Combined.step s (.subParams (w == "1") (d == "1"))).1 }, [])
  | ["GR", granter, grantee, kind, limit, expiry] =>
    let ex := parseInt expiry
    let exo : Option Nat := if ex < 0 then none else some ex.toNat
    ({ st with s := (Sge.Combined.step s (.core (.grant (parseNat granter) (parseNat grantee) (parseNat kind) (parseInt limit) exo))).1 }, [])
  | ["GV", granter, grantee, kind] =>
    ({ st with s := (Sge.Combined.step s (.core (.revoke (parseNat granter) (parseNat grantee) (parseNat kind)))).1 }, [])
  | k :: _ =>
    if k == "PARAMS" || k == "BAL" || k == "T" then
      -- quiet set-up lines: exactly what drv_core does to the core state
      let r := step { s := s.core } line
      ({ st with s := { s with core := r.1.s } }, r.2)
    else
      match parseCoreOp ws with
      | some op => cfin st (Sge.Combined.step s (.core op))
      | none =>
        match parseSubOp ws with
        | some op => cfin st (Sge.Combined.step s op)
        | none => (st, ["bad-op " ++ line])

def main : IO Unit := Driver.runDriver ({} : CSt) cstep
