import Driver.CoreStep

def main : IO Unit := Driver.runDriver ({} : St) step
