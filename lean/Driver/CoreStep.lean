/- line protocol of the core slice (shared by drv_core and drv_genesis; `main` is in Driver/Core.lean) -/
import Sge.Core.Chain
import Driver.Util
open Sge Sge.Core Driver

def showL (l : List Nat) : String := "[" ++ ",".intercalate (l.map toString) ++ "]"
def b01 (b : Bool) : Nat := if b then 1 else 0

def dumpBook (b : Book) : List String :=
  [s!"K {b.uid} {b.partCount} {b.oddsCount} {b.status}"] ++
  b.queues.map (fun q => s!"Q {b.uid} {q.1} {showL q.2}") ++
  b.parts.map (fun p => s!"P {b.uid} {p.idx} {p.addr} {p.liq} {p.fee} {p.crl} {p.notFilled} {p.totalBet} {p.crTotalBet} {p.maxLoss} {p.crMaxLoss} {p.crMaxLossOdds} {p.actualProfit} {b01 p.isSettled} {p.returned} {p.reimbursedFee}") ++
  b.pexps.map (fun e => s!"E {b.uid} {e.odds} {e.idx} {e.exposure} {e.bet} {b01 e.fulfilled} {e.round}") ++
  b.hist.map (fun e => s!"H {b.uid} {e.odds} {e.idx} {e.round} {e.exposure} {e.bet} {b01 e.fulfilled}") ++
  b.pairs.map (fun x => s!"X {b.uid} {x.1} {x.2}")

def showFulfs (fs : List Fulf) : String :=
  " ".intercalate (fs.map fun f => s!"{f.addr} {f.idx} {f.bet} {f.profit}")

def accounts : List Nat := (List.range 12) ++ [ACC_POOL, ACC_BETFEE, ACC_HOUSEFEE]

def sortGrants (gs : List Grant) : List Grant :=
  gs.foldl (fun acc g => upsert (fun (x : Grant) => [x.granter, x.grantee, x.kind]) g acc) []

def dump (s : State) : List String :=
  accounts.map (fun a => s!"B {a} {getBal s.bal a}") ++
  s.markets.map (fun m => s!"M {m.uid} {m.creator} {m.startTS} {m.endTS} {m.status} {m.resolutionTS} {showL m.odds} {showL m.winners}") ++
  [s!"MQ {showL s.mqueue}"] ++
  (s.books.map dumpBook).flatten ++
  [s!"OQ {showL s.obqueue}"] ++
  s.bets.map (fun t => s!"T {t.creator} {t.id} {t.uid} {t.market} {t.odds} {t.oddsVal.raw} {t.amount} {t.fee} {t.status} {t.result} {t.mult.raw} {t.createdAt} {t.settleHeight} {t.fulfs.length} {showFulfs t.fulfs}") ++
  s.pending.map (fun x => s!"PB {x.1} {x.2.1} {x.2.2.1} {x.2.2.2}") ++
  s.settled.map (fun x => s!"SB {x.1} {x.2.1} {x.2.2.1} {x.2.2.2}") ++
  [s!"BC {s.betCount}"] ++
  s.deposits.map (fun d => s!"D {d.depositor} {d.market} {d.idx} {d.creator} {d.amount} {d.wcount} {d.wtotal}") ++
  s.withdrawals.map (fun w => s!"WD {w.addr} {w.market} {w.idx} {w.id} {w.creator} {w.amount} {w.mode}") ++
  (sortGrants s.grants).map (fun g => s!"G {g.granter} {g.grantee} {g.kind} {g.limit} {match g.expiry with | some t => toString t | none => "-1"}") ++
  ["--"]

def showRes : Res → String
  | .ok => "r ok"
  | .err => "r err"
  | .halt => "r halt"

def parseTk : List String → Tk × List String
  | a :: b :: c :: d :: rest => ({ ok := a == "1", kycIgnore := b == "1", kycApproved := c == "1", kycId := parseNat d }, rest)
  | rest => (default, rest)

def parsePairs : List String → List (Nat × Dec)
  | o :: m :: rest => (parseNat o, ⟨parseInt m⟩) :: parsePairs rest
  | _ => []

structure St where
  s : State := {}
  halted : Bool := false

def fin (st : St) (r : State × Res) : St × List String :=
  ({ st with s := r.1, halted := st.halted || r.2 == .halt }, showRes r.2 :: dump r.1)

def step (st : St) (line : String) : St × List String :=
  let s := st.s
  match words line with
  | ["N", h] => ({}, [s!"n {h}"])
  | ["PARAMS", a, b, c, d, e, f, g, h, i] =>
    let p : Params := {
      betBatch := parseNat a
      betMin := parseInt b
      betFee := parseInt c
      houseMin := parseInt d
      houseFee := ⟨parseInt e⟩
      houseMaxW := parseNat f
      obMaxPart := parseNat g
      obBatch := parseNat h
      obThreshold := parseNat i }
    let s2 : State := { s with params := p }
    ({ st with s := s2 }, [])
  | ["BAL", a, v] => ({ st with s := { s with bal := setBal s.bal (parseNat a) (parseInt v) } }, [])
  | ["T", h, t] => ({ st with s := { s with height := parseNat h, time := parseNat t } }, [])
  | "MA" :: creator :: tk :: uid :: start :: en :: status :: _n :: odds =>
    fin st (marketAdd s (parseNat creator) { ok := tk == "1", kycIgnore := true, kycApproved := false, kycId := 0 }
      (parseNat uid) (parseNat start) (parseNat en) (odds.map parseNat) (parseNat status))
  | ["MU", tk, uid, start, en, status] =>
    fin st (marketUpdate s { ok := tk == "1", kycIgnore := true, kycApproved := false, kycId := 0 } (parseNat uid) (parseNat start) (parseNat en) (parseNat status))
  | "MR" :: tk :: uid :: ts :: status :: _n :: ws =>
    fin st (marketResolve s { ok := tk == "1", kycIgnore := true, kycApproved := false, kycId := 0 } (parseNat uid) (parseNat ts) (parseNat status) (ws.map parseNat))
  | ["GR", granter, grantee, kind, limit, expiry] =>
    let s1 := dropGrant s (parseNat granter) (parseNat grantee) (parseNat kind)
    let ex := parseInt expiry
    let exo : Option Nat := if ex < 0 then none else some ex.toNat
    let g : Grant := { granter := parseNat granter, grantee := parseNat grantee, kind := parseNat kind, limit := parseInt limit, expiry := exo }
    let s2 : State := { s1 with grants := s1.grants ++ [g] }
    ({ st with s := s2 }, [])
  | ["GV", granter, grantee, kind] => ({ st with s := dropGrant s (parseNat granter) (parseNat grantee) (parseNat kind) }, [])
  | "HD" :: creator :: rest =>
    let (tk, rest) := parseTk rest
    match rest with
    | [market, amount, pd] =>
      let r := houseDeposit s (parseNat creator) tk (parseNat market) (parseInt amount) (parseNat pd)
      fin st (r.1, r.2.1)
    | _ => (st, ["bad-op " ++ line])
  | "HW" :: creator :: rest =>
    let (tk, rest) := parseTk rest
    match rest with
    | [market, idx, mode, amount, pd] =>
      fin st (houseWithdraw s (parseNat creator) tk (parseNat market) (parseNat idx) (parseNat mode) (parseInt amount) (parseNat pd))
    | _ => (st, ["bad-op " ++ line])
  | "W" :: creator :: rest =>
    let (tk, rest) := parseTk rest
    match rest with
    | uid :: amount :: market :: odds :: ov :: mult :: typeOk :: _n :: pairs =>
      let pl : WagerPayload := {
        market := parseNat market, odds := parseNat odds,
        oddsVal := if ov == "x" then none else some ⟨parseInt ov⟩, mult := ⟨parseInt mult⟩,
        allOdds := parsePairs pairs, oddsTypeOk := typeOk == "1" }
      fin st (wager s (parseNat creator) tk (parseNat uid) (parseInt amount) pl)
    | _ => (st, ["bad-op " ++ line])
  | ["EB"] =>
    if st.halted then (st, ["r halt"] ++ dump s) else fin st (endBlock s)
  | [] => (st, [])
  | _ => (st, ["bad-op " ++ line])
