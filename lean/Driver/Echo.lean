/-
  drv_echo: the driver of suites that compare two executions of the implementation with each other instead of
  the implementation with a Lean model (suite "determinism", property C15). The suite writes the record stream
  of one execution to ops.txt and the record stream of the other to impl.txt; this driver prints every input
  line unchanged, so that `bin/check`'s line-by-line comparison of (driver output, impl.txt) compares the two
  executions. Only the history header follows the line protocol of the other drivers: `N <h>` prints `n <h>`.
-/
import Driver.Util
open Driver

def step (s : Unit) (line : String) : Unit × List String :=
  match words line with
  | ["N", h] => (s, [s!"n {h}"])
  | _ => (s, [line])

def main : IO Unit := runDriver () step
