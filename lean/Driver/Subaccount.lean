import Sge.Subaccount
import Driver.Util
open Sge.Subaccount Driver

/-- number of plain user accounts the harness uses (ids 0 … nUsers-1) -/
def nUsers : Nat := 12

def parseBool (s : String) : Bool := s = "1"

def parseLocks : List String → List Lock
  | ts :: a :: rest => (parseNat ts, parseInt a) :: parseLocks rest
  | _ => []

def insertLock (l : Lock) : List Lock → List Lock
  | [] => [l]
  | x :: xs => if l.1 ≤ x.1 then l :: x :: xs else x :: insertLock l xs

def sortLocks (ls : List Lock) : List Lock := ls.foldr insertLock []

def showErr : Err → String
  | .invalid => "invalid" | .expired => "expired" | .exists => "exists" | .nosub => "nosub"
  | .lockexists => "lockexists" | .funds => "funds" | .nothing => "nothing" | .amount => "amount"
  | .disabled => "disabled" | .ticket => "ticket" | .creator => "creator" | .ext => "ext"
  | .payload => "payload" | .mainbal => "mainbal" | .subbal => "subbal"

def showRes : Res → String
  | .ok => "r ok"
  | .err _ => "r err"   -- the kind of error is not compared (wording of the Go errors is free)
  | .panic => "r panic"

def b2s (b : Bool) : String := if b then "1" else "0"

def showLocks (ls : List Lock) : String :=
  " ".intercalate ((sortLocks ls).map (fun l => s!"{l.1}:{l.2}"))

/-- addresses of all subaccounts that can exist -/
def subAddrs (s : State) : List Nat := (List.range s.nextId).map addrOf

def ownerCandidates (s : State) : List Nat := List.range nUsers ++ subAddrs s ++ [addrOf s.nextId]

def showState (s : State) : List String :=
  let hdr := s!"s {s.now} {s.nextId} {b2s s.wagerEnabled} {b2s s.depositEnabled} {b2s s.clean} {s.bank (addrOf s.nextId)}"
  let accts := (subAddrs s).filterMap (fun a =>
    match s.subs a with
    | none => none
    | some sub =>
      let owner := match s.subMap a with | some o => toString o | none => "-"
      some s!"a {a} {owner} {sub.sum.deposited} {sub.sum.spent} {sub.sum.withdrawn} {sub.sum.lost} {s.bank a} {sub.locks.length} {showLocks sub.locks}")
  let owners := (ownerCandidates s).filterMap (fun o =>
    match s.ownerMap o with
    | none => none
    | some a => some s!"o {o} {a}")
  let bal := "b " ++ " ".intercalate ((List.range nUsers ++ [extAcct, poolAcct]).map (fun a => s!"{a}:{s.bank a}"))
  let ghosts := (subAddrs s).filterMap (fun a =>
    match s.subs a with
    | none => none
    | some sub =>
      some s!"g {a} {sub.released} {sub.nRel} {sub.wagered} {sub.profitOut} {sub.toOwner} {sub.staked} {unlockedSum s.now sub.locks}")
  [hdr] ++ accts ++ owners ++ [bal] ++ ghosts

def parseKind (k : String) : Option HookKind :=
  match k with
  | "win" => some .win | "loss" => some .loss | "refund" => some .refund | "fee" => some .feeRefund
  | _ => none

def parseOp (ws : List String) : Option Op :=
  match ws with
  | ["T", dt] => some (.advance (parseNat dt))
  | ["P", w, d] => some (.params (parseBool w) (parseBool d))
  | ["F", a, v] => some (.fund (parseNat a) (parseInt v))
  | ["S", f, t, v] => some (.send (parseNat f) (parseNat t) (parseInt v))
  | "C" :: c :: o :: _n :: rest => some (.create (parseNat c) (parseNat o) (parseLocks rest))
  | "U" :: c :: o :: _n :: rest => some (.topUp (parseNat c) (parseNat o) (parseLocks rest))
  | ["W", o] => some (.withdrawUnlocked (parseNat o))
  | ["G", c, r, amt, p] => some (.grant (parseNat c) (parseNat r) (parseInt amt) (parseNat p))
  | ["WG", o, m, sb, pre, ba, wok, ch] =>
    some (.wager (parseNat o) (parseInt m) (parseInt sb)
      { pre := parseNat pre, betAmount := parseInt ba, wagerOk := parseBool wok, charged := parseInt ch })
  | ["HD", o, amt, tk, dok, taken] =>
    some (.houseDeposit (parseNat o) (parseInt amt) { tkOk := parseBool tk, depOk := parseBool dok, taken := parseInt taken })
  | ["HW", o, tk, wok, amt, paid] =>
    some (.houseWithdraw (parseNat o) { tkOk := parseBool tk, wdOk := parseBool wok, amount := parseInt amt, paid := parseInt paid })
  | ["K", k, h, r, x, y] =>
    match parseKind k with
    | some kk => some (.settle kk (parseNat h) (parseInt r) (parseInt x) (parseInt y))
    | none => none
  | _ => none

def dstep (s : State) (line : String) : State × List String :=
  match words line with
  | ["N", h] => ({ fixed := s.fixed, fixedNeg := s.fixedNeg, fixedRet := s.fixedRet }, [s!"n {h}"])
  | ["CFG", "retfix", b] => ({ s with fixedRet := parseBool b }, [])
  | ["CFG", "fixed", b] => ({ s with fixed := parseBool b }, [])
  | ["CFG", "negfix", b] => ({ s with fixedNeg := parseBool b }, [])
  | [] => (s, [])
  | "q" :: ws =>
    -- quiet op (part of a batch whose intermediate implementation states are not observable): result only
    match parseOp ws with
    | none => (s, ["bad-op " ++ line])
    | some op =>
      let (s', r) := step s op
      (s', [showRes r])
  | ws =>
    match parseOp ws with
    | none => (s, ["bad-op " ++ line])
    | some op =>
      let (s', r) := step s op
      (s', showRes r :: showState s')

def main : IO Unit := runDriver ({} : State) dstep
