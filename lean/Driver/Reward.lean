import Sge.Reward
import Driver.Util
open Sge Sge.Reward Driver

/-
  Line protocol of the reward slice (one op per line, see harness/suite_reward.go):
    CFG fixed 0|1                 select the model variant (patched CreateCampaignPayload.Validate)
    N h / INIT bal                new history; every plain account starts with `bal`
    T t                           block time
    CP creator tv uid uidOk n (cat cap)*
    SC creator uid tv n (cat cap)*
    CC creator uid funds tv promoter start end cat rtype amtType hasRA main sub unlock mainPct subPct active cap cons
    UC creator uid topup tv end active
    WF creator uid amount tv promoter
    GR creator uid campaign tv receiver kyc srcOk referee bet
    AG granter grantee kind limit exp / AR granter grantee kind
    BET uid owner amount result isMain / SUBC owner / SEND from to amt
  `-` is a nil Int / Dec / absent expiry; cons: `x` = no constraints, `-` = nil MaxBetAmount.
  After every op: `r ok` | `r err` and the complete canonical state.
-/

structure St where
  fixed : Bool := false
  codecFixed : Bool := false
  promoterFixed : Bool := false
  s : State := init false (fun _ => 0)

def NACCT : Nat := 12

def optInt (t : String) : Option Int := if t == "-" then none else t.toInt?
def optNat (t : String) : Option Nat := if t == "-" then none else t.toNat?
def optDec (t : String) : Option Dec := (optInt t).map (fun r => ⟨r⟩)
def pb (t : String) : Bool := t == "1"

def parseConf : List String → List (Nat × Int)
  | c :: cap :: rest => (parseNat c, parseInt cap) :: parseConf rest
  | _ => []

def errName : Err → String
  | .basic => "basic" | .panic => "panic" | .ticket => "ticket" | .dup => "exists" | .notfound => "notfound"
  | .notowner => "notowner" | .validate => "validate" | .nopromoter => "nopromoter"
  | .authzNotFound => "authz-notfound" | .authzRejected => "authz-rejected" | .authzSave => "authz-save"
  | .fundsLtReward => "funds-lt-reward" | .pct => "pct" | .rtype => "type" | .vcampaign => "vcampaign" | .fund => "fund"
  | .inactive => "inactive" | .mismatch => "mismatch" | .nopool => "nopool" | .avail => "avail" | .refund => "refund"
  | .ended => "ended" | .notstarted => "notstarted"
  | .calcTicket => "calc-ticket" | .calcKyc => "calc-kyc" | .calcSrc => "calc-src" | .calcNoRef => "calc-noref"
  | .calcIsSub => "calc-issub" | .calcBet => "calc-bet"
  | .cap => "cap" | .catcap => "catcap" | .pool => "pool" | .distribute => "distribute"
  | .blocked => "blocked" | .insufficient => "insufficient" | .env => "env" | .codec => "codec"

def b01 (b : Bool) : String := if b then "1" else "0"
def joinWith (sep : String) (xs : List String) : String := sep.intercalate xs

def showAmt (a : Amt) : String := s!"{a.main} {a.sub} {a.unlock} {a.mainPct.raw} {a.subPct.raw}"

def lexLe : List Nat → List Nat → Bool
  | [], _ => true
  | _ :: _, [] => false
  | a :: as, b :: bs => if a < b then true else if b < a then false else lexLe as bs

def sortOn {α : Type} (key : α → List Nat) (xs : List α) : List α :=
  xs.mergeSort (fun a b => lexLe (key a) (key b))

def showState (s : State) : List String :=
  [s!"t {s.time}"]
  ++ (sortOn (fun (p : Promoter) => [p.uid]) s.promoters).map (fun p =>
      let addrs := joinWith "," (p.addresses.map toString)
      let conf := joinWith "," (p.conf.map (fun c => s!"{c.1}:{c.2}"))
      s!"P {p.uid} {p.creator} [{addrs}] [{conf}]")
  ++ (sortOn (fun (a : Nat × Nat) => [a.1]) s.byAddr).map (fun a => s!"A {a.1} {a.2}")
  ++ (sortOn (fun (c : Campaign) => [c.uid]) s.campaigns).map (fun c =>
      let mb := match c.maxBet with | some v => toString v | none => "x"
      s!"C {c.uid} {c.creator} {c.promoter} {c.startTS} {c.endTS} {c.category} {c.rtype} {c.amtType} {showAmt c.amt} {c.pool.total} {c.pool.spent} {c.pool.withdrawn} {b01 c.active} {c.capCount} {mb}")
  ++ (sortOn (fun (r : Reward) => [r.uid]) s.rewards).map (fun r =>
      s!"R {r.uid} {r.creator} {r.receiver} {r.campaign} {showAmt r.amt}")
  ++ (sortOn (fun (x : CatIdx) => [x.promoter, x.addr, x.category, x.uid]) s.byCat).map (fun x =>
      s!"X {x.promoter} {x.addr} {x.category} {x.uid}")
  ++ (sortOn (fun (y : Nat × Nat) => [y.1, y.2]) s.byCamp).map (fun y => s!"Y {y.1} {y.2}")
  ++ (sortOn (fun (x : Stat) => [x.campaign, x.addr]) s.stats).map (fun x => s!"S {x.campaign} {x.addr} {x.n}")
  ++ (sortOn (fun (g : Grant) => [g.granter, g.grantee, g.kind]) s.grants).map (fun g =>
      let e := match g.exp with | some v => toString v | none => "-"
      s!"G {g.granter} {g.grantee} {g.kind} {g.limit} {e}")
  ++ (sortOn (fun (u : Sub) => [u.owner]) s.subs).map (fun u =>
      let locks := joinWith "," ((sortOn (fun (l : Nat × Int) => [l.1]) u.locks).map (fun l => s!"{l.1}:{l.2}"))
      s!"U {u.owner} {s.bank (SUBBASE + u.owner)} {u.deposited} [{locks}]")
  ++ ["B " ++ joinWith " " ((s.bank POOL :: (List.range NACCT).map (fun a => s.bank a)).map toString)]

def parseOp (ws : List String) : Option Op :=
  match ws with
  | ["T", t] => some (.time (parseNat t))
  | "CP" :: cr :: tv :: uid :: ok :: _n :: rest =>
    some (.createPromoter { creator := parseNat cr, tv := pb tv, uid := parseNat uid, uidOk := pb ok, conf := parseConf rest })
  | "SC" :: cr :: uid :: tv :: _n :: rest =>
    some (.setConf { creator := parseNat cr, uid := parseNat uid, tv := pb tv, conf := parseConf rest })
  | ["CC", cr, uid, funds, tv, prom, st, en, cat, rt, aty, hasRA, ma, su, un, mp, sp, act, cap, cons] =>
    let ra : Option AmtP := if pb hasRA then
      some { main := optInt ma, sub := optInt su, unlock := parseNat un, mainPct := optDec mp, subPct := optDec sp } else none
    let cs : Option (Option Int) := if cons == "x" then none else some (optInt cons)
    some (.createCampaign {
      creator := parseNat cr, uid := parseNat uid, funds := optInt funds, tv := pb tv,
      promoter := parseNat prom, startTS := parseNat st, endTS := parseNat en, category := parseNat cat,
      rtype := parseNat rt, amtType := parseNat aty, ra := ra, active := pb act, capCount := parseNat cap, cons := cs })
  | ["UC", cr, uid, topup, tv, en, act] =>
    some (.updateCampaign {
      creator := parseNat cr, uid := parseNat uid, topup := optInt topup, tv := pb tv,
      endTS := parseNat en, active := pb act })
  | ["WF", cr, uid, amt, tv, prom] =>
    some (.withdraw { creator := parseNat cr, uid := parseNat uid, amount := optInt amt, tv := pb tv, promoter := parseNat prom })
  | ["GR", cr, uid, camp, tv, rcv, kyc, src, ref, bet] =>
    let k : Option (Bool × Bool × Bool) :=
      match kyc.toList with
      | [i, a, m] => some (i == '1', a == '1', m == '1')
      | _ => none
    some (.grant {
      creator := parseNat cr, uid := parseNat uid, campaign := parseNat camp, tv := pb tv,
      receiver := parseNat rcv, kyc := k, srcOk := pb src, referee := parseNat ref, bet := parseNat bet })
  | ["AG", gr, ge, k, lim, exp] => some (.authzGrant (parseNat gr) (parseNat ge) (parseNat k) (optInt lim) (optNat exp))
  | ["AR", gr, ge, k] => some (.authzRevoke (parseNat gr) (parseNat ge) (parseNat k))
  | ["BET", uid, owner, amt, res, im] =>
    some (.putBet { uid := parseNat uid, owner := parseNat owner, amount := parseInt amt, result := parseNat res, isMain := pb im })
  | ["SUBC", o] => some (.createSub (parseNat o))
  | ["SEND", f, t, a] => some (.bankSend (parseNat f) (parseNat t) (parseInt a))
  | _ => none

def stepLine (st : St) (line : String) : St × List String :=
  match words line with
  | [] => (st, [])
  | ["CFG", "fixed", v] => ({ st with fixed := pb v }, [])
  | ["CFG", "codec", v] => ({ st with codecFixed := pb v }, [])
  | ["CFG", "promoter", v] => ({ st with promoterFixed := pb v }, [])
  | ["N", h] => ({ st with s := { init st.fixed (fun _ => 0) with codecFixed := st.codecFixed, promoterFixed := st.promoterFixed } }, [s!"n {h}"])
  | ["INIT", bal] => ({ st with s := { init st.fixed (fun a => if a < NACCT then parseInt bal else 0) with codecFixed := st.codecFixed, promoterFixed := st.promoterFixed } }, [])
  | ws =>
    match parseOp ws with
    | none => (st, ["bad-op " ++ line])
    | some op =>
      match exec st.s op with
      | .ok s' => ({ st with s := s' }, "r ok" :: showState s')
      | .error _ => (st, "r err" :: showState st.s)   -- the kind of error is not compared (wording of the Go errors is free)

def main : IO Unit := runDriver ({} : St) stepLine
