/-
  Driver of the parameter slice (C17). Line protocol:

    N <h>                                   → n <h>            fresh state (the CFG flags are kept)
    CFG <flag> <0|1>                        →                  flag ∈ mintValidate mintClamp betFee house
    V mint <denom> <bpy> <exclude> <n> (<inflation> <coefficient>)*
    V bet <batch> <maxQuery> <minAmount> <fee>
    V house <minDeposit> <fee> <maxWithdrawals>
    V orderbook <maxParticipations> <batch> <threshold>
    V subaccount <0|1> <0|1>
    V reward | V market | V ovm
                                            → v <Validate> <per-field verdicts> <update, right authority> <update, wrong authority>
                                              x <MsgUpdateParams.ValidateBasic> <GenesisState.Validate> <InitGenesis does not panic>
    L <module> <i> <the fields of a V line>  → l <0|1>         field i alone, through the legacy ParameterChangeProposal
    P / M / B                               as in Driver.Mint (P prints `v`; B runs BeginBlocker of the tree selected by CFG)
    G <W|D> <wagerEnabled> <depositEnabled> → g <0|1>          does the subaccount switch let the message through

  <denom> is the comma-separated list of code points (`-` = empty string). `nil` stands for a nil Int / Dec
  (the validator panics on it: not accepted); a token that is not a value of the Go type is not accepted either.
-/
import Sge.Params
import Driver.Util
open Sge Sge.Params Driver

structure St where
  cfg : Cfg := {}
  p : Mint.Params := default
  m : Mint.Minter := default

def b01 (b : Bool) : String := if b then "1" else "0"
def bits (l : List Bool) : String := String.join (l.map b01)

/-- an optional integer: `none` for `nil` and for anything that is not a decimal integer -/
def optInt (s : String) : Option Int := s.toInt?
def optNat (s : String) (max : Nat) : Option Nat :=
  match s.toNat? with
  | some n => if n ≤ max then some n else none
  | none => none

def u32max : Nat := 4294967295
def u64max : Nat := 18446744073709551615

def parseDenom (s : String) : List Char :=
  if s == "-" then [] else (s.splitOn ",").map (fun t => Char.ofNat (t.toNat?.getD 0))

def parsePhasesOpt : List String → Option (List Mint.Phase)
  | [] => some []
  | i :: c :: rest =>
    match optInt i, optInt c, parsePhasesOpt rest with
    | some i, some c, some r => some ({ inflation := ⟨i⟩, yearCoef := ⟨c⟩ } :: r)
    | _, _, _ => none
  | _ => none

/-- verdict line: a field that could not be decoded (nil / out of range) fails, and so does `Validate` -/
def verdict (decoded : List Bool) (validate : Bool) (fields : List Bool) : List String :=
  let fs := (decoded.zip fields).map (fun x => x.1 && x.2)
  let ok := decoded.all id
  let v := ok && validate
  let acc := v && fs.all id
  -- x: MsgUpdateParams.ValidateBasic and GenesisState.Validate are Params.Validate; InitGenesis runs the field validators
  [s!"v {b01 v} {bits fs} {b01 (updateOk true acc)} {b01 (updateOk false acc)}", s!"x {b01 v} {b01 v} {b01 acc}"]

/-- the per-field verdicts of a `V` line, for the legacy ParameterChangeProposal path -/
def fieldBits (cfg : Cfg) : List String → Option (List Bool)
  | "mint" :: denom :: bpy :: ex :: _n :: rest =>
    let bpyO := (optInt bpy).filter (fun v => decide (-MintParams.maxInt64 - 1 ≤ v) && decide (v ≤ MintParams.maxInt64))
    let exO := optInt ex
    let phO := parsePhasesOpt rest
    let m : MintParams := { denom := parseDenom denom,
                            p := { blocksPerYear := bpyO.getD 0, exclude := exO.getD 0, phases := phO.getD [] } }
    some (([true, bpyO.isSome, phO.isSome, exO.isSome].zip (MintParams.fields cfg m)).map (fun x => x.1 && x.2))
  | ["bet", batch, maxq, mn, fee] =>
    let bO := optNat batch u32max; let qO := optNat maxq u32max; let mO := optInt mn; let fO := optInt fee
    let b : BetParams := { batch := bO.getD 0, maxQuery := qO.getD 0, minAmount := mO.getD 0, fee := fO.getD 0 }
    some (([bO.isSome, qO.isSome, mO.isSome && fO.isSome].zip (BetParams.fields cfg b)).map (fun x => x.1 && x.2))
  | ["house", mn, fee, maxw] =>
    let mO := optInt mn; let fO := optInt fee; let wO := optNat maxw u64max
    let h : HouseParams := { minDeposit := mO.getD 0, fee := ⟨fO.getD 0⟩, maxWithdrawals := wO.getD 0 }
    some (([mO.isSome, fO.isSome, wO.isSome].zip (HouseParams.fields cfg h)).map (fun x => x.1 && x.2))
  | ["orderbook", mp, batch, thr] =>
    let pO := optNat mp u64max; let bO := optNat batch u64max; let tO := optNat thr u64max
    let o : ObParams := { maxParticipations := pO.getD 0, batch := bO.getD 0, threshold := tO.getD 0 }
    some (([pO.isSome, bO.isSome, tO.isSome].zip (ObParams.fields cfg o)).map (fun x => x.1 && x.2))
  | ["subaccount", w, d] =>
    some (SubParams.fields cfg { wagerEnabled := w == "1", depositEnabled := d == "1" })
  | _ => none

def showMinter (m : Mint.Minter) : String :=
  s!"m {m.inflation.raw} {m.phaseStep} {m.phaseProvisions.raw} {m.truncated.raw}"

def parsePhases : List String → List Mint.Phase
  | i :: c :: rest => { inflation := ⟨parseInt i⟩, yearCoef := ⟨parseInt c⟩ } :: parsePhases rest
  | _ => []

def step (s : St) (line : String) : St × List String :=
  let cfg := s.cfg
  match words line with
  | ["N", h] => ({ cfg := cfg }, [s!"n {h}"])
  | ["CFG", "mintValidate", v] => ({ s with cfg := { cfg with mintValidate := v == "1" } }, [])
  | ["CFG", "mintClamp", v] => ({ s with cfg := { cfg with mintClamp := v == "1" } }, [])
  | ["CFG", "betFee", v] => ({ s with cfg := { cfg with betFee := v == "1" } }, [])
  | ["CFG", "house", v] => ({ s with cfg := { cfg with house := v == "1" } }, [])
  | ["CFG", "houseFeeCap", v] => ({ s with cfg := { cfg with houseFeeCap := v == "1" } }, [])
  | "V" :: "mint" :: denom :: bpy :: ex :: _n :: rest =>
    let bpyO := (optInt bpy).filter (fun v => decide (-MintParams.maxInt64 - 1 ≤ v) && decide (v ≤ MintParams.maxInt64))
    let exO := optInt ex
    let phO := parsePhasesOpt rest
    let m : MintParams := { denom := parseDenom denom,
                            p := { blocksPerYear := bpyO.getD 0, exclude := exO.getD 0, phases := phO.getD [] } }
    (s, verdict [true, bpyO.isSome, phO.isSome, exO.isSome] (MintParams.validate cfg m) (MintParams.fields cfg m))
  | ["V", "bet", batch, maxq, mn, fee] =>
    let bO := optNat batch u32max; let qO := optNat maxq u32max; let mO := optInt mn; let fO := optInt fee
    let b : BetParams := { batch := bO.getD 0, maxQuery := qO.getD 0, minAmount := mO.getD 0, fee := fO.getD 0 }
    let cDec := mO.isSome && fO.isSome
    (s, verdict [bO.isSome, qO.isSome, cDec] (BetParams.validate cfg b) (BetParams.fields cfg b))
  | ["V", "house", mn, fee, maxw] =>
    let mO := optInt mn; let fO := optInt fee; let wO := optNat maxw u64max
    let h : HouseParams := { minDeposit := mO.getD 0, fee := ⟨fO.getD 0⟩, maxWithdrawals := wO.getD 0 }
    (s, verdict [mO.isSome, fO.isSome, wO.isSome] (HouseParams.validate cfg h) (HouseParams.fields cfg h))
  | ["V", "orderbook", mp, batch, thr] =>
    let pO := optNat mp u64max; let bO := optNat batch u64max; let tO := optNat thr u64max
    let o : ObParams := { maxParticipations := pO.getD 0, batch := bO.getD 0, threshold := tO.getD 0 }
    (s, verdict [pO.isSome, bO.isSome, tO.isSome] (ObParams.validate cfg o) (ObParams.fields cfg o))
  | ["V", "subaccount", w, d] =>
    let sp : SubParams := { wagerEnabled := w == "1", depositEnabled := d == "1" }
    (s, verdict [true, true] (SubParams.validate cfg sp) (SubParams.fields cfg sp))
  | ["V", "reward"] => (s, verdict [] emptyParamsAccepted [])
  | ["V", "market"] => (s, verdict [] emptyParamsAccepted [])
  | ["V", "ovm"] => (s, verdict [] emptyParamsAccepted [])
  | "L" :: module :: i :: rest =>
    match fieldBits cfg (module :: rest) with
    | some fs => (s, [s!"l {b01 (fs.getD (parseNat i) false)}"])
    | none => (s, ["bad-op " ++ line])
  | ["G", kind, w, d] =>
    let sp : SubParams := { wagerEnabled := w == "1", depositEnabled := d == "1" }
    (s, [s!"g {b01 (if kind == "W" then sp.wagerEnabled else sp.depositEnabled)}"])
  -- the mint behaviour part: same lines as Driver.Mint
  | "P" :: bpy :: ex :: _n :: rest =>
    let p : Mint.Params := { blocksPerYear := parseInt bpy, exclude := parseInt ex, phases := parsePhases rest }
    ({ s with p := p }, [s!"v {b01 (MintParams.validate cfg { denom := ['u', 's', 'g', 'e'], p := p })}"])
  | ["M", i, st, pr, tr] =>
    ({ s with m := { inflation := ⟨parseInt i⟩, phaseStep := parseInt st, phaseProvisions := ⟨parseInt pr⟩, truncated := ⟨parseInt tr⟩ } }, [])
  | ["B", h, sup] =>
    let (m', r) := mintBeginBlock cfg s.p s.m (parseInt h) (parseInt sup)
    let rs := match r with
      | .ok n => s!"r {n}"
      | .halt => "r halt"
    ({ s with m := m' }, [rs, showMinter m'])
  | [] => (s, [])
  | _ => (s, ["bad-op " ++ line])

def main : IO Unit := runDriver ({} : St) step
