import Sge.Genesis
import Driver.CoreStep
open Sge Sge.Core Driver

/-
  line protocol of the genesis suite (property C16):
    N <h>                         new history
    CFG <house> <ob> <reward> <ovm>   which patched variants /repo contains (0 = code as it is)
    every line of the core protocol (Driver/CoreStep.lean): replayed on the core model, same output
    L <state line>                state of ovm / subaccount / mint / reward of the implementation at the export point:
        ov <pem>* | oc <count> | op a|f <id> <creator> <start> <finish> <result> <leader> k <pem>* w <pem>:<vote>*
        sn <id> | sp <wager> <deposit> | so <owner> <addr> | sr <addr> <owner> | ss <addr> <dep> <spent> <wd> <lost> | sl <addr> <ts> <amount>
        mm <inflation> <step> <provisions> <truncated> | mp <blocksPerYear> <exclude> <n> (<inflation> <coef>)*
        rp <uid> <digest> | ra <addr> <uid> | rc <uid> <promoterAddr> <cap> <digest> | rr <uid> <campaign> <receiver> <digest>
        rg <promoterUid> <receiver> <category> <uid> | rm <campaign> <uid> | rs <campaign> <addr> <count>
    XI <core 0|1>                 export, validate, import.  Output:
        xv <module> <code>        validate (export σ): 0 = valid, else the number of the failing check
        xi <module> <0|1>         import did not panic
        inv <0|1>                 the model invariant `Inv` of the C16 theorems holds of σ (checked on every export point)
        the canonical state of import (export σ): core dump (if core = 1), then the `L` lines' formats
-/

namespace GenesisDrv
open Sge.Genesis

structure GSt where
  core : St := {}
  cfg : Cfg := {}
  ovm : Ovm.State := { vault := [], active := [], finished := [], count := 0 }
  sub : Subaccount.State := {}
  minter : Mint.Minter := default
  mparams : Mint.Params := default
  reward : RewardStores := emptyReward

def b (x : String) : Bool := x != "0"

def voteOf (n : Nat) : Ovm.Vote := if n == 2 then .yes else .no
def voteNum : Ovm.Vote → Nat
  | .no => 1
  | .yes => 2
def resultOf : Nat → Ovm.Result
  | 1 => .approved
  | 2 => .rejected
  | 3 => .expired
  | _ => .unspecified
def resultNum : Ovm.Result → Nat
  | .unspecified => 0
  | .approved => 1
  | .rejected => 2
  | .expired => 3

def parseVotes (ws : List String) : List (Nat × Ovm.Vote) :=
  ws.map fun w =>
    match w.splitOn ":" with
    | [k, v] => (parseNat k, voteOf (parseNat v))
    | _ => (0, .no)

def showProposal (tag : String) (p : Ovm.Proposal) : String :=
  s!"op {tag} {p.id} {p.creator} {p.startTS} {p.finishTS} {resultNum p.result} {p.leader} k" ++
    String.join (p.keys.map (fun k => " " ++ toString k)) ++ " w" ++
    String.join (p.votes.map (fun w => " " ++ toString w.1 ++ ":" ++ toString (voteNum w.2)))

def showOvm (s : Ovm.State) : List String :=
  ["ov" ++ String.join (s.vault.map (fun k => " " ++ toString k)), s!"oc {s.count}"] ++
  s.active.map (showProposal "a") ++ s.finished.map (showProposal "f")

def nUsers : Nat := 12
def subCands (s : Subaccount.State) : List Nat := (List.range (s.nextId + 1)).map Subaccount.addrOf
def ownerCands (s : Subaccount.State) : List Nat := List.range nUsers ++ subCands s

def showSub (s : Subaccount.State) : List String :=
  let b2 (x : Bool) : Nat := if x then 1 else 0
  [s!"sn {s.nextId}", s!"sp {b2 s.wagerEnabled} {b2 s.depositEnabled}"] ++
  -- tags in alphabetical order: sl, so, sr, ss
  ((subCands s).map (fun a =>
    match s.subs a with
    | some sub => (sortLocks sub.locks).map (fun l => s!"sl {a} {l.1} {l.2}")
    | none => [])).flatten ++
  (ownerCands s).filterMap (fun o =>
    match s.ownerMap o with
    | some a => some s!"so {o} {a}"
    | none => none) ++
  (subCands s).filterMap (fun a =>
    match s.subMap a with
    | some o => some s!"sr {a} {o}"
    | none => none) ++
  (subCands s).filterMap (fun a =>
    match s.subs a with
    | some sub => some s!"ss {a} {sub.sum.deposited} {sub.sum.spent} {sub.sum.withdrawn} {sub.sum.lost}"
    | none => none)

def showMint (m : Mint.Minter) (p : Mint.Params) : List String :=
  [s!"mm {m.inflation.raw} {m.phaseStep} {m.phaseProvisions.raw} {m.truncated.raw}",
   s!"mp {p.blocksPerYear} {p.exclude} {p.phases.length}" ++
     String.join (p.phases.map (fun ph => s!" {ph.inflation.raw} {ph.yearCoef.raw}"))]

def showReward (r : RewardStores) : List String :=
  r.promoters.map (fun x => s!"rp {x.1} {x.2}") ++
  r.byAddress.map (fun x => s!"ra {x.1} {x.2}") ++
  r.campaigns.map (fun c => s!"rc {c.uid} {c.promoter} {c.capCount} {c.digest}") ++
  r.rewards.map (fun x => s!"rr {x.uid} {x.campaign} {x.receiver} {x.digest}") ++
  r.byCategory.map (fun x => s!"rg {x.promoterUid} {x.receiver} {x.category} {x.uid}") ++
  r.byCampaign.map (fun x => s!"rm {x.1} {x.2}") ++
  r.grantStats.map (fun x => s!"rs {x.1} {x.2.1} {x.2.2}")

def parsePhases : List String → List Mint.Phase
  | i :: c :: rest => { inflation := ⟨parseInt i⟩, yearCoef := ⟨parseInt c⟩ } :: parsePhases rest
  | _ => []

def subOf (s : Subaccount.State) (a : Nat) : Subaccount.Sub := (s.subs a).getD {}

/-- one `L` line -/
def load (g : GSt) (ws : List String) : Option GSt :=
  match ws with
  | "ov" :: ks => some { g with ovm := { g.ovm with vault := ks.map parseNat } }
  | ["oc", c] => some { g with ovm := { g.ovm with count := parseNat c } }
  | "op" :: tag :: id :: creator :: start :: fin :: res :: leader :: "k" :: rest =>
    let ks := rest.takeWhile (· != "w")
    let ws := (rest.dropWhile (· != "w")).drop 1
    let p : Ovm.Proposal := { id := parseNat id, creator := parseNat creator, keys := ks.map parseNat, leader := parseNat leader,
                              votes := parseVotes ws, startTS := parseInt start, finishTS := parseInt fin, result := resultOf (parseNat res) }
    if tag == "f" then some { g with ovm := { g.ovm with finished := g.ovm.finished ++ [p] } }
    else some { g with ovm := { g.ovm with active := g.ovm.active ++ [p] } }
  | ["sn", id] => some { g with sub := { g.sub with nextId := parseNat id } }
  | ["sp", w, d] => some { g with sub := { g.sub with wagerEnabled := b w, depositEnabled := b d } }
  | ["so", o, a] => some { g with sub := { g.sub with ownerMap := Subaccount.upd g.sub.ownerMap (parseNat o) (some (parseNat a)) } }
  | ["sr", a, o] => some { g with sub := { g.sub with subMap := Subaccount.upd g.sub.subMap (parseNat a) (some (parseNat o)) } }
  | ["ss", a, d, sp, w, l] =>
    let a := parseNat a
    let sub := subOf g.sub a
    let sub' : Subaccount.Sub := { sub with sum := { deposited := parseInt d, spent := parseInt sp, withdrawn := parseInt w, lost := parseInt l } }
    some { g with sub := { g.sub with subs := Subaccount.upd g.sub.subs a (some sub') } }
  | ["sl", a, ts, amt] =>
    let a := parseNat a
    let sub := subOf g.sub a
    let sub' : Subaccount.Sub := { sub with locks := Subaccount.setLock sub.locks (parseNat ts, parseInt amt) }
    some { g with sub := { g.sub with subs := Subaccount.upd g.sub.subs a (some sub') } }
  | ["mm", i, st, pr, tr] =>
    some { g with minter := { inflation := ⟨parseInt i⟩, phaseStep := parseInt st, phaseProvisions := ⟨parseInt pr⟩, truncated := ⟨parseInt tr⟩ } }
  | "mp" :: bpy :: ex :: _n :: rest =>
    some { g with mparams := { blocksPerYear := parseInt bpy, exclude := parseInt ex, phases := parsePhases rest } }
  | ["rp", u, d] => some { g with reward := { g.reward with promoters := g.reward.promoters ++ [(parseNat u, parseNat d)] } }
  | ["ra", a, u] => some { g with reward := { g.reward with byAddress := g.reward.byAddress ++ [(parseNat a, parseNat u)] } }
  | ["rc", u, p, c, d] =>
    some { g with reward := { g.reward with campaigns := g.reward.campaigns ++ [{ uid := parseNat u, promoter := parseNat p, capCount := parseNat c, digest := parseNat d }] } }
  | ["rr", u, c, r, d] =>
    some { g with reward := { g.reward with rewards := g.reward.rewards ++ [{ uid := parseNat u, campaign := parseNat c, receiver := parseNat r, digest := parseNat d }] } }
  | ["rg", p, r, c, u] =>
    some { g with reward := { g.reward with byCategory := g.reward.byCategory ++ [{ promoterUid := parseNat p, receiver := parseNat r, category := parseNat c, uid := parseNat u }] } }
  | ["rm", c, u] => some { g with reward := { g.reward with byCampaign := g.reward.byCampaign ++ [(parseNat c, parseNat u)] } }
  | ["rs", c, a, n] => some { g with reward := { g.reward with grantStats := g.reward.grantStats ++ [(parseNat c, parseNat a, parseNat n)] } }
  | _ => none

def b01 (x : Bool) : Nat := if x then 1 else 0

/-- the export point -/
def exportImport (g : GSt) (withCore : Bool) : GSt × List String :=
  let s := g.core.s
  -- mint
  let mg := exportMint g.minter g.mparams
  let mi := importMint mg
  -- core
  let cg := exportCore s
  let base := freshCore s
  let s1 := importMarket cg.market (importBet cg.bet base)
  let (s2, obOk) := match importOb cg.ob s1 with
    | some x => (x, true)
    | none => (s1, false)
  let s3 := importHouse cg.house s2
  -- ovm
  let og := exportOvm g.ovm
  let oi := importOvm og
  -- reward
  let rg := exportReward g.cfg.rewardFixed g.reward
  let (ri, rOk) := match importReward g.cfg.rewardFixed rg with
    | some x => (x, true)
    | none => (emptyReward, false)
  -- subaccount
  let (sv, si, sOk) := match exportSub g.sub with
    | some sg => (validateSub sg, importSub sg g.sub, true)
    | none => (0, g.sub, false)
  let coreV := if withCore then
      [("bet", validateBet cg.bet), ("market", validateMarket cg.market), ("orderbook", validateOb g.cfg.obFixed cg.ob)] else []
  let houseV := if withCore then [("house", validateHouse g.cfg.houseFixed cg.house)] else []
  let verdicts := [("mint", validateMint mg)] ++ coreV ++ [("ovm", validateOvm g.cfg.ovmFixed og)] ++ houseV ++
    [("reward", validateReward rg), ("subaccount", sv)]
  let coreI := if withCore then [("bet", true), ("market", true), ("orderbook", obOk)] else []
  let houseI := if withCore then [("house", true)] else []
  let imports := [("mint", true)] ++ coreI ++ [("ovm", true)] ++ houseI ++ [("reward", rOk), ("subaccount", sOk)]
  let invs := (if withCore then [marketInv s, houseInv s, betInv s, obInv s] else []) ++ [ovmInv g.ovm, rewardInv g.reward, subInvB g.sub (List.range nUsers)]
  let out := verdicts.map (fun v => s!"xv {v.1} {v.2}") ++ imports.map (fun v => s!"xi {v.1} {b01 v.2}") ++
    ["inv" ++ String.join (invs.map (fun x => s!" {b01 x}"))] ++
    (if withCore then dump s3 else []) ++
    showOvm oi ++ showSub si ++ showMint mi.1 mi.2 ++ showReward ri
  let core' : St := if withCore then { g.core with s := s3 } else g.core
  -- the handed-over states are consumed: the next export point sends them again
  ({ core := core', cfg := g.cfg }, out)

def step (g : GSt) (line : String) : GSt × List String :=
  match words line with
  | ["N", h] => ({}, [s!"n {h}"])
  | ["CFG", h, o, r, v] => ({ g with cfg := { houseFixed := b h, obFixed := b o, rewardFixed := b r, ovmFixed := b v } }, [])
  | "L" :: ws =>
    match load g ws with
    | some g' => (g', [])
    | none => (g, ["bad-op " ++ line])
  | ["XI", c] => exportImport g (b c)
  | _ =>
    let (c', out) := _root_.step g.core line
    ({ g with core := c' }, out)

end GenesisDrv

def main : IO Unit := runDriver ({} : GenesisDrv.GSt) GenesisDrv.step
