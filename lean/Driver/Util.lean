/- shared helpers of the line-protocol drivers (core only) -/
namespace Driver

def words (s : String) : List String := (s.splitOn " ").filter (· ≠ "")

def parseInt? (s : String) : Option Int := s.toInt?
def parseInt (s : String) : Int := s.toInt?.getD 0
def parseNat (s : String) : Nat := s.toNat?.getD 0

partial def loop {σ : Type} (h : IO.FS.Stream) (out : IO.FS.Stream) (step : σ → String → σ × List String) (s : σ) : IO Unit := do
  let line ← h.getLine
  if line.isEmpty then
    out.flush
    return ()
  let l := (line.dropEndWhile (fun c => c == '
' || c == '')).toString
  let (s', outs) := step s l
  for o in outs do out.putStrLn o
  loop h out step s'

def runDriver {σ : Type} (init : σ) (step : σ → String → σ × List String) : IO Unit := do
  let stdin ← IO.getStdin
  let stdout ← IO.getStdout
  loop stdin stdout step init

end Driver
