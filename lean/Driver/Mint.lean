import Sge.Mint
import Driver.Util
open Sge Sge.Mint Driver

structure St where
  p : Params := default
  m : Minter := default

def parsePhases : List String → List Phase
  | i :: c :: rest => { inflation := ⟨parseInt i⟩, yearCoef := ⟨parseInt c⟩ } :: parsePhases rest
  | _ => []

def showMinter (m : Minter) : String :=
  s!"m {m.inflation.raw} {m.phaseStep} {m.phaseProvisions.raw} {m.truncated.raw}"

def step (s : St) (line : String) : St × List String :=
  match words line with
  | "P" :: bpy :: ex :: _n :: rest =>
    let p : Params := { blocksPerYear := parseInt bpy, exclude := parseInt ex, phases := parsePhases rest }
    ({ s with p := p }, [s!"v {if paramsValid p then 1 else 0}"])
  | ["M", i, st, pr, tr] =>
    ({ s with m := { inflation := ⟨parseInt i⟩, phaseStep := parseInt st, phaseProvisions := ⟨parseInt pr⟩, truncated := ⟨parseInt tr⟩ } }, [])
  | ["B", h, sup] =>
    let (m', r) := beginBlock s.p s.m (parseInt h) (parseInt sup)
    let rs := match r with
      | .ok n => s!"r {n}"
      | .halt => "r halt"
    ({ s with m := m' }, [rs, showMinter m'])
  | ["C", h] =>
    let (_, st) := currentPhase s.p (parseInt h)
    (s, [s!"c {st}"])
  | ["N", h] => ({}, [s!"n {h}"])
  | [] => (s, [])
  | _ => (s, ["bad-op " ++ line])

def main : IO Unit := runDriver ({} : St) step
