import Sge.Ticket
import Driver.Util
open Sge.Ticket Driver

/-
  line protocol of the ticket slice (C06).  All numbers decimal; `-` = absent (exp / nbf / iat), `-1` = no key.

    N <h>
    K <now> <nv> <pem>*nv <tk>                         keeper level: OVMKeeper.VerifyTicketUnmarshal (leader mode)
        -> `t accept|reject`
    M <handler> <class> <now> <nv> <pem>*nv <ntk> (<mode> <idx> <tk>)*ntk <hasKyc> [<ignore> <approved> <id> <actor>]
        -> `r ok|err`       verdict of an otherwise valid message of that handler
    <tk>   = <parts> <headerOk> <alg> <claimsOk> <exp> <sigB64> <sigKey> <payloadFits> <sigCanonical> <nbf> <iat>
    <alg>  = 0 EdDSA | 1 none | 2 HS256 | 3 ES256 | 4 RS256 | 5 other
    <mode> = 0 leader | 1 index <idx> | 2 any
  `<handler>` and `<class>` are labels (not interpreted).
-/

def b (x : String) : Bool := x != "0"

def optInt (x : String) : Option Int := if x == "-" then none else x.toInt?

def algOf (x : String) : Alg :=
  match x with
  | "0" => .EdDSA | "1" => .none | "2" => .HS256 | "3" => .ES256 | "4" => .RS256 | _ => .other

def tkWords : Nat := 11

def parseTk (w : List String) : Option (Presented Unit) :=
  match w with
  | [parts, hdr, alg, claims, exp, sb, sk, fits, canon, nbf, iat] =>
    some { parts := parseNat parts, headerOk := b hdr, alg := algOf alg, claimsOk := b claims, exp := optInt exp,
           sigB64 := b sb, sigKey := if sk == "-1" then none else some (parseNat sk),
           payload := if b fits then some () else none, sigCanonical := b canon, nbf := optInt nbf, iat := optInt iat }
  | _ => none

def modeOf (m idx : String) : Mode :=
  match m with
  | "0" => .leader | "1" => .index (parseNat idx) | _ => .any

/-- `n` tickets, each `<mode> <idx> <tk>` -/
def parseTks : Nat → List String → Option (List (Mode × Presented Unit) × List String)
  | 0, w => some ([], w)
  | n + 1, m :: idx :: w =>
    match parseTk (w.take tkWords) with
    | none => none
    | some t =>
      match parseTks n (w.drop tkWords) with
      | none => none
      | some (ts, rest) => some ((modeOf m idx, t) :: ts, rest)
  | _, _ => none

def parseKyc (w : List String) : Option (Option (Kyc × Nat)) :=
  match w with
  | ["0"] => some none
  | ["1", ign, appr, id, actor] => some (some ({ ignore := b ign, approved := b appr, id := parseNat id }, parseNat actor))
  | _ => none

def step (st : Unit) (line : String) : Unit × List String :=
  match words line with
  | "K" :: now :: nv :: rest =>
    let n := parseNat nv
    let vault := (rest.take n).map parseNat
    match parseTk (rest.drop n) with
    | some t => (st, [if (verifyLeader vault (parseInt now) t).isSome then "t accept" else "t reject"])
    | none => (st, ["bad-op " ++ line])
  | "M" :: _handler :: _class :: now :: nv :: rest =>
    let n := parseNat nv
    let vault := (rest.take n).map parseNat
    match rest.drop n with
    | ntk :: rest2 =>
      match parseTks (parseNat ntk) rest2 with
      | some (tks, rest3) =>
        match parseKyc rest3 with
        | some kyc => (st, [if msgVerdict vault (parseInt now) tks kyc then "r ok" else "r err"])
        | none => (st, ["bad-op " ++ line])
      | none => (st, ["bad-op " ++ line])
    | [] => (st, ["bad-op " ++ line])
  | ["N", h] => (st, [s!"n {h}"])
  | [] => (st, [])
  | _ => (st, ["bad-op " ++ line])

def main : IO Unit := runDriver () step
