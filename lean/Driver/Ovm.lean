import Sge.Ovm
import Driver.Util
open Sge.Ovm Driver

/-
  line protocol of the ovm slice (all numbers decimal; `-1` = none for the signer):
    N <h>
    G <fixed 0|1> <n> <pem>*n                                   genesis vault (and model variant)
    S <now> <creator> <fmt> <exp> <alg> <signer> <payloadOk> <leader> <n> <pem>*n
    V <now> <idx> <fmt> <exp> <alg> <signer> <payloadOk> <proposalId> <vote>
    E <now>
  output per op: `r ok|err|halt`, then the complete state:
    v <pem>*            vault in order
    c <count>           stats counter
    p a|f <id> <creator> <start> <finish> <result> <leader> k <pem>* w <pem>:<vote>*
-/

structure St where
  fixed : Bool := false
  s : State := genesis []

def b (x : String) : Bool := x != "0"

def voteNum : Vote → Nat
  | .no => 1
  | .yes => 2

def resultNum : Result → Nat
  | .unspecified => 0
  | .approved => 1
  | .rejected => 2
  | .expired => 3

def showProposal (tag : String) (p : Proposal) : String :=
  let ks := p.keys.map (fun k => " " ++ toString k)
  let ws := p.votes.map (fun w => " " ++ toString w.1 ++ ":" ++ toString (voteNum w.2))
  s!"p {tag} {p.id} {p.creator} {p.startTS} {p.finishTS} {resultNum p.result} {p.leader} k" ++
    String.join ks ++ " w" ++ String.join ws

def showState (s : State) : List String :=
  ["v" ++ String.join (s.vault.map (fun k => " " ++ toString k)), s!"c {s.count}"] ++
  s.active.map (showProposal "a") ++ s.finished.map (showProposal "f")

def signerOf (x : String) : Option Key := if x == "-1" then none else some (parseNat x)

def step (st : St) (line : String) : St × List String :=
  match words line with
  | "G" :: fx :: _n :: pems =>
    let s := genesis (pems.map parseNat)
    ({ fixed := b fx, s := s }, "r ok" :: showState s)
  | "S" :: now :: creator :: fmt :: exp :: alg :: signer :: pok :: leader :: _n :: pems =>
    let pl : ProposalPayload := { keys := pems.map parseNat, leader := parseNat leader }
    let t : Ticket ProposalPayload := { format := b fmt, exp := parseInt exp, alg := b alg, signer := signerOf signer,
                                        payload := if b pok then some pl else none }
    let (s', ok) := submitMsg st.fixed st.s (parseInt now) (parseNat creator) t
    ({ st with s := s' }, (if ok then "r ok" else "r err") :: showState s')
  | ["V", now, idx, fmt, exp, alg, signer, pok, pid, vote] =>
    let pl : VotePayload := { proposalId := parseNat pid, vote := parseNat vote }
    let t : Ticket VotePayload := { format := b fmt, exp := parseInt exp, alg := b alg, signer := signerOf signer,
                                    payload := if b pok then some pl else none }
    let (s', ok) := voteMsg st.fixed st.s (parseInt now) (parseNat idx) t
    ({ st with s := s' }, (if ok then "r ok" else "r err") :: showState s')
  | ["E", now] =>
    let (s', r) := endBlock st.fixed st.s (parseInt now)
    ({ st with s := s' }, (if r == .ok then "r ok" else "r halt") :: showState s')
  | ["N", h] => ({}, [s!"n {h}"])
  | [] => (st, [])
  | _ => (st, ["bad-op " ++ line])

def main : IO Unit := runDriver ({} : St) step
