/-
  What ONE `Settle` call pays (C03, whole-history part): the exact change of every balance, the market that dictates
  the result, and the record written — in any state satisfying the bet-index invariant `BetIdx`.
  Nothing here assumes `0 ≤ f.bet` for a backing part.
-/
import SgeProofs.Properties.C08Index
import SgeProofs.Properties.C10Sums
import SgeProofs.Lemmas.CustodySettleDefs
namespace Sge.Core
open Sge Sge.Genesis

-- ---------------------------------------------------------------------------------------------
-- the bank, for every account (source and destination may coincide)

theorem bp_transfer_bal {bal bal' : List (Nat × Int)} {a b : Nat} {x : Int} (h : transfer bal a b x = some bal') (c : Nat) :
    getBal bal' c = getBal bal c - (if c = a then x else 0) + (if c = b then x else 0) := by
  unfold transfer at h
  split at h
  · cases h
  · split at h
    · cases h
    · split at h
      · rename_i hz
        simp only [Option.some.injEq] at h
        subst h
        subst hz
        simp only [ite_self]
        omega
      · simp only [Option.some.injEq] at h
        subst h
        by_cases hcb : c = b
        · subst hcb
          rw [getBal_setBal_self]
          by_cases hca : c = a
          · subst hca
            rw [getBal_setBal_self]
            simp only [if_true]
          · rw [getBal_setBal_ne _ _ _ _ (Ne.symm hca)]
            simp only [if_true, if_neg hca]
            omega
        · rw [getBal_setBal_ne _ _ _ _ (Ne.symm hcb)]
          by_cases hca : c = a
          · subst hca
            rw [getBal_setBal_self]
            simp only [if_true, if_neg hcb]
            omega
          · rw [getBal_setBal_ne _ _ _ _ (Ne.symm hca)]
            simp only [if_neg hca, if_neg hcb]
            omega

theorem bp_bankSend_bal {s s' : State} {a b : Nat} {x : Int} (h : bankSend s a b x = some s') (c : Nat) :
    getBal s'.bal c = getBal s.bal c - (if c = a then x else 0) + (if c = b then x else 0) := by
  obtain ⟨bal', ht, rfl⟩ := bankSend_shape h
  exact bp_transfer_bal ht c

theorem bp_bankSend_frame {s s' : State} {a b : Nat} {x : Int} (h : bankSend s a b x = some s') :
    s'.bets = s.bets ∧ s'.markets = s.markets ∧ s'.height = s.height := by
  obtain ⟨bal', _, rfl⟩ := bankSend_shape h
  exact ⟨rfl, rfl, rfl⟩

-- ---------------------------------------------------------------------------------------------
-- BettorWins / BettorLoses for every account

/-- BettorWins moves exactly Σ (stake + promised profit) of the parts from the pool to the bettor -/
theorem bp_bettorWins_bal (bettor : Nat) : ∀ (fs : List Fulf) (bal : List (Nat × Int)) (b : Book) (r : List (Nat × Int) × Book),
    bettorWins bal bettor b fs = some r → ∀ a,
    getBal r.1 a = getBal bal a + (if a = bettor then sumBet fs + sumProfit fs else 0)
      - (if a = ACC_POOL then sumBet fs + sumProfit fs else 0) := by
  intro fs
  induction fs with
  | nil =>
    intro bal b r h a
    simp only [bettorWins, Option.some.injEq] at h
    rw [← h]
    simp [sumBet, sumProfit]
  | cons f rest ih =>
    intro bal b r h a
    unfold bettorWins at h
    simp only [bind, Option.bind_eq_some_iff] at h
    obtain ⟨p, _, bal', ht, hrest⟩ := h
    have h1 := ih _ _ _ hrest a
    have h2 := bp_transfer_bal ht a
    have e1 : sumBet (f :: rest) = f.bet + sumBet rest := by simp [sumBet]
    have e2 : sumProfit (f :: rest) = f.profit + sumProfit rest := by simp [sumProfit]
    rw [h1, h2, e1, e2]
    split <;> split <;> omega

/-- settleResolved: a winner is paid from the pool, a loser nothing -/
theorem bp_settleOutcome_bal {bal : List (Nat × Int)} {won : Bool} {bettor : Nat} {b : Book} {fs : List Fulf}
    {r : List (Nat × Int) × Book} (h : settleOutcome bal won bettor b fs = some r) (a : Nat) :
    getBal r.1 a = getBal bal a + (if a = bettor then (if won then sumBet fs + sumProfit fs else 0) else 0)
      - (if a = ACC_POOL then (if won then sumBet fs + sumProfit fs else 0) else 0) := by
  unfold settleOutcome at h
  cases won with
  | true =>
    simp only [if_true] at h ⊢
    exact bp_bettorWins_bal bettor fs bal b r h a
  | false =>
    simp only [Bool.false_eq_true, if_false, Option.map_eq_some_iff] at h ⊢
    obtain ⟨_, _, rfl⟩ := h
    simp

-- ---------------------------------------------------------------------------------------------
-- the amounts of one settlement

/-- the market was cancelled or aborted: bets are refunded -/
def bpRefund (m : Market) : Bool := m.status == MS_ABORTED || m.status == MS_CANCELED

/-- the result `Settle` records for bet `x` on market `m` -/
def bpResult (m : Market) (x : Bet) : Nat :=
  if bpRefund m then BR_REFUNDED else if m.winners.contains x.odds then BR_WON else BR_LOST

/-- what the pool pays the bettor: recorded stake on a refund, Σ (stake + promised profit) of the parts to a winner,
    nothing to a loser -/
def bpPay (m : Market) (x : Bet) : Int :=
  if bpRefund m then x.amount else if m.winners.contains x.odds then sumBet x.fulfs + sumProfit x.fulfs else 0

/-- who receives the bet fee: the bettor on a refund, the market creator on a declared result -/
def bpFeeTo (m : Market) (x : Bet) : Nat := if bpRefund m then x.creator else m.creator

/-- the record `Settle` writes -/
def bpSettledRec (m : Market) (x : Bet) (h : Nat) : Bet :=
  { x with status := BS_SETTLED, result := bpResult m x, settleHeight := h }

/-- ONE `Settle` CALL, exactly. In a state satisfying `BetIdx`, a successful `Settle(creator, uid)` with the creator
    and uid of the stored bet `x` : `x` was not settled; its market `m` is cancelled, aborted or declared; the new bet
    store is the old one with the record of `x` replaced by the settled record; markets and height are untouched;
    and for every account the balance changes by exactly the payment and the fee. -/
theorem bp_settleBet_exact {τ τ' : State} {x : Bet} (hI : BetIdx τ) (hx : x ∈ τ.bets)
    (h : settleBet τ x.creator x.uid = some τ') :
    x.status ≠ BS_SETTLED ∧ ∃ m, getMarket τ x.market = some m ∧
      (bpRefund m = true ∨ m.status = MS_DECLARED) ∧
      τ'.bets = upsert Bet.key (bpSettledRec m x τ.height) τ.bets ∧
      τ'.markets = τ.markets ∧ τ'.height = τ.height ∧
      ∀ a, getBal τ'.bal a = getBal τ.bal a
        + (if a = x.creator then bpPay m x else 0) + (if a = bpFeeTo m x then x.fee else 0)
        - (if a = ACC_POOL then bpPay m x else 0) - (if a = ACC_BETFEE then x.fee else 0) := by
  unfold settleBet at h
  simp only [bind, Option.bind_eq_some_iff] at h
  obtain ⟨bet0, hf, bet, hb, _, hst, m, hm, h⟩ := h
  have hst := chk_some hst
  have e0 : bet0 = x :=
    hI.uidInj bet0 (List.mem_of_find?_eq_some hf) x hx (by simpa using List.find?_some hf)
  subst e0
  have hb' : lookup Bet.key (Bet.key bet0) τ.bets = some bet0 := lookup_of_mem_sorted Bet.key bet0 τ.bets hI.sBets hx
  have e1 : bet = bet0 := by
    have : lookup Bet.key [bet0.creator, bet0.id] τ.bets = some bet0 := hb'
    rw [this] at hb
    cases hb; rfl
  subst e1
  have hns : bet.status ≠ BS_SETTLED := by
    intro e; simp [e] at hst
  refine ⟨hns, m, hm, ?_⟩
  split at h
  · rename_i hc
    have hr : bpRefund m = true := hc
    unfold settleRefund at h
    simp only [bind, Option.bind_eq_some_iff, pure, Option.some.injEq] at h
    obtain ⟨s1, h1, s2, h2, rfl⟩ := h
    have b1 := bp_bankSend_bal h1
    have b2 := bp_bankSend_bal h2
    obtain ⟨f1, f2, f3⟩ := bp_bankSend_frame h1
    obtain ⟨g1, g2, g3⟩ := bp_bankSend_frame h2
    refine ⟨Or.inl hr, ?_, ?_, ?_, ?_⟩
    · show upsert Bet.key _ s2.bets = _
      rw [g1, f1]
      unfold bpSettledRec bpResult
      rw [hr, g3, f3]
      rfl
    · show s2.markets = _
      rw [g2, f2]
    · show s2.height = _
      rw [g3, f3]
    · intro a
      show getBal s2.bal a = _
      unfold bpPay bpFeeTo
      rw [hr]
      simp only [if_true]
      rw [b2 a, b1 a]
      split <;> split <;> split <;> omega
  · rename_i hc
    have hr : bpRefund m = false := by
      unfold bpRefund
      simpa using hc
    simp only [Option.bind_eq_some_iff] at h
    obtain ⟨_, hd, h⟩ := h
    have hd : m.status = MS_DECLARED := by simpa using chk_some hd
    unfold settleDeclared at h
    simp only [bind, Option.bind_eq_some_iff, pure, Option.some.injEq] at h
    obtain ⟨bk, _, r, hr', s2, h2, rfl⟩ := h
    have b1 := bp_settleOutcome_bal hr'
    have b2 := bp_bankSend_bal h2
    obtain ⟨g1, g2, g3⟩ := bp_bankSend_frame h2
    refine ⟨Or.inr hd, ?_, ?_, ?_, ?_⟩
    · show upsert Bet.key _ s2.bets = _
      rw [g1]
      unfold bpSettledRec bpResult
      rw [hr, g3]
      rfl
    · show s2.markets = _
      rw [g2]
      rfl
    · show s2.height = _
      rw [g3]
      rfl
    · intro a
      show getBal s2.bal a = _
      unfold bpPay bpFeeTo
      rw [hr]
      simp only [Bool.false_eq_true, if_false]
      rw [b2 a]
      show getBal r.1 a - _ + _ = _
      rw [b1 a]
      repeat' split
      all_goals omega

end Sge.Core
