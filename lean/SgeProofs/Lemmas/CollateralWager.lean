/-
  C02, lift to reachable states — the wager loop. One queue visit is the abstract `Item.fulfil` on the visited
  participation (when a fulfilment is decided), the secondary closings only touch flags and queues, and the
  re-queue at the end of a visit is the abstract `Item.requeue`.
-/
import SgeProofs.Lemmas.CollateralOps
namespace Sge.Core
open Sge Sge.Genesis

theorem Item.ext' {a b : Item} (h1 : a.liq = b.liq) (h2 : a.crl = b.crl) (h3 : a.maxLoss = b.maxLoss)
    (h4 : a.tracked = b.tracked) (h5 : a.T = b.T) (h6 : ∀ o, a.es o = b.es o) (h7 : ∀ o, a.H o = b.H o) : a = b := by
  cases a; cases b
  simp only at h1 h2 h3 h4 h5 h6 h7
  have e6 := funext h6
  have e7 := funext h7
  subst h1 h2 h3 h4 h5 e6 e7
  rfl

theorem col_histLoss_eq_tot (b : Book) (i o : Nat) :
    b.histLoss i o = b.totE o i + b.totB o i - (b.curExp i o).exposure - (b.curExp i o).bet := by
  unfold Book.histLoss Book.totE Book.totB Book.curExp
  cases b.getExp o i with
  | none => simp [zeroExp]
  | some e => simp only; omega

-- ---------------------------------------------------------------------------------------------
-- stage 1

/-- what stage 1 does, with the amounts: either nothing is decided, or the decided fulfilment is applied with
    `applyFul` and handed to the bet as a backing part -/
theorem col_stage1 (o : Nat) (ov mult : Dec) (thr : Int) (f : FInfo) (pe : Part × PExp) :
    ((stage1 o ov mult thr f pe).1 = pe.1 ∧ (stage1 o ov mult thr f pe).2.1 = pe.2 ∧
      (stage1 o ov mult thr f pe).2.2.2.fulfs = f.fulfs ∧ (stage1 o ov mult thr f pe).2.2.2.betAmount = f.betAmount ∧
      (stage1 o ov mult thr f pe).2.2.2.payoutProfit = f.payoutProfit) ∨
    (∃ bAmt π, (decide1 ov thr (availLiq mult pe.1 pe.2) f.payoutProfit.truncInt f.betAmount f.trunc).1 = some (bAmt, π) ∧
      (stage1 o ov mult thr f pe).1 = (applyFul o pe.1 pe.2 bAmt π).1 ∧ (stage1 o ov mult thr f pe).2.1 = (applyFul o pe.1 pe.2 bAmt π).2 ∧
      (∃ a x, (stage1 o ov mult thr f pe).2.2.2.fulfs = f.fulfs ++ [{ addr := a, idx := x, bet := bAmt, profit := π }]) ∧
      (stage1 o ov mult thr f pe).2.2.2.betAmount = f.betAmount - bAmt ∧
      (stage1 o ov mult thr f pe).2.2.2.payoutProfit = f.payoutProfit.sub (Dec.ofInt π)) := by
  unfold stage1
  simp only
  split
  · rename_i bAmt π hd
    exact Or.inr ⟨bAmt, π, hd, rfl, rfl, ⟨_, _, rfl⟩, rfl, rfl⟩
  · exact Or.inl ⟨rfl, rfl, rfl, rfl, rfl⟩

/-- the amounts one visit decides, under the ghost hypothesis that the stake of the part is not negative:
    the promised winnings are non-negative and fit under the current-round liquidity, and the remaining payout
    profit stays non-negative as long as the remaining stake is -/
theorem col_decide1_facts (ov mult : Dec) (thr : Int) (p : Part) (e : PExp) (P : Dec) (ba : Int) (tr : Dec) (bAmt π : Int)
    (hm : 0 < mult.raw ∧ mult.raw ≤ PREC) (hcrl : 0 ≤ p.crl) (hK : 0 ≤ ba → 0 ≤ P.raw)
    (h : (decide1 ov thr (availLiq mult p e) P.truncInt ba tr).1 = some (bAmt, π)) (hb : 0 ≤ bAmt) :
    0 ≤ π ∧ e.exposure + π ≤ p.crl ∧ (0 ≤ ba - bAmt → 0 ≤ (P.sub (Dec.ofInt π)).raw) := by
  unfold decide1 at h
  split at h
  · cases h
  · rename_i hav
    split at h
    · rename_i hle
      simp only [Option.some.injEq, Prod.mk.injEq] at h
      obtain ⟨_, rfl⟩ := h
      refine ⟨by omega, c02_avail_exposure_bound mult p e _ hm hcrl (Int.le_refl _), fun _ => ?_⟩
      simp only [Dec.sub, Dec.ofInt]
      unfold Dec.truncInt chopTrunc at hle
      generalize availLiq mult p e = av at hav hle
      split at hle
      · unfold PREC at *; omega
      · unfold PREC at *; omega
    · rename_i hgt
      simp only [Option.some.injEq, Prod.mk.injEq] at h
      obtain ⟨rfl, rfl⟩ := h
      have hP := hK hb
      have h0 : 0 ≤ P.truncInt := chopTrunc_ge_zero hP
      have h1 : P.truncInt * PREC ≤ P.raw := chopTrunc_le_of_nonneg hP
      refine ⟨h0, c02_avail_exposure_bound mult p e _ hm hcrl (by omega), fun _ => ?_⟩
      simp only [Dec.sub, Dec.ofInt]
      omega

theorem col_applyFul_fields (o : Nat) (p : Part) (e : PExp) (b π : Int) :
    (applyFul o p e b π).1.idx = p.idx ∧ (applyFul o p e b π).1.totalBet = p.totalBet + b ∧
    (applyFul o p e b π).1.crTotalBet = p.crTotalBet + b := by
  unfold applyFul setMaxLoss
  simp only
  split
  · exact ⟨rfl, rfl, rfl⟩
  · split <;> exact ⟨rfl, rfl, rfl⟩

-- ---------------------------------------------------------------------------------------------
-- stage 2 only changes the counter of open exposures on the in-memory participation

theorem col_secondaryOne_peq (o : Nat) (thr : Int) (allExp : List PExp) (ms : List (Nat × Dec)) (acc : Part × Book × Bool) (x : Nat) :
    PEq acc.1 (secondaryOne o thr allExp ms acc x).1 := by
  rcases secondaryOne_cases o thr allExp ms acc x with ⟨a1, _⟩ | ⟨_, _, _, _, a1, _⟩
  · rw [a1]; exact PEq.refl _
  · rw [a1]; exact ⟨rfl, rfl, rfl, rfl, rfl, rfl, rfl⟩

theorem col_secondaryFold_peq (o : Nat) (thr : Int) (allExp : List PExp) (ms : List (Nat × Dec)) :
    ∀ (mo : List Nat) (acc : Part × Book × Bool), PEq acc.1 (mo.foldl (secondaryOne o thr allExp ms) acc).1 := by
  intro mo
  induction mo with
  | nil => intro acc; exact PEq.refl _
  | cons x xs ih =>
    intro acc
    simp only [List.foldl_cons]
    exact (col_secondaryOne_peq o thr allExp ms acc x).trans (ih _)

theorem col_stage2_peq (o : Nat) (mo : List Nat) (ms : List (Nat × Dec)) (thr : Int) (x : Part × PExp × Bool × FInfo) :
    PEq x.1 (stage2 o mo ms thr x).1 := by
  unfold stage2
  split
  · simp only
    split
    · have h2 := col_secondaryFold_peq o thr x.2.2.2.allExp ms mo ({ x.1 with notFilled := wrapDec x.1.notFilled }, x.2.2.2.book, x.2.2.2.err)
      have h1 : PEq x.1 { x.1 with notFilled := wrapDec x.1.notFilled } := ⟨rfl, rfl, rfl, rfl, rfl, rfl, rfl⟩
      exact h1.trans h2
    · exact ⟨rfl, rfl, rfl, rfl, rfl, rfl, rfl⟩
  · exact PEq.refl _

-- ---------------------------------------------------------------------------------------------
-- re-queue

/-- the exposures opened for the next round carry no amounts -/
theorem col_rollFold_zero (o i r : Nat) (B : Book) : ∀ (L : List PExp) (acc : Book × PExp × List (Nat × Part × PExp)),
    RollInv i r B L acc.1 → (∀ e ∈ acc.1.pexps, e.idx = i → e ∈ L ∨ (e.exposure = 0 ∧ e.bet = 0)) →
    ∀ e ∈ (L.foldl (rollOne true o i) acc).1.pexps, e.idx = i → (e.exposure = 0 ∧ e.bet = 0) := by
  intro L
  induction L with
  | nil =>
    intro acc _ h e he hei
    rcases h e he hei with hm | hz
    · cases hm
    · exact hz
  | cons pe L ih =>
    intro acc h hz
    simp only [List.foldl_cons]
    obtain ⟨a1, a2, a3, a4, a5, a6, a7⟩ := rollOne_book o i acc pe h.sE
    apply ih _ (h.step a1 a2 a3 a4 a5 a6 a7)
    intro e he hei
    rw [a1] at he
    rcases (mem_upsert_iff PExp.key (nextExp pe) e acc.1.pexps h.sE).mp he with rfl | ⟨he, hk⟩
    · exact Or.inr ⟨rfl, rfl⟩
    · rcases hz e he hei with hm | hz'
      · rcases List.mem_cons.mp hm with rfl | hm
        · exfalso
          have : (PExp.key e == PExp.key (nextExp e)) = true := by simp [PExp.key, nextExp]
          rw [this] at hk; cases hk
        · exact Or.inl hm
      · exact Or.inr hz'

/-- the participation and the exposures written by `refreshQueueAndState` -/
theorem col_requeue_book (o i : Nat) (f : FInfo) (p : Part) (e : PExp) (hS : BkSInv f.book (fun _ => True))
    (hp : f.book.getPart i = some p) (hel : p.eligiblePre = true) :
    (∃ n, (requeue f p e o).book.getPart i = some (requeuePart p n)) ∧
    (∀ x ∈ (requeue f p e o).book.pexps, x.idx = i → (x.exposure = 0 ∧ x.bet = 0)) := by
  have hpi : p.idx = i := Book.getPart_idx hp
  obtain ⟨r, hR0⟩ := RollInv.init f.book i hS
  have hz := col_rollFold_zero o i r f.book (f.book.expsOfIdx i) (f.book, e, f.fmap) hR0 (by
    intro x hx hxi
    left
    unfold Book.expsOfIdx
    rw [List.mem_filter]
    exact ⟨hx, by simpa using hxi⟩)
  rw [requeue_eq f p e o hel, hpi]
  generalize (f.book.expsOfIdx i).foldl (rollOne true o i) (f.book, e, f.fmap) = R at hz
  have hfields := setQueueFold_fields (requeueQ i) (R.1.setPart (requeuePart p R.1.oddsCount)).queues (R.1.setPart (requeuePart p R.1.oddsCount))
  rw [← requeueOdds_eq i] at hfields
  obtain ⟨f1, f2, _, _, _, _⟩ := hfields
  have hbook : (requeueRes f p o R).book =
      (R.1.setPart (requeuePart p R.1.oddsCount)).queues.foldl (requeueOdds i) (R.1.setPart (requeuePart p R.1.oddsCount)) := by
    unfold requeueRes
    simp only [hpi]
  rw [hbook]
  constructor
  · refine ⟨R.1.oddsCount, ?_⟩
    unfold Book.getPart
    rw [f1]
    have : (requeuePart p R.1.oddsCount).idx = i := hpi
    rw [← this]
    exact lookup_upsert_self Part.key (requeuePart p R.1.oddsCount) R.1.parts
  · intro x hx hxi
    rw [f2] at hx
    exact hz x hx hxi

/-- re-queueing a participation all of whose exposures are closed keeps the collateral invariant: it is the
    abstract re-queue on that participation, and nothing else changes -/
theorem requeue_col (o i : Nat) (f : FInfo) (p : Part) (e : PExp)
    (hS : BkSInv f.book (fun _ => True)) (hQ : QV f.book (qvOf f.book o f.uq)) (hasQ : (f.book.getQueue o).isSome)
    (hp : f.book.getPart i = some p) (hel : p.eligiblePre = true) (hnf0 : p.notFilled = 0) (hiu : i ∉ f.uq)
    (hC : ColInv f.book) : ColInv (requeue f p e o).book := by
  have hpi : p.idx = i := Book.getPart_idx hp
  obtain ⟨_, _, _, _, _, _, r7, r8, r9, r10, _, _, _⟩ := requeue_spec o i f p e hS hQ hasQ hp hel hnf0 hiu
  obtain ⟨⟨n, hgp⟩, hzero⟩ := col_requeue_book o i f p e hS hp hel
  generalize (requeue f p e o).book = B' at r7 r8 r9 r10 hgp hzero
  have hcur0 : ∀ o', (B'.curExp i o').exposure = 0 ∧ (B'.curExp i o').bet = 0 := by
    intro o'
    unfold Book.curExp
    cases hg : B'.getExp o' i with
    | none => exact ⟨rfl, rfl⟩
    | some x =>
      obtain ⟨_, k2, k3⟩ := Book.getExp_key hg
      exact hzero x k3 k2
  intro j q hq
  by_cases hj : j = i
  · rw [hj, hgp] at hq
    cases hq
    have heq : B'.colItem (requeuePart p n) = (f.book.colItem p).requeue := by
      apply Item.ext'
      · rfl
      · show p.crl - maxI 0 p.crMaxLoss = p.crl - max0 p.crMaxLoss
        rw [col_maxI_eq_max0]
      · rfl
      · rfl
      · rfl
      · intro o'
        show expoOf (B'.curExp p.idx o') = ⟨0, 0⟩
        rw [hpi]
        unfold expoOf
        rw [(hcur0 o').1, (hcur0 o').2]
      · intro o'
        show B'.histLoss p.idx o' - (p.totalBet - 0) =
          f.book.histLoss p.idx o' - (p.totalBet - p.crTotalBet) + ((f.book.curExp p.idx o').exposure + (f.book.curExp p.idx o').bet - p.crTotalBet)
        rw [hpi, col_histLoss_eq_tot B', col_histLoss_eq_tot f.book, r9, r10, (hcur0 o').1, (hcur0 o').2]
        omega
    rw [heq]
    exact c02_requeue_IInv _ (hC i p hp)
  · rw [r7 j hj] at hq
    have hqi := Book.getPart_idx hq
    rw [colItem_congr (PEq.refl q) (b := f.book) (b' := B')]
    · exact hC j q hq
    · intro o'; rw [hqi, r8 o' j hj]
    · intro o'
      rw [hqi, col_histLoss_eq_tot B', col_histLoss_eq_tot f.book, r9, r10]
      unfold Book.curExp
      rw [r8 o' j hj]

-- ---------------------------------------------------------------------------------------------
-- the write-back of a visit

/-- writing the in-memory participation `p2` and exposure `e2` of `i` back into a book `B2` that differs from the
    book `B` at the start of the visit only in flags and queues: the item of `i` is the one computed in memory,
    all other items are unchanged -/
theorem col_writeback (B B2 : Book) (o i : Nat) (p1 p2 : Part) (e1 e2 : PExp) (hC : ColInv B)
    (hparts : B2.parts = B.parts) (hhist : B2.hist = B.hist)
    (hgeJ : ∀ o' j, j ≠ i → B2.getExp o' j = B.getExp o' j)
    (hcur : ∀ o', (B2.getExp o' i).map (fun x => (x.exposure, x.bet)) = (B.getExp o' i).map (fun x => (x.exposure, x.bet)))
    (he2 : e2.odds = o ∧ e2.idx = i ∧ expoOf e2 = expoOf e1) (hp2 : p2.idx = i) (hpeq : PEq p1 p2)
    (hX : IInv (absItem p1 (fun k => if k = o then e1 else B.curExp i k)
      (fun k => B.histLoss i k - (p1.totalBet - p1.crTotalBet)))) :
    ColInv ((B2.setExp e2).setPart p2) := by
  have hhl : ∀ j k, ((B2.setExp e2).setPart p2).histLoss j k = B.histLoss j k := by
    intro j k
    show sumBy (expAtH k j) B2.hist + sumBy (betAtH k j) B2.hist = _
    rw [hhist]; rfl
  have hge3 : ∀ o' j, ¬ (e2.odds = o' ∧ e2.idx = j) → ((B2.setExp e2).setPart p2).getExp o' j = B2.getExp o' j := by
    intro o' j hne
    show (B2.setExp e2).getExp o' j = _
    exact Book.getExp_setExp_ne _ _ _ _ hne
  intro j q hq
  by_cases hj : j = i
  · rw [hj, ← hp2, Book.getPart_setPart_self] at hq
    cases hq
    have : ((B2.setExp e2).setPart p2).colItem p2 = absItem p1 (fun k => if k = o then e1 else B.curExp i k)
        (fun k => B.histLoss i k - (p1.totalBet - p1.crTotalBet)) := by
      unfold Book.colItem
      apply absItem_congr hpeq
      · intro k
        rw [hp2]
        by_cases hk : k = o
        · simp only [hk, if_true]
          have : ((B2.setExp e2).setPart p2).getExp o i = some e2 := by
            show (B2.setExp e2).getExp o i = _
            rw [← he2.1, ← he2.2.1]; exact Book.getExp_setExp_self _ _
          unfold Book.curExp
          rw [this]
          exact he2.2.2
        · simp only [hk, if_false]
          apply curExp_amounts
          rw [hge3 k i (fun c => hk (c.1.symm.trans he2.1))]
          exact hcur k
      · intro k
        unfold Book.colH
        rw [hp2, hhl, hpeq.tb, hpeq.ct]
    rw [this]; exact hX
  · rw [Book.getPart_setPart_ne _ _ _ (by rw [hp2]; exact fun c => hj c.symm)] at hq
    have hq' : B.getPart j = some q := by
      have : (B2.setExp e2).getPart j = B2.getPart j := rfl
      rw [this] at hq
      unfold Book.getPart at hq ⊢
      rw [hparts] at hq; exact hq
    have hqi := Book.getPart_idx hq'
    rw [colItem_congr (PEq.refl q) (b := B)]
    · exact hC j q hq'
    · intro o'
      rw [hqi, hge3 o' j (fun c => hj (c.2.symm.trans he2.2.1)), hgeJ o' j hj]
    · intro o'; exact hhl _ _

/-- one visit of the wager loop keeps the collateral invariant, provided the stake of the backing part it
    produces (if any) is not negative -/
theorem col_visit_some (b0 : Book) (o : Nat) (ov mult : Dec) (mo : List Nat) (ms : List (Nat × Dec)) (thr : Int)
    (f : FInfo) (i : Nat) (rest : List Nat) (hmo : mo.Nodup) (h : LInv b0 o (i :: rest) f)
    (hm : 0 < mult.raw ∧ mult.raw ≤ PREC) (hC : ColInv f.book) (hK : 0 ≤ f.betAmount → 0 ≤ f.payoutProfit.raw)
    (pe : Part × PExp) (hitem : f.item i = some pe)
    (hnn : ∀ fl ∈ (stage3 o (stage2 o mo ms thr (stage1 o ov mult thr f pe))).fulfs, 0 ≤ fl.bet) :
    ColInv (stage3 o (stage2 o mo ms thr (stage1 o ov mult thr f pe))).book ∧
    (0 ≤ (stage3 o (stage2 o mo ms thr (stage1 o ov mult thr f pe))).betAmount →
      0 ≤ (stage3 o (stage2 o mo ms thr (stage1 o ov mult thr f pe))).payoutProfit.raw) := by
  obtain ⟨rq, huq⟩ := h.pre
  have huq : f.uq = i :: (rest ++ rq) := huq
  obtain ⟨hgp, hge⟩ := h.memP i (List.mem_cons_self ..) pe hitem
  obtain ⟨hnd, hmem⟩ := h.q o f.uq (by simp [qvOf])
  have hnd' := hnd
  rw [huq, List.nodup_cons] at hnd'
  have hnotR : i ∉ rest := fun c => hnd'.1 (List.mem_append_left _ c)
  obtain ⟨_, _, e', he', hunf⟩ := hmem i (by rw [huq]; exact List.mem_cons_self ..)
  rw [hge] at he'
  cases he'
  obtain ⟨k1, k2, k3⟩ := Book.getExp_key hge
  have hpi := Book.getPart_idx hgp
  have h2c := stage2_core o mo ms thr (stage1 o ov mult thr f pe)
  have h3c := stage3_core o (stage2 o mo ms thr (stage1 o ov mult thr f pe))
  have hcs := col_stage1 o ov mult thr f pe
  have hpq := col_stage2_peq o mo ms thr (stage1 o ov mult thr f pe)
  rw [h3c.2.1, h2c.2.1] at hnn
  rw [h3c.2.2.1, h3c.2.2.2, h2c.2.2.1, h2c.2.2.2]
  -- the item computed in memory
  have hcurE : f.book.curExp i o = pe.2 := by unfold Book.curExp; rw [hge]
  have hIp : IInv (absItem pe.1 (f.book.curExp i) (f.book.colH pe.1)) := by
    have := hC i pe.1 hgp
    unfold Book.colItem at this
    rw [hpi] at this
    exact this
  have hcrl : 0 ≤ pe.1.crl := hIp.rng.1
  have hX : IInv (absItem (stage1 o ov mult thr f pe).1
        (fun k => if k = o then (stage1 o ov mult thr f pe).2.1 else f.book.curExp i k)
        (fun k => f.book.histLoss i k - ((stage1 o ov mult thr f pe).1.totalBet - (stage1 o ov mult thr f pe).1.crTotalBet))) ∧
      (0 ≤ (stage1 o ov mult thr f pe).2.2.2.betAmount → 0 ≤ (stage1 o ov mult thr f pe).2.2.2.payoutProfit.raw) := by
    rcases hcs with ⟨c1, c2, _, c4, c5⟩ | ⟨bAmt, π, hd, c1, c2, ⟨a, x, c3⟩, c4, c5⟩
    · rw [c1, c2, c4, c5]
      refine ⟨?_, hK⟩
      have : absItem pe.1 (fun k => if k = o then pe.2 else f.book.curExp i k)
          (fun k => f.book.histLoss i k - (pe.1.totalBet - pe.1.crTotalBet)) = absItem pe.1 (f.book.curExp i) (f.book.colH pe.1) := by
        apply absItem_congr (PEq.refl _)
        · intro k
          by_cases hk : k = o
          · simp only [hk, if_true]; rw [hcurE]
          · simp only [hk, if_false]
        · intro k; unfold Book.colH; rw [hpi]
      rw [this]; exact hIp
    · have hb : 0 ≤ bAmt := hnn { addr := a, idx := x, bet := bAmt, profit := π } (by rw [c3]; simp)
      obtain ⟨g1, g2, g3⟩ := col_decide1_facts ov mult thr pe.1 pe.2 f.payoutProfit f.betAmount f.trunc bAmt π hm hcrl hK hd hb
      obtain ⟨_, q2, q3⟩ := col_applyFul_fields o pe.1 pe.2 bAmt π
      rw [c1, c2, c4, c5]
      refine ⟨?_, g3⟩
      have href := c02_applyFul_refines o pe.1 (f.book.curExp i) (f.book.colH pe.1) bAmt π
      rw [hcurE] at href
      have hI := c02_fulfil_IInv (absItem pe.1 (f.book.curExp i) (f.book.colH pe.1)) o bAmt π hb g1
        (by show (expoOf (f.book.curExp i o)).exposure + π ≤ pe.1.crl; rw [hcurE]; exact g2) hIp
      rw [← href] at hI
      have : (fun k => f.book.histLoss i k - ((applyFul o pe.1 pe.2 bAmt π).1.totalBet - (applyFul o pe.1 pe.2 bAmt π).1.crTotalBet))
          = f.book.colH pe.1 := by
        funext k; unfold Book.colH; rw [q2, q3, hpi]; omega
      rw [this]; exact hI
  -- stage 1
  obtain ⟨Δb, Δπ, s1, s2, s3, s4, s5, s6, s7, s8, s9, s10, s11, s12, s13, s14, s15, s16, s17⟩ := stage1_spec o ov mult thr f pe
  generalize stage1 o ov mult thr f pe = x1 at s1 s2 s3 s4 s5 s6 s7 s8 s9 s10 s11 s12 s13 s14 s15 s16 s17 hX hpq hnn ⊢
  obtain ⟨p1, e1, cl, f1⟩ := x1
  simp only at s1 s2 s3 s4 s5 s6 s7 s8 s9 s10 s11 s12 s13 s14 s15 s16 s17 hX hpq
  refine ⟨?_, hX.2⟩
  have hS1 : BkSInv f1.book (fun _ => True) := BkSInv.of_stores h.s s7 s8 s9 s11 s12 (by rw [s10]) (by rw [s10]; exact h.s.sQ)
  have hgq1 : ∀ o', f1.book.getQueue o' = f.book.getQueue o' := fun o' => Book.getQueue_congr s10 o'
  have hge1 : ∀ o' j, f1.book.getExp o' j = f.book.getExp o' j := by intro o' j; unfold Book.getExp; rw [s8]
  have hgp1 : ∀ j, f1.book.getPart j = f.book.getPart j := by intro j; unfold Book.getPart; rw [s7]
  have hQ1 : QV f1.book (qvOf f1.book o f1.uq) := by
    apply QV.mono h.q s11
    intro o'' q' hq'
    have hq0 : qvOf f.book o f.uq o'' = some q' := by
      unfold qvOf at hq' ⊢
      rw [s14, hgq1] at hq'; exact hq'
    refine ⟨(h.q o'' q' hq0).1, fun j hj => Or.inl ⟨q', hq0, hj, ?_⟩⟩
    intro ⟨y, hy1, hy2⟩
    exact ⟨y, by rw [hge1]; exact hy1, hy2⟩
  have hfl : (f1.fulfs = f.fulfs ∧ Δb = 0 ∧ Δπ = 0) ∨ f1.fulfs = f.fulfs ++ [{ addr := pe.1.addr, idx := i, bet := Δb, profit := Δπ }] := by
    rw [← hpi]; exact s6
  have hsumI : sumBy (unfAt i) f.book.pexps ≥ 1 := by
    have := sumBy_ge_mem (unfAt i) _ (fun y _ => unfAt_nonneg i y) pe.2 k3
    rw [unfAt_eq k2, hunf] at this
    simpa using this
  have hnfP := h.s.nf i pe.1 trivial hgp
  cases cl with
  | true =>
    obtain ⟨t1, t2, t3, t4, t5, t6, t7⟩ := stage2_closed o i mo ms thr p1 e1 f1 pe.1 pe.2 (rest ++ rq) hmo hS1 hQ1
      (by rw [hgq1]; exact h.hasQ) (by rw [s14]; exact huq) (by rw [hgp1]; exact hgp) ⟨s1.trans hpi, s3⟩
      (by rw [hge1]; exact hge) hunf (by
        intro o'
        rw [s16, hge1]
        exact h.memX i (List.mem_cons_self ..) o')
    generalize stage2 o mo ms thr (p1, e1, true, f1) = x2 at t1 t2 t3 t4 t5 t6 t7 hpq ⊢
    obtain ⟨p2, e2, f2⟩ := x2
    simp only at t1 t2 t3 t4 t5 t6 t7 hpq
    have hL3 : LInv b0 o rest { f2 with book := (f2.book.setExp e2).setPart p2 } := by
      apply LInv.writeback h pe hgp hge hnotR p2 e2 true Δb Δπ (t4.trans s15) (t5.trans s16)
        (t1.parts.trans s7) (t1.hist.trans s9) (t1.pc.trans s11) (t1.uid.trans s13)
      · intro o' j hj; rw [t1.ge o' j hj, hge1]
      · exact t1.stored
      · intro o'; rw [t1.cur o', hge1]
      · exact t1.hasQ
      · exact t1.s
      · exact t1.rndI
      · rw [t3]; exact t1.q
      · exact ⟨t1.idx, t1.addr.trans s2, t1.tb.trans s4⟩
      · rw [t2, s5]
      · rw [t1.nfI, unfAt_eq k2, hunf, unfAt_eq (by rw [t2, s5]; exact k2), t2]
        simp
      · intro _; rw [t3]; exact hnd'.1
      · rw [t6]; exact hfl
      · exact ⟨rq, t3⟩
      · exact fun j hj => hj
    have hC3 : ColInv ((f2.book.setExp e2).setPart p2) := by
      apply col_writeback f.book f2.book o i p1 p2 e1 e2 hC (t1.parts.trans s7) (t1.hist.trans s9)
      · intro o' j hj; rw [t1.ge o' j hj, hge1]
      · intro o'; rw [t1.cur o', hge1]
      · rw [t2, s5]; exact ⟨k1, k2, rfl⟩
      · exact t1.idx
      · exact hpq
      · exact hX.1
    unfold stage3
    simp only
    split
    · rename_i hc
      simp only [Bool.and_eq_true, beq_iff_eq] at hc
      exact requeue_col o i { f2 with book := (f2.book.setExp e2).setPart p2 } p2 e2 hL3.s hL3.q hL3.hasQ
        (by show Book.getPart _ i = some p2; rw [← t1.idx]; exact Book.getPart_setPart_self _ _) hc.2 hc.1
        (by show i ∉ f2.uq; rw [t3]; exact hnd'.1) hC3
    · exact hC3
  | false =>
    have hx2 : stage2 o mo ms thr (p1, e1, false, f1) = (p1, e1, f1) := by
      unfold stage2; simp
    rw [hx2]
    have hC3 : ColInv ((f1.book.setExp e1).setPart p1) := by
      apply col_writeback f.book f1.book o i p1 p1 e1 e1 hC s7 s9
      · intro o' j _; exact hge1 o' j
      · intro o'; rw [hge1]
      · rw [s5]; exact ⟨k1, k2, rfl⟩
      · exact s1.trans hpi
      · exact PEq.refl _
      · exact hX.1
    unfold stage3
    simp only
    have hne0 : (p1.notFilled == 0) = false := by
      rw [s3]
      have : pe.1.notFilled ≠ 0 := by omega
      simpa using this
    simp only [hne0, Bool.false_and, Bool.false_eq_true, if_false]
    exact hC3

end Sge.Core
