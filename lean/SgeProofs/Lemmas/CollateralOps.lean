/-
  C02, lift to reachable states — deposit, withdrawal and settlement keep the collateral invariant `ColInv`.
-/
import SgeProofs.Lemmas.Collateral
import SgeProofs.Properties.C09
namespace Sge.Core
open Sge Sge.Genesis

theorem col_maxI_eq_max0 (x : Int) : maxI 0 x = max0 x := by
  unfold maxI max0
  split <;> split <;> omega

theorem col_transfer_nonneg {bal bal' : List (Nat × Int)} {a b : Nat} {x : Int} (h : transfer bal a b x = some bal') : 0 ≤ x := by
  unfold transfer at h
  split at h
  · cases h
  · omega

-- ---------------------------------------------------------------------------------------------
-- deposit

/-- the item of a fresh participation -/
theorem col_fresh_IInv (liq : Int) (h : 0 ≤ liq) :
    IInv { liq := liq, crl := liq, maxLoss := 0, tracked := 0, T := 0, es := fun _ => ⟨0, 0⟩, H := fun _ => 0 } := by
  constructor <;> simp [Item.loss, max0, h]

theorem addParticipation_col (b : Book) (addr : Nat) (liq fee : Int) (hq : QInv b) (hl : 0 ≤ liq) (hc : ColInv b) :
    ColInv (b.addParticipation addr liq fee).1 := by
  have hS := hq.s
  have hnoN : ∀ e ∈ b.pexps, e.idx ≠ b.partCount + 1 := by
    intro e he
    have := (hS.eKey e he).2
    omega
  obtain ⟨f1, f2, f3, f4, f5⟩ := initFold_fields (b.partCount + 1) (b.setPart (b.newPart addr liq fee)).queues (b.setPart (b.newPart addr liq fee))
  obtain ⟨g1, g2, g3, g4, g5, g6⟩ := freshFold (b.partCount + 1) (b.setPart (b.newPart addr liq fee)).queues b.pexps hS.sE
    (sorted_qkey_pairwise hS.sQ) (fun e he hen => absurd hen (hnoN e he))
  generalize hB : (b.addParticipation addr liq fee).1 = B
  have eParts : B.parts = upsert Part.key (b.newPart addr liq fee) b.parts := by rw [← hB]; exact f1
  have eHist : B.hist = b.hist := by rw [← hB]; exact f2
  have eExps : B.pexps = (b.setPart (b.newPart addr liq fee)).queues.foldl
      (fun ps oq => upsert PExp.key (freshExp oq.1 (b.partCount + 1)) ps) b.pexps := by rw [← hB]; exact f5
  have hgp : ∀ i, i ≠ b.partCount + 1 → B.getPart i = b.getPart i := by
    intro i hi
    unfold Book.getPart; rw [eParts]
    exact lookup_upsert_ne Part.key _ [i] b.parts (by
      simpa [Part.key] using fun e : (b.newPart addr liq fee).idx = i => hi (e.symm.trans rfl))
  have hgpN : B.getPart (b.partCount + 1) = some (b.newPart addr liq fee) := by
    unfold Book.getPart; rw [eParts]
    exact lookup_upsert_self Part.key (b.newPart addr liq fee) b.parts
  have hhl : ∀ i o, B.histLoss i o = b.histLoss i o := by
    intro i o; unfold Book.histLoss; rw [eHist]
  intro i p hp
  by_cases hi : i = b.partCount + 1
  · rw [hi, hgpN] at hp
    cases hp
    have hes : ∀ o, expoOf (B.curExp (b.partCount + 1) o) = ⟨0, 0⟩ := by
      intro o
      unfold Book.curExp
      cases hc' : B.getExp o (b.partCount + 1) with
      | none => rfl
      | some e =>
        obtain ⟨_, k2, k3⟩ := Book.getExp_key hc'
        rw [eExps, g2] at k3
        rcases k3 with k3 | ⟨oq, _, rfl⟩
        · exact absurd k2 (hnoN e k3)
        · rfl
    have hH : ∀ o, b.histLoss (b.partCount + 1) o = 0 := by
      intro o
      unfold Book.histLoss
      have z1 : sumBy (expAtH o (b.partCount + 1)) b.hist = 0 := by
        apply sumBy_zeroQ
        intro h hh
        have := hS.hKey h hh
        unfold expAtH
        have hne : h.idx ≠ b.partCount + 1 := by omega
        simp [hne]
      have z2 : sumBy (betAtH o (b.partCount + 1)) b.hist = 0 := by
        apply sumBy_zeroQ
        intro h hh
        have := hS.hKey h hh
        unfold betAtH
        have hne : h.idx ≠ b.partCount + 1 := by omega
        simp [hne]
      rw [z1, z2]; rfl
    have heq : B.colItem (b.newPart addr liq fee) =
        { liq := liq, crl := liq, maxLoss := 0, tracked := 0, T := 0, es := fun _ => ⟨0, 0⟩, H := fun _ => 0 } := by
      unfold Book.colItem absItem
      have e1 : (fun o => expoOf (B.curExp (b.newPart addr liq fee).idx o)) = (fun _ => (⟨0, 0⟩ : Expo)) := funext hes
      have e2 : B.colH (b.newPart addr liq fee) = fun _ => 0 := by
        funext o
        unfold Book.colH
        show B.histLoss (b.partCount + 1) o - (0 - 0) = 0
        rw [hhl, hH]; rfl
      rw [e1, e2]
      rfl
    rw [heq]
    exact col_fresh_IInv liq hl
  · rw [hgp i hi] at hp
    have hpi := Book.getPart_idx hp
    rw [colItem_congr (PEq.refl p) (b := b) (b' := B)]
    · exact hc i p hp
    · intro o
      unfold Book.getExp
      rw [eExps, g5 o p.idx (Or.inl (by rw [hpi]; exact hi))]
    · intro o; exact hhl p.idx o

theorem houseDepositO_col {s : State} {r : State × Nat} {c : Nat} {tk : Tk} {m : Nat} {a : Int} {pd : Nat}
    (hI : ObInv s) (hC : ColSt s) (h : houseDepositO s c tk m a pd = some r) : ColSt r.1 := by
  unfold houseDepositO at h
  simp only [bind, Option.bind_eq_some_iff, pure, Option.some.injEq] at h
  obtain ⟨_, _, _, _, _, _, s1, hs1, _, _, mk, _, b, hb, _, _, _, _, _, _, _, _, s2, hs2, s3, hs3, rfl⟩ := h
  obtain ⟨gs, rfl⟩ := grantStep_shape hs1
  obtain ⟨bal2, ht2, rfl⟩ := bankSend_shape hs2
  obtain ⟨bal3, _, rfl⟩ := bankSend_shape hs3
  have hb' : getBook s m = some b := hb
  obtain ⟨hbm, hbu⟩ := getBook_mem hb'
  have hl := col_transfer_nonneg ht2
  have hx := addParticipation_col b (depositFor c pd) (a - (s.params.houseFee.mulInt a).roundInt)
    (s.params.houseFee.mulInt a).roundInt (hI.qinv b hbm) hl (hC b hbm)
  have h1 := hC.setBook _ hx
  exact h1.of_eq (by rfl)

-- ---------------------------------------------------------------------------------------------
-- withdrawal

theorem withdraw_col (b b' : Book) (idx : Nat) (w : Int) (p : Part) (hq : QInv b) (hw : b.withdraw idx w = some b')
    (hp : b.getPart idx = some p) (h0 : 0 ≤ w) (hmax : w ≤ p.crl - maxI 0 p.crMaxLoss) (hc : ColInv b) : ColInv b' := by
  have hpi := Book.getPart_idx hp
  have h1 : ColInv (b.setPart { p with crl := p.crl - w, liq := p.liq - w }) := by
    intro i q hq'
    by_cases hi : i = p.idx
    · subst hi
      have hq'' : (b.setPart { p with crl := p.crl - w, liq := p.liq - w }).getPart ({ p with crl := p.crl - w, liq := p.liq - w } : Part).idx = some q := hq'
      rw [Book.getPart_setPart_self] at hq''
      cases hq''
      have : (b.setPart { p with crl := p.crl - w, liq := p.liq - w }).colItem { p with crl := p.crl - w, liq := p.liq - w }
          = (b.colItem p).withdraw w := rfl
      rw [this]
      apply c02_withdraw_IInv _ w h0 _ (hc idx p hp)
      show w ≤ p.crl - max0 p.crMaxLoss
      rw [← col_maxI_eq_max0]; exact hmax
    · rw [Book.getPart_setPart_ne _ _ _ (show ({ p with crl := p.crl - w, liq := p.liq - w } : Part).idx ≠ i from fun c => hi c.symm)] at hq'
      have : (b.setPart { p with crl := p.crl - w, liq := p.liq - w }).colItem q = b.colItem q := rfl
      rw [this]
      exact hc i q hq'
  unfold Book.withdraw at hw
  rw [hp] at hw
  simp only at hw
  split at hw
  · cases hw; exact h1
  · have hx := Ext.setPart b { p with crl := p.crl - w, liq := p.liq - w } p (by show b.getPart p.idx = some p; rw [hpi]; exact hp) rfl rfl rfl
    have hq1 := hx.qinv hq
    have hnd : ∀ oq ∈ (b.setPart { p with crl := p.crl - w, liq := p.liq - w }).queues, oq.2.Nodup := by
      intro oq hoq
      exact (hq1.q oq.1 oq.2 (Book.mem_getQueue hq1.s.sQ hoq)).1
    rw [removeFromQueues_eq idx _ _ hnd] at hw
    cases hw
    obtain ⟨f1, f2, f3, _, _, _⟩ := setQueueFold_fields (fun oq => oq.2.filter (fun j => j != idx))
      (b.setPart { p with crl := p.crl - w, liq := p.liq - w }).queues (b.setPart { p with crl := p.crl - w, liq := p.liq - w })
    exact h1.of_stores f1 f2 f3

theorem houseWithdrawO_col {s s' : State} {c : Nat} {tk : Tk} {m i md : Nat} {a : Int} {pd : Nat}
    (hI : ObInv s) (hC : ColSt s) (h : houseWithdrawO s c tk m i md a pd = some s') : ColSt s' := by
  unfold houseWithdrawO at h
  simp only [bind, Option.bind_eq_some_iff, pure, Option.some.injEq] at h
  obtain ⟨_, _, _, _, _, h2, _, _, _, _, d, _, b, hb, _, _, w, hw, s1, hs1, p, hp, s2, hs2, b', hb', rfl⟩ := h
  have h2 := chk_some h2
  obtain ⟨gs, rfl⟩ := grantStep_shape hs1
  obtain ⟨bal2, _, rfl⟩ := bankSend_shape hs2
  obtain ⟨hbm, hbu⟩ := getBook_mem hb
  have hcw : 0 ≤ w ∧ w ≤ p.crl - maxI 0 p.crMaxLoss := by
    unfold calcWithdrawal at hw
    simp only [bind, Option.bind_eq_some_iff] at hw
    obtain ⟨p', hp', _, _, _, _, e0, _, _, _, _, _, hwd⟩ := hw
    rw [hp] at hp'; cases hp'
    rw [maxWithdraw_eq] at hwd
    rcases withdrawable_spec hwd with ⟨_, hw1, hw2⟩ | ⟨hm, hw1, hw2⟩
    · exact ⟨by omega, by omega⟩
    · refine ⟨?_, by omega⟩
      simp [hm] at h2; omega
  have hx := withdraw_col b b' i w p (hI.qinv b hbm) hb' hp hcw.1 hcw.2 (hC b hbm)
  have h1 := hC.setBook b' hx
  exact h1.of_eq (by rfl)

end Sge.Core
