/-
  C09 over histories, part 3: the withdrawal-count bound and the grant ledger. For a fixed (granter, grantee, kind) the
  stored grant is changed only by the authz operations on that key and by the delegated house messages that use it;
  each use lowers the remaining limit by exactly the executed amount.
-/
import SgeProofs.Lemmas.C09HistLedger
namespace Sge.Core
open Sge Sge.Genesis

-- ---------------------------------------------------------------------------------------------
-- how the deposit records change in one step

theorem c9h_step_deposits (s : State) (op : Op) :
    (step s op).1.deposits = s.deposits ∨
    (∃ x : Deposit, x.wcount = 0 ∧ x.wtotal = 0 ∧ (step s op).1.deposits = upsert Deposit.key x s.deposits) ∨
    (∃ (d : Deposit) (w : Int), d ∈ s.deposits ∧ d.wcount < s.params.houseMaxW ∧
      (step s op).1.deposits = upsert Deposit.key { d with wcount := d.wcount + 1, wtotal := d.wtotal + w } s.deposits) := by
  cases op with
  | deposit c tk m a pd =>
    simp only [step, houseDeposit]
    cases h : houseDepositO s c tk m a pd with
    | none => exact Or.inl rfl
    | some r =>
      obtain ⟨b, _, _, _, _, _, _, _, _, _, _, _, _, _, _, hdep, _, _⟩ := c9h_deposit_shape h
      exact Or.inr (Or.inl ⟨_, rfl, rfl, hdep⟩)
  | withdraw c tk m i md a pd =>
    cases h : houseWithdrawO s c tk m i md a pd with
    | none => rw [(c9h_wdEvent_none h).1]; exact Or.inl rfl
    | some s' =>
      rw [(c9h_wdEvent_some h).1]
      obtain ⟨d, w, _, _, _, hd, _, _, hc, _, _, _, _, _, _, _, hdep, _, _, _⟩ := c9h_withdraw_shape h
      exact Or.inr (Or.inr ⟨d, w, (lookup_mem hd).1, hc, hdep⟩)
  | marketAdd c tk u st en o stt =>
    exact Or.inl (c9h_step_hk s _ (by intros; simp) (by intros; simp) (by intros; simp) (by intros; simp) (by intros; simp) (by intros; simp)).1
  | marketUpdate tk u st en stt =>
    exact Or.inl (c9h_step_hk s _ (by intros; simp) (by intros; simp) (by intros; simp) (by intros; simp) (by intros; simp) (by intros; simp)).1
  | marketResolve tk u ts stt w =>
    exact Or.inl (c9h_step_hk s _ (by intros; simp) (by intros; simp) (by intros; simp) (by intros; simp) (by intros; simp) (by intros; simp)).1
  | wager c tk u a pl =>
    exact Or.inl (c9h_step_hk s _ (by intros; simp) (by intros; simp) (by intros; simp) (by intros; simp) (by intros; simp) (by intros; simp)).1
  | send x y v =>
    exact Or.inl (c9h_step_hk s _ (by intros; simp) (by intros; simp) (by intros; simp) (by intros; simp) (by intros; simp) (by intros; simp)).1
  | endBlock =>
    exact Or.inl (c9h_step_hk s _ (by intros; simp) (by intros; simp) (by intros; simp) (by intros; simp) (by intros; simp) (by intros; simp)).1
  | grant g e k l x => exact Or.inl rfl
  | revoke g e k => exact Or.inl rfl
  | setParams p =>
    left
    simp only [step]
    split <;> rfl
  | newBlock h t => exact Or.inl rfl

-- ---------------------------------------------------------------------------------------------
-- the withdrawal count

/-- every deposit has been withdrawn from at most MaxWithdrawalCount times -/
def c9h_CntOK (s : State) : Prop := ∀ d ∈ s.deposits, d.wcount ≤ s.params.houseMaxW

/-- along the history run from `s`, no step lowers MaxWithdrawalCount -/
def c9h_neverLowers : State → List Op → Prop
  | _, [] => True
  | s, op :: ops => s.params.houseMaxW ≤ (step s op).1.params.houseMaxW ∧ c9h_neverLowers (step s op).1 ops

theorem c9h_step_cnt (s : State) (op : Op) (h : c9h_CntOK s)
    (hm : s.params.houseMaxW ≤ (step s op).1.params.houseMaxW) : c9h_CntOK (step s op).1 := by
  intro y hy
  refine Nat.le_trans ?_ hm
  rcases c9h_step_deposits s op with e | ⟨x, hx, _, e⟩ | ⟨d, w, hd, hc, e⟩
  · rw [e] at hy; exact h y hy
  · rw [e] at hy
    rcases mem_upsert_or Deposit.key x y s.deposits hy with rfl | hy
    · rw [hx]; exact Nat.zero_le _
    · exact h y hy
  · rw [e] at hy
    rcases mem_upsert_or Deposit.key _ y s.deposits hy with rfl | hy
    · exact hc
    · exact h y hy

theorem c9h_run_cnt (s : State) (ops : List Op) (h : c9h_CntOK s) (hm : c9h_neverLowers s ops) : c9h_CntOK (run s ops) := by
  induction ops generalizing s with
  | nil => exact h
  | cons op rest ih => exact ih _ (c9h_step_cnt s op h hm.1) hm.2

/-- a history without an accepted parameter change that lowers MaxWithdrawalCount never lowers it -/
theorem c9h_neverLowers_of (s : State) (ops : List Op)
    (h : ∀ p, .setParams p ∈ ops → p.valid = true → s.params.houseMaxW ≤ p.houseMaxW ∧
      ∀ q, .setParams q ∈ ops → q.valid = true → q.houseMaxW = p.houseMaxW) : c9h_neverLowers s ops := by
  induction ops generalizing s with
  | nil => trivial
  | cons op rest ih =>
    rcases step_params s op with e | ⟨p, rfl, hv, e⟩
    · refine ⟨by rw [e]; exact Nat.le_refl _, ih _ ?_⟩
      intro p hp hv
      rw [e]
      obtain ⟨h1, h2⟩ := h p (List.mem_cons_of_mem _ hp) hv
      exact ⟨h1, fun q hq hqv => h2 q (List.mem_cons_of_mem _ hq) hqv⟩
    · obtain ⟨h1, h2⟩ := h p (List.mem_cons_self ..) hv
      refine ⟨by rw [e]; exact h1, ih _ ?_⟩
      intro q hq hqv
      rw [e]
      obtain ⟨_, h4⟩ := h q (List.mem_cons_of_mem _ hq) hqv
      refine ⟨?_, fun r hr hrv => h4 r (List.mem_cons_of_mem _ hr) hrv⟩
      rw [h2 q (List.mem_cons_of_mem _ hq) hqv]
      exact Nat.le_refl _

-- ---------------------------------------------------------------------------------------------
-- the grant store, key by key

theorem c9h_find_filter_self (g e k : Nat) (l : List Grant) :
    (l.filter (fun x => !grantIs g e k x)).find? (grantIs g e k) = none := by
  rw [List.find?_eq_none]
  intro x hx
  have := (List.mem_filter.mp hx).2
  simpa using this

theorem c9h_grantIs_other {g e k g' e' k' : Nat} (h : ¬ (g' = g ∧ e' = e ∧ k' = k)) (x : Grant)
    (hx : grantIs g e k x = true) : grantIs g' e' k' x = false := by
  unfold grantIs at hx ⊢
  simp only [Bool.and_eq_true, beq_iff_eq] at hx
  cases hc : (x.granter == g' && x.grantee == e' && x.kind == k')
  · rfl
  · exfalso
    simp only [Bool.and_eq_true, beq_iff_eq] at hc
    exact h ⟨hc.1.1.symm.trans hx.1.1, hc.1.2.symm.trans hx.1.2, hc.2.symm.trans hx.2⟩

theorem c9h_find_filter_other {g e k g' e' k' : Nat} (h : ¬ (g' = g ∧ e' = e ∧ k' = k)) (l : List Grant) :
    (l.filter (fun x => !grantIs g e k x)).find? (grantIs g' e' k') = l.find? (grantIs g' e' k') := by
  induction l with
  | nil => rfl
  | cons x xs ih =>
    by_cases hx : grantIs g e k x = true
    · have h2 := c9h_grantIs_other h x hx
      rw [List.filter_cons_of_neg (by simp [hx]), List.find?_cons_of_neg (by simp [h2]), ih]
    · have hx' : grantIs g e k x = false := by simpa using hx
      rw [List.filter_cons_of_pos (by simp [hx'])]
      simp only [List.find?_cons]
      rw [ih]

theorem c9h_find_snoc (p : Grant → Bool) (l : List Grant) (x : Grant) :
    (l ++ [x]).find? p = (l.find? p).or (if p x then some x else none) := by
  rw [List.find?_append]
  congr 1
  simp only [List.find?_cons, List.find?_nil]
  cases p x <;> rfl

/-- `dropGrant` on the key itself and on the other keys -/
theorem c9h_findGrant_drop_self (s : State) (g e k : Nat) : findGrant (dropGrant s g e k) g e k = none :=
  c9h_find_filter_self g e k s.grants

theorem c9h_findGrant_drop_other (s : State) {g e k g' e' k' : Nat} (h : ¬ (g' = g ∧ e' = e ∧ k' = k)) :
    findGrant (dropGrant s g e k) g' e' k' = findGrant s g' e' k' :=
  c9h_find_filter_other h s.grants

theorem c9h_findGrant_congr {s s' : State} (h : s'.grants = s.grants) (g e k : Nat) : findGrant s' g e k = findGrant s g e k := by
  unfold findGrant; rw [h]

/-- `ValidateMsgAuthorization`: a live grant with enough limit existed; afterwards the stored grant of that key is
    the old one with the limit lowered by exactly the amount, or none when used up; partial use needs an expiry
    strictly after the block time; the grants of all other keys are as before -/
theorem c9h_useGrant_find {s s' : State} {g e k : Nat} {x : Int} (h : useGrant s g e k x = some s') :
    ∃ gr, findGrant s g e k = some gr ∧ gr.expired s.time = false ∧ x ≤ gr.limit ∧
      (gr.limit - x = 0 ∨ gr.resavable s.time = true) ∧
      findGrant s' g e k = (if gr.limit - x = 0 then none else some { gr with limit := gr.limit - x }) ∧
      ∀ g' e' k', ¬ (g' = g ∧ e' = e ∧ k' = k) → findGrant s' g' e' k' = findGrant s g' e' k' := by
  obtain ⟨gr, hg, he, hl, rfl⟩ := useGrant_spec h
  obtain ⟨gr2, hg2, hres⟩ := useGrant_partial_needs_future_expiry h
  rw [hg] at hg2; cases hg2
  have hgi : grantIs g e k gr = true := by
    unfold findGrant at hg
    exact List.find?_some hg
  refine ⟨gr, hg, he, hl, hres, ?_, ?_⟩
  · split
    · exact c9h_findGrant_drop_self s g e k
    · show ((dropGrant s g e k).grants ++ [{ gr with limit := gr.limit - x }]).find? (grantIs g e k) = _
      rw [c9h_find_snoc]
      have : (dropGrant s g e k).grants.find? (grantIs g e k) = none := c9h_find_filter_self g e k s.grants
      rw [this]
      have hgi' : grantIs g e k { gr with limit := gr.limit - x } = true := hgi
      simp [hgi']
  · intro g' e' k' hne
    split
    · exact c9h_findGrant_drop_other s hne
    · show ((dropGrant s g e k).grants ++ [{ gr with limit := gr.limit - x }]).find? (grantIs g' e' k') = _
      rw [c9h_find_snoc]
      have hgi' : grantIs g e k { gr with limit := gr.limit - x } = true := hgi
      have := c9h_grantIs_other hne _ hgi'
      rw [this]
      have e2 : (dropGrant s g e k).grants.find? (grantIs g' e' k') = findGrant s g' e' k' :=
        c9h_find_filter_other hne s.grants
      rw [e2]
      simp

/-- the remaining limit of the stored grant of a key (0 when there is none) -/
def c9h_rem (s : State) (g e k : Nat) : Int :=
  match findGrant s g e k with
  | some gr => gr.limit
  | none => 0

/-- the delegated use of a grant an operation makes in state `s`: (granter, grantee, kind, amount) of a MsgDeposit
    (kind 0) / MsgWithdraw (kind 1) that succeeds on behalf of another account -/
def c9h_useEvent (s : State) : Op → Option (Nat × Nat × Nat × Int)
  | .deposit c tk m a pd =>
    if (houseDeposit s c tk m a pd).2.1 = .ok ∧ depositFor c pd ≠ c then some (depositFor c pd, c, 0, a) else none
  | .withdraw c tk m i md a pd =>
    if (houseWithdraw s c tk m i md a pd).2 = .ok ∧ pd ≠ 0 then
      some (pd, c, 1, (c9h_calc s (c9h_wdDepositor c pd) m i md a).getD 0)
    else none
  | _ => none

/-- the delegated uses along the history `ops` run from `s` -/
def c9h_useTrace : State → List Op → List (Nat × Nat × Nat × Int)
  | _, [] => []
  | s, op :: ops => (c9h_useEvent s op).toList ++ c9h_useTrace (step s op).1 ops

/-- the sum of the amounts of the uses of the key (g, e, k) -/
def c9h_useSum (g e k : Nat) (U : List (Nat × Nat × Nat × Int)) : Int :=
  ((U.filter (fun u => u.1 == g && u.2.1 == e && u.2.2.1 == k)).map (·.2.2.2)).sum

/-- the operation is an authz grant / revoke on the key -/
def c9h_touches (g e k : Nat) : Op → Prop
  | .grant g' e' k' _ _ => g' = g ∧ e' = e ∧ k' = k
  | .revoke g' e' k' => g' = g ∧ e' = e ∧ k' = k
  | _ => False

/-- what one step does to the grant of the key (g, e, k) -/
def c9h_GrantStep (s : State) (op : Op) (g e k : Nat) : Prop :=
  let s' := (step s op).1
  match c9h_useEvent s op with
  | some u =>
    if u.1 = g ∧ u.2.1 = e ∧ u.2.2.1 = k then
      ∃ gr, findGrant s g e k = some gr ∧ gr.expired s.time = false ∧ 0 < u.2.2.2 ∧ u.2.2.2 ≤ gr.limit ∧
        (gr.limit - u.2.2.2 = 0 ∨ gr.resavable s.time = true) ∧
        findGrant s' g e k = (if gr.limit - u.2.2.2 = 0 then none else some { gr with limit := gr.limit - u.2.2.2 })
    else findGrant s' g e k = findGrant s g e k
  | none => findGrant s' g e k = findGrant s g e k

theorem c9h_depEvent_none {s : State} {c : Nat} {tk : Tk} {m : Nat} {a : Int} {pd : Nat}
    (h : houseDepositO s c tk m a pd = none) :
    (step s (.deposit c tk m a pd)).1 = s ∧ c9h_useEvent s (.deposit c tk m a pd) = none := by
  simp [step, houseDeposit, c9h_useEvent, h]

theorem c9h_depEvent_some {s : State} {r : State × Nat} {c : Nat} {tk : Tk} {m : Nat} {a : Int} {pd : Nat}
    (h : houseDepositO s c tk m a pd = some r) :
    (step s (.deposit c tk m a pd)).1 = r.1 ∧ (step s (.deposit c tk m a pd)).2 = .ok ∧
    c9h_useEvent s (.deposit c tk m a pd) = (if depositFor c pd ≠ c then some (depositFor c pd, c, 0, a) else none) := by
  simp [step, houseDeposit, c9h_useEvent, h]

theorem c9h_step_grant (s : State) (op : Op) (g e k : Nat) (hnt : ¬ c9h_touches g e k op) : c9h_GrantStep s op g e k := by
  unfold c9h_GrantStep
  cases op with
  | deposit c tk m a pd =>
    cases h : houseDepositO s c tk m a pd with
    | none =>
      obtain ⟨e1, e2⟩ := c9h_depEvent_none h
      rw [e2, e1]
    | some r =>
      obtain ⟨_, _, _, s1, _, _, _, _, _, _, _, _, hpos, hgs, hgr, _, _, _⟩ := c9h_deposit_shape h
      obtain ⟨e1, _, e2⟩ := c9h_depEvent_some h
      rw [e2, e1]
      by_cases hd : depositFor c pd = c
      · rw [if_neg (by simp [hd])]
        have hoff : (depositFor c pd != c) = false := by simp [hd]
        rw [hoff] at hgs
        simp only [grantStep, Bool.false_eq_true, if_false, Option.some.injEq] at hgs
        show findGrant r.1 g e k = findGrant s g e k
        rw [c9h_findGrant_congr hgr, ← hgs]
      · rw [if_pos hd]
        show if depositFor c pd = g ∧ c = e ∧ 0 = k then _ else _
        have hon : (depositFor c pd != c) = true := by simpa using hd
        rw [hon] at hgs
        simp only [grantStep, if_true] at hgs
        obtain ⟨gr, a1, a2, a3, a4, a5, a6⟩ := c9h_useGrant_find hgs
        split
        · rename_i hk
          obtain ⟨rfl, rfl, rfl⟩ := hk
          exact ⟨gr, a1, a2, hpos, a3, a4, by rw [c9h_findGrant_congr hgr]; exact a5⟩
        · rename_i hk
          rw [c9h_findGrant_congr hgr]
          exact a6 g e k (fun hc => hk ⟨hc.1.symm, hc.2.1.symm, hc.2.2.symm⟩)
  | withdraw c tk m i md a pd =>
    cases h : houseWithdrawO s c tk m i md a pd with
    | none =>
      have e1 := (c9h_wdEvent_none h).1
      have : c9h_useEvent s (.withdraw c tk m i md a pd) = none := by
        simp [c9h_useEvent, houseWithdraw, commit, h]
      rw [this, e1]
    | some s' =>
      obtain ⟨e1, e2, _⟩ := c9h_wdEvent_some h
      obtain ⟨_, w, _, _, s1, _, hcalc, hpos, _, _, _, _, _, _, hgs, hgr, _, _, _, _⟩ := c9h_withdraw_shape h
      rw [e1]
      by_cases hp : pd = 0
      · have : c9h_useEvent s (.withdraw c tk m i md a pd) = none := by
          simp [c9h_useEvent, hp]
        rw [this]
        simp only [hp, bne_self_eq_false, grantStep, Bool.false_eq_true, if_false, Option.some.injEq] at hgs
        show findGrant s' g e k = findGrant s g e k
        rw [c9h_findGrant_congr hgr, ← hgs]
      · have hok : (houseWithdraw s c tk m i md a pd).2 = .ok := e2
        have : c9h_useEvent s (.withdraw c tk m i md a pd) = some (pd, c, 1, w) := by
          simp [c9h_useEvent, hok, hp, hcalc]
        rw [this]
        have hon : (pd != 0) = true := by simpa using hp
        have hdep : c9h_wdDepositor c pd = pd := by unfold c9h_wdDepositor; simp [hon]
        rw [hon, hdep] at hgs
        simp only [grantStep, if_true] at hgs
        obtain ⟨gr, a1, a2, a3, a4, a5, a6⟩ := c9h_useGrant_find hgs
        show if pd = g ∧ c = e ∧ 1 = k then _ else _
        split
        · rename_i hk
          obtain ⟨rfl, rfl, rfl⟩ := hk
          exact ⟨gr, a1, a2, hpos, a3, a4, by rw [c9h_findGrant_congr hgr]; exact a5⟩
        · rename_i hk
          show findGrant s' g e k = findGrant s g e k
          rw [c9h_findGrant_congr hgr]
          exact a6 g e k (fun hc => hk ⟨hc.1.symm, hc.2.1.symm, hc.2.2.symm⟩)
  | marketAdd c tk u st en o stt =>
    exact c9h_findGrant_congr (c9h_step_hk s _ (by intros; simp) (by intros; simp) (by intros; simp) (by intros; simp) (by intros; simp) (by intros; simp)).2.2.1 g e k
  | marketUpdate tk u st en stt =>
    exact c9h_findGrant_congr (c9h_step_hk s _ (by intros; simp) (by intros; simp) (by intros; simp) (by intros; simp) (by intros; simp) (by intros; simp)).2.2.1 g e k
  | marketResolve tk u ts stt w =>
    exact c9h_findGrant_congr (c9h_step_hk s _ (by intros; simp) (by intros; simp) (by intros; simp) (by intros; simp) (by intros; simp) (by intros; simp)).2.2.1 g e k
  | wager c tk u a pl =>
    exact c9h_findGrant_congr (c9h_step_hk s _ (by intros; simp) (by intros; simp) (by intros; simp) (by intros; simp) (by intros; simp) (by intros; simp)).2.2.1 g e k
  | send x y v =>
    exact c9h_findGrant_congr (c9h_step_hk s _ (by intros; simp) (by intros; simp) (by intros; simp) (by intros; simp) (by intros; simp) (by intros; simp)).2.2.1 g e k
  | endBlock =>
    exact c9h_findGrant_congr (c9h_step_hk s _ (by intros; simp) (by intros; simp) (by intros; simp) (by intros; simp) (by intros; simp) (by intros; simp)).2.2.1 g e k
  | grant g' e' k' l x =>
    have hne : ¬ (g = g' ∧ e = e' ∧ k = k') := fun hc => hnt ⟨hc.1.symm, hc.2.1.symm, hc.2.2.symm⟩
    show ((dropGrant s g' e' k').grants ++ [_]).find? (grantIs g e k) = _
    rw [c9h_find_snoc]
    have hgi : grantIs g' e' k' { granter := g', grantee := e', kind := k', limit := l, expiry := x } = true := by
      simp [grantIs]
    rw [c9h_grantIs_other hne _ hgi]
    have e2 : (dropGrant s g' e' k').grants.find? (grantIs g e k) = findGrant s g e k := c9h_find_filter_other hne s.grants
    rw [e2]
    simp
  | revoke g' e' k' =>
    have hne : ¬ (g = g' ∧ e = e' ∧ k = k') := fun hc => hnt ⟨hc.1.symm, hc.2.1.symm, hc.2.2.symm⟩
    exact c9h_findGrant_drop_other s hne
  | setParams p =>
    show findGrant (step s (.setParams p)).1 g e k = findGrant s g e k
    apply c9h_findGrant_congr
    simp only [step]
    split <;> rfl
  | newBlock h t => exact c9h_findGrant_congr rfl g e k

/-- the authz operations on the key itself -/
theorem c9h_step_grant_set (s : State) (g e k : Nat) (l : Int) (x : Option Nat) :
    findGrant (step s (.grant g e k l x)).1 g e k = some { granter := g, grantee := e, kind := k, limit := l, expiry := x } ∧
    findGrant (step s (.revoke g e k)).1 g e k = none := by
  constructor
  · show ((dropGrant s g e k).grants ++ [_]).find? (grantIs g e k) = _
    rw [c9h_find_snoc]
    have : (dropGrant s g e k).grants.find? (grantIs g e k) = none := c9h_find_filter_self g e k s.grants
    rw [this]
    simp [grantIs]
  · exact c9h_findGrant_drop_self s g e k

theorem c9h_useSum_append (g e k : Nat) (U V : List (Nat × Nat × Nat × Int)) :
    c9h_useSum g e k (U ++ V) = c9h_useSum g e k U + c9h_useSum g e k V := by
  unfold c9h_useSum
  rw [List.filter_append, List.map_append, List.sum_append]

/-- one step: the remaining limit goes down by exactly the amount of the use of the key the step makes (if any), stays
    non-negative when it was, and the expiry of a grant that is still stored does not change -/
theorem c9h_step_rem (s : State) (op : Op) (g e k : Nat) (hnt : ¬ c9h_touches g e k op) :
    c9h_rem (step s op).1 g e k = c9h_rem s g e k - c9h_useSum g e k (c9h_useEvent s op).toList ∧
    (0 ≤ c9h_rem s g e k → 0 ≤ c9h_rem (step s op).1 g e k) ∧
    (∀ gr', findGrant (step s op).1 g e k = some gr' → ∃ gr, findGrant s g e k = some gr ∧ gr'.expiry = gr.expiry) := by
  have h := c9h_step_grant s op g e k hnt
  unfold c9h_GrantStep at h
  simp only at h
  cases hu : c9h_useEvent s op with
  | none =>
    rw [hu] at h
    simp only at h
    unfold c9h_rem
    rw [h]
    refine ⟨by simp [c9h_useSum], id, fun gr' hg => ⟨gr', hg, rfl⟩⟩
  | some u =>
    rw [hu] at h
    simp only at h
    by_cases hk : u.1 = g ∧ u.2.1 = e ∧ u.2.2.1 = k
    · rw [if_pos hk] at h
      obtain ⟨gr, a1, a2, a3, a4, a5, a6⟩ := h
      have hs : c9h_useSum g e k (some u).toList = u.2.2.2 := by
        unfold c9h_useSum
        simp [Option.toList, List.filter, hk.1, hk.2.1, hk.2.2]
      rw [hs]
      unfold c9h_rem
      rw [a6, a1]
      by_cases hz : gr.limit - u.2.2.2 = 0
      · rw [if_pos hz]
        refine ⟨by simp only; omega, fun _ => Int.le_refl _, fun gr' hg => by cases hg⟩
      · rw [if_neg hz]
        refine ⟨rfl, fun _ => by simp only; omega, fun gr' hg => ⟨gr, rfl, ?_⟩⟩
        cases hg; rfl
    · rw [if_neg hk] at h
      have hs : c9h_useSum g e k (some u).toList = 0 := by
        unfold c9h_useSum
        have : (u.1 == g && u.2.1 == e && u.2.2.1 == k) = false := by
          cases hb : (u.1 == g && u.2.1 == e && u.2.2.1 == k)
          · rfl
          · exfalso; apply hk
            simp only [Bool.and_eq_true, beq_iff_eq] at hb
            exact ⟨hb.1.1, hb.1.2, hb.2⟩
        simp [Option.toList, List.filter, this]
      rw [hs]
      unfold c9h_rem
      rw [h]
      exact ⟨by omega, id, fun gr' hg => ⟨gr', hg, rfl⟩⟩

/-- over a history segment without an authz operation on the key -/
theorem c9h_run_rem (s : State) (ops : List Op) (g e k : Nat) (hnt : ∀ op ∈ ops, ¬ c9h_touches g e k op) :
    c9h_rem (run s ops) g e k = c9h_rem s g e k - c9h_useSum g e k (c9h_useTrace s ops) ∧
    (0 ≤ c9h_rem s g e k → 0 ≤ c9h_rem (run s ops) g e k) ∧
    (∀ gr', findGrant (run s ops) g e k = some gr' → ∃ gr, findGrant s g e k = some gr ∧ gr'.expiry = gr.expiry) := by
  induction ops generalizing s with
  | nil => exact ⟨by simp [run, c9h_useTrace, c9h_useSum], id, fun gr' hg => ⟨gr', hg, rfl⟩⟩
  | cons op rest ih =>
    obtain ⟨a1, a2, a3⟩ := c9h_step_rem s op g e k (hnt op (List.mem_cons_self ..))
    obtain ⟨b1, b2, b3⟩ := ih (step s op).1 (fun o ho => hnt o (List.mem_cons_of_mem _ ho))
    refine ⟨?_, fun h0 => b2 (a2 h0), ?_⟩
    · show c9h_rem (run (step s op).1 rest) g e k = _
      rw [b1, a1]
      show _ = _ - c9h_useSum g e k ((c9h_useEvent s op).toList ++ c9h_useTrace (step s op).1 rest)
      rw [c9h_useSum_append]
      omega
    · intro gr' hg
      obtain ⟨gr1, hg1, e1⟩ := b3 gr' hg
      obtain ⟨gr0, hg0, e0⟩ := a3 gr1 hg1
      exact ⟨gr0, hg0, e1.trans e0⟩

end Sge.Core
