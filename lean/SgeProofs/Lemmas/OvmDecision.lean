/-
  The vocabulary of property C14 (independent of the model variant) and the lemmas that connect an approval
  by the model's `decideResult` with it.
-/
import SgeProofs.Lemmas.OvmInv
namespace Sge.Ovm

/-- number of different entries of a list of decoded keys -/
def countDistinct : List (Option Key) → Nat
  | [] => 0
  | x :: xs => (if xs.contains x then 0 else 1) + countDistinct xs

/-- the decoded keys behind the yes votes of `p` that were cast by keys registered in the vault `vd`
    (registered = the vault holds the same string or a string that decodes to the same key) -/
def regYesKeys (vd : List Pem) (p : Proposal) : List (Option Key) :=
  ((p.votes.filter (fun w => registered vd w.1)).filter (fun w => w.2 == Vote.yes)).map (fun w => decode w.1)

/-- C14's majority: different keys registered in `vd` that voted yes on `p` are at least two thirds,
    rounded up, of the different keys registered in `vd` -/
def SuperMajority (vd : List Pem) (p : Proposal) : Prop :=
  ceilTwoThirds (countDistinct (vd.map decode)) ≤ countDistinct (regYesKeys vd p)

instance (vd : List Pem) (p : Proposal) : Decidable (SuperMajority vd p) := by
  unfold SuperMajority; infer_instance

/-- C14's vault shape: 4 to 5 valid, pairwise different keys (different as keys, not only as strings) -/
def VaultShape (v : List Pem) : Prop :=
  4 ≤ v.length ∧ v.length ≤ 5 ∧ (∀ k ∈ v, (decode k).isSome = true) ∧ (v.map decode).Nodup

theorem countDistinct_nodup : ∀ (l : List (Option Key)), l.Nodup → countDistinct l = l.length
  | [], _ => rfl
  | x :: xs, h => by
    rw [List.nodup_cons] at h
    unfold countDistinct
    have : xs.contains x = false := by simpa using h.1
    rw [this, countDistinct_nodup xs h.2]
    simp only [List.length_cons, Bool.false_eq_true, if_false]
    omega

theorem countDistinct_le : ∀ (l : List (Option Key)), countDistinct l ≤ l.length
  | [] => Nat.le_refl _
  | x :: xs => by
    unfold countDistinct
    have := countDistinct_le xs
    simp only [List.length_cons]
    split <;> omega

theorem KeysOK.shape {l : List Pem} (h : KeysOK true l) : VaultShape l :=
  ⟨h.1, h.2.1, h.2.2.1, h.2.2.2.2 rfl⟩

theorem not_expired_le (p : Proposal) (now : Int) (h : isExpired p now = false) : now - p.startTS ≤ 1800 := by
  unfold isExpired maxValidProposalSeconds at h
  simp only [decide_eq_false_iff_not] at h
  omega

theorem countVotes_yes_of_approved (fixed : Bool) (vd : List Pem) (p : Proposal)
    (h : decideResult fixed vd p = .approved) :
    majority vd.length ≤ countVotes .yes (countedVotes fixed vd p) := by
  unfold decideResult at h
  split at h
  · cases h
  · split at h
    · assumption
    · cases h

/-- patched code: an approval against `vd` is a C14 super-majority of the keys registered in `vd`,
    provided `vd` holds pairwise different keys and the proposal holds one vote per key -/
theorem approved_superMajority (vd : List Pem) (p : Proposal) (hv : KeysOK true vd) (hp : VotesOK true p.votes)
    (h : decideResult true vd p = .approved) : SuperMajority vd p := by
  have h1 := countVotes_yes_of_approved true vd p h
  unfold SuperMajority
  have hn : countDistinct (vd.map decode) = vd.length := by
    rw [countDistinct_nodup _ (hv.2.2.2.2 rfl), List.length_map]
  have hnd : (regYesKeys vd p).Nodup := by
    unfold regYesKeys
    apply List.Nodup.sublist _ (hp.2 rfl).2
    exact (List.filter_sublist.trans List.filter_sublist).map _
  rw [hn, countDistinct_nodup _ hnd]
  have : (regYesKeys vd p).length = countVotes .yes (countedVotes true vd p) := by
    simp [regYesKeys, countVotes, countedVotes]
  rw [this]
  exact Nat.le_trans (ceilTwoThirds_le_majority _) h1

/-- every counted key is registered: an entry of `regYesKeys` is the decoded key of a vault string -/
theorem regYesKeys_registered (vd : List Pem) (p : Proposal) (hp : ∀ w ∈ p.votes, (decode w.1).isSome = true)
    (k : Option Key) (hk : k ∈ regYesKeys vd p) :
    ∃ r ∈ vd, decode r = k ∧ ∃ w ∈ p.votes, w.2 = Vote.yes ∧ decode w.1 = k := by
  unfold regYesKeys at hk
  simp only [List.mem_map, List.mem_filter] at hk
  obtain ⟨w, ⟨⟨hw, hr⟩, hy⟩, rfl⟩ := hk
  unfold registered at hr
  simp only [List.any_eq_true] at hr
  obtain ⟨r, hrv, hs⟩ := hr
  refine ⟨r, hrv, ?_, w, hw, by simpa using hy, rfl⟩
  rcases sameKey_true r w.1 hs with rfl | ⟨_, h⟩
  · rfl
  · exact h

/-- code as it is, on the inputs where it is sound: if every vote string of `p` is a string of `vd` and
    `vd` holds pairwise different keys, the recorded yes votes are a C14 super-majority -/
theorem approved_superMajority_asis (vd : List Pem) (p : Proposal) (hvd : (vd.map decode).Nodup)
    (hp : (p.votes.map (fun w => w.1)).Nodup) (hreg : ∀ w ∈ p.votes, w.1 ∈ vd)
    (h : decideResult false vd p = .approved) : SuperMajority vd p := by
  have h1 := countVotes_yes_of_approved false vd p h
  unfold SuperMajority
  have hn : countDistinct (vd.map decode) = vd.length := by
    rw [countDistinct_nodup _ hvd, List.length_map]
  have hall : p.votes.filter (fun w => registered vd w.1) = p.votes := by
    rw [List.filter_eq_self]
    intro w hw
    unfold registered
    rw [List.any_eq_true]
    exact ⟨w.1, hreg w hw, sameKey_self _⟩
  have hdec : (p.votes.map (fun w => decode w.1)).Nodup := by
    have : p.votes.map (fun w => decode w.1) = (p.votes.map (fun w => w.1)).map decode := by
      rw [List.map_map]; rfl
    rw [this]
    apply nodup_map_of_inj_on decode _ _ hp
    intro x hx y hy hxy
    simp only [List.mem_map] at hx hy
    obtain ⟨w1, hw1, rfl⟩ := hx
    obtain ⟨w2, hw2, rfl⟩ := hy
    exact inj_on_of_nodup_map decode vd hvd _ (hreg w1 hw1) _ (hreg w2 hw2) hxy
  have hnd : (regYesKeys vd p).Nodup := by
    unfold regYesKeys
    apply List.Nodup.sublist _ hdec
    exact (List.filter_sublist.trans List.filter_sublist).map _
  rw [hn, countDistinct_nodup _ hnd]
  have : (regYesKeys vd p).length = countVotes .yes (countedVotes false vd p) := by
    simp [regYesKeys, countVotes, countedVotes, hall]
  rw [this]
  exact Nat.le_trans (ceilTwoThirds_le_majority _) h1

/-- patched `DecideResult` looks only at the votes of registered keys -/
theorem decideResult_fixed_congr (vd : List Pem) (p q : Proposal)
    (h : p.votes.filter (fun w => registered vd w.1) = q.votes.filter (fun w => registered vd w.1)) :
    decideResult true vd p = decideResult true vd q := by
  unfold decideResult countedVotes
  simp only [if_true]
  rw [h]

end Sge.Ovm
