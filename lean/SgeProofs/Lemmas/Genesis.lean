/- lemmas about keyed stores (`upsert` on lists sorted by key) used by the genesis theorems (C16) -/
import Sge.Genesis
namespace Sge.Genesis
open Sge Sge.Core

-- ---------------------------------------------------------------------------------------------
-- the key order

theorem ltL_irrefl : ∀ a : List Nat, ltL a a = false
  | [] => rfl
  | x :: xs => by simp [ltL, ltL_irrefl xs]

theorem ltL_trans : ∀ a b c : List Nat, ltL a b = true → ltL b c = true → ltL a c = true
  | [], [], _, h, _ => by simp [ltL] at h
  | [], _ :: _, [], _, h => by simp [ltL] at h
  | [], _ :: _, _ :: _, _, _ => by simp [ltL]
  | _ :: _, [], _, h, _ => by simp [ltL] at h
  | _ :: _, _ :: _, [], _, h => by simp [ltL] at h
  | x :: xs, y :: ys, z :: zs, h1, h2 => by
    simp only [ltL, Bool.or_eq_true, decide_eq_true_eq, Bool.and_eq_true, beq_iff_eq] at h1 h2 ⊢
    rcases h1 with h1 | ⟨e1, h1⟩
    · rcases h2 with h2 | ⟨e2, _⟩
      · left; omega
      · left; omega
    · rcases h2 with h2 | ⟨e2, h2⟩
      · left; omega
      · right; exact ⟨by omega, ltL_trans xs ys zs h1 h2⟩

theorem ltL_ne (a b : List Nat) (h : ltL a b = true) : (a == b) = false := by
  cases hab : a == b
  · rfl
  · have : a = b := by simpa using hab
    subst this
    rw [ltL_irrefl] at h
    cases h

theorem ltL_asymm (a b : List Nat) (h : ltL a b = true) : ltL b a = false := by
  cases hba : ltL b a
  · rfl
  · have := ltL_trans a b a h hba
    rw [ltL_irrefl] at this
    cases this

/-- the order is total: different keys are comparable -/
theorem ltL_total : ∀ a b : List Nat, (a == b) = false → ltL b a = false → ltL a b = true
  | [], [], h, _ => by simp at h
  | [], _ :: _, _, _ => by simp [ltL]
  | _ :: _, [], _, h => by simp [ltL] at h
  | x :: xs, y :: ys, h1, h2 => by
    simp only [ltL, Bool.or_eq_false_iff, decide_eq_false_iff_not, Bool.and_eq_false_iff, beq_eq_false_iff_ne, ne_eq] at h2
    simp only [ltL, Bool.or_eq_true, decide_eq_true_eq, Bool.and_eq_true, beq_iff_eq]
    by_cases hxy : x = y
    · subst hxy
      right
      refine ⟨rfl, ?_⟩
      apply ltL_total xs ys
      · cases hc : xs == ys
        · rfl
        · have : xs = ys := by simpa using hc
          subst this
          simp at h1
      · rcases h2.2 with h | h
        · exact absurd rfl h
        · exact h
    · left; omega

theorem ltL_total_of {α : Type} {key : α → List Nat} (y x : α) (hne : ¬ (key y == key x) = true)
    (hnlt : ¬ ltL (key x) (key y) = true) : ltL (key y) (key x) = true :=
  ltL_total _ _ (by simpa using hne) (by simpa using hnlt)

-- ---------------------------------------------------------------------------------------------
-- stores sorted by key

/-- strictly increasing keys: the shape of a KV-store prefix scan -/
def Sorted {α : Type} (key : α → List Nat) (l : List α) : Prop :=
  l.Pairwise (fun a b => ltL (key a) (key b) = true)

theorem sortedB_iff {α : Type} (key : α → List Nat) (l : List α) : sortedB key l = true ↔ Sorted key l := by
  induction l with
  | nil => simp [sortedB, Sorted]
  | cons x xs ih =>
    simp only [sortedB, Bool.and_eq_true, List.all_eq_true, Sorted, List.pairwise_cons]
    rw [ih]
    rfl

/-- appending an element whose key is above all keys -/
theorem upsert_append {α : Type} (key : α → List Nat) (x : α) (l : List α)
    (h : ∀ y ∈ l, ltL (key y) (key x) = true) : upsert key x l = l ++ [x] := by
  induction l with
  | nil => rfl
  | cons y ys ih =>
    have hy := h y (List.mem_cons_self ..)
    unfold upsert
    rw [ltL_ne _ _ hy, ltL_asymm _ _ hy]
    simp only [Bool.false_eq_true, ↓reduceIte, List.cons_append, List.cons.injEq, true_and]
    exact ih (fun z hz => h z (List.mem_cons_of_mem _ hz))

theorem setAll_append {α : Type} (key : α → List Nat) (l acc : List α) (h : Sorted key (acc ++ l)) :
    setAll key l acc = acc ++ l := by
  induction l generalizing acc with
  | nil => simp [setAll]
  | cons x xs ih =>
    unfold setAll
    simp only [List.foldl_cons]
    have hx : upsert key x acc = acc ++ [x] := by
      apply upsert_append
      intro y hy
      unfold Sorted at h
      rw [List.pairwise_append] at h
      exact h.2.2 y hy x (List.mem_cons_self ..)
    rw [hx]
    have := ih (acc ++ [x]) (by simpa using h)
    unfold setAll at this
    rw [this]
    simp

/-- writing the records of a prefix scan into an empty store gives the scan back -/
theorem setAll_sorted {α : Type} (key : α → List Nat) (l : List α) (h : Sorted key l) : setAll key l [] = l := by
  simpa using setAll_append key l [] (by simpa using h)

/-- writing a record that is already stored -/
theorem upsert_mem {α : Type} (key : α → List Nat) (x : α) (l : List α) (hs : Sorted key l) (hx : x ∈ l) :
    upsert key x l = l := by
  induction l with
  | nil => cases hx
  | cons y ys ih =>
    unfold Sorted at hs
    rw [List.pairwise_cons] at hs
    rcases List.mem_cons.mp hx with rfl | hin
    · unfold upsert; simp
    · have hlt := hs.1 x hin
      unfold upsert
      have h1 : (key y == key x) = false := ltL_ne _ _ hlt
      rw [h1, ltL_asymm _ _ hlt]
      simp only [Bool.false_eq_true, ↓reduceIte, List.cons.injEq, true_and]
      exact ih hs.2 hin

theorem setAll_sub {α : Type} (key : α → List Nat) (l store : List α) (hs : Sorted key store) (h : ∀ x ∈ l, x ∈ store) :
    setAll key l store = store := by
  induction l with
  | nil => rfl
  | cons x xs ih =>
    unfold setAll
    simp only [List.foldl_cons]
    rw [upsert_mem key x store hs (h x (List.mem_cons_self ..))]
    exact ih (fun y hy => h y (List.mem_cons_of_mem _ hy))

/-- writing a prefix scan into the store it was read from changes nothing -/
theorem setAll_self {α : Type} (key : α → List Nat) (l : List α) (hs : Sorted key l) : setAll key l l = l :=
  setAll_sub key l l hs (fun _ h => h)

/-- no two records of a sorted store have the same first key component -/
theorem sorted_noDup {α : Type} (key : α → List Nat) (f : α → Nat) (l : List α) (hs : Sorted key l)
    (hk : ∀ a, key a = [f a]) : hasDup (l.map f) = false := by
  induction l with
  | nil => rfl
  | cons x xs ih =>
    unfold Sorted at hs
    rw [List.pairwise_cons] at hs
    simp only [List.map_cons, hasDup, Bool.or_eq_false_iff]
    refine ⟨?_, ih hs.2⟩
    cases hc : (xs.map f).contains (f x)
    · rfl
    · rw [List.contains_iff_mem] at hc
      obtain ⟨y, hy, hfy⟩ := List.mem_map.mp hc
      have := hs.1 y hy
      rw [hk, hk, hfy, ltL_irrefl] at this
      cases this

/-- `upsert` keeps a store sorted -/
theorem upsert_sorted {α : Type} (key : α → List Nat) (x : α) (l : List α) (hs : Sorted key l) : Sorted key (upsert key x l) := by
  induction l with
  | nil => simp [upsert, Sorted]
  | cons y ys ih =>
    unfold Sorted at hs
    rw [List.pairwise_cons] at hs
    unfold upsert
    split
    · rename_i he
      have he : key y = key x := by simpa using he
      unfold Sorted
      rw [List.pairwise_cons]
      exact ⟨fun z hz => by rw [← he]; exact hs.1 z hz, hs.2⟩
    · split
      · rename_i hlt
        unfold Sorted
        rw [List.pairwise_cons, List.pairwise_cons]
        refine ⟨?_, hs⟩
        intro z hz
        rcases List.mem_cons.mp hz with rfl | hz
        · exact hlt
        · exact ltL_trans _ _ _ hlt (hs.1 z hz)
      · rename_i hne hnlt
        have ih' := ih hs.2
        unfold Sorted
        rw [List.pairwise_cons]
        refine ⟨?_, ih'⟩
        intro z hz
        -- z is x or an old element
        have : z = x ∨ z ∈ ys := by
          clear ih ih' hs
          induction ys with
          | nil => simp [upsert] at hz; exact Or.inl hz
          | cons w ws ihw =>
            unfold upsert at hz
            split at hz
            · rcases List.mem_cons.mp hz with h | h
              · exact Or.inl h
              · exact Or.inr (List.mem_cons_of_mem _ h)
            · split at hz
              · rcases List.mem_cons.mp hz with h | h
                · exact Or.inl h
                · exact Or.inr h
              · rcases List.mem_cons.mp hz with h | h
                · exact Or.inr (h ▸ List.mem_cons_self ..)
                · rcases ihw h with h | h
                  · exact Or.inl h
                  · exact Or.inr (List.mem_cons_of_mem _ h)
        rcases this with rfl | hz
        · -- key y ≠ key z and not (key z < key y): total order on lists of equal... use trichotomy of ltL
          exact ltL_total_of _ _ hne hnlt
        · exact hs.1 z hz

/-- in a sorted store a key determines the record -/
theorem sorted_mem_key_inj {α : Type} (key : α → List Nat) (l : List α) (hs : Sorted key l) (a b : α)
    (ha : a ∈ l) (hb : b ∈ l) (hk : key a = key b) : a = b := by
  induction l with
  | nil => cases ha
  | cons y ys ih =>
    unfold Sorted at hs
    rw [List.pairwise_cons] at hs
    rcases List.mem_cons.mp ha with ea | ha'
    · rcases List.mem_cons.mp hb with eb | hb'
      · rw [ea, eb]
      · have := hs.1 b hb'
        rw [← ea, hk, ltL_irrefl] at this; cases this
    · rcases List.mem_cons.mp hb with eb | hb'
      · have := hs.1 a ha'
        rw [← eb, hk, ltL_irrefl] at this; cases this
      · exact ih hs.2 ha' hb'

/-- what a store holds after a `Set` -/
theorem mem_upsert {α : Type} (key : α → List Nat) (x z : α) (l : List α) :
    z ∈ upsert key x l ↔ z = x ∨ (z ∈ l ∧ (key z == key x) = false ∧ True) ∨ (z ∈ l ∧ z ∈ upsert key x l) := by
  constructor
  · intro hz
    induction l with
    | nil => simp [upsert] at hz; exact Or.inl hz
    | cons w ws ih =>
      by_cases hzx : z = x
      · exact Or.inl hzx
      · right; right
        refine ⟨?_, hz⟩
        unfold upsert at hz
        split at hz
        · rcases List.mem_cons.mp hz with h | h
          · exact absurd h hzx
          · exact List.mem_cons_of_mem _ h
        · split at hz
          · rcases List.mem_cons.mp hz with h | h
            · exact absurd h hzx
            · exact h
          · rcases List.mem_cons.mp hz with h | h
            · exact h ▸ List.mem_cons_self ..
            · rcases ih h with h' | h' | h'
              · exact absurd h' hzx
              · exact List.mem_cons_of_mem _ h'.1
              · exact List.mem_cons_of_mem _ h'.1
  · intro h
    rcases h with rfl | h | h
    · induction l with
      | nil => simp [upsert]
      | cons w ws ih =>
        unfold upsert
        split
        · exact List.mem_cons_self ..
        · split
          · exact List.mem_cons_self ..
          · exact List.mem_cons_of_mem _ ih
    · obtain ⟨hz, hk, _⟩ := h
      induction l with
      | nil => cases hz
      | cons w ws ih =>
        unfold upsert
        split
        · rename_i he
          rcases List.mem_cons.mp hz with rfl | hz
          · rw [hk] at he; cases he
          · exact List.mem_cons_of_mem _ hz
        · split
          · exact List.mem_cons_of_mem _ hz
          · rcases List.mem_cons.mp hz with rfl | hz
            · exact List.mem_cons_self ..
            · exact List.mem_cons_of_mem _ (ih hz)
    · exact h.2

/-- elements of the store after a `Set`: the record written, and the old records under other keys -/
theorem mem_upsert_iff {α : Type} (key : α → List Nat) (x z : α) (l : List α) (hs : Sorted key l) :
    z ∈ upsert key x l ↔ z = x ∨ (z ∈ l ∧ (key z == key x) = false) := by
  constructor
  · intro hz
    by_cases hzx : z = x
    · exact Or.inl hzx
    · right
      have hsu := upsert_sorted key x l hs
      have hxin : x ∈ upsert key x l := (mem_upsert key x x l).mpr (Or.inl rfl)
      have hzl : z ∈ l := by
        rcases (mem_upsert key x z l).mp hz with h | h | h
        · exact absurd h hzx
        · exact h.1
        · exact h.1
      refine ⟨hzl, ?_⟩
      -- two different members of a sorted list have different keys
      cases hk : key z == key x
      · rfl
      · exfalso
        have hkeq : key z = key x := by simpa using hk
        have := sorted_mem_key_inj key _ hsu z x hz hxin hkeq
        exact hzx this
  · intro h
    rcases h with h | h
    · exact (mem_upsert key x z l).mpr (Or.inl h)
    · exact (mem_upsert key x z l).mpr (Or.inr (Or.inl ⟨h.1, h.2, trivial⟩))

/-- two sorted stores with the same records are the same list -/
theorem sorted_ext {α : Type} (key : α → List Nat) : ∀ (l1 l2 : List α), Sorted key l1 → Sorted key l2 →
    (∀ z, z ∈ l1 ↔ z ∈ l2) → l1 = l2
  | [], [], _, _, _ => rfl
  | [], y :: ys, _, _, h => by have := (h y).mpr (List.mem_cons_self ..); cases this
  | x :: xs, [], _, _, h => by have := (h x).mp (List.mem_cons_self ..); cases this
  | x :: xs, y :: ys, h1, h2, h => by
    unfold Sorted at h1 h2
    rw [List.pairwise_cons] at h1 h2
    have hxy : x = y := by
      rcases List.mem_cons.mp ((h x).mp (List.mem_cons_self ..)) with e | hx
      · exact e
      · rcases List.mem_cons.mp ((h y).mpr (List.mem_cons_self ..)) with e | hy
        · exact e.symm
        · have a := h2.1 x hx
          have b := h1.1 y hy
          rw [ltL_asymm _ _ a] at b
          cases b
    subst hxy
    congr 1
    apply sorted_ext key xs ys h1.2 h2.2
    intro z
    constructor
    · intro hz
      rcases List.mem_cons.mp ((h z).mp (List.mem_cons_of_mem _ hz)) with e | hz'
      · subst e
        have := h1.1 z hz
        rw [ltL_irrefl] at this
        cases this
      · exact hz'
    · intro hz
      rcases List.mem_cons.mp ((h z).mpr (List.mem_cons_of_mem _ hz)) with e | hz'
      · subst e
        have := h2.1 z hz
        rw [ltL_irrefl] at this
        cases this
      · exact hz'

theorem setAll_sortedRes {α : Type} (key : α → List Nat) (l store : List α) (hs : Sorted key store) :
    Sorted key (setAll key l store) := by
  induction l generalizing store with
  | nil => exact hs
  | cons x xs ih =>
    unfold setAll
    simp only [List.foldl_cons]
    exact ih _ (upsert_sorted key x store hs)

/-- membership after writing a list of records with pairwise different keys into a store none of whose keys they use -/
theorem mem_setAll {α : Type} (key : α → List Nat) (l store : List α) (hs : Sorted key store)
    (hd : l.Pairwise (fun a b => (key a == key b) = false))
    (hn : ∀ a ∈ l, ∀ b ∈ store, (key b == key a) = false) (z : α) :
    z ∈ setAll key l store ↔ z ∈ l ∨ z ∈ store := by
  induction l generalizing store with
  | nil => simp [setAll]
  | cons x xs ih =>
    rw [List.pairwise_cons] at hd
    unfold setAll
    simp only [List.foldl_cons]
    have hsu := upsert_sorted key x store hs
    have := ih (upsert key x store) hsu hd.2 (by
      intro a ha b hb
      rcases (mem_upsert_iff key x b store hs).mp hb with rfl | hb
      · have := hd.1 a ha
        cases hc : key b == key a
        · rfl
        · have e : key b = key a := by simpa using hc
          rw [e] at this; simp at this
      · exact hn a (List.mem_cons_of_mem _ ha) b hb.1)
    unfold setAll at this
    rw [this, mem_upsert_iff key x z store hs]
    constructor
    · rintro (h | h | h)
      · exact Or.inl (List.mem_cons_of_mem _ h)
      · exact Or.inl (h ▸ List.mem_cons_self ..)
      · exact Or.inr h.1
    · rintro (h | h)
      · rcases List.mem_cons.mp h with h | h
        · exact Or.inr (Or.inl h)
        · exact Or.inl h
      · by_cases hzx : z = x
        · exact Or.inr (Or.inl hzx)
        · exact Or.inr (Or.inr ⟨h, hn x (List.mem_cons_self ..) z h⟩)

/-- writing the records of a store in any order (each once) into an empty store gives the store back -/
theorem setAll_perm {α : Type} (key : α → List Nat) (l target : List α) (ht : Sorted key target)
    (hd : l.Pairwise (fun a b => (key a == key b) = false)) (hm : ∀ z, z ∈ l ↔ z ∈ target) :
    setAll key l [] = target := by
  apply sorted_ext key _ _ (setAll_sortedRes key l [] (by simp [Sorted])) ht
  intro z
  rw [mem_setAll key l [] (by simp [Sorted]) hd (by intro a _ b hb; cases hb) z]
  simp [hm z]

theorem firstErr_zero (l : List Nat) (h : ∀ c ∈ l, c = 0) : firstErr l = 0 := by
  induction l with
  | nil => rfl
  | cons c cs ih =>
    have hc := h c (List.mem_cons_self ..)
    subst hc
    simp only [firstErr, bne_self_eq_false, Bool.false_eq_true, ↓reduceIte]
    exact ih (fun d hd => h d (List.mem_cons_of_mem _ hd))

-- ---------------------------------------------------------------------------------------------
-- x/bet: the uid → id lookup of the genesis code and the per-bet loops of InitGenesis

theorem idOf_foldl_none (m : List (Nat × Nat)) (uid acc : Nat) (h : ∀ x ∈ m, x.1 ≠ uid) :
    m.foldl (fun acc x => if x.1 == uid then x.2 else acc) acc = acc := by
  induction m generalizing acc with
  | nil => rfl
  | cons y ys ih =>
    simp only [List.foldl_cons]
    have : (y.1 == uid) = false := by simpa using h y (List.mem_cons_self ..)
    simp only [this, Bool.false_eq_true, ↓reduceIte]
    exact ih acc (fun x hx => h x (List.mem_cons_of_mem _ hx))

theorem idOf_foldl_mem (m : List (Nat × Nat)) (hs : Sorted (fun (x : Nat × Nat) => [x.1]) m) (u i acc : Nat) (h : (u, i) ∈ m) :
    m.foldl (fun acc x => if x.1 == u then x.2 else acc) acc = i := by
  induction m generalizing acc with
  | nil => cases h
  | cons y ys ih =>
    unfold Sorted at hs
    rw [List.pairwise_cons] at hs
    simp only [List.foldl_cons]
    rcases List.mem_cons.mp h with e | hin
    · subst e
      simp only [beq_self_eq_true, ↓reduceIte]
      apply idOf_foldl_none
      intro x hx hxe
      have := hs.1 x hx
      simp only [hxe] at this
      simp [ltL] at this
    · have hy : (y.1 == u) = false := by
        cases hc : y.1 == u
        · rfl
        · have e : y.1 = u := by simpa using hc
          have := hs.1 (u, i) hin
          simp [ltL, e] at this
      simp only [hy, Bool.false_eq_true, ↓reduceIte]
      exact ih hs.2 acc hin

/-- distinct uids give pairwise different keys of the (uid, id) records -/
theorem pairwise_of_noDup {α : Type} (f : α → Nat) (l : List α) (h : hasDup (l.map f) = false) :
    l.Pairwise (fun a b => ([f a] == [f b]) = false) := by
  induction l with
  | nil => exact List.Pairwise.nil
  | cons x xs ih =>
    simp only [List.map_cons, hasDup, Bool.or_eq_false_iff] at h
    rw [List.pairwise_cons]
    refine ⟨?_, ih h.2⟩
    intro y hy
    cases hc : [f x] == [f y]
    · rfl
    · have e : f x = f y := by simpa using hc
      have : (xs.map f).contains (f x) = true := by
        rw [List.contains_iff_mem]
        exact List.mem_map.mpr ⟨y, hy, e.symm⟩
      rw [this] at h
      cases h.1

/-- the id the genesis code finds for the uid of a stored bet is the bet's id -/
theorem idOf_export (bets : List Bet) (hd : hasDup (bets.map (·.uid)) = false) (b : Bet) (hb : b ∈ bets) :
    idOf (setAll (fun (x : Nat × Nat) => [x.1]) (bets.map (fun b => (b.uid, b.id))) []) b.uid = b.id := by
  unfold idOf
  apply idOf_foldl_mem
  · exact setAll_sortedRes _ _ _ (by simp [Sorted])
  · rw [mem_setAll _ _ [] (by simp [Sorted])]
    · exact Or.inl (List.mem_map.mpr ⟨b, hb, rfl⟩)
    · have := pairwise_of_noDup (·.uid) bets hd
      rw [List.pairwise_map]
      exact this
    · intro a _ c hc; cases hc

theorem flatMap_ite {α β : Type} (l : List α) (c : α → Bool) (f : α → β) :
    l.flatMap (fun a => if c a then [f a] else []) = (l.filter c).map f := by
  induction l with
  | nil => rfl
  | cons x xs ih =>
    simp only [List.flatMap_cons, List.filter_cons]
    cases c x <;> simp [ih]

def restoreId (g : BetGen) (b : Bet) : Bet := { b with id := idOf g.uid2id b.uid }

def pendWrites (g : BetGen) (b : Bet) : List (Nat × Nat × Nat × Nat) :=
  (g.pending.filter (fun p => p.1 == b.uid)).map (fun p => (b.market, idOf g.uid2id b.uid, p.1, p.2))

def settWrites (g : BetGen) (b : Bet) : List (Nat × Nat × Nat × Nat) :=
  (g.settled.filter (fun p => p.1 == b.uid)).map (fun p => (b.settleHeight, idOf g.uid2id b.uid, p.1, p.2))

theorem foldl_pending_writes (l : List (Nat × Nat)) (f : Nat × Nat → Nat × Nat × Nat × Nat) (s : State) :
    let r := l.foldl (fun (acc : State) p => { acc with pending := upsert pendKey (f p) acc.pending }) s
    r.pending = setAll pendKey (l.map f) s.pending ∧ r.settled = s.settled ∧ r.bets = s.bets ∧ r.betCount = s.betCount ∧ r.params = s.params := by
  induction l generalizing s with
  | nil => simp [setAll]
  | cons x xs ih =>
    simp only [List.foldl_cons]
    have := ih { s with pending := upsert pendKey (f x) s.pending }
    simp only at this
    obtain ⟨a, b, c, d, e⟩ := this
    exact ⟨by rw [a]; simp [setAll], b, c, d, e⟩

theorem foldl_settled_writes (l : List (Nat × Nat)) (f : Nat × Nat → Nat × Nat × Nat × Nat) (s : State) :
    let r := l.foldl (fun (acc : State) p => { acc with settled := upsert pendKey (f p) acc.settled }) s
    r.settled = setAll pendKey (l.map f) s.settled ∧ r.pending = s.pending ∧ r.bets = s.bets ∧ r.betCount = s.betCount ∧ r.params = s.params := by
  induction l generalizing s with
  | nil => simp [setAll]
  | cons x xs ih =>
    simp only [List.foldl_cons]
    have := ih { s with settled := upsert pendKey (f x) s.settled }
    simp only at this
    obtain ⟨a, b, c, d, e⟩ := this
    exact ⟨by rw [a]; simp [setAll], b, c, d, e⟩

theorem setAll_setAll {α : Type} (key : α → List Nat) (l1 l2 store : List α) :
    setAll key l2 (setAll key l1 store) = setAll key (l1 ++ l2) store := by
  simp [setAll, List.foldl_append]

theorem importOneBet_fields (g : BetGen) (s : State) (b : Bet) :
    (importOneBet g s b).bets = upsert Bet.key (restoreId g b) s.bets ∧
    (importOneBet g s b).pending = setAll pendKey (pendWrites g b) s.pending ∧
    (importOneBet g s b).settled = setAll pendKey (settWrites g b) s.settled ∧
    (importOneBet g s b).betCount = s.betCount ∧ (importOneBet g s b).params = s.params := by
  unfold importOneBet
  simp only
  have h1 := foldl_pending_writes (g.pending.filter (fun p => p.1 == b.uid)) (fun p => (b.market, idOf g.uid2id b.uid, p.1, p.2)) s
  simp only at h1
  obtain ⟨a1, a2, a3, a4, a5⟩ := h1
  have h2 := foldl_settled_writes (g.settled.filter (fun p => p.1 == b.uid)) (fun p => (b.settleHeight, idOf g.uid2id b.uid, p.1, p.2))
    ((g.pending.filter (fun p => p.1 == b.uid)).foldl
      (fun (acc : State) p => { acc with pending := upsert pendKey (b.market, idOf g.uid2id b.uid, p.1, p.2) acc.pending }) s)
  simp only at h2
  obtain ⟨b1, b2, b3, b4, b5⟩ := h2
  refine ⟨?_, ?_, ?_, ?_, ?_⟩
  · rw [b3, a3]; rfl
  · rw [b2, a1]; rfl
  · rw [b1, a2]; rfl
  · rw [b4, a4]
  · rw [b5, a5]

theorem foldl_importOneBet (g : BetGen) (l : List Bet) (s : State) :
    let r := l.foldl (importOneBet g) s
    r.bets = setAll Bet.key (l.map (restoreId g)) s.bets ∧
    r.pending = setAll pendKey (l.flatMap (pendWrites g)) s.pending ∧
    r.settled = setAll pendKey (l.flatMap (settWrites g)) s.settled ∧
    r.betCount = s.betCount ∧ r.params = s.params := by
  induction l generalizing s with
  | nil => simp [setAll]
  | cons x xs ih =>
    simp only [List.foldl_cons]
    have h := ih (importOneBet g s x)
    simp only at h
    obtain ⟨h1, h2, h3, h4, h5⟩ := h
    obtain ⟨e1, e2, e3, e4, e5⟩ := importOneBet_fields g s x
    refine ⟨?_, ?_, ?_, ?_, ?_⟩
    · rw [h1, e1]; simp [setAll]
    · rw [h2, e2, setAll_setAll]; simp
    · rw [h3, e3, setAll_setAll]; simp
    · rw [h4, e4]
    · rw [h5, e5]

-- ---------------------------------------------------------------------------------------------
-- prefix scans of the order-book store: the records of all books, each tagged with its book uid

def scan {α : Type} (books : List Book) (f : Book → List α) : List (Nat × α) :=
  (books.map (fun b => (f b).map (fun y => (b.uid, y)))).flatten

theorem mem_scan {α : Type} (books : List Book) (f : Book → List α) (x : Nat × α) :
    x ∈ scan books f ↔ ∃ b ∈ books, x.1 = b.uid ∧ x.2 ∈ f b := by
  unfold scan
  simp only [List.mem_flatten, List.mem_map]
  constructor
  · rintro ⟨l, ⟨b, hb, rfl⟩, hx⟩
    obtain ⟨y, hy, rfl⟩ := List.mem_map.mp hx
    exact ⟨b, hb, rfl, hy⟩
  · rintro ⟨b, hb, h1, h2⟩
    refine ⟨_, ⟨b, hb, rfl⟩, ?_⟩
    exact List.mem_map.mpr ⟨x.2, h2, by rw [← h1]⟩

theorem book_uid_inj (books : List Book) (hs : Sorted Book.key books) (a b : Book) (ha : a ∈ books) (hb : b ∈ books)
    (h : a.uid = b.uid) : a = b :=
  sorted_mem_key_inj Book.key books hs a b ha hb (by simp [Book.key, h])

/-- the records of one book within a scan -/
theorem filter_scan {α : Type} (books : List Book) (hs : Sorted Book.key books) (f : Book → List α) (B : Book) (hB : B ∈ books) :
    (scan books f).filter (fun x => x.1 == B.uid) = (f B).map (fun y => (B.uid, y)) := by
  induction books with
  | nil => cases hB
  | cons b bs ih =>
    have hs' := hs
    unfold Sorted at hs'
    rw [List.pairwise_cons] at hs'
    unfold scan
    simp only [List.map_cons, List.flatten_cons, List.filter_append]
    by_cases hbB : b = B
    · subst hbB
      have h1 : ((f b).map (fun y => (b.uid, y))).filter (fun x => x.1 == b.uid) = (f b).map (fun y => (b.uid, y)) := by
        rw [List.filter_eq_self]
        intro x hx
        obtain ⟨y, _, rfl⟩ := List.mem_map.mp hx
        simp
      have h2 : (scan bs f).filter (fun x => x.1 == b.uid) = [] := by
        rw [List.filter_eq_nil_iff]
        intro x hx
        obtain ⟨c, hc, h1, _⟩ := (mem_scan bs f x).mp hx
        have := hs'.1 c hc
        intro heq
        have : b.uid = c.uid := by
          have : x.1 = b.uid := by simpa using heq
          rw [← this, h1]
        have hlt := hs'.1 c hc
        simp only [Book.key, this, ltL_irrefl] at hlt
        cases hlt
      unfold scan at h2
      rw [h1, h2]
      simp
    · have hB' : B ∈ bs := by
        rcases List.mem_cons.mp hB with e | e
        · exact absurd e.symm hbB
        · exact e
      have h1 : ((f b).map (fun y => (b.uid, y))).filter (fun x => x.1 == B.uid) = [] := by
        rw [List.filter_eq_nil_iff]
        intro x hx
        obtain ⟨y, _, rfl⟩ := List.mem_map.mp hx
        intro heq
        have : b.uid = B.uid := by simpa using heq
        exact hbB (book_uid_inj (b :: bs) hs b B (List.mem_cons_self ..) hB this)
      have := ih hs'.2 hB'
      unfold scan at this
      rw [h1, this]
      simp

-- ---------------------------------------------------------------------------------------------
-- x/orderbook import: every `Set*` of InitGenesis modifies one book of the nested core state in place

/-- replacing the record stored under a key -/
theorem upsert_replace {α : Type} (key : α → List Nat) (x : α) (l : List α) (hs : Sorted key l)
    (hex : ∃ b ∈ l, key b = key x) : upsert key x l = l.map (fun y => if key y == key x then x else y) := by
  induction l with
  | nil => obtain ⟨b, hb, _⟩ := hex; cases hb
  | cons y ys ih =>
    have hs' := hs
    unfold Sorted at hs'
    rw [List.pairwise_cons] at hs'
    unfold upsert
    by_cases hyx : (key y == key x) = true
    · simp only [hyx, ↓reduceIte, List.map_cons, List.cons.injEq, true_and]
      symm
      conv => rhs; rw [← List.map_id ys]
      apply List.map_congr_left
      intro z hz
      have hlt := hs'.1 z hz
      have e : key y = key x := by simpa using hyx
      rw [e] at hlt
      have : (key z == key x) = false := by
        cases hc : key z == key x
        · rfl
        · have e2 : key z = key x := by simpa using hc
          rw [e2, ltL_irrefl] at hlt; cases hlt
      simp [this]
    · have hyx' : (key y == key x) = false := by simpa using hyx
      obtain ⟨b, hb, hkb⟩ := hex
      have hbys : b ∈ ys := by
        rcases List.mem_cons.mp hb with e | e
        · subst e; rw [hkb] at hyx'; simp at hyx'
        · exact e
      have hlt : ltL (key y) (key x) = true := by rw [← hkb]; exact hs'.1 b hbys
      simp only [hyx', Bool.false_eq_true, ↓reduceIte, ltL_asymm _ _ hlt, List.map_cons, List.cons.injEq, true_and]
      exact ih hs'.2 ⟨b, hbys, hkb⟩

theorem sorted_map_key {α : Type} (key : α → List Nat) (g : α → α) (l : List α) (hs : Sorted key l)
    (hk : ∀ a, key (g a) = key a) : Sorted key (l.map g) := by
  unfold Sorted at hs ⊢
  rw [List.pairwise_map]
  exact hs.imp (fun {a b} h => by rw [hk, hk]; exact h)

theorem getBook_eq_some (s : State) (u : Nat) (b : Book) (h : getBook s u = some b) : b ∈ s.books ∧ b.uid = u := by
  unfold getBook lookup at h
  have h1 := List.mem_of_find?_eq_some h
  have h2 := List.find?_some h
  exact ⟨h1, by simpa [Book.key] using h2⟩

theorem getBook_eq_none (s : State) (u : Nat) (h : getBook s u = none) : ∀ b ∈ s.books, b.uid ≠ u := by
  unfold getBook lookup at h
  intro b hb hu
  have := List.find?_eq_none.mp h b hb
  simp [Book.key, hu] at this

/-- `onBook`: the book `u` is modified in place, every other store is untouched -/
theorem onBook_books (s : State) (hs : Sorted Book.key s.books) (u : Nat) (f : Book → Book) (hf : ∀ b, (f b).uid = b.uid) :
    (onBook s u f).books = s.books.map (fun b => if b.uid == u then f b else b) ∧ (onBook s u f).bets = s.bets ∧
    (onBook s u f).obqueue = s.obqueue ∧ (onBook s u f).params = s.params := by
  unfold onBook
  split
  · rename_i b hb
    obtain ⟨hmem, hu⟩ := getBook_eq_some s u b hb
    refine ⟨?_, rfl, rfl, rfl⟩
    show upsert Book.key (f b) s.books = _
    rw [upsert_replace Book.key (f b) s.books hs ⟨b, hmem, by simp [Book.key, hf]⟩]
    apply List.map_congr_left
    intro y hy
    by_cases hyu : y.uid = u
    · have : y = b := book_uid_inj s.books hs y b hy hmem (by rw [hyu, hu])
      subst this
      simp [Book.key, hf, hyu]
    · have : ¬ y.uid = b.uid := by rw [hu]; exact hyu
      simp [Book.key, hf, hyu, this]
  · rename_i hb
    refine ⟨?_, rfl, rfl, rfl⟩
    conv => lhs; rw [← List.map_id s.books]
    apply List.map_congr_left
    intro y hy
    have := getBook_eq_none s u hb y hy
    simp [this]

/-- the operations tagged with the uid of `b`, applied to `b` in order -/
def applyOps (ops : List (Nat × (Book → Book))) (b : Book) : Book :=
  (ops.filter (fun o => o.1 == b.uid)).foldl (fun b o => o.2 b) b

theorem applyOps_uid (ops : List (Nat × (Book → Book))) (hf : ∀ o ∈ ops, ∀ b, (o.2 b).uid = b.uid) (b : Book) :
    (applyOps ops b).uid = b.uid := by
  unfold applyOps
  induction ops generalizing b with
  | nil => rfl
  | cons o os ih =>
    simp only [List.filter_cons]
    split
    · simp only [List.foldl_cons]
      have h1 := hf o (List.mem_cons_self ..) b
      have := ih (fun o' ho' => hf o' (List.mem_cons_of_mem _ ho')) (o.2 b)
      rw [h1] at this
      exact this
    · exact ih (fun o' ho' => hf o' (List.mem_cons_of_mem _ ho')) b

theorem foldl_onBook (ops : List (Nat × (Book → Book))) (hf : ∀ o ∈ ops, ∀ b, (o.2 b).uid = b.uid) (s : State)
    (hs : Sorted Book.key s.books) :
    let r := ops.foldl (fun acc o => onBook acc o.1 o.2) s
    r.books = s.books.map (applyOps ops) ∧ r.bets = s.bets ∧ r.obqueue = s.obqueue ∧ r.params = s.params := by
  induction ops generalizing s with
  | nil =>
    refine ⟨?_, rfl, rfl, rfl⟩
    show s.books = s.books.map (applyOps [])
    conv => lhs; rw [← List.map_id s.books]
    apply List.map_congr_left
    intro b _
    rfl
  | cons o os ih =>
    simp only [List.foldl_cons]
    have hfo := hf o (List.mem_cons_self ..)
    obtain ⟨e1, e2, e3, e4⟩ := onBook_books s hs o.1 o.2 hfo
    have hs' : Sorted Book.key (onBook s o.1 o.2).books := by
      rw [e1]
      apply sorted_map_key _ _ _ hs
      intro a
      by_cases h : a.uid == o.1 <;> simp [h, Book.key, hfo]
    have := ih (fun o' ho' => hf o' (List.mem_cons_of_mem _ ho')) (onBook s o.1 o.2) hs'
    simp only at this
    obtain ⟨h1, h2, h3, h4⟩ := this
    refine ⟨?_, by rw [h2, e2], by rw [h3, e3], by rw [h4, e4]⟩
    rw [h1, e1, List.map_map]
    apply List.map_congr_left
    intro b _
    simp only [Function.comp, applyOps, List.filter_cons]
    by_cases hbu : b.uid = o.1
    · have : (o.1 == b.uid) = true := by simp [hbu]
      simp [hbu, hfo]
    · have h1 : (b.uid == o.1) = false := by simpa using hbu
      have h2 : (o.1 == b.uid) = false := by simpa using (fun e => hbu e.symm)
      simp [h1, h2]

/-- the book record `SetOrderBook` writes into an empty store -/
def skelOf (r : BookRec) : Book :=
  { uid := r.uid, partCount := r.partCount, oddsCount := r.oddsCount, status := r.status, queues := [] }

theorem getBook_none_of_lt (s : State) (u : Nat) (h : ∀ b ∈ s.books, ltL (Book.key b) [u] = true) : getBook s u = none := by
  unfold getBook lookup
  rw [List.find?_eq_none]
  intro b hb
  have := ltL_ne _ _ (h b hb)
  simp [this]

theorem foldl_setBookRec (l : List BookRec) (s : State) (h : Sorted Book.key (s.books ++ l.map skelOf)) :
    let r := l.foldl setBookRec s
    r.books = s.books ++ l.map skelOf ∧ r.bets = s.bets ∧ r.obqueue = s.obqueue ∧ r.params = s.params := by
  induction l generalizing s with
  | nil => simp
  | cons x xs ih =>
    simp only [List.foldl_cons]
    have hlt : ∀ b ∈ s.books, ltL (Book.key b) [x.uid] = true := by
      intro b hb
      unfold Sorted at h
      rw [List.pairwise_append] at h
      exact h.2.2 b hb (skelOf x) (by simp)
    have hstep : setBookRec s x = { s with books := s.books ++ [skelOf x] } := by
      unfold setBookRec
      rw [getBook_none_of_lt s x.uid hlt]
      simp only [setBook]
      rw [upsert_append Book.key _ s.books (by intro y hy; exact hlt y hy)]
      rfl
    rw [hstep]
    have := ih { s with books := s.books ++ [skelOf x] } (by simpa using h)
    simp only at this
    obtain ⟨a, b, c, d⟩ := this
    exact ⟨by rw [a]; simp, b, c, d⟩

theorem applyOps_scan {α : Type} (B : List Book) (hs : Sorted Book.key B) (f : Book → List α) (act : α → Book → Book)
    (b : Book) (hb : b ∈ B) (bk : Book) (hu : bk.uid = b.uid) :
    applyOps ((scan B f).map (fun x => (x.1, act x.2))) bk = (f b).foldl (fun acc y => act y acc) bk := by
  unfold applyOps
  rw [hu, List.filter_map]
  have : (scan B f).filter ((fun (o : Nat × (Book → Book)) => o.1 == b.uid) ∘ fun x => (x.1, act x.2)) =
      (scan B f).filter (fun x => x.1 == b.uid) := rfl
  rw [this, filter_scan B hs f b hb, List.map_map, List.foldl_map]
  rfl

theorem foldl_setPart (ps : List Part) (bk : Book) :
    ps.foldl (fun acc p => acc.setPart p) bk = { bk with parts := setAll Part.key ps bk.parts } := by
  induction ps generalizing bk with
  | nil => rfl
  | cons x xs ih => simp only [List.foldl_cons]; rw [ih]; rfl

theorem foldl_setQueue (qs : List (Nat × List Nat)) (bk : Book) :
    qs.foldl (fun acc q => acc.setQueue q.1 q.2) bk = { bk with queues := setAll (fun (x : Nat × List Nat) => [x.1]) qs bk.queues } := by
  induction qs generalizing bk with
  | nil => rfl
  | cons x xs ih => simp only [List.foldl_cons]; rw [ih]; rfl

theorem foldl_setExp (es : List PExp) (bk : Book) :
    es.foldl (fun acc e => acc.setExp e) bk = { bk with pexps := setAll PExp.key es bk.pexps } := by
  induction es generalizing bk with
  | nil => rfl
  | cons x xs ih => simp only [List.foldl_cons]; rw [ih]; rfl

theorem foldl_setHist (es : List PExp) (bk : Book) :
    es.foldl (fun acc e => acc.setHist e) bk = { bk with hist := setAll PExp.hkey es bk.hist } := by
  induction es generalizing bk with
  | nil => rfl
  | cons x xs ih => simp only [List.foldl_cons]; rw [ih]; rfl

theorem foldl_addPair (xs : List (Nat × Nat)) (bk : Book) :
    xs.foldl (fun acc x => acc.addPair x.1 x.2) bk = { bk with pairs := setAll (fun (x : Nat × Nat) => [x.1, x.2]) xs bk.pairs } := by
  induction xs generalizing bk with
  | nil => rfl
  | cons x xs ih => simp only [List.foldl_cons]; rw [ih]; rfl

theorem noDup_inj {α : Type} (f : α → Nat) (l : List α) (h : hasDup (l.map f) = false) (a b : α)
    (ha : a ∈ l) (hb : b ∈ l) (e : f a = f b) : a = b := by
  induction l with
  | nil => cases ha
  | cons x xs ih =>
    simp only [List.map_cons, hasDup, Bool.or_eq_false_iff] at h
    have hnot : ∀ y ∈ xs, f y ≠ f x := by
      intro y hy he
      have : (xs.map f).contains (f x) = true := by
        rw [List.contains_iff_mem]
        exact List.mem_map.mpr ⟨y, hy, he⟩
      rw [this] at h
      cases h.1
    rcases List.mem_cons.mp ha with ea | ha'
    · rcases List.mem_cons.mp hb with eb | hb'
      · rw [ea, eb]
      · exact absurd (by rw [← e, ea]) (hnot b hb')
    · rcases List.mem_cons.mp hb with eb | hb'
      · exact absurd (by rw [e, eb]) (hnot a ha')
      · exact ih h.2 ha' hb'

/-- bet id → bet uid (export) → bet id (import) is the identity on stored bets -/
theorem betId_roundtrip (σ s : State) (hs : s.bets = σ.bets) (hu : hasDup (σ.bets.map (·.uid)) = false)
    (hi : hasDup (σ.bets.map (·.id)) = false) (id : Nat) (hex : σ.bets.any (fun t => t.id == id) = true) :
    betIdOf s (betUidOf σ id) = some id := by
  rw [List.any_eq_true] at hex
  obtain ⟨t, ht, hid⟩ := hex
  have hid : t.id = id := by simpa using hid
  unfold betUidOf
  cases h1 : σ.bets.find? (fun b => b.id == id) with
  | none =>
    have := List.find?_eq_none.mp h1 t ht
    simp [hid] at this
  | some t' =>
    have m1 := List.mem_of_find?_eq_some h1
    have p1 : t'.id = id := by simpa using List.find?_some h1
    simp only
    unfold betIdOf
    rw [hs]
    cases h2 : σ.bets.find? (fun b => b.uid == t'.uid) with
    | none =>
      have := List.find?_eq_none.mp h2 t' m1
      simp at this
    | some t'' =>
      have m2 := List.mem_of_find?_eq_some h2
      have p2 : t''.uid = t'.uid := by simpa using List.find?_some h2
      have : t'' = t' := noDup_inj (·.uid) σ.bets hu t'' t' m2 m1 p2
      simp [this, p1]

/-- the bet-pair loop when every bet uid resolves: the same in-place modifications with the ids restored -/
theorem foldl_importPair (σ : State) (hu : hasDup (σ.bets.map (·.uid)) = false) (hi : hasDup (σ.bets.map (·.id)) = false)
    (l : List (Nat × Nat × Nat)) (hl : ∀ y ∈ l, σ.bets.any (fun t => t.id == y.2.2) = true)
    (s : State) (hs : s.bets = σ.bets) (hsort : Sorted Book.key s.books) :
    (l.map (fun y => (y.1, y.2.1, betUidOf σ y.2.2))).foldl importPair (some s) =
      some ((l.map (fun y => (y.1, fun (b : Book) => b.addPair y.2.1 y.2.2))).foldl (fun acc o => onBook acc o.1 o.2) s) := by
  induction l generalizing s with
  | nil => rfl
  | cons y ys ih =>
    simp only [List.map_cons, List.foldl_cons]
    have hr := betId_roundtrip σ s hs hu hi y.2.2 (hl y (List.mem_cons_self ..))
    have step : importPair (some s) (y.1, y.2.1, betUidOf σ y.2.2) = some (onBook s y.1 (fun b => b.addPair y.2.1 y.2.2)) := by
      simp [importPair, hr]
    rw [step]
    have hob := onBook_books s hsort y.1 (fun b => b.addPair y.2.1 y.2.2) (fun _ => rfl)
    apply ih (fun z hz => hl z (List.mem_cons_of_mem _ hz))
    · rw [hob.2.1, hs]
    · rw [hob.1]
      apply sorted_map_key _ _ _ hsort
      intro a
      by_cases h : a.uid == y.1 <;> simp [h, Book.key, Book.addPair]

-- ---------------------------------------------------------------------------------------------
-- frames: which stores an import leaves alone

/-- `a` and `b` agree on everything but the bet stores -/
def SameButBet (a b : State) : Prop :=
  a.bal = b.bal ∧ a.markets = b.markets ∧ a.mqueue = b.mqueue ∧ a.books = b.books ∧ a.obqueue = b.obqueue ∧
  a.deposits = b.deposits ∧ a.withdrawals = b.withdrawals ∧ a.grants = b.grants ∧ a.height = b.height ∧ a.time = b.time

theorem SameButBet.refl (a : State) : SameButBet a a := ⟨rfl, rfl, rfl, rfl, rfl, rfl, rfl, rfl, rfl, rfl⟩

theorem SameButBet.trans {a b c : State} (h1 : SameButBet a b) (h2 : SameButBet b c) : SameButBet a c := by
  obtain ⟨a1, a2, a3, a4, a5, a6, a7, a8, a9, a10⟩ := h1
  obtain ⟨b1, b2, b3, b4, b5, b6, b7, b8, b9, b10⟩ := h2
  exact ⟨a1.trans b1, a2.trans b2, a3.trans b3, a4.trans b4, a5.trans b5, a6.trans b6, a7.trans b7, a8.trans b8, a9.trans b9, a10.trans b10⟩

theorem foldl_same {α : Type} (l : List α) (f : State → α → State) (hf : ∀ s x, SameButBet (f s x) s) (s : State) :
    SameButBet (l.foldl f s) s := by
  induction l generalizing s with
  | nil => exact SameButBet.refl s
  | cons x xs ih => exact (ih (f s x)).trans (hf s x)

theorem importOneBet_same (g : BetGen) (s : State) (b : Bet) : SameButBet (importOneBet g s b) s := by
  have A := foldl_same (g.pending.filter (fun p => p.1 == b.uid))
    (fun (acc : State) p => { acc with pending := upsert pendKey (b.market, idOf g.uid2id b.uid, p.1, p.2) acc.pending })
    (fun s x => ⟨rfl, rfl, rfl, rfl, rfl, rfl, rfl, rfl, rfl, rfl⟩) s
  have B := foldl_same (g.settled.filter (fun p => p.1 == b.uid))
    (fun (acc : State) p => { acc with settled := upsert pendKey (b.settleHeight, idOf g.uid2id b.uid, p.1, p.2) acc.settled })
    (fun s x => ⟨rfl, rfl, rfl, rfl, rfl, rfl, rfl, rfl, rfl, rfl⟩)
    ((g.pending.filter (fun p => p.1 == b.uid)).foldl
      (fun (acc : State) p => { acc with pending := upsert pendKey (b.market, idOf g.uid2id b.uid, p.1, p.2) acc.pending }) s)
  have C := B.trans A
  unfold importOneBet
  exact SameButBet.trans ⟨rfl, rfl, rfl, rfl, rfl, rfl, rfl, rfl, rfl, rfl⟩ C

theorem importBet_same (g : BetGen) (s : State) : SameButBet (importBet g s) s := by
  have A := foldl_same g.bets (importOneBet g) (importOneBet_same g) { s with betCount := g.count }
  have B : SameButBet { s with betCount := g.count } s := ⟨rfl, rfl, rfl, rfl, rfl, rfl, rfl, rfl, rfl, rfl⟩
  unfold importBet
  exact SameButBet.trans ⟨rfl, rfl, rfl, rfl, rfl, rfl, rfl, rfl, rfl, rfl⟩ (A.trans B)

/-- the order-book import leaves every store of the other modules alone -/
def SameButOb (a b : State) : Prop :=
  a.bal = b.bal ∧ a.markets = b.markets ∧ a.mqueue = b.mqueue ∧ a.bets = b.bets ∧ a.pending = b.pending ∧
  a.settled = b.settled ∧ a.betCount = b.betCount ∧ a.deposits = b.deposits ∧ a.withdrawals = b.withdrawals ∧
  a.grants = b.grants ∧ a.height = b.height ∧ a.time = b.time ∧
  a.params.betBatch = b.params.betBatch ∧ a.params.betMin = b.params.betMin ∧ a.params.betFee = b.params.betFee ∧
  a.params.houseMin = b.params.houseMin ∧ a.params.houseFee = b.params.houseFee ∧ a.params.houseMaxW = b.params.houseMaxW

theorem SameButOb.refl (a : State) : SameButOb a a :=
  ⟨rfl, rfl, rfl, rfl, rfl, rfl, rfl, rfl, rfl, rfl, rfl, rfl, rfl, rfl, rfl, rfl, rfl, rfl⟩

theorem SameButOb.trans {a b c : State} (h1 : SameButOb a b) (h2 : SameButOb b c) : SameButOb a c := by
  obtain ⟨a1, a2, a3, a4, a5, a6, a7, a8, a9, a10, a11, a12, a13, a14, a15, a16, a17, a18⟩ := h1
  obtain ⟨b1, b2, b3, b4, b5, b6, b7, b8, b9, b10, b11, b12, b13, b14, b15, b16, b17, b18⟩ := h2
  exact ⟨a1.trans b1, a2.trans b2, a3.trans b3, a4.trans b4, a5.trans b5, a6.trans b6, a7.trans b7, a8.trans b8, a9.trans b9,
    a10.trans b10, a11.trans b11, a12.trans b12, a13.trans b13, a14.trans b14, a15.trans b15, a16.trans b16, a17.trans b17, a18.trans b18⟩

theorem foldl_sameOb {α : Type} (l : List α) (f : State → α → State) (hf : ∀ s x, SameButOb (f s x) s) (s : State) :
    SameButOb (l.foldl f s) s := by
  induction l generalizing s with
  | nil => exact SameButOb.refl s
  | cons x xs ih => exact (ih (f s x)).trans (hf s x)

theorem onBook_sameOb (s : State) (u : Nat) (f : Book → Book) : SameButOb (onBook s u f) s := by
  unfold onBook
  split
  · exact ⟨rfl, rfl, rfl, rfl, rfl, rfl, rfl, rfl, rfl, rfl, rfl, rfl, rfl, rfl, rfl, rfl, rfl, rfl⟩
  · exact SameButOb.refl s

theorem setBookRec_sameOb (s : State) (r : BookRec) : SameButOb (setBookRec s r) s := by
  unfold setBookRec
  split <;> exact ⟨rfl, rfl, rfl, rfl, rfl, rfl, rfl, rfl, rfl, rfl, rfl, rfl, rfl, rfl, rfl, rfl, rfl, rfl⟩

theorem foldl_importPair_sameOb (l : List (Nat × Nat × Nat)) (s r : State) (h : l.foldl importPair (some s) = some r) :
    SameButOb r s := by
  induction l generalizing s with
  | nil => simp at h; subst h; exact SameButOb.refl s
  | cons x xs ih =>
    simp only [List.foldl_cons] at h
    cases hx : importPair (some s) x with
    | none =>
      rw [hx] at h
      have : ∀ l : List (Nat × Nat × Nat), l.foldl importPair none = none := by
        intro l; induction l with
        | nil => rfl
        | cons y ys ihy => simpa [List.foldl_cons, importPair] using ihy
      rw [this] at h; cases h
    | some s' =>
      rw [hx] at h
      have hs' : SameButOb s' s := by
        unfold importPair at hx
        simp only at hx
        split at hx
        · cases hx
        · simp only [Option.some.injEq] at hx
          subst hx
          exact onBook_sameOb _ _ _
      exact (ih s' h).trans hs'

theorem importOb_sameOb (g : ObGen) (s r : State) (h : importOb g s = some r) : SameButOb r s := by
  unfold importOb at h
  simp only at h
  split at h
  · cases h
  · rename_i s7 h7
    simp only [Option.some.injEq] at h
    subst h
    have h7' := foldl_importPair_sameOb _ _ _ h7
    refine SameButOb.trans (b := s7) ⟨rfl, rfl, rfl, rfl, rfl, rfl, rfl, rfl, rfl, rfl, rfl, rfl, rfl, rfl, rfl, rfl, rfl, rfl⟩ ?_
    refine h7'.trans ?_
    refine (foldl_sameOb _ _ (fun s x => onBook_sameOb _ _ _) _).trans ?_
    refine (foldl_sameOb _ _ (fun s x => onBook_sameOb _ _ _) _).trans ?_
    refine (foldl_sameOb _ _ (fun s x => onBook_sameOb _ _ _) _).trans ?_
    refine (foldl_sameOb _ _ (fun s x => onBook_sameOb _ _ _) _).trans ?_
    refine (foldl_sameOb _ _ (fun s x => onBook_sameOb _ _ _) _).trans ?_
    exact foldl_sameOb _ _ setBookRec_sameOb _

-- ---------------------------------------------------------------------------------------------
-- x/ovm proposal stores (sorted by id)

def SortedIds (l : List Ovm.Proposal) : Prop := l.Pairwise (fun a b => a.id < b.id)

theorem sortedIds_iff (l : List Ovm.Proposal) : sortedIds l = true ↔ SortedIds l := by
  induction l with
  | nil => simp [sortedIds, SortedIds]
  | cons x xs ih =>
    simp only [sortedIds, Bool.and_eq_true, List.all_eq_true, decide_eq_true_eq, SortedIds, List.pairwise_cons]
    rw [ih]
    rfl

theorem setP_append (l : List Ovm.Proposal) (p : Ovm.Proposal) (h : ∀ q ∈ l, q.id < p.id) : Ovm.setP l p = l ++ [p] := by
  induction l with
  | nil => rfl
  | cons q qs ih =>
    have hq := h q (List.mem_cons_self ..)
    unfold Ovm.setP
    have h1 : ¬ p.id < q.id := by omega
    have h2 : ¬ p.id = q.id := by omega
    simp only [h1, h2, ↓reduceIte, List.cons_append, List.cons.injEq, true_and]
    exact ih (fun r hr => h r (List.mem_cons_of_mem _ hr))

theorem foldl_setP (l acc : List Ovm.Proposal) (h : SortedIds (acc ++ l)) : l.foldl Ovm.setP acc = acc ++ l := by
  induction l generalizing acc with
  | nil => simp
  | cons x xs ih =>
    simp only [List.foldl_cons]
    have hx : Ovm.setP acc x = acc ++ [x] := by
      apply setP_append
      intro y hy
      unfold SortedIds at h
      rw [List.pairwise_append] at h
      exact h.2.2 y hy x (List.mem_cons_self ..)
    rw [hx, ih (acc ++ [x]) (by simpa using h)]
    simp

theorem foldl_importProposal_active (l : List Ovm.Proposal) (s : Ovm.State) :
    (l.map (fun p => (false, p))).foldl importProposal s = { s with active := l.foldl Ovm.setP s.active } := by
  induction l generalizing s with
  | nil => rfl
  | cons x xs ih =>
    simp only [List.map_cons, List.foldl_cons]
    rw [ih]
    rfl

theorem foldl_importProposal_finished (l : List Ovm.Proposal) (s : Ovm.State) :
    (l.map (fun p => (true, p))).foldl importProposal s = { s with finished := l.foldl Ovm.setP s.finished } := by
  induction l generalizing s with
  | nil => rfl
  | cons x xs ih =>
    simp only [List.map_cons, List.foldl_cons]
    rw [ih]
    rfl

-- ---------------------------------------------------------------------------------------------
-- x/reward

def rkey (x : Reward) : List Nat := [x.uid]

theorem foldl_importRewardRec_frame (fixed : Bool) (rs : List Reward) (st : RewardStores) :
    let r := rs.foldl (importRewardRec fixed) st
    r.rewards = setAll (fun (x : Reward) => [x.uid]) rs st.rewards ∧ r.campaigns = st.campaigns ∧ r.promoters = st.promoters ∧
    r.byAddress = st.byAddress ∧ r.byCategory = st.byCategory ∧ r.byCampaign = st.byCampaign := by
  induction rs generalizing st with
  | nil => simp [setAll]
  | cons x xs ih =>
    simp only [List.foldl_cons]
    have h := ih (importRewardRec fixed st x)
    simp only at h
    obtain ⟨h1, h2, h3, h4, h5, h6⟩ := h
    have e : ∀ (a : RewardStores), (countGrant a x).rewards = a.rewards ∧ (countGrant a x).campaigns = a.campaigns ∧
        (countGrant a x).promoters = a.promoters ∧ (countGrant a x).byAddress = a.byAddress ∧
        (countGrant a x).byCategory = a.byCategory ∧ (countGrant a x).byCampaign = a.byCampaign := by
      intro a
      unfold countGrant
      split
      · split <;> simp
      · simp
    refine ⟨?_, ?_, ?_, ?_, ?_, ?_⟩
    · rw [h1]; unfold importRewardRec; cases fixed <;> simp [setAll, (e _).1]
    · rw [h2]; unfold importRewardRec; cases fixed <;> simp [(e _).2.1]
    · rw [h3]; unfold importRewardRec; cases fixed <;> simp [(e _).2.2.1]
    · rw [h4]; unfold importRewardRec; cases fixed <;> simp [(e _).2.2.2.1]
    · rw [h5]; unfold importRewardRec; cases fixed <;> simp [(e _).2.2.2.2.1]
    · rw [h6]; unfold importRewardRec; cases fixed <;> simp [(e _).2.2.2.2.2]

theorem foldl_importRewardRec_stats_false (rs : List Reward) (st : RewardStores) :
    (rs.foldl (importRewardRec false) st).grantStats = st.grantStats := by
  induction rs generalizing st with
  | nil => rfl
  | cons x xs ih => simp only [List.foldl_cons]; rw [ih]; rfl

theorem countGrant_stats (a b : RewardStores) (x : Reward) (hc : a.campaigns = b.campaigns) (hg : a.grantStats = b.grantStats) :
    (countGrant a x).grantStats = (countGrant b x).grantStats ∧ (countGrant a x).campaigns = (countGrant b x).campaigns := by
  unfold countGrant
  rw [hc, hg]
  split
  · split <;> simp [hc, hg]
  · simp [hc, hg]

theorem foldl_importRewardRec_stats_true (rs : List Reward) (a b : RewardStores) (hc : a.campaigns = b.campaigns)
    (hg : a.grantStats = b.grantStats) :
    (rs.foldl (importRewardRec true) a).grantStats = (rs.foldl countGrant b).grantStats := by
  induction rs generalizing a b with
  | nil => exact hg
  | cons x xs ih =>
    simp only [List.foldl_cons]
    have key := countGrant_stats { a with rewards := upsert (fun (x : Reward) => [x.uid]) x a.rewards } b x hc hg
    apply ih
    · exact key.2
    · exact key.1

/-- the by-category loop when every lookup succeeds with the recorded promoter -/
theorem foldl_importByCat (l : List ByCat) (acc : RewardStores)
    (h : ∀ x ∈ l, ∀ bc, promoterOfReward { acc with byCategory := bc } x.uid = some x.promoterUid) :
    (l.map (fun x => (x.receiver, x.category, x.uid))).foldl importByCat (some acc) =
      some { acc with byCategory := setAll ByCat.key l acc.byCategory } := by
  induction l generalizing acc with
  | nil => simp [setAll]
  | cons x xs ih =>
    simp only [List.map_cons, List.foldl_cons]
    have hx := h x (List.mem_cons_self ..) acc.byCategory
    have hx' : promoterOfReward acc x.uid = some x.promoterUid := hx
    have step : importByCat (some acc) (x.receiver, x.category, x.uid) =
        some { acc with byCategory := upsert ByCat.key x acc.byCategory } := by
      simp [importByCat, hx']
    rw [step, ih]
    · simp [setAll]
    · intro y hy bc
      exact h y (List.mem_cons_of_mem _ hy) bc

end Sge.Genesis
