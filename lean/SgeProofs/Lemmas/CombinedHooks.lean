/-
  Bank accounting of the core end-block against the hook calls the combined end-block derives from it:
  every non-custody account receives, in one core end-block, at least what the derived hook calls naming it book
  (`cmb_endBlockO_covers`). Potential argument along the participation loop: bank balance minus the value of the
  hook list derived so far never decreases.
-/
import SgeProofs.Lemmas.CombinedExt
import SgeProofs.Lemmas.ReturnsEnd
namespace Sge.Combined
open Sge Sge.Core Sge.Genesis

/-- what a hook call books in favour of the subaccount ledger: un-spent amount, plus the profit forwarded to the owner,
    minus the loss -/
def hookBooks : HookCall → Int
  | .win _ orig profit => orig + profit
  | .loss _ orig lost => orig - lost
  | .refund _ orig => orig

/-- the total booked by the calls of `l` that name the address `a` -/
def hooksFor (a : Nat) (l : List HookCall) : Int := sumBy (fun h => if h.house = a then hookBooks h else 0) l

/-- what `settleParticipation` pays to the depositor of `p`: the payout and, when it goes back to the depositor, the fee -/
def paidTo (m : Market) (p : Part) : Int := p.payout m + (if p.feeToDepositor m then p.fee else 0)

theorem cmb_sumBy_append {α : Type} (f : α → Int) (l1 l2 : List α) : sumBy f (l1 ++ l2) = sumBy f l1 + sumBy f l2 := by
  simp [sumBy, List.map_append, List.sum_append]

theorem cmb_hooksFor_append (a : Nat) (l1 l2 : List HookCall) : hooksFor a (l1 ++ l2) = hooksFor a l1 + hooksFor a l2 :=
  cmb_sumBy_append _ l1 l2

theorem cmb_hooksFor_nil (a : Nat) : hooksFor a [] = 0 := rfl

theorem cmb_hooksFor_flatMap {α : Type} (a : Nat) (f : α → List HookCall) (l : List α) :
    hooksFor a (l.flatMap f) = sumBy (fun x => hooksFor a (f x)) l := by
  induction l with
  | nil => rfl
  | cons x xs ih => rw [List.flatMap_cons, cmb_hooksFor_append, ih, sumBy_cons]

/-- the hook calls of one paid participation book exactly what its depositor was paid -/
theorem cmb_hooksFor_partHooks (a : Nat) (m : Market) (p : Part) :
    hooksFor a (partHooks m p) = if p.addr = a then paidTo m p else 0 := by
  unfold partHooks paidTo Part.payout
  rw [cmb_hooksFor_append]
  by_cases ha : p.addr = a
  · by_cases hd : (m.status == MS_DECLARED) = true
    · by_cases hn : p.actualProfit < 0
      · by_cases hf : p.feeToDepositor m = true <;>
          simp [hooksFor, sumBy, hookBooks, HookCall.house, ha, hd, hn, hf] <;> omega
      · by_cases hf : p.feeToDepositor m = true <;>
          simp [hooksFor, sumBy, hookBooks, HookCall.house, ha, hd, hn, hf]
    · by_cases hf : p.feeToDepositor m = true <;>
        simp [hooksFor, sumBy, hookBooks, HookCall.house, ha, hd, hf]
  · by_cases hd : (m.status == MS_DECLARED) = true
    · by_cases hn : p.actualProfit < 0
      · by_cases hf : p.feeToDepositor m = true <;>
          simp [hooksFor, sumBy, hookBooks, HookCall.house, ha, hd, hn, hf]
      · by_cases hf : p.feeToDepositor m = true <;>
          simp [hooksFor, sumBy, hookBooks, HookCall.house, ha, hd, hn, hf]
    · by_cases hf : p.feeToDepositor m = true <;>
        simp [hooksFor, sumBy, hookBooks, HookCall.house, ha, hd, hf]

/-- value, for address `a`, of participation `p` of the current book w.r.t. the reference participation list `ref` -/
def newPaidVal (a : Nat) (m : Market) (ref : List Part) (p : Part) : Int :=
  if (p.isSettled && ref.any (fun q => q.idx == p.idx && !q.isSettled)) = true then (if p.addr = a then paidTo m p else 0) else 0

theorem cmb_hooksFor_parts (a : Nat) (m : Market) (ref : List Part) (parts : List Part) :
    hooksFor a ((parts.filter fun p => p.isSettled && ref.any (fun q => q.idx == p.idx && !q.isSettled)).flatMap (partHooks m)) =
      sumBy (newPaidVal a m ref) parts := by
  induction parts with
  | nil => rfl
  | cons p ps ih =>
    rw [sumBy_cons, List.filter_cons]
    by_cases hc : (p.isSettled && ref.any (fun q => q.idx == p.idx && !q.isSettled)) = true
    · rw [if_pos hc, List.flatMap_cons, cmb_hooksFor_append, ih, cmb_hooksFor_partHooks]
      simp only [newPaidVal, hc, if_true]
    · have g0 : newPaidVal a m ref p = 0 := by unfold newPaidVal; rw [if_neg hc]
      rw [if_neg hc, ih, g0]
      omega

/-- the value of the hook calls derived for book `uid` -/
def bookVal (a : Nat) (c1 c : Core.State) (uid : Nat) : Int := hooksFor a (bookHooks c1 c uid)

theorem cmb_bookVal_eq (a : Nat) (c1 c : Core.State) (uid : Nat) :
    bookVal a c1 c uid =
      match getMarket c uid, getBook c1 uid, getBook c uid with
      | some m, some b0, some b1 => sumBy (newPaidVal a m b0.parts) b1.parts
      | _, _, _ => 0 := by
  unfold bookVal bookHooks newlyPaid
  cases getMarket c uid with
  | none => rfl
  | some m =>
    cases getBook c1 uid with
    | none => simp [cmb_hooksFor_nil]
    | some b0 =>
      cases getBook c uid with
      | none => simp [cmb_hooksFor_nil]
      | some b1 => exact cmb_hooksFor_parts a m b0.parts b1.parts

-- ---------------------------------------------------------------------------------------------
-- the bank, seen from an account that is not the payer

theorem cmb_transfer_recv {bal bal' : List (Nat × Int)} {src dst : Nat} {x : Int} (h : transfer bal src dst x = some bal')
    (a : Nat) (ha : a ≠ src) : 0 ≤ x ∧ getBal bal' a = getBal bal a + (if a = dst then x else 0) := by
  unfold transfer at h
  split at h
  · cases h
  · split at h
    · cases h
    · split at h
      · simp only [Option.some.injEq] at h
        subst h
        rename_i hz
        subst hz
        refine ⟨by omega, ?_⟩
        split <;> omega
      · simp only [Option.some.injEq] at h
        subst h
        refine ⟨by omega, ?_⟩
        by_cases hd : a = dst
        · subst hd
          rw [getBal_setBal_self, getBal_setBal_ne _ _ _ _ (Ne.symm ha)]
          simp
        · rw [getBal_setBal_ne _ _ _ _ (Ne.symm hd), getBal_setBal_ne _ _ _ _ (Ne.symm ha)]
          simp [hd]

theorem cmb_bankSend_recv {s s' : Core.State} {src dst : Nat} {x : Int} (h : bankSend s src dst x = some s')
    (a : Nat) (ha : a ≠ src) :
    0 ≤ x ∧ getBal s'.bal a = getBal s.bal a + (if a = dst then x else 0) ∧ (∃ bal', s' = { s with bal := bal' }) := by
  obtain ⟨bal', ht, rfl⟩ := bankSend_shape h
  exact ⟨(cmb_transfer_recv ht a ha).1, (cmb_transfer_recv ht a ha).2, bal', rfl⟩

/-- one `settleParticipation`: a non-custody account gains at least what it is paid as the depositor, and never loses -/
theorem cmb_settlePart_bal {s : Core.State} {b : Book} {p : Part} {m : Market} {r : Core.State × Book}
    (h : settlePart s b p m = some r) (a : Nat) (ha : isModuleAcc a = false) :
    getBal s.bal a + (if p.addr = a then paidTo m p else 0) ≤ getBal r.1.bal a ∧ getBal s.bal a ≤ getBal r.1.bal a := by
  obtain ⟨n1, _, n3⟩ := cmb_notModule_ne ha
  unfold settlePart at h
  simp only [bind, Option.bind_eq_some_iff] at h
  obtain ⟨_, _, _, _, s1, h1, h⟩ := h
  obtain ⟨x1, e1, _⟩ := cmb_bankSend_recv h1 a n1
  unfold paidTo
  split at h
  · rename_i hf
    simp only [bind, Option.bind_eq_some_iff, pure, Option.some.injEq] at h
    obtain ⟨s2, h2, rfl⟩ := h
    obtain ⟨x2, e2, _⟩ := cmb_bankSend_recv h2 a n3
    show _ ≤ getBal s2.bal a ∧ _ ≤ getBal s2.bal a
    rw [e2, e1]
    simp only [hf, if_true]
    by_cases hpa : p.addr = a
    · simp only [hpa, if_true]; omega
    · have : ¬ a = p.addr := fun e => hpa e.symm
      simp only [hpa, this, if_false]; omega
  · rename_i hf
    simp only [bind, Option.bind_eq_some_iff, pure, Option.some.injEq] at h
    obtain ⟨s2, h2, rfl⟩ := h
    obtain ⟨x2, e2, _⟩ := cmb_bankSend_recv h2 a n3
    show _ ≤ getBal s2.bal a ∧ _ ≤ getBal s2.bal a
    rw [e2, e1]
    simp only [hf, Bool.false_eq_true, if_false]
    by_cases hpa : p.addr = a
    · simp only [hpa, if_true]
      split <;> omega
    · have : ¬ a = p.addr := fun e => hpa e.symm
      simp only [hpa, this, if_false]
      split <;> omega

theorem cmb_paidTo_paidRec (m : Market) (p : Part) : paidTo m (p.paidRec m) = paidTo m p := by
  obtain ⟨_, _, f3, f4, f5, f6, _, _⟩ := p.paidRec_fields m
  unfold paidTo Part.payout Part.feeToDepositor
  rw [f3, f4, f5, f6]

-- ---------------------------------------------------------------------------------------------
-- the participation loop

/-- batchSettlementOfParticipation: the account `a` gains at least the increase of the value of the book's
    participation list (w.r.t. any reference list), and never loses -/
theorem cmb_settleParts_bal (a : Nat) (ha : isModuleAcc a = false) (m : Market) (ref : List Part) (count : Nat) :
    ∀ (ps : List Part) (s : Core.State) (bk : Book) (sc pr : Nat) (r : Core.State × Book × Nat × Nat),
    settleParts m count ps s bk sc pr = some r →
    Sorted Part.key bk.parts → ps.Pairwise (fun x y => x.idx ≠ y.idx) → (∀ p ∈ ps, bk.getPart p.idx = some p) →
    Sorted Part.key r.2.1.parts ∧ r.2.1.uid = bk.uid ∧ (∃ bal', r.1 = { s with bal := bal' }) ∧
    getBal s.bal a ≤ getBal r.1.bal a ∧
    getBal s.bal a + (sumBy (newPaidVal a m ref) r.2.1.parts - sumBy (newPaidVal a m ref) bk.parts) ≤ getBal r.1.bal a := by
  intro ps
  induction ps with
  | nil =>
    intro s bk sc pr r h hs _ _
    simp only [settleParts, Option.some.injEq] at h
    subst h
    exact ⟨hs, rfl, ⟨s.bal, rfl⟩, Int.le_refl _,
      by show getBal s.bal a + (sumBy _ bk.parts - sumBy _ bk.parts) ≤ getBal s.bal a; omega⟩
  | cons p rest ih =>
    intro s bk sc pr r h hs hd hg
    rw [List.pairwise_cons] at hd
    unfold settleParts at h
    simp only [bind, Option.bind_eq_some_iff] at h
    obtain ⟨r1, h1, h⟩ := h
    have hgp : bk.getPart p.idx = some p := hg p (List.mem_cons_self ..)
    have hstep : Sorted Part.key r1.2.1.parts ∧ r1.2.1.uid = bk.uid ∧ (∃ bal', r1.1 = { s with bal := bal' }) ∧
        getBal s.bal a ≤ getBal r1.1.bal a ∧
        getBal s.bal a + (sumBy (newPaidVal a m ref) r1.2.1.parts - sumBy (newPaidVal a m ref) bk.parts) ≤ getBal r1.1.bal a ∧
        (∀ q ∈ rest, r1.2.1.getPart q.idx = some q) := by
      unfold settleOne at h1
      split at h1
      · simp only [Option.map_eq_some_iff] at h1
        obtain ⟨x, hx, rfl⟩ := h1
        obtain ⟨hun, hb1, e1⟩ := ret_settlePart_rec hx
        obtain ⟨b1, b2⟩ := cmb_settlePart_bal hx a ha
        obtain ⟨f1, f2, _, _, _, _, f7, _⟩ := p.paidRec_fields m
        refine ⟨?_, ?_, hb1, b2, ?_, ?_⟩
        · show Sorted Part.key x.2.parts
          rw [e1]
          exact upsert_sorted Part.key _ _ hs
        · show x.2.uid = _
          rw [e1]; rfl
        · show _ + (sumBy _ x.2.parts - _) ≤ getBal x.1.bal a
          rw [e1]
          show _ + (sumBy _ (upsert Part.key (p.paidRec m) bk.parts) - _) ≤ _
          rw [sumBy_upsert Part.key _ _ _ hs]
          have hl : lookup Part.key (Part.key (p.paidRec m)) bk.parts = some p := by
            have : Part.key (p.paidRec m) = [p.idx] := by unfold Part.key; rw [f1]
            rw [this]; exact hgp
          rw [hl]
          have g0 : newPaidVal a m ref p = 0 := by
            unfold newPaidVal; simp [hun]
          have g1 : newPaidVal a m ref (p.paidRec m) ≤ getBal x.1.bal a - getBal s.bal a := by
            unfold newPaidVal
            split
            · rw [f2, cmb_paidTo_paidRec]; omega
            · omega
          simp only [g0]
          omega
        · intro q hq
          show x.2.getPart q.idx = some q
          rw [e1, Book.getPart_setPart_ne _ _ _ (by rw [f1]; exact hd.1 q hq)]
          exact hg q (List.mem_cons_of_mem _ hq)
      · cases h1
        exact ⟨hs, rfl, ⟨s.bal, rfl⟩, Int.le_refl _,
          by show getBal s.bal a + (sumBy _ bk.parts - sumBy _ bk.parts) ≤ getBal s.bal a; omega,
          fun q hq => hg q (List.mem_cons_of_mem _ hq)⟩
    obtain ⟨S1, S2, ⟨bal1, S3⟩, S4, S5, S6⟩ := hstep
    split at h
    · simp only [pure, Option.some.injEq] at h
      subst h
      exact ⟨S1, S2, ⟨bal1, S3⟩, S4, S5⟩
    · obtain ⟨T1, T2, ⟨bal2, T3⟩, T4, T5⟩ := ih r1.1 r1.2.1 r1.2.2 (pr + 1) r h S1 hd.2 S6
      refine ⟨T1, T2.trans S2, ⟨bal2, by rw [T3, S3]⟩, by omega, by omega⟩

-- ---------------------------------------------------------------------------------------------
-- sums over the visited books

theorem cmb_sumBy_change (f f' : Nat → Int) (uid : Nat) : ∀ (W : List Nat), W.Nodup → (∀ u ∈ W, u ≠ uid → f' u = f u) →
    sumBy f' W - sumBy f W = if uid ∈ W then f' uid - f uid else 0 := by
  intro W
  induction W with
  | nil => intro _ _; simp [sumBy]
  | cons x xs ih =>
    intro hn hf
    rw [List.nodup_cons] at hn
    rw [sumBy_cons, sumBy_cons]
    have ih' := ih hn.2 (fun u hu hne => hf u (List.mem_cons_of_mem _ hu) hne)
    by_cases hx : x = uid
    · subst hx
      have : ¬ x ∈ xs := hn.1
      simp only [this, if_false] at ih'
      simp only [List.mem_cons, true_or, if_true]
      omega
    · have e := hf x (List.mem_cons_self ..) hx
      have : (uid ∈ x :: xs) ↔ uid ∈ xs := by
        simp only [List.mem_cons]
        constructor
        · rintro (h | h)
          · exact absurd h.symm hx
          · exact h
        · exact Or.inr
      simp only [this]
      rw [e]
      omega

theorem cmb_mem_upsert {α : Type} (key : α → List Nat) (x z : α) : ∀ (l : List α), z ∈ upsert key x l → z = x ∨ z ∈ l := by
  intro l
  induction l with
  | nil => intro h; simp only [upsert, List.mem_singleton] at h; exact Or.inl h
  | cons y ys ih =>
    intro h
    unfold upsert at h
    split at h
    · rcases List.mem_cons.mp h with e | e
      · exact Or.inl e
      · exact Or.inr (List.mem_cons_of_mem _ e)
    · split at h
      · rcases List.mem_cons.mp h with e | e
        · exact Or.inl e
        · exact Or.inr e
      · rcases List.mem_cons.mp h with e | e
        · exact Or.inr (by rw [e]; exact List.mem_cons_self ..)
        · rcases ih e with e' | e'
          · exact Or.inl e'
          · exact Or.inr (List.mem_cons_of_mem _ e')

/-- every book's participation list is sorted by index -/
def PartsSorted (c : Core.State) : Prop := ∀ b ∈ c.books, Sorted Part.key b.parts

/-- the value of the hook list derived from the current state `c` w.r.t. the reference state `c1` over the walk `W` -/
def walkVal (a : Nat) (c1 : Core.State) (W : List Nat) (c : Core.State) : Int := sumBy (bookVal a c1 c) W

/-- replacing book `uid` by `B` (same uid) in a state that otherwise only differs in balances / the queue -/
theorem cmb_walkVal_setBook (a : Nat) (c1 : Core.State) (W : List Nat) (hW : W.Nodup) (s t : Core.State) (b B : Book) (m : Market)
    (uid : Nat) (hb : getBook s uid = some b) (hm : getMarket s uid = some m) (hBu : B.uid = uid)
    (htm : t.markets = s.markets) (htb : t.books = s.books) :
    walkVal a c1 W (setBook t B) - walkVal a c1 W s =
      if uid ∈ W then
        (match getBook c1 uid with
         | some b0 => sumBy (newPaidVal a m b0.parts) B.parts - sumBy (newPaidVal a m b0.parts) b.parts
         | none => 0)
      else 0 := by
  have hgm : ∀ u, getMarket (setBook t B) u = getMarket s u := by
    intro u; unfold getMarket setBook; simp only [htm]
  have hgb : ∀ u, u ≠ uid → getBook (setBook t B) u = getBook s u := by
    intro u hu
    unfold getBook setBook
    simp only [htb]
    exact lookup_upsert_ne Book.key B [u] s.books (by simp [Book.key, hBu, Ne.symm hu])
  have hgs : getBook (setBook t B) uid = some B := by
    unfold getBook setBook
    simp only
    have : [uid] = Book.key B := by simp [Book.key, hBu]
    rw [this]
    exact lookup_upsert_self Book.key B _
  unfold walkVal
  rw [cmb_sumBy_change (bookVal a c1 s) (bookVal a c1 (setBook t B)) uid W hW]
  · by_cases hu : uid ∈ W
    · simp only [hu, if_true]
      rw [cmb_bookVal_eq, cmb_bookVal_eq, hgm, hgs, hm, hb]
      cases getBook c1 uid with
      | none => simp
      | some b0 => simp
    · simp only [hu, if_false]
  · intro u _ hne
    rw [cmb_bookVal_eq, cmb_bookVal_eq, hgm, hgb u hne]

-- ---------------------------------------------------------------------------------------------
-- the order-book end-blocker

theorem cmb_obEndBlock_bal (a : Nat) (ha : isModuleAcc a = false) (c1 : Core.State) (W : List Nat) (hW : W.Nodup) :
    ∀ (fuel : Nat) (s : Core.State) (n i : Nat) (s' : Core.State), obEndBlock fuel s n i = some s' → PartsSorted s →
    getBal s.bal a - walkVal a c1 W s ≤ getBal s'.bal a - walkVal a c1 W s' := by
  intro fuel
  induction fuel with
  | zero => intro s n i s' h _; simp [obEndBlock] at h; rw [← h]; exact Int.le_refl _
  | succ fuel ih =>
    intro s n i s' h hP
    unfold obEndBlock at h
    split at h
    · simp at h; rw [← h]; exact Int.le_refl _
    · split at h
      · simp at h; rw [← h]; exact Int.le_refl _
      · rename_i uid _
        simp only [bind, Option.bind_eq_some_iff] at h
        obtain ⟨b, hb, m, hm, _, _, r, hr, h⟩ := h
        have hbm := getBook_mem hb
        have hsp := hP b hbm.1
        have hpw := ret_sorted_pairwise_idx hsp
        have hget : ∀ q ∈ b.parts, b.getPart q.idx = some q := fun q hq => Book.mem_getPart hsp hq
        -- what the account gains while this book is processed
        have key : ∀ ref : List Part,
            getBal s.bal a + (sumBy (newPaidVal a m ref) r.2.1.parts - sumBy (newPaidVal a m ref) b.parts) ≤ getBal r.1.bal a :=
          fun ref => (cmb_settleParts_bal a ha m ref n b.parts s b 0 0 r hr hsp hpw hget).2.2.2.2
        obtain ⟨R1, R2, ⟨bal', R3⟩, R4, _⟩ := cmb_settleParts_bal a ha m [] n b.parts s b 0 0 r hr hsp hpw hget
        -- the next state: `setBook t B` with `t` = `r.1` up to the queue and `B` = the settled book up to its status
        have next : ∀ (t : Core.State) (B : Book), t.markets = s.markets → t.books = s.books → t.bal = r.1.bal →
            B.uid = uid → B.parts = r.2.1.parts →
            PartsSorted (setBook t B) ∧
            getBal s.bal a - walkVal a c1 W s ≤ getBal (setBook t B).bal a - walkVal a c1 W (setBook t B) := by
          intro t B htm htb htl hBu hBp
          constructor
          · intro z hz
            have hz' : z ∈ upsert Book.key B t.books := hz
            rcases cmb_mem_upsert Book.key B z _ hz' with e | e
            · rw [e, hBp]; exact R1
            · rw [htb] at e; exact hP z e
          · have hv := cmb_walkVal_setBook a c1 W hW s t b B m uid hb hm hBu htm htb
            have hbal : (setBook t B).bal = r.1.bal := htl
            rw [hbal]
            by_cases hu : uid ∈ W
            · simp only [hu, if_true] at hv
              cases hc : getBook c1 uid with
              | none => rw [hc] at hv; simp only at hv; omega
              | some b0 =>
                rw [hc] at hv
                simp only at hv
                have := key b0.parts
                rw [hBp] at hv
                omega
            · simp only [hu, if_false] at hv
              omega
        split at h
        · simp only [bind, Option.bind_eq_some_iff] at h
          obtain ⟨q, _, h⟩ := h
          obtain ⟨N1, N2⟩ := next { r.1 with obqueue := q } { r.2.1 with status := OB_SETTLED }
            (by show r.1.markets = _; rw [R3]) (by show r.1.books = _; rw [R3]) rfl (by show r.2.1.uid = _; rw [R2]; exact hbm.2) rfl
          exact Int.le_trans N2 (ih _ _ _ _ h N1)
        · obtain ⟨N1, N2⟩ := next r.1 r.2.1 (by rw [R3]) (by rw [R3]) rfl (by rw [R2]; exact hbm.2) rfl
          exact Int.le_trans N2 (ih _ _ _ _ h N1)

-- ---------------------------------------------------------------------------------------------
-- the bet end-blocker only credits non-custody accounts

theorem cmb_bettorWins_mono (a : Nat) (ha : isModuleAcc a = false) (bettor : Nat) :
    ∀ (fs : List Fulf) (bal : List (Nat × Int)) (b : Book) (r : List (Nat × Int) × Book),
    bettorWins bal bettor b fs = some r → getBal bal a ≤ getBal r.1 a := by
  obtain ⟨n1, _, _⟩ := cmb_notModule_ne ha
  intro fs
  induction fs with
  | nil => intro bal b r h; simp only [bettorWins, Option.some.injEq] at h; subst h; exact Int.le_refl _
  | cons f rest ih =>
    intro bal b r h
    unfold bettorWins at h
    simp only [bind, Option.bind_eq_some_iff] at h
    obtain ⟨p, _, bal', ht, h⟩ := h
    obtain ⟨x0, e⟩ := cmb_transfer_recv ht a n1
    have := ih _ _ _ h
    rw [e] at this
    split at this <;> omega

theorem cmb_settleBet_mono {s s' : Core.State} {c u : Nat} (h : settleBet s c u = some s') (a : Nat) (ha : isModuleAcc a = false) :
    getBal s.bal a ≤ getBal s'.bal a := by
  obtain ⟨n1, n2, _⟩ := cmb_notModule_ne ha
  unfold settleBet at h
  simp only [bind, Option.bind_eq_some_iff] at h
  obtain ⟨_, _, bet, _, _, _, m, _, h⟩ := h
  split at h
  · unfold settleRefund at h
    simp only [bind, Option.bind_eq_some_iff, pure, Option.some.injEq] at h
    obtain ⟨s1, h1, s2, h2, rfl⟩ := h
    obtain ⟨x1, e1, _⟩ := cmb_bankSend_recv h1 a n1
    obtain ⟨x2, e2, _⟩ := cmb_bankSend_recv h2 a n2
    show _ ≤ getBal s2.bal a
    rw [e2, e1]
    split <;> omega
  · simp only [bind, Option.bind_eq_some_iff] at h
    obtain ⟨_, _, h⟩ := h
    unfold settleDeclared at h
    simp only [bind, Option.bind_eq_some_iff, pure, Option.some.injEq] at h
    obtain ⟨bk, _, r, hr, s2, h2, rfl⟩ := h
    obtain ⟨x2, e2, _⟩ := cmb_bankSend_recv h2 a n2
    show _ ≤ getBal s2.bal a
    rw [e2]
    have hr1 : getBal s.bal a ≤ getBal r.1 a := by
      unfold settleOutcome at hr
      split at hr
      · exact cmb_bettorWins_mono a ha _ _ _ _ _ hr
      · simp only [Option.map_eq_some_iff] at hr
        obtain ⟨b', _, rfl⟩ := hr
        exact Int.le_refl _
    show getBal s.bal a ≤ getBal r.1 a + _
    split <;> omega

theorem cmb_settlePage_mono (a : Nat) (ha : isModuleAcc a = false) : ∀ (page : List (Nat × Nat × Nat × Nat)) (s : Core.State)
    (r : Core.State × Nat), settlePage s page = some r → getBal s.bal a ≤ getBal r.1.bal a := by
  intro page
  induction page with
  | nil => intro s r h; simp [settlePage] at h; rw [← h]; exact Int.le_refl _
  | cons pb rest ih =>
    intro s r h
    unfold settlePage at h
    simp only [bind, Option.bind_eq_some_iff, pure, Option.some.injEq] at h
    obtain ⟨s1, h1, r1, hr, rfl⟩ := h
    have := cmb_settleBet_mono h1 a ha
    have := ih _ _ hr
    show _ ≤ getBal r1.1.bal a
    omega

theorem cmb_betEndBlockStep_mono {s : Core.State} {mk n : Nat} {r : Core.State × Nat} (h : betEndBlockStep s mk n = some r)
    (a : Nat) (ha : isModuleAcc a = false) : getBal s.bal a ≤ getBal r.1.bal a := by
  unfold betEndBlockStep at h
  simp only [bind, Option.bind_eq_some_iff] at h
  obtain ⟨r0, h0, h⟩ := h
  have e0 := cmb_settlePage_mono a ha _ _ _ h0
  split at h
  · simp only [pure, Option.some.injEq] at h; rw [← h]; exact e0
  · simp only [bind, Option.bind_eq_some_iff, pure, Option.some.injEq] at h
    obtain ⟨q, _, s2, h2, rfl⟩ := h
    unfold bookResolved at h2
    simp only [bind, Option.bind_eq_some_iff, pure, Option.some.injEq] at h2
    obtain ⟨_, _, _, _, rfl⟩ := h2
    exact e0

theorem cmb_betEndBlock_mono (a : Nat) (ha : isModuleAcc a = false) : ∀ (fuel : Nat) (s : Core.State) (n : Nat) (s' : Core.State),
    betEndBlock fuel s n = some s' → getBal s.bal a ≤ getBal s'.bal a := by
  intro fuel
  induction fuel with
  | zero => intro s n s' h; simp [betEndBlock] at h; rw [← h]; exact Int.le_refl _
  | succ fuel ih =>
    intro s n s' h
    unfold betEndBlock at h
    split at h
    · simp at h; rw [← h]; exact Int.le_refl _
    · split at h
      · simp at h; rw [← h]; exact Int.le_refl _
      · simp only [bind, Option.bind_eq_some_iff] at h
        obtain ⟨r, hr, h⟩ := h
        have := cmb_betEndBlockStep_mono hr a ha
        have := ih _ _ _ h
        omega

-- ---------------------------------------------------------------------------------------------
-- the whole core end-block

theorem cmb_nodup_eraseDups : ∀ (n : Nat) (l : List Nat), l.length ≤ n → l.eraseDups.Nodup := by
  intro n
  induction n with
  | zero =>
    intro l hl
    have : l = [] := List.eq_nil_of_length_eq_zero (by omega)
    subst this
    simp
  | succ n ih =>
    intro l hl
    cases l with
    | nil => simp
    | cons x xs =>
      rw [List.eraseDups_cons, List.nodup_cons]
      constructor
      · intro hm
        rw [List.mem_eraseDups, List.mem_filter] at hm
        simp at hm
      · apply ih
        have := List.length_filter_le (fun b => !b == x) xs
        simp only [List.length_cons] at hl
        omega

/-- in the reference state itself nothing is "paid since the reference" -/
theorem cmb_walkVal_ref (a : Nat) (c1 : Core.State) (W : List Nat) (hP : PartsSorted c1) : walkVal a c1 W c1 = 0 := by
  unfold walkVal
  apply sumBy_zero
  intro uid _
  rw [cmb_bookVal_eq]
  cases hm : getMarket c1 uid with
  | none => rfl
  | some m =>
    cases hb : getBook c1 uid with
    | none => rfl
    | some b0 =>
      simp only
      apply sumBy_zero
      intro p hp
      have hsp := hP b0 (getBook_mem hb).1
      unfold newPaidVal
      split
      · rename_i hc
        exfalso
        simp only [Bool.and_eq_true, List.any_eq_true, beq_iff_eq, Bool.not_eq_true'] at hc
        obtain ⟨hps, q, hq, hqi, hqs⟩ := hc
        have e1 := Book.mem_getPart hsp hq
        have e2 := Book.mem_getPart hsp hp
        rw [hqi, e2] at e1
        cases e1
        rw [hps] at hqs
        cases hqs
      · rfl

/-- ONE CORE END-BLOCK COVERS ITS HOOKS: every non-custody account `a` receives in the core end-block at least what the
    hook calls that the combined end-block derives for it book (un-spent amount + forwarded profit − booked loss) -/
theorem cmb_endBlockO_covers {c c' : Core.State} (h : Core.endBlockO c = some c') (hP : PartsSorted (obRef c))
    (a : Nat) (ha : isModuleAcc a = false) :
    getBal c.bal a + hooksFor a (endBlockHooks c c') ≤ getBal c'.bal a := by
  unfold Core.endBlockO at h
  simp only [bind, Option.bind_eq_some_iff] at h
  obtain ⟨c1, h1, h2⟩ := h
  have href : obRef c = c1 := by unfold obRef; rw [h1]
  have m1 := cmb_betEndBlock_mono a ha _ _ _ _ h1
  have hW : (obWalk c).Nodup := cmb_nodup_eraseDups _ _ (Nat.le_refl _)
  rw [href] at hP
  have m2 := cmb_obEndBlock_bal a ha c1 (obWalk c) hW _ _ _ _ _ h2 hP
  rw [cmb_walkVal_ref a c1 _ hP] at m2
  have e : hooksFor a (endBlockHooks c c') = walkVal a c1 (obWalk c) c' := by
    unfold endBlockHooks walkVal
    rw [cmb_hooksFor_flatMap, href]
    rfl
  rw [e]
  omega

end Sge.Combined
