/-
  Lock bound on the combined slice, part 2: per account summary, what `WithdrawUnlockedBalances` has released so far
  (ghost counter `released`) is at most `Withdrawn` and at most the total of the locks whose unlock time has passed —
  for every combined operation, provided block times do not decrease.
-/
import SgeProofs.Lemmas.CombinedLockTime
namespace Sge.Combined
open Sge Sge.Core Sge.Genesis
open Sge.Subaccount (Summary Lock setLocks unlockedSum validLocks sumLocked spend_some unspend_some addLoss_some withdraw_some
  unlockedSum_nonneg unlockedSum_mono unlockedSum_setLocks setLocks_nonneg validLocks_nonneg sumLocked_some)

structure cmb2_LockOK (now : Nat) (r : SubRec) : Prop where
  locks : ∀ l ∈ r.locks, 0 ≤ l.2
  rel0 : 0 ≤ r.released
  relWd : r.released ≤ r.sum.withdrawn
  lock : r.released ≤ unlockedSum now r.locks

def cmb2_LockInv (s : State) : Prop := ∀ a r, aget s.subs a = some r → cmb2_LockOK s.core.time r

theorem cmb2_LockOK.advance {now now' : Nat} {r : SubRec} (h : cmb2_LockOK now r) (hle : now ≤ now') : cmb2_LockOK now' r := by
  have := unlockedSum_mono now now' hle r.locks h.locks
  exact ⟨h.locks, h.rel0, h.relWd, Int.le_trans h.lock this⟩

/-- only the summary changes, `Withdrawn` does not fall -/
theorem cmb2_LockOK.setSum {now : Nat} {r : SubRec} (h : cmb2_LockOK now r) {sum' : Summary}
    (hw : r.sum.withdrawn ≤ sum'.withdrawn) : cmb2_LockOK now { r with sum := sum' } :=
  ⟨h.locks, h.rel0, Int.le_trans h.relWd hw, h.lock⟩

/-- the record at `a` is rewritten after a step that keeps the time and the other records -/
theorem cmb2_lockInv_setSub {s s1 : State} (hL : cmb2_LockInv s) (ht : s1.core.time = s.core.time) (hsubs : s1.subs = s.subs)
    (a : Nat) (r' : SubRec) (hr' : cmb2_LockOK s.core.time r') : cmb2_LockInv (s1.setSub a r') := by
  intro b rb hb
  have e : (s1.setSub a r').core.time = s.core.time := ht
  rw [e]
  unfold State.setSub at hb
  simp only [cmb_aget_aset] at hb
  split at hb
  · cases hb; exact hr'
  · rw [hsubs] at hb; exact hL b rb hb

theorem cmb2_lockInv_core {s : State} (hL : cmb2_LockInv s) (c : Core.State) (ht : c.time = s.core.time) :
    cmb2_LockInv { s with core := c } := by
  intro b rb hb
  have e : ({ s with core := c } : State).core.time = s.core.time := ht
  rw [e]
  exact hL b rb hb

theorem cmb2_send_time {s s' : State} {a b : Nat} {v : Int} (h : send s a b v = some s') :
    s'.core.time = s.core.time ∧ s'.subs = s.subs := by
  unfold send at h
  cases hc : bankSend s.core a b v with
  | none => simp [hc] at h
  | some c =>
    simp only [hc, Option.map_some, Option.some.injEq] at h
    subst h
    obtain ⟨bal', _, rfl⟩ := bankSend_shape hc
    exact ⟨rfl, rfl⟩

-- ---------------------------------------------------------------------------------------------
-- the handlers

theorem cmb2_create_lock {s s' : State} {creator owner : Nat} {ls : List Lock} (hL : cmb2_LockInv s)
    (h : createO s creator owner ls = some s') : cmb2_LockInv s' ∧ s'.core.time = s.core.time := by
  unfold createO at h
  simp only [bind, Option.bind_eq_some_iff, pure, Option.some.injEq] at h
  obtain ⟨_, hv, total, _, _, _, s1, hs1, rfl⟩ := h
  obtain ⟨ht, hsubs⟩ := cmb2_send_time hs1
  have hnn := validLocks_nonneg (cmb_chk_true hv)
  refine ⟨?_, ht⟩
  intro b rb hb
  have e : s1.core.time = s.core.time := ht
  show cmb2_LockOK s1.core.time rb
  rw [e]
  simp only [cmb_aget_aset] at hb
  split at hb
  · cases hb
    have hl : ∀ l ∈ setLocks [] ls, 0 ≤ l.2 := setLocks_nonneg ls [] (by simp) hnn
    exact ⟨hl, Int.le_refl _, Int.le_refl _, unlockedSum_nonneg _ _ hl⟩
  · exact hL b rb hb

theorem cmb2_topUp_lock {s s' : State} {creator owner : Nat} {ls : List Lock} (hL : cmb2_LockInv s)
    (h : topUpO s creator owner ls = some s') : cmb2_LockInv s' ∧ s'.core.time = s.core.time := by
  unfold topUpO at h
  simp only [bind, Option.bind_eq_some_iff, pure, Option.some.injEq] at h
  obtain ⟨_, hv, total, hsum, a, ha, r, hr, _, _, s1, hs1, rfl⟩ := h
  obtain ⟨ht, hsubs⟩ := cmb2_send_time hs1
  have hnn := validLocks_nonneg (cmb_chk_true hv)
  have hts := (sumLocked_some hsum).1
  have h0 := hL a r hr
  refine ⟨cmb2_lockInv_setSub hL ht hsubs a _ ?_, ht⟩
  refine ⟨setLocks_nonneg ls r.locks h0.locks hnn, h0.rel0, h0.relWd, ?_⟩
  show r.released ≤ unlockedSum s.core.time (setLocks r.locks ls)
  rw [unlockedSum_setLocks s.core.time ls r.locks hts]
  exact h0.lock

/-- MsgWithdrawUnlockedBalances: the amount paid out is at most what has unlocked minus what was already withdrawn -/
theorem cmb2_withdrawUnlocked_lock {s s' : State} {owner : Nat} (hL : cmb2_LockInv s)
    (h : withdrawUnlockedO s owner = some s') : cmb2_LockInv s' ∧ s'.core.time = s.core.time := by
  unfold withdrawUnlockedO at h
  simp only [bind, Option.bind_eq_some_iff, pure, Option.some.injEq] at h
  obtain ⟨a, ha, r, hr, _, hne, sum', hw, s1, hs1, rfl⟩ := h
  obtain ⟨ht, hsubs⟩ := cmb2_send_time hs1
  obtain ⟨w0, w1, rfl⟩ := withdraw_some hw
  have h0 := hL a r hr
  have hne : r.sum.withdrawableUnlocked true (unlockedSum s.core.time r.locks) (s.bal a) ≠ 0 := by
    have := cmb_chk_true hne
    simpa using this
  refine ⟨cmb2_lockInv_setSub hL ht hsubs a _ ?_, ht⟩
  generalize hwv : r.sum.withdrawableUnlocked true (unlockedSum s.core.time r.locks) (s.bal a) = w at w0 w1 hne
  have hle : w ≤ max 0 (unlockedSum s.core.time r.locks - r.sum.withdrawn) := by
    rw [← hwv]
    unfold Summary.withdrawableUnlocked
    simp only [if_true]
    omega
  have hrw := h0.relWd
  have hr0 := h0.rel0
  refine ⟨h0.locks, by show 0 ≤ r.released + w; omega, by show r.released + w ≤ r.sum.withdrawn + w; omega, ?_⟩
  show r.released + w ≤ unlockedSum s.core.time r.locks
  omega

/-- how one record is related to its predecessor: same locks and ghost counter, `Withdrawn` moved by `d` -/
def cmb2_RecMoved (r r' : SubRec) (d : Int) : Prop :=
  r'.locks = r.locks ∧ r'.released = r.released ∧ r'.sum.withdrawn = r.sum.withdrawn + d

theorem cmb2_aget_setSub (s : State) (a : Nat) (r : SubRec) (b : Nat) :
    aget (s.setSub a r).subs b = if a = b then some r else aget s.subs b := by
  unfold State.setSub
  simp only [cmb_aget_aset]

theorem cmb2_withdrawLocked_lock {s s' : State} {a owner : Nat} {d : Int}
    (h : withdrawLockedO s a owner d = some s') :
    0 ≤ d ∧ s'.core.time = s.core.time ∧ (∃ r r', aget s.subs a = some r ∧ aget s'.subs a = some r' ∧ cmb2_RecMoved r r' d) ∧
      ∀ b, b ≠ a → aget s'.subs b = aget s.subs b := by
  unfold withdrawLockedO at h
  simp only [bind, Option.bind_eq_some_iff, pure, Option.some.injEq] at h
  obtain ⟨r, hr, _, _, s1, hs1, sum', hw, rfl⟩ := h
  obtain ⟨ht, hsubs⟩ := cmb2_send_time hs1
  obtain ⟨w0, w1, rfl⟩ := withdraw_some hw
  refine ⟨w0, ht, ⟨r, { r with sum := { r.sum with withdrawn := r.sum.withdrawn + d } }, hr,
    by rw [cmb2_aget_setSub, if_pos rfl], rfl, rfl, rfl⟩, ?_⟩
  intro b hb
  rw [cmb2_aget_setSub, if_neg (fun e => hb e.symm), hsubs]

theorem cmb2_returnToSub_lock {s s' : State} {a owner : Nat} {v : Int} (h : returnToSubO s a owner v = some s') :
    s'.core.time = s.core.time ∧ ((v ≤ 0 ∧ s'.subs = s.subs) ∨
      ((∃ r r', aget s.subs a = some r ∧ aget s'.subs a = some r' ∧ cmb2_RecMoved r r' (-v)) ∧
        ∀ b, b ≠ a → aget s'.subs b = aget s.subs b)) := by
  unfold returnToSubO at h
  split at h
  · rename_i hv
    cases h
    exact ⟨rfl, Or.inl ⟨hv, rfl⟩⟩
  · simp only [bind, Option.bind_eq_some_iff, pure, Option.some.injEq] at h
    obtain ⟨r, hr, _, _, s1, hs1, rfl⟩ := h
    obtain ⟨ht, hsubs⟩ := cmb2_send_time hs1
    refine ⟨ht, Or.inr ⟨⟨r, { r with sum := { r.sum with withdrawn := r.sum.withdrawn - v } }, hr,
      by rw [cmb2_aget_setSub, if_pos rfl], rfl, rfl, ?_⟩, ?_⟩⟩
    · show r.sum.withdrawn - v = r.sum.withdrawn + -v
      omega
    · intro b hb
      rw [cmb2_aget_setSub, if_neg (fun e => hb e.symm), hsubs]

theorem cmb2_subWagerBet_lock {s s' : State} {owner : Nat} {tk : Tk} {uid : Nat} {amount : Int} {pl : WagerPayload}
    (h : subWagerBet s owner tk uid amount pl = some s') : s'.core.time = s.core.time ∧ s'.subs = s.subs := by
  unfold subWagerBet at h
  cases hc : wagerO s.core owner tk uid amount pl with
  | none => simp [hc] at h
  | some c =>
    simp only [hc, Option.map_some, Option.some.injEq] at h
    subst h
    exact ⟨cmb2_wagerO_time hc, rfl⟩

/-- MsgWager of x/subaccount: `Withdrawn` rises by the subaccount deduction and falls by what is returned, which is at
    most the deduction -/
theorem cmb2_subWager_lock {s s' : State} {owner : Nat} {outerOk : Bool} {ic : Nat} {main sub : Int} {tk : Tk} {uid : Nat}
    {amount : Int} {pl : WagerPayload} (hL : cmb2_LockInv s)
    (h : subWagerO s owner outerOk ic main sub tk uid amount pl = some s') : cmb2_LockInv s' ∧ s'.core.time = s.core.time := by
  unfold subWagerO at h
  simp only [bind, Option.bind_eq_some_iff, pure, Option.some.injEq] at h
  obtain ⟨_, _, a, ha, _, _, _, _, _, _, _, _, _, _, s1, hs1, s2, hs2, h3⟩ := h
  obtain ⟨hd0, ht1, ⟨r, r1, hr, hr1, m1⟩, ho1⟩ := cmb2_withdrawLocked_lock hs1
  obtain ⟨ht2, hsubs2⟩ := cmb2_subWagerBet_lock hs2
  obtain ⟨ht3, h3'⟩ := cmb2_returnToSub_lock h3
  have htime : s'.core.time = s.core.time := ht3.trans (ht2.trans ht1)
  have h0 := hL a r hr
  refine ⟨?_, htime⟩
  intro b rb hb
  rw [htime]
  generalize hamt : min (s2.bal owner - (s.bal owner - main)) sub = amt at h3'
  have hamt_le : amt ≤ sub := by rw [← hamt]; omega
  rcases h3' with ⟨_, e3⟩ | ⟨⟨r2, r3, hr2, hr3, m3⟩, ho3⟩
  · rw [e3, hsubs2] at hb
    by_cases hba : b = a
    · rw [hba, hr1] at hb
      cases hb
      obtain ⟨e1, e2, e3'⟩ := m1
      have := h0.relWd
      exact ⟨by rw [e1]; exact h0.locks, by rw [e2]; exact h0.rel0, by rw [e2, e3']; omega, by rw [e1, e2]; exact h0.lock⟩
    · rw [ho1 b hba] at hb
      exact hL b rb hb
  · by_cases hba : b = a
    · rw [hba, hr3] at hb
      cases hb
      rw [hsubs2, hr1] at hr2
      cases hr2
      obtain ⟨e1, e2, e3'⟩ := m1
      obtain ⟨f1, f2, f3⟩ := m3
      have := h0.relWd
      refine ⟨by rw [f1, e1]; exact h0.locks, by rw [f2, e2]; exact h0.rel0, by rw [f2, e2, f3, e3']; omega,
        by rw [f1, e1, f2, e2]; exact h0.lock⟩
    · rw [ho3 b hba, hsubs2, ho1 b hba] at hb
      exact hL b rb hb

theorem cmb2_subDeposit_lock {s s' : State} {owner : Nat} {tk : Tk} {market : Nat} {amount : Int} {pd : Nat}
    (hL : cmb2_LockInv s) (h : subDepositO s owner tk market amount pd = some s') :
    cmb2_LockInv s' ∧ s'.core.time = s.core.time := by
  unfold subDepositO at h
  simp only [bind, Option.bind_eq_some_iff, pure, Option.some.injEq] at h
  obtain ⟨_, _, a, ha, r, hr, _, _, sum', hsp, c, hc, rfl⟩ := h
  obtain ⟨_, _, rfl⟩ := spend_some hsp
  unfold subDepositCore at hc
  cases hd : houseDepositO (putGrant s.core a owner 0 amount) owner (tkWith tk (tk.kycOk owner)) market amount a with
  | none => simp [hd] at hc
  | some res =>
    simp only [hd, Option.map_some, Option.some.injEq] at hc
    have ht : c.time = s.core.time := by
      rw [← hc, cmb2_houseDepositO_time hd]
      rfl
    exact ⟨cmb2_lockInv_setSub (s1 := { s with core := c }) hL ht rfl a _ ((hL a r hr).setSum (Int.le_refl _)), ht⟩

theorem cmb2_subWithdraw_lock {s s' : State} {owner : Nat} {tk : Tk} {market idx mode : Nat} {amount : Int} {pd : Nat}
    (hL : cmb2_LockInv s) (h : subWithdrawO s owner tk market idx mode amount pd = some s') :
    cmb2_LockInv s' ∧ s'.core.time = s.core.time := by
  unfold subWithdrawO at h
  simp only [bind, Option.bind_eq_some_iff, pure, Option.some.injEq] at h
  obtain ⟨a, ha, r, hr, w, hw, c, hc, sum', hus, rfl⟩ := h
  obtain ⟨_, _, rfl⟩ := unspend_some hus
  unfold subWithdrawCore at hc
  have ht : c.time = s.core.time := by
    rw [cmb2_houseWithdrawO_time hc]
    rfl
  exact ⟨cmb2_lockInv_setSub (s1 := { s with core := c }) hL ht rfl a _ ((hL a r hr).setSum (Int.le_refl _)), ht⟩

-- ---------------------------------------------------------------------------------------------
-- hooks and the end-block

theorem cmb2_applyHook_lock {s s' : State} {hc : HookCall} (hL : cmb2_LockInv s) (h : applyHook s hc = some s') :
    cmb2_LockInv s' ∧ s'.core.time = s.core.time := by
  cases hc with
  | win hs orig profit =>
    simp only [applyHook] at h
    split at h
    · cases h; exact ⟨hL, rfl⟩
    · rename_i r hr
      simp only [bind, Option.bind_eq_some_iff, pure, Option.some.injEq] at h
      obtain ⟨sum', hu, owner, ho, s1, hs1, rfl⟩ := h
      obtain ⟨_, _, rfl⟩ := unspend_some hu
      obtain ⟨ht, hsubs⟩ := cmb2_send_time hs1
      exact ⟨cmb2_lockInv_setSub hL ht hsubs hs _ ((hL hs r hr).setSum (Int.le_refl _)), ht⟩
  | loss hs orig lost =>
    simp only [applyHook] at h
    split at h
    · cases h; exact ⟨hL, rfl⟩
    · rename_i r hr
      simp only [bind, Option.bind_eq_some_iff, pure, Option.some.injEq] at h
      obtain ⟨sum1, hu, sum', hl, rfl⟩ := h
      obtain ⟨_, _, rfl⟩ := unspend_some hu
      obtain ⟨_, rfl⟩ := addLoss_some hl
      exact ⟨cmb2_lockInv_setSub (s1 := s) hL rfl rfl hs _ ((hL hs r hr).setSum (Int.le_refl _)), rfl⟩
  | refund hs orig =>
    simp only [applyHook] at h
    split at h
    · cases h; exact ⟨hL, rfl⟩
    · rename_i r hr
      simp only [bind, Option.bind_eq_some_iff, pure, Option.some.injEq] at h
      obtain ⟨sum', hu, rfl⟩ := h
      obtain ⟨_, _, rfl⟩ := unspend_some hu
      exact ⟨cmb2_lockInv_setSub (s1 := s) hL rfl rfl hs _ ((hL hs r hr).setSum (Int.le_refl _)), rfl⟩

theorem cmb2_applyHooks_lock : ∀ (l : List HookCall) {s s' : State}, cmb2_LockInv s → applyHooks s l = some s' →
    cmb2_LockInv s' ∧ s'.core.time = s.core.time := by
  intro l
  induction l with
  | nil => intro s s' hL h; simp only [applyHooks, Option.some.injEq] at h; subst h; exact ⟨hL, rfl⟩
  | cons x xs ih =>
    intro s s' hL h
    simp only [applyHooks, bind, Option.bind_eq_some_iff] at h
    obtain ⟨s1, h1, h2⟩ := h
    obtain ⟨a1, a2⟩ := cmb2_applyHook_lock hL h1
    obtain ⟨b1, b2⟩ := ih a1 h2
    exact ⟨b1, b2.trans a2⟩

theorem cmb2_endBlock_lock {s s' : State} (hL : cmb2_LockInv s) (h : endBlockO s = some s') :
    cmb2_LockInv s' ∧ s'.core.time = s.core.time := by
  unfold endBlockO at h
  simp only [bind, Option.bind_eq_some_iff] at h
  obtain ⟨c, hc, h2⟩ := h
  have ht : c.time = s.core.time := cmb2_endBlockO_time hc
  obtain ⟨a1, a2⟩ := cmb2_applyHooks_lock _ (cmb2_lockInv_core hL c ht) h2
  exact ⟨a1, a2.trans ht⟩

-- ---------------------------------------------------------------------------------------------
-- every operation, every history

/-- the block time after a core operation -/
theorem cmb2_coreStep_time (c : Core.State) (op : Core.Op) :
    (Core.step c op).1.time = (match op with | .newBlock _ t => t | _ => c.time) := by
  cases op with
  | marketAdd cr tk u st en o stt =>
    simp only [Core.step, Core.marketAdd, Core.commit]
    cases h : marketAddO c cr tk u st en o stt with
    | none => rfl
    | some c' =>
      unfold marketAddO at h
      simp only [bind, Option.bind_eq_some_iff, pure, Option.some.injEq] at h
      obtain ⟨_, _, _, _, _, _, _, _, _, _, _, _, _, _, rfl⟩ := h
      rfl
  | marketUpdate tk u st en stt =>
    simp only [Core.step, Core.marketUpdate, Core.commit]
    cases h : marketUpdateO c tk u st en stt with
    | none => rfl
    | some c' =>
      unfold marketUpdateO at h
      simp only [bind, Option.bind_eq_some_iff, pure, Option.some.injEq] at h
      obtain ⟨_, _, _, _, _, _, _, _, _, _, rfl⟩ := h
      rfl
  | marketResolve tk u ts stt w =>
    simp only [Core.step, Core.marketResolve, Core.commit]
    cases h : marketResolveO c tk u ts stt w with
    | none => rfl
    | some c' =>
      unfold marketResolveO at h
      simp only [bind, Option.bind_eq_some_iff, pure, Option.some.injEq] at h
      obtain ⟨_, _, _, _, _, _, _, _, _, _, rfl⟩ := h
      rfl
  | deposit cr tk m a pd =>
    simp only [Core.step, Core.houseDeposit]
    cases h : houseDepositO c cr tk m a pd with
    | none => rfl
    | some r => exact cmb2_houseDepositO_time h
  | withdraw cr tk m i md a pd =>
    simp only [Core.step, Core.houseWithdraw, Core.commit]
    cases h : houseWithdrawO c cr tk m i md a pd with
    | none => rfl
    | some c' => exact cmb2_houseWithdrawO_time h
  | wager cr tk u a pl =>
    simp only [Core.step, Core.wager, Core.commit]
    cases h : wagerO c cr tk u a pl with
    | none => rfl
    | some c' => exact cmb2_wagerO_time h
  | grant g e k l ex => rfl
  | revoke g e k => rfl
  | send a b v =>
    simp only [Core.step]
    split
    · rfl
    · simp only [Core.commit]
      cases h : bankSend c a b v with
      | none => rfl
      | some c' =>
        obtain ⟨bal', _, rfl⟩ := bankSend_shape h
        rfl
  | setParams p =>
    simp only [Core.step]
    split <;> rfl
  | endBlock =>
    simp only [Core.step, Core.endBlock]
    cases h : Core.endBlockO c with
    | none => rfl
    | some c' => exact cmb2_endBlockO_time h
  | newBlock h t => rfl

/-- the block time the operation sets, if it is a new block -/
def Op.newTime : Op → Option Nat
  | .core (.newBlock _ t) => some t
  | _ => none

theorem cmb2_step_lock (s : State) (op : Op) (hL : cmb2_LockInv s) (hmono : ∀ t, op.newTime = some t → s.core.time ≤ t) :
    cmb2_LockInv (step s op).1 ∧ (step s op).1.core.time = (op.newTime).getD s.core.time := by
  have lift : ∀ {r : Option State}, (∀ s', r = some s' → cmb2_LockInv s' ∧ s'.core.time = s.core.time) →
      cmb2_LockInv (commit s r).1 ∧ (commit s r).1.core.time = s.core.time := by
    intro r h
    cases r with
    | none => exact ⟨hL, rfl⟩
    | some s' => exact h s' rfl
  cases op with
  | core cop =>
    by_cases he : cop = .endBlock
    · subst he
      show cmb2_LockInv (endBlock s).1 ∧ (endBlock s).1.core.time = s.core.time
      unfold endBlock
      cases h : endBlockO s with
      | none => exact ⟨hL, rfl⟩
      | some s' => exact cmb2_endBlock_lock hL h
    · have e : step s (.core cop) = coreStep s cop := by
        cases cop <;> first | rfl | exact absurd rfl he
      rw [e]
      have ht := cmb2_coreStep_time s.core cop
      cases cop with
      | newBlock hh t =>
        have hle := hmono t rfl
        refine ⟨?_, rfl⟩
        intro b rb hb
        exact (hL b rb hb).advance hle
      | endBlock => exact absurd rfl he
      | marketAdd cr tk u st en o stt => exact ⟨cmb2_lockInv_core hL _ ht, ht⟩
      | marketUpdate tk u st en stt => exact ⟨cmb2_lockInv_core hL _ ht, ht⟩
      | marketResolve tk u ts stt w => exact ⟨cmb2_lockInv_core hL _ ht, ht⟩
      | deposit cr tk m a pd => exact ⟨cmb2_lockInv_core hL _ ht, ht⟩
      | withdraw cr tk m i md a pd => exact ⟨cmb2_lockInv_core hL _ ht, ht⟩
      | wager cr tk u a pl => exact ⟨cmb2_lockInv_core hL _ ht, ht⟩
      | grant g e k l ex => exact ⟨cmb2_lockInv_core hL _ ht, ht⟩
      | revoke g e k => exact ⟨cmb2_lockInv_core hL _ ht, ht⟩
      | send a b v => exact ⟨cmb2_lockInv_core hL _ ht, ht⟩
      | setParams p => exact ⟨cmb2_lockInv_core hL _ ht, ht⟩
  | subParams w d => exact ⟨fun b rb hb => hL b rb hb, rfl⟩
  | create c o ls => exact lift (fun s' e => cmb2_create_lock hL e)
  | topUp c o ls => exact lift (fun s' e => cmb2_topUp_lock hL e)
  | withdrawUnlocked o => exact lift (fun s' e => cmb2_withdrawUnlocked_lock hL e)
  | subWager o ok ic m sb tk u a pl => exact lift (fun s' e => cmb2_subWager_lock hL e)
  | subDeposit o tk m a pd => exact lift (fun s' e => cmb2_subDeposit_lock hL e)
  | subWithdraw o tk m i md a pd => exact lift (fun s' e => cmb2_subWithdraw_lock hL e)

/-- block times never decrease along the history started at time `t` -/
def cmb2_timesMono : Nat → List Op → Bool
  | _, [] => true
  | t, op :: rest =>
    match op.newTime with
    | some t' => decide (t ≤ t') && cmb2_timesMono t' rest
    | none => cmb2_timesMono t rest

theorem cmb2_run_lock : ∀ (ops : List Op) (s : State), cmb2_LockInv s → cmb2_timesMono s.core.time ops = true →
    cmb2_LockInv (run s ops) := by
  intro ops
  induction ops with
  | nil => intro s hL _; exact hL
  | cons op rest ih =>
    intro s hL hm
    unfold cmb2_timesMono at hm
    cases hn : op.newTime with
    | none =>
      rw [hn] at hm
      simp only at hm
      obtain ⟨a1, a2⟩ := cmb2_step_lock s op hL (fun t e => by rw [hn] at e; cases e)
      rw [hn] at a2
      exact ih (step s op).1 a1 (by rw [a2]; exact hm)
    | some t' =>
      rw [hn] at hm
      simp only [Bool.and_eq_true, decide_eq_true_eq] at hm
      obtain ⟨a1, a2⟩ := cmb2_step_lock s op hL (fun t e => by rw [hn] at e; cases e; exact hm.1)
      rw [hn] at a2
      exact ih (step s op).1 a1 (by rw [a2]; exact hm.2)

end Sge.Combined
