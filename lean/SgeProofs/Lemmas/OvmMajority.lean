/-
  The majority rule of x/ovm: `KeyVault.MajorityCount` = `NewDec(count).Mul(0.6667).Ceil().TruncateInt64()`
  (types/key_vault.go, `minVoteMajorityForDecisionPercentage = NewDecWithPrec(6667, 4)` in types/consts.go)
  against the property's "two thirds, rounded up".
-/
import Sge.Dec
import Sge.Ovm
namespace Sge.Ovm
open Sge

/-- the `LegacyDec` computation of `MajorityCount`, operation by operation -/
def decMajority (n : Nat) : Int :=
  (((Dec.ofInt (n : Int)).mul ⟨666700000000000000⟩).ceil).truncInt

/-- two thirds of `n`, rounded up -/
def ceilTwoThirds (n : Nat) : Nat := (2 * n + 2) / 3

/-- the closed form used by the model is what the `LegacyDec` computation yields (all vault sizes up to 12;
    the correspondence suite additionally runs genesis vaults of 3 to 6 keys against the real code) -/
theorem decMajority_eq_majority :
    ∀ n ∈ [0, 1, 2, 3, 4, 5, 6, 7, 8, 9, 10, 11, 12], decMajority n = (majority n : Int) := by
  decide

theorem majority_four : majority 4 = 3 := by decide
theorem majority_five : majority 5 = 4 := by decide

/-- for the vault sizes the module admits (4 and 5) the 66.67 % rule is exactly ceil(2n/3) -/
theorem majority_eq_ceilTwoThirds (n : Nat) (h : n = 4 ∨ n = 5) : majority n = ceilTwoThirds n := by
  rcases h with rfl | rfl <;> decide

/-- for every size the rule demands at least ceil(2n/3) votes … -/
theorem ceilTwoThirds_le_majority (n : Nat) : ceilTwoThirds n ≤ majority n := by
  unfold ceilTwoThirds majority; omega

/-- … and it is strictly more demanding at the multiples of three (0.6667 > 2/3): with three keys all
    three must agree, with six keys five. The admitted sizes 4 and 5 are not affected. -/
theorem majority_three_six : majority 3 = 3 ∧ ceilTwoThirds 3 = 2 ∧ majority 6 = 5 ∧ ceilTwoThirds 6 = 4 := by
  decide

theorem majority_le (n : Nat) : majority n ≤ n := by
  unfold majority; omega

theorem majority_pos (n : Nat) (h : 0 < n) : 0 < majority n := by
  unfold majority; omega

end Sge.Ovm
