/- the wager loop (`processWager`) keeps the book invariant `WB` -/
import SgeProofs.Lemmas.GenesisReachBook
namespace Sge.Core
open Sge Sge.Genesis

variable {ks E : List Nat} {oc pc n : Nat}

/-- with an eligible participation, `rollOne` moves the exposure to the history and opens the next round -/
theorem rollOne_true_book (o idx : Nat) (acc : Book × PExp × List (Nat × Part × PExp)) (pe : PExp) :
    (rollOne true o idx acc pe).1 = ((acc.1.setHist pe).delExp pe.odds pe.idx).setExp
      { odds := pe.odds, idx := pe.idx, exposure := 0, bet := 0, fulfilled := false, round := pe.round + 1 } := by
  unfold rollOne
  simp only [↓reduceIte]
  split <;> rfl

theorem rollFold_WB (o idx : Nat) : ∀ (l : List PExp) (acc : Book × PExp × List (Nat × Part × PExp)),
    WB ks E oc pc n acc.1 → WB ks E oc pc n (l.foldl (rollOne true o idx) acc).1 := by
  intro l
  induction l with
  | nil => intro acc h; exact h
  | cons pe rest ih =>
    intro acc h
    simp only [List.foldl_cons]
    apply ih
    rw [rollOne_true_book]
    exact h.roll pe _ rfl rfl

theorem requeueOddsFold_WB (idx : Nat) : ∀ (l : List (Nat × List Nat)) (b : Book), (∀ oq ∈ l, oq.1 ∈ ks) →
    WB ks E oc pc n b → WB ks E oc pc n (l.foldl (requeueOdds idx) b) := by
  intro l
  induction l with
  | nil => intro b _ h; exact h
  | cons x xs ih =>
    intro b hl h
    simp only [List.foldl_cons]
    apply ih _ (fun oq hoq => hl oq (List.mem_cons_of_mem _ hoq))
    unfold requeueOdds
    exact h.setQueue _ _ (hl x (List.mem_cons_self ..))

/-- `refreshQueueAndState` is only reached with a participation that is eligible for the next round, so every exposure
    it moves to the history is replaced by a fresh one -/
theorem requeue_WB {f : FInfo} (h : WB ks E oc pc n f.book) (p : Part) (e : PExp) (o : Nat) (hp : p.eligiblePre = true) :
    WB ks E oc pc n (requeue f p e o).book ∧ (requeue f p e o).betId = f.betId := by
  have he : decide ((0 : Int) < p.crl - maxI 0 p.crMaxLoss) = true := hp
  have hr := rollFold_WB (ks := ks) (E := E) (oc := oc) (pc := pc) (n := n) o p.idx (f.book.expsOfIdx p.idx) (f.book, e, f.fmap) h
  unfold requeue
  simp only [he, ↓reduceIte]
  generalize (f.book.expsOfIdx p.idx).foldl (rollOne true o p.idx) (f.book, e, f.fmap) = R at hr
  refine ⟨?_, trivial⟩
  apply requeueOddsFold_WB
  · intro oq hoq
    rw [← (hr.setPart _).qk]
    exact List.mem_map.mpr ⟨oq, hoq, rfl⟩
  · exact hr.setPart _

theorem stage1_WB (o : Nat) (ov mult : Dec) (thr : Int) (f : FInfo) (pe : Part × PExp) (h : WB ks E oc pc n f.book)
    (h1 : 1 ≤ f.betId) (h2 : f.betId ≤ n) :
    WB ks E oc pc n (stage1 o ov mult thr f pe).2.2.2.book ∧ (stage1 o ov mult thr f pe).2.2.2.betId = f.betId := by
  unfold stage1
  simp only
  split
  · exact ⟨h.addPair _ _ h1 h2, rfl⟩
  · exact ⟨h, rfl⟩

theorem secondaryOne_WB (o : Nat) (thr : Int) (allExp : List PExp) (ms : List (Nat × Dec)) (acc : Part × Book × Bool)
    (x : Nat) (h : WB ks E oc pc n acc.2.1) : WB ks E oc pc n (secondaryOne o thr allExp ms acc x).2.1 := by
  unfold secondaryOne
  split
  · exact h
  · split
    · exact h
    · split
      · exact h
      · split
        · exact h
        · split
          · simp only
            split
            · rename_i q hq
              refine (h.setExp _).setQueue _ _ ?_
              rw [← (h.setExp _).qk]
              exact getQueue_some_mem hq
            · exact h.setExp _
          · exact h

theorem secondaryFold_WB (o : Nat) (thr : Int) (allExp : List PExp) (ms : List (Nat × Dec)) :
    ∀ (l : List Nat) (acc : Part × Book × Bool), WB ks E oc pc n acc.2.1 →
    WB ks E oc pc n (l.foldl (secondaryOne o thr allExp ms) acc).2.1 := by
  intro l
  induction l with
  | nil => intro acc h; exact h
  | cons x xs ih =>
    intro acc h
    simp only [List.foldl_cons]
    exact ih _ (secondaryOne_WB o thr allExp ms acc x h)

theorem stage2_WB (o : Nat) (mo : List Nat) (ms : List (Nat × Dec)) (thr : Int) (x : Part × PExp × Bool × FInfo)
    (h : WB ks E oc pc n x.2.2.2.book) :
    WB ks E oc pc n (stage2 o mo ms thr x).2.2.book ∧ (stage2 o mo ms thr x).2.2.betId = x.2.2.2.betId := by
  unfold stage2
  split
  · simp only
    split
    · exact ⟨secondaryFold_WB o thr x.2.2.2.allExp ms mo
        ({ x.1 with notFilled := wrapDec x.1.notFilled }, x.2.2.2.book, x.2.2.2.err) h, rfl⟩
    · exact ⟨h, rfl⟩
  · exact ⟨h, rfl⟩

theorem stage3_WB (o : Nat) (x : Part × PExp × FInfo) (h : WB ks E oc pc n x.2.2.book) :
    WB ks E oc pc n (stage3 o x).book ∧ (stage3 o x).betId = x.2.2.betId := by
  unfold stage3
  simp only
  split
  · rename_i hc
    have hp : x.1.eligiblePre = true := by
      simp only [Bool.and_eq_true] at hc
      exact hc.2
    exact requeue_WB (f := { x.2.2 with book := (x.2.2.book.setExp x.2.1).setPart x.1 }) ((h.setExp _).setPart _) x.1 x.2.1 o hp
  · exact ⟨(h.setExp _).setPart _, rfl⟩

theorem visit_WB (o : Nat) (ov mult : Dec) (mo : List Nat) (ms : List (Nat × Dec)) (thr : Int) (f : FInfo) (i : Nat)
    (h : WB ks E oc pc n f.book) (h1 : 1 ≤ f.betId) (h2 : f.betId ≤ n) :
    WB ks E oc pc n (visit o ov mult mo ms thr f i).book ∧ (visit o ov mult mo ms thr f i).betId = f.betId := by
  unfold visit
  split
  · exact ⟨h, rfl⟩
  · rename_i pe _
    have s1 := stage1_WB o ov mult thr f pe h h1 h2
    have s2 := stage2_WB o mo ms thr (stage1 o ov mult thr f pe) s1.1
    have s3 := stage3_WB o (stage2 o mo ms thr (stage1 o ov mult thr f pe)) s2.1
    exact ⟨s3.1, s3.2.trans (s2.2.trans s1.2)⟩

theorem loop_WB (o : Nat) (ov mult : Dec) (mo : List Nat) (ms : List (Nat × Dec)) (thr : Int) :
    ∀ (q : List Nat) (f : FInfo), WB ks E oc pc n f.book → 1 ≤ f.betId → f.betId ≤ n →
    WB ks E oc pc n (loop o ov mult mo ms thr q f).book := by
  intro q
  induction q with
  | nil => intro f h _ _; exact h
  | cons i rest ih =>
    intro f h h1 h2
    have hv := visit_WB o ov mult mo ms thr f i h h1 h2
    unfold loop
    simp only
    split
    · exact hv.1
    · split
      · exact hv.1
      · exact ih _ hv.1 (by rw [hv.2]; exact h1) (by rw [hv.2]; exact h2)

/-- ProcessWager keeps the book invariant; the pairs it adds carry the id of the bet being placed -/
theorem processWager_WB (b b' : Book) (o betId : Nat) (ov mult : Dec) (mo : List Nat) (ms : List (Nat × Dec))
    (thr A : Int) (P : Dec) (fulfs : List Fulf) (taken : Int) (hb : WB ks E oc pc n b) (h1 : 1 ≤ betId) (h2 : betId ≤ n)
    (h : processWager b o betId ov mult mo ms thr A P = some (b', fulfs, taken)) : WB ks E oc pc n b' := by
  unfold processWager at h
  simp only [bind, Option.bind_eq_some_iff] at h
  obtain ⟨q, hq, f0, hf0, h⟩ := h
  have h0 : f0.book = b ∧ f0.betId = betId := by
    unfold initFInfo at hf0
    simp only [bind, Option.bind_eq_some_iff, pure, Option.some.injEq] at hf0
    obtain ⟨_, _, _, _, _, _, _, _, rfl⟩ := hf0
    exact ⟨rfl, rfl⟩
  have hl := loop_WB (ks := ks) (E := E) (oc := oc) (pc := pc) (n := n) o ov mult mo ms thr q f0
    (by rw [h0.1]; exact hb) (by rw [h0.2]; exact h1) (by rw [h0.2]; exact h2)
  unfold finishWager at h
  split at h
  · cases h
  · split at h
    · cases h
    · simp only [Option.some.injEq, Prod.mk.injEq] at h
      obtain ⟨e1, _, _⟩ := h
      rw [← e1]
      refine hl.setQueue _ _ ?_
      rw [← hb.qk]
      exact getQueue_some_mem hq

end Sge.Core
