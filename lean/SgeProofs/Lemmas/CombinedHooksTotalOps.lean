/-
  Hooks never fail (C11 on the combined slice), part 4: `cmb2_SpentInv` and `cmb2_AvailOK` under the subaccount house
  deposit (both sides rise by the deposit), the subaccount house withdrawal (both sides fall by the amount paid out) and
  under every core operation other than the end-block (no value rises: a direct deposit is made for a key-holding account).
-/
import SgeProofs.Lemmas.CombinedHooksTotalSpent
namespace Sge.Combined
open Sge Sge.Core Sge.Genesis
open Sge.Subaccount (Summary SumNonneg spend_some unspend_some addLoss_some withdraw_some)

theorem cmb2_sumBy_sub {α : Type} (f g : α → Int) (l : List α) : sumBy (fun x => f x - g x) l = sumBy f l - sumBy g l := by
  induction l with
  | nil => rfl
  | cons x xs ih => rw [sumBy_cons, sumBy_cons, sumBy_cons, ih]; omega

theorem cmb2_sumBy_zero {α : Type} (l : List α) : sumBy (fun _ : α => (0 : Int)) l = 0 := by
  induction l with
  | nil => rfl
  | cons x xs ih => rw [sumBy_cons, ih]; rfl

/-- the sum of an indicator of one key, cut down to one address -/
theorem cmb2_sumBy_ind2_mem (k0 : Nat × Nat) (a : Nat) (v : Int) (L : List (Nat × Nat)) (hL : L.Nodup) (hk : k0 ∈ L) :
    sumBy (fun k => if k = k0 ∧ a = a then v else 0) L = v := by
  simp only [and_true]
  rw [cmb2_sumBy_ind k0 v L hL]
  exact if_pos hk

theorem cmb2_sumBy_ind2_not_mem (k0 : Nat × Nat) (a : Nat) (v : Int) (L : List (Nat × Nat)) (hL : L.Nodup) (hk : ¬ k0 ∈ L) :
    sumBy (fun k => if k = k0 ∧ a = a then v else 0) L = 0 := by
  simp only [and_true]
  rw [cmb2_sumBy_ind k0 v L hL]
  exact if_neg hk

theorem cmb2_sumBy_ind2_ne (k0 : Nat × Nat) (a x : Nat) (v : Int) (L : List (Nat × Nat)) (e : ¬ a = x) :
    sumBy (fun k => if k = k0 ∧ a = x then v else 0) L = 0 := by
  simp only [e, and_false, if_false]
  exact cmb2_sumBy_zero L

theorem cmb2_subAddr_ne {a owner : Nat} (ha : SUB_BASE ≤ a) (ho : owner < SUB_BASE) : depositFor owner a = a := by
  unfold depositFor
  have h1 : (a != 0) = true := by have := cmb_SUB_BASE_pos; simp; omega
  have h2 : (a != owner) = true := by simp; omega
  simp [h1, h2]

/-- MsgHouseDeposit of x/subaccount -/
theorem cmb2_subDeposit_inv {s s' : State} {owner : Nat} {tk : Tk} {market : Nat} {amount : Int} {pd : Nat}
    (hI : cmb2_SpentInv s) (hAv : cmb2_AvailOK s) (hP : cmb2_PartsOK s.core) (hR : InRange s)
    (hU : ∀ o a, aget s.owners o = some a → isUser o)
    (h : subDepositO s owner tk market amount pd = some s') : cmb2_SpentInv s' ∧ cmb2_AvailOK s' := by
  unfold subDepositO at h
  simp only [bind, Option.bind_eq_some_iff, pure, Option.some.injEq] at h
  obtain ⟨_, _, a, ha, r, hr, _, _, sum', hsp, c, hc, rfl⟩ := h
  have ho := hU owner a ha
  have hra := hR.of hr
  obtain ⟨p0, p1, rfl⟩ := spend_some hsp
  unfold subDepositCore at hc
  cases hd : houseDepositO (putGrant s.core a owner 0 amount) owner (tkWith tk (tk.kycOk owner)) market amount a with
  | none => simp [hd] at hc
  | some res =>
    simp only [hd, Option.map_some, Option.some.injEq] at hc
    obtain ⟨k0, hf⟩ := cmb2_houseDepositO_frame hd
    rw [cmb2_subAddr_ne hra ho.1, hc] at hf
    have hPg : cmb2_PartsOK (putGrant s.core a owner 0 amount) := hP
    constructor
    · intro x hx L hL
      have h1 := cmb2_sumBy_le _ _ L (fun k _ => cmb2_DepFrame.val_le hf hPg x k)
      rw [cmb2_sumBy_add] at h1
      have h3 : sumBy (cmb2_val (putGrant s.core a owner 0 amount) x) L = sumBy (cmb2_val s.core x) L := rfl
      rw [h3] at h1
      have h2 := hI x hx L hL
      show sumBy (cmb2_val c x) L ≤ _
      rw [cmb2_spentOf_setSub]
      by_cases e : a = x
      · subst e
        rw [if_pos rfl]
        have hsa : cmb2_spentOf s a = r.sum.spent := by unfold cmb2_spentOf; rw [hr]
        show _ ≤ r.sum.spent + amount
        by_cases hk : k0 ∈ L
        · rw [cmb2_sumBy_ind2_mem k0 a amount L hL hk] at h1
          omega
        · rw [cmb2_sumBy_ind2_not_mem k0 a amount L hL hk] at h1
          omega
      · rw [if_neg e]
        rw [cmb2_sumBy_ind2_ne k0 a x amount L e] at h1
        show _ ≤ cmb2_spentOf s x
        omega
    · have hAv' : cmb2_AvailOK ({ s with core := c } : State) := hAv
      apply cmb2_availOK_setSub hAv'
      simp only [Summary.available] at p1 ⊢
      omega

/-- MsgHouseWithdraw of x/subaccount -/
theorem cmb2_subWithdraw_inv {s s' : State} {owner : Nat} {tk : Tk} {market idx mode : Nat} {amount : Int} {pd : Nat}
    (hI : cmb2_SpentInv s) (hAv : cmb2_AvailOK s) (hP : cmb2_PartsOK s.core) (hR : InRange s)
    (h : subWithdrawO s owner tk market idx mode amount pd = some s') : cmb2_SpentInv s' ∧ cmb2_AvailOK s' := by
  unfold subWithdrawO at h
  simp only [bind, Option.bind_eq_some_iff, pure, Option.some.injEq] at h
  obtain ⟨a, ha, r, hr, w, hw, c, hc, sum', hus, rfl⟩ := h
  have hra := hR.of hr
  obtain ⟨u0, u1, rfl⟩ := unspend_some hus
  unfold subWithdrawCore at hc
  have hane : (a != 0) = true := by have := cmb_SUB_BASE_pos; simp; omega
  obtain ⟨w', p0, hw', hf⟩ := cmb2_houseWithdrawO_frame hc
  simp only [hane, if_true] at hw' hf
  have hww : w' = w := by
    have e : subWithdrawAmount (putGrant s.core a owner 1 w) a market idx mode amount = subWithdrawAmount s.core a market idx mode amount := rfl
    rw [e, hw] at hw'
    exact (Option.some.inj hw').symm
  subst hww
  have hPg : cmb2_PartsOK (putGrant s.core a owner 1 w') := hP
  have hf' := hf
  obtain ⟨⟨b0, hb0, hp0⟩, hun, had, hw0, hle, _⟩ := hf'
  have hq0 := cmb2_partsOK_get hPg hb0 hp0
  constructor
  · intro x hx L hL
    have h1 := cmb2_sumBy_le _ _ L (fun k _ => cmb2_WdFrame.val_le hf hPg x k)
    rw [cmb2_sumBy_sub] at h1
    have h3 : sumBy (cmb2_val (putGrant s.core a owner 1 w') x) L = sumBy (cmb2_val s.core x) L := rfl
    rw [h3] at h1
    have h2 := hI x hx L hL
    show sumBy (cmb2_val c x) L ≤ _
    rw [cmb2_spentOf_setSub]
    by_cases e : a = x
    · subst e
      rw [if_pos rfl]
      have hsa : cmb2_spentOf s a = r.sum.spent := by unfold cmb2_spentOf; rw [hr]
      show _ ≤ r.sum.spent - w'
      by_cases hk : (market, idx) ∈ L
      · rw [cmb2_sumBy_ind2_mem (market, idx) a w' L hL hk] at h1
        omega
      · rw [cmb2_sumBy_ind2_not_mem (market, idx) a w' L hL hk] at h1
        -- the key of the withdrawal can be added to the list
        have h4 := hI a hx ((market, idx) :: L) (List.nodup_cons.mpr ⟨hk, hL⟩)
        rw [sumBy_cons] at h4
        have hv : cmb2_val s.core a (market, idx) = p0.liq + p0.fee := by
          have : cmb2_val s.core a (market, idx) = if p0.isSettled = false ∧ p0.addr = a then p0.liq + p0.fee else 0 :=
            cmb2_val_get (c := s.core) hb0 hp0
          rw [this, if_pos ⟨hun, had⟩]
        have := hq0.fee
        have := hq0.crl
        omega
    · rw [if_neg e]
      rw [cmb2_sumBy_ind2_ne (market, idx) a x w' L e] at h1
      show _ ≤ cmb2_spentOf s x
      omega
  · have hAv' : cmb2_AvailOK ({ s with core := c } : State) := hAv
    apply cmb2_availOK_setSub hAv'
    have := hAv a r hr
    simp only [Summary.available] at this ⊢
    omega

-- ---------------------------------------------------------------------------------------------
-- core operations other than the end-block

theorem cmb2_coreStep_skeeps (s : State) (op : Core.Op) (hne : op ≠ .endBlock) (hwf : (Op.core op).wfU)
    (hA : RetAll s.core) (hP : cmb2_PartsOK s.core) : cmb2_SKeeps s (coreStep s op).1 := by
  apply cmb2_skeeps_core
  intro x hx k
  have quiet : (∀ c tk m a pd, op ≠ .deposit c tk m a pd) → (∀ c tk m i md a pd, op ≠ .withdraw c tk m i md a pd) →
      cmb2_val (Core.step s.core op).1 x k ≤ cmb2_val s.core x k :=
    fun h1 h2 => cmb2_Quiet.val_le (cmb2_step_quiet s.core op hA hP h1 h2) hP x k
  cases op with
  | deposit cr tk m a pd =>
    show cmb2_val (Core.step s.core (.deposit cr tk m a pd)).1 x k ≤ _
    simp only [Core.step, Core.houseDeposit]
    cases h : houseDepositO s.core cr tk m a pd with
    | none => exact Int.le_refl _
    | some r =>
      have hu : isUser (depositFor cr pd) := hwf
      obtain ⟨k0, hf⟩ := cmb2_houseDepositO_frame h
      have := cmb2_DepFrame.val_le hf hP x k
      rw [if_neg (fun hc => by have := hu.1; omega)] at this
      show cmb2_val r.1 x k ≤ _
      omega
  | withdraw cr tk m i md a pd =>
    show cmb2_val (Core.step s.core (.withdraw cr tk m i md a pd)).1 x k ≤ _
    simp only [Core.step, Core.houseWithdraw, Core.commit]
    cases h : houseWithdrawO s.core cr tk m i md a pd with
    | none => exact Int.le_refl _
    | some c' =>
      obtain ⟨w, p0, _, hf⟩ := cmb2_houseWithdrawO_frame h
      have := cmb2_WdFrame.val_le hf hP x k
      have hw0 := hf.2.2.2.1
      show cmb2_val c' x k ≤ _
      split at this <;> omega
  | endBlock => exact absurd rfl hne
  | marketAdd cr tk u st en o stt => exact quiet (by intros; simp) (by intros; simp)
  | marketUpdate tk u st en stt => exact quiet (by intros; simp) (by intros; simp)
  | marketResolve tk u ts stt w => exact quiet (by intros; simp) (by intros; simp)
  | wager cr tk u a pl => exact quiet (by intros; simp) (by intros; simp)
  | grant g e k l ex => exact quiet (by intros; simp) (by intros; simp)
  | revoke g e k => exact quiet (by intros; simp) (by intros; simp)
  | send a b v => exact quiet (by intros; simp) (by intros; simp)
  | setParams p => exact quiet (by intros; simp) (by intros; simp)
  | newBlock h t => exact quiet (by intros; simp) (by intros; simp)

end Sge.Combined
