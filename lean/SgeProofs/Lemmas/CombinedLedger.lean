/-
  C11 ledger on the combined slice, part 1: the surplus `bank − available` of every address of the subaccount range
  never decreases under the x/subaccount handlers (which call the real core handlers) and under the hook calls.
-/
import SgeProofs.Lemmas.CombinedHooks
import SgeProofs.Lemmas.Subaccount
namespace Sge.Combined
open Sge Sge.Core Sge.Genesis
open Sge.Subaccount (Summary SumNonneg spend_some unspend_some addLoss_some withdraw_some)

/-- `Available()` of the account summary stored at `x` (0 when there is none) -/
def led (s : State) (x : Nat) : Int :=
  match aget s.subs x with
  | some r => r.sum.available
  | none => 0

/-- what the address holds beyond its ledger -/
def surplus (s : State) (x : Nat) : Int := s.bal x - led s x

/-- a key-holding account: below the subaccount address range and not a custody module account -/
def isUser (x : Nat) : Prop := x < SUB_BASE ∧ isModuleAcc x = false

theorem cmb_range_notModule {x : Nat} (h : SUB_BASE ≤ x) : isModuleAcc x = false := by
  unfold isModuleAcc ACC_POOL ACC_BETFEE ACC_HOUSEFEE
  unfold SUB_BASE at h
  have h1 : (x == 1000001) = false := by simp; omega
  have h2 : (x == 1000002) = false := by simp; omega
  have h3 : (x == 1000003) = false := by simp; omega
  rw [h1, h2, h3]; rfl

theorem cmb_SUB_BASE_pos : 0 < SUB_BASE := by decide

theorem cmb_subAddr_range (k : Nat) : SUB_BASE ≤ subAddr k := by unfold subAddr; omega

theorem cmb_led_setSub (s : State) (a : Nat) (r : SubRec) (x : Nat) :
    led (s.setSub a r) x = if a = x then r.sum.available else led s x := by
  unfold led State.setSub
  simp only [cmb_aget_aset]
  by_cases e : a = x
  · simp only [e, if_true]
  · simp only [e, if_false]

theorem cmb_bal_setSub (s : State) (a : Nat) (r : SubRec) (x : Nat) : (s.setSub a r).bal x = s.bal x := rfl

/-- the combined `send`, seen from an account that is not the payer -/
theorem cmb_send_recv {s s' : State} {src dst : Nat} {v : Int} (h : send s src dst v = some s') :
    0 ≤ v ∧ (∀ x, x ≠ src → s'.bal x = s.bal x + (if x = dst then v else 0)) ∧ s'.subs = s.subs ∧ Maps s s' ∧
      s'.nextId = s.nextId ∧ (src ≠ dst → s'.bal src = s.bal src - v) := by
  unfold send at h
  cases hc : bankSend s.core src dst v with
  | none => simp [hc] at h
  | some c =>
    simp only [hc, Option.map_some, Option.some.injEq] at h
    subst h
    refine ⟨?_, ?_, rfl, ⟨rfl, rfl⟩, rfl, ?_⟩
    · obtain ⟨bal', ht, _⟩ := bankSend_shape hc
      unfold transfer at ht
      split at ht
      · cases ht
      · omega
    · intro x hx
      exact (cmb_bankSend_recv hc x hx).2.1
    · intro hne
      have := (cmb_bankSend_bal hc hne src).2
      simp only [if_true, if_neg hne] at this
      show getBal c.bal src = _
      rw [this]
      show getBal s.core.bal src - v + 0 = getBal s.core.bal src - v
      omega

/-- what one (sub-)step of a combined operation keeps -/
structure Keeps (s s' : State) : Prop where
  sur : ∀ x, SUB_BASE ≤ x → surplus s x ≤ surplus s' x
  nn : (∀ a r, aget s.subs a = some r → SumNonneg r.sum) → ∀ a r, aget s'.subs a = some r → SumNonneg r.sum
  maps : Maps s s'
  dom : ∀ a, (aget s'.subs a).isSome = (aget s.subs a).isSome
  nid : s'.nextId = s.nextId

theorem Keeps.refl (s : State) : Keeps s s := ⟨fun _ _ => Int.le_refl _, fun h => h, Maps.refl _, fun _ => rfl, rfl⟩

theorem Keeps.trans {s1 s2 s3 : State} (h1 : Keeps s1 s2) (h2 : Keeps s2 s3) : Keeps s1 s3 :=
  ⟨fun x hx => Int.le_trans (h1.sur x hx) (h2.sur x hx), fun h => h2.nn (h1.nn h), h1.maps.trans h2.maps,
    fun a => (h2.dom a).trans (h1.dom a), h2.nid.trans h1.nid⟩

/-- updating the record at `a` (which exists) after a change of the balances -/
theorem cmb_keeps_update {s s1 : State} {a : Nat} {r : SubRec} {sum' : Summary}
    (hr : aget s.subs a = some r) (hsubs : s1.subs = s.subs) (hmaps : Maps s s1) (hnid : s1.nextId = s.nextId)
    (hother : ∀ x, SUB_BASE ≤ x → x ≠ a → s.bal x ≤ s1.bal x)
    (hself : s.bal a - r.sum.available ≤ s1.bal a - sum'.available)
    (hnn : SumNonneg r.sum → SumNonneg sum') (r' : SubRec) (hr' : r'.sum = sum') :
    Keeps s (s1.setSub a r') := by
  refine ⟨?_, ?_, hmaps, ?_, hnid⟩
  · intro x hx
    unfold surplus
    rw [cmb_led_setSub, cmb_bal_setSub]
    by_cases e : a = x
    · subst e
      simp only [if_true, led, hr, hr']
      exact hself
    · simp only [if_neg e]
      have : led s1 x = led s x := by unfold led; rw [hsubs]
      rw [this]
      have := hother x hx (fun h => e h.symm)
      omega
  · intro h0 b rb hb
    unfold State.setSub at hb
    simp only [cmb_aget_aset] at hb
    split at hb
    · cases hb; rw [hr']; exact hnn (h0 a r hr)
    · rw [hsubs] at hb; exact h0 b rb hb
  · intro b
    unfold State.setSub
    simp only [cmb_aget_aset]
    split
    · rename_i e; subst e; simp [hr]
    · rw [hsubs]

-- ---------------------------------------------------------------------------------------------
-- create / top-up / withdraw unlocked

/-- every account summary lives at an address of the subaccount range -/
def InRange (s : State) : Prop := ∀ a, (aget s.subs a).isSome → SUB_BASE ≤ a

theorem InRange.of {s : State} (h : InRange s) {a : Nat} {r : SubRec} (hr : aget s.subs a = some r) : SUB_BASE ≤ a :=
  h a (by rw [hr]; rfl)

theorem cmb_topUp_keeps {s s' : State} {creator owner : Nat} {ls : List Sge.Subaccount.Lock} (hR : InRange s)
    (hc : creator < SUB_BASE) (h : topUpO s creator owner ls = some s') : Keeps s s' := by
  unfold topUpO at h
  simp only [bind, Option.bind_eq_some_iff, pure, Option.some.injEq] at h
  obtain ⟨_, _, total, _, a, ha, r, hr, _, _, s1, hs1, rfl⟩ := h
  obtain ⟨v0, hrecv, hsubs, hmaps, hnid, _⟩ := cmb_send_recv hs1
  have hra := hR.of hr
  apply cmb_keeps_update hr hsubs hmaps hnid (sum' := { r.sum with deposited := r.sum.deposited + total }) _ _ _ _ rfl
  · intro x hx hxa
    rw [hrecv x (by omega)]
    split <;> omega
  · rw [hrecv a (by omega)]
    simp only [if_true, Summary.available]
    omega
  · intro h0
    exact ⟨by have := h0.dep; show 0 ≤ r.sum.deposited + total; omega, h0.spent, h0.wd, h0.lost⟩

theorem cmb_withdrawUnlocked_keeps {s s' : State} {owner : Nat} (hR : InRange s) (ho : owner < SUB_BASE)
    (h : withdrawUnlockedO s owner = some s') : Keeps s s' := by
  unfold withdrawUnlockedO at h
  simp only [bind, Option.bind_eq_some_iff, pure, Option.some.injEq] at h
  obtain ⟨a, ha, r, hr, _, _, sum', hw, s1, hs1, rfl⟩ := h
  obtain ⟨v0, hrecv, hsubs, hmaps, hnid, hsrc⟩ := cmb_send_recv hs1
  have hra := hR.of hr
  obtain ⟨w0, w1, rfl⟩ := withdraw_some hw
  apply cmb_keeps_update hr hsubs hmaps hnid _ _ _ _ rfl
  · intro x hx hxa
    rw [hrecv x hxa]
    split <;> omega
  · rw [hsrc (by omega)]
    simp only [Summary.available]
    omega
  · intro h0
    exact ⟨h0.dep, h0.spent, by have := h0.wd; show 0 ≤ r.sum.withdrawn + _; omega, h0.lost⟩

theorem cmb_withdrawLocked_keeps {s s' : State} {a owner : Nat} {d : Int} (hR : InRange s) (ho : owner < SUB_BASE)
    (h : withdrawLockedO s a owner d = some s') : Keeps s s' := by
  unfold withdrawLockedO at h
  simp only [bind, Option.bind_eq_some_iff, pure, Option.some.injEq] at h
  obtain ⟨r, hr, _, _, s1, hs1, sum', hw, rfl⟩ := h
  obtain ⟨v0, hrecv, hsubs, hmaps, hnid, hsrc⟩ := cmb_send_recv hs1
  have hra := hR.of hr
  obtain ⟨w0, w1, rfl⟩ := withdraw_some hw
  apply cmb_keeps_update hr hsubs hmaps hnid _ _ _ _ rfl
  · intro x hx hxa
    rw [hrecv x hxa]
    split <;> omega
  · rw [hsrc (by omega)]
    simp only [Summary.available]
    omega
  · intro h0
    exact ⟨h0.dep, h0.spent, by have := h0.wd; show 0 ≤ r.sum.withdrawn + _; omega, h0.lost⟩

theorem cmb_returnToSub_keeps {s s' : State} {a owner : Nat} {v : Int} (hR : InRange s) (ho : owner < SUB_BASE)
    (h : returnToSubO s a owner v = some s') : Keeps s s' := by
  unfold returnToSubO at h
  split at h
  · cases h; exact Keeps.refl _
  · rename_i hv
    simp only [bind, Option.bind_eq_some_iff, pure, Option.some.injEq] at h
    obtain ⟨r, hr, _, hle, s1, hs1, rfl⟩ := h
    have hle := of_decide_eq_true (cmb_chk_true hle)
    obtain ⟨v0, hrecv, hsubs, hmaps, hnid, _⟩ := cmb_send_recv hs1
    have hra := hR.of hr
    apply cmb_keeps_update hr hsubs hmaps hnid (sum' := { r.sum with withdrawn := r.sum.withdrawn - v }) _ _ _ _ rfl
    · intro x hx hxa
      rw [hrecv x (by omega)]
      split <;> omega
    · rw [hrecv a (by omega)]
      simp only [if_true, Summary.available]
      omega
    · intro h0
      exact ⟨h0.dep, h0.spent, by show 0 ≤ r.sum.withdrawn - v; omega, h0.lost⟩

-- ---------------------------------------------------------------------------------------------
-- the three handlers that call into the core

/-- a change of the core component that does not lower any balance of the subaccount range -/
theorem cmb_keeps_core {s : State} {c : Core.State}
    (h : ∀ x, SUB_BASE ≤ x → getBal s.core.bal x ≤ getBal c.bal x) : Keeps s { s with core := c } := by
  refine ⟨?_, fun h0 => h0, Maps.refl _, fun _ => rfl, rfl⟩
  intro x hx
  unfold surplus
  have : led { s with core := c } x = led s x := rfl
  rw [this]
  have := h x hx
  show getBal s.core.bal x - _ ≤ getBal c.bal x - _
  omega

theorem cmb_subWagerBet_keeps {s s' : State} {owner : Nat} {tk : Tk} {uid : Nat} {amount : Int} {pl : WagerPayload}
    (ho : isUser owner) (h : subWagerBet s owner tk uid amount pl = some s') : Keeps s s' := by
  unfold subWagerBet at h
  cases hc : wagerO s.core owner tk uid amount pl with
  | none => simp [hc] at h
  | some c =>
    simp only [hc, Option.map_some, Option.some.injEq] at h
    subst h
    obtain ⟨ch, _, _, hoth⟩ := cmb_wagerO_bal hc ho.2
    apply cmb_keeps_core
    intro x hx
    rw [hoth x (by have := ho.1; omega) (cmb_range_notModule hx)]
    exact Int.le_refl _

theorem cmb_keeps_inRange {s s' : State} (k : Keeps s s') (hR : InRange s) : InRange s' := by
  intro a ha
  rw [k.dom a] at ha
  exact hR a ha

theorem cmb_subWager_keeps {s s' : State} {owner : Nat} {outerOk : Bool} {ic : Nat} {main sub : Int} {tk : Tk} {uid : Nat}
    {amount : Int} {pl : WagerPayload} (hR : InRange s) (hU : ∀ o a, aget s.owners o = some a → isUser o)
    (h : subWagerO s owner outerOk ic main sub tk uid amount pl = some s') : Keeps s s' := by
  unfold subWagerO at h
  simp only [bind, Option.bind_eq_some_iff, pure, Option.some.injEq] at h
  obtain ⟨_, _, a, ha, _, _, _, _, _, _, _, _, _, _, s1, hs1, s2, hs2, h3⟩ := h
  have ho := hU owner a ha
  have k1 := cmb_withdrawLocked_keeps hR ho.1 hs1
  have k2 := cmb_subWagerBet_keeps ho hs2
  have k3 := cmb_returnToSub_keeps (cmb_keeps_inRange (k1.trans k2) hR) ho.1 h3
  exact (k1.trans k2).trans k3

theorem cmb_putGrant_bal (c : Core.State) (g e k : Nat) (l : Int) :
    (putGrant c g e k l).bal = c.bal ∧ (putGrant c g e k l).deposits = c.deposits ∧ (putGrant c g e k l).books = c.books :=
  ⟨rfl, rfl, rfl⟩

theorem cmb_subDeposit_keeps {s s' : State} {owner : Nat} {tk : Tk} {market : Nat} {amount : Int} {pd : Nat}
    (hR : InRange s) (hU : ∀ o a, aget s.owners o = some a → isUser o)
    (h : subDepositO s owner tk market amount pd = some s') : Keeps s s' := by
  unfold subDepositO at h
  simp only [bind, Option.bind_eq_some_iff, pure, Option.some.injEq] at h
  obtain ⟨_, _, a, ha, r, hr, _, _, sum', hsp, c, hc, rfl⟩ := h
  have ho := hU owner a ha
  have hra := hR.of hr
  obtain ⟨p0, p1, rfl⟩ := spend_some hsp
  unfold subDepositCore at hc
  cases hd : houseDepositO (putGrant s.core a owner 0 amount) owner (tkWith tk (tk.kycOk owner)) market amount a with
  | none => simp [hd] at hc
  | some res =>
    simp only [hd, Option.map_some, Option.some.injEq] at hc
    have hdf : depositFor owner a = a := by
      unfold depositFor
      have h1 : (a != 0) = true := by have := cmb_SUB_BASE_pos; simp; omega
      have h2 : (a != owner) = true := by simp; have := ho.1; omega
      simp [h1, h2]
    obtain ⟨hself, hoth⟩ := cmb_houseDepositO_bal hd (by rw [hdf]; exact cmb_range_notModule hra)
    rw [hdf, hc] at hself
    rw [hc] at hoth
    apply cmb_keeps_update (s1 := { s with core := c }) hr rfl (Maps.refl _) rfl _ _ _ _ rfl
    · intro x hx hxa
      show getBal s.core.bal x ≤ getBal c.bal x
      rw [hoth x (by rw [hdf]; exact hxa) (cmb_range_notModule hx)]
      exact Int.le_refl _
    · show getBal s.core.bal a - _ ≤ getBal c.bal a - _
      rw [hself]
      simp only [Summary.available]
      have : getBal (putGrant s.core a owner 0 amount).bal a = getBal s.core.bal a := rfl
      omega
    · intro h0
      exact ⟨h0.dep, by have := h0.spent; show 0 ≤ r.sum.spent + amount; omega, h0.wd, h0.lost⟩

theorem cmb_subWithdraw_keeps {s s' : State} {owner : Nat} {tk : Tk} {market idx mode : Nat} {amount : Int} {pd : Nat}
    (hR : InRange s) (h : subWithdrawO s owner tk market idx mode amount pd = some s') : Keeps s s' := by
  unfold subWithdrawO at h
  simp only [bind, Option.bind_eq_some_iff, pure, Option.some.injEq] at h
  obtain ⟨a, ha, r, hr, w, hw, c, hc, sum', hus, rfl⟩ := h
  have hra := hR.of hr
  obtain ⟨u0, u1, rfl⟩ := unspend_some hus
  unfold subWithdrawCore at hc
  have hane : (a != 0) = true := by have := cmb_SUB_BASE_pos; simp; omega
  obtain ⟨d, b, w', hd, hb, hw', w0, hself, hoth⟩ :=
    cmb_houseWithdrawO_bal hc (by simp only [hane, if_true]; exact cmb_range_notModule hra)
  simp only [hane, if_true] at hd hw' hself hoth
  -- the amount computed by the handler is the one computed beforehand
  have hww : w' = w := by
    unfold subWithdrawAmount at hw
    simp only [bind, Option.bind_eq_some_iff] at hw
    obtain ⟨d1, hd1, b1, hb1, hw1⟩ := hw
    have e1 : lookup Deposit.key [a, market, idx] (putGrant s.core a owner 1 w).deposits = lookup Deposit.key [a, market, idx] s.core.deposits := rfl
    have e2 : getBook (putGrant s.core a owner 1 w) market = getBook s.core market := rfl
    rw [e1, hd1] at hd
    rw [e2, hb1] at hb
    cases hd; cases hb
    rw [hw1] at hw'
    exact (Option.some.inj hw').symm
  subst hww
  apply cmb_keeps_update (s1 := { s with core := c }) hr rfl (Maps.refl _) rfl _ _ _ _ rfl
  · intro x hx hxa
    show getBal s.core.bal x ≤ getBal c.bal x
    rw [hoth x hxa (cmb_range_notModule hx)]
    exact Int.le_refl _
  · show getBal s.core.bal a - _ ≤ getBal c.bal a - _
    rw [hself]
    simp only [Summary.available]
    have : getBal (putGrant s.core a owner 1 w').bal a = getBal s.core.bal a := rfl
    omega
  · intro h0
    exact ⟨h0.dep, by show 0 ≤ r.sum.spent - w'; omega, h0.wd, h0.lost⟩

end Sge.Combined
