/- every message (everything except the end-block) preserves the settlement facts `SInv` -/
import SgeProofs.Lemmas.CustodySettleDefs
namespace Sge.Core
open Sge Sge.Genesis

/-- how a message may change a stored book: uid and status stay; a participation is fresh (unpaid, no realised
    profit) or keeps the paid flag and the realised profit of a participation of the old book -/
def BookEvolves (s : State) (b' : Book) : Prop :=
  ∃ b ∈ s.books, b'.uid = b.uid ∧ b'.status = b.status ∧
    ∀ q ∈ b'.parts, (q.isSettled = false ∧ q.actualProfit = 0) ∨
      ∃ q0 ∈ b.parts, q.isSettled = q0.isSettled ∧ q.actualProfit = q0.actualProfit

/-- a book as created by MsgAdd -/
def BookFresh (b' : Book) : Prop := b'.status = OB_ACTIVE ∧ b'.parts = []

theorem BookEvolves.refl {s : State} {b : Book} (hb : b ∈ s.books) : BookEvolves s b :=
  ⟨b, hb, rfl, rfl, fun q hq => Or.inr ⟨q, hq, rfl, rfl⟩⟩

theorem active_not_resolved {m : Market} (h : m.status = MS_ACTIVE) (hr : m.resolved) : False := by
  unfold Market.resolved isOpenStatus at hr
  rw [h] at hr
  revert hr
  decide

/-- the common argument for all messages: resolved markets are frozen, books evolve or are fresh, the market queue
    only gains resolved markets, and at most one new bet `nb` appears — open, on an active market, with a fresh id
    and its pending entry -/
theorem SInv.message {s s' : State} (nb : Option Bet) (h : SInv s)
    (hfrozen : ∀ uid m, getMarket s uid = some m → m.resolved → getMarket s' uid = some m)
    (hbooks : ∀ b' ∈ s'.books, BookFresh b' ∨ BookEvolves s b')
    (hq : ∀ u ∈ s'.mqueue, u ∈ s.mqueue ∨ ∃ m, getMarket s' u = some m ∧ m.resolved)
    (hcre : ∀ m ∈ s'.markets, isModuleAcc m.creator = false)
    (hbets : ∀ x ∈ s'.bets, x ∈ s.bets ∨ nb = some x)
    (hpend : ∀ y ∈ s.bets, (y.market, y.id, y.uid, y.creator) ∈ s.pending → (y.market, y.id, y.uid, y.creator) ∈ s'.pending)
    (hnb : ∀ x, nb = some x → x.amount = sumBet x.fulfs ∧ isModuleAcc x.creator = false ∧
       (∃ m, getMarket s x.market = some m ∧ m.status = MS_ACTIVE) ∧ (∀ y ∈ s.bets, y.id ≠ x.id) ∧
       (x.market, x.id, x.uid, x.creator) ∈ s'.pending) : SInv s' := by
  obtain ⟨k1, k2, k3, k4, k5, k6, k7, k8, k9, k10⟩ := h
  refine ⟨?_, ?_, ?_, ?_, ?_, ?_, ?_, ?_, hcre, ?_⟩
  · intro x hx hxo
    rcases hbets x hx with hx | hx
    · exact hpend x hx (k1 x hx hxo)
    · exact (hnb x hx).2.2.2.2
  · intro x hx y hy hxy
    rcases hbets x hx with hx | hx
    · rcases hbets y hy with hy | hy
      · exact k2 x hx y hy hxy
      · exact absurd hxy ((hnb y hy).2.2.2.1 x hx)
    · rcases hbets y hy with hy | hy
      · exact absurd hxy.symm ((hnb x hx).2.2.2.1 y hy)
      · rw [hx] at hy; cases hy; rfl
  · intro b' hb' hst x hx hxm
    rcases hbooks b' hb' with hf | ⟨b, hb, hu, hs, _⟩
    · exact absurd hf.1 hst
    · have hst0 : b.status ≠ OB_ACTIVE := by rw [← hs]; exact hst
      rcases hbets x hx with hx | hx
      · exact k3 b hb hst0 x hx (by rw [hxm, hu])
      · exfalso
        obtain ⟨m, hm, hma⟩ := (hnb x hx).2.2.1
        obtain ⟨m', hm', hr⟩ := k5 b hb hst0
        rw [← hu, ← hxm, hm] at hm'
        cases hm'
        exact active_not_resolved hma hr
  · intro b' hb' q hq hqs
    rcases hbooks b' hb' with hf | ⟨b, hb, hu, hs, hp⟩
    · rw [hf.2] at hq; cases hq
    · rcases hp q hq with ⟨h0, _⟩ | ⟨q0, hq0, e, _⟩
      · rw [h0] at hqs; cases hqs
      · rw [hs]; exact k4 b hb q0 hq0 (by rw [← e]; exact hqs)
  · intro b' hb' hst
    rcases hbooks b' hb' with hf | ⟨b, hb, hu, hs, _⟩
    · exact absurd hf.1 hst
    · obtain ⟨m, hm, hr⟩ := k5 b hb (by rw [← hs]; exact hst)
      exact ⟨m, by rw [hu]; exact hfrozen _ _ hm hr, hr⟩
  · intro u hu
    rcases hq u hu with hu | hu
    · obtain ⟨m, hm, hr⟩ := k6 u hu
      exact ⟨m, hfrozen _ _ hm hr, hr⟩
    · exact hu
  · intro x hx
    rcases hbets x hx with hx | hx
    · exact k7 x hx
    · exact (hnb x hx).1
  · intro x hx
    rcases hbets x hx with hx | hx
    · exact k8 x hx
    · exact (hnb x hx).2.1
  · intro b' hb' q hq hne
    rcases hbooks b' hb' with hf | ⟨b, hb, hu, hs, hp⟩
    · rw [hf.2] at hq; cases hq
    · rcases hp q hq with ⟨_, h0⟩ | ⟨q0, hq0, _, e⟩
      · exact absurd h0 hne
      · obtain ⟨m, hm, hd⟩ := k10 b hb q0 hq0 (by rw [← e]; exact hne)
        exact ⟨m, by rw [hu]; exact hfrozen _ _ hm (declared_resolved hd), hd⟩

/-- messages that place no bet -/
theorem SInv.message0 {s s' : State} (h : SInv s)
    (hfrozen : ∀ uid m, getMarket s uid = some m → m.resolved → getMarket s' uid = some m)
    (hbooks : ∀ b' ∈ s'.books, BookFresh b' ∨ BookEvolves s b')
    (hq : ∀ u ∈ s'.mqueue, u ∈ s.mqueue ∨ ∃ m, getMarket s' u = some m ∧ m.resolved)
    (hcre : ∀ m ∈ s'.markets, isModuleAcc m.creator = false)
    (hbets : s'.bets = s.bets) (hpend : s'.pending = s.pending) : SInv s' :=
  SInv.message none h hfrozen hbooks hq hcre (fun x hx => Or.inl (by rw [← hbets]; exact hx))
    (fun y _ hy => by rw [hpend]; exact hy) (fun x hx => by cases hx)

theorem isResolved_not_open {st : Nat} (h : isResolvedStatus st = true) : isOpenStatus st = false := by
  unfold isResolvedStatus at h
  unfold isOpenStatus
  simp only [Bool.or_eq_true, beq_iff_eq] at h
  rcases h with (h | h) | h <;> rw [h] <;> decide

-- ---------------------------------------------------------------------------------------------
-- the market messages

theorem marketAddO_sinv {s s' : State} {c : Nat} {tk : Tk} {u st en : Nat} {o : List Nat} {stt : Nat}
    (hI : SInv s) (h : marketAddO s c tk u st en o stt = some s') (hu : isModuleAcc c = false)
    (hfrozen : ∀ uid m, getMarket s uid = some m → m.resolved → getMarket s' uid = some m) : SInv s' := by
  unfold marketAddO at h
  simp only [bind, Option.bind_eq_some_iff, pure, Option.some.injEq] at h
  obtain ⟨_, _, _, _, _, _, _, _, _, _, _, _, _, _, rfl⟩ := h
  refine SInv.message0 hI hfrozen ?_ (fun u hu => Or.inl hu) ?_ rfl rfl
  · intro b' hb'
    rcases mem_upsert_or Book.key _ b' s.books hb' with rfl | hb'
    · exact Or.inl ⟨rfl, rfl⟩
    · exact Or.inr (BookEvolves.refl hb')
  · intro m hm
    rcases mem_upsert_or Market.key _ m s.markets hm with rfl | hm
    · exact hu
    · exact hI.creatorsUser m hm

theorem marketUpdateO_sinv {s s' : State} {tk : Tk} {u st en stt : Nat}
    (hI : SInv s) (h : marketUpdateO s tk u st en stt = some s')
    (hfrozen : ∀ uid m, getMarket s uid = some m → m.resolved → getMarket s' uid = some m) : SInv s' := by
  unfold marketUpdateO at h
  simp only [bind, Option.bind_eq_some_iff, pure, Option.some.injEq] at h
  obtain ⟨_, _, m0, hm0, _, _, _, _, _, _, rfl⟩ := h
  refine SInv.message0 hI hfrozen (fun b' hb' => Or.inr (BookEvolves.refl hb')) (fun u hu => Or.inl hu) ?_ rfl rfl
  intro m hm
  rcases mem_upsert_or Market.key _ m s.markets hm with rfl | hm
  · exact hI.creatorsUser m0 (getMarket_mem hm0)
  · exact hI.creatorsUser m hm

theorem marketResolveO_sinv {s s' : State} {tk : Tk} {u ts stt : Nat} {w : List Nat}
    (hI : SInv s) (h : marketResolveO s tk u ts stt w = some s')
    (hfrozen : ∀ uid m, getMarket s uid = some m → m.resolved → getMarket s' uid = some m) : SInv s' := by
  obtain ⟨m1, _, _, hrs, _, hnew⟩ := c07_resolve h
  unfold marketResolveO at h
  simp only [bind, Option.bind_eq_some_iff, pure, Option.some.injEq] at h
  obtain ⟨_, _, _, _, m0, hm0, _, _, _, _, rfl⟩ := h
  refine SInv.message0 hI hfrozen (fun b' hb' => Or.inr (BookEvolves.refl hb')) ?_ ?_ rfl rfl
  · intro x hx
    have hx : x ∈ s.mqueue ++ [u] := hx
    rcases List.mem_append.mp hx with hx | hx
    · exact Or.inl hx
    · right
      have : x = u := by simpa using hx
      subst this
      exact ⟨_, hnew, isResolved_not_open hrs⟩
  · intro m hm
    rcases mem_upsert_or Market.key _ m s.markets hm with rfl | hm
    · exact hI.creatorsUser m0 (getMarket_mem hm0)
    · exact hI.creatorsUser m hm

-- ---------------------------------------------------------------------------------------------
-- the house messages

theorem houseDepositO_sinv {s : State} {r : State × Nat} {c : Nat} {tk : Tk} {m : Nat} {a : Int} {pd : Nat}
    (hI : SInv s) (h : houseDepositO s c tk m a pd = some r) : SInv r.1 := by
  unfold houseDepositO at h
  simp only [bind, Option.bind_eq_some_iff, pure, Option.some.injEq] at h
  obtain ⟨_, _, _, _, _, _, s1, hs1, _, _, mk, _, b, hb, _, _, _, _, _, _, _, _, s2, hs2, s3, hs3, rfl⟩ := h
  obtain ⟨gs, rfl⟩ := grantStep_shape hs1
  obtain ⟨_, _, rfl⟩ := bankSend_shape hs2
  obtain ⟨_, _, rfl⟩ := bankSend_shape hs3
  have hb : getBook s m = some b := hb
  obtain ⟨hbm, hbu⟩ := getBook_mem hb
  refine SInv.message0 hI (fun uid m0 h0 _ => h0) ?_ (fun u hu => Or.inl hu) hI.creatorsUser rfl rfl
  intro b' hb'
  right
  rcases mem_upsert_or Book.key _ b' s.books hb' with rfl | hb'
  · obtain ⟨e1, e2, e3⟩ := addParticipation_shape b (depositFor c pd) (a - (s.params.houseFee.mulInt a).roundInt)
      (s.params.houseFee.mulInt a).roundInt
    refine ⟨b, hbm, e1, e2, ?_⟩
    intro q hq
    rw [e3] at hq
    rcases mem_upsert_or Part.key _ q b.parts hq with rfl | hq
    · exact Or.inl ⟨rfl, rfl⟩
    · exact Or.inr ⟨q, hq, rfl, rfl⟩
  · exact BookEvolves.refl hb'

theorem houseWithdrawO_sinv {s s' : State} {c : Nat} {tk : Tk} {m i md : Nat} {a : Int} {pd : Nat}
    (hI : SInv s) (h : houseWithdrawO s c tk m i md a pd = some s') : SInv s' := by
  unfold houseWithdrawO at h
  simp only [bind, Option.bind_eq_some_iff, pure, Option.some.injEq] at h
  obtain ⟨_, _, _, _, _, _, _, _, _, _, d, _, b, hb, _, _, w, hw, s1, hs1, p, hpp, s2, hs2, b', hb', rfl⟩ := h
  obtain ⟨gs, rfl⟩ := grantStep_shape hs1
  obtain ⟨_, _, rfl⟩ := bankSend_shape hs2
  obtain ⟨hbm, hbu⟩ := getBook_mem hb
  obtain ⟨e1, e2, e3⟩ := withdraw_shape hpp hb'
  refine SInv.message0 hI (fun uid m0 h0 _ => h0) ?_ (fun u hu => Or.inl hu) hI.creatorsUser rfl rfl
  intro x hx
  right
  rcases mem_upsert_or Book.key _ x s.books hx with rfl | hx
  · refine ⟨b, hbm, e1, e2, ?_⟩
    intro q hq
    rw [e3] at hq
    rcases mem_upsert_or Part.key _ q b.parts hq with rfl | hq
    · exact Or.inr ⟨p, getPart_mem hpp, rfl, rfl⟩
    · exact Or.inr ⟨q, hq, rfl, rfl⟩
  · exact BookEvolves.refl hx

-- ---------------------------------------------------------------------------------------------
-- MsgWager

theorem wagerO_sinv {s s' : State} {c : Nat} {tk : Tk} {u : Nat} {a : Int} {pl : WagerPayload}
    (hC : CustI s) (hI : SInv s) (h : wagerO s c tk u a pl = some s') (hu : isModuleAcc c = false) : SInv s' := by
  unfold wagerO at h
  simp only [bind, Option.bind_eq_some_iff, pure, Option.some.injEq] at h
  obtain ⟨_, _, _, _, _, _, _, _, _, _, _, _, _, _, m, hm, _, hact, _, _, _, _, _, _, _, _, _, _, ov, _, _, _, b, hb, r, hr,
    s1, hs1, s2, hs2, rfl⟩ := h
  obtain ⟨b', fulfs, taken⟩ := r
  obtain ⟨_, _, rfl⟩ := bankSend_shape hs1
  obtain ⟨_, _, rfl⟩ := bankSend_shape hs2
  have hact : m.status = MS_ACTIVE := by simpa using chk_some hact
  obtain ⟨hbm, hbu⟩ := getBook_mem hb
  obtain ⟨_, _, _, hbu', hfrom⟩ := processWager_custody _ _ _ _ _ _ _ _ _ _ _ _ _ (hC.sortedParts b hbm) hr
  have hst := processWager_status _ _ _ _ _ _ _ _ _ _ _ _ _ hr
  have hids := hC.betIds
  refine SInv.message (some (newBet s c u pl ov fulfs)) hI (fun uid m0 h0 _ => h0) ?_ (fun u hu => Or.inl hu)
    hI.creatorsUser ?_ ?_ ?_
  · intro x hx
    right
    rcases mem_upsert_or Book.key _ x s.books hx with rfl | hx
    · refine ⟨b, hbm, hbu', hst, ?_⟩
      intro q hq
      obtain ⟨q0, hq0, hc⟩ := hfrom q hq
      exact Or.inr ⟨q0, hq0, hc.2.2.2.2.1, hc.2.2.1⟩
    · exact BookEvolves.refl hx
  · intro x hx
    rcases mem_upsert_or Bet.key _ x s.bets hx with rfl | hx
    · exact Or.inr rfl
    · exact Or.inl hx
  · intro y hy hyp
    refine mem_upsert_of_ne _ _ _ _ hyp ?_
    have := hids y hy
    have hne : y.id ≠ s.betCount + 1 := by omega
    simp [hne]
  · intro x hx
    simp only [Option.some.injEq] at hx
    subst hx
    refine ⟨rfl, hu, ⟨m, hm, hact⟩, ?_, ?_⟩
    · intro y hy
      have := hids y hy
      show y.id ≠ s.betCount + 1
      omega
    · exact mem_upsert_self _ _ _

end Sge.Core
