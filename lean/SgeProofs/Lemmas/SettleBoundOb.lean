/-
  C05 bounded progress, part 3: the exact accounting of the order-book end-blocker (BatchOrderBookSettlements):
  one run with budget `n` is a FIFO `Batch` on the order-book queue for the measure "unpaid participations of the
  book".
-/
import SgeProofs.Lemmas.SettleBoundBet
namespace Sge.Core
open Sge Sge.Genesis

/-- settleParticipation: only balances change in the state; the participation is written back as paid -/
theorem settlePart_shapeSB {s : State} {b : Book} {p : Part} {m : Market} {r : State × Book}
    (h : settlePart s b p m = some r) :
    p.isSettled = false ∧ ∃ bal p', r = ({ s with bal := bal }, b.setPart p') ∧ p'.idx = p.idx ∧ p'.isSettled = true := by
  unfold settlePart at h
  simp only [bind, Option.bind_eq_some_iff] at h
  obtain ⟨_, h1, _, _, s1, hs1, h⟩ := h
  have h1 := chk_some h1
  obtain ⟨bal1, _, rfl⟩ := bankSend_shape hs1
  refine ⟨by simpa using h1, ?_⟩
  split at h
  · simp only [Option.bind_eq_some_iff, pure, Option.some.injEq] at h
    obtain ⟨s2, h2, rfl⟩ := h
    obtain ⟨bal2, _, rfl⟩ := bankSend_shape h2
    exact ⟨bal2, _, rfl, rfl, rfl⟩
  · simp only [Option.bind_eq_some_iff, pure, Option.some.injEq] at h
    obtain ⟨s2, h2, rfl⟩ := h
    obtain ⟨bal2, _, rfl⟩ := bankSend_shape h2
    exact ⟨bal2, _, rfl, rfl, rfl⟩

/-- one step of the participation loop -/
theorem settleOne_shape {s : State} {b : Book} {p : Part} {m : Market} {sc : Nat} {r : State × Book × Nat}
    (h : settleOne s b p m sc = some r) :
    (p.isSettled = true ∧ r = (s, b, sc)) ∨
    (p.isSettled = false ∧ ∃ bal p', r = ({ s with bal := bal }, b.setPart p', sc + 1) ∧ p'.idx = p.idx ∧ p'.isSettled = true) := by
  unfold settleOne at h
  split at h
  · rename_i hp
    simp only [Option.map_eq_some_iff] at h
    obtain ⟨x, hx, rfl⟩ := h
    obtain ⟨h0, bal, p', rfl, e1, e2⟩ := settlePart_shapeSB hx
    exact Or.inr ⟨h0, bal, p', rfl, e1, e2⟩
  · rename_i hp
    simp only [Option.some.injEq] at h
    exact Or.inl ⟨by simpa using hp, h.symm⟩

/-- C05: the participation loop over (a suffix `ps` of) the participations of book `b`, exactly.
    Only balances change in the state; uid and status of the book stay; the number of unpaid participations drops by
    the number paid here, `r.sc - sc`, which never exceeds the budget. Either the loop walked all of `ps` — then it
    paid every unpaid participation of `ps` — or it stopped early, and then exactly because the budget was used up. -/
theorem settleParts_count (m : Market) (count : Nat) : ∀ (ps : List Part) (s : State) (b : Book) (sc pr : Nat)
    (r : State × Book × Nat × Nat), settleParts m count ps s b sc pr = some r →
    Sorted Part.key b.parts → Sorted Part.key ps → (∀ q ∈ ps, b.getPart q.idx = some q) → sc < count →
    (∃ bal, r.1 = { s with bal := bal }) ∧ r.2.1.uid = b.uid ∧ r.2.1.status = b.status ∧ Sorted Part.key r.2.1.parts ∧
    r.2.1.unpaid + (r.2.2.1 - sc) = b.unpaid ∧ sc ≤ r.2.2.1 ∧ r.2.2.1 ≤ count ∧
    ((r.2.2.2 = pr + ps.length ∧ r.2.2.1 - sc = ps.countP (fun p => !p.isSettled)) ∨
     (r.2.2.2 < pr + ps.length ∧ r.2.2.1 = count)) := by
  intro ps
  induction ps with
  | nil =>
    intro s b sc pr r h hs _ _ hlt
    simp only [settleParts, Option.some.injEq] at h
    subst h
    exact ⟨⟨s.bal, rfl⟩, rfl, rfl, hs, by simp, Nat.le_refl _, by simp; omega, Or.inl ⟨by simp, by simp⟩⟩
  | cons p rest ih =>
    intro s b sc pr r h hs hps hget hlt
    unfold settleParts at h
    simp only [bind, Option.bind_eq_some_iff] at h
    obtain ⟨r1, h1, h⟩ := h
    have hps' := hps
    unfold Sorted at hps'
    rw [List.pairwise_cons] at hps'
    have hp := hget p (List.mem_cons_self ..)
    rcases settleOne_shape h1 with ⟨hset, rfl⟩ | ⟨hun, bal, p', rfl, hi, hpaid⟩
    · -- already paid: skipped
      have hnot : ¬ (sc ≥ count) := by omega
      simp only [hnot, if_false] at h
      obtain ⟨a1, a2, a3, a4, a5, a6, a7, a8⟩ := ih s b sc (pr + 1) r h hs hps'.2
        (fun q hq => hget q (List.mem_cons_of_mem _ hq)) hlt
      refine ⟨a1, a2, a3, a4, a5, a6, a7, ?_⟩
      simp only [List.length_cons, List.countP_cons, hset]
      rcases a8 with ⟨b1, b2⟩ | ⟨b1, b2⟩
      · exact Or.inl ⟨by omega, by simpa using b2⟩
      · exact Or.inr ⟨by omega, b2⟩
    · -- paid now
      have hp' : b.getPart p'.idx = some p := by rw [hi]; exact hp
      have hdrop := setPart_paid b p p' hs hp' hun hpaid
      have hs1 : Sorted Part.key (b.setPart p').parts := upsert_sorted Part.key _ b.parts hs
      split at h
      · rename_i hge
        simp only [pure, Option.some.injEq] at h
        subst h
        have hge : sc + 1 ≥ count := hge
        refine ⟨⟨bal, rfl⟩, rfl, rfl, hs1, ?_, ?_, ?_, ?_⟩
        · show (b.setPart p').unpaid + (sc + 1 - sc) = b.unpaid
          omega
        · show sc ≤ sc + 1
          omega
        · show sc + 1 ≤ count
          omega
        · show (pr + 1 = pr + (p :: rest).length ∧ sc + 1 - sc = (p :: rest).countP _) ∨
            (pr + 1 < pr + (p :: rest).length ∧ sc + 1 = count)
          cases rest with
          | nil => exact Or.inl ⟨by simp, by simp [hun]⟩
          | cons q qs => exact Or.inr ⟨by simp, by omega⟩
      · rename_i hge
        have hge : ¬ (sc + 1 ≥ count) := hge
        have hget1 : ∀ q ∈ rest, (b.setPart p').getPart q.idx = some q := by
          intro q hq
          rw [Book.getPart_setPart_ne b p' q.idx]
          · exact hget q (List.mem_cons_of_mem _ hq)
          · rw [hi]
            intro e
            have hlt' := hps'.1 q hq
            have := ltL_ne _ _ hlt'
            simp [Part.key, e] at this
        obtain ⟨⟨bal2, a1⟩, a2, a3, a4, a5, a6, a7, a8⟩ := ih { s with bal := bal } (b.setPart p') (sc + 1) (pr + 1) r h hs1
          hps'.2 hget1 (by omega)
        refine ⟨⟨bal2, a1⟩, a2, a3, a4, by omega, by omega, a7, ?_⟩
        simp only [List.length_cons, List.countP_cons, hun]
        rcases a8 with ⟨b1, b2⟩ | ⟨b1, b2⟩
        · exact Or.inl ⟨by omega, by simp; omega⟩
        · exact Or.inr ⟨by omega, b2⟩

theorem obEndBlock_zero (fuel : Nat) (s : State) (i : Nat) : obEndBlock fuel s 0 i = some s := by
  cases fuel <;> simp [obEndBlock]

/-- how the order-book end-blocker changes the books: the books `D` that were finished go from RESOLVED to SETTLED
    with every participation paid; every other book keeps its status; no book gains unpaid participations -/
structure ObBooks (s s' : State) (D : List Nat) : Prop where
  status : ∀ u, u ∉ D → statusOf s' u = statusOf s u
  settled : ∀ u ∈ D, statusOf s u = some OB_RESOLVED ∧ statusOf s' u = some OB_SETTLED ∧ unpaidOf s' u = 0
  mono : ∀ u, unpaidOf s' u ≤ unpaidOf s u

theorem ObBooks.refl (s : State) : ObBooks s s [] :=
  ⟨fun _ _ => rfl, (fun _ h => nomatch h), fun _ => Nat.le_refl _⟩

/-- reading status / unpaid count of a book after one book was written back -/
theorem statusOf_setBook (s : State) (B : Book) (u : Nat) :
    statusOf (setBook s B) u = if u = B.uid then some B.status else statusOf s u := by
  unfold statusOf
  by_cases e : u = B.uid
  · subst e; simp [getBook_setBook_selfSB]
  · simp only [e, if_false]
    rw [getBook_setBook_neSB _ _ _ (Ne.symm e)]

theorem unpaidOf_setBook (s : State) (B : Book) (u : Nat) :
    unpaidOf (setBook s B) u = if u = B.uid then B.unpaid else unpaidOf s u := by
  unfold unpaidOf
  by_cases e : u = B.uid
  · subst e; simp [getBook_setBook_selfSB]
  · simp only [e, if_false]
    rw [getBook_setBook_neSB _ _ _ (Ne.symm e)]

theorem getElem?_zero_some {l : List Nat} {x : Nat} (h : l[0]? = some x) : ∃ R, l = x :: R := by
  cases l with
  | nil => simp at h
  | cons y ys => simp at h; exact ⟨ys, by rw [h]⟩

/-- C05: BatchOrderBookSettlements with budget `n` is one FIFO batch on the order-book queue for the measure "unpaid
    participations of the book"; the finished books `D` become SETTLED with all participations paid; market queue,
    pending index and parameters are untouched. (The loop index of the Go code never leaves 0 while budget is left:
    it is only advanced after a book that used the budget up.) -/
theorem obEndBlock_batch : ∀ (fuel : Nat) (s : State) (n : Nat) (s' : State),
    (∀ b ∈ s.books, Sorted Part.key b.parts) → s.obqueue.Nodup → s.obqueue.length < fuel →
    obEndBlock fuel s n 0 = some s' →
    ∃ D, Batch s.obqueue s'.obqueue (unpaidOf s) (unpaidOf s') n D ∧ ObBooks s s' D ∧
      s'.mqueue = s.mqueue ∧ s'.pending = s.pending ∧ s'.params = s.params := by
  intro fuel
  induction fuel with
  | zero => intro s n s' _ _ hf _; omega
  | succ fuel ih =>
    intro s n s' hsp hnd hf h
    unfold obEndBlock at h
    split at h
    · rename_i hn
      simp only [Option.some.injEq] at h
      subst h; subst hn
      exact ⟨[], Batch.zero _ _, ObBooks.refl s, rfl, rfl, rfl⟩
    · rename_i hn
      split at h
      · rename_i hq
        simp only [Option.some.injEq] at h
        subst h
        have : s.obqueue = [] := by
          cases hl : s.obqueue with
          | nil => rfl
          | cons y ys => rw [hl] at hq; simp at hq
        rw [this]
        exact ⟨[], Batch.empty _ _, ObBooks.refl s, rfl, rfl, rfl⟩
      · rename_i uid hq
        obtain ⟨R, hqR⟩ := getElem?_zero_some hq
        simp only [bind, Option.bind_eq_some_iff] at h
        obtain ⟨b, hb, m, _, _, hres, r, hr, h⟩ := h
        have hres : b.status = OB_RESOLVED := by simpa using chk_some hres
        obtain ⟨hbm, hbu⟩ := getBook_mem hb
        have hsb := hsp b hbm
        have hnd' := hnd
        rw [hqR, List.nodup_cons] at hnd'
        obtain ⟨s1, b1, sc, pr⟩ := r
        have hc := settleParts_count m n b.parts s b 0 0 (s1, b1, sc, pr) hr hsb hsb
          (fun q hq => lookup_of_mem_sorted Part.key q b.parts hsb hq) (by omega)
        dsimp only at hc h
        obtain ⟨⟨bal, a1⟩, a2, a3, a4, a5, _, a7, a8⟩ := hc
        subst a1
        have hw : unpaidOf s uid = b.unpaid := by unfold unpaidOf; rw [hb]
        have hst0 : statusOf s uid = some OB_RESOLVED := by unfold statusOf; rw [hb]; simp [hres]
        split at h
        · -- the book is finished
          rename_i hfin
          have hfin : pr = b.parts.length := by simpa using hfin
          simp only [Option.bind_eq_some_iff] at h
          obtain ⟨q, hgo, h⟩ := h
          have hgo : goRemove s.obqueue uid = some q := hgo
          rw [hqR, goRemove_head uid R hnd'.1] at hgo
          cases hgo
          have hsc : sc = b.unpaid := by
            rcases a8 with ⟨_, c⟩ | ⟨c, _⟩
            · unfold Book.unpaid; omega
            · omega
          have hb1 : b1.unpaid = 0 := by omega
          generalize hS1 : setBook { ({ s with bal := bal } : State) with obqueue := R } { b1 with status := OB_SETTLED } = S1 at h
          have hS1b : S1.books = upsert Book.key { b1 with status := OB_SETTLED } s.books := by rw [← hS1]; rfl
          have hsp1 : ∀ x ∈ S1.books, Sorted Part.key x.parts := by
            intro x hx
            rw [hS1b] at hx
            rcases mem_upsert_or Book.key _ x s.books hx with rfl | hx
            · exact a4
            · exact hsp x hx
          have hq1 : S1.obqueue = R := by rw [← hS1]; rfl
          have hst1 : ∀ u, statusOf S1 u = if u = uid then some OB_SETTLED else statusOf s u := by
            intro u
            rw [← hS1]
            have := statusOf_setBook { ({ s with bal := bal } : State) with obqueue := R } { b1 with status := OB_SETTLED } u
            rw [this]
            show (if u = b1.uid then _ else _) = _
            rw [a2, hbu]
            rfl
          have hun1 : ∀ u, unpaidOf S1 u = if u = uid then 0 else unpaidOf s u := by
            intro u
            rw [← hS1]
            have := unpaidOf_setBook { ({ s with bal := bal } : State) with obqueue := R } { b1 with status := OB_SETTLED } u
            rw [this]
            show (if u = b1.uid then b1.unpaid else _) = _
            rw [a2, hbu, hb1]
            rfl
          obtain ⟨D, hB, hbk, e1, e2, e3⟩ := ih S1 (n - sc) s' hsp1 (by rw [hq1]; exact hnd'.2)
            (by rw [hq1]; rw [hqR] at hf; simp at hf; omega) h
          have hnD : uid ∉ D := by
            intro hin
            have := hB.split
            rw [hq1] at this
            exact hnd'.1 (by rw [this]; exact List.mem_append_left _ hin)
          refine ⟨uid :: D, ?_, ?_, by rw [e1, ← hS1]; rfl, by rw [e2, ← hS1]; rfl, by rw [e3, ← hS1]; rfl⟩
          · rw [hqR]
            rw [hq1, hsc, ← hw] at hB
            refine Batch.step (by rw [← hqR]; exact hnd) (by rw [hw]; omega) ?_ ?_ hB
            · rw [hun1]; simp
            · intro v hv; rw [hun1]; simp [hv]
          · refine ⟨?_, ?_, ?_⟩
            · intro u hu
              have hne : u ≠ uid := fun e => hu (by rw [e]; exact List.mem_cons_self ..)
              rw [hbk.status u (fun hin => hu (List.mem_cons_of_mem _ hin)), hst1]
              simp [hne]
            · intro u hu
              rcases List.mem_cons.mp hu with rfl | hu
              · refine ⟨hst0, ?_, ?_⟩
                · rw [hbk.status u hnD, hst1]; simp
                · have := hbk.mono u
                  rw [hun1] at this
                  simpa using this
              · have hne : u ≠ uid := fun e => hnD (e ▸ hu)
                obtain ⟨c1, c2, c3⟩ := hbk.settled u hu
                rw [hst1] at c1
                simp only [hne, if_false] at c1
                exact ⟨c1, c2, c3⟩
            · intro u
              have := hbk.mono u
              rw [hun1] at this
              by_cases e : u = uid
              · subst e; simp at this; omega
              · simpa [e] using this
        · -- the budget is used up inside the book
          rename_i hfin
          have hfin : pr ≠ b.parts.length := by simpa using hfin
          have hsc : sc = n := by
            rcases a8 with ⟨c, _⟩ | ⟨_, c⟩
            · omega
            · exact c
          rw [hsc, Nat.sub_self, obEndBlock_zero] at h
          cases h
          have hst1 : ∀ u, statusOf (setBook ({ s with bal := bal } : State) b1) u = statusOf s u := by
            intro u
            rw [statusOf_setBook, a2, hbu]
            by_cases e : u = uid
            · subst e; simp [hst0, a3, hres]
            · simp only [e, if_false]; rfl
          have hun1 : ∀ u, unpaidOf (setBook ({ s with bal := bal } : State) b1) u = if u = uid then b1.unpaid else unpaidOf s u := by
            intro u
            rw [unpaidOf_setBook, a2, hbu]
            rfl
          have hq1 : (setBook ({ s with bal := bal } : State) b1).obqueue = s.obqueue := rfl
          have hm1 : (setBook ({ s with bal := bal } : State) b1).mqueue = s.mqueue := rfl
          have hp1 : (setBook ({ s with bal := bal } : State) b1).pending = s.pending := rfl
          have hpar1 : (setBook ({ s with bal := bal } : State) b1).params = s.params := rfl
          generalize setBook ({ s with bal := bal } : State) b1 = S1 at hst1 hun1 hq1 hm1 hp1 hpar1
          refine ⟨[], ?_, ⟨fun u _ => hst1 u, (fun _ hu => nomatch hu), ?_⟩, hm1, hp1, hpar1⟩
          · rw [hq1, hqR]
            refine Batch.exhaust ?_ ?_
            · rw [hun1, hw]; simp; omega
            · intro v hv; rw [hun1]; simp [hv]
          · intro u
            rw [hun1]
            by_cases e : u = uid
            · subst e; simp; omega
            · simp [e]

end Sge.Core
