/-
  A subaccount wager never raises the owner's free balance (C11 `wager_no_gain`, lifted to the combined slice with the
  REAL bet-module wager): the owner receives the subaccount deduction, is charged bet fee + matched stake (≥ 0) by
  `wagerO`, and sends back what was not taken, at most the deduction.
-/
import SgeProofs.Lemmas.CombinedLock
namespace Sge.Combined
open Sge Sge.Core Sge.Genesis
open Sge.Subaccount (withdraw_some)

theorem cmb2_subWager_owner {s s' : State} {owner : Nat} {outerOk : Bool} {ic : Nat} {main sub : Int} {tk : Tk} {uid : Nat}
    {amount : Int} {pl : WagerPayload} (hR : InRange s) (hU : ∀ o a, aget s.owners o = some a → isUser o)
    (h : subWagerO s owner outerOk ic main sub tk uid amount pl = some s') : s'.bal owner ≤ s.bal owner := by
  unfold subWagerO at h
  simp only [bind, Option.bind_eq_some_iff, pure, Option.some.injEq] at h
  obtain ⟨_, _, a, ha, _, _, _, _, _, hnn, _, _, _, _, s1, hs1, s2, hs2, h3⟩ := h
  have ho := hU owner a ha
  have hnn := cmb_chk_true hnn
  simp only [Bool.and_eq_true, decide_eq_true_eq] at hnn
  -- the deduction: subaccount → owner
  have e1 : s1.bal owner = s.bal owner + sub ∧ SUB_BASE ≤ a := by
    unfold withdrawLockedO at hs1
    simp only [bind, Option.bind_eq_some_iff, pure, Option.some.injEq] at hs1
    obtain ⟨r, hr, _, _, t1, ht1, sum', hw, rfl⟩ := hs1
    have hra := hR.of hr
    obtain ⟨_, hrecv, _, _, _, _⟩ := cmb_send_recv ht1
    have := hrecv owner (by have := ho.1; omega)
    rw [if_pos rfl] at this
    exact ⟨this, hra⟩
  obtain ⟨e1, hra⟩ := e1
  -- the bet module charges the owner
  have e2 : ∃ charged, 0 ≤ charged ∧ s2.bal owner = s1.bal owner - charged := by
    unfold subWagerBet at hs2
    cases hc : wagerO s1.core owner tk uid amount pl with
    | none => simp [hc] at hs2
    | some c =>
      simp only [hc, Option.map_some, Option.some.injEq] at hs2
      obtain ⟨ch, h0, hself, _⟩ := cmb_wagerO_bal hc ho.2
      refine ⟨ch, h0, ?_⟩
      rw [← hs2]
      exact hself
  obtain ⟨charged, hc0, e2⟩ := e2
  -- what was not taken goes back
  unfold returnToSubO at h3
  split at h3
  · rename_i hle
    have hle' : min (s2.bal owner - (s.bal owner - main)) sub ≤ 0 := hle
    cases h3
    omega
  · rename_i hpos
    simp only [bind, Option.bind_eq_some_iff, pure, Option.some.injEq] at h3
    obtain ⟨r2, _, _, _, s3, hs3, rfl⟩ := h3
    obtain ⟨_, _, _, _, _, hsrc⟩ := cmb_send_recv hs3
    have e3 := hsrc (by have := ho.1; omega)
    show s3.bal owner ≤ _
    rw [e3]
    have : ¬ min (s2.bal owner - (s.bal owner - main)) sub ≤ 0 := hpos
    omega

end Sge.Combined
