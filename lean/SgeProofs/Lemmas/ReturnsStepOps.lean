/- every message and the bet-settlement phase of the end-block are `StStep`s: they touch no paid participation -/
import SgeProofs.Lemmas.ReturnsStep
namespace Sge.Core
open Sge Sge.Genesis

theorem stp_marketAddO {s s' : State} {c : Nat} {tk : Tk} {u st en : Nat} {o : List Nat} {stt : Nat}
    (hO : ObInv s) (h : marketAddO s c tk u st en o stt = some s') : StStep s s' := by
  unfold marketAddO at h
  simp only [bind, Option.bind_eq_some_iff, pure, Option.some.injEq] at h
  obtain ⟨_, _, _, _, _, _, _, _, _, _, _, _, _, h7, rfl⟩ := h
  have h7 : getBook s u = none := by simpa using chk_some h7
  exact (StStep.addBook hO.sB (newBook u o) h7 rfl rfl).trans (StStep.of_eq (by rfl))

theorem stp_marketUpdateO {s s' : State} {tk : Tk} {u st en stt : Nat}
    (h : marketUpdateO s tk u st en stt = some s') : StStep s s' := by
  unfold marketUpdateO at h
  simp only [bind, Option.bind_eq_some_iff, pure, Option.some.injEq] at h
  obtain ⟨_, _, m, _, _, _, _, _, _, _, rfl⟩ := h
  exact StStep.of_eq (by rfl)

theorem stp_marketResolveO {s s' : State} {tk : Tk} {u ts stt : Nat} {w : List Nat}
    (h : marketResolveO s tk u ts stt w = some s') : StStep s s' := by
  unfold marketResolveO at h
  simp only [bind, Option.bind_eq_some_iff, pure, Option.some.injEq] at h
  obtain ⟨_, _, _, _, m, _, _, _, _, _, rfl⟩ := h
  exact StStep.of_eq (by rfl)

theorem stp_houseDepositO {s : State} {r : State × Nat} {c : Nat} {tk : Tk} {m : Nat} {a : Int} {pd : Nat}
    (hO : ObInv s) (h : houseDepositO s c tk m a pd = some r) : StStep s r.1 := by
  unfold houseDepositO at h
  simp only [bind, Option.bind_eq_some_iff, pure, Option.some.injEq] at h
  obtain ⟨_, _, _, _, _, _, s1, hs1, _, _, mk, _, b, hb, _, _, _, hact, _, _, _, hfresh, s2, hs2, s3, hs3, rfl⟩ := h
  obtain ⟨gs, rfl⟩ := grantStep_shape hs1
  obtain ⟨bal2, _, rfl⟩ := bankSend_shape hs2
  obtain ⟨bal3, _, rfl⟩ := bankSend_shape hs3
  have hb' : getBook s m = some b := hb
  obtain ⟨hbm, hbu⟩ := getBook_mem hb'
  have hnone : b.getPart (b.partCount + 1) = none := by simpa using chk_some hfresh
  have hact : b.status = OB_ACTIVE := by simpa using chk_some hact
  obtain ⟨e1, e2, e3⟩ := addParticipation_shape b (depositFor c pd) (a - (s.params.houseFee.mulInt a).roundInt)
    (s.params.houseFee.mulInt a).roundInt
  have hx : BkStep b (b.addParticipation (depositFor c pd) (a - (s.params.houseFee.mulInt a).roundInt)
      (s.params.houseFee.mulInt a).roundInt).1 :=
    BkStep.upsert _ e1 e2 e3 rfl (Or.inr ⟨hnone, hact⟩)
  exact (StStep.setBook hO.sB b _ (by rw [hx.uid, hbu]; exact hb') hx).trans (StStep.of_eq (by rfl))

theorem ret_calcWithdrawal_unpaid {b : Book} {idx dep mode : Nat} {amount tw w : Int} {p : Part}
    (h : calcWithdrawal b idx dep mode amount tw = some w) (hp : b.getPart idx = some p) : p.isSettled = false := by
  unfold calcWithdrawal at h
  simp only [bind, Option.bind_eq_some_iff] at h
  obtain ⟨p', hp', _, h1, _⟩ := h
  rw [hp] at hp'
  cases hp'
  simpa using chk_some h1

theorem stp_houseWithdrawO {s s' : State} {c : Nat} {tk : Tk} {m i md : Nat} {a : Int} {pd : Nat}
    (hO : ObInv s) (h : houseWithdrawO s c tk m i md a pd = some s') : StStep s s' := by
  unfold houseWithdrawO at h
  simp only [bind, Option.bind_eq_some_iff, pure, Option.some.injEq] at h
  obtain ⟨_, _, _, _, _, _, _, _, _, _, d, _, b, hb, _, _, w, hw, s1, hs1, p, hpp, s2, hs2, b', hb', rfl⟩ := h
  obtain ⟨gs, rfl⟩ := grantStep_shape hs1
  obtain ⟨bal2, _, rfl⟩ := bankSend_shape hs2
  obtain ⟨hbm, hbu⟩ := getBook_mem hb
  obtain ⟨e1, e2, e3⟩ := withdraw_shape hpp hb'
  have hpi := Book.getPart_idx hpp
  have hun := ret_calcWithdrawal_unpaid hw hpp
  have hx : BkStep b b' :=
    BkStep.upsert { p with crl := p.crl - w, liq := p.liq - w } e1 e2 e3 hun
      (Or.inl ⟨p, by show b.getPart p.idx = some p; rw [hpi]; exact hpp, hun⟩)
  exact (StStep.setBook hO.sB b b' (by rw [hx.uid, hbu]; exact hb) hx).trans (StStep.of_eq (by rfl))

/-- the book of a market that is not resolved is active, so none of its participations is paid -/
theorem ret_active_unpaid {s : State} (hI : SInv s) {b : Book} (hb : b ∈ s.books) (hact : b.status = OB_ACTIVE) :
    ∀ p ∈ b.parts, p.isSettled = false := by
  intro p hp
  cases hs : p.isSettled
  · rfl
  · exact absurd hact (hI.settledClosed b hb p hp hs)

theorem stp_wagerO {s s' : State} {c : Nat} {tk : Tk} {u : Nat} {a : Int} {pl : WagerPayload}
    (hO : ObInv s) (hI : SInv s) (h : wagerO s c tk u a pl = some s') : StStep s s' := by
  unfold wagerO at h
  simp only [bind, Option.bind_eq_some_iff, pure, Option.some.injEq] at h
  obtain ⟨_, _, _, _, _, _, _, _, _, _, _, _, _, _, m, hm, _, hact, _, _, _, _, _, _, _, _, _, _, ov, _, _, _, b, hb, r, hr, s1, hs1, s2, hs2, rfl⟩ := h
  obtain ⟨b', fulfs, taken⟩ := r
  obtain ⟨bal1, _, rfl⟩ := bankSend_shape hs1
  obtain ⟨bal2, _, rfl⟩ := bankSend_shape hs2
  have hact : m.status = MS_ACTIVE := by simpa using chk_some hact
  obtain ⟨hbm, hbu⟩ := getBook_mem hb
  have hq := hO.qinv b hbm
  have hsP := hq.s.sP
  have hbact : b.status = OB_ACTIVE := by
    by_cases hc : b.status = OB_ACTIVE
    · exact hc
    · exfalso
      obtain ⟨m', hm', hr'⟩ := hI.closedResolved b hbm hc
      rw [hbu, hm] at hm'
      cases hm'
      exact active_not_resolved hact hr'
  obtain ⟨_, _, _, hbu', hfrom⟩ := processWager_custody _ _ _ _ _ _ _ _ _ _ _ _ _ hsP hr
  have hst := processWager_status _ _ _ _ _ _ _ _ _ _ _ _ _ hr
  have hmo : m.odds.Nodup := (allDistinct_iff_nodup m.odds).mp (hO.mkt m (getMarket_memQ hm))
  obtain ⟨w1, w2, _, w4, _, _, _⟩ := processWager_sums b b' pl.odds (s.betCount + 1) ov pl.mult m.odds pl.allOdds _ _ _ fulfs taken hq hmo hr
  have hx : BkStep b b' := by
    refine BkStep.of_unpaid hbu' hst (ret_active_unpaid hI hbm hbact) ?_ ?_
    · intro i p' hp'
      obtain ⟨hmem, hi⟩ := Book.getPart_mem hp'
      obtain ⟨q0, hq0, hc⟩ := hfrom p' hmem
      refine ⟨q0, ?_, hc.2.2.2.2.1⟩
      have := Book.mem_getPart hsP hq0
      rw [← hc.1, hi] at this
      exact this
    · intro i p0 hp0
      have hr0 := (hq.s.inRange_iff i).mp ⟨p0, hp0⟩
      rw [← w2] at hr0
      exact (w1.s.inRange_iff i).mpr hr0
  exact (StStep.setBook hO.sB b b' (by rw [hx.uid, hbu]; exact hb) hx).trans (StStep.of_eq (by rfl))

-- ---------------------------------------------------------------------------------------------
-- the bet-settlement phase

theorem stp_settleBet {s s' : State} {c u : Nat} (hO : ObInv s) (hI : SInv s) (h : settleBet s c u = some s') :
    StStep s s' := by
  unfold settleBet at h
  simp only [bind, Option.bind_eq_some_iff] at h
  obtain ⟨bet0, _, bet, hbet, _, hst, m, _, h⟩ := h
  have hst := chk_some hst
  have hopen : bet.isOpen = true := by
    unfold Bet.isOpen
    simp only [Bool.not_eq_true', Bool.or_eq_false_iff] at hst
    simpa using hst.1
  have hbetm : bet ∈ s.bets := (lookup_memQ hbet).1
  split at h
  · unfold settleRefund at h
    simp only [bind, Option.bind_eq_some_iff, pure, Option.some.injEq] at h
    obtain ⟨s1, h1, s2, h2, rfl⟩ := h
    obtain ⟨_, _, rfl⟩ := bankSend_shape h1
    obtain ⟨_, _, rfl⟩ := bankSend_shape h2
    exact StStep.of_eq (by rfl)
  · simp only [Option.bind_eq_some_iff] at h
    obtain ⟨_, _, h⟩ := h
    unfold settleDeclared at h
    simp only [bind, Option.bind_eq_some_iff, pure, Option.some.injEq] at h
    obtain ⟨bk, hbk, r, hr, s2, h2, rfl⟩ := h
    obtain ⟨_, _, rfl⟩ := bankSend_shape h2
    obtain ⟨hbkm, hbu⟩ := getBook_mem hbk
    obtain ⟨x1, x2, x3, x4⟩ := ret_settleOutcome hr
    have hbact : bk.status = OB_ACTIVE := by
      by_cases hc : bk.status = OB_ACTIVE
      · exact hc
      · have := hI.closedNoOpen bk hbkm hc bet hbetm hbu.symm
        rw [hopen] at this; cases this
    have hx : BkStep bk r.2 := by
      refine BkStep.of_unpaid x1 x2 (ret_active_unpaid hI hbkm hbact) ?_ x4
      intro i p' hp'
      obtain ⟨p, hp, e⟩ := x3 i p' hp'
      exact ⟨p, hp, by rw [e]⟩
    exact (StStep.setBook hO.sB bk r.2 (by rw [hx.uid, hbu]; exact hbk) hx).trans (StStep.of_eq (by rfl))

theorem stp_settlePage : ∀ (page : List (Nat × Nat × Nat × Nat)) (s : State) (r : State × Nat),
    ObInv s → SettleInv s → settlePage s page = some r → StStep s r.1 := by
  intro page
  induction page with
  | nil => intro s r _ _ h; simp [settlePage] at h; rw [← h]; exact StStep.refl s
  | cons pb rest ih =>
    intro s r hO hI h
    unfold settlePage at h
    simp only [bind, Option.bind_eq_some_iff, pure, Option.some.injEq] at h
    obtain ⟨s1, h1, r1, hr, rfl⟩ := h
    exact (stp_settleBet hO hI.toSInv h1).trans (ih _ r1 (settleBet_obInv hO h1) (settleBet_inv hI h1) hr)

theorem stp_bookResolved {s s' : State} {u : Nat} (hO : ObInv s) (h : bookResolved s u = some s') : StStep s s' := by
  unfold bookResolved at h
  simp only [bind, Option.bind_eq_some_iff, pure, Option.some.injEq] at h
  obtain ⟨b, hb, _, _, rfl⟩ := h
  obtain ⟨hbm, hbu⟩ := getBook_mem hb
  have hx : BkStep b { b with status := OB_RESOLVED } :=
    BkStep.of_parts rfl rfl (fun hc => absurd (show OB_RESOLVED = OB_SETTLED from hc) (by decide))
      (fun hc => absurd (show OB_RESOLVED = OB_ACTIVE from hc) (by decide))
  exact (StStep.setBook hO.sB b _ (by show getBook s b.uid = some b; rw [hbu]; exact hb) hx).trans (StStep.of_eq (by rfl))

theorem stp_betEndBlockStep {s : State} {mk n : Nat} {r : State × Nat} (hO : ObInv s) (hI : SettleInv s)
    (h : betEndBlockStep s mk n = some r) : StStep s r.1 := by
  unfold betEndBlockStep at h
  simp only [bind, Option.bind_eq_some_iff] at h
  obtain ⟨r0, h0, h⟩ := h
  have a := stp_settlePage _ _ _ hO hI h0
  have e0 := settlePage_obInv _ _ _ hO h0
  split at h
  · simp only [pure, Option.some.injEq] at h; rw [← h]; exact a
  · simp only [Option.bind_eq_some_iff, pure, Option.some.injEq] at h
    obtain ⟨q, _, s2, h2, rfl⟩ := h
    have e1 : ObInv { r0.1 with mqueue := q } := e0.of_eq (by rfl) (by rfl) (by rfl) e0.mkt
    exact a.trans ((StStep.of_eq (by rfl)).trans (stp_bookResolved e1 h2))

theorem stp_betEndBlock : ∀ (fuel : Nat) (s : State) (n : Nat) (s' : State),
    ObInv s → SettleInv s → betEndBlock fuel s n = some s' → StStep s s' := by
  intro fuel
  induction fuel with
  | zero => intro s n s' _ _ h; simp [betEndBlock] at h; rw [← h]; exact StStep.refl s
  | succ fuel ih =>
    intro s n s' hO hI h
    unfold betEndBlock at h
    split at h
    · simp at h; rw [← h]; exact StStep.refl s
    · split at h
      · simp at h; rw [← h]; exact StStep.refl s
      · rename_i mk rest hmq
        simp only [bind, Option.bind_eq_some_iff] at h
        obtain ⟨r, hr, h⟩ := h
        exact (stp_betEndBlockStep hO hI hr).trans
          (ih _ _ _ (betEndBlockStep_obInv hO hr) (betEndBlockStep_inv hI (by rw [hmq]; exact List.mem_cons_self ..) hr) h)

end Sge.Core
