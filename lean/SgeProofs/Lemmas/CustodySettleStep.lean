/- every operation, the settling end-block included, preserves `SettleInv` -/
import SgeProofs.Lemmas.CustodySettleOps
import SgeProofs.Lemmas.CustodySettleOb
namespace Sge.Core
open Sge Sge.Genesis

/-- well-formed operations: messages are signed by (deposits made for, markets created by) user accounts, never
    module accounts -/
def Op.userSigned' : Op → Prop
  | .marketAdd c _ _ _ _ _ _ => isModuleAcc c = false
  | .deposit c _ _ _ pd => isModuleAcc (depositFor c pd) = false
  | .wager c _ _ _ _ => isModuleAcc c = false
  | _ => True

theorem Op.userSigned'_userSigned {op : Op} (h : op.userSigned') : op.userSigned := by
  cases op <;> first | exact h | trivial

/-- a successful end-block keeps the invariant; one that halts leaves the state as it was -/
theorem endBlock_settleInv (s : State) (hI : SettleInv s) : SettleInv (endBlock s).1 := by
  unfold endBlock
  cases h : endBlockO s with
  | none => exact hI
  | some s' => exact endBlockO_inv hI h

/-- every operation keeps the invariant -/
theorem step_settleInv (s : State) (op : Op) (hI : SettleInv s) (hwf : op.userSigned') : SettleInv (step s op).1 := by
  by_cases hne : op = .endBlock
  · subst hne
    exact endBlock_settleInv s hI
  · have hC : CustI (step s op).1 := step_custI s op hI.toCustI (Op.userSigned'_userSigned hwf) hne
    have hfrozen : ∀ uid m, getMarket s uid = some m → m.resolved → getMarket (step s op).1 uid = some m :=
      fun uid m h hr => c07_resolved_frozen_step s op uid m h hr
    refine { toCustI := hC, toSInv := ?_ }
    have hS := hI.toSInv
    cases op with
    | marketAdd c tk u st en o stt =>
      simp only [step, marketAdd, commit] at hfrozen ⊢
      cases h : marketAddO s c tk u st en o stt with
      | none => exact hS
      | some s' => rw [h] at hfrozen; exact marketAddO_sinv hS h hwf hfrozen
    | marketUpdate tk u st en stt =>
      simp only [step, marketUpdate, commit] at hfrozen ⊢
      cases h : marketUpdateO s tk u st en stt with
      | none => exact hS
      | some s' => rw [h] at hfrozen; exact marketUpdateO_sinv hS h hfrozen
    | marketResolve tk u ts stt w =>
      simp only [step, marketResolve, commit] at hfrozen ⊢
      cases h : marketResolveO s tk u ts stt w with
      | none => exact hS
      | some s' => rw [h] at hfrozen; exact marketResolveO_sinv hS h hfrozen
    | deposit c tk m a pd =>
      simp only [step, houseDeposit]
      cases h : houseDepositO s c tk m a pd with
      | none => exact hS
      | some r => exact houseDepositO_sinv hS h
    | withdraw c tk m i md a pd =>
      simp only [step, houseWithdraw, commit]
      cases h : houseWithdrawO s c tk m i md a pd with
      | none => exact hS
      | some s' => exact houseWithdrawO_sinv hS h
    | wager c tk u a pl =>
      simp only [step, wager, commit]
      cases h : wagerO s c tk u a pl with
      | none => exact hS
      | some s' => exact wagerO_sinv hI.toCustI hS h hwf
    | grant g e k l x => exact hS.of_eq rfl rfl rfl rfl rfl
    | revoke g e k => exact hS.of_eq rfl rfl rfl rfl rfl
    | send a b x =>
      simp only [step]
      split
      · exact hS
      · unfold commit
        cases h : bankSend s a b x with
        | none => exact hS
        | some s' =>
          obtain ⟨_, _, rfl⟩ := bankSend_shape h
          exact hS.of_eq rfl rfl rfl rfl rfl
    | setParams p =>
      simp only [step]
      split
      · exact hS.of_eq rfl rfl rfl rfl rfl
      · exact hS
    | endBlock => exact absurd rfl hne
    | newBlock h t => exact hS.of_eq rfl rfl rfl rfl rfl

theorem run_settleInv (s : State) (ops : List Op) (hI : SettleInv s) (hwf : ∀ op ∈ ops, op.userSigned') :
    SettleInv (run s ops) := by
  induction ops generalizing s with
  | nil => exact hI
  | cons op rest ih =>
    exact ih _ (step_settleInv s op hI (hwf op (List.mem_cons_self ..))) (fun o ho => hwf o (List.mem_cons_of_mem _ ho))

end Sge.Core
