/-
  Helper lemmas for the x/subaccount model (`Sge.Subaccount`): function update, the bank transfer, the account
  summary arithmetic and the locked-balance list. Core Lean only.
-/
import Sge.Subaccount
namespace Sge.Subaccount

/-! ## function update -/

@[simp] theorem upd_same {α : Type} (f : Nat → α) (k : Nat) (v : α) : upd f k v k = v := by
  simp [upd]

@[simp] theorem upd_other {α : Type} (f : Nat → α) (k : Nat) (v : α) (a : Nat) (h : a ≠ k) : upd f k v a = f a := by
  simp [upd, h]

theorem upd_apply {α : Type} (f : Nat → α) (k : Nat) (v : α) (a : Nat) :
    upd f k v a = if a = k then v else f a := rfl

/-! ## bank -/

/-- closed form of a successful transfer -/
theorem send_apply {b : Nat → Int} {f t : Nat} {amt : Int} {b' : Nat → Int} (h : send b f t amt = some b') (x : Nat) :
    b' x = b x - (if x = f then amt else 0) + (if x = t then amt else 0) := by
  unfold send at h
  split at h
  · cases h
  · split at h
    · cases h
    · simp only [Option.some.injEq] at h
      subst h
      simp only [upd_apply]
      by_cases h1 : x = t <;> by_cases h2 : x = f <;> by_cases h3 : t = f <;> simp_all <;> omega

theorem send_nonneg_amt {b : Nat → Int} {f t : Nat} {amt : Int} {b' : Nat → Int} (h : send b f t amt = some b') :
    0 ≤ amt ∧ amt ≤ b f := by
  unfold send at h
  split at h
  · cases h
  · split at h
    · cases h
    · omega

theorem send_bank_nonneg {b : Nat → Int} {f t : Nat} {amt : Int} {b' : Nat → Int} (h : send b f t amt = some b')
    (hb : ∀ a, 0 ≤ b a) : ∀ a, 0 ≤ b' a := by
  intro a
  have h1 := send_apply h a
  have h2 := send_nonneg_amt h
  have h3 := hb a
  rw [h1]
  by_cases e1 : a = f
  · have e3 : b a = b f := by rw [e1]
    by_cases e2 : a = t
    · rw [if_pos e1, if_pos e2]; omega
    · rw [if_pos e1, if_neg e2]; omega
  · by_cases e2 : a = t
    · rw [if_neg e1, if_pos e2]; omega
    · rw [if_neg e1, if_neg e2]; omega

theorem send_isSome {b : Nat → Int} {f t : Nat} {amt : Int} (h0 : 0 ≤ amt) (h1 : amt ≤ b f) :
    ∃ b', send b f t amt = some b' := by
  unfold send
  rw [if_neg (by omega), if_neg (by omega)]
  exact ⟨_, rfl⟩

/-! ## account summary -/

structure SumNonneg (m : Summary) : Prop where
  dep : 0 ≤ m.deposited
  spent : 0 ≤ m.spent
  wd : 0 ≤ m.withdrawn
  lost : 0 ≤ m.lost

theorem spend_some {m m' : Summary} {amt : Int} (h : m.spend amt = some m') :
    0 ≤ amt ∧ amt ≤ m.available ∧ m' = { m with spent := m.spent + amt } := by
  unfold Summary.spend at h
  split at h
  · cases h
  · split at h
    · cases h
    · simp only [Option.some.injEq] at h
      exact ⟨by omega, by omega, h.symm⟩

theorem unspend_some {m m' : Summary} {amt : Int} (h : m.unspend amt = some m') :
    0 ≤ amt ∧ amt ≤ m.spent ∧ m' = { m with spent := m.spent - amt } := by
  unfold Summary.unspend at h
  split at h
  · cases h
  · split at h
    · cases h
    · simp only [Option.some.injEq] at h
      exact ⟨by omega, by omega, h.symm⟩

theorem addLoss_some {m m' : Summary} {amt : Int} (h : m.addLoss amt = some m') :
    0 ≤ amt ∧ m' = { m with lost := m.lost + amt } := by
  unfold Summary.addLoss at h
  split at h
  · cases h
  · simp only [Option.some.injEq] at h
    exact ⟨by omega, h.symm⟩

theorem withdraw_some {m m' : Summary} {amt : Int} (h : m.withdraw amt = some m') :
    0 ≤ amt ∧ amt ≤ m.available ∧ m' = { m with withdrawn := m.withdrawn + amt } := by
  unfold Summary.withdraw at h
  split at h
  · cases h
  · split at h
    · cases h
    · simp only [Option.some.injEq] at h
      exact ⟨by omega, by omega, h.symm⟩

theorem unspend_isSome {m : Summary} {amt : Int} (h0 : 0 ≤ amt) (h1 : amt ≤ m.spent) : ∃ m', m.unspend amt = some m' := by
  unfold Summary.unspend
  rw [if_neg (by omega), if_neg (by omega)]
  exact ⟨_, rfl⟩

theorem unspend_none_of_gt {m : Summary} {amt : Int} (h1 : m.spent < amt) : m.unspend amt = none := by
  unfold Summary.unspend
  split
  · rfl
  · first | rfl | rw [if_pos (by omega)]

theorem addLoss_isSome {m : Summary} {amt : Int} (h0 : 0 ≤ amt) : ∃ m', m.addLoss amt = some m' := by
  unfold Summary.addLoss
  rw [if_neg (by omega)]
  exact ⟨_, rfl⟩

/-! ## locked balances -/

theorem sum_map_nonneg (ls : List Lock) (h : ∀ l ∈ ls, 0 ≤ l.2) : 0 ≤ (ls.map (·.2)).sum := by
  induction ls with
  | nil => simp
  | cons x xs ih =>
    simp only [List.map_cons, List.sum_cons]
    have h1 := h x (List.mem_cons_self ..)
    have h2 := ih (fun l hl => h l (List.mem_cons_of_mem _ hl))
    omega

theorem unlockedSum_nonneg (now : Nat) (ls : List Lock) (h : ∀ l ∈ ls, 0 ≤ l.2) : 0 ≤ unlockedSum now ls := by
  unfold unlockedSum
  apply sum_map_nonneg
  intro l hl
  exact h l (List.mem_filter.mp hl).1

/-- the unlocked total can only grow with time (amounts are non-negative) -/
theorem unlockedSum_mono (now now' : Nat) (hle : now ≤ now') (ls : List Lock) (h : ∀ l ∈ ls, 0 ≤ l.2) :
    unlockedSum now ls ≤ unlockedSum now' ls := by
  unfold unlockedSum
  induction ls with
  | nil => simp
  | cons x xs ih =>
    have hx := h x (List.mem_cons_self ..)
    have ih' := ih (fun l hl => h l (List.mem_cons_of_mem _ hl))
    simp only [List.filter_cons]
    by_cases h1 : x.1 < now
    · have h2 : x.1 < now' := by omega
      simp only [h1, h2, decide_true, if_true, List.map_cons, List.sum_cons]
      omega
    · by_cases h2 : x.1 < now'
      · simp only [h1, h2, decide_true, decide_false, if_true, List.map_cons, List.sum_cons]
        simp only [Bool.false_eq_true, if_false]
        omega
      · simp only [h1, h2, decide_false, Bool.false_eq_true, if_false]
        exact ih'

theorem unlockedSum_filter_ne (now t : Nat) (hle : now ≤ t) (ls : List Lock) :
    unlockedSum now (ls.filter (fun x => x.1 ≠ t)) = unlockedSum now ls := by
  unfold unlockedSum
  rw [List.filter_filter]
  congr 2
  apply List.filter_congr
  intro x _
  by_cases h1 : x.1 < now
  · have : x.1 ≠ t := by omega
    simp [h1, this]
  · simp [h1]

/-- writing a lock whose time has not been reached does not change the unlocked total -/
theorem unlockedSum_setLock (now : Nat) (ls : List Lock) (l : Lock) (hle : now ≤ l.1) :
    unlockedSum now (setLock ls l) = unlockedSum now ls := by
  unfold setLock
  have h1 : ¬ l.1 < now := by omega
  have : unlockedSum now (l :: ls.filter (fun x => x.1 ≠ l.1)) = unlockedSum now (ls.filter (fun x => x.1 ≠ l.1)) := by
    unfold unlockedSum
    simp [h1]
  rw [this, unlockedSum_filter_ne now l.1 hle]

theorem unlockedSum_setLocks (now : Nat) (new : List Lock) (ls : List Lock) (hle : ∀ l ∈ new, now ≤ l.1) :
    unlockedSum now (setLocks ls new) = unlockedSum now ls := by
  unfold setLocks
  induction new generalizing ls with
  | nil => rfl
  | cons x xs ih =>
    simp only [List.foldl_cons]
    rw [ih _ (fun l hl => hle l (List.mem_cons_of_mem _ hl))]
    exact unlockedSum_setLock now ls x (hle x (List.mem_cons_self ..))

theorem setLock_nonneg (ls : List Lock) (l : Lock) (h : ∀ x ∈ ls, 0 ≤ x.2) (hl : 0 ≤ l.2) :
    ∀ x ∈ setLock ls l, 0 ≤ x.2 := by
  intro x hx
  unfold setLock at hx
  rcases List.mem_cons.mp hx with rfl | hx
  · exact hl
  · exact h x (List.mem_filter.mp hx).1

theorem setLocks_nonneg (new : List Lock) (ls : List Lock) (h : ∀ x ∈ ls, 0 ≤ x.2) (hn : ∀ x ∈ new, 0 ≤ x.2) :
    ∀ x ∈ setLocks ls new, 0 ≤ x.2 := by
  unfold setLocks
  induction new generalizing ls with
  | nil => exact h
  | cons y ys ih =>
    simp only [List.foldl_cons]
    apply ih
    · exact setLock_nonneg ls y h (hn y (List.mem_cons_self ..))
    · exact fun x hx => hn x (List.mem_cons_of_mem _ hx)

theorem validLocks_nonneg {ls : List Lock} (h : validLocks ls = true) : ∀ l ∈ ls, 0 ≤ l.2 := by
  intro l hl
  unfold validLocks at h
  have := List.all_eq_true.mp h l hl
  simp only [Bool.and_eq_true, decide_eq_true_eq] at this
  exact this.2

theorem sumLocked_some {now : Nat} {ls : List Lock} {t : Int} (h : sumLocked now ls = some t) :
    (∀ l ∈ ls, now ≤ l.1) ∧ t = (ls.map (·.2)).sum := by
  unfold sumLocked at h
  split at h
  · cases h
  · rename_i hany
    simp only [Option.some.injEq] at h
    refine ⟨?_, h.symm⟩
    intro l hl
    simp only [List.any_eq_true, decide_eq_true_eq, not_exists, not_and] at hany
    have := hany l hl
    omega

end Sge.Subaccount
