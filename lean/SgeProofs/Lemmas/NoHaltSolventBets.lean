/-
  Whole-history facts about the stored bets and participations that the solvency argument needs:
  every stored bet has a non-negative fee, and if none of its backing parts has a negative stake then none of them
  promises a negative profit; every stored participation has a non-negative fee.
-/
import SgeProofs.Lemmas.BettorPayRun
import SgeProofs.Lemmas.CoreParams
namespace Sge.Core
open Sge Sge.Genesis

/-- every stored bet has a non-negative fee, and if none of its backing parts has a negative stake then none has a
    negative promised profit -/
def nh_BetsOk (s : State) : Prop :=
  ∀ x ∈ s.bets, 0 ≤ x.fee ∧ ((∀ f ∈ x.fulfs, 0 ≤ f.bet) → ∀ f ∈ x.fulfs, 0 ≤ f.profit)

/-- every stored participation has a non-negative fee -/
def nh_PartFeeOk (s : State) : Prop := ∀ b ∈ s.books, ∀ p ∈ b.parts, 0 ≤ p.fee

-- ---------------------------------------------------------------------------------------------
-- the wager loop: as long as no part has a negative stake, no part promises a negative profit

/-- loop invariant of the wager loop: if no part so far has a negative stake, then no part so far promises a negative
    profit, and the remaining payout profit is non-negative as long as the remaining stake is -/
def nh_K (f : FInfo) : Prop :=
  (∀ x ∈ f.fulfs, 0 ≤ x.bet) → (∀ x ∈ f.fulfs, 0 ≤ x.profit) ∧ (0 ≤ f.betAmount → 0 ≤ f.payoutProfit.raw)

/-- the amounts one visit decides, when the stake of the part is not negative -/
theorem nh_decide1_facts (ov : Dec) (thr avail : Int) (P : Dec) (ba : Int) (tr : Dec) (bAmt π : Int)
    (hK : 0 ≤ ba → 0 ≤ P.raw)
    (h : (decide1 ov thr avail P.truncInt ba tr).1 = some (bAmt, π)) (hb : 0 ≤ bAmt) :
    0 ≤ π ∧ (0 ≤ ba - bAmt → 0 ≤ (P.sub (Dec.ofInt π)).raw) := by
  unfold decide1 at h
  split at h
  · cases h
  · rename_i hav
    split at h
    · rename_i hle
      simp only [Option.some.injEq, Prod.mk.injEq] at h
      obtain ⟨_, rfl⟩ := h
      refine ⟨by omega, fun _ => ?_⟩
      simp only [Dec.sub, Dec.ofInt]
      unfold Dec.truncInt chopTrunc at hle
      split at hle
      · unfold PREC at *; omega
      · unfold PREC at *; omega
    · rename_i hgt
      simp only [Option.some.injEq, Prod.mk.injEq] at h
      obtain ⟨rfl, rfl⟩ := h
      have hP := hK hb
      have h0 : 0 ≤ P.truncInt := chopTrunc_ge_zero hP
      have h1 : P.truncInt * PREC ≤ P.raw := chopTrunc_le_of_nonneg hP
      refine ⟨h0, fun _ => ?_⟩
      simp only [Dec.sub, Dec.ofInt]
      omega

theorem nh_stage1_K (o : Nat) (ov mult : Dec) (thr : Int) (f : FInfo) (pe : Part × PExp) (h : nh_K f) :
    nh_K (stage1 o ov mult thr f pe).2.2.2 := by
  unfold stage1
  simp only
  split
  · rename_i bAmt π hd
    intro hall
    have hall : ∀ x ∈ f.fulfs ++ [_], 0 ≤ x.bet := hall
    have h0 : ∀ x ∈ f.fulfs, 0 ≤ x.bet := fun x hx => hall x (List.mem_append_left _ hx)
    have hb : 0 ≤ bAmt := hall _ (List.mem_append_right _ (List.mem_singleton.mpr rfl))
    obtain ⟨k1, k2⟩ := h h0
    have hd' := nh_decide1_facts _ _ _ _ _ _ _ _ k2 hd hb
    refine ⟨?_, hd'.2⟩
    intro x hx
    have hx : x ∈ f.fulfs ++ [_] := hx
    simp only [List.mem_append, List.mem_cons, List.not_mem_nil, or_false] at hx
    rcases hx with hx | hx
    · exact k1 x hx
    · rw [hx]; exact hd'.1
  · exact h

theorem nh_visit_K (o : Nat) (ov mult : Dec) (mo : List Nat) (ms : List (Nat × Dec)) (thr : Int) (f : FInfo) (i : Nat)
    (h : nh_K f) : nh_K (visit o ov mult mo ms thr f i) := by
  unfold visit
  split
  · exact h
  · rename_i pe _
    have h1 := nh_stage1_K o ov mult thr f pe h
    have h2 := stage2_core o mo ms thr (stage1 o ov mult thr f pe)
    have h3 := stage3_core o (stage2 o mo ms thr (stage1 o ov mult thr f pe))
    unfold nh_K at h1 ⊢
    rw [h3.2.1, h3.2.2.1, h3.2.2.2, h2.2.1, h2.2.2.1, h2.2.2.2]
    exact h1

theorem nh_loop_K (o : Nat) (ov mult : Dec) (mo : List Nat) (ms : List (Nat × Dec)) (thr : Int) :
    ∀ (q : List Nat) (f : FInfo), nh_K f → nh_K (loop o ov mult mo ms thr q f) := by
  intro q
  induction q with
  | nil => intro f h; exact h
  | cons i rest ih =>
    intro f h
    unfold loop
    simp only
    have hv := nh_visit_K o ov mult mo ms thr f i h
    split
    · exact hv
    · split
      · exact hv
      · exact ih _ hv

/-- the parts an accepted `processWager` returns: if none has a negative stake then none promises a negative profit,
    provided the payout profit is non-negative whenever the requested stake is -/
theorem nh_processWager_profits (b b' : Book) (o betId : Nat) (ov mult : Dec) (mo : List Nat) (ms : List (Nat × Dec))
    (thr A : Int) (P : Dec) (fulfs : List Fulf) (taken : Int) (hP : 0 ≤ A → 0 ≤ P.raw)
    (h : processWager b o betId ov mult mo ms thr A P = some (b', fulfs, taken)) :
    (∀ x ∈ fulfs, 0 ≤ x.bet) → ∀ x ∈ fulfs, 0 ≤ x.profit := by
  unfold processWager at h
  simp only [bind, Option.bind_eq_some_iff] at h
  obtain ⟨q, _, f0, hf0, h⟩ := h
  have h0 : nh_K f0 := by
    unfold initFInfo at hf0
    simp only [bind, Option.bind_eq_some_iff, pure, Option.some.injEq] at hf0
    obtain ⟨_, _, _, _, _, _, _, _, rfl⟩ := hf0
    intro _
    exact ⟨fun x hx => (by cases hx), hP⟩
  have hl := nh_loop_K o ov mult mo ms thr q f0 h0
  unfold finishWager at h
  split at h
  · cases h
  · split at h
    · cases h
    · simp only [Option.some.injEq, Prod.mk.injEq] at h
      obtain ⟨_, h2, _⟩ := h
      intro hall
      rw [← h2] at hall ⊢
      exact (hl hall).1

theorem nh_betFee_nonneg {p : Params} (hv : p.valid = true) : 0 ≤ p.betFee := by
  unfold Params.valid at hv
  simp only [Bool.and_eq_true, decide_eq_true_eq] at hv
  exact hv.1.1.1.1.1.2

theorem nh_houseFee_nonneg {p : Params} (hv : p.valid = true) : 0 ≤ p.houseFee.raw := by
  unfold Params.valid at hv
  simp only [Bool.and_eq_true, decide_eq_true_eq] at hv
  exact hv.1.1.1.2

/-- an accepted wager keeps the invariant on the stored bets -/
theorem nh_wagerO_betsOk {s s' : State} {c : Nat} {tk : Tk} {u : Nat} {a : Int} {pl : WagerPayload}
    (hv : s.params.valid = true) (hI : nh_BetsOk s) (h : wagerO s c tk u a pl = some s') : nh_BetsOk s' := by
  obtain ⟨m, ov, b, r, s1, s2, _, _, hgt, _, hr, _, _, hbets, _⟩ := bp_wagerO_shape h
  obtain ⟨b', fulfs, taken⟩ := r
  intro x hx
  rw [hbets] at hx
  rcases mem_upsert_or Bet.key _ _ _ hx with e | hin
  · rw [e]
    refine ⟨nh_betFee_nonneg hv, ?_⟩
    show (∀ f ∈ fulfs, 0 ≤ f.bet) → ∀ f ∈ fulfs, 0 ≤ f.profit
    refine nh_processWager_profits _ _ _ _ _ _ _ _ _ _ _ _ _ ?_ hr
    intro h2
    simp only [Dec.sub, Dec.mulInt, Dec.ofInt]
    have : (a - s.params.betFee) * PREC ≤ ov.raw * (a - s.params.betFee) := by
      rw [Int.mul_comm ov.raw]
      exact Int.mul_le_mul_of_nonneg_left (by omega) h2
    omega
  · exact hI x hin

/-- one operation keeps the invariant on the stored bets -/
theorem nh_step_betsOk (s : State) (op : Op) (hB : BetIdx s) (hv : s.params.valid = true) (hI : nh_BetsOk s) :
    nh_BetsOk (step s op).1 := by
  have key : ∀ x ∈ (step s op).1.bets, (∃ b0 ∈ s.bets, BpSame b0 x) ∨
      ∃ c tk u a pl, op = .wager c tk u a pl ∧ wagerO s c tk u a pl = some (step s op).1 := by
    intro x hx
    rcases bp_step_bets s op hB x hx with h | ⟨c, tk, u, a, pl, e, hw, _⟩
    · exact Or.inl h
    · exact Or.inr ⟨c, tk, u, a, pl, e, hw⟩
  intro x hx
  rcases key x hx with ⟨b0, hb0, e⟩ | ⟨c, tk, u, a, pl, _, hw⟩
  · obtain ⟨_, _, _, _, _, _, _, e8, e9⟩ := e.fields
    rw [e8, e9]
    exact hI b0 hb0
  · exact nh_wagerO_betsOk hv hI hw x hx

theorem nh_step_valid (s : State) (op : Op) (hv : s.params.valid = true) : (step s op).1.params.valid = true := by
  rcases step_params s op with e | ⟨p, _, hp, e⟩
  · rw [e]; exact hv
  · rw [e]; exact hp

theorem nh_run_betsOk_aux : ∀ (ops : List Op) (s : State), BetIdx s → s.params.valid = true → nh_BetsOk s →
    nh_BetsOk (run s ops) := by
  intro ops
  induction ops with
  | nil => intro s _ _ h; exact h
  | cons op rest ih =>
    intro s hB hv hI
    exact ih (step s op).1 (step_good s op hB).1 (nh_step_valid s op hv) (nh_step_betsOk s op hB hv hI)

/-- in every reachable state every stored bet has a non-negative fee, and promises no negative profit unless one of
    its parts has a negative stake -/
theorem nh_run_betsOk_bets (p : Params) (bal : List (Nat × Int)) (h t : Nat) (ops : List Op) (hp : p.valid = true) :
    nh_BetsOk (run (initState p bal h t) ops) :=
  nh_run_betsOk_aux ops _ (betIdx_init p bal h t) hp (by intro x hx; cases hx)

-- ---------------------------------------------------------------------------------------------
-- the fee of a participation: set once by the deposit, never changed afterwards

/-- every participation of the book has a non-negative fee -/
def nh_BkOk (b : Book) : Prop := ∀ p ∈ b.parts, 0 ≤ p.fee

theorem nh_bkOk_setPart {b : Book} (h : nh_BkOk b) (p : Part) (hp : 0 ≤ p.fee) : nh_BkOk (b.setPart p) := by
  intro q hq
  rcases mem_upsert_or Part.key _ _ _ hq with e | hin
  · rw [e]; exact hp
  · exact h q hin

theorem nh_bkOk_get {b : Book} (h : nh_BkOk b) {i : Nat} {p : Part} (hp : b.getPart i = some p) : 0 ≤ p.fee :=
  h p (Book.getPart_mem hp).1

theorem nh_bkOk_of_parts {b b' : Book} (h : nh_BkOk b) (e : b'.parts = b.parts) : nh_BkOk b' := by
  unfold nh_BkOk; rw [e]; exact h

theorem nh_partFeeOk_setBook {s : State} (h : nh_PartFeeOk s) (b : Book) (hb : nh_BkOk b) : nh_PartFeeOk (setBook s b) := by
  intro x hx
  rcases mem_upsert_or Book.key _ _ _ hx with e | hin
  · rw [e]; exact hb
  · exact h x hin

theorem nh_partFeeOk_of_books {s s' : State} (h : nh_PartFeeOk s) (e : s'.books = s.books) : nh_PartFeeOk s' := by
  unfold nh_PartFeeOk; rw [e]; exact h

theorem nh_partFeeOk_book {s : State} (h : nh_PartFeeOk s) {u : Nat} {b : Book} (hb : getBook s u = some b) : nh_BkOk b :=
  h b (getBook_mem hb).1

theorem nh_bettorLoses_feeOk : ∀ (fulfs : List Fulf) (b b' : Book), bettorLoses b fulfs = some b' → nh_BkOk b → nh_BkOk b' := by
  intro fulfs
  induction fulfs with
  | nil => intro b b' h hb; simp [bettorLoses] at h; rw [← h]; exact hb
  | cons f rest ih =>
    intro b b' h hb
    unfold bettorLoses at h
    simp only [bind, Option.bind_eq_some_iff] at h
    obtain ⟨p, hp, h⟩ := h
    have hf : 0 ≤ p.fee := nh_bkOk_get hb hp
    exact ih _ _ h (nh_bkOk_setPart hb _ hf)

theorem nh_bettorWins_feeOk : ∀ (fulfs : List Fulf) (bal : List (Nat × Int)) (bettor : Nat) (b : Book) (r : List (Nat × Int) × Book),
    bettorWins bal bettor b fulfs = some r → nh_BkOk b → nh_BkOk r.2 := by
  intro fulfs
  induction fulfs with
  | nil => intro bal bettor b r h hb; simp [bettorWins] at h; rw [← h]; exact hb
  | cons f rest ih =>
    intro bal bettor b r h hb
    unfold bettorWins at h
    simp only [bind, Option.bind_eq_some_iff] at h
    obtain ⟨p, hp, bal', _, h⟩ := h
    have hf : 0 ≤ p.fee := nh_bkOk_get hb hp
    exact ih _ _ _ _ h (nh_bkOk_setPart hb _ hf)

theorem nh_settleOutcome_feeOk {bal : List (Nat × Int)} {won : Bool} {bettor : Nat} {b : Book} {fulfs : List Fulf}
    {r : List (Nat × Int) × Book} (h : settleOutcome bal won bettor b fulfs = some r) (hb : nh_BkOk b) : nh_BkOk r.2 := by
  unfold settleOutcome at h
  split at h
  · exact nh_bettorWins_feeOk _ _ _ _ _ h hb
  · simp only [Option.map_eq_some_iff] at h
    obtain ⟨b', hb', rfl⟩ := h
    exact nh_bettorLoses_feeOk _ _ _ hb' hb

theorem nh_settleBet_feeOk {s s' : State} {c u : Nat} (hI : nh_PartFeeOk s) (h : settleBet s c u = some s') : nh_PartFeeOk s' := by
  unfold settleBet at h
  simp only [bind, Option.bind_eq_some_iff] at h
  obtain ⟨bet0, _, bet, _, _, _, m, _, h⟩ := h
  split at h
  · unfold settleRefund at h
    simp only [bind, Option.bind_eq_some_iff, pure, Option.some.injEq] at h
    obtain ⟨s1, h1, s2, h2, rfl⟩ := h
    obtain ⟨_, _, rfl⟩ := bankSend_shape h1
    obtain ⟨_, _, rfl⟩ := bankSend_shape h2
    exact nh_partFeeOk_of_books hI rfl
  · simp only [Option.bind_eq_some_iff] at h
    obtain ⟨_, _, h⟩ := h
    unfold settleDeclared at h
    simp only [bind, Option.bind_eq_some_iff, pure, Option.some.injEq] at h
    obtain ⟨bk, hbk, r, hr, s2, h2, rfl⟩ := h
    obtain ⟨_, _, rfl⟩ := bankSend_shape h2
    have hx := nh_settleOutcome_feeOk hr (nh_partFeeOk_book hI hbk)
    exact nh_partFeeOk_of_books (nh_partFeeOk_setBook hI r.2 hx) rfl

theorem nh_settlePage_feeOk : ∀ (page : List (Nat × Nat × Nat × Nat)) (s : State) (r : State × Nat),
    nh_PartFeeOk s → settlePage s page = some r → nh_PartFeeOk r.1 := by
  intro page
  induction page with
  | nil => intro s r hI h; simp [settlePage] at h; rw [← h]; exact hI
  | cons pb rest ih =>
    intro s r hI h
    unfold settlePage at h
    simp only [bind, Option.bind_eq_some_iff, pure, Option.some.injEq] at h
    obtain ⟨s1, h1, r1, hr, rfl⟩ := h
    exact ih _ r1 (nh_settleBet_feeOk hI h1) hr

theorem nh_bookResolved_feeOk {s s' : State} {u : Nat} (hI : nh_PartFeeOk s) (h : bookResolved s u = some s') : nh_PartFeeOk s' := by
  unfold bookResolved at h
  simp only [bind, Option.bind_eq_some_iff, pure, Option.some.injEq] at h
  obtain ⟨b, hb, _, _, rfl⟩ := h
  have hb0 : nh_BkOk b := nh_partFeeOk_book hI hb
  have hb' : nh_BkOk { b with status := OB_RESOLVED } := hb0
  exact nh_partFeeOk_of_books (nh_partFeeOk_setBook hI _ hb') rfl

theorem nh_betEndBlockStep_feeOk {s : State} {mk n : Nat} {r : State × Nat} (hI : nh_PartFeeOk s)
    (h : betEndBlockStep s mk n = some r) : nh_PartFeeOk r.1 := by
  unfold betEndBlockStep at h
  simp only [bind, Option.bind_eq_some_iff] at h
  obtain ⟨r0, h0, h⟩ := h
  have e0 := nh_settlePage_feeOk _ _ _ hI h0
  split at h
  · simp only [pure, Option.some.injEq] at h; rw [← h]; exact e0
  · simp only [Option.bind_eq_some_iff, pure, Option.some.injEq] at h
    obtain ⟨q, _, s2, h2, rfl⟩ := h
    have e1 : nh_PartFeeOk { r0.1 with mqueue := q } := nh_partFeeOk_of_books e0 rfl
    exact nh_bookResolved_feeOk e1 h2

theorem nh_betEndBlock_feeOk : ∀ (fuel : Nat) (s : State) (n : Nat) (s' : State),
    nh_PartFeeOk s → betEndBlock fuel s n = some s' → nh_PartFeeOk s' := by
  intro fuel
  induction fuel with
  | zero => intro s n s' hI h; simp [betEndBlock] at h; rw [← h]; exact hI
  | succ fuel ih =>
    intro s n s' hI h
    unfold betEndBlock at h
    split at h
    · simp at h; rw [← h]; exact hI
    · split at h
      · simp at h; rw [← h]; exact hI
      · simp only [bind, Option.bind_eq_some_iff] at h
        obtain ⟨r, hr, h⟩ := h
        exact ih _ _ _ (nh_betEndBlockStep_feeOk hI hr) h

theorem nh_settlePart_feeOk {s : State} {b : Book} {p : Part} {m : Market} {r : State × Book} (h : settlePart s b p m = some r)
    (hb : nh_BkOk b) (hp : 0 ≤ p.fee) : r.1.books = s.books ∧ nh_BkOk r.2 := by
  unfold settlePart at h
  simp only [bind, Option.bind_eq_some_iff] at h
  obtain ⟨_, _, _, _, s1, h1, h⟩ := h
  obtain ⟨_, _, rfl⟩ := bankSend_shape h1
  split at h
  · simp only [Option.bind_eq_some_iff, pure, Option.some.injEq] at h
    obtain ⟨s2, h2, rfl⟩ := h
    obtain ⟨_, _, rfl⟩ := bankSend_shape h2
    exact ⟨rfl, nh_bkOk_setPart hb _ hp⟩
  · simp only [Option.bind_eq_some_iff, pure, Option.some.injEq] at h
    obtain ⟨s2, h2, rfl⟩ := h
    obtain ⟨_, _, rfl⟩ := bankSend_shape h2
    exact ⟨rfl, nh_bkOk_setPart hb _ hp⟩

theorem nh_settleParts_feeOk (m : Market) (count : Nat) : ∀ (ps : List Part) (s : State) (b : Book) (sc pr : Nat)
    (r : State × Book × Nat × Nat), settleParts m count ps s b sc pr = some r →
    (∀ p ∈ ps, 0 ≤ p.fee) → nh_BkOk b → r.1.books = s.books ∧ nh_BkOk r.2.1 := by
  intro ps
  induction ps with
  | nil => intro s b sc pr r h _ hb; simp [settleParts] at h; rw [← h]; exact ⟨rfl, hb⟩
  | cons p rest ih =>
    intro s b sc pr r h hps hb
    unfold settleParts at h
    simp only [bind, Option.bind_eq_some_iff] at h
    obtain ⟨r1, h1, h⟩ := h
    have hstep : r1.1.books = s.books ∧ nh_BkOk r1.2.1 := by
      unfold settleOne at h1
      split at h1
      · simp only [Option.map_eq_some_iff] at h1
        obtain ⟨x, hx, rfl⟩ := h1
        exact nh_settlePart_feeOk hx hb (hps p (List.mem_cons_self ..))
      · cases h1
        exact ⟨rfl, hb⟩
    split at h
    · simp only [pure, Option.some.injEq] at h
      rw [← h]
      exact hstep
    · obtain ⟨e2, hb2⟩ := ih _ _ _ _ _ h (fun q hq => hps q (List.mem_cons_of_mem _ hq)) hstep.2
      exact ⟨e2.trans hstep.1, hb2⟩

theorem nh_obEndBlock_feeOk : ∀ (fuel : Nat) (s : State) (n i : Nat) (s' : State),
    nh_PartFeeOk s → obEndBlock fuel s n i = some s' → nh_PartFeeOk s' := by
  intro fuel
  induction fuel with
  | zero => intro s n i s' hI h; simp [obEndBlock] at h; rw [← h]; exact hI
  | succ fuel ih =>
    intro s n i s' hI h
    unfold obEndBlock at h
    split at h
    · simp at h; rw [← h]; exact hI
    · split at h
      · simp at h; rw [← h]; exact hI
      · simp only [bind, Option.bind_eq_some_iff] at h
        obtain ⟨b, hb, m, _, _, _, r, hr, h⟩ := h
        have hbk := nh_partFeeOk_book hI hb
        obtain ⟨e1, hx⟩ := nh_settleParts_feeOk m n b.parts s b 0 0 r hr hbk hbk
        have hI1 : nh_PartFeeOk r.1 := nh_partFeeOk_of_books hI e1
        split at h
        · simp only [Option.bind_eq_some_iff] at h
          obtain ⟨q, _, h⟩ := h
          apply ih _ _ _ _ ?_ h
          have hx2 : nh_BkOk { r.2.1 with status := OB_SETTLED } := hx
          have hI2 : nh_PartFeeOk { r.1 with obqueue := q } := nh_partFeeOk_of_books hI1 rfl
          exact nh_partFeeOk_setBook hI2 _ hx2
        · apply ih _ _ _ _ ?_ h
          exact nh_partFeeOk_setBook hI1 _ hx

theorem nh_endBlockO_feeOk {s s' : State} (hI : nh_PartFeeOk s) (h : endBlockO s = some s') : nh_PartFeeOk s' := by
  unfold endBlockO at h
  simp only [bind, Option.bind_eq_some_iff] at h
  obtain ⟨s1, h1, h2⟩ := h
  exact nh_obEndBlock_feeOk _ _ _ _ _ (nh_betEndBlock_feeOk _ _ _ _ hI h1) h2

theorem nh_marketAddO_feeOk {s s' : State} {c : Nat} {tk : Tk} {u st en : Nat} {o : List Nat} {stt : Nat}
    (hI : nh_PartFeeOk s) (h : marketAddO s c tk u st en o stt = some s') : nh_PartFeeOk s' := by
  unfold marketAddO at h
  simp only [bind, Option.bind_eq_some_iff, pure, Option.some.injEq] at h
  obtain ⟨_, _, _, _, _, _, _, _, _, _, _, _, _, _, rfl⟩ := h
  have hb : nh_BkOk (newBook u o) := by
    intro p hp
    have hp : p ∈ ([] : List Part) := hp
    cases hp
  exact nh_partFeeOk_of_books (nh_partFeeOk_setBook hI _ hb) rfl

theorem nh_marketUpdateO_feeOk {s s' : State} {tk : Tk} {u st en stt : Nat}
    (hI : nh_PartFeeOk s) (h : marketUpdateO s tk u st en stt = some s') : nh_PartFeeOk s' := by
  unfold marketUpdateO at h
  simp only [bind, Option.bind_eq_some_iff, pure, Option.some.injEq] at h
  obtain ⟨_, _, m, _, _, _, _, _, _, _, rfl⟩ := h
  exact nh_partFeeOk_of_books hI rfl

theorem nh_marketResolveO_feeOk {s s' : State} {tk : Tk} {u ts stt : Nat} {w : List Nat}
    (hI : nh_PartFeeOk s) (h : marketResolveO s tk u ts stt w = some s') : nh_PartFeeOk s' := by
  unfold marketResolveO at h
  simp only [bind, Option.bind_eq_some_iff, pure, Option.some.injEq] at h
  obtain ⟨_, _, _, _, m, _, _, _, _, _, rfl⟩ := h
  exact nh_partFeeOk_of_books hI rfl

theorem nh_houseDepositO_feeOk {s : State} {r : State × Nat} {c : Nat} {tk : Tk} {m : Nat} {a : Int} {pd : Nat}
    (hv : s.params.valid = true) (hI : nh_PartFeeOk s) (h : houseDepositO s c tk m a pd = some r) : nh_PartFeeOk r.1 := by
  unfold houseDepositO at h
  simp only [bind, Option.bind_eq_some_iff, pure, Option.some.injEq] at h
  obtain ⟨_, ha, _, _, _, _, s1, hs1, _, _, mk, _, b, hb, _, _, _, _, _, _, _, _, s2, hs2, s3, hs3, rfl⟩ := h
  obtain ⟨gs, rfl⟩ := grantStep_shape hs1
  obtain ⟨bal2, _, rfl⟩ := bankSend_shape hs2
  obtain ⟨bal3, _, rfl⟩ := bankSend_shape hs3
  have ha : 0 < a := by simpa using chk_some ha
  have hb' : getBook s m = some b := hb
  have hfee : 0 ≤ (s.params.houseFee.mulInt a).roundInt := by
    unfold Dec.roundInt Dec.mulInt
    exact chopRound_nonneg (Int.mul_nonneg (nh_houseFee_nonneg hv) (by omega))
  have hbk := nh_partFeeOk_book hI hb'
  have hnew : nh_BkOk (b.addParticipation (depositFor c pd) (a - (s.params.houseFee.mulInt a).roundInt)
      (s.params.houseFee.mulInt a).roundInt).1 := by
    unfold Book.addParticipation
    simp only
    have hf := initExposuresFold_parts (b.partCount + 1)
      (b.setPart (b.newPart (depositFor c pd) (a - (s.params.houseFee.mulInt a).roundInt) (s.params.houseFee.mulInt a).roundInt)).queues
      (b.setPart (b.newPart (depositFor c pd) (a - (s.params.houseFee.mulInt a).roundInt) (s.params.houseFee.mulInt a).roundInt))
    exact nh_bkOk_of_parts (nh_bkOk_setPart hbk _ hfee) hf.1
  exact nh_partFeeOk_of_books (nh_partFeeOk_setBook hI _ hnew) rfl

theorem nh_withdraw_feeOk {b b' : Book} {idx : Nat} {w : Int} (h : b.withdraw idx w = some b') (hb : nh_BkOk b) : nh_BkOk b' := by
  unfold Book.withdraw at h
  cases hp : b.getPart idx with
  | none => rw [hp] at h; cases h
  | some p =>
    rw [hp] at h
    simp only at h
    have hf : 0 ≤ p.fee := nh_bkOk_get hb hp
    have h1 : nh_BkOk (b.setPart { p with crl := p.crl - w, liq := p.liq - w }) := nh_bkOk_setPart hb _ hf
    split at h
    · cases h; exact h1
    · exact nh_bkOk_of_parts h1 (removeFromQueues_parts idx _ _ _ h).1

theorem nh_houseWithdrawO_feeOk {s s' : State} {c : Nat} {tk : Tk} {m i md : Nat} {a : Int} {pd : Nat}
    (hI : nh_PartFeeOk s) (h : houseWithdrawO s c tk m i md a pd = some s') : nh_PartFeeOk s' := by
  unfold houseWithdrawO at h
  simp only [bind, Option.bind_eq_some_iff, pure, Option.some.injEq] at h
  obtain ⟨_, _, _, _, _, _, _, _, _, _, d, _, b, hb, _, _, w, _, s1, hs1, p, _, s2, hs2, b', hb', rfl⟩ := h
  obtain ⟨gs, rfl⟩ := grantStep_shape hs1
  obtain ⟨bal2, _, rfl⟩ := bankSend_shape hs2
  have hx := nh_withdraw_feeOk hb' (nh_partFeeOk_book hI hb)
  exact nh_partFeeOk_of_books (nh_partFeeOk_setBook hI _ hx) rfl

theorem nh_wagerO_partFeeOk {s s' : State} {c : Nat} {tk : Tk} {u : Nat} {a : Int} {pl : WagerPayload}
    (hO : ObInv s) (hI : nh_PartFeeOk s) (h : wagerO s c tk u a pl = some s') : nh_PartFeeOk s' := by
  unfold wagerO at h
  simp only [bind, Option.bind_eq_some_iff, pure, Option.some.injEq] at h
  obtain ⟨_, _, _, _, _, _, _, _, _, _, _, _, _, _, m, hm, _, _, _, _, _, _, _, _, _, _, _, _, ov, _, _, _, b, hb, r, hr, s1, hs1, s2, hs2, rfl⟩ := h
  obtain ⟨b', fulfs, taken⟩ := r
  obtain ⟨bal1, _, rfl⟩ := bankSend_shape hs1
  obtain ⟨bal2, _, rfl⟩ := bankSend_shape hs2
  obtain ⟨hbm, _⟩ := getBook_mem hb
  have hsP := (hO.qinv b hbm).s.sP
  obtain ⟨_, _, _, _, hfrom⟩ := processWager_custody _ _ _ _ _ _ _ _ _ _ _ _ _ hsP hr
  have hx : nh_BkOk b' := by
    intro q hq
    obtain ⟨q0, hq0, hc⟩ := hfrom q hq
    rw [hc.2.2.2.1]
    exact hI b hbm q0 hq0
  exact nh_partFeeOk_of_books (nh_partFeeOk_setBook hI _ hx) rfl

/-- one operation keeps the fees of the participations non-negative -/
theorem nh_step_partFeeOk (s : State) (op : Op) (hO : ObInv s) (hv : s.params.valid = true) (hI : nh_PartFeeOk s) :
    nh_PartFeeOk (step s op).1 := by
  cases op with
  | marketAdd c tk u st en o stt =>
    simp only [step, marketAdd, commit]
    cases h : marketAddO s c tk u st en o stt with
    | none => exact hI
    | some s' => exact nh_marketAddO_feeOk hI h
  | marketUpdate tk u st en stt =>
    simp only [step, marketUpdate, commit]
    cases h : marketUpdateO s tk u st en stt with
    | none => exact hI
    | some s' => exact nh_marketUpdateO_feeOk hI h
  | marketResolve tk u ts stt w =>
    simp only [step, marketResolve, commit]
    cases h : marketResolveO s tk u ts stt w with
    | none => exact hI
    | some s' => exact nh_marketResolveO_feeOk hI h
  | deposit c tk m a pd =>
    simp only [step, houseDeposit]
    cases h : houseDepositO s c tk m a pd with
    | none => exact hI
    | some r => exact nh_houseDepositO_feeOk hv hI h
  | withdraw c tk m i md a pd =>
    simp only [step, houseWithdraw, commit]
    cases h : houseWithdrawO s c tk m i md a pd with
    | none => exact hI
    | some s' => exact nh_houseWithdrawO_feeOk hI h
  | wager c tk u a pl =>
    simp only [step, wager, commit]
    cases h : wagerO s c tk u a pl with
    | none => exact hI
    | some s' => exact nh_wagerO_partFeeOk hO hI h
  | grant g e k l x => exact nh_partFeeOk_of_books hI rfl
  | revoke g e k => exact nh_partFeeOk_of_books hI rfl
  | send a b x =>
    simp only [step]
    split
    · exact hI
    · unfold commit
      cases h : bankSend s a b x with
      | none => exact hI
      | some s' =>
        obtain ⟨_, _, rfl⟩ := bankSend_shape h
        exact nh_partFeeOk_of_books hI rfl
  | setParams p =>
    simp only [step]
    split
    · exact nh_partFeeOk_of_books hI rfl
    · exact hI
  | endBlock =>
    simp only [step, endBlock]
    cases h : endBlockO s with
    | none => exact hI
    | some s' => exact nh_endBlockO_feeOk hI h
  | newBlock h t => exact nh_partFeeOk_of_books hI rfl

theorem nh_run_partFeeOk_aux : ∀ (ops : List Op) (s : State), ObInv s → s.params.valid = true → nh_PartFeeOk s →
    nh_PartFeeOk (run s ops) := by
  intro ops
  induction ops with
  | nil => intro s _ _ h; exact h
  | cons op rest ih =>
    intro s hO hv hI
    exact ih (step s op).1 (step_obInv s op hO) (nh_step_valid s op hv) (nh_step_partFeeOk s op hO hv hI)

/-- in every reachable state every stored participation has a non-negative fee -/
theorem nh_run_partFeeOk (p : Params) (bal : List (Nat × Int)) (h t : Nat) (ops : List Op) (hp : p.valid = true) :
    nh_PartFeeOk (run (initState p bal h t) ops) :=
  nh_run_partFeeOk_aux ops _ (obInv_init p bal h t) hp (by intro b hb; cases hb)

/-- both whole-history facts together -/
theorem nh_run_betsOk (p : Params) (bal : List (Nat × Int)) (h t : Nat) (ops : List Op) (hp : p.valid = true) :
    nh_BetsOk (run (initState p bal h t) ops) ∧ nh_PartFeeOk (run (initState p bal h t) ops) :=
  ⟨nh_run_betsOk_bets p bal h t ops hp, nh_run_partFeeOk p bal h t ops hp⟩

end Sge.Core
