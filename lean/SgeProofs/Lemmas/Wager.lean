/- L2: the accounting invariant of the wager loop (fulfillBetByParticipationQueue) -/
import Sge.Core.Orderbook
import SgeProofs.Lemmas.Dec
namespace Sge.Core
open Sge

def sumBet (fs : List Fulf) : Int := (fs.map (·.bet)).sum
def sumProfit (fs : List Fulf) : Int := (fs.map (·.profit)).sum

theorem sumBet_append (a b : List Fulf) : sumBet (a ++ b) = sumBet a + sumBet b := by
  simp [sumBet, List.sum_append]
theorem sumProfit_append (a b : List Fulf) : sumProfit (a ++ b) = sumProfit a + sumProfit b := by
  simp [sumProfit, List.sum_append]

theorem sumBet_snoc (a : List Fulf) (x : Fulf) : sumBet (a ++ [x]) = sumBet a + x.bet := by
  simp [sumBet, List.sum_append]
theorem sumProfit_snoc (a : List Fulf) (x : Fulf) : sumProfit (a ++ [x]) = sumProfit a + x.profit := by
  simp [sumProfit, List.sum_append]

/-- accounting state of a wager in progress, relative to the requested stake `A` and promised profit `P` (raw) -/
structure Acc (A P : Int) (f : FInfo) : Prop where
  charged : f.fulfilled = sumBet f.fulfs
  rest : f.betAmount + f.fulfilled = A
  profit : f.payoutProfit.raw + sumProfit f.fulfs * PREC = P
  remaining : 0 ≤ f.payoutProfit.raw
  profits_nonneg : ∀ x ∈ f.fulfs, 0 ≤ x.profit

theorem requeue_core (f : FInfo) (p : Part) (e : PExp) (o : Nat) :
    (requeue f p e o).fulfilled = f.fulfilled ∧ (requeue f p e o).fulfs = f.fulfs ∧
    (requeue f p e o).betAmount = f.betAmount ∧ (requeue f p e o).payoutProfit = f.payoutProfit ∧
    (requeue f p e o).trunc = f.trunc ∧ (requeue f p e o).err = f.err := by
  unfold requeue
  simp only
  split <;> exact ⟨rfl, rfl, rfl, rfl, rfl, rfl⟩

theorem stage3_core (o : Nat) (x : Part × PExp × FInfo) :
    (stage3 o x).fulfilled = x.2.2.fulfilled ∧ (stage3 o x).fulfs = x.2.2.fulfs ∧
    (stage3 o x).betAmount = x.2.2.betAmount ∧ (stage3 o x).payoutProfit = x.2.2.payoutProfit := by
  unfold stage3
  simp only
  split
  · have := requeue_core { x.2.2 with book := (x.2.2.book.setExp x.2.1).setPart x.1 } x.1 x.2.1 o
    exact ⟨this.1, this.2.1, this.2.2.1, this.2.2.2.1⟩
  · exact ⟨rfl, rfl, rfl, rfl⟩

theorem stage2_core (o : Nat) (mo : List Nat) (ms : List (Nat × Dec)) (thr : Int) (x : Part × PExp × Bool × FInfo) :
    (stage2 o mo ms thr x).2.2.fulfilled = x.2.2.2.fulfilled ∧ (stage2 o mo ms thr x).2.2.fulfs = x.2.2.2.fulfs ∧
    (stage2 o mo ms thr x).2.2.betAmount = x.2.2.2.betAmount ∧ (stage2 o mo ms thr x).2.2.payoutProfit = x.2.2.2.payoutProfit := by
  unfold stage2
  split
  · simp only
    split <;> exact ⟨rfl, rfl, rfl, rfl⟩
  · exact ⟨rfl, rfl, rfl, rfl⟩

/-- the fulfilment decided by one visit never promises more than the remaining payout profit, nor a negative one -/
theorem decide1_profit (ov : Dec) (thr avail pp ba : Int) (tr : Dec) (b π : Int)
    (h : (decide1 ov thr avail pp ba tr).1 = some (b, π)) (hpp : 0 ≤ pp) : 0 ≤ π ∧ π ≤ pp := by
  unfold decide1 at h
  split at h
  · cases h
  · split at h
    · simp only [Option.some.injEq, Prod.mk.injEq] at h
      omega
    · simp only [Option.some.injEq, Prod.mk.injEq] at h
      omega

theorem stage1_acc (A P : Int) (o : Nat) (ov mult : Dec) (thr : Int) (f : FInfo) (pe : Part × PExp) (h : Acc A P f) :
    Acc A P (stage1 o ov mult thr f pe).2.2.2 := by
  obtain ⟨h1, h2, h3, h4, h5⟩ := h
  have hpp0 : 0 ≤ f.payoutProfit.truncInt := chopTrunc_ge_zero h4
  have hpp1 : f.payoutProfit.truncInt * PREC ≤ f.payoutProfit.raw := chopTrunc_le_of_nonneg h4
  unfold stage1
  simp only
  split
  · rename_i bAmt π hd
    have hb := decide1_profit _ _ _ _ _ _ _ _ hd hpp0
    constructor
    · show f.fulfilled + bAmt = sumBet (f.fulfs ++ [_])
      rw [sumBet_snoc]; simp only; omega
    · show f.betAmount - bAmt + (f.fulfilled + bAmt) = A
      omega
    · show (f.payoutProfit.sub (Dec.ofInt π)).raw + sumProfit (f.fulfs ++ [_]) * PREC = P
      rw [sumProfit_snoc]
      simp only [Dec.sub, Dec.ofInt]
      rw [Int.add_mul]
      omega
    · show 0 ≤ (f.payoutProfit.sub (Dec.ofInt π)).raw
      simp only [Dec.sub, Dec.ofInt]
      have : π * PREC ≤ f.payoutProfit.truncInt * PREC := by
        unfold PREC; omega
      omega
    · intro x hx
      have hx : x ∈ f.fulfs ++ [_] := hx
      simp only [List.mem_append, List.mem_cons, List.not_mem_nil, or_false] at hx
      rcases hx with hx | hx
      · exact h5 x hx
      · rw [hx]; exact hb.1
  · exact ⟨h1, h2, h3, h4, h5⟩

theorem visit_acc (A P : Int) (o : Nat) (ov mult : Dec) (mo : List Nat) (ms : List (Nat × Dec)) (thr : Int) (f : FInfo) (i : Nat)
    (h : Acc A P f) : Acc A P (visit o ov mult mo ms thr f i) := by
  unfold visit
  split
  · exact ⟨h.1, h.2, h.3, h.4, h.5⟩
  · rename_i pe _
    have h1 := stage1_acc A P o ov mult thr f pe h
    have h2 := stage2_core o mo ms thr (stage1 o ov mult thr f pe)
    have h3 := stage3_core o (stage2 o mo ms thr (stage1 o ov mult thr f pe))
    obtain ⟨a1, a2, a3, a4, a5⟩ := h1
    constructor
    · rw [h3.1, h3.2.1, h2.1, h2.2.1]; exact a1
    · rw [h3.1, h3.2.2.1, h2.1, h2.2.2.1]; exact a2
    · rw [h3.2.2.2, h3.2.1, h2.2.2.2, h2.2.1]; exact a3
    · rw [h3.2.2.2, h2.2.2.2]; exact a4
    · rw [h3.2.1, h2.2.1]; exact a5

theorem loop_acc (A P : Int) (o : Nat) (ov mult : Dec) (mo : List Nat) (ms : List (Nat × Dec)) (thr : Int) :
    ∀ (q : List Nat) (f : FInfo), Acc A P f → Acc A P (loop o ov mult mo ms thr q f) := by
  intro q
  induction q with
  | nil => intro f h; exact h
  | cons i rest ih =>
    intro f h
    unfold loop
    simp only
    have hv := visit_acc A P o ov mult mo ms thr f i h
    split
    · exact hv
    · split
      · exact hv
      · exact ih _ hv

end Sge.Core

namespace Sge.Core
open Sge

/-- the stake taken is the sum of the backing parts — for every payout profit, also a negative one -/
theorem stage1_charged (o : Nat) (ov mult : Dec) (thr : Int) (f : FInfo) (pe : Part × PExp)
    (h : f.fulfilled = sumBet f.fulfs) :
    (stage1 o ov mult thr f pe).2.2.2.fulfilled = sumBet (stage1 o ov mult thr f pe).2.2.2.fulfs := by
  unfold stage1
  simp only
  split
  · rename_i bAmt π _
    show f.fulfilled + bAmt = sumBet (f.fulfs ++ [_])
    rw [sumBet_snoc]; simp only; omega
  · exact h

theorem visit_charged (o : Nat) (ov mult : Dec) (mo : List Nat) (ms : List (Nat × Dec)) (thr : Int) (f : FInfo) (i : Nat)
    (h : f.fulfilled = sumBet f.fulfs) :
    (visit o ov mult mo ms thr f i).fulfilled = sumBet (visit o ov mult mo ms thr f i).fulfs := by
  unfold visit
  split
  · exact h
  · rename_i pe _
    have h1 := stage1_charged o ov mult thr f pe h
    have h2 := stage2_core o mo ms thr (stage1 o ov mult thr f pe)
    have h3 := stage3_core o (stage2 o mo ms thr (stage1 o ov mult thr f pe))
    rw [h3.1, h3.2.1, h2.1, h2.2.1]; exact h1

theorem loop_charged (o : Nat) (ov mult : Dec) (mo : List Nat) (ms : List (Nat × Dec)) (thr : Int) :
    ∀ (q : List Nat) (f : FInfo), f.fulfilled = sumBet f.fulfs →
      (loop o ov mult mo ms thr q f).fulfilled = sumBet (loop o ov mult mo ms thr q f).fulfs := by
  intro q
  induction q with
  | nil => intro f h; exact h
  | cons i rest ih =>
    intro f h
    unfold loop
    simp only
    have hv := visit_charged o ov mult mo ms thr f i h
    split
    · exact hv
    · split
      · exact hv
      · exact ih _ hv

theorem processWager_charged (b b' : Book) (o betId : Nat) (ov mult : Dec) (mo : List Nat) (ms : List (Nat × Dec))
    (thr A : Int) (P : Dec) (fulfs : List Fulf) (taken : Int)
    (h : processWager b o betId ov mult mo ms thr A P = some (b', fulfs, taken)) : taken = sumBet fulfs := by
  unfold processWager at h
  simp only [bind, Option.bind_eq_some_iff] at h
  obtain ⟨q, _, f0, hf0, h⟩ := h
  have h0 : f0.fulfilled = sumBet f0.fulfs := by
    unfold initFInfo at hf0
    simp only [bind, Option.bind_eq_some_iff, pure, Option.some.injEq] at hf0
    obtain ⟨_, _, _, _, _, _, _, _, rfl⟩ := hf0
    rfl
  have hl := loop_charged o ov mult mo ms thr q f0 h0
  unfold finishWager at h
  split at h
  · cases h
  · split at h
    · cases h
    · simp only [Option.some.injEq, Prod.mk.injEq] at h
      obtain ⟨_, h2, h3⟩ := h
      rw [← h3, ← h2]; exact hl

end Sge.Core
