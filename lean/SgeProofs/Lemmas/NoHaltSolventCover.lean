/-
  C05 "block processing never aborts" for whole histories: the cover inequality of weak solvency (`nh_Sol.partCover`)
  follows from the whole-history invariants `ObInv` (C10 sums), `ApInv` (realised profit) and `ColSt` (C02 collateral).

  Term by term, for every bet `x` of a declared market with winner `w`:
      (promised winnings of `x` if it is an unsettled winner) − (what settling `x` booked) − (stake of `x` if it is an
      unsettled loser) = promised winnings on `w` + stake on `w` − stake,
  an EQUATION, so no sign condition on the backing parts is needed; summed over the bets the right-hand side is the
  left-hand side of the collateral inequality `totE w + totB w − totalBet ≤ liq`.
-/
import SgeProofs.Lemmas.NoHaltSolventDefs
import SgeProofs.Properties.C02Reach
namespace Sge.Core
open Sge Sge.Genesis

theorem nh_fpAt_cProfit (fs : List Fulf) (i : Nat) : sumBy (fpAt i) fs = cProfit fs i := by
  unfold cProfit
  apply sumBy_congr
  intro f _
  unfold fpAt
  simp only [beq_iff_eq]

theorem nh_fbAt_cBet (fs : List Fulf) (i : Nat) : sumBy (fbAt i) fs = cBet fs i := by
  unfold cBet
  apply sumBy_congr
  intro f _
  unfold fbAt
  simp only [beq_iff_eq]

theorem nh_sumBy_add_sub {α : Type} (f g k : α → Int) (l : List α) :
    sumBy (fun x => f x + g x - k x) l = sumBy f l + sumBy g l - sumBy k l := by
  induction l with
  | nil => rfl
  | cons x xs ih => rw [sumBy_cons, sumBy_cons, sumBy_cons, sumBy_cons, ih]; omega

/-- on a market that is not declared nothing is promised and no losing stake is outstanding -/
theorem nh_undeclared_zero {s : State} {u : Nat} (hnd : nh_declared s u = false) (i : Nat) :
    promisedW s u i = 0 ∧ nh_openLoss s u i = 0 := by
  have hwo : ∀ o, wonOutcome s u o = false := by
    intro o
    unfold nh_declared at hnd
    unfold wonOutcome
    split
    · rename_i m hm
      rw [hm] at hnd
      simp only at hnd
      rw [hnd]; rfl
    · rfl
  constructor
  · unfold promisedW
    apply sumBy_zero
    intro x _
    unfold winsOn
    rw [hwo]
    simp
  · unfold nh_openLoss
    apply sumBy_zero
    intro x _
    unfold nh_losesOn
    rw [hnd]
    simp

/-- the cover inequality of weak solvency follows from the whole-history invariants -/
theorem nh_cover_of_invariants {s : State} (hI : ObInv s) (hA : ApInv s) (hC : ColSt s) :
    ∀ b ∈ s.books, ∀ pt ∈ b.parts, ∀ m, getMarket s b.uid = some m →
      promisedW s b.uid pt.idx ≤ pt.liq + pt.actualProfit + nh_openLoss s b.uid pt.idx := by
  intro b hb pt hpt m hm
  have hq := hI.qinv b hb
  have hg := Book.mem_getPart hq.s.sP hpt
  have hCp : IInv (b.colItem pt) := hC b hb pt.idx pt hg
  have hrng : 0 ≤ pt.crl ∧ pt.crl ≤ pt.liq := hCp.rng
  have hap := hA.ap b hb m hm pt.idx pt hg
  by_cases hd : m.status = MS_DECLARED
  · rw [if_pos hd] at hap
    have hw := hA.win m (getMarket_memQ hm) hd
    obtain ⟨w, hw⟩ : ∃ w, m.winners = [w] := by
      cases hml : m.winners with
      | nil => rw [hml] at hw; cases hw
      | cons w ws =>
        cases ws with
        | nil => exact ⟨w, rfl⟩
        | cons _ _ => rw [hml] at hw; simp at hw
    have hdec : nh_declared s b.uid = true := by
      unfold nh_declared; rw [hm]; simp [hd]
    have hwo : ∀ o, wonOutcome s b.uid o = (o == w) := by
      intro o
      unfold wonOutcome; rw [hm]
      by_cases h : o = w <;> simp [hd, hw, h]
    have hsum : promisedW s b.uid pt.idx - sumBy (apTerm b.uid m.winners pt.idx) s.bets - nh_openLoss s b.uid pt.idx =
        sumBy (betProfitAt b.uid w pt.idx) s.bets + sumBy (betStakeOAt b.uid w pt.idx) s.bets
          - sumBy (betStakeAt b.uid pt.idx) s.bets := by
      unfold promisedW nh_openLoss
      rw [← col_sumBy_sub3, ← nh_sumBy_add_sub]
      apply sumBy_congr
      intro x hx
      unfold winsOn nh_losesOn apTerm betStakeAt betStakeOAt betProfitAt Bet.isOpen
      rw [hw, hwo, hdec, nh_fpAt_cProfit, nh_fbAt_cBet]
      by_cases hxm : x.market = b.uid
      · by_cases hst : x.status = BS_SETTLED
        · by_cases hxo : x.odds = w
          · simp [hxm, hst, hxo]
          · simp [hxm, hst, hxo]
        · by_cases hxo : x.odds = w
          · simp [hxm, hst, hxo]
          · simp [hxm, hst, hxo]
      · simp [hxm]
    rw [← hI.tb b hb pt.idx pt hg, ← hI.tB b hb w pt.idx, ← hI.tE b hb w pt.idx] at hsum
    have hcol := c02_collateral _ hCp w
    rw [col_item_collateral] at hcol
    have hc2 : (b.colItem pt).liq = pt.liq := rfl
    rw [hc2] at hcol
    omega
  · rw [if_neg hd] at hap
    have hdec : nh_declared s b.uid = false := by
      unfold nh_declared; rw [hm]; simp [hd]
    obtain ⟨z1, z2⟩ := nh_undeclared_zero hdec pt.idx
    omega

/-- the same without naming the market: a book without a market record has no realised profit (`SInv.profitDeclared`) -/
theorem nh_cover_of_invariants' {s : State} (hI : ObInv s) (hA : ApInv s) (hC : ColSt s) (hS : SInv s) :
    ∀ b ∈ s.books, ∀ pt ∈ b.parts,
      promisedW s b.uid pt.idx ≤ pt.liq + pt.actualProfit + nh_openLoss s b.uid pt.idx := by
  intro b hb pt hpt
  cases hm : getMarket s b.uid with
  | some m => exact nh_cover_of_invariants hI hA hC b hb pt hpt m hm
  | none =>
    have hq := hI.qinv b hb
    have hg := Book.mem_getPart hq.s.sP hpt
    have hCp : IInv (b.colItem pt) := hC b hb pt.idx pt hg
    have hrng : 0 ≤ pt.crl ∧ pt.crl ≤ pt.liq := hCp.rng
    have hdec : nh_declared s b.uid = false := by
      unfold nh_declared; rw [hm]
    obtain ⟨z1, z2⟩ := nh_undeclared_zero hdec pt.idx
    have hp0 : pt.actualProfit = 0 := by
      apply Classical.byContradiction
      intro hne
      obtain ⟨m, h1, _⟩ := hS.profitDeclared b hb pt hpt hne
      rw [hm] at h1; cases h1
    omega

/-- the cover inequality in every reachable state without a negative backing part -/
theorem nh_cover_run (p : Params) (bal : List (Nat × Int)) (h t : Nat) (ops : List Op) :
    let s := run (initState p bal h t) ops
    NonNegParts s → ∀ b ∈ s.books, ∀ pt ∈ b.parts, ∀ m, getMarket s b.uid = some m →
      promisedW s b.uid pt.idx ≤ pt.liq + pt.actualProfit + nh_openLoss s b.uid pt.idx := by
  intro s hnn
  have hI : ObInv s := c10_invariant p bal h t ops
  have hA : ApInv s := run_ap _ ops (obInv_init p bal h t) (apInv_init p bal h t)
  have hC : ColSt s := c02_collateral_partial p bal h t ops hnn
  exact nh_cover_of_invariants hI hA hC

/-- the same without naming the market, for histories of user-signed messages from empty module accounts -/
theorem nh_cover_run' (p : Params) (bal : List (Nat × Int)) (h t : Nat) (ops : List Op)
    (h0 : getBal bal ACC_POOL = 0 ∧ getBal bal ACC_BETFEE = 0 ∧ getBal bal ACC_HOUSEFEE = 0)
    (hwf : ∀ op ∈ ops, op.userSigned') :
    let s := run (initState p bal h t) ops
    NonNegParts s → ∀ b ∈ s.books, ∀ pt ∈ b.parts,
      promisedW s b.uid pt.idx ≤ pt.liq + pt.actualProfit + nh_openLoss s b.uid pt.idx := by
  intro s hnn
  have hI : ObInv s := c10_invariant p bal h t ops
  have hA : ApInv s := run_ap _ ops (obInv_init p bal h t) (apInv_init p bal h t)
  have hC : ColSt s := c02_collateral_partial p bal h t ops hnn
  have hS : SettleInv s := run_settleInv _ ops (settleInv_init p bal h t h0) hwf
  exact nh_cover_of_invariants' hI hA hC hS.toSInv

end Sge.Core
