/- frame lemmas: no handler of the core slice other than `setParams` changes the parameters -/
import SgeProofs.Lemmas.CoreFrame
namespace Sge.Core
open Sge

theorem marketAddO_params {s s' : State} {c : Nat} {tk : Tk} {u st en : Nat} {o : List Nat} {stt : Nat}
    (h : marketAddO s c tk u st en o stt = some s') : s'.params = s.params := by
  unfold marketAddO at h
  simp only [bind, Option.bind_eq_some_iff, pure, Option.some.injEq] at h
  obtain ⟨_, _, _, _, _, _, _, _, _, _, _, _, _, _, rfl⟩ := h
  rfl

theorem marketUpdateO_params {s s' : State} {tk : Tk} {u st en stt : Nat}
    (h : marketUpdateO s tk u st en stt = some s') : s'.params = s.params := by
  unfold marketUpdateO at h
  simp only [bind, Option.bind_eq_some_iff, pure, Option.some.injEq] at h
  obtain ⟨_, _, _, _, _, _, _, _, _, _, rfl⟩ := h
  rfl

theorem marketResolveO_params {s s' : State} {tk : Tk} {u ts stt : Nat} {w : List Nat}
    (h : marketResolveO s tk u ts stt w = some s') : s'.params = s.params := by
  unfold marketResolveO at h
  simp only [bind, Option.bind_eq_some_iff, pure, Option.some.injEq] at h
  obtain ⟨_, _, _, _, _, _, _, _, _, _, rfl⟩ := h
  rfl

theorem commit_params (s : State) (r : Option State) (h : ∀ s', r = some s' → s'.params = s.params) :
    (commit s r).1.params = s.params := by
  unfold commit
  cases r with
  | none => rfl
  | some s' => exact h s' rfl

theorem houseDepositO_params {s : State} {r : State × Nat} {c : Nat} {tk : Tk} {m : Nat} {a : Int} {pd : Nat}
    (h : houseDepositO s c tk m a pd = some r) : r.1.params = s.params := by
  unfold houseDepositO at h
  simp only [bind, Option.bind_eq_some_iff, pure, Option.some.injEq] at h
  obtain ⟨_, _, _, _, _, _, s1, h1, _, _, mk, _, b, _, _, _, _, _, _, _, _, _, s2, h2, s3, h3, rfl⟩ := h
  obtain ⟨_, rfl⟩ := grantStep_shape h1
  obtain ⟨_, _, rfl⟩ := bankSend_shape h2
  obtain ⟨_, _, rfl⟩ := bankSend_shape h3
  rfl

theorem houseWithdrawO_params {s s' : State} {c : Nat} {tk : Tk} {m i md : Nat} {a : Int} {pd : Nat}
    (h : houseWithdrawO s c tk m i md a pd = some s') : s'.params = s.params := by
  unfold houseWithdrawO at h
  simp only [bind, Option.bind_eq_some_iff, pure, Option.some.injEq] at h
  obtain ⟨_, _, _, _, _, _, _, _, _, _, d, _, b, _, _, _, w, _, s1, h1, p, _, s2, h2, b', _, rfl⟩ := h
  obtain ⟨_, rfl⟩ := grantStep_shape h1
  obtain ⟨_, _, rfl⟩ := bankSend_shape h2
  rfl

theorem wagerO_params {s s' : State} {c : Nat} {tk : Tk} {u : Nat} {a : Int} {pl : WagerPayload}
    (h : wagerO s c tk u a pl = some s') : s'.params = s.params := by
  unfold wagerO at h
  simp only [bind, Option.bind_eq_some_iff, pure, Option.some.injEq] at h
  obtain ⟨_, _, _, _, _, _, _, _, _, _, _, _, _, _, m, _, _, _, _, _, _, _, _, _, _, _, _, _, ov, _, _, _, b, _, r, _, s1, h1, s2, h2, rfl⟩ := h
  obtain ⟨_, _, rfl⟩ := bankSend_shape h1
  obtain ⟨_, _, rfl⟩ := bankSend_shape h2
  rfl

theorem markSettled_params (s : State) (b : Bet) : (markSettled s b).params = s.params := rfl

theorem settleBet_params {s s' : State} {c u : Nat} (h : settleBet s c u = some s') : s'.params = s.params := by
  unfold settleBet at h
  simp only [bind, Option.bind_eq_some_iff] at h
  obtain ⟨_, _, bet, _, _, _, m, _, h⟩ := h
  split at h
  · unfold settleRefund at h
    simp only [bind, Option.bind_eq_some_iff, pure, Option.some.injEq] at h
    obtain ⟨s1, h1, s2, h2, rfl⟩ := h
    obtain ⟨_, _, rfl⟩ := bankSend_shape h1
    obtain ⟨_, _, rfl⟩ := bankSend_shape h2
    rfl
  · simp only [bind, Option.bind_eq_some_iff] at h
    obtain ⟨_, _, h⟩ := h
    unfold settleDeclared at h
    simp only [bind, Option.bind_eq_some_iff, pure, Option.some.injEq] at h
    obtain ⟨bk, _, r, hr, s2, h2, rfl⟩ := h
    obtain ⟨_, _, rfl⟩ := bankSend_shape h2
    rfl

theorem settlePage_params : ∀ (page : List (Nat × Nat × Nat × Nat)) (s : State) (r : State × Nat),
    settlePage s page = some r → r.1.params = s.params := by
  intro page
  induction page with
  | nil => intro s r h; simp [settlePage] at h; rw [← h]
  | cons pb rest ih =>
    intro s r h
    unfold settlePage at h
    simp only [bind, Option.bind_eq_some_iff, pure, Option.some.injEq] at h
    obtain ⟨s1, h1, r1, hr, rfl⟩ := h
    show r1.1.params = _
    rw [ih _ _ hr, settleBet_params h1]

theorem betEndBlockStep_params {s : State} {mk n : Nat} {r : State × Nat} (h : betEndBlockStep s mk n = some r) :
    r.1.params = s.params := by
  unfold betEndBlockStep at h
  simp only [bind, Option.bind_eq_some_iff] at h
  obtain ⟨r0, h0, h⟩ := h
  have e0 := settlePage_params _ _ _ h0
  split at h
  · simp only [pure, Option.some.injEq] at h; rw [← h]; exact e0
  · simp only [bind, Option.bind_eq_some_iff, pure, Option.some.injEq] at h
    obtain ⟨q, _, s2, h2, rfl⟩ := h
    unfold bookResolved at h2
    simp only [bind, Option.bind_eq_some_iff, pure, Option.some.injEq] at h2
    obtain ⟨_, _, _, _, rfl⟩ := h2
    exact e0

theorem betEndBlock_params : ∀ (fuel : Nat) (s : State) (n : Nat) (s' : State),
    betEndBlock fuel s n = some s' → s'.params = s.params := by
  intro fuel
  induction fuel with
  | zero => intro s n s' h; simp [betEndBlock] at h; rw [← h]
  | succ fuel ih =>
    intro s n s' h
    unfold betEndBlock at h
    split at h
    · simp at h; rw [← h]
    · split at h
      · simp at h; rw [← h]
      · simp only [bind, Option.bind_eq_some_iff] at h
        obtain ⟨r, hr, h⟩ := h
        rw [ih _ _ _ h, betEndBlockStep_params hr]

theorem settlePart_params {s : State} {b : Book} {p : Part} {m : Market} {r : State × Book}
    (h : settlePart s b p m = some r) : r.1.params = s.params := by
  unfold settlePart at h
  simp only [bind, Option.bind_eq_some_iff] at h
  obtain ⟨_, _, _, _, s1, h1, h⟩ := h
  obtain ⟨_, _, rfl⟩ := bankSend_shape h1
  split at h
  · simp only [bind, Option.bind_eq_some_iff, pure, Option.some.injEq] at h
    obtain ⟨s2, h2, rfl⟩ := h
    obtain ⟨_, _, rfl⟩ := bankSend_shape h2
    rfl
  · simp only [bind, Option.bind_eq_some_iff, pure, Option.some.injEq] at h
    obtain ⟨s2, h2, rfl⟩ := h
    obtain ⟨_, _, rfl⟩ := bankSend_shape h2
    rfl

theorem settleParts_params (m : Market) (count : Nat) : ∀ (ps : List Part) (s : State) (b : Book) (sc pr : Nat)
    (r : State × Book × Nat × Nat), settleParts m count ps s b sc pr = some r → r.1.params = s.params := by
  intro ps
  induction ps with
  | nil => intro s b sc pr r h; simp [settleParts] at h; rw [← h]
  | cons p rest ih =>
    intro s b sc pr r h
    unfold settleParts at h
    simp only [bind, Option.bind_eq_some_iff] at h
    obtain ⟨r1, h1, h⟩ := h
    have e1 : r1.1.params = s.params := by
      unfold settleOne at h1
      split at h1
      · simp only [Option.map_eq_some_iff] at h1
        obtain ⟨x, hx, rfl⟩ := h1
        exact settlePart_params hx
      · cases h1; rfl
    split at h
    · simp only [pure, Option.some.injEq] at h; rw [← h]; exact e1
    · rw [ih _ _ _ _ _ h]; exact e1

theorem obEndBlock_params : ∀ (fuel : Nat) (s : State) (n i : Nat) (s' : State),
    obEndBlock fuel s n i = some s' → s'.params = s.params := by
  intro fuel
  induction fuel with
  | zero => intro s n i s' h; simp [obEndBlock] at h; rw [← h]
  | succ fuel ih =>
    intro s n i s' h
    unfold obEndBlock at h
    split at h
    · simp at h; rw [← h]
    · split at h
      · simp at h; rw [← h]
      · simp only [bind, Option.bind_eq_some_iff] at h
        obtain ⟨b, _, m, _, _, _, r, hr, h⟩ := h
        have e := settleParts_params _ _ _ _ _ _ _ _ hr
        split at h
        · simp only [bind, Option.bind_eq_some_iff] at h
          obtain ⟨q, _, h⟩ := h
          rw [ih _ _ _ _ h]
          exact e
        · rw [ih _ _ _ _ h]
          exact e

theorem endBlockO_params {s s' : State} (h : endBlockO s = some s') : s'.params = s.params := by
  unfold endBlockO at h
  simp only [bind, Option.bind_eq_some_iff] at h
  obtain ⟨s1, h1, h2⟩ := h
  rw [obEndBlock_params _ _ _ _ _ h2, betEndBlock_params _ _ _ _ h1]


/-- every operation other than a parameter update leaves the parameters alone; a parameter update installs
    the new parameters iff they are valid -/
theorem step_params (s : State) (op : Op) :
    (step s op).1.params = s.params ∨ ∃ p, op = .setParams p ∧ p.valid = true ∧ (step s op).1.params = p := by
  cases op with
  | marketAdd c tk u st en o stt => exact Or.inl (commit_params _ _ (fun _ h => marketAddO_params h))
  | marketUpdate tk u st en stt => exact Or.inl (commit_params _ _ (fun _ h => marketUpdateO_params h))
  | marketResolve tk u ts stt w => exact Or.inl (commit_params _ _ (fun _ h => marketResolveO_params h))
  | deposit c tk m a pd =>
    left
    simp only [step, houseDeposit]
    cases h : houseDepositO s c tk m a pd with
    | none => rfl
    | some r => exact houseDepositO_params h
  | withdraw c tk m i md a pd => exact Or.inl (commit_params _ _ (fun _ h => houseWithdrawO_params h))
  | wager c tk u a pl => exact Or.inl (commit_params _ _ (fun _ h => wagerO_params h))
  | grant g e k l x => exact Or.inl rfl
  | revoke g e k => exact Or.inl rfl
  | send a b x =>
    left
    simp only [step]
    split
    · rfl
    · apply commit_params
      intro s' h
      obtain ⟨_, _, rfl⟩ := bankSend_shape h
      rfl
  | setParams p =>
    simp only [step]
    split
    · rename_i hv; exact Or.inr ⟨p, rfl, hv, rfl⟩
    · exact Or.inl rfl
  | endBlock =>
    left
    simp only [step, endBlock]
    cases h : endBlockO s with
    | none => rfl
    | some s' => exact endBlockO_params h
  | newBlock h t => exact Or.inl rfl

end Sge.Core
