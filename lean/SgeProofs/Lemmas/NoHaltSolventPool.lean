/-
  C05 "block processing never aborts" under WEAK solvency, part 2: the pool covers every pay-out.
  The pool holds Σ_books owed + Σ_bets open stakes (C01). Under weak solvency a single book may be owed LESS than
  it promises (even a negative amount) while losing bets on it are not settled; what is non-negative and covers
  the promises is `nh_bookDue` = what the book is owed + the open stakes on its market.
-/
import SgeProofs.Lemmas.NoHaltSolvent
namespace Sge.Core
open Sge Sge.Genesis

-- ---------------------------------------------------------------------------------------------
-- sums

theorem nh_sumBy_swap {α β : Type} (F : α → β → Int) (as : List α) (bs : List β) :
    sumBy (fun a => sumBy (fun b => F a b) bs) as = sumBy (fun b => sumBy (fun a => F a b) as) bs := by
  induction as with
  | nil =>
    show 0 = sumBy (fun b => sumBy (fun a => F a b) []) bs
    exact (sumBy_zero _ _ (fun _ _ => rfl)).symm
  | cons a as ih =>
    rw [sumBy_cons, ih]
    have : sumBy (fun b => sumBy (fun a => F a b) (a :: as)) bs = sumBy (fun b => F a b + sumBy (fun a => F a b) as) bs :=
      sumBy_congrSB _ _ _ (fun b _ => sumBy_cons _ _ _)
    rw [this, sumBy_add]

theorem nh_sumBy_sub {α : Type} (f g : α → Int) (l : List α) : sumBy (fun x => f x - g x) l = sumBy f l - sumBy g l := by
  induction l with
  | nil => rfl
  | cons y ys ih => rw [sumBy_cons, sumBy_cons, sumBy_cons, ih]; omega

theorem nh_sumBy_cBet (parts : List Part) (hs : Sorted Part.key parts) : ∀ (fs : List Fulf),
    (∀ f ∈ fs, ∃ p ∈ parts, p.idx = f.idx) → sumBy (fun p => cBet fs p.idx) parts = sumBet fs := by
  intro fs
  induction fs with
  | nil =>
    intro _
    show sumBy (fun p => cBet [] p.idx) parts = 0
    exact sumBy_zero _ _ (fun _ _ => rfl)
  | cons f rest ih =>
    intro h
    have : sumBy (fun p => cBet (f :: rest) p.idx) parts =
        sumBy (fun p => (if f.idx = p.idx then f.bet else 0) + cBet rest p.idx) parts :=
      sumBy_congrSB _ _ _ (fun p _ => cBet_cons f rest p.idx)
    rw [this, sumBy_add, sumBy_indicator f.bet f.idx parts hs (h f (List.mem_cons_self ..)),
      ih (fun g hg => h g (List.mem_cons_of_mem _ hg))]
    simp [sumBet]

/-- among books with distinct uids at most one carries a given uid -/
theorem nh_indicator_le (c : Int) (hc : 0 ≤ c) (j : Nat) : ∀ (books : List Book), Sorted Book.key books →
    sumBy (fun b => if j = b.uid then c else 0) books ≤ c := by
  intro books
  induction books with
  | nil => intro _; exact hc
  | cons q qs ih =>
    intro hs
    have hs' := hs
    unfold Sorted at hs'
    rw [List.pairwise_cons] at hs'
    rw [sumBy_cons]
    by_cases e : j = q.uid
    · have hz : sumBy (fun b => if j = b.uid then c else 0) qs = 0 := by
        apply sumBy_zero
        intro p hp
        have hne := ltL_ne _ _ (hs'.1 p hp)
        have : ¬ j = p.uid := by
          intro e'
          rw [e] at e'
          simp [Book.key, e'] at hne
        simp [this]
      rw [hz]; simp [e]
    · have := ih hs'.2
      simp only [e, if_false]
      omega

-- ---------------------------------------------------------------------------------------------
-- what a book is due

/-- the stakes of the unsettled bets on market `u` -/
def nh_stakeOn (s : State) (u : Nat) : Int :=
  sumBy (fun y => if y.isOpen && y.market == u then sumBet y.fulfs else 0) s.bets

/-- what the pool holds on account of book `b`: what its participations are owed plus the open stakes on its market -/
def nh_bookDue (s : State) (b : Book) : Int := b.owed + nh_stakeOn s b.uid

/-- what bet `y` can still draw from the account of the book of market `u` -/
def nh_claim (s : State) (u : Nat) (y : Bet) : Int :=
  (if winsOn s u y then sumProfit y.fulfs else 0) - (if nh_losesOn s u y then sumBet y.fulfs else 0)
    + (if y.isOpen && y.market == u then sumBet y.fulfs else 0)

theorem nh_zero_of_noOpen {s : State} {u : Nat} (h : ∀ y ∈ s.bets, y.market = u → y.isOpen = false) (i : Nat) :
    promisedW s u i = 0 ∧ nh_openLoss s u i = 0 := by
  constructor
  · unfold promisedW
    apply sumBy_zero
    intro y hy
    split
    · rename_i hw
      obtain ⟨a, b, _⟩ := nh_winsOn_open hw
      rw [h y hy b] at a; cases a
    · rfl
  · unfold nh_openLoss
    apply sumBy_zero
    intro y hy
    split
    · rename_i hw
      obtain ⟨a, b, _⟩ := nh_losesOn_open hw
      rw [h y hy b] at a; cases a
    · rfl

/-- the pool holds what all books are due -/
theorem nh_pool_ge {s : State} (hS : SettleInv s) (hV : nh_Sol s) :
    sumBy (nh_bookDue s) s.books ≤ getBal s.bal ACC_POOL := by
  rw [hS.pool]
  unfold owedPool
  have e1 : sumBy (nh_bookDue s) s.books = sumBy Book.owed s.books + sumBy (fun b => nh_stakeOn s b.uid) s.books := by
    unfold nh_bookDue; rw [sumBy_add]
  have e2 : sumBy (fun b => nh_stakeOn s b.uid) s.books =
      sumBy (fun y => sumBy (fun b : Book => if y.isOpen && y.market == b.uid then sumBet y.fulfs else 0) s.books) s.bets := by
    unfold nh_stakeOn
    exact nh_sumBy_swap (fun (b : Book) (y : Bet) => if y.isOpen && y.market == b.uid then sumBet y.fulfs else 0) s.books s.bets
  have e3 : sumBy (fun y => sumBy (fun b : Book => if y.isOpen && y.market == b.uid then sumBet y.fulfs else 0) s.books) s.bets
      ≤ sumBy Bet.owedStake s.bets := by
    apply sumBy_le_sumBy
    intro y hy
    unfold Bet.owedStake
    cases ho : y.isOpen
    · simp only [Bool.false_and, Bool.false_eq_true, if_false]
      rw [sumBy_zero _ _ (fun _ _ => rfl)]
      exact Int.le_refl _
    · have hc : 0 ≤ sumBet y.fulfs := sumBet_nonneg _ (fun f hf => ((hV.betNonneg y hy ho).2 f hf).1)
      have := nh_indicator_le (sumBet y.fulfs) hc y.market s.books hS.sortedBooks
      simp only [Bool.true_and, beq_iff_eq, if_true]
      exact this
  omega

theorem nh_claim_nonneg {s : State} (hV : nh_Sol s) (u : Nat) (y : Bet) (hy : y ∈ s.bets) : 0 ≤ nh_claim s u y := by
  unfold nh_claim
  by_cases ho : y.isOpen = true ∧ y.market = u
  · obtain ⟨ho, hm⟩ := ho
    have hnn := (hV.betNonneg y hy ho).2
    have h1 : 0 ≤ sumBet y.fulfs := sumBet_nonneg _ (fun f hf => (hnn f hf).1)
    have h2 : 0 ≤ sumProfit y.fulfs := sumProfit_nonneg _ (fun f hf => (hnn f hf).2)
    have h3 : (y.isOpen && y.market == u) = true := by rw [ho, hm]; simp
    rw [h3]
    simp only [if_true]
    split <;> split <;> omega
  · have hw : winsOn s u y = false := by
      cases h : winsOn s u y
      · rfl
      · obtain ⟨a, b, _⟩ := nh_winsOn_open h; exact absurd ⟨a, b⟩ ho
    have hl : nh_losesOn s u y = false := by
      cases h : nh_losesOn s u y
      · rfl
      · obtain ⟨a, b, _⟩ := nh_losesOn_open h; exact absurd ⟨a, b⟩ ho
    have h3 : (y.isOpen && y.market == u) = false := by
      cases h : (y.isOpen && y.market == u)
      · rfl
      · simp only [Bool.and_eq_true, beq_iff_eq] at h; exact absurd h ho
    rw [hw, hl, h3]
    simp

/-- WEAK SOLVENCY AT WORK: what a book is due covers the claims of all bets on it -/
theorem nh_bookDue_ge {s : State} (hS : SettleInv s) (hH : HInv s) (hV : nh_Sol s) (b : Book) (hb : b ∈ s.books) :
    sumBy (nh_claim s b.uid) s.bets ≤ nh_bookDue s b := by
  have hsb := hS.sortedParts b hb
  have hgb : getBook s b.uid = some b := lookup_of_mem_sorted Book.key b s.books hS.sortedBooks hb
  -- every participation is owed at least what it promises minus the losing stakes it will receive
  have hpart : ∀ p ∈ b.parts, promisedW s b.uid p.idx - nh_openLoss s b.uid p.idx ≤ p.owed := by
    intro p hp
    unfold Part.owed
    cases hs : p.isSettled
    · have := (hV.partCover b hb p hp hs).2
      simp only [Bool.false_eq_true, if_false]
      omega
    · have hna := hS.settledClosed b hb p hp hs
      obtain ⟨z1, z2⟩ := nh_zero_of_noOpen (s := s) (u := b.uid) (fun y hy hm => hS.closedNoOpen b hb hna y hy hm) p.idx
      rw [z1, z2]; simp
  have h1 : sumBy (fun p => promisedW s b.uid p.idx - nh_openLoss s b.uid p.idx) b.parts ≤ b.owed :=
    sumBy_le_sumBy _ _ _ hpart
  -- the same sum, bet by bet
  have h2 : sumBy (fun p => promisedW s b.uid p.idx - nh_openLoss s b.uid p.idx) b.parts =
      sumBy (fun y => (if winsOn s b.uid y then sumProfit y.fulfs else 0) - (if nh_losesOn s b.uid y then sumBet y.fulfs else 0)) s.bets := by
    have e1 : sumBy (fun p => promisedW s b.uid p.idx - nh_openLoss s b.uid p.idx) b.parts =
        sumBy (fun p : Part => sumBy (fun y : Bet => (if winsOn s b.uid y then cProfit y.fulfs p.idx else 0)
          - (if nh_losesOn s b.uid y then cBet y.fulfs p.idx else 0)) s.bets) b.parts := by
      apply sumBy_congrSB
      intro p _
      unfold promisedW nh_openLoss
      rw [nh_sumBy_sub]
    rw [e1, nh_sumBy_swap]
    apply sumBy_congrSB
    intro y hy
    have hnames : y.isOpen = true → y.market = b.uid → ∀ f ∈ y.fulfs, ∃ p ∈ b.parts, p.idx = f.idx := by
      intro ho hm f hf
      obtain ⟨b0, p, hb0, hp⟩ := hH.fulfParts y hy ho f hf
      rw [hm, hgb] at hb0; cases hb0
      exact ⟨p, getPart_mem hp, Book.getPart_idx hp⟩
    rw [nh_sumBy_sub]
    cases hw : winsOn s b.uid y
    · cases hl : nh_losesOn s b.uid y
      · simp only [Bool.false_eq_true, if_false]
        rw [sumBy_zero _ _ (fun _ _ => rfl)]
      · obtain ⟨a1, a2, _⟩ := nh_losesOn_open hl
        simp only [Bool.false_eq_true, if_false, if_true]
        rw [sumBy_zero _ _ (fun _ _ => rfl), nh_sumBy_cBet b.parts hsb y.fulfs (hnames a1 a2)]
    · obtain ⟨a1, a2, a3⟩ := nh_winsOn_open hw
      have hl : nh_losesOn s b.uid y = false := by
        unfold nh_losesOn; rw [a3]; simp
      rw [hl]
      simp only [Bool.false_eq_true, if_false, if_true]
      rw [sumBy_zero (fun _ : Part => (0 : Int)) _ (fun _ _ => rfl), sumBy_cProfit b.parts hsb y.fulfs (hnames a1 a2)]
  have h3 : sumBy (nh_claim s b.uid) s.bets =
      sumBy (fun y => (if winsOn s b.uid y then sumProfit y.fulfs else 0) - (if nh_losesOn s b.uid y then sumBet y.fulfs else 0)) s.bets
        + nh_stakeOn s b.uid := by
    unfold nh_claim nh_stakeOn
    rw [sumBy_add]
  unfold nh_bookDue
  omega

theorem nh_bookDue_nonneg {s : State} (hS : SettleInv s) (hH : HInv s) (hV : nh_Sol s) (b : Book) (hb : b ∈ s.books) :
    0 ≤ nh_bookDue s b :=
  Int.le_trans (sumBy_nonnegSB _ _ (fun y hy => nh_claim_nonneg hV b.uid y hy)) (nh_bookDue_ge hS hH hV b hb)

/-- the pool covers every claim on every book -/
theorem nh_pool_covers_claim {s : State} (hS : SettleInv s) (hH : HInv s) (hV : nh_Sol s) (b : Book) (hb : b ∈ s.books)
    (x : Bet) (hx : x ∈ s.bets) : nh_claim s b.uid x ≤ getBal s.bal ACC_POOL := by
  have h1 := sumBy_mem_le (nh_claim s b.uid) s.bets (fun y hy => nh_claim_nonneg hV b.uid y hy) x hx
  have h2 := nh_bookDue_ge hS hH hV b hb
  have h3 := sumBy_mem_le (nh_bookDue s) s.books (fun c hc => nh_bookDue_nonneg hS hH hV c hc) b hb
  have h4 := nh_pool_ge hS hV
  omega

/-- the pool covers what a book that has left the active state is owed, and every participation of such a book is
    owed a non-negative amount -/
theorem nh_closed_book {s : State} (hS : SettleInv s) (hH : HInv s) (hV : nh_Sol s) (b : Book) (hb : b ∈ s.books)
    (hna : b.status ≠ OB_ACTIVE) : b.owed ≤ getBal s.bal ACC_POOL ∧ ∀ p ∈ b.parts, 0 ≤ p.owed := by
  have hno : ∀ y ∈ s.bets, y.market = b.uid → y.isOpen = false := fun y hy hm => hS.closedNoOpen b hb hna y hy hm
  constructor
  · have h0 : nh_stakeOn s b.uid = 0 := by
      unfold nh_stakeOn
      apply sumBy_zero
      intro y hy
      split
      · rename_i h
        simp only [Bool.and_eq_true, beq_iff_eq] at h
        rw [hno y hy h.2] at h; cases h.1
      · rfl
    have h3 := sumBy_mem_le (nh_bookDue s) s.books (fun c hc => nh_bookDue_nonneg hS hH hV c hc) b hb
    have h4 := nh_pool_ge hS hV
    have hd : nh_bookDue s b = b.owed := by unfold nh_bookDue; rw [h0]; omega
    omega
  · intro p hp
    unfold Part.owed
    cases hs : p.isSettled
    · obtain ⟨z1, z2⟩ := nh_zero_of_noOpen (s := s) (u := b.uid) hno p.idx
      have := (hV.partCover b hb p hp hs).2
      rw [z1, z2] at this
      simp only [Bool.false_eq_true, if_false]
      omega
    · simp

end Sge.Core
