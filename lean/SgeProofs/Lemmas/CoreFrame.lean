/- shape lemmas: which components of the state each building block of the core handlers can change -/
import Sge.Core.Run
import SgeProofs.Lemmas.CoreSupply
namespace Sge.Core
open Sge

theorem bankSend_shape {s s' : State} {a b : Nat} {x : Int} (h : bankSend s a b x = some s') :
    ∃ bal', transfer s.bal a b x = some bal' ∧ s' = { s with bal := bal' } := by
  unfold bankSend at h
  cases ht : transfer s.bal a b x with
  | none => simp [ht] at h
  | some bal' => simp [ht] at h; exact ⟨bal', rfl, h.symm⟩

theorem useGrant_shape {s s' : State} {g e k : Nat} {x : Int} (h : useGrant s g e k x = some s') :
    ∃ gs, s' = { s with grants := gs } := by
  unfold useGrant at h
  simp only [bind, Option.bind_eq_some_iff, pure, Option.some.injEq] at h
  obtain ⟨_, _, _, _, _, _, _, _, rfl⟩ := h
  split
  · exact ⟨_, rfl⟩
  · exact ⟨_, rfl⟩

theorem grantStep_shape {s s' : State} {d : Bool} {g e k : Nat} {x : Int} (h : grantStep s d g e k x = some s') :
    ∃ gs, s' = { s with grants := gs } := by
  unfold grantStep at h
  split at h
  · exact useGrant_shape h
  · cases h; exact ⟨s.grants, rfl⟩

-- ---------------------------------------------------------------------------------------------
-- markets are changed by the three market messages only

theorem houseDepositO_markets {s : State} {r : State × Nat} {c : Nat} {tk : Tk} {m : Nat} {a : Int} {pd : Nat}
    (h : houseDepositO s c tk m a pd = some r) : r.1.markets = s.markets ∧ r.1.mqueue = s.mqueue := by
  unfold houseDepositO at h
  simp only [bind, Option.bind_eq_some_iff, pure, Option.some.injEq] at h
  obtain ⟨_, _, _, _, _, _, s1, h1, _, _, mk, _, b, _, _, _, _, _, _, _, _, _, s2, h2, s3, h3, rfl⟩ := h
  obtain ⟨_, rfl⟩ := grantStep_shape h1
  obtain ⟨_, _, rfl⟩ := bankSend_shape h2
  obtain ⟨_, _, rfl⟩ := bankSend_shape h3
  exact ⟨rfl, rfl⟩

theorem houseWithdrawO_markets {s s' : State} {c : Nat} {tk : Tk} {m i md : Nat} {a : Int} {pd : Nat}
    (h : houseWithdrawO s c tk m i md a pd = some s') : s'.markets = s.markets ∧ s'.mqueue = s.mqueue := by
  unfold houseWithdrawO at h
  simp only [bind, Option.bind_eq_some_iff, pure, Option.some.injEq] at h
  obtain ⟨_, _, _, _, _, _, _, _, _, _, d, _, b, _, _, _, w, _, s1, h1, p, _, s2, h2, b', _, rfl⟩ := h
  obtain ⟨_, rfl⟩ := grantStep_shape h1
  obtain ⟨_, _, rfl⟩ := bankSend_shape h2
  exact ⟨rfl, rfl⟩

theorem wagerO_markets {s s' : State} {c : Nat} {tk : Tk} {u : Nat} {a : Int} {pl : WagerPayload}
    (h : wagerO s c tk u a pl = some s') : s'.markets = s.markets ∧ s'.mqueue = s.mqueue := by
  unfold wagerO at h
  simp only [bind, Option.bind_eq_some_iff, pure, Option.some.injEq] at h
  obtain ⟨_, _, _, _, _, _, _, _, _, _, _, _, _, _, m, _, _, _, _, _, _, _, _, _, _, _, _, _, ov, _, _, _, b, _, r, _, s1, h1, s2, h2, rfl⟩ := h
  obtain ⟨_, _, rfl⟩ := bankSend_shape h1
  obtain ⟨_, _, rfl⟩ := bankSend_shape h2
  exact ⟨rfl, rfl⟩

theorem markSettled_markets (s : State) (b : Bet) : (markSettled s b).markets = s.markets := rfl

theorem settleBet_markets {s s' : State} {c u : Nat} (h : settleBet s c u = some s') : s'.markets = s.markets := by
  unfold settleBet at h
  simp only [bind, Option.bind_eq_some_iff] at h
  obtain ⟨_, _, bet, _, _, _, m, _, h⟩ := h
  split at h
  · unfold settleRefund at h
    simp only [bind, Option.bind_eq_some_iff, pure, Option.some.injEq] at h
    obtain ⟨s1, h1, s2, h2, rfl⟩ := h
    obtain ⟨_, _, rfl⟩ := bankSend_shape h1
    obtain ⟨_, _, rfl⟩ := bankSend_shape h2
    rfl
  · simp only [bind, Option.bind_eq_some_iff] at h
    obtain ⟨_, _, h⟩ := h
    unfold settleDeclared at h
    simp only [bind, Option.bind_eq_some_iff, pure, Option.some.injEq] at h
    obtain ⟨bk, _, r, hr, s2, h2, rfl⟩ := h
    obtain ⟨_, _, rfl⟩ := bankSend_shape h2
    rfl

theorem settlePage_markets : ∀ (page : List (Nat × Nat × Nat × Nat)) (s : State) (r : State × Nat),
    settlePage s page = some r → r.1.markets = s.markets := by
  intro page
  induction page with
  | nil => intro s r h; simp [settlePage] at h; rw [← h]
  | cons pb rest ih =>
    intro s r h
    unfold settlePage at h
    simp only [bind, Option.bind_eq_some_iff, pure, Option.some.injEq] at h
    obtain ⟨s1, h1, r1, hr, rfl⟩ := h
    show r1.1.markets = _
    rw [ih _ _ hr, settleBet_markets h1]

theorem betEndBlockStep_markets {s : State} {mk n : Nat} {r : State × Nat} (h : betEndBlockStep s mk n = some r) :
    r.1.markets = s.markets := by
  unfold betEndBlockStep at h
  simp only [bind, Option.bind_eq_some_iff] at h
  obtain ⟨r0, h0, h⟩ := h
  have e0 := settlePage_markets _ _ _ h0
  split at h
  · simp only [pure, Option.some.injEq] at h; rw [← h]; exact e0
  · simp only [bind, Option.bind_eq_some_iff, pure, Option.some.injEq] at h
    obtain ⟨q, _, s2, h2, rfl⟩ := h
    unfold bookResolved at h2
    simp only [bind, Option.bind_eq_some_iff, pure, Option.some.injEq] at h2
    obtain ⟨_, _, _, _, rfl⟩ := h2
    exact e0

theorem betEndBlock_markets : ∀ (fuel : Nat) (s : State) (n : Nat) (s' : State),
    betEndBlock fuel s n = some s' → s'.markets = s.markets := by
  intro fuel
  induction fuel with
  | zero => intro s n s' h; simp [betEndBlock] at h; rw [← h]
  | succ fuel ih =>
    intro s n s' h
    unfold betEndBlock at h
    split at h
    · simp at h; rw [← h]
    · split at h
      · simp at h; rw [← h]
      · simp only [bind, Option.bind_eq_some_iff] at h
        obtain ⟨r, hr, h⟩ := h
        rw [ih _ _ _ h, betEndBlockStep_markets hr]

theorem settlePart_markets {s : State} {b : Book} {p : Part} {m : Market} {r : State × Book}
    (h : settlePart s b p m = some r) : r.1.markets = s.markets := by
  unfold settlePart at h
  simp only [bind, Option.bind_eq_some_iff] at h
  obtain ⟨_, _, _, _, s1, h1, h⟩ := h
  obtain ⟨_, _, rfl⟩ := bankSend_shape h1
  split at h
  · simp only [bind, Option.bind_eq_some_iff, pure, Option.some.injEq] at h
    obtain ⟨s2, h2, rfl⟩ := h
    obtain ⟨_, _, rfl⟩ := bankSend_shape h2
    rfl
  · simp only [bind, Option.bind_eq_some_iff, pure, Option.some.injEq] at h
    obtain ⟨s2, h2, rfl⟩ := h
    obtain ⟨_, _, rfl⟩ := bankSend_shape h2
    rfl

theorem settleParts_markets (m : Market) (count : Nat) : ∀ (ps : List Part) (s : State) (b : Book) (sc pr : Nat)
    (r : State × Book × Nat × Nat), settleParts m count ps s b sc pr = some r → r.1.markets = s.markets := by
  intro ps
  induction ps with
  | nil => intro s b sc pr r h; simp [settleParts] at h; rw [← h]
  | cons p rest ih =>
    intro s b sc pr r h
    unfold settleParts at h
    simp only [bind, Option.bind_eq_some_iff] at h
    obtain ⟨r1, h1, h⟩ := h
    have e1 : r1.1.markets = s.markets := by
      unfold settleOne at h1
      split at h1
      · simp only [Option.map_eq_some_iff] at h1
        obtain ⟨x, hx, rfl⟩ := h1
        exact settlePart_markets hx
      · cases h1; rfl
    split at h
    · simp only [pure, Option.some.injEq] at h; rw [← h]; exact e1
    · rw [ih _ _ _ _ _ h]; exact e1

theorem obEndBlock_markets : ∀ (fuel : Nat) (s : State) (n i : Nat) (s' : State),
    obEndBlock fuel s n i = some s' → s'.markets = s.markets := by
  intro fuel
  induction fuel with
  | zero => intro s n i s' h; simp [obEndBlock] at h; rw [← h]
  | succ fuel ih =>
    intro s n i s' h
    unfold obEndBlock at h
    split at h
    · simp at h; rw [← h]
    · split at h
      · simp at h; rw [← h]
      · simp only [bind, Option.bind_eq_some_iff] at h
        obtain ⟨b, _, m, _, _, _, r, hr, h⟩ := h
        have e := settleParts_markets _ _ _ _ _ _ _ _ hr
        split at h
        · simp only [bind, Option.bind_eq_some_iff] at h
          obtain ⟨q, _, h⟩ := h
          rw [ih _ _ _ _ h]
          exact e
        · rw [ih _ _ _ _ h]
          exact e

theorem endBlockO_markets {s s' : State} (h : endBlockO s = some s') : s'.markets = s.markets := by
  unfold endBlockO at h
  simp only [bind, Option.bind_eq_some_iff] at h
  obtain ⟨s1, h1, h2⟩ := h
  rw [obEndBlock_markets _ _ _ _ _ h2, betEndBlock_markets _ _ _ _ h1]

end Sge.Core
