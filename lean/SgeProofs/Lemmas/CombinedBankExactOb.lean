/-
  bank = available on the combined slice, part 2: the exact version of `cmb_endBlockO_covers`. An account that is
  neither a bettor nor a market creator receives in one core end-block EXACTLY what the hook calls derived for it book
  (un-spent amount + forwarded profit − booked loss). Same potential argument as in CombinedHooks.lean, with equalities;
  the extra ingredient is that every participation that is still unpaid during the order-book phase was unpaid in the
  reference state (`cmb2_RefOK`), so every payment of the phase is seen by the derived hook list.
-/
import SgeProofs.Lemmas.CombinedBankExactBet
namespace Sge.Combined
open Sge Sge.Core Sge.Genesis

/-- one `settleParticipation`, seen from an account that is not the market creator -/
theorem cmb2_settlePart_balX {s : Core.State} {b : Book} {p : Part} {m : Market} {r : Core.State × Book}
    (h : settlePart s b p m = some r) (a : Nat) (ha : isModuleAcc a = false) (hc : a ≠ m.creator) :
    getBal r.1.bal a = getBal s.bal a + (if p.addr = a then paidTo m p else 0) := by
  obtain ⟨n1, _, n3⟩ := cmb_notModule_ne ha
  unfold settlePart at h
  simp only [bind, Option.bind_eq_some_iff] at h
  obtain ⟨_, _, _, _, s1, h1, h⟩ := h
  obtain ⟨_, e1, _⟩ := cmb_bankSend_recv h1 a n1
  unfold paidTo
  split at h
  · rename_i hf
    simp only [bind, Option.bind_eq_some_iff, pure, Option.some.injEq] at h
    obtain ⟨s2, h2, rfl⟩ := h
    obtain ⟨_, e2, _⟩ := cmb_bankSend_recv h2 a n3
    show getBal s2.bal a = _
    rw [e2, e1]
    simp only [hf, if_true]
    repeat' split
    all_goals omega
  · rename_i hf
    simp only [bind, Option.bind_eq_some_iff, pure, Option.some.injEq] at h
    obtain ⟨s2, h2, rfl⟩ := h
    obtain ⟨_, e2, _⟩ := cmb_bankSend_recv h2 a n3
    show getBal s2.bal a = _
    rw [e2, e1, if_neg hc]
    simp only [hf, Bool.false_eq_true, if_false]
    repeat' split
    all_goals omega

/-- batchSettlementOfParticipation, exact: when every unpaid participation of the loop is unpaid in the reference list,
    the account gains exactly the increase of the value of the book's participation list; and no participation becomes
    unpaid -/
theorem cmb2_settleParts_balX (a : Nat) (ha : isModuleAcc a = false) (m : Market) (hc : a ≠ m.creator) (ref : List Part) (count : Nat) :
    ∀ (ps : List Part) (s : Core.State) (bk : Book) (sc pr : Nat) (r : Core.State × Book × Nat × Nat),
    settleParts m count ps s bk sc pr = some r →
    Sorted Part.key bk.parts → ps.Pairwise (fun x y => x.idx ≠ y.idx) → (∀ p ∈ ps, bk.getPart p.idx = some p) →
    (∀ p ∈ ps, p.isSettled = false → ref.any (fun q => q.idx == p.idx && !q.isSettled) = true) →
    getBal r.1.bal a = getBal s.bal a + (sumBy (newPaidVal a m ref) r.2.1.parts - sumBy (newPaidVal a m ref) bk.parts) ∧
    (∀ p' ∈ r.2.1.parts, p'.isSettled = false → p' ∈ bk.parts) := by
  intro ps
  induction ps with
  | nil =>
    intro s bk sc pr r h hs _ _ _
    simp only [settleParts, Option.some.injEq] at h
    subst h
    exact ⟨by show getBal s.bal a = getBal s.bal a + (sumBy _ bk.parts - sumBy _ bk.parts); omega, fun p' hp' _ => hp'⟩
  | cons p rest ih =>
    intro s bk sc pr r h hs hd hg hRef
    rw [List.pairwise_cons] at hd
    unfold settleParts at h
    simp only [bind, Option.bind_eq_some_iff] at h
    obtain ⟨r1, h1, h⟩ := h
    have hgp : bk.getPart p.idx = some p := hg p (List.mem_cons_self ..)
    have hstep : Sorted Part.key r1.2.1.parts ∧
        getBal r1.1.bal a = getBal s.bal a + (sumBy (newPaidVal a m ref) r1.2.1.parts - sumBy (newPaidVal a m ref) bk.parts) ∧
        (∀ q ∈ rest, r1.2.1.getPart q.idx = some q) ∧ (∀ p' ∈ r1.2.1.parts, p'.isSettled = false → p' ∈ bk.parts) := by
      unfold settleOne at h1
      split at h1
      · simp only [Option.map_eq_some_iff] at h1
        obtain ⟨x, hx, rfl⟩ := h1
        obtain ⟨hun, hb1, e1⟩ := ret_settlePart_rec hx
        have b1 := cmb2_settlePart_balX hx a ha hc
        obtain ⟨f1, f2, _, _, _, _, f7, _⟩ := p.paidRec_fields m
        refine ⟨?_, ?_, ?_, ?_⟩
        · show Sorted Part.key x.2.parts
          rw [e1]
          exact upsert_sorted Part.key _ _ hs
        · show getBal x.1.bal a = _ + (sumBy _ x.2.parts - _)
          rw [e1]
          show _ = _ + (sumBy _ (upsert Part.key (p.paidRec m) bk.parts) - _)
          rw [sumBy_upsert Part.key _ _ _ hs]
          have hl : lookup Part.key (Part.key (p.paidRec m)) bk.parts = some p := by
            have : Part.key (p.paidRec m) = [p.idx] := by unfold Part.key; rw [f1]
            rw [this]; exact hgp
          rw [hl]
          have g0 : newPaidVal a m ref p = 0 := by
            unfold newPaidVal; simp [hun]
          have g1 : newPaidVal a m ref (p.paidRec m) = if p.addr = a then paidTo m p else 0 := by
            unfold newPaidVal
            have hr := hRef p (List.mem_cons_self ..) hun
            rw [f7, f1, hr, f2, cmb_paidTo_paidRec]
            simp
          simp only [g0]
          rw [g1, b1]
          omega
        · intro q hq
          show x.2.getPart q.idx = some q
          rw [e1, Book.getPart_setPart_ne _ _ _ (by rw [f1]; exact hd.1 q hq)]
          exact hg q (List.mem_cons_of_mem _ hq)
        · intro p' hp' hu
          have hp'' : p' ∈ x.2.parts := hp'
          rw [e1] at hp''
          rcases mem_upsert_or Part.key (p.paidRec m) p' bk.parts hp'' with e | e
          · rw [e, f7] at hu; cases hu
          · exact e
      · cases h1
        exact ⟨hs, by show getBal s.bal a = getBal s.bal a + (sumBy _ bk.parts - sumBy _ bk.parts); omega,
          fun q hq => hg q (List.mem_cons_of_mem _ hq), fun p' hp' _ => hp'⟩
    obtain ⟨S1, S5, S6, S7⟩ := hstep
    split at h
    · simp only [pure, Option.some.injEq] at h
      subst h
      exact ⟨S5, S7⟩
    · obtain ⟨T5, T7⟩ := ih r1.1 r1.2.1 r1.2.2 (pr + 1) r h S1 hd.2 S6
        (fun q hq => hRef q (List.mem_cons_of_mem _ hq))
      exact ⟨by omega, fun p' hp' hu => S7 p' (T7 p' hp' hu) hu⟩

/-- every book of `s` exists in the reference state, and its unpaid participations are unpaid there -/
def cmb2_RefOK (c1 s : Core.State) : Prop :=
  ∀ uid b, getBook s uid = some b → ∃ b0, getBook c1 uid = some b0 ∧
    ∀ p ∈ b.parts, p.isSettled = false → b0.parts.any (fun q => q.idx == p.idx && !q.isSettled) = true

theorem cmb2_refOK_refl (c1 : Core.State) : cmb2_RefOK c1 c1 := by
  intro uid b hb
  refine ⟨b, hb, fun p hp hu => ?_⟩
  rw [List.any_eq_true]
  exact ⟨p, hp, by simp [hu]⟩

/-- the order-book end-blocker, exact -/
theorem cmb2_obEndBlock_balX (a : Nat) (ha : isModuleAcc a = false) (c1 : Core.State) (W : List Nat) (hW : W.Nodup) :
    ∀ (fuel : Nat) (s : Core.State) (n i : Nat) (s' : Core.State), obEndBlock fuel s n i = some s' → PartsSorted s →
    (∀ m ∈ s.markets, a ≠ m.creator) → (∀ u ∈ s.obqueue, u ∈ W) → cmb2_RefOK c1 s →
    getBal s.bal a - walkVal a c1 W s = getBal s'.bal a - walkVal a c1 W s' := by
  intro fuel
  induction fuel with
  | zero => intro s n i s' h _ _ _ _; simp [obEndBlock] at h; rw [← h]
  | succ fuel ih =>
    intro s n i s' h hP hM hQ hRf
    unfold obEndBlock at h
    split at h
    · simp at h; rw [← h]
    · split at h
      · simp at h; rw [← h]
      · rename_i uid hidx
        simp only [bind, Option.bind_eq_some_iff] at h
        obtain ⟨b, hb, m, hm, _, _, r, hr, h⟩ := h
        have huW : uid ∈ W := hQ uid (List.mem_of_getElem? hidx)
        have hbm := getBook_mem hb
        have hsp := hP b hbm.1
        have hpw := ret_sorted_pairwise_idx hsp
        have hget : ∀ q ∈ b.parts, b.getPart q.idx = some q := fun q hq => Book.mem_getPart hsp hq
        obtain ⟨b0, hb0, href⟩ := hRf uid b hb
        have hmc : a ≠ m.creator := hM m (getMarket_mem hm)
        obtain ⟨key, hback⟩ := cmb2_settleParts_balX a ha m hmc b0.parts n b.parts s b 0 0 r hr hsp hpw hget href
        obtain ⟨R1, R2, ⟨bal', R3⟩, _, _⟩ := cmb_settleParts_bal a ha m [] n b.parts s b 0 0 r hr hsp hpw hget
        have next : ∀ (t : Core.State) (B : Book), t.markets = s.markets → t.books = s.books → t.bal = r.1.bal →
            B.uid = uid → B.parts = r.2.1.parts → (∀ u ∈ t.obqueue, u ∈ W) →
            PartsSorted (setBook t B) ∧ (∀ m ∈ (setBook t B).markets, a ≠ m.creator) ∧ (∀ u ∈ (setBook t B).obqueue, u ∈ W) ∧
            cmb2_RefOK c1 (setBook t B) ∧
            getBal s.bal a - walkVal a c1 W s = getBal (setBook t B).bal a - walkVal a c1 W (setBook t B) := by
          intro t B htm htb htl hBu hBp htq
          refine ⟨?_, ?_, htq, ?_, ?_⟩
          · intro z hz
            have hz' : z ∈ upsert Book.key B t.books := hz
            rcases cmb_mem_upsert Book.key B z _ hz' with e | e
            · rw [e, hBp]; exact R1
            · rw [htb] at e; exact hP z e
          · intro m' hm'
            have : (setBook t B).markets = s.markets := htm
            rw [this] at hm'
            exact hM m' hm'
          · intro v bx hbx
            by_cases hv : B.uid = v
            · have := getBook_setBook_self t B
              rw [hv, hbx] at this
              cases this
              refine ⟨b0, by rw [← hv, hBu]; exact hb0, fun p hp hu => ?_⟩
              rw [hBp] at hp
              exact href p (hback p hp hu) hu
            · rw [getBook_setBook_ne t B v hv] at hbx
              have : getBook t v = getBook s v := getBook_congr htb v
              rw [this] at hbx
              exact hRf v bx hbx
          · have hv := cmb_walkVal_setBook a c1 W hW s t b B m uid hb hm hBu htm htb
            have hbal : (setBook t B).bal = r.1.bal := htl
            rw [hbal]
            simp only [huW, if_true] at hv
            rw [hb0] at hv
            simp only at hv
            rw [hBp] at hv
            omega
        split at h
        · simp only [bind, Option.bind_eq_some_iff] at h
          obtain ⟨q, hq, h⟩ := h
          obtain ⟨N1, N2, N3, N4, N5⟩ := next { r.1 with obqueue := q } { r.2.1 with status := OB_SETTLED }
            (by show r.1.markets = _; rw [R3]) (by show r.1.books = _; rw [R3]) rfl (by show r.2.1.uid = _; rw [R2]; exact hbm.2) rfl
            (by
              intro u hu
              have : u ∈ r.1.obqueue := goRemove_sub hq u hu
              rw [R3] at this
              exact hQ u this)
          rw [N5]
          exact ih _ _ _ _ h N1 N2 N3 N4
        · obtain ⟨N1, N2, N3, N4, N5⟩ := next r.1 r.2.1 (by rw [R3]) (by rw [R3]) rfl (by rw [R2]; exact hbm.2) rfl
            (by intro u hu; rw [R3] at hu; exact hQ u hu)
          rw [N5]
          exact ih _ _ _ _ h N1 N2 N3 N4

/-- ONE CORE END-BLOCK PAYS AN ACCOUNT THAT IS NEITHER BETTOR NOR MARKET CREATOR EXACTLY ITS HOOKS -/
theorem cmb2_endBlockO_exact {c c' : Core.State} (h : Core.endBlockO c = some c') (hP : PartsSorted (obRef c))
    (a : Nat) (ha : isModuleAcc a = false) (hN : cmb2_NoPay a c) :
    getBal c'.bal a = getBal c.bal a + hooksFor a (endBlockHooks c c') := by
  unfold Core.endBlockO at h
  simp only [bind, Option.bind_eq_some_iff] at h
  obtain ⟨c1, h1, h2⟩ := h
  have href : obRef c = c1 := by unfold obRef; rw [h1]
  obtain ⟨m1, N1⟩ := cmb2_betEndBlock_balX a ha _ _ _ _ h1 hN
  have hW : (obWalk c).Nodup := cmb_nodup_eraseDups _ _ (Nat.le_refl _)
  rw [href] at hP
  have hQ : ∀ u ∈ c1.obqueue, u ∈ obWalk c := by
    intro u hu
    unfold obWalk
    rw [href, List.mem_eraseDups]
    exact hu
  have m2 := cmb2_obEndBlock_balX a ha c1 (obWalk c) hW _ _ _ _ _ h2 hP (fun m hm e => N1.2 m hm e.symm) hQ (cmb2_refOK_refl c1)
  rw [cmb_walkVal_ref a c1 _ hP] at m2
  have e : hooksFor a (endBlockHooks c c') = walkVal a c1 (obWalk c) c' := by
    unfold endBlockHooks walkVal
    rw [cmb_hooksFor_flatMap, href]
    rfl
  rw [e]
  omega

end Sge.Combined
