/-
  Invariants of the x/subaccount model that hold for EVERY operation sequence, whatever the other modules do
  (no assumption on the `…Ext` parameters): non-negative summaries, owner ↔ subaccount maps mutually inverse,
  ghost bookkeeping of the transfers to the owner, and the time-lock bounds
    `lockPartial` : released ≤ (number of unlocked-balance withdrawals) · unlocked(now)      (code as it is)
    `lockFull`    : released ≤ unlocked(now)                                                (patched code)
-/
import SgeProofs.Lemmas.Subaccount
namespace Sge.Subaccount

/-- per-subaccount invariant -/
structure SubOK (fixed : Bool) (now : Nat) (sub : Sub) : Prop where
  sum : SumNonneg sub.sum
  locks : ∀ l ∈ sub.locks, 0 ≤ l.2
  wdSplit : sub.sum.withdrawn = sub.released + sub.wagered
  toOwnerSplit : sub.toOwner = sub.released + sub.wagered + sub.profitOut
  relNonneg : 0 ≤ sub.released
  wagNonneg : 0 ≤ sub.wagered
  profNonneg : 0 ≤ sub.profitOut
  lockPartial : sub.released ≤ sub.nRel * unlockedSum now sub.locks
  lockFull : fixed = true → sub.released ≤ unlockedSum now sub.locks

structure Inv (s : State) : Prop where
  bankNonneg : ∀ a, 0 ≤ s.bank a
  subOK : ∀ a sub, s.subs a = some sub → SubOK s.fixed s.now sub
  mapsInv : ∀ o a, s.ownerMap o = some a ↔ s.subMap a = some o
  subsDom : ∀ a, (s.subs a).isSome ↔ (s.subMap a).isSome
  range : ∀ a, (s.subs a).isSome → subBase ≤ a ∧ a < addrOf s.nextId

/-! ## per-record lemmas -/

theorem SubOK.advance {fixed : Bool} {now now' : Nat} {sub : Sub} (h : SubOK fixed now sub) (hle : now ≤ now') :
    SubOK fixed now' sub := by
  have hm := unlockedSum_mono now now' hle sub.locks h.locks
  refine { h with lockPartial := ?_, lockFull := ?_ }
  · have h1 := h.lockPartial
    have h2 : (sub.nRel : Int) * unlockedSum now sub.locks ≤ (sub.nRel : Int) * unlockedSum now' sub.locks :=
      Int.mul_le_mul_of_nonneg_left hm (Int.natCast_nonneg _)
    omega
  · intro hf
    have := h.lockFull hf
    omega

/-- only the summary changes, `withdrawn` stays -/
theorem SubOK.setSum {fixed : Bool} {now : Nat} {sub : Sub} (h : SubOK fixed now sub) {sum' : Summary}
    (hn : SumNonneg sum') (hw : sum'.withdrawn = sub.sum.withdrawn) : SubOK fixed now { sub with sum := sum' } := by
  exact { h with sum := hn, wdSplit := by simpa [hw] using h.wdSplit }

theorem SubOK.setStaked {fixed : Bool} {now : Nat} {sub : Sub} (h : SubOK fixed now sub) (v : Int) :
    SubOK fixed now { sub with staked := v } := by
  exact { h with }

theorem SubOK.topUp {fixed : Bool} {now : Nat} {sub : Sub} (h : SubOK fixed now sub) {ls : List Lock} {total : Int}
    (ht : 0 ≤ total) (hnn : ∀ l ∈ ls, 0 ≤ l.2) (hts : ∀ l ∈ ls, now ≤ l.1) :
    SubOK fixed now { sub with sum := { sub.sum with deposited := sub.sum.deposited + total }, locks := setLocks sub.locks ls } := by
  have hu := unlockedSum_setLocks now ls sub.locks hts
  have hs := h.sum
  refine { h with sum := ⟨?_, hs.spent, hs.wd, hs.lost⟩, locks := setLocks_nonneg ls sub.locks h.locks hnn,
                  lockPartial := ?_, lockFull := ?_ }
  · show 0 ≤ sub.sum.deposited + total
    have := hs.dep
    omega
  · show sub.released ≤ (sub.nRel : Int) * unlockedSum now (setLocks sub.locks ls)
    rw [hu]; exact h.lockPartial
  · intro hf
    show sub.released ≤ unlockedSum now (setLocks sub.locks ls)
    rw [hu]; exact h.lockFull hf

theorem SubOK.fresh (fixed : Bool) (now : Nat) {ls : List Lock} {total : Int}
    (ht : 0 ≤ total) (hnn : ∀ l ∈ ls, 0 ≤ l.2) :
    SubOK fixed now { sum := { deposited := total }, locks := setLocks [] ls } := by
  have hl : ∀ l ∈ setLocks [] ls, 0 ≤ l.2 := setLocks_nonneg ls [] (by simp) hnn
  have hu := unlockedSum_nonneg now _ hl
  refine ⟨⟨ht, ?_, ?_, ?_⟩, hl, ?_, ?_, ?_, ?_, ?_, ?_, ?_⟩ <;> simp <;> try omega

/-- `withdrawUnlocked` on one record -/
theorem SubOK.withdrawUnlocked {fixed : Bool} {now : Nat} {sub : Sub} (h : SubOK fixed now sub) {bank w : Int} {sum' : Summary}
    (hw : w = sub.sum.withdrawableUnlocked fixed (unlockedSum now sub.locks) bank)
    (hwd : sub.sum.withdraw w = some sum') :
    SubOK fixed now { sub with sum := sum', released := sub.released + w, nRel := sub.nRel + 1, toOwner := sub.toOwner + w } := by
  obtain ⟨h0, h1, rfl⟩ := withdraw_some hwd
  have hs := h.sum
  have hU := unlockedSum_nonneg now sub.locks h.locks
  have hlp := h.lockPartial
  have hsplit := h.wdSplit
  have hwag := h.wagNonneg
  have hrel := h.relNonneg
  have hts := h.toOwnerSplit
  -- the amount is at most the unlocked total (in both variants)
  have hle : w ≤ unlockedSum now sub.locks := by
    rw [hw]; unfold Summary.withdrawableUnlocked
    cases fixed <;> simp <;> omega
  refine ⟨⟨hs.dep, hs.spent, ?_, hs.lost⟩, h.locks, ?_, ?_, ?_, hwag, h.profNonneg, ?_, ?_⟩
  · show 0 ≤ sub.sum.withdrawn + w
    have := hs.wd; omega
  · show sub.sum.withdrawn + w = sub.released + w + sub.wagered
    omega
  · show sub.toOwner + w = sub.released + w + sub.wagered + sub.profitOut
    omega
  · show 0 ≤ sub.released + w
    omega
  · show sub.released + w ≤ ((sub.nRel + 1 : Nat) : Int) * unlockedSum now sub.locks
    rw [Int.natCast_add, Int.add_mul]
    simp only [Int.natCast_one, Int.one_mul]
    omega
  · intro hf
    show sub.released + w ≤ unlockedSum now sub.locks
    subst hf
    have hle2 : w ≤ max 0 (unlockedSum now sub.locks - sub.sum.withdrawn) := by
      rw [hw]; unfold Summary.withdrawableUnlocked
      simp; omega
    by_cases hz : w = 0
    · have := h.lockFull rfl; omega
    · have : 0 < w := by omega
      have : w ≤ unlockedSum now sub.locks - sub.sum.withdrawn := by omega
      omega

/-- `withdrawLockedAndUnlocked` on one record -/
theorem SubOK.withdrawLocked {fixed : Bool} {now : Nat} {sub : Sub} (h : SubOK fixed now sub) {d : Int} {sum' : Summary}
    (hwd : sub.sum.withdraw d = some sum') :
    SubOK fixed now { sub with sum := sum', wagered := sub.wagered + d, toOwner := sub.toOwner + d } := by
  obtain ⟨h0, h1, rfl⟩ := withdraw_some hwd
  have hs := h.sum
  have hsplit := h.wdSplit
  have hts := h.toOwnerSplit
  have hwag := h.wagNonneg
  refine ⟨⟨hs.dep, hs.spent, ?_, hs.lost⟩, h.locks, ?_, ?_, h.relNonneg, ?_, h.profNonneg, h.lockPartial, h.lockFull⟩
  · show 0 ≤ sub.sum.withdrawn + d
    have := hs.wd; omega
  · show sub.sum.withdrawn + d = sub.released + (sub.wagered + d)
    omega
  · show sub.toOwner + d = sub.released + (sub.wagered + d) + sub.profitOut
    omega
  · show 0 ≤ sub.wagered + d
    omega

/-- `returnToSubaccount` on one record (patched wager) -/
theorem SubOK.wagerReturn {fixed : Bool} {now : Nat} {sub : Sub} (h : SubOK fixed now sub) {amt : Int}
    (h0 : 0 ≤ amt) (h1 : amt ≤ sub.wagered) :
    SubOK fixed now { sub with sum := { sub.sum with withdrawn := sub.sum.withdrawn - amt },
                               wagered := sub.wagered - amt, toOwner := sub.toOwner - amt } := by
  have hs := h.sum
  have hsplit := h.wdSplit
  have hts := h.toOwnerSplit
  have hrel := h.relNonneg
  refine ⟨⟨hs.dep, hs.spent, ?_, hs.lost⟩, h.locks, ?_, ?_, h.relNonneg, ?_, h.profNonneg, h.lockPartial, h.lockFull⟩
  · show 0 ≤ sub.sum.withdrawn - amt
    omega
  · show sub.sum.withdrawn - amt = sub.released + (sub.wagered - amt)
    omega
  · show sub.toOwner - amt = sub.released + (sub.wagered - amt) + sub.profitOut
    omega
  · show 0 ≤ sub.wagered - amt
    omega

/-- `AfterHouseWin` on one record -/
theorem SubOK.win {fixed : Bool} {now : Nat} {sub : Sub} (h : SubOK fixed now sub) {sum' : Summary} {p : Int}
    (hn : SumNonneg sum') (hw : sum'.withdrawn = sub.sum.withdrawn) (hp : 0 ≤ p) :
    SubOK fixed now { sub with sum := sum', profitOut := sub.profitOut + p, toOwner := sub.toOwner + p } := by
  have hts := h.toOwnerSplit
  have hpn := h.profNonneg
  refine ⟨hn, h.locks, ?_, ?_, h.relNonneg, h.wagNonneg, ?_, h.lockPartial, h.lockFull⟩
  · show sum'.withdrawn = sub.released + sub.wagered
    rw [hw]; exact h.wdSplit
  · show sub.toOwner + p = sub.released + sub.wagered + (sub.profitOut + p)
    omega
  · show 0 ≤ sub.profitOut + p
    omega

theorem SumNonneg.unspend {m m' : Summary} {amt : Int} (hn : SumNonneg m) (h : m.unspend amt = some m') :
    SumNonneg m' ∧ m'.withdrawn = m.withdrawn := by
  obtain ⟨h0, h1, rfl⟩ := unspend_some h
  exact ⟨⟨hn.dep, by show 0 ≤ m.spent - amt; omega, hn.wd, hn.lost⟩, rfl⟩

theorem SumNonneg.spend {m m' : Summary} {amt : Int} (hn : SumNonneg m) (h : m.spend amt = some m') :
    SumNonneg m' ∧ m'.withdrawn = m.withdrawn := by
  obtain ⟨h0, h1, rfl⟩ := spend_some h
  have := hn.spent
  exact ⟨⟨hn.dep, by show 0 ≤ m.spent + amt; omega, hn.wd, hn.lost⟩, rfl⟩

theorem SumNonneg.addLoss {m m' : Summary} {amt : Int} (hn : SumNonneg m) (h : m.addLoss amt = some m') :
    SumNonneg m' ∧ m'.withdrawn = m.withdrawn := by
  obtain ⟨h0, rfl⟩ := addLoss_some h
  have := hn.lost
  exact ⟨⟨hn.dep, hn.spent, hn.wd, by show 0 ≤ m.lost + amt; omega⟩, rfl⟩

/-! ## state-level frame lemmas -/

/-- bank and one existing subaccount record change -/
theorem Inv.update {s : State} (hinv : Inv s) {a : Nat} {sub sub' : Sub} {bank' : Nat → Int} {clean' : Bool}
    (hs : s.subs a = some sub) (hbank : ∀ x, 0 ≤ bank' x) (hok : SubOK s.fixed s.now sub') :
    Inv { s with bank := bank', subs := upd s.subs a (some sub'), clean := clean' } := by
  refine ⟨hbank, ?_, hinv.mapsInv, ?_, ?_⟩
  · intro a' sub'' h
    by_cases e : a' = a
    · subst e
      simp only [upd_same, Option.some.injEq] at h
      subst h; exact hok
    · simp only [upd_other _ _ _ _ e] at h
      exact hinv.subOK a' sub'' h
  · intro a'
    by_cases e : a' = a
    · subst e
      have := (hinv.subsDom a').mp (by simp [hs])
      simpa using this
    · simp only [upd_other _ _ _ _ e]
      exact hinv.subsDom a'
  · intro a' h
    by_cases e : a' = a
    · subst e
      exact hinv.range a' (by simp [hs])
    · simp only [upd_other _ _ _ _ e] at h
      exact hinv.range a' h

/-- only bank / clean change -/
theorem Inv.setBank {s : State} (hinv : Inv s) {bank' : Nat → Int} {clean' : Bool} (hbank : ∀ x, 0 ≤ bank' x) :
    Inv { s with bank := bank', clean := clean' } :=
  ⟨hbank, hinv.subOK, hinv.mapsInv, hinv.subsDom, hinv.range⟩

/-! ## handlers -/

theorem createKeeper_inv {s : State} (hinv : Inv s) (creator owner : Nat) (ls : List Lock) (hnn : ∀ l ∈ ls, 0 ≤ l.2) :
    Inv (createKeeper s creator owner ls).1 := by
  unfold createKeeper
  split
  · exact hinv
  · rename_i total hsum
    split
    · exact hinv
    · rename_i hown
      dsimp only
      split
      · exact hinv
      · rename_i bank' hsend
        obtain ⟨_, htot⟩ := sumLocked_some hsum
        have ht : 0 ≤ total := by rw [htot]; exact sum_map_nonneg ls hnn
        have hfreshSub : s.subs (addrOf s.nextId) = none := by
          cases h : s.subs (addrOf s.nextId) with
          | none => rfl
          | some x =>
            have := (hinv.range (addrOf s.nextId) (by simp [h])).2
            omega
        have hfreshMap : s.subMap (addrOf s.nextId) = none := by
          cases h : s.subMap (addrOf s.nextId) with
          | none => rfl
          | some x =>
            have := (hinv.subsDom (addrOf s.nextId)).mpr (by simp [h])
            simp [hfreshSub] at this
        refine ⟨send_bank_nonneg hsend hinv.bankNonneg, ?_, ?_, ?_, ?_⟩
        · intro a' sub'' h
          simp only at h
          by_cases e : a' = addrOf s.nextId
          · subst e
            simp only [upd_same, Option.some.injEq] at h
            subst h
            exact SubOK.fresh s.fixed s.now ht hnn
          · simp only [upd_other _ _ _ _ e] at h
            exact hinv.subOK a' sub'' h
        · intro o a
          simp only [upd_apply]
          by_cases e1 : o = owner <;> by_cases e2 : a = addrOf s.nextId
          · simp [e1, e2]
          · subst e1
            simp only [if_true, if_neg e2, Option.some.injEq]
            constructor
            · intro h; exact absurd h.symm e2
            · intro h
              have := (hinv.mapsInv o a).mpr h
              rw [hown] at this; cases this
          · subst e2
            simp only [if_neg e1, if_true, Option.some.injEq]
            constructor
            · intro h
              have := (hinv.mapsInv o _).mp h
              rw [hfreshMap] at this; cases this
            · intro h; exact absurd h.symm e1
          · simp only [if_neg e1, if_neg e2]
            exact hinv.mapsInv o a
        · intro a'
          simp only [upd_apply]
          by_cases e : a' = addrOf s.nextId
          · simp [e]
          · simp only [if_neg e]
            exact hinv.subsDom a'
        · intro a' h
          simp only [upd_apply] at h
          by_cases e : a' = addrOf s.nextId
          · subst e
            simp only [addrOf, subBase]
            have := hinv.range
            constructor <;> omega
          · simp only [if_neg e] at h
            have := hinv.range a' h
            simp only [addrOf] at this ⊢
            omega

theorem topUpKeeper_inv {s : State} (hinv : Inv s) (creator owner : Nat) (ls : List Lock) (hnn : ∀ l ∈ ls, 0 ≤ l.2) :
    Inv (topUpKeeper s creator owner ls).1 := by
  unfold topUpKeeper
  split
  · exact hinv
  · rename_i total hsum
    split
    · exact hinv
    · split
      · exact hinv
      · rename_i a _ _ sub hs
        split
        · exact hinv
        · split
          · exact hinv
          · rename_i bank' hsend
            obtain ⟨hts, htot⟩ := sumLocked_some hsum
            have ht : 0 ≤ total := by rw [htot]; exact sum_map_nonneg ls hnn
            exact hinv.update (clean' := s.clean) hs (send_bank_nonneg hsend hinv.bankNonneg) ((hinv.subOK a sub hs).topUp ht hnn hts)

theorem withdrawUnlockedAt_inv {s : State} (hinv : Inv s) (a owner : Nat) : Inv (withdrawUnlockedAt s a owner).1 := by
  unfold withdrawUnlockedAt
  split
  · exact hinv
  · rename_i sub hs
    simp only
    split
    · exact hinv
    · split
      · exact hinv
      · rename_i sum' hwd
        split
        · exact hinv
        · rename_i bank' hsend
          exact hinv.update (clean' := s.clean) hs (send_bank_nonneg hsend hinv.bankNonneg) ((hinv.subOK a sub hs).withdrawUnlocked rfl hwd)

theorem withdrawLockedAt_inv {s : State} (hinv : Inv s) (a owner : Nat) (d : Int) : Inv (withdrawLockedAt s a owner d).1 := by
  unfold withdrawLockedAt
  split
  · exact hinv
  · rename_i sub hs
    simp only
    split
    · exact hinv
    · split
      · exact hinv
      · split
        · exact hinv
        · rename_i bank' hsend
          split
          · exact hinv
          · rename_i sum' hwd
            exact hinv.update (clean' := s.clean) hs (send_bank_nonneg hsend hinv.bankNonneg) ((hinv.subOK a sub hs).withdrawLocked hwd)

theorem wagerBet_inv {s0 s1 : State} (h0 : Inv s0) (h1 : Inv s1) (owner a : Nat) (x : WagerExt) :
    Inv (wagerBet s0 s1 owner a x).1 := by
  unfold wagerBet
  split
  · exact h0
  · split
    · exact h0
    · rename_i bank' hsend
      split
      · exact h0
      · rename_i sub hs
        exact h1.update (clean' := s1.clean) hs (send_bank_nonneg hsend h1.bankNonneg) ((h1.subOK a sub hs).setStaked _)

/-- the record at `a` exists and its wager ghost is at least `d` -/
def WageredAtLeast (s : State) (a : Nat) (d : Int) : Prop := ∃ sb, s.subs a = some sb ∧ d ≤ sb.wagered

theorem withdrawLockedAt_wagered {s s1 : State} (hinv : Inv s) {a owner : Nat} {d : Int}
    (h : withdrawLockedAt s a owner d = (s1, .ok)) : WageredAtLeast s1 a d := by
  unfold withdrawLockedAt at h
  split at h
  · simp at h
  · rename_i sub hs
    dsimp only at h
    split at h
    · simp at h
    · split at h
      · simp at h
      · split at h
        · simp at h
        · split at h
          · simp at h
          · simp only [Prod.mk.injEq, and_true] at h
            subst h
            refine ⟨_, upd_same _ _ _, ?_⟩
            have := (hinv.subOK a sub hs).wagNonneg
            show d ≤ sub.wagered + d
            omega

theorem wagerBet_wagered {s0 s1 s2 : State} {owner a : Nat} {x : WagerExt} {d : Int}
    (h : wagerBet s0 s1 owner a x = (s2, .ok)) (hw : WageredAtLeast s1 a d) : WageredAtLeast s2 a d := by
  obtain ⟨sb, hs, hd⟩ := hw
  unfold wagerBet at h
  split at h
  · simp at h
  · split at h
    · simp at h
    · split at h
      · simp at h
      · rename_i sub hs'
        rw [hs] at hs'
        simp only [Option.some.injEq] at hs'
        subst hs'
        simp only [Prod.mk.injEq, and_true] at h
        subst h
        exact ⟨_, upd_same _ _ _, hd⟩

theorem wagerReturn_inv {s0 s2 : State} (h0 : Inv s0) (h2 : Inv s2) (owner a : Nat) (main sub : Int)
    (hw : WageredAtLeast s2 a sub) : Inv (wagerReturn s0 s2 owner a main sub).1 := by
  obtain ⟨sb, hs, hd⟩ := hw
  unfold wagerReturn
  split
  · exact h2
  · dsimp only
    split
    · exact h2
    · rename_i hpos
      split
      · exact h0
      · rename_i sb' hs'
        rw [hs] at hs'
        simp only [Option.some.injEq] at hs'
        subst hs'
        split
        · exact h0
        · split
          · exact h0
          · rename_i bank' hsend
            exact h2.update (clean' := s2.clean) hs (send_bank_nonneg hsend h2.bankNonneg)
              ((h2.subOK a sb hs).wagerReturn (by omega) (by omega))

theorem wagerTail_inv {s : State} (hinv : Inv s) (owner a : Nat) (main sub : Int) (x : WagerExt) :
    Inv (wagerTail s owner a main sub x).1 := by
  unfold wagerTail
  cases h1 : withdrawLockedAt s a owner sub with
  | mk s1 r1 =>
    cases r1 with
    | ok =>
      dsimp only
      have hi1 : Inv s1 := by
        have := withdrawLockedAt_inv hinv a owner sub
        rw [h1] at this; exact this
      have hw1 := withdrawLockedAt_wagered hinv h1
      cases h2 : wagerBet s s1 owner a x with
      | mk s2 r2 =>
        cases r2 with
        | ok =>
          dsimp only
          have hi2 : Inv s2 := by
            have := wagerBet_inv hinv hi1 owner a x
            rw [h2] at this; exact this
          exact wagerReturn_inv hinv hi2 owner a main sub (wagerBet_wagered h2 hw1)
        | err e => exact hinv
        | panic => exact hinv
    | err e => exact hinv
    | panic => exact hinv

theorem wager_inv {s : State} (hinv : Inv s) (owner : Nat) (main sub : Int) (x : WagerExt) :
    Inv (wager s owner main sub x).1 := by
  unfold wager
  repeat' split
  all_goals first
    | exact hinv
    | exact wagerTail_inv hinv _ _ _ _ _

theorem houseDeposit_inv {s : State} (hinv : Inv s) (owner : Nat) (amount : Int) (x : HouseDepExt) :
    Inv (houseDeposit s owner amount x).1 := by
  unfold houseDeposit
  split
  · exact hinv
  · split
    · exact hinv
    · split
      · exact hinv
      · rename_i a _ _ sub hs
        split
        · exact hinv
        · split
          · exact hinv
          · rename_i sum' hsp
            split
            · exact hinv
            · split
              · exact hinv
              · rename_i bank' hsend
                have := (hinv.subOK a sub hs).sum.spend hsp
                exact hinv.update (clean' := s.clean) hs (send_bank_nonneg hsend hinv.bankNonneg) ((hinv.subOK a sub hs).setSum this.1 this.2)

theorem houseWithdraw_inv {s : State} (hinv : Inv s) (owner : Nat) (x : HouseWdExt) :
    Inv (houseWithdraw s owner x).1 := by
  unfold houseWithdraw
  split
  · exact hinv
  · split
    · exact hinv
    · rename_i a _ _ sub hs
      split
      · exact hinv
      · split
        · exact hinv
        · split
          · exact hinv
          · rename_i bank' hsend
            split
            · exact hinv
            · rename_i sum' hun
              have := (hinv.subOK a sub hs).sum.unspend hun
              exact hinv.update (clean' := s.clean) hs (send_bank_nonneg hsend hinv.bankNonneg) ((hinv.subOK a sub hs).setSum this.1 this.2)

theorem hookWin_inv {s : State} (hinv : Inv s) (house : Nat) (orig profit : Int) : Inv (hookWin s house orig profit).1 := by
  unfold hookWin
  split
  · exact hinv
  · rename_i sub hs
    split
    · exact hinv
    · rename_i sum' hun
      split
      · exact hinv
      · split
        · exact hinv
        · rename_i bank' hsend
          have := (hinv.subOK house sub hs).sum.unspend hun
          exact hinv.update (clean' := s.clean) hs (send_bank_nonneg hsend hinv.bankNonneg)
            ((hinv.subOK house sub hs).win this.1 this.2 (send_nonneg_amt hsend).1)

theorem hookLoss_inv {s : State} (hinv : Inv s) (house : Nat) (orig lost : Int) : Inv (hookLoss s house orig lost).1 := by
  unfold hookLoss
  split
  · exact hinv
  · rename_i sub hs
    split
    · exact hinv
    · rename_i sum1 hun
      split
      · exact hinv
      · rename_i sum' hl
        have h1 := (hinv.subOK house sub hs).sum.unspend hun
        have h2 := h1.1.addLoss hl
        have := hinv.update (clean' := s.clean) (bank' := s.bank) hs hinv.bankNonneg
          ((hinv.subOK house sub hs).setSum h2.1 (by rw [h2.2, h1.2]))
        exact this

theorem hookRefund_inv {s : State} (hinv : Inv s) (house : Nat) (orig : Int) : Inv (hookRefund s house orig).1 := by
  unfold hookRefund
  split
  · exact hinv
  · rename_i sub hs
    split
    · exact hinv
    · rename_i sum' hun
      have h1 := (hinv.subOK house sub hs).sum.unspend hun
      exact hinv.update (clean' := s.clean) (bank' := s.bank) hs hinv.bankNonneg ((hinv.subOK house sub hs).setSum h1.1 h1.2)

theorem hook_inv {s : State} (hinv : Inv s) (k : HookKind) (house : Nat) (x y : Int) : Inv (hook s k house x y).1 := by
  unfold hook
  cases k
  · exact hookWin_inv hinv ..
  · exact hookLoss_inv hinv ..
  · exact hookRefund_inv hinv ..
  · exact hookRefund_inv hinv ..

theorem settle_inv {s : State} (hinv : Inv s) (k : HookKind) (house : Nat) (refund x y : Int) :
    Inv (settle s k house refund x y).1 := by
  unfold settle
  split
  · exact hinv
  · rename_i bank1 hsend
    simp only
    have h1 := hinv.setBank (clean' := s.clean && (decide (house < subBase) || (s.subs house).isSome))
      (send_bank_nonneg hsend hinv.bankNonneg)
    have h2 := hook_inv h1 k house x y
    split
    · rename_i s2 heq
      rw [heq] at h2; exact h2
    · exact hinv

theorem grantCreate_inv {s : State} (hinv : Inv s) (creator receiver : Nat) : Inv (grantCreate s creator receiver).1 := by
  unfold grantCreate
  split
  · exact hinv
  · exact createKeeper_inv hinv _ _ _ (by simp)

theorem grant_inv {s : State} (hinv : Inv s) (creator receiver : Nat) (amt : Int) (period : Nat) :
    Inv (grant s creator receiver amt period).1 := by
  unfold grant
  split
  · rename_i s1 heq
    have hc : Inv s1 := by
      have h := congrArg Prod.fst heq
      simp only at h
      rw [← h]; exact grantCreate_inv hinv _ _
    split
    · rename_i hpos
      have h2 := topUpKeeper_inv hc poolAcct receiver [(s.now + period, amt)] (by
        intro l hl
        simp only [List.mem_singleton] at hl
        subst hl
        show 0 ≤ amt
        omega)
      split
      · rename_i s2 heq2
        rw [heq2] at h2; exact h2
      · exact hinv
    · exact hc
  · exact hinv

theorem step_inv {s : State} (hinv : Inv s) (op : Op) : Inv (step s op).1 := by
  cases op with
  | advance dt =>
    show Inv { s with now := s.now + dt }
    exact ⟨hinv.bankNonneg, fun a sub h => (hinv.subOK a sub h).advance (Nat.le_add_right _ _), hinv.mapsInv, hinv.subsDom, hinv.range⟩
  | params w d => exact ⟨hinv.bankNonneg, hinv.subOK, hinv.mapsInv, hinv.subsDom, hinv.range⟩
  | fund a v =>
    show Inv (fund s a v).1
    unfold fund
    split
    · exact hinv
    · rename_i hv
      apply hinv.setBank
      intro x
      have := hinv.bankNonneg x
      have := hinv.bankNonneg a
      simp only [upd_apply]
      split <;> omega
  | send f t v =>
    show Inv (bankSend s f t v).1
    unfold bankSend
    split
    · exact hinv
    · rename_i bank' hsend
      exact hinv.setBank (send_bank_nonneg hsend hinv.bankNonneg)
  | create c o ls =>
    show Inv (create s c o ls).1
    unfold create
    split
    · exact hinv
    · rename_i hv
      exact createKeeper_inv hinv c o ls (validLocks_nonneg (by simpa using hv))
  | topUp c o ls =>
    show Inv (topUp s c o ls).1
    unfold topUp
    split
    · exact hinv
    · rename_i hv
      exact topUpKeeper_inv hinv c o ls (validLocks_nonneg (by simpa using hv))
  | withdrawUnlocked o =>
    show Inv (withdrawUnlocked s o).1
    unfold withdrawUnlocked
    split
    · exact hinv
    · exact withdrawUnlockedAt_inv hinv _ _
  | grant c r amt p => exact grant_inv hinv c r amt p
  | wager o m sb x => exact wager_inv hinv o m sb x
  | houseDeposit o amt x => exact houseDeposit_inv hinv o amt x
  | houseWithdraw o x => exact houseWithdraw_inv hinv o x
  | settle k h r x y => exact settle_inv hinv k h r x y

theorem initCfg_inv (fixed fixedNeg fixedRet : Bool) (bank : Nat → Int) (hb : ∀ a, 0 ≤ bank a) :
    Inv (initCfg fixed fixedNeg fixedRet bank) := by
  refine ⟨hb, ?_, ?_, ?_, ?_⟩ <;> simp [initCfg]

theorem init_inv (fixed : Bool) (bank : Nat → Int) (hb : ∀ a, 0 ≤ bank a) : Inv (init fixed bank) :=
  initCfg_inv fixed false false bank hb

theorem run_inv {s : State} (hinv : Inv s) (ops : List Op) : Inv (run s ops) := by
  unfold run
  induction ops generalizing s with
  | nil => exact hinv
  | cons op rest ih =>
    simp only [List.foldl_cons]
    exact ih (step_inv hinv op)

end Sge.Subaccount
