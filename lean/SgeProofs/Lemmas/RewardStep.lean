/-
  L3/L4 glue: every operation (`exec` / `step`) preserves `Inv` and — for non-negative components — `PoolEq`;
  lifted to whole histories (`run` = `List.foldl step`).
-/
import SgeProofs.Lemmas.RewardPool
namespace Sge.Reward
open Sge

/-! ### environment operations -/

theorem authzGrant_ok {s s' : State} {a b k : Nat} {l : Option Int} {e : Option Nat} (h : authzGrant s a b k l e = .ok s') :
    (k = 2 → s.codecFixed = true) ∧ k ≤ 2 ∧
    s' = { s with grants := setGrant s.grants { granter := a, grantee := b, kind := k, limit := l.getD 0, exp := e } } := by
  unfold authzGrant at h
  invert h
  all_goals
    injection h with h; subst h
    refine ⟨?_, by omega, rfl⟩
    intro hk
    simp_all

theorem authzRevoke_ok {s s' : State} {a b k : Nat} (h : authzRevoke s a b k = .ok s') :
    s' = { s with grants := delGrant s.grants a b k } := by
  unfold authzRevoke at h
  invert h
  injection h with h; exact h.symm

theorem putBet_ok {s s' : State} {b : Bet} (h : putBet s b = .ok s') :
    0 ≤ b.amount ∧ s' = { s with bets := setBet s.bets b } := by
  unfold putBet at h
  invert h
  injection h with h
  exact ⟨by omega, h.symm⟩

theorem createSub_ok {s s' : State} {o : Nat} (h : createSub s o = .ok s') :
    s' = { s with subs := ensureSub s.subs o } := by
  unfold createSub at h
  invert h
  injection h with h; exact h.symm

theorem bankSend_ok {s s' : State} {f t : Nat} {a : Int} (h : bankSend s f t a = .ok s') :
    ∃ b, t ≠ POOL ∧ f ≠ POOL ∧ send s.bank f t a = .ok b ∧ s' = { s with bank := b } := by
  unfold bankSend at h
  invert h
  injection h with h
  exact ⟨_, by assumption, by assumption, by assumption, h.symm⟩

/-! ### one operation -/

theorem inv_exec {s s' : State} {op : Op} (hI : Inv s) (h : exec s op = .ok s') : Inv s' := by
  cases op with
  | time t =>
    simp only [exec, Except.ok.injEq] at h; subst h
    exact ⟨hI.addrOk, hI.promOk, hI.avail, hI.once, hI.idxCat, hI.idxCamp, hI.cap⟩
  | createPromoter m => exact inv_createPromoter hI h
  | setConf m => exact inv_setPromoterConf hI h
  | createCampaign m => exact inv_createCampaign hI h
  | updateCampaign m => exact inv_updateCampaign hI h
  | withdraw m => exact inv_withdrawFunds hI h
  | grant m => exact inv_grantReward hI h
  | authzGrant a b k l e =>
    obtain ⟨_, _, rfl⟩ := authzGrant_ok h
    exact ⟨hI.addrOk, hI.promOk, hI.avail, hI.once, hI.idxCat, hI.idxCamp, hI.cap⟩
  | authzRevoke a b k =>
    have := authzRevoke_ok h; subst this
    exact ⟨hI.addrOk, hI.promOk, hI.avail, hI.once, hI.idxCat, hI.idxCamp, hI.cap⟩
  | putBet b =>
    obtain ⟨_, rfl⟩ := putBet_ok h
    exact ⟨hI.addrOk, hI.promOk, hI.avail, hI.once, hI.idxCat, hI.idxCamp, hI.cap⟩
  | createSub o =>
    have := createSub_ok h; subst this
    exact ⟨hI.addrOk, hI.promOk, hI.avail, hI.once, hI.idxCat, hI.idxCamp, hI.cap⟩
  | bankSend f t a =>
    obtain ⟨b, _, _, _, rfl⟩ := bankSend_ok h
    exact ⟨hI.addrOk, hI.promOk, hI.avail, hI.once, hI.idxCat, hI.idxCamp, hI.cap⟩

theorem poolEq_exec {s s' : State} {op : Op} (hI : Inv s) (hP : PoolEq s)
    (hok : s.fixed = true ∨ OpNonneg op) (h : exec s op = .ok s') : PoolEq s' := by
  cases op with
  | time t =>
    simp only [exec, Except.ok.injEq] at h; subst h
    exact ⟨hP.nonneg, hP.bets, hP.eq⟩
  | createPromoter m =>
    obtain ⟨_, _, rfl⟩ := createPromoter_ok h
    exact ⟨hP.nonneg, hP.bets, hP.eq⟩
  | setConf m =>
    obtain ⟨p, _, _, _, rfl⟩ := setPromoterConf_ok h
    exact ⟨hP.nonneg, hP.bets, hP.eq⟩
  | createCampaign m => exact poolEq_createCampaign hI hP hok h
  | updateCampaign m => exact poolEq_updateCampaign hI hP h
  | withdraw m => exact poolEq_withdrawFunds hI hP h
  | grant m => exact poolEq_grantReward hP h
  | authzGrant a b k l e =>
    obtain ⟨_, _, rfl⟩ := authzGrant_ok h
    exact ⟨hP.nonneg, hP.bets, hP.eq⟩
  | authzRevoke a b k =>
    have := authzRevoke_ok h; subst this
    exact ⟨hP.nonneg, hP.bets, hP.eq⟩
  | putBet b =>
    obtain ⟨hb, rfl⟩ := putBet_ok h
    refine ⟨hP.nonneg, ?_, hP.eq⟩
    intro x hx
    cases mem_setBy _ _ _ _ hx with
    | inl e => rw [e]; exact hb
    | inr hm => exact hP.bets x hm
  | createSub o =>
    have := createSub_ok h; subst this
    exact ⟨hP.nonneg, hP.bets, hP.eq⟩
  | bankSend f t a =>
    obtain ⟨b, ht, hf, hs, rfl⟩ := bankSend_ok h
    refine ⟨hP.nonneg, hP.bets, ?_⟩
    show b POOL = booked s.campaigns
    rw [send_other hs hf ht]; exact hP.eq

/-- the variant flag never changes -/
theorem exec_fixed {s s' : State} {op : Op} (h : exec s op = .ok s') : s'.fixed = s.fixed := by
  cases op with
  | time t => simp only [exec, Except.ok.injEq] at h; subst h; rfl
  | createPromoter m => obtain ⟨_, _, rfl⟩ := createPromoter_ok h; rfl
  | setConf m => obtain ⟨p, _, _, _, rfl⟩ := setPromoterConf_ok h; rfl
  | createCampaign m => obtain ⟨_, _, _, _, _, _, _, _, _, _, _, rfl⟩ := createCampaign_ok h; rfl
  | updateCampaign m =>
    obtain ⟨c, gs, _, _, _, _, _, hcase⟩ := updateCampaign_ok h
    rcases hcase with ⟨_, _, _, _, _, rfl⟩ | ⟨_, rfl⟩ <;> rfl
  | withdraw m => obtain ⟨_, _, _, _, _, _, _, _, _, _, _, _, rfl⟩ := withdrawFunds_ok h; rfl
  | grant m => obtain ⟨_, _, _, _, _, _, _, _, _, _, _, _, _, rfl⟩ := grantReward_ok h; rfl
  | authzGrant a b k l e => obtain ⟨_, _, rfl⟩ := authzGrant_ok h; rfl
  | authzRevoke a b k => have := authzRevoke_ok h; subst this; rfl
  | putBet b => obtain ⟨_, rfl⟩ := putBet_ok h; rfl
  | createSub o => have := createSub_ok h; subst this; rfl
  | bankSend f t a => obtain ⟨b, _, _, _, rfl⟩ := bankSend_ok h; rfl

/-- the variant flag never changes -/
theorem exec_codecFixed {s s' : State} {op : Op} (h : exec s op = .ok s') : s'.codecFixed = s.codecFixed := by
  cases op with
  | time t => simp only [exec, Except.ok.injEq] at h; subst h; rfl
  | createPromoter m => obtain ⟨_, _, rfl⟩ := createPromoter_ok h; rfl
  | setConf m => obtain ⟨p, _, _, _, rfl⟩ := setPromoterConf_ok h; rfl
  | createCampaign m => obtain ⟨_, _, _, _, _, _, _, _, _, _, _, rfl⟩ := createCampaign_ok h; rfl
  | updateCampaign m =>
    obtain ⟨c, gs, _, _, _, _, _, hcase⟩ := updateCampaign_ok h
    rcases hcase with ⟨_, _, _, _, _, rfl⟩ | ⟨_, rfl⟩ <;> rfl
  | withdraw m => obtain ⟨_, _, _, _, _, _, _, _, _, _, _, _, rfl⟩ := withdrawFunds_ok h; rfl
  | grant m => obtain ⟨_, _, _, _, _, _, _, _, _, _, _, _, _, rfl⟩ := grantReward_ok h; rfl
  | authzGrant a b k l e => obtain ⟨_, _, rfl⟩ := authzGrant_ok h; rfl
  | authzRevoke a b k => have := authzRevoke_ok h; subst this; rfl
  | putBet b => obtain ⟨_, rfl⟩ := putBet_ok h; rfl
  | createSub o => have := createSub_ok h; subst this; rfl
  | bankSend f t a => obtain ⟨b, _, _, _, rfl⟩ := bankSend_ok h; rfl

theorem step_eq (s : State) (op : Op) : (∃ s', exec s op = .ok s' ∧ step s op = s') ∨ step s op = s := by
  unfold step
  cases h : exec s op with
  | ok s' => exact Or.inl ⟨s', rfl, rfl⟩
  | error e => exact Or.inr rfl

theorem inv_step {s : State} (op : Op) (hI : Inv s) : Inv (step s op) := by
  rcases step_eq s op with ⟨s', h, e⟩ | e
  · rw [e]; exact inv_exec hI h
  · rw [e]; exact hI

theorem step_fixed (s : State) (op : Op) : (step s op).fixed = s.fixed := by
  rcases step_eq s op with ⟨s', h, e⟩ | e
  · rw [e]; exact exec_fixed h
  · rw [e]

theorem step_codecFixed (s : State) (op : Op) : (step s op).codecFixed = s.codecFixed := by
  rcases step_eq s op with ⟨s', h, e⟩ | e
  · rw [e]; exact exec_codecFixed h
  · rw [e]

theorem poolEq_step {s : State} (op : Op) (hI : Inv s) (hP : PoolEq s) (hok : s.fixed = true ∨ OpNonneg op) :
    PoolEq (step s op) := by
  rcases step_eq s op with ⟨s', h, e⟩ | e
  · rw [e]; exact poolEq_exec hI hP hok h
  · rw [e]; exact hP

/-! ### whole histories -/

theorem inv_run {s : State} (ops : List Op) (hI : Inv s) : Inv (run s ops) := by
  induction ops generalizing s with
  | nil => exact hI
  | cons op rest ih => exact ih (inv_step op hI)

theorem run_fixed (s : State) (ops : List Op) : (run s ops).fixed = s.fixed := by
  induction ops generalizing s with
  | nil => rfl
  | cons op rest ih =>
    show (run (step s op) rest).fixed = s.fixed
    rw [ih, step_fixed]

theorem run_codecFixed (s : State) (ops : List Op) : (run s ops).codecFixed = s.codecFixed := by
  induction ops generalizing s with
  | nil => rfl
  | cons op rest ih =>
    show (run (step s op) rest).codecFixed = s.codecFixed
    rw [ih, step_codecFixed]

theorem poolEq_run {s : State} (ops : List Op) (hI : Inv s) (hP : PoolEq s)
    (hok : s.fixed = true ∨ ∀ op ∈ ops, OpNonneg op) : PoolEq (run s ops) := by
  induction ops generalizing s with
  | nil => exact hP
  | cons op rest ih =>
    apply ih (inv_step op hI)
    · apply poolEq_step op hI hP
      cases hok with
      | inl hf => exact Or.inl hf
      | inr hn => exact Or.inr (hn op List.mem_cons_self)
    · cases hok with
      | inl hf => exact Or.inl (by rw [step_fixed]; exact hf)
      | inr hn => exact Or.inr (fun o ho => hn o (List.mem_cons_of_mem _ ho))

end Sge.Reward
