/-
  `betInv` (Sge/Genesis.lean) in every reachable state.

  `BetIdx` (SgeProofs/Lemmas/BetIndex.lean) already says that the pending / settled stores are the two indexes of the bet
  store, split by the bet *status*.  The genesis code (and therefore `betInv`) splits by the *settlement height* instead.
  The bridge is `HgtInv`: a bet is settled iff its settlement height is non-zero, which needs that no block has height 0.
-/
import SgeProofs.Lemmas.BetIndex
import SgeProofs.Properties.C08Index
namespace Sge.Core
open Sge Sge.Genesis

/-- block heights are positive; a bet has a settlement height iff it is settled -/
structure HgtInv (s : State) : Prop where
  pos : s.height ≠ 0
  settled : ∀ b ∈ s.bets, b.status = BS_SETTLED → b.settleHeight ≠ 0
  unsettled : ∀ b ∈ s.bets, b.status ≠ BS_SETTLED → b.settleHeight = 0

/-- the block clock of the environment never shows height 0 (the first block of a chain has height 1) -/
def Op.posHeight : Op → Prop
  | .newBlock h _ => h ≠ 0
  | _ => True

instance (op : Op) : Decidable op.posHeight := by
  cases op <;> unfold Op.posHeight <;> infer_instance

theorem HgtInv.of_same {s s' : State} (h : HgtInv s) (e : SameBets s s') : HgtInv s' := by
  obtain ⟨h1, h2, h3⟩ := h
  exact ⟨by rw [e.2.2.2.2]; exact h1, by rw [e.1]; exact h2, by rw [e.1]; exact h3⟩

/-- the wager stores one new record, `newBet`, and leaves the height alone -/
theorem wagerO_bets {s s' : State} {c : Nat} {tk : Tk} {u : Nat} {a : Int} {pl : WagerPayload}
    (h : wagerO s c tk u a pl = some s') :
    s'.height = s.height ∧ ∃ ov fulfs, s'.bets = upsert Bet.key (newBet s c u pl ov fulfs) s.bets := by
  unfold wagerO at h
  simp only [bind, Option.bind_eq_some_iff, pure, Option.some.injEq] at h
  obtain ⟨_, _, _, _, _, _, _, _, _, _, _, _, _, _, m, _, _, _, _, _, _, _, _, _, _, _, _, _, ov, _, _, _, b, _, r, _, s1, hs1, s2, hs2, hfin⟩ := h
  obtain ⟨_, _, rfl⟩ := bankSend_shape hs1
  obtain ⟨_, _, rfl⟩ := bankSend_shape hs2
  subst hfin
  exact ⟨rfl, ov, r.2.1, rfl⟩

theorem HgtInv.commit {s : State} {r : Option State} (hH : HgtInv s) (h : ∀ s', r = some s' → SameBets s s') :
    HgtInv (commit s r).1 := by
  unfold Core.commit
  cases r with
  | none => exact hH
  | some s' => exact hH.of_same (h s' rfl)

/-- every operation keeps `HgtInv`, provided a new block does not have height 0 -/
theorem step_hgtInv (s : State) (op : Op) (hI : BetIdx s) (hH : HgtInv s) (hp : op.posHeight) : HgtInv (step s op).1 := by
  cases op with
  | marketAdd c tk u st en o stt => exact hH.commit (fun _ h => marketAddO_same h)
  | marketUpdate tk u st en stt => exact hH.commit (fun _ h => marketUpdateO_same h)
  | marketResolve tk u ts stt w => exact hH.commit (fun _ h => marketResolveO_same h)
  | deposit c tk m a pd =>
    simp only [step, houseDeposit]
    cases h : houseDepositO s c tk m a pd with
    | none => exact hH
    | some r => exact hH.of_same (houseDepositO_same h)
  | withdraw c tk m i md a pd => exact hH.commit (fun _ h => houseWithdrawO_same h)
  | wager c tk u a pl =>
    simp only [step, wager, Core.commit]
    cases h : wagerO s c tk u a pl with
    | none => exact hH
    | some s' =>
      obtain ⟨hh, ov, fulfs, hb⟩ := wagerO_bets h
      refine ⟨by show s'.height ≠ 0; rw [hh]; exact hH.pos, ?_, ?_⟩
      · intro b' hb' hst
        have hb' : b' ∈ s'.bets := hb'
        rw [hb] at hb'
        rcases (mem_upsert Bet.key _ b' s.bets).mp hb' with e | e | e
        · rw [e] at hst; cases hst
        · exact hH.settled b' e.1 hst
        · exact hH.settled b' e.1 hst
      · intro b' hb' hst
        have hb' : b' ∈ s'.bets := hb'
        rw [hb] at hb'
        rcases (mem_upsert Bet.key _ b' s.bets).mp hb' with e | e | e
        · rw [e]; rfl
        · exact hH.unsettled b' e.1 hst
        · exact hH.unsettled b' e.1 hst
  | grant g e k l x => exact hH.of_same ⟨rfl, rfl, rfl, rfl, rfl⟩
  | revoke g e k => exact hH.of_same ⟨rfl, rfl, rfl, rfl, rfl⟩
  | send a b x =>
    simp only [step]
    split
    · exact hH
    · exact hH.commit (fun _ h => bankSend_same h)
  | setParams p =>
    simp only [step]
    split
    · exact hH.of_same ⟨rfl, rfl, rfl, rfl, rfl⟩
    · exact hH
  | endBlock =>
    simp only [step, endBlock]
    cases h : endBlockO s with
    | none => exact hH
    | some s' =>
      obtain ⟨_, g⟩ := endBlockO_good hI h
      refine ⟨by show s'.height ≠ 0; rw [g.height]; exact hH.pos, ?_, ?_⟩
      · intro b' hb' hst
        rcases g.origin b' hb' with hin | ⟨b0, _, _, res, e⟩
        · exact hH.settled b' hin hst
        · rw [e]; exact hH.pos
      · intro b' hb' hst
        rcases g.origin b' hb' with hin | ⟨b0, _, _, res, e⟩
        · exact hH.unsettled b' hin hst
        · rw [e] at hst; exact absurd rfl hst
  | newBlock h t =>
    exact ⟨hp, hH.settled, hH.unsettled⟩

theorem hgtInv_init (p : Params) (bal : List (Nat × Int)) (h t : Nat) (hh : h ≠ 0) :
    HgtInv { bal := bal, params := p, height := h, time := t } :=
  ⟨hh, fun b hb => (by cases hb), fun b hb => (by cases hb)⟩

theorem run_hgtInv (s : State) (ops : List Op) (hI : BetIdx s) (hH : HgtInv s) (hp : ∀ op ∈ ops, op.posHeight) :
    HgtInv (run s ops) := by
  induction ops generalizing s with
  | nil => exact hH
  | cons op rest ih =>
    exact ih _ (step_betIdx s op hI) (step_hgtInv s op hI hH (hp op (List.mem_cons_self ..)))
      (fun o ho => hp o (List.mem_cons_of_mem _ ho))

end Sge.Core

namespace Sge.Genesis
open Sge Sge.Core

theorem hasDup_false_of_pairwise {α : Type} (f : α → Nat) (l : List α) (h : l.Pairwise (fun a b => f a ≠ f b)) :
    hasDup (l.map f) = false := by
  induction l with
  | nil => rfl
  | cons x xs ih =>
    rw [List.pairwise_cons] at h
    simp only [List.map_cons, hasDup, Bool.or_eq_false_iff]
    refine ⟨?_, ih h.2⟩
    cases hc : (xs.map f).contains (f x)
    · rfl
    · rw [List.contains_iff_mem] at hc
      obtain ⟨y, hy, hfy⟩ := List.mem_map.mp hc
      exact absurd hfy.symm (h.1 y hy)

/-- the converse of `betInv_unpack` -/
theorem betInv_pack (σ : State)
    (h1 : Sorted Bet.key σ.bets) (h2 : hasDup (σ.bets.map (·.uid)) = false) (h3 : ∀ b ∈ σ.bets, b.id ≠ 0)
    (h4 : σ.betCount = σ.bets.length) (h5 : ∀ b ∈ σ.bets, ¬ (b.settleHeight = 0 ∧ b.status = BS_SETTLED))
    (h6 : σ.pending = setAll pendKey ((σ.bets.filter (fun b => b.settleHeight == 0)).map pendEntry) [])
    (h7 : σ.settled = setAll pendKey ((σ.bets.filter (fun b => b.settleHeight != 0)).map settEntry) [])
    (h8 : ∀ b ∈ σ.bets, σ.pending.filter (fun x => x.2.2.1 == b.uid) = (if b.settleHeight == 0 then [pendEntry b] else []))
    (h9 : ∀ b ∈ σ.bets, σ.settled.filter (fun x => x.2.2.1 == b.uid) = (if b.settleHeight != 0 then [settEntry b] else []))
    (h10 : σ.pending.length + σ.settled.length = σ.bets.length) : betInv σ = true := by
  unfold betInv
  simp only [Bool.and_eq_true]
  refine ⟨⟨⟨⟨⟨⟨⟨⟨⟨(sortedB_iff _ _).mpr h1, by rw [h2]; rfl⟩, ?_⟩, by rw [h4]; exact beq_self_eq_true _⟩, ?_⟩,
    by rw [← h6]; exact beq_self_eq_true _⟩, by rw [← h7]; exact beq_self_eq_true _⟩, ?_⟩, ?_⟩, by rw [h10]; exact beq_self_eq_true _⟩
  · rw [List.all_eq_true]
    intro b hb
    simpa using h3 b hb
  · rw [List.all_eq_true]
    intro b hb
    have := h5 b hb
    cases h0 : b.settleHeight == 0
    · rfl
    · cases h1 : b.status == BS_SETTLED
      · rfl
      · exact absurd ⟨by simpa using h0, by simpa using h1⟩ this
  · rw [List.all_eq_true]
    intro b hb
    rw [h8 b hb]
    exact beq_self_eq_true _
  · rw [List.all_eq_true]
    intro b hb
    rw [h9 b hb]
    exact beq_self_eq_true _

/-- in a state whose bet indexes are consistent (`BetIdx`) and whose settlement heights mark exactly the settled bets
    (`HgtInv`), the decidable invariant of the bet genesis holds -/
theorem betInv_of {s : State} (hI : BetIdx s) (hH : HgtInv s) : betInv s = true := by
  have hs0 : ∀ b ∈ s.bets, (b.settleHeight == 0) = true → b.status ≠ BS_SETTLED := by
    intro b hb h0 hst
    exact hH.settled b hb hst (by simpa using h0)
  have hs1 : ∀ b ∈ s.bets, (b.settleHeight != 0) = true → b.status = BS_SETTLED := by
    intro b hb h0
    apply Classical.byContradiction
    intro hst
    have := hH.unsettled b hb hst
    simp [this] at h0
  have hkeys : ∀ (f : Bet → Nat × Nat × Nat × Nat), (∀ b, (f b).2.1 = b.id) → ∀ (p : Bet → Bool),
      ((s.bets.filter p).map f).Pairwise (fun a b => (pendKey a == pendKey b) = false) := by
    intro f hf p
    rw [List.pairwise_map]
    refine List.Pairwise.imp ?_ (hI.ids_pairwise.filter p)
    intro a b hab
    unfold pendKey
    rw [hf, hf]
    exact key2_ne hab
  apply betInv_pack s hI.sBets (hasDup_false_of_pairwise _ _ hI.uids_pairwise)
  · intro b hb h0
    have := (hI.idLo b hb).1
    omega
  · exact hI.count.symm
  · intro b hb hc
    exact hH.settled b hb hc.2 hc.1
  · symm
    apply setAll_perm pendKey _ s.pending hI.sPend (hkeys pendEntry (fun _ => rfl) _)
    intro z
    constructor
    · intro hz
      obtain ⟨b, hb, rfl⟩ := List.mem_map.mp hz
      rw [List.mem_filter] at hb
      exact hI.pendOf b hb.1 (hs0 b hb.1 hb.2)
    · intro hz
      obtain ⟨b, hb, hst, rfl⟩ := hI.ofPend z hz
      refine List.mem_map.mpr ⟨b, List.mem_filter.mpr ⟨hb, ?_⟩, rfl⟩
      simp [hH.unsettled b hb hst]
  · symm
    apply setAll_perm pendKey _ s.settled hI.sSett (hkeys settEntry (fun _ => rfl) _)
    intro z
    constructor
    · intro hz
      obtain ⟨b, hb, rfl⟩ := List.mem_map.mp hz
      rw [List.mem_filter] at hb
      exact hI.settOf b hb.1 (hs1 b hb.1 hb.2)
    · intro hz
      obtain ⟨b, hb, hst, rfl⟩ := hI.ofSett z hz
      refine List.mem_map.mpr ⟨b, List.mem_filter.mpr ⟨hb, ?_⟩, rfl⟩
      simpa using hH.settled b hb hst
  · intro b hb
    by_cases hst : b.status = BS_SETTLED
    · have h0 : (b.settleHeight == 0) = false := by simpa using hH.settled b hb hst
      rw [h0]
      simp only [Bool.false_eq_true, ↓reduceIte]
      rw [List.filter_eq_nil_iff]
      intro y hy hp
      obtain ⟨b', hb', hns, rfl⟩ := hI.ofPend y hy
      have e : b'.uid = b.uid := by simpa using hp
      rw [hI.uidInj b' hb' b hb e] at hns
      exact hns hst
    · have h0 : (b.settleHeight == 0) = true := by simp [hH.unsettled b hb hst]
      rw [h0]
      simp only [↓reduceIte]
      apply filter_unique ikey _ _ _ hI.sPend (hI.pendOf b hb hst)
      · simp
      · intro y hy hp
        obtain ⟨b', hb', _, rfl⟩ := hI.ofPend y hy
        have e : b'.uid = b.uid := by simpa using hp
        rw [hI.uidInj b' hb' b hb e]
  · intro b hb
    by_cases hst : b.status = BS_SETTLED
    · have h0 : (b.settleHeight != 0) = true := by simpa using hH.settled b hb hst
      rw [h0]
      simp only [↓reduceIte]
      apply filter_unique ikey _ _ _ hI.sSett (hI.settOf b hb hst)
      · simp
      · intro y hy hp
        obtain ⟨b', hb', _, rfl⟩ := hI.ofSett y hy
        have e : b'.uid = b.uid := by simpa using hp
        rw [hI.uidInj b' hb' b hb e]
    · have h0 : (b.settleHeight != 0) = false := by simp [hH.unsettled b hb hst]
      rw [h0]
      simp only [Bool.false_eq_true, ↓reduceIte]
      rw [List.filter_eq_nil_iff]
      intro y hy hp
      obtain ⟨b', hb', hs', rfl⟩ := hI.ofSett y hy
      have e : b'.uid = b.uid := by simpa using hp
      rw [hI.uidInj b' hb' b hb e] at hs'
      exact hst hs'
  · exact hI.lens

end Sge.Genesis
