/- x/subaccount genesis: function stores rebuilt from the exported account list; locked balances as finite maps -/
import SgeProofs.Lemmas.Genesis
namespace Sge.Genesis
open Sge Sge.Subaccount

-- ---------------------------------------------------------------------------------------------
-- locked balances of one subaccount: a finite map unlock time → amount

/-- the amount stored under an unlock time -/
def lockAt (ls : List Lock) (ts : Nat) : Option Int := (ls.find? (fun x => x.1 == ts)).map (·.2)

/-- no two entries with the same unlock time (the store key) -/
def DistinctTs (ls : List Lock) : Prop := ls.Pairwise (fun a b => a.1 ≠ b.1)

theorem lockAt_of_mem (ls : List Lock) (hd : DistinctTs ls) (x : Lock) (hx : x ∈ ls) : lockAt ls x.1 = some x.2 := by
  induction ls with
  | nil => cases hx
  | cons y ys ih =>
    unfold DistinctTs at hd
    rw [List.pairwise_cons] at hd
    unfold lockAt
    rcases List.mem_cons.mp hx with e | hin
    · subst e; simp
    · have : (y.1 == x.1) = false := by simpa using hd.1 x hin
      simp only [List.find?_cons, this]
      exact ih hd.2 hin

theorem lockAt_none (ls : List Lock) (ts : Nat) (h : ∀ x ∈ ls, x.1 ≠ ts) : lockAt ls ts = none := by
  unfold lockAt
  have : ls.find? (fun x => x.1 == ts) = none := by
    rw [List.find?_eq_none]
    intro x hx
    simpa using h x hx
  rw [this]; rfl

/-- two lists with distinct keys and the same entries are the same finite map -/
theorem lockAt_ext (l1 l2 : List Lock) (h1 : DistinctTs l1) (h2 : DistinctTs l2) (hm : ∀ x, x ∈ l1 ↔ x ∈ l2) (ts : Nat) :
    lockAt l1 ts = lockAt l2 ts := by
  by_cases hex : ∃ x ∈ l1, x.1 = ts
  · obtain ⟨x, hx, rfl⟩ := hex
    rw [lockAt_of_mem l1 h1 x hx, lockAt_of_mem l2 h2 x ((hm x).mp hx)]
  · have n1 : ∀ x ∈ l1, x.1 ≠ ts := fun x hx e => hex ⟨x, hx, e⟩
    have n2 : ∀ x ∈ l2, x.1 ≠ ts := fun x hx e => hex ⟨x, (hm x).mpr hx, e⟩
    rw [lockAt_none l1 ts n1, lockAt_none l2 ts n2]

theorem mem_insertLock (l x : Lock) (ls : List Lock) : x ∈ insertLock l ls ↔ x = l ∨ x ∈ ls := by
  induction ls with
  | nil => simp [insertLock]
  | cons y ys ih =>
    unfold insertLock
    split
    · simp
    · simp only [List.mem_cons, ih]
      constructor
      · rintro (h | h | h)
        · exact Or.inr (Or.inl h)
        · exact Or.inl h
        · exact Or.inr (Or.inr h)
      · rintro (h | h | h)
        · exact Or.inr (Or.inl h)
        · exact Or.inl h
        · exact Or.inr (Or.inr h)

theorem distinct_insertLock (l : Lock) (ls : List Lock) (hd : DistinctTs ls) (hn : ∀ y ∈ ls, l.1 ≠ y.1) :
    DistinctTs (insertLock l ls) := by
  induction ls with
  | nil => simp [insertLock, DistinctTs]
  | cons y ys ih =>
    unfold DistinctTs at hd
    rw [List.pairwise_cons] at hd
    unfold insertLock
    split
    · unfold DistinctTs
      rw [List.pairwise_cons]
      exact ⟨hn, List.pairwise_cons.mpr hd⟩
    · unfold DistinctTs
      rw [List.pairwise_cons]
      refine ⟨?_, ih hd.2 (fun z hz => hn z (List.mem_cons_of_mem _ hz))⟩
      intro z hz
      rcases (mem_insertLock l z ys).mp hz with e | hz'
      · subst e; exact fun e => hn y (List.mem_cons_self ..) e.symm
      · exact hd.1 z hz'

theorem sortLocks_spec (ls : List Lock) (hd : DistinctTs ls) :
    DistinctTs (sortLocks ls) ∧ ∀ x, x ∈ sortLocks ls ↔ x ∈ ls := by
  induction ls with
  | nil => simp [sortLocks, DistinctTs]
  | cons y ys ih =>
    unfold DistinctTs at hd
    rw [List.pairwise_cons] at hd
    obtain ⟨d, m⟩ := ih hd.2
    have : sortLocks (y :: ys) = insertLock y (sortLocks ys) := rfl
    rw [this]
    refine ⟨distinct_insertLock y _ d (fun z hz => hd.1 z ((m z).mp hz)), ?_⟩
    intro x
    rw [mem_insertLock, m x]
    simp

theorem mem_setLock (ls : List Lock) (l x : Lock) : x ∈ setLock ls l ↔ x = l ∨ (x ∈ ls ∧ x.1 ≠ l.1) := by
  simp [setLock]

theorem setLocks_spec (new acc : List Lock) (hd : DistinctTs (acc ++ new)) :
    DistinctTs (setLocks acc new) ∧ ∀ x, x ∈ setLocks acc new ↔ x ∈ acc ∨ x ∈ new := by
  induction new generalizing acc with
  | nil =>
    simp only [setLocks, List.foldl_nil, List.not_mem_nil, or_false, implies_true, and_true]
    simpa using hd
  | cons l ls ih =>
    unfold setLocks
    simp only [List.foldl_cons]
    unfold DistinctTs at hd
    rw [List.pairwise_append] at hd
    obtain ⟨hacc, hnew, hcross⟩ := hd
    rw [List.pairwise_cons] at hnew
    have hnone : ∀ y ∈ acc, y.1 ≠ l.1 := fun y hy => hcross y hy l (List.mem_cons_self ..)
    have hfilter : acc.filter (fun x => x.1 ≠ l.1) = acc := by
      rw [List.filter_eq_self]
      intro y hy
      simpa using hnone y hy
    have hset : setLock acc l = l :: acc := by
      unfold setLock
      rw [hfilter]
    rw [hset]
    have hd' : DistinctTs ((l :: acc) ++ ls) := by
      unfold DistinctTs
      rw [List.pairwise_append]
      refine ⟨List.pairwise_cons.mpr ⟨fun y hy => (hnone y hy).symm, hacc⟩, hnew.2, ?_⟩
      intro a ha b hb
      rcases List.mem_cons.mp ha with e | ha'
      · subst e; exact hnew.1 b hb
      · exact hcross a ha' b (List.mem_cons_of_mem _ hb)
    obtain ⟨d, m⟩ := ih (l :: acc) hd'
    unfold setLocks at d m
    refine ⟨d, ?_⟩
    intro x
    rw [m x]
    simp only [List.mem_cons]
    constructor
    · rintro ((h | h) | h)
      · exact Or.inr (Or.inl h)
      · exact Or.inl h
      · exact Or.inr (Or.inr h)
    · rintro (h | h | h)
      · exact Or.inl (Or.inr h)
      · exact Or.inl (Or.inl h)
      · exact Or.inr h

/-- the locked balances of a subaccount survive export (store order) + import (`SetLockedBalances`) as a finite map -/
theorem lockAt_roundtrip (ls : List Lock) (hd : DistinctTs ls) (ts : Nat) :
    lockAt (setLocks [] (sortLocks ls)) ts = lockAt ls ts := by
  obtain ⟨d1, m1⟩ := sortLocks_spec ls hd
  obtain ⟨d2, m2⟩ := setLocks_spec (sortLocks ls) [] (by simpa using d1)
  apply lockAt_ext _ _ d2 hd
  intro x
  rw [m2 x, m1 x]
  simp

-- ---------------------------------------------------------------------------------------------
-- the exported account list

theorem exportSubAccs_spec (s : State) (addrs : List Nat) (accs : List SubGenAcc) (h : exportSubAccs s addrs = some accs) :
    (∀ x ∈ accs, x.addr ∈ addrs ∧ s.subMap x.addr = some x.owner ∧
      ∃ sub, s.subs x.addr = some sub ∧ x.sum = sub.sum ∧ x.locks = sortLocks sub.locks) ∧
    (∀ a ∈ addrs, ∀ o, s.subMap a = some o → ∃ x ∈ accs, x.addr = a) ∧
    (addrs.Pairwise (· ≠ ·) → accs.Pairwise (fun x y => x.addr ≠ y.addr)) := by
  induction addrs generalizing accs with
  | nil =>
    simp only [exportSubAccs, Option.some.injEq] at h
    subst h
    simp
  | cons a rest ih =>
    unfold exportSubAccs at h
    cases hm : s.subMap a with
    | none =>
      have e1 : exportSubAcc s a = some none := by simp [exportSubAcc, hm]
      rw [e1] at h
      cases hr : exportSubAccs s rest with
      | none => rw [hr] at h; simp at h
      | some xs =>
        rw [hr] at h
        simp only [Option.some.injEq] at h
        subst h
        obtain ⟨i1, i2, i3⟩ := ih xs hr
        refine ⟨fun x hx => ?_, fun b hb o ho => ?_, fun hp => i3 (List.pairwise_cons.mp hp).2⟩
        · obtain ⟨p1, p2⟩ := i1 x hx
          exact ⟨List.mem_cons_of_mem _ p1, p2⟩
        · rcases List.mem_cons.mp hb with e | hb'
          · subst e; rw [hm] at ho; cases ho
          · exact i2 b hb' o ho
    | some o =>
      cases hs : s.subs a with
      | none =>
        have e1 : exportSubAcc s a = none := by simp [exportSubAcc, hm, hs]
        rw [e1] at h
        cases hr : exportSubAccs s rest <;> rw [hr] at h <;> simp at h
      | some sub =>
        have e1 : exportSubAcc s a = some (some { addr := a, owner := o, sum := sub.sum, locks := sortLocks sub.locks }) := by
          simp [exportSubAcc, hm, hs]
        rw [e1] at h
        cases hr : exportSubAccs s rest with
        | none => rw [hr] at h; simp at h
        | some xs =>
          rw [hr] at h
          simp only [Option.some.injEq] at h
          subst h
          obtain ⟨i1, i2, i3⟩ := ih xs hr
          refine ⟨fun x hx => ?_, fun b hb o' ho' => ?_, fun hp => ?_⟩
          · rcases List.mem_cons.mp hx with e | hx'
            · subst e
              exact ⟨List.mem_cons_self .., hm, sub, hs, rfl, rfl⟩
            · obtain ⟨p1, p2⟩ := i1 x hx'
              exact ⟨List.mem_cons_of_mem _ p1, p2⟩
          · rcases List.mem_cons.mp hb with e | hb'
            · subst e; exact ⟨_, List.mem_cons_self .., rfl⟩
            · obtain ⟨x, hx, hxa⟩ := i2 b hb' o' ho'
              exact ⟨x, List.mem_cons_of_mem _ hx, hxa⟩
          · rw [List.pairwise_cons] at hp ⊢
            refine ⟨fun y hy => ?_, i3 hp.2⟩
            exact hp.1 y.addr (i1 y hy).1

theorem exportSubAccs_some (s : State) (addrs : List Nat) (h : ∀ a ∈ addrs, s.subMap a ≠ none → s.subs a ≠ none) :
    ∃ accs, exportSubAccs s addrs = some accs := by
  induction addrs with
  | nil => exact ⟨[], rfl⟩
  | cons a rest ih =>
    obtain ⟨xs, hxs⟩ := ih (fun b hb => h b (List.mem_cons_of_mem _ hb))
    unfold exportSubAccs
    rw [hxs]
    cases hm : s.subMap a with
    | none => exact ⟨xs, by simp [exportSubAcc, hm]⟩
    | some o =>
      cases hs : s.subs a with
      | none => exact absurd hs (h a (List.mem_cons_self ..) (by simp [hm]))
      | some sub =>
        exact ⟨{ addr := a, owner := o, sum := sub.sum, locks := sortLocks sub.locks } :: xs, by simp [exportSubAcc, hm, hs]⟩

-- ---------------------------------------------------------------------------------------------
-- the import loop on function stores

theorem foldl_importSubAcc_addr (accs : List SubGenAcc) (hd : accs.Pairwise (fun x y => x.addr ≠ y.addr)) (s0 : State) (a : Nat) :
    let r := accs.foldl importSubAcc s0
    (∀ x ∈ accs, x.addr = a → r.subMap a = some x.owner ∧
        r.subs a = some { sum := x.sum, locks := setLocks [] x.locks }) ∧
    ((∀ x ∈ accs, x.addr ≠ a) → r.subMap a = s0.subMap a ∧ r.subs a = s0.subs a) ∧
    r.nextId = s0.nextId ∧ r.wagerEnabled = s0.wagerEnabled ∧ r.depositEnabled = s0.depositEnabled := by
  induction accs generalizing s0 with
  | nil => simp
  | cons y ys ih =>
    rw [List.pairwise_cons] at hd
    simp only [List.foldl_cons]
    obtain ⟨i1, i2, i3, i4, i5⟩ := ih hd.2 (importSubAcc s0 y)
    refine ⟨?_, ?_, by rw [i3]; rfl, by rw [i4]; rfl, by rw [i5]; rfl⟩
    · intro x hx hxa
      rcases List.mem_cons.mp hx with e | hx'
      · subst e
        have hno : ∀ z ∈ ys, z.addr ≠ a := fun z hz => by rw [← hxa]; exact fun e => hd.1 z hz e.symm
        obtain ⟨j1, j2⟩ := i2 hno
        rw [j1, j2]
        simp [importSubAcc, upd, hxa]
      · exact i1 x hx' hxa
    · intro hno
      have hy : y.addr ≠ a := hno y (List.mem_cons_self ..)
      obtain ⟨j1, j2⟩ := i2 (fun z hz => hno z (List.mem_cons_of_mem _ hz))
      rw [j1, j2]
      have : ¬ a = y.addr := fun e => hy e.symm
      simp [importSubAcc, upd, this]

theorem foldl_importSubAcc_owner (accs : List SubGenAcc) (hd : accs.Pairwise (fun x y => x.owner ≠ y.owner)) (s0 : State) (o : Nat) :
    let r := accs.foldl importSubAcc s0
    (∀ x ∈ accs, x.owner = o → r.ownerMap o = some x.addr) ∧
    ((∀ x ∈ accs, x.owner ≠ o) → r.ownerMap o = s0.ownerMap o) := by
  induction accs generalizing s0 with
  | nil => simp
  | cons y ys ih =>
    rw [List.pairwise_cons] at hd
    simp only [List.foldl_cons]
    obtain ⟨i1, i2⟩ := ih hd.2 (importSubAcc s0 y)
    refine ⟨?_, ?_⟩
    · intro x hx hxo
      rcases List.mem_cons.mp hx with e | hx'
      · subst e
        have hno : ∀ z ∈ ys, z.owner ≠ o := fun z hz => by rw [← hxo]; exact fun e => hd.1 z hz e.symm
        rw [i2 hno]
        simp [importSubAcc, upd, hxo]
      · exact i1 x hx' hxo
    · intro hno
      have hy : y.owner ≠ o := hno y (List.mem_cons_self ..)
      rw [i2 (fun z hz => hno z (List.mem_cons_of_mem _ hz))]
      have : ¬ o = y.owner := fun e => hy e.symm
      simp [importSubAcc, upd, this]

end Sge.Genesis
