/-
  C15 (a): the wager path reads the ticket's per-outcome multiplier list only through look-ups
  (Go: `payload.OddsMap()` turns the slice into `map[string]*BetOddsCompact`; a repeated id keeps the LAST entry).
-/
import SgeProofs.Lemmas.PermList
namespace Sge.Core
open Sge

/-- the value the Go map holds for outcome `o`: the last entry of the ticket's list with that id -/
def lookupLast (l : List (Nat × Dec)) (o : Nat) : Option (Nat × Dec) := (l.filter (fun m => m.1 == o)).getLast?

/-- two lists denote the same Go map -/
def SameMap (l₁ l₂ : List (Nat × Dec)) : Prop := ∀ o, lookupLast l₁ o = lookupLast l₂ o

theorem lookupLast_isSome (l : List (Nat × Dec)) (o : Nat) : (lookupLast l o).isSome = l.any (fun x => x.1 == o) := by
  unfold lookupLast
  cases h : l.any (fun x => x.1 == o)
  · have : l.filter (fun m => m.1 == o) = [] := by
      rw [List.filter_eq_nil_iff]
      intro a ha hk
      rw [List.any_eq_false] at h
      exact h a ha hk
    rw [this]; rfl
  · rw [List.any_eq_true] at h
    obtain ⟨x, hx, hk⟩ := h
    have hne : l.filter (fun m => m.1 == o) ≠ [] := by
      intro hnil
      rw [List.filter_eq_nil_iff] at hnil
      exact hnil x hx hk
    cases hg : (l.filter (fun m => m.1 == o)).getLast? with
    | none => rw [List.getLast?_eq_none_iff] at hg; exact absurd hg hne
    | some _ => rfl

/-- lists that denote the same map have the same key set … -/
theorem SameMap.any_eq {l₁ l₂ : List (Nat × Dec)} (h : SameMap l₁ l₂) (o : Nat) :
    l₁.any (fun x => x.1 == o) = l₂.any (fun x => x.1 == o) := by
  rw [← lookupLast_isSome, ← lookupLast_isSome, h o]

theorem SameMap.mem_keys {l₁ l₂ : List (Nat × Dec)} (h : SameMap l₁ l₂) (o : Nat) :
    o ∈ l₁.map (·.1) ↔ o ∈ l₂.map (·.1) := by
  have := h.any_eq o
  have e : ∀ l : List (Nat × Dec), (o ∈ l.map (·.1)) ↔ l.any (fun x => x.1 == o) = true := by
    intro l
    simp only [List.mem_map, List.any_eq_true, beq_iff_eq]
  rw [e, e, this]

/-- … and hence the same number of distinct keys (Go: `len(betOdds)`) -/
theorem SameMap.card_eq {l₁ l₂ : List (Nat × Dec)} (h : SameMap l₁ l₂) :
    (l₁.map (·.1)).eraseDups.length = (l₂.map (·.1)).eraseDups.length :=
  eraseDups_length_congr (fun o => h.mem_keys o)

/-- a permutation of a list without repeated outcome ids denotes the same map -/
theorem sameMap_of_perm_nodup {l₁ l₂ : List (Nat × Dec)} (hp : l₁.Perm l₂) (hn : (l₁.map (·.1)).Nodup) : SameMap l₁ l₂ := by
  intro o
  unfold lookupLast
  have hf := hp.filter (fun m => m.1 == o)
  have hle : (l₁.filter (fun m => m.1 == o)).length ≤ 1 := by
    apply length_le_one_of_nodup_const (·.1) o
    · exact List.Nodup.sublist (List.Sublist.map _ List.filter_sublist) hn
    · intro x hx
      have := (List.mem_filter.1 hx).2
      simpa using this
  rw [perm_eq_of_length_le_one hf hle]

-- ---------------------------------------------------------------------------------------------
-- the wager loop depends on the list through `lookupLast` only

theorem secondaryOne_sameMap {l₁ l₂ : List (Nat × Dec)} (h : SameMap l₁ l₂) (oc : Nat) (thr : Int) (ae : List PExp) :
    secondaryOne oc thr ae l₁ = secondaryOne oc thr ae l₂ := by
  funext acc o
  have ho := h o
  unfold lookupLast at ho
  unfold secondaryOne
  rw [ho]

theorem stage2_sameMap {l₁ l₂ : List (Nat × Dec)} (h : SameMap l₁ l₂) (oc : Nat) (mo : List Nat) (thr : Int)
    (x : Part × PExp × Bool × FInfo) : stage2 oc mo l₁ thr x = stage2 oc mo l₂ thr x := by
  unfold stage2
  simp only [secondaryOne_sameMap h]

theorem visit_sameMap {l₁ l₂ : List (Nat × Dec)} (h : SameMap l₁ l₂) (oc : Nat) (ov m : Dec) (mo : List Nat) (thr : Int)
    (f : FInfo) (i : Nat) : visit oc ov m mo l₁ thr f i = visit oc ov m mo l₂ thr f i := by
  unfold visit
  cases f.item i with
  | none => rfl
  | some pe => simp only [stage2_sameMap h]

theorem loop_sameMap {l₁ l₂ : List (Nat × Dec)} (h : SameMap l₁ l₂) (oc : Nat) (ov m : Dec) (mo : List Nat) (thr : Int) :
    ∀ (q : List Nat) (f : FInfo), loop oc ov m mo l₁ thr q f = loop oc ov m mo l₂ thr q f
  | [], _ => rfl
  | i :: rest, f => by
    unfold loop
    simp only [visit_sameMap h]
    split
    · rfl
    · split
      · rfl
      · exact loop_sameMap h oc ov m mo thr rest _

theorem processWager_sameMap {l₁ l₂ : List (Nat × Dec)} (h : SameMap l₁ l₂) (b : Book) (oc betId : Nat) (ov m : Dec)
    (mo : List Nat) (thr : Int) (amt : Int) (pp : Dec) :
    processWager b oc betId ov m mo l₁ thr amt pp = processWager b oc betId ov m mo l₂ thr amt pp := by
  unfold processWager
  simp only [loop_sameMap h]

/-- MsgWager: besides the look-ups, `WagerTicketPayload.Validate` ranges over the slice itself and checks every
    entry's multiplier (`hall`); everything else goes through the map -/
theorem wagerO_sameMap (s : State) (c : Nat) (tk : Tk) (u : Nat) (a : Int) (pl : WagerPayload) (l₂ : List (Nat × Dec))
    (h : SameMap pl.allOdds l₂)
    (hall : pl.allOdds.all (fun o => multOk o.2) = l₂.all (fun o => multOk o.2)) :
    wagerO s c tk u a { pl with allOdds := l₂ } = wagerO s c tk u a pl := by
  have hany : (fun o => l₂.any (fun x => x.1 == o)) = (fun o => pl.allOdds.any (fun x => x.1 == o)) :=
    funext fun o => (h.any_eq o).symm
  have hbet : ∀ ov fs, newBet s c u { pl with allOdds := l₂ } ov fs = newBet s c u pl ov fs := fun _ _ => rfl
  unfold wagerO
  simp only [← hall, ← h.card_eq, hany, ← processWager_sameMap h, hbet]

end Sge.Core
