/- C01 per market, the outflow over an end-block: list arithmetic for comparing the regroupings of two states -/
import SgeProofs.Lemmas.C01MarketEnd
namespace Sge.Core
open Sge Sge.Genesis

/-- two functions that agree off `m`: their sums over `0 … N-1` differ by their difference at `m` (if `m < N`) -/
theorem c1o_range_diff (f g : Nat → Int) (m : Nat) (h : ∀ x, x ≠ m → f x = g x) : ∀ N : Nat,
    sumBy f (List.range N) - sumBy g (List.range N) = if m < N then f m - g m else 0 := by
  intro N
  induction N with
  | zero => simp [sumBy]
  | succ N ih =>
    rw [List.range_succ, sumBy_append, sumBy_append, sumBy_cons, sumBy_cons, sumBy_nil, sumBy_nil]
    by_cases hN : N = m
    · subst hN
      have h1 : ¬ (N < N) := Nat.lt_irrefl N
      have h2 : N < N + 1 := Nat.lt_succ_self N
      rw [if_neg h1] at ih
      rw [if_pos h2]
      omega
    · have e := h N hN
      by_cases hlt : m < N
      · have h2 : m < N + 1 := by omega
        rw [if_pos hlt] at ih
        rw [if_pos h2]
        omega
      · have h2 : ¬ (m < N + 1) := by omega
        rw [if_neg hlt] at ih
        rw [if_neg h2]
        omega

/-- a function supported on a duplicate-free list bounded by `N`: its sum over the list is its sum over `0 … N-1` -/
theorem c1o_sum_range (N : Nat) : ∀ (L : List Nat) (f : Nat → Int), L.Nodup → (∀ x ∈ L, x < N) →
    (∀ x, x ∉ L → f x = 0) → sumBy f L = sumBy f (List.range N) := by
  intro L
  induction L with
  | nil =>
    intro f _ _ h0
    rw [sumBy_nil]
    exact (sumBy_zero f _ (fun x _ => h0 x (List.not_mem_nil))).symm
  | cons a t ih =>
    intro f hnd hb h0
    rw [List.nodup_cons] at hnd
    have hg0 : ∀ x, x ∉ t → (fun x => if x = a then 0 else f x) x = 0 := by
      intro x hx
      by_cases hxa : x = a
      · simp [hxa]
      · simp only [if_neg hxa]
        apply h0
        intro hmem
        rcases List.mem_cons.mp hmem with e | e
        · exact hxa e
        · exact hx e
    have i1 := ih (fun x => if x = a then 0 else f x) hnd.2 (fun x hx => hb x (List.mem_cons_of_mem _ hx)) hg0
    have i2 : sumBy f t = sumBy (fun x => if x = a then 0 else f x) t := by
      apply sumBy_congr
      intro x hx
      have : x ≠ a := fun e => hnd.1 (e ▸ hx)
      simp [this]
    have i3 := c1o_range_diff f (fun x => if x = a then 0 else f x) a (fun x hx => by simp [hx]) N
    have ha : a < N := hb a (List.mem_cons_self)
    rw [if_pos ha] at i3
    simp only [if_true] at i3
    rw [sumBy_cons]
    omega

/-- every list of naturals is bounded -/
theorem c1o_bounded : ∀ L : List Nat, ∃ N, ∀ x ∈ L, x < N := by
  intro L
  induction L with
  | nil => exact ⟨0, fun x hx => absurd hx (List.not_mem_nil)⟩
  | cons a t ih =>
    obtain ⟨N, hN⟩ := ih
    refine ⟨a + N + 1, ?_⟩
    intro x hx
    rcases List.mem_cons.mp hx with e | e
    · omega
    · have := hN x e; omega

/-- `f` regrouped over the duplicate-free list `L`, `g` over `L'`, each vanishing outside its list, and `f = g` off
    `m`: the two totals differ by `f m − g m` -/
theorem c1o_regroup_diff (L L' : List Nat) (f g : Nat → Int) (m : Nat) (hL : L.Nodup) (hL' : L'.Nodup)
    (hf : ∀ x, x ∉ L → f x = 0) (hg : ∀ x, x ∉ L' → g x = 0) (h : ∀ x, x ≠ m → f x = g x) :
    sumBy f L - sumBy g L' = f m - g m := by
  obtain ⟨N, hN⟩ := c1o_bounded (L ++ L')
  have e1 := c1o_sum_range N L f hL (fun x hx => hN x (List.mem_append_left _ hx)) hf
  have e2 := c1o_sum_range N L' g hL' (fun x hx => hN x (List.mem_append_right _ hx)) hg
  have e3 := c1o_range_diff f g m h N
  rw [e1, e2, e3]
  by_cases hlt : m < N
  · rw [if_pos hlt]
  · rw [if_neg hlt]
    have h1 : m ∉ L := fun hm => hlt (hN m (List.mem_append_left _ hm))
    have h2 : m ∉ L' := fun hm => hlt (hN m (List.mem_append_right _ hm))
    rw [hf m h1, hg m h2]; rfl

/-- two functions that agree off the duplicate-free list `Q`: their sums over `0 … N-1` differ by the sum over `Q` of
    their differences (members `≥ N` not counted) -/
theorem c1o_range_diff_list (g : Nat → Int) (N : Nat) : ∀ (Q : List Nat) (f : Nat → Int), Q.Nodup →
    (∀ x, x ∉ Q → f x = g x) →
    sumBy f (List.range N) - sumBy g (List.range N) = sumBy (fun x => if x < N then f x - g x else 0) Q := by
  intro Q
  induction Q with
  | nil =>
    intro f _ h
    rw [sumBy_nil, sumBy_congr f g _ (fun x _ => h x (List.not_mem_nil))]
    omega
  | cons a t ih =>
    intro f hnd h
    rw [List.nodup_cons] at hnd
    have hf' : ∀ x, x ∉ t → (fun x => if x = a then g a else f x) x = g x := by
      intro x hx
      by_cases hxa : x = a
      · simp [hxa]
      · simp only [if_neg hxa]
        apply h
        intro hmem
        rcases List.mem_cons.mp hmem with e | e
        · exact hxa e
        · exact hx e
    have i1 := ih (fun x => if x = a then g a else f x) hnd.2 hf'
    have i2 : sumBy (fun x => if x < N then (fun x => if x = a then g a else f x) x - g x else 0) t =
        sumBy (fun x => if x < N then f x - g x else 0) t := by
      apply sumBy_congr
      intro x hx
      have : x ≠ a := fun e => hnd.1 (e ▸ hx)
      simp [this]
    have i3 := c1o_range_diff f (fun x => if x = a then g a else f x) a (fun x hx => by simp [hx]) N
    simp only [if_true] at i3
    rw [i2] at i1
    rw [sumBy_cons]
    by_cases ha : a < N
    · rw [if_pos ha] at i3 ⊢
      omega
    · rw [if_neg ha] at i3 ⊢
      omega

/-- `f` regrouped over the duplicate-free list `L`, `g` over `L'`, each vanishing outside its list, and `f = g` off
    the duplicate-free list `Q`: the two totals differ by the sum over `Q` of `f − g` -/
theorem c1o_regroup_diff_list (L L' Q : List Nat) (f g : Nat → Int) (hL : L.Nodup) (hL' : L'.Nodup) (hQ : Q.Nodup)
    (hf : ∀ x, x ∉ L → f x = 0) (hg : ∀ x, x ∉ L' → g x = 0) (h : ∀ x, x ∉ Q → f x = g x) :
    sumBy f L - sumBy g L' = sumBy (fun x => f x - g x) Q := by
  obtain ⟨N, hN⟩ := c1o_bounded (L ++ L')
  have e1 := c1o_sum_range N L f hL (fun x hx => hN x (List.mem_append_left _ hx)) hf
  have e2 := c1o_sum_range N L' g hL' (fun x hx => hN x (List.mem_append_right _ hx)) hg
  have e3 := c1o_range_diff_list g N Q f hQ h
  rw [e1, e2, e3]
  apply sumBy_congr
  intro x _
  by_cases hlt : x < N
  · simp only [if_pos hlt]
  · simp only [if_neg hlt]
    have h1 : x ∉ L := fun hm => hlt (hN x (List.mem_append_left _ hm))
    have h2 : x ∉ L' := fun hm => hlt (hN x (List.mem_append_right _ hm))
    rw [hf x h1, hg x h2]; rfl

end Sge.Core
