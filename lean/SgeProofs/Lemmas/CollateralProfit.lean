/-
  C02, house loss bounded by deposit — the realised profit of a participation, as a whole-history invariant:
  on a declared market it is Σ over the settled bets of the market of (− promised winnings of the backing parts that
  name the participation, if the bet's outcome won; + their stakes, if it lost); on any other market it is 0.
-/
import SgeProofs.Lemmas.CollateralSums
import SgeProofs.Lemmas.CustodySettleDefs
namespace Sge.Core
open Sge Sge.Genesis

/-- what settling bet `t` books on participation `i` of market `u` when the winning outcomes are `ws` -/
def apTerm (u : Nat) (ws : List Nat) (i : Nat) (t : Bet) : Int :=
  if t.market == u && t.status == BS_SETTLED then
    (if ws.contains t.odds then - sumBy (fpAt i) t.fulfs else sumBy (fbAt i) t.fulfs)
  else 0

structure ApInv (s : State) : Prop where
  /-- realised profit = what the settled bets booked (declared result), else nothing -/
  ap : ∀ b ∈ s.books, ∀ m, getMarket s b.uid = some m → ∀ i p, b.getPart i = some p →
    p.actualProfit = if m.status = MS_DECLARED then sumBy (apTerm b.uid m.winners i) s.bets else 0
  /-- a settled bet lives on a resolved market -/
  res : ∀ t ∈ s.bets, t.status = BS_SETTLED → ∃ m, getMarket s t.market = some m ∧ isOpenStatus m.status = false
  /-- a declared result names exactly one winning outcome -/
  win : ∀ m ∈ s.markets, m.status = MS_DECLARED → m.winners.length = 1

theorem ApInv.of_eq {s s' : State} (h : ApInv s) (hk : s'.books = s.books) (ht : s'.bets = s.bets) (hm : s'.markets = s.markets) :
    ApInv s' := by
  have hg : ∀ u, getMarket s' u = getMarket s u := getMarket_congr hm
  refine ⟨?_, ?_, ?_⟩
  · intro b hb m hmk i p hp
    rw [hk] at hb; rw [hg] at hmk; rw [ht]
    exact h.ap b hb m hmk i p hp
  · intro t htm hst
    rw [ht] at htm
    obtain ⟨m, h1, h2⟩ := h.res t htm hst
    exact ⟨m, by rw [hg]; exact h1, h2⟩
  · rw [hm]; exact h.win

/-- replacing a stored book by one whose participations kept their realised profit (new participations start at
    zero on a market that is not declared) -/
theorem ApInv.setBook_same {s : State} (h : ApInv s) (b b' : Book) (hb : getBook s b'.uid = some b)
    (hrel : ∀ i p', b'.getPart i = some p' → (∃ p, b.getPart i = some p ∧ p'.actualProfit = p.actualProfit) ∨
      (p'.actualProfit = 0 ∧ ∀ m, getMarket s b.uid = some m → m.status ≠ MS_DECLARED)) : ApInv (setBook s b') := by
  obtain ⟨hbm, hbu⟩ := getBook_mem hb
  refine ⟨?_, h.res, h.win⟩
  intro x hx m hmk i p' hp'
  rcases col_mem_upsert Book.key b' x s.books hx with rfl | hx
  · have hmk' : getMarket s b.uid = some m := by rw [hbu]; exact hmk
    rcases hrel i p' hp' with ⟨p, hp, e⟩ | ⟨e, hnd⟩
    · rw [e, ← hbu]; exact h.ap b hbm m hmk' i p hp
    · rw [e, if_neg (hnd m hmk')]
  · exact h.ap x hx m hmk i p' hp'

theorem apTerm_unsettled (u : Nat) (ws : List Nat) (i : Nat) (t : Bet) (h : t.status ≠ BS_SETTLED) : apTerm u ws i t = 0 := by
  unfold apTerm
  have : (t.status == BS_SETTLED) = false := by simpa using h
  simp [this]

/-- a successful wager: the market is active, so nothing is realised; the new bet is not settled -/
theorem ApInv.wager {s s' : State} (h : ApInv s) (hI : ObInv s) (b b' : Book) (bet : Bet) (m : Market)
    (hb : getBook s b.uid = some b) (hu : b'.uid = b.uid) (hm : getMarket s b.uid = some m) (hact : m.status = MS_ACTIVE)
    (hrel : ∀ i p', b'.getPart i = some p' → ∃ p, b.getPart i = some p ∧ p'.actualProfit = p.actualProfit)
    (hst : bet.status = BS_PLACED) (hfresh : lookup Bet.key (Bet.key bet) s.bets = none)
    (hk : s'.books = upsert Book.key b' s.books) (ht : s'.bets = upsert Bet.key bet s.bets) (hmk : s'.markets = s.markets) :
    ApInv s' := by
  obtain ⟨hbm, _⟩ := getBook_mem hb
  have hg : ∀ u, getMarket s' u = getMarket s u := getMarket_congr hmk
  have hns : bet.status ≠ BS_SETTLED := by rw [hst]; decide
  have hsum : ∀ u ws i, sumBy (apTerm u ws i) s'.bets = sumBy (apTerm u ws i) s.bets := by
    intro u ws i
    rw [ht, sumBy_upsert Bet.key _ bet s.bets hI.sT, hfresh, apTerm_unsettled u ws i bet hns]
    simp
  refine ⟨?_, ?_, by rw [hmk]; exact h.win⟩
  · intro x hx mx hmx i p' hp'
    rw [hk] at hx
    rw [hg] at hmx
    rw [hsum]
    rcases col_mem_upsert Book.key b' x s.books hx with rfl | hx
    · rw [hu, hm] at hmx
      cases hmx
      obtain ⟨p, hp, e⟩ := hrel i p' hp'
      have := h.ap b hbm m hm i p hp
      have hnd : ¬ (m.status = MS_DECLARED) := by rw [hact]; decide
      rw [if_neg hnd] at this ⊢
      rw [e, this]
    · exact h.ap x hx mx hmx i p' hp'
  · intro t htm hs
    rw [ht] at htm
    rcases col_mem_upsert Bet.key bet t s.bets htm with rfl | htm
    · exact absurd hs hns
    · obtain ⟨m', h1, h2⟩ := h.res t htm hs
      exact ⟨m', by rw [hg]; exact h1, h2⟩

/-- how the sum changes when an unsettled bet is rewritten as settled -/
theorem ap_sum_settle {l : List Bet} (hsT : Sorted Bet.key l) (bet bet' : Bet) (hl : lookup Bet.key (Bet.key bet') l = some bet)
    (hm : bet'.market = bet.market) (ho : bet'.odds = bet.odds) (hf : bet'.fulfs = bet.fulfs)
    (hns : bet.status ≠ BS_SETTLED) (hs' : bet'.status = BS_SETTLED) (u : Nat) (ws : List Nat) (i : Nat) :
    sumBy (apTerm u ws i) (upsert Bet.key bet' l) = sumBy (apTerm u ws i) l +
      (if bet.market = u then (if ws.contains bet.odds then - sumBy (fpAt i) bet.fulfs else sumBy (fbAt i) bet.fulfs) else 0) := by
  rw [sumBy_upsert Bet.key _ bet' l hsT, hl]
  simp only
  rw [apTerm_unsettled u ws i bet hns]
  unfold apTerm
  rw [hm, ho, hf, hs']
  by_cases hc : bet.market = u <;> simp [hc]

theorem bettorLoses_ap : ∀ (fulfs : List Fulf) (b b' : Book), bettorLoses b fulfs = some b' →
    ∀ i p', b'.getPart i = some p' → ∃ p, b.getPart i = some p ∧ p'.actualProfit = p.actualProfit + sumBy (fbAt i) fulfs := by
  intro fulfs
  induction fulfs with
  | nil =>
    intro b b' h i p' hp'
    simp [bettorLoses] at h
    rw [← h] at hp'
    exact ⟨p', hp', by simp [sumBy]⟩
  | cons f rest ih =>
    intro b b' h i p' hp'
    unfold bettorLoses at h
    simp only [bind, Option.bind_eq_some_iff] at h
    obtain ⟨p, hp, h⟩ := h
    have hpi := Book.getPart_idx hp
    obtain ⟨p1, hp1, e1⟩ := ih _ _ h i p' hp'
    rw [sumBy_cons]
    by_cases hi : f.idx = i
    · have hii : i = p.idx := by rw [hpi, hi]
      subst hii
      have : (b.setPart { p with actualProfit := p.actualProfit + f.bet }).getPart ({ p with actualProfit := p.actualProfit + f.bet } : Part).idx
          = some p1 := hp1
      rw [Book.getPart_setPart_self] at this
      cases this
      refine ⟨p, by rw [hpi]; exact hp, ?_⟩
      rw [e1]
      unfold fbAt
      simp [hi]
      omega
    · rw [Book.getPart_setPart_ne _ _ _ (show ({ p with actualProfit := p.actualProfit + f.bet } : Part).idx ≠ i by
        show p.idx ≠ i; rw [hpi]; exact hi)] at hp1
      refine ⟨p1, hp1, ?_⟩
      rw [e1]
      unfold fbAt
      simp [hi]

theorem bettorWins_ap : ∀ (fulfs : List Fulf) (bal : List (Nat × Int)) (bettor : Nat) (b : Book) (r : List (Nat × Int) × Book),
    bettorWins bal bettor b fulfs = some r →
    ∀ i p', r.2.getPart i = some p' → ∃ p, b.getPart i = some p ∧ p'.actualProfit = p.actualProfit - sumBy (fpAt i) fulfs := by
  intro fulfs
  induction fulfs with
  | nil =>
    intro bal bettor b r h i p' hp'
    simp [bettorWins] at h
    rw [← h] at hp'
    exact ⟨p', hp', by simp [sumBy]⟩
  | cons f rest ih =>
    intro bal bettor b r h i p' hp'
    unfold bettorWins at h
    simp only [bind, Option.bind_eq_some_iff] at h
    obtain ⟨p, hp, bal', _, h⟩ := h
    have hpi := Book.getPart_idx hp
    obtain ⟨p1, hp1, e1⟩ := ih _ _ _ _ h i p' hp'
    rw [sumBy_cons]
    by_cases hi : f.idx = i
    · have hii : i = p.idx := by rw [hpi, hi]
      subst hii
      have : (b.setPart { p with actualProfit := p.actualProfit - f.profit }).getPart ({ p with actualProfit := p.actualProfit - f.profit } : Part).idx
          = some p1 := hp1
      rw [Book.getPart_setPart_self] at this
      cases this
      refine ⟨p, by rw [hpi]; exact hp, ?_⟩
      rw [e1]
      unfold fpAt
      simp [hi]
      omega
    · rw [Book.getPart_setPart_ne _ _ _ (show ({ p with actualProfit := p.actualProfit - f.profit } : Part).idx ≠ i by
        show p.idx ≠ i; rw [hpi]; exact hi)] at hp1
      refine ⟨p1, hp1, ?_⟩
      rw [e1]
      unfold fpAt
      simp [hi]

theorem settleOutcome_ap {bal : List (Nat × Int)} {won : Bool} {bettor : Nat} {b : Book} {fulfs : List Fulf}
    {r : List (Nat × Int) × Book} (h : settleOutcome bal won bettor b fulfs = some r) :
    ∀ i p', r.2.getPart i = some p' → ∃ p, b.getPart i = some p ∧
      p'.actualProfit = p.actualProfit + (if won = true then - sumBy (fpAt i) fulfs else sumBy (fbAt i) fulfs) := by
  unfold settleOutcome at h
  split at h
  · rename_i hw
    intro i p' hp'
    obtain ⟨p, hp, e⟩ := bettorWins_ap _ _ _ _ _ h i p' hp'
    exact ⟨p, hp, by rw [e, if_pos hw]; omega⟩
  · rename_i hw
    simp only [Option.map_eq_some_iff] at h
    obtain ⟨b', hb', rfl⟩ := h
    intro i p' hp'
    obtain ⟨p, hp, e⟩ := bettorLoses_ap _ _ _ hb' i p' hp'
    exact ⟨p, hp, by rw [e, if_neg hw]⟩

-- ---------------------------------------------------------------------------------------------
-- settlement of one bet

/-- the state after `updateSettlementState`: `s2` is the state with the (possibly) updated book, `bet'` the settled
    record of the stored unsettled `bet`, whose market `m` is resolved -/
theorem ApInv.settle {s s2 : State} (hA : ApInv s) (hI : ObInv s) (bet bet' : Bet) (m : Market)
    (hl : lookup Bet.key (Bet.key bet') s.bets = some bet) (hm' : bet'.market = bet.market) (ho : bet'.odds = bet.odds)
    (hf : bet'.fulfs = bet.fulfs) (hns : bet.status ≠ BS_SETTLED) (hs' : bet'.status = BS_SETTLED)
    (hmk : getMarket s bet.market = some m) (hres : isOpenStatus m.status = false)
    (hk2 : s2.bets = s.bets) (hmk2 : s2.markets = s.markets)
    (hbooks : ∀ x ∈ s2.books, ∀ mx, getMarket s x.uid = some mx → ∀ i p', x.getPart i = some p' →
      p'.actualProfit = if mx.status = MS_DECLARED then sumBy (apTerm x.uid mx.winners i) s.bets +
        (if bet.market = x.uid then (if mx.winners.contains bet.odds then - sumBy (fpAt i) bet.fulfs else sumBy (fbAt i) bet.fulfs) else 0)
        else 0) : ApInv (markSettled s2 bet') := by
  have hg : ∀ u, getMarket (markSettled s2 bet') u = getMarket s u := fun u => getMarket_congr (s' := markSettled s2 bet') hmk2 u
  have hbets : (markSettled s2 bet').bets = upsert Bet.key { bet' with settleHeight := s2.height } s.bets := by
    show upsert Bet.key _ s2.bets = _
    rw [hk2]
  refine ⟨?_, ?_, ?_⟩
  · intro x hx mx hmx i p' hp'
    have hx' : x ∈ s2.books := hx
    rw [hg] at hmx
    rw [hbets, ap_sum_settle hI.sT bet { bet' with settleHeight := s2.height } hl hm' ho hf hns hs']
    exact hbooks x hx' mx hmx i p' hp'
  · intro t ht hst
    rw [hbets] at ht
    rcases col_mem_upsert Bet.key _ t s.bets ht with rfl | ht
    · exact ⟨m, by rw [hg]; show getMarket s bet'.market = some m; rw [hm']; exact hmk, hres⟩
    · obtain ⟨m', h1, h2⟩ := hA.res t ht hst
      exact ⟨m', by rw [hg]; exact h1, h2⟩
  · show ∀ mm ∈ s2.markets, _
    rw [hmk2]; exact hA.win

theorem settleBet_ap {s s' : State} {c u : Nat} (hI : ObInv s) (hA : ApInv s) (h : settleBet s c u = some s') : ApInv s' := by
  unfold settleBet at h
  simp only [bind, Option.bind_eq_some_iff] at h
  obtain ⟨bet0, _, bet, hbet, _, hchk, m, hm, h⟩ := h
  have hkey : Bet.key bet = [c, bet0.id] := (lookup_memQ hbet).2
  have hl : lookup Bet.key (Bet.key bet) s.bets = some bet := by rw [hkey]; exact hbet
  have hns : bet.status ≠ BS_SETTLED := by
    have := chk_some hchk
    simp only [Bool.not_eq_true', Bool.or_eq_false_iff, beq_eq_false_iff_ne] at this
    exact this.1
  split at h
  · rename_i hcond
    have hst : m.status = MS_ABORTED ∨ m.status = MS_CANCELED := by simpa using hcond
    have hnd : ¬ (m.status = MS_DECLARED) := by rcases hst with e | e <;> rw [e] <;> decide
    have hres : isOpenStatus m.status = false := by rcases hst with e | e <;> rw [e] <;> decide
    unfold settleRefund at h
    simp only [bind, Option.bind_eq_some_iff, pure, Option.some.injEq] at h
    obtain ⟨s1, h1, s2, h2, rfl⟩ := h
    obtain ⟨_, _, rfl⟩ := bankSend_shape h1
    obtain ⟨_, _, rfl⟩ := bankSend_shape h2
    refine ApInv.settle hA hI bet { bet with status := BS_SETTLED, result := BR_REFUNDED } m hl rfl rfl rfl hns rfl hm hres ?_ ?_ ?_
    · rfl
    · rfl
    intro x hx mx hmx i p hp
    have old := hA.ap x hx mx hmx i p hp
    by_cases hc : bet.market = x.uid
    · rw [← hc, hm] at hmx
      cases hmx
      rw [if_neg hnd] at old ⊢
      exact old
    · rw [if_neg hc]
      simpa using old
  · simp only [Option.bind_eq_some_iff] at h
    obtain ⟨_, hd, h⟩ := h
    have hdecl : m.status = MS_DECLARED := by simpa using chk_some hd
    have hres : isOpenStatus m.status = false := by rw [hdecl]; decide
    unfold settleDeclared at h
    simp only [bind, Option.bind_eq_some_iff, pure, Option.some.injEq] at h
    obtain ⟨bk, hbk, r, hr, s2, h2, rfl⟩ := h
    obtain ⟨_, _, rfl⟩ := bankSend_shape h2
    obtain ⟨hbkm, hbku⟩ := getBook_mem hbk
    have hx := settleOutcome_ext hr
    have hap := settleOutcome_ap hr
    refine ApInv.settle hA hI bet { bet with status := BS_SETTLED, result := if m.winners.contains bet.odds then BR_WON else BR_LOST }
      m hl rfl rfl rfl hns rfl hm hres ?_ ?_ ?_
    · rfl
    · rfl
    intro x hxm mx hmx i p' hp'
    have hxm' : x ∈ upsert Book.key r.2 s.books := hxm
    rcases (mem_upsert_iff Book.key r.2 x s.books hI.sB).mp hxm' with rfl | ⟨hxs, hne⟩
    · rw [hx.uid, hbku] at hmx
      rw [hm] at hmx
      cases hmx
      obtain ⟨p, hp, e⟩ := hap i p' hp'
      have old := hA.ap bk hbkm m (by rw [hbku]; exact hm) i p hp
      rw [if_pos hdecl] at old ⊢
      rw [hx.uid, hbku, if_pos rfl, e, old, hbku]
    · have hne' : bet.market ≠ x.uid := by
        intro e
        have : (Book.key x == Book.key r.2) = true := by simp [Book.key, hx.uid, hbku, e]
        rw [this] at hne; cases hne
      rw [if_neg hne']
      simpa using hA.ap x hxs mx hmx i p' hp'

theorem settlePage_ap : ∀ (page : List (Nat × Nat × Nat × Nat)) (s : State) (r : State × Nat),
    ObInv s → ApInv s → settlePage s page = some r → ApInv r.1 := by
  intro page
  induction page with
  | nil => intro s r _ hA h; simp [settlePage] at h; rw [← h]; exact hA
  | cons pb rest ih =>
    intro s r hI hA h
    unfold settlePage at h
    simp only [bind, Option.bind_eq_some_iff, pure, Option.some.injEq] at h
    obtain ⟨s1, h1, r1, hr, rfl⟩ := h
    exact ih _ r1 (settleBet_obInv hI h1) (settleBet_ap hI hA h1) hr

theorem bookResolved_ap {s s' : State} {u : Nat} (hA : ApInv s) (h : bookResolved s u = some s') : ApInv s' := by
  unfold bookResolved at h
  simp only [bind, Option.bind_eq_some_iff, pure, Option.some.injEq] at h
  obtain ⟨b, hb, _, _, rfl⟩ := h
  obtain ⟨_, hbu⟩ := getBook_mem hb
  have h1 := hA.setBook_same b { b with status := OB_RESOLVED } (by show getBook s b.uid = some b; rw [hbu]; exact hb)
    (fun i p' hp' => Or.inl ⟨p', hp', rfl⟩)
  exact h1.of_eq (by rfl) (by rfl) (by rfl)

theorem betEndBlockStep_ap {s : State} {mk n : Nat} {r : State × Nat} (hI : ObInv s) (hA : ApInv s)
    (h : betEndBlockStep s mk n = some r) : ApInv r.1 := by
  unfold betEndBlockStep at h
  simp only [bind, Option.bind_eq_some_iff] at h
  obtain ⟨r0, h0, h⟩ := h
  have e0 := settlePage_ap _ _ _ hI hA h0
  split at h
  · simp only [pure, Option.some.injEq] at h; rw [← h]; exact e0
  · simp only [Option.bind_eq_some_iff, pure, Option.some.injEq] at h
    obtain ⟨q, _, s2, h2, rfl⟩ := h
    have e1 : ApInv { r0.1 with mqueue := q } := e0.of_eq (by rfl) (by rfl) (by rfl)
    exact bookResolved_ap e1 h2

theorem betEndBlock_ap : ∀ (fuel : Nat) (s : State) (n : Nat) (s' : State),
    ObInv s → ApInv s → betEndBlock fuel s n = some s' → ApInv s' := by
  intro fuel
  induction fuel with
  | zero => intro s n s' _ hA h; simp [betEndBlock] at h; rw [← h]; exact hA
  | succ fuel ih =>
    intro s n s' hI hA h
    unfold betEndBlock at h
    split at h
    · simp at h; rw [← h]; exact hA
    · split at h
      · simp at h; rw [← h]; exact hA
      · simp only [bind, Option.bind_eq_some_iff] at h
        obtain ⟨r, hr, h⟩ := h
        exact ih _ _ _ (betEndBlockStep_obInv hI hr) (betEndBlockStep_ap hI hA hr) h

-- ---------------------------------------------------------------------------------------------
-- settlement of the participations: realised profit is read, not written

/-- every participation of `b'` is one of `b` with the same realised profit -/
def ASame (b b' : Book) : Prop := ∀ i p', b'.getPart i = some p' → ∃ p, b.getPart i = some p ∧ p'.actualProfit = p.actualProfit

theorem ASame.refl (b : Book) : ASame b b := fun _ p' h => ⟨p', h, rfl⟩
theorem ASame.trans {a b c : Book} (h1 : ASame a b) (h2 : ASame b c) : ASame a c := by
  intro i p'' hp''
  obtain ⟨p', hp', e2⟩ := h2 i p'' hp''
  obtain ⟨p, hp, e1⟩ := h1 i p' hp'
  exact ⟨p, hp, e2.trans e1⟩
theorem ASame.setPart (b : Book) (p' p : Part) (hp : b.getPart p'.idx = some p) (he : p'.actualProfit = p.actualProfit) :
    ASame b (b.setPart p') := by
  intro i q hq
  by_cases hi : p'.idx = i
  · rw [← hi, Book.getPart_setPart_self] at hq
    cases hq
    exact ⟨p, by rw [← hi]; exact hp, he⟩
  · rw [Book.getPart_setPart_ne _ _ _ hi] at hq
    exact ⟨q, hq, rfl⟩

theorem settlePart_ashape {s : State} {b : Book} {p : Part} {m : Market} {r : State × Book} (h : settlePart s b p m = some r) :
    ∃ p', r.2 = b.setPart p' ∧ p'.idx = p.idx ∧ p'.actualProfit = p.actualProfit := by
  unfold settlePart at h
  simp only [bind, Option.bind_eq_some_iff] at h
  obtain ⟨_, _, _, _, s1, h1, h⟩ := h
  split at h
  · simp only [Option.bind_eq_some_iff, pure, Option.some.injEq] at h
    obtain ⟨s2, h2, rfl⟩ := h
    exact ⟨_, rfl, rfl, rfl⟩
  · simp only [Option.bind_eq_some_iff, pure, Option.some.injEq] at h
    obtain ⟨s2, h2, rfl⟩ := h
    exact ⟨_, rfl, rfl, rfl⟩

theorem settleParts_asame (m : Market) (count : Nat) : ∀ (ps : List Part) (s : State) (b : Book) (sc pr : Nat)
    (r : State × Book × Nat × Nat), settleParts m count ps s b sc pr = some r →
    ps.Pairwise (fun a c => a.idx ≠ c.idx) → (∀ p ∈ ps, b.getPart p.idx = some p) → ASame b r.2.1 := by
  intro ps
  induction ps with
  | nil => intro s b sc pr r h _ _; simp [settleParts] at h; rw [← h]; exact ASame.refl b
  | cons p rest ih =>
    intro s b sc pr r h hd hg
    rw [List.pairwise_cons] at hd
    unfold settleParts at h
    simp only [bind, Option.bind_eq_some_iff] at h
    obtain ⟨r1, h1, h⟩ := h
    have hstep : ASame b r1.2.1 ∧ (∀ q ∈ rest, r1.2.1.getPart q.idx = some q) := by
      unfold settleOne at h1
      split at h1
      · simp only [Option.map_eq_some_iff] at h1
        obtain ⟨x, hx, rfl⟩ := h1
        obtain ⟨p', e1, e2, e3⟩ := settlePart_ashape hx
        refine ⟨?_, ?_⟩
        · show ASame b x.2
          rw [e1]
          exact ASame.setPart b p' p (by rw [e2]; exact hg p (List.mem_cons_self ..)) e3
        · intro q hq
          show x.2.getPart q.idx = some q
          rw [e1, Book.getPart_setPart_ne _ _ _ (by rw [e2]; exact hd.1 q hq)]
          exact hg q (List.mem_cons_of_mem _ hq)
      · cases h1
        exact ⟨ASame.refl b, fun q hq => hg q (List.mem_cons_of_mem _ hq)⟩
    obtain ⟨hx1, hg1⟩ := hstep
    split at h
    · simp only [pure, Option.some.injEq] at h
      rw [← h]
      exact hx1
    · exact hx1.trans (ih _ _ _ _ _ h hd.2 hg1)

theorem obEndBlock_ap : ∀ (fuel : Nat) (s : State) (n i : Nat) (s' : State),
    ObInv s → ApInv s → obEndBlock fuel s n i = some s' → ApInv s' := by
  intro fuel
  induction fuel with
  | zero => intro s n i s' _ hA h; simp [obEndBlock] at h; rw [← h]; exact hA
  | succ fuel ih =>
    intro s n i s' hI hA h
    unfold obEndBlock at h
    split at h
    · simp at h; rw [← h]; exact hA
    · split at h
      · simp at h; rw [← h]; exact hA
      · simp only [bind, Option.bind_eq_some_iff] at h
        obtain ⟨b, hb, m, _, _, _, r, hr, h⟩ := h
        obtain ⟨hbm, hbu⟩ := getBook_mem hb
        have hsP := (hI.qinv b hbm).s.sP
        have hpw : b.parts.Pairwise (fun a c => a.idx ≠ c.idx) := by
          unfold Sorted at hsP
          refine List.Pairwise.imp ?_ hsP
          intro a c hac e
          simp only [Part.key, e] at hac
          rw [ltL_irrefl] at hac
          cases hac
        obtain ⟨⟨bal', hbal⟩, hx⟩ := settleParts_ext m n b.parts s b 0 0 r hr hpw (fun p hp => Book.mem_getPart hsP hp)
        have has := settleParts_asame m n b.parts s b 0 0 r hr hpw (fun p hp => Book.mem_getPart hsP hp)
        have hI1 : ObInv r.1 := by rw [hbal]; exact hI.of_eq (by rfl) (by rfl) (by rfl) hI.mkt
        have hA1 : ApInv r.1 := by rw [hbal]; exact hA.of_eq (by rfl) (by rfl) (by rfl)
        have hb1 : getBook r.1 b.uid = some b := by rw [hbal, hbu]; exact hb
        split at h
        · simp only [Option.bind_eq_some_iff] at h
          obtain ⟨q, _, h⟩ := h
          have hx2 : Ext b { r.2.1 with status := OB_SETTLED } := hx.trans (Ext.status r.2.1 OB_SETTLED)
          have hI2 : ObInv { r.1 with obqueue := q } := hI1.of_eq (by rfl) (by rfl) (by rfl) hI1.mkt
          have hA2 : ApInv { r.1 with obqueue := q } := hA1.of_eq (by rfl) (by rfl) (by rfl)
          apply ih _ _ _ _ (hI2.setBook b _ (by rw [hx2.uid]; exact hb1) hx2) _ h
          exact hA2.setBook_same b { r.2.1 with status := OB_SETTLED } (by show getBook r.1 r.2.1.uid = some b; rw [hx.uid]; exact hb1)
            (fun i p' hp' => Or.inl (has i p' hp'))
        · apply ih _ _ _ _ (hI1.setBook b _ (by rw [hx.uid]; exact hb1) hx) _ h
          exact hA1.setBook_same b r.2.1 (by rw [hx.uid]; exact hb1) (fun i p' hp' => Or.inl (has i p' hp'))

theorem endBlockO_ap {s s' : State} (hI : ObInv s) (hA : ApInv s) (h : endBlockO s = some s') : ApInv s' := by
  unfold endBlockO at h
  simp only [bind, Option.bind_eq_some_iff] at h
  obtain ⟨s1, h1, h2⟩ := h
  exact obEndBlock_ap _ _ _ _ _ (betEndBlock_obInv _ _ _ _ hI h1) (betEndBlock_ap _ _ _ _ hI hA h1) h2

-- ---------------------------------------------------------------------------------------------
-- house messages, wager, market messages

theorem col_open_not_declared {st : Nat} (h : isOpenStatus st = true) : ¬ (st = MS_DECLARED) := by
  intro e; rw [e] at h; exact absurd h (by decide)

theorem houseDepositO_ap {s : State} {r : State × Nat} {c : Nat} {tk : Tk} {m : Nat} {a : Int} {pd : Nat}
    (hA : ApInv s) (h : houseDepositO s c tk m a pd = some r) : ApInv r.1 := by
  unfold houseDepositO at h
  simp only [bind, Option.bind_eq_some_iff, pure, Option.some.injEq] at h
  obtain ⟨_, _, _, _, _, _, s1, hs1, _, _, mk, hmk, b, hb, _, hact, _, _, _, _, _, _, s2, hs2, s3, hs3, rfl⟩ := h
  obtain ⟨gs, rfl⟩ := grantStep_shape hs1
  obtain ⟨bal2, _, rfl⟩ := bankSend_shape hs2
  obtain ⟨bal3, _, rfl⟩ := bankSend_shape hs3
  have hb' : getBook s m = some b := hb
  have hmk' : getMarket s m = some mk := hmk
  have hact : mk.status = MS_ACTIVE := by simpa using chk_some hact
  obtain ⟨hbm, hbu⟩ := getBook_mem hb'
  obtain ⟨e1, _, e3⟩ := addParticipation_shape b (depositFor c pd) (a - (s.params.houseFee.mulInt a).roundInt)
    (s.params.houseFee.mulInt a).roundInt
  have h1 := hA.setBook_same b _ (by rw [e1, hbu]; exact hb') (by
    intro i p' hp'
    unfold Book.getPart at hp'
    rw [e3] at hp'
    by_cases hi : (b.newPart (depositFor c pd) (a - (s.params.houseFee.mulInt a).roundInt) (s.params.houseFee.mulInt a).roundInt).idx = i
    · rw [← hi] at hp'
      have hp'' : lookup Part.key (Part.key (b.newPart (depositFor c pd) (a - (s.params.houseFee.mulInt a).roundInt) (s.params.houseFee.mulInt a).roundInt)) _ = some p' := hp'
      rw [lookup_upsert_self] at hp''
      cases hp''
      refine Or.inr ⟨rfl, ?_⟩
      intro m' hm'
      rw [hbu, hmk'] at hm'
      cases hm'
      rw [hact]; decide
    · rw [lookup_upsert_ne Part.key _ [i] b.parts (by simpa [Part.key] using hi)] at hp'
      exact Or.inl ⟨p', hp', rfl⟩)
  exact h1.of_eq (by rfl) (by rfl) (by rfl)

theorem houseWithdrawO_ap {s s' : State} {c : Nat} {tk : Tk} {m i md : Nat} {a : Int} {pd : Nat}
    (hA : ApInv s) (h : houseWithdrawO s c tk m i md a pd = some s') : ApInv s' := by
  unfold houseWithdrawO at h
  simp only [bind, Option.bind_eq_some_iff, pure, Option.some.injEq] at h
  obtain ⟨_, _, _, _, _, _, _, _, _, _, d, _, b, hb, _, _, w, _, s1, hs1, p, hp, s2, hs2, b', hb', rfl⟩ := h
  obtain ⟨gs, rfl⟩ := grantStep_shape hs1
  obtain ⟨bal2, _, rfl⟩ := bankSend_shape hs2
  obtain ⟨hbm, hbu⟩ := getBook_mem hb
  obtain ⟨e1, _, e3⟩ := withdraw_shape hp hb'
  have hpi := Book.getPart_idx hp
  have h1 := hA.setBook_same b b' (by rw [e1, hbu]; exact hb) (by
    intro j p' hp'
    unfold Book.getPart at hp'
    rw [e3] at hp'
    by_cases hj : i = j
    · subst hj
      rw [← hpi] at hp'
      have hp'' : lookup Part.key (Part.key ({ p with crl := p.crl - w, liq := p.liq - w } : Part))
          (upsert Part.key { p with crl := p.crl - w, liq := p.liq - w } b.parts) = some p' := hp'
      rw [lookup_upsert_self] at hp''
      cases hp''
      exact Or.inl ⟨p, hp, rfl⟩
    · rw [lookup_upsert_ne Part.key _ [j] b.parts (by
        show (Part.key ({ p with crl := p.crl - w, liq := p.liq - w } : Part) == [j]) = false
        simp only [Part.key]
        rw [hpi]
        simpa using hj)] at hp'
      exact Or.inl ⟨p', hp', rfl⟩)
  exact h1.of_eq (by rfl) (by rfl) (by rfl)

theorem wagerO_ap {s s' : State} {c : Nat} {tk : Tk} {u : Nat} {a : Int} {pl : WagerPayload}
    (hI : ObInv s) (hA : ApInv s) (h : wagerO s c tk u a pl = some s') : ApInv s' := by
  unfold wagerO at h
  simp only [bind, Option.bind_eq_some_iff, pure, Option.some.injEq] at h
  obtain ⟨_, _, _, _, _, _, _, _, _, _, _, _, _, _, m, hm, _, hact, _, _, _, _, _, _, _, _, _, _, ov, _, _, _, b, hb, r, hr, s1, hs1, s2, hs2, rfl⟩ := h
  obtain ⟨b', fulfs, taken⟩ := r
  obtain ⟨bal1, _, rfl⟩ := bankSend_shape hs1
  obtain ⟨bal2, _, rfl⟩ := bankSend_shape hs2
  obtain ⟨hbm, hbu⟩ := getBook_mem hb
  have hact : m.status = MS_ACTIVE := by simpa using chk_some hact
  have hq := hI.qinv b hbm
  obtain ⟨_, _, hs', hu', hparts⟩ := processWager_custody b b' pl.odds (s.betCount + 1) ov pl.mult m.odds pl.allOdds _ _ _ fulfs taken hq.s.sP hr
  have hrel : ∀ i p', b'.getPart i = some p' → ∃ p, b.getPart i = some p ∧ p'.actualProfit = p.actualProfit := by
    intro i p' hp'
    obtain ⟨hpm, hpi⟩ := Book.getPart_mem hp'
    obtain ⟨q0, hq0, hc⟩ := hparts p' hpm
    refine ⟨q0, ?_, hc.2.2.1⟩
    have := Book.mem_getPart hq.s.sP hq0
    rw [← hc.1, hpi] at this
    exact this
  have hfresh : lookup Bet.key (Bet.key (newBet s c u pl ov fulfs)) s.bets = none := by
    apply lookup_none_of_forall
    intro y hy hk
    have := hI.ids y hy
    simp only [Bet.key, newBet, List.cons.injEq, and_true] at hk
    omega
  exact hA.wager hI b b' (newBet s c u pl ov fulfs) m (by rw [hbu]; exact hb) hu' (by rw [hbu]; exact hm) hact hrel rfl hfresh
    (by rfl) (by rfl) (by rfl)

theorem marketAddO_ap {s s' : State} {c : Nat} {tk : Tk} {u st en : Nat} {o : List Nat} {stt : Nat}
    (hI : ObInv s) (hA : ApInv s) (h : marketAddO s c tk u st en o stt = some s') : ApInv s' := by
  unfold marketAddO at h
  simp only [bind, Option.bind_eq_some_iff, pure, Option.some.injEq] at h
  obtain ⟨_, _, _, _, _, h3, _, _, _, _, _, h6, _, h7, rfl⟩ := h
  have h3 : isOpenStatus stt = true := chk_some h3
  have h6 : getMarket s u = none := by simpa using chk_some h6
  have h7 : getBook s u = none := by simpa using chk_some h7
  have hgm : ∀ v, v ≠ u → getMarket (setMarket (setBook s (newBook u o))
      { uid := u, creator := c, startTS := st, endTS := en, odds := o, status := stt }) v = getMarket s v := by
    intro v hv
    rw [getMarket_setMarket_ne _ _ v (fun e => hv e.symm)]
    rfl
  refine ⟨?_, ?_, ?_⟩
  · intro x hx mx hmx i p hp
    have hx' : x ∈ upsert Book.key (newBook u o) s.books := hx
    rcases col_mem_upsert Book.key _ x s.books hx' with rfl | hx'
    · unfold Book.getPart lookup newBook at hp
      simp at hp
    · have hxu : x.uid ≠ u := by
        intro e
        have := mem_getBook hI.sB hx'
        rw [e, h7] at this; cases this
      rw [hgm x.uid hxu] at hmx
      exact hA.ap x hx' mx hmx i p hp
  · intro t ht hst
    obtain ⟨m', h1, h2⟩ := hA.res t ht hst
    have : t.market ≠ u := by intro e; rw [e, h6] at h1; cases h1
    exact ⟨m', by rw [hgm t.market this]; exact h1, h2⟩
  · intro x hx hd
    rcases mem_setMarket hx with rfl | hx
    · exact absurd hd (col_open_not_declared h3)
    · exact hA.win x hx hd

theorem marketUpdateO_ap {s s' : State} {tk : Tk} {u st en stt : Nat}
    (hA : ApInv s) (h : marketUpdateO s tk u st en stt = some s') : ApInv s' := by
  unfold marketUpdateO at h
  simp only [bind, Option.bind_eq_some_iff, pure, Option.some.injEq] at h
  obtain ⟨_, _, m, hm, _, h2, _, h3, _, _, rfl⟩ := h
  have h2 : isOpenStatus m.status = true := chk_some h2
  have h3 : isOpenStatus stt = true := chk_some h3
  have hmu := getMarket_uid hm
  subst hmu
  have hself : getMarket (setMarket s { m with startTS := st, endTS := en, status := stt }) m.uid =
      some { m with startTS := st, endTS := en, status := stt } :=
    getMarket_setMarket_self s { m with startTS := st, endTS := en, status := stt }
  have hne : ∀ v, v ≠ m.uid → getMarket (setMarket s { m with startTS := st, endTS := en, status := stt }) v = getMarket s v := by
    intro v hv
    exact getMarket_setMarket_ne _ _ v (by show m.uid ≠ v; exact fun e => hv e.symm)
  refine ⟨?_, ?_, ?_⟩
  · intro x hx mx hmx i p hp
    by_cases hxu : x.uid = m.uid
    · rw [hxu, hself] at hmx
      cases hmx
      have old := hA.ap x hx m (by rw [hxu]; exact hm) i p hp
      rw [if_neg (col_open_not_declared h2)] at old
      rw [if_neg (show ¬ (stt = MS_DECLARED) from col_open_not_declared h3)]
      exact old
    · rw [hne x.uid hxu] at hmx
      exact hA.ap x hx mx hmx i p hp
  · intro t ht hst
    obtain ⟨m', h1, h2'⟩ := hA.res t ht hst
    have : t.market ≠ m.uid := by
      intro e
      rw [e, hm] at h1
      cases h1
      rw [h2] at h2'; cases h2'
    exact ⟨m', by rw [hne t.market this]; exact h1, h2'⟩
  · intro x hx hd
    rcases mem_setMarket hx with rfl | hx
    · exact absurd hd (col_open_not_declared h3)
    · exact hA.win x hx hd

theorem marketResolveO_ap {s s' : State} {tk : Tk} {u ts stt : Nat} {w : List Nat}
    (hA : ApInv s) (h : marketResolveO s tk u ts stt w = some s') : ApInv s' := by
  unfold marketResolveO at h
  simp only [bind, Option.bind_eq_some_iff, pure, Option.some.injEq] at h
  obtain ⟨_, _, _, h1, m, hm, _, h2, _, _, rfl⟩ := h
  have h1 : resolutionPayloadOk stt ts w = true := chk_some h1
  have h2 : isOpenStatus m.status = true := chk_some h2
  have hmu := getMarket_uid hm
  subst hmu
  generalize hm' : ({ m with resolutionTS := ts, status := stt, winners := if stt == MS_DECLARED then w else m.winners } : Market) = m'
  have hm'u : m'.uid = m.uid := by rw [← hm']
  have hself : getMarket (setMarket { s with mqueue := s.mqueue ++ [m.uid] } m') m.uid = some m' := by
    have := getMarket_setMarket_self { s with mqueue := s.mqueue ++ [m.uid] } m'
    rw [hm'u] at this
    exact this
  have hne : ∀ v, v ≠ m.uid → getMarket (setMarket { s with mqueue := s.mqueue ++ [m.uid] } m') v = getMarket s v := by
    intro v hv
    rw [getMarket_setMarket_ne _ _ v (by rw [hm'u]; exact fun e => hv e.symm)]
    rfl
  have hnoset : ∀ t ∈ s.bets, t.market = m.uid → t.status ≠ BS_SETTLED := by
    intro t ht e hst
    obtain ⟨m'', a1, a2⟩ := hA.res t ht hst
    rw [e, hm] at a1
    cases a1
    rw [h2] at a2; cases a2
  refine ⟨?_, ?_, ?_⟩
  · intro x hx mx hmx i p hp
    by_cases hxu : x.uid = m.uid
    · rw [hxu, hself] at hmx
      cases hmx
      have old := hA.ap x hx m (by rw [hxu]; exact hm) i p hp
      rw [if_neg (col_open_not_declared h2)] at old
      rw [old]
      split
      · symm
        apply sumBy_zeroQ
        intro t ht
        unfold apTerm
        by_cases e : t.market = x.uid
        · have := hnoset t ht (e.trans hxu)
          have hf : (t.status == BS_SETTLED) = false := by simpa using this
          simp [hf]
        · simp [e]
      · rfl
    · rw [hne x.uid hxu] at hmx
      exact hA.ap x hx mx hmx i p hp
  · intro t ht hst
    obtain ⟨m'', a1, a2⟩ := hA.res t ht hst
    have : t.market ≠ m.uid := fun e => hnoset t ht e hst
    exact ⟨m'', by rw [hne t.market this]; exact a1, a2⟩
  · intro x hx hd
    rcases mem_setMarket hx with rfl | hx
    · rw [← hm'] at hd ⊢
      have hd' : stt = MS_DECLARED := hd
      unfold resolutionPayloadOk at h1
      simp only [hd', beq_self_eq_true, if_true, Bool.and_eq_true] at h1 ⊢
      simpa using h1.1.2
    · exact hA.win x hx hd

-- ---------------------------------------------------------------------------------------------
-- every operation, every history

theorem step_ap (s : State) (op : Op) (hI : ObInv s) (hA : ApInv s) : ApInv (step s op).1 := by
  cases op with
  | marketAdd c tk u st en o stt =>
    simp only [step, marketAdd, commit]
    cases h : marketAddO s c tk u st en o stt with
    | none => exact hA
    | some s' => exact marketAddO_ap hI hA h
  | marketUpdate tk u st en stt =>
    simp only [step, marketUpdate, commit]
    cases h : marketUpdateO s tk u st en stt with
    | none => exact hA
    | some s' => exact marketUpdateO_ap hA h
  | marketResolve tk u ts stt w =>
    simp only [step, marketResolve, commit]
    cases h : marketResolveO s tk u ts stt w with
    | none => exact hA
    | some s' => exact marketResolveO_ap hA h
  | deposit c tk m a pd =>
    simp only [step, houseDeposit]
    cases h : houseDepositO s c tk m a pd with
    | none => exact hA
    | some r => exact houseDepositO_ap hA h
  | withdraw c tk m i md a pd =>
    simp only [step, houseWithdraw, commit]
    cases h : houseWithdrawO s c tk m i md a pd with
    | none => exact hA
    | some s' => exact houseWithdrawO_ap hA h
  | wager c tk u a pl =>
    simp only [step, wager, commit]
    cases h : wagerO s c tk u a pl with
    | none => exact hA
    | some s' => exact wagerO_ap hI hA h
  | grant g e k l x => exact hA.of_eq (by rfl) (by rfl) (by rfl)
  | revoke g e k => exact hA.of_eq (by rfl) (by rfl) (by rfl)
  | send a b x =>
    simp only [step]
    split
    · exact hA
    · unfold commit
      cases h : bankSend s a b x with
      | none => exact hA
      | some s' =>
        obtain ⟨_, _, rfl⟩ := bankSend_shape h
        exact hA.of_eq (by rfl) (by rfl) (by rfl)
  | setParams p =>
    simp only [step]
    split
    · exact hA.of_eq (by rfl) (by rfl) (by rfl)
    · exact hA
  | endBlock =>
    simp only [step, endBlock]
    cases h : endBlockO s with
    | none => exact hA
    | some s' => exact endBlockO_ap hI hA h
  | newBlock h t => exact hA.of_eq (by rfl) (by rfl) (by rfl)

theorem run_ap (s : State) (ops : List Op) (hI : ObInv s) (hA : ApInv s) : ApInv (run s ops) := by
  induction ops generalizing s with
  | nil => exact hA
  | cons op rest ih => exact ih _ (step_obInv s op hI) (step_ap s op hI hA)

theorem apInv_init (p : Params) (bal : List (Nat × Int)) (h t : Nat) :
    ApInv { bal := bal, params := p, height := h, time := t } := by
  refine ⟨?_, ?_, ?_⟩
  · intro b hb; cases hb
  · intro x hx; cases hx
  · intro m hm; cases hm

end Sge.Core
