/- the order-book end-blocker (BatchOrderBookSettlements) and the whole end-block preserve `SettleInv` -/
import SgeProofs.Lemmas.CustodySettleBet
namespace Sge.Core
open Sge Sge.Genesis

/-- settleParticipation: the pool pays liquidity + realised profit (on a cancelled / aborted market the realised
    profit is 0 by K10), the house-fee collector pays the fee, the participation is marked paid -/
theorem settlePart_spec {s : State} {b : Book} {p : Part} {m : Market} {r : State × Book}
    (h : settlePart s b p m = some r) (hpu : isModuleAcc p.addr = false) (hmu : isModuleAcc m.creator = false)
    (hap : m.status ≠ MS_DECLARED → p.actualProfit = 0) :
    p.isSettled = false ∧
    ∃ bal p', r = ({ s with bal := bal }, b.setPart p') ∧ p'.idx = p.idx ∧ p'.addr = p.addr ∧
      p'.actualProfit = p.actualProfit ∧ p'.isSettled = true ∧
      getBal bal ACC_POOL = getBal s.bal ACC_POOL - (p.liq + p.actualProfit) ∧
      getBal bal ACC_HOUSEFEE = getBal s.bal ACC_HOUSEFEE - p.fee ∧
      getBal bal ACC_BETFEE = getBal s.bal ACC_BETFEE := by
  unfold settlePart at h
  simp only [bind, Option.bind_eq_some_iff] at h
  obtain ⟨_, h1, _, _, s1, hs1, h⟩ := h
  have h1 := chk_some h1
  obtain ⟨n1, n2, n3⟩ := isModuleAcc_false_ne hpu
  obtain ⟨c1, c2, c3⟩ := isModuleAcc_false_ne hmu
  obtain ⟨bal1, rfl, _, p1, _, o1⟩ := bankSend_spec hs1 (Ne.symm n1)
  have hpay : p.payout m = p.liq + p.actualProfit := by
    unfold Part.payout
    split
    · rfl
    · rename_i hd
      have : m.status ≠ MS_DECLARED := by simpa using hd
      rw [hap this]; omega
  have p1 : getBal bal1 ACC_POOL = getBal s.bal ACC_POOL - (p.liq + p.actualProfit) := by rw [← hpay]; exact p1
  have o1 : ∀ c', c' ≠ ACC_POOL → c' ≠ p.addr → getBal bal1 c' = getBal s.bal c' := o1
  refine ⟨by simpa using h1, ?_⟩
  split at h
  · simp only [bind, Option.bind_eq_some_iff, pure, Option.some.injEq] at h
    obtain ⟨s2, h2, rfl⟩ := h
    obtain ⟨bal2, rfl, _, p2, _, o2⟩ := bankSend_spec h2 (Ne.symm n3)
    have p2 : getBal bal2 ACC_HOUSEFEE = getBal bal1 ACC_HOUSEFEE - p.fee := p2
    have o2 : ∀ c', c' ≠ ACC_HOUSEFEE → c' ≠ p.addr → getBal bal2 c' = getBal bal1 c' := o2
    refine ⟨bal2, _, rfl, rfl, rfl, rfl, rfl, ?_, ?_, ?_⟩
    · rw [o2 _ (by decide) (Ne.symm n1), p1]
    · rw [p2, o1 _ (by decide) (Ne.symm n3)]
    · rw [o2 _ (by decide) (Ne.symm n2), o1 _ (by decide) (Ne.symm n2)]
  · simp only [bind, Option.bind_eq_some_iff, pure, Option.some.injEq] at h
    obtain ⟨s2, h2, rfl⟩ := h
    obtain ⟨bal2, rfl, _, p2, _, o2⟩ := bankSend_spec h2 (Ne.symm c3)
    have p2 : getBal bal2 ACC_HOUSEFEE = getBal bal1 ACC_HOUSEFEE - p.fee := p2
    have o2 : ∀ c', c' ≠ ACC_HOUSEFEE → c' ≠ m.creator → getBal bal2 c' = getBal bal1 c' := o2
    refine ⟨bal2, _, rfl, rfl, rfl, rfl, rfl, ?_, ?_, ?_⟩
    · rw [o2 _ (by decide) (Ne.symm c1), p1]
    · rw [p2, o1 _ (by decide) (Ne.symm n3)]
    · rw [o2 _ (by decide) (Ne.symm c2), o1 _ (by decide) (Ne.symm n2)]

/-- what one step of the participation loop does to balances and book, relative to each other -/
structure PartStep (s : State) (b : Book) (s1 : State) (b1 : Book) : Prop where
  state : ∃ bal, s1 = { s with bal := bal } ∧
    getBal bal ACC_POOL - b1.owed = getBal s.bal ACC_POOL - b.owed ∧
    getBal bal ACC_HOUSEFEE - b1.owedFee = getBal s.bal ACC_HOUSEFEE - b.owedFee ∧
    getBal bal ACC_BETFEE = getBal s.bal ACC_BETFEE
  uid : b1.uid = b.uid
  status : b1.status = b.status
  sorted : Sorted Part.key b1.parts
  parts : ∀ q ∈ b1.parts, ∃ q0 ∈ b.parts, q.addr = q0.addr ∧ q.actualProfit = q0.actualProfit

theorem PartStep.refl (s : State) (b : Book) (hs : Sorted Part.key b.parts) : PartStep s b s b :=
  ⟨⟨s.bal, rfl, rfl, rfl, rfl⟩, rfl, rfl, hs, fun q hq => ⟨q, hq, rfl, rfl⟩⟩

theorem PartStep.trans {s s1 s2 : State} {b b1 b2 : Book} (h1 : PartStep s b s1 b1) (h2 : PartStep s1 b1 s2 b2) :
    PartStep s b s2 b2 := by
  obtain ⟨⟨bal1, rfl, a1, a2, a3⟩, u1, t1, _, p1⟩ := h1
  obtain ⟨⟨bal2, rfl, c1, c2, c3⟩, u2, t2, so2, p2⟩ := h2
  have c1 : getBal bal2 ACC_POOL - b2.owed = getBal bal1 ACC_POOL - b1.owed := c1
  have c2 : getBal bal2 ACC_HOUSEFEE - b2.owedFee = getBal bal1 ACC_HOUSEFEE - b1.owedFee := c2
  have c3 : getBal bal2 ACC_BETFEE = getBal bal1 ACC_BETFEE := c3
  refine ⟨⟨bal2, rfl, by omega, by omega, by omega⟩, u2.trans u1, t2.trans t1, so2, ?_⟩
  intro q hq
  obtain ⟨q1, hq1, e1, e2⟩ := p2 q hq
  obtain ⟨q0, hq0, e3, e4⟩ := p1 q1 hq1
  exact ⟨q0, hq0, e1.trans e3, e2.trans e4⟩

theorem settleOne_spec {s : State} {b : Book} {p : Part} {m : Market} {sc : Nat} {r : State × Book × Nat}
    (h : settleOne s b p m sc = some r) (hs : Sorted Part.key b.parts) (hp : b.getPart p.idx = some p)
    (hpu : isModuleAcc p.addr = false) (hmu : isModuleAcc m.creator = false)
    (hap : m.status ≠ MS_DECLARED → p.actualProfit = 0) :
    PartStep s b r.1 r.2.1 ∧ ∀ i, i ≠ p.idx → r.2.1.getPart i = b.getPart i := by
  unfold settleOne at h
  split at h
  · simp only [Option.map_eq_some_iff] at h
    obtain ⟨x, hx, rfl⟩ := h
    obtain ⟨hun, bal, p', rfl, i1, i2, i3, i4, e1, e2, e3⟩ := settlePart_spec hx hpu hmu hap
    have hq' : lookup Part.key (Part.key p') b.parts = some p := by
      show lookup Part.key [p'.idx] b.parts = some p
      rw [i1]; exact hp
    have hpm : p ∈ b.parts := getPart_mem hp
    refine ⟨⟨⟨bal, rfl, ?_, ?_, e3⟩, rfl, rfl, upsert_sorted Part.key _ b.parts hs, ?_⟩, ?_⟩
    · show getBal bal ACC_POOL - sumBy Part.owed (upsert Part.key p' b.parts) = _
      rw [sumBy_upsert Part.key _ _ b.parts hs, hq', e1]
      simp only [Part.owed, hun, i4]
      simp only [Bool.false_eq_true, if_false, if_true]
      unfold Book.owed
      omega
    · show getBal bal ACC_HOUSEFEE - sumBy Part.owedFee (upsert Part.key p' b.parts) = _
      rw [sumBy_upsert Part.key _ _ b.parts hs, hq', e2]
      simp only [Part.owedFee, hun, i4]
      simp only [Bool.false_eq_true, if_false, if_true]
      unfold Book.owedFee
      omega
    · intro q hq
      rcases mem_upsert_or Part.key p' q b.parts hq with rfl | hq
      · exact ⟨p, hpm, i2, i3⟩
      · exact ⟨q, hq, rfl, rfl⟩
    · intro i hi
      exact Book.getPart_setPart_ne b p' i (by rw [i1]; exact Ne.symm hi)
  · simp only [Option.some.injEq] at h
    subst h
    exact ⟨PartStep.refl s b hs, fun _ _ => rfl⟩

/-- batchSettlementOfParticipation over (a suffix of) the participations of the book -/
theorem settleParts_spec (m : Market) (count : Nat) (hmu : isModuleAcc m.creator = false) :
    ∀ (ps : List Part) (s : State) (b : Book) (sc pr : Nat) (r : State × Book × Nat × Nat),
    settleParts m count ps s b sc pr = some r →
    Sorted Part.key b.parts → Sorted Part.key ps → (∀ q ∈ ps, b.getPart q.idx = some q) →
    (∀ q ∈ ps, isModuleAcc q.addr = false) → (∀ q ∈ ps, m.status ≠ MS_DECLARED → q.actualProfit = 0) →
    PartStep s b r.1 r.2.1 := by
  intro ps
  induction ps with
  | nil =>
    intro s b sc pr r h hs _ _ _ _
    simp only [settleParts, Option.some.injEq] at h
    subst h
    exact PartStep.refl s b hs
  | cons p rest ih =>
    intro s b sc pr r h hs hps hget hpu hap
    unfold settleParts at h
    simp only [bind, Option.bind_eq_some_iff] at h
    obtain ⟨r1, h1, h⟩ := h
    obtain ⟨st1, hoth⟩ := settleOne_spec h1 hs (hget p (List.mem_cons_self ..)) (hpu p (List.mem_cons_self ..)) hmu
      (hap p (List.mem_cons_self ..))
    split at h
    · simp only [pure, Option.some.injEq] at h
      subst h
      exact st1
    · unfold Sorted at hps
      rw [List.pairwise_cons] at hps
      have := ih r1.1 r1.2.1 r1.2.2 (pr + 1) r h st1.sorted hps.2
        (by
          intro q hq
          rw [hoth q.idx]
          · exact hget q (List.mem_cons_of_mem _ hq)
          · intro e
            have hlt := hps.1 q hq
            have := ltL_ne _ _ hlt
            simp [Part.key, e] at this)
        (fun q hq => hpu q (List.mem_cons_of_mem _ hq)) (fun q hq => hap q (List.mem_cons_of_mem _ hq))
      exact st1.trans this

/-- BatchOrderBookSettlements keeps the invariant -/
theorem obEndBlock_inv : ∀ (fuel : Nat) (s : State) (n i : Nat) (s' : State),
    SettleInv s → obEndBlock fuel s n i = some s' → SettleInv s' := by
  intro fuel
  induction fuel with
  | zero => intro s n i s' hI h; simp [obEndBlock] at h; rw [← h]; exact hI
  | succ fuel ih =>
    intro s n i s' hI h
    unfold obEndBlock at h
    split at h
    · simp at h; rw [← h]; exact hI
    · split at h
      · simp at h; rw [← h]; exact hI
      · rename_i uid _
        simp only [bind, Option.bind_eq_some_iff] at h
        obtain ⟨b, hb, m, hm, _, hres, r, hr, h⟩ := h
        have hres : b.status = OB_RESOLVED := by simpa using chk_some hres
        obtain ⟨hbm, hbu⟩ := getBook_mem hb
        have hna : b.status ≠ OB_ACTIVE := by rw [hres]; decide
        have hsp := hI.sortedParts b hbm
        have hst := settleParts_spec m n (hI.creatorsUser m (getMarket_mem hm)) b.parts s b 0 0 r hr hsp hsp
          (fun q hq => lookup_of_mem_sorted Part.key q b.parts hsp hq) (hI.partsUser b hbm)
          (by
            intro q hq hnd
            by_cases e : q.actualProfit = 0
            · exact e
            · obtain ⟨m', hm', hd⟩ := hI.profitDeclared b hbm q hq e
              rw [hbu, hm] at hm'
              cases hm'
              exact absurd hd hnd)
        obtain ⟨s1, b1, sc, pr⟩ := r
        obtain ⟨⟨bal, hs1, e1, e2, e3⟩, u1, u2, u3, u4⟩ := hst
        have hs1 : s1 = { s with bal := bal } := hs1
        subst hs1
        -- both continuations write back a non-active copy of the book with the participations of `b1`
        have key : ∀ (B : Book) (s'' : State), B.uid = b.uid → B.parts = b1.parts → B.status ≠ OB_ACTIVE →
            s''.bal = bal → s''.books = upsert Book.key B s.books → s''.bets = s.bets → s''.pending = s.pending →
            s''.markets = s.markets → s''.mqueue = s.mqueue → s''.betCount = s.betCount → SettleInv s'' := by
          intro B s'' hu hp hst hbal hbooks hbets hpend hmk hmq hc
          have ho : B.owed = b1.owed := by unfold Book.owed; rw [hp]
          have hof : B.owedFee = b1.owedFee := by unfold Book.owedFee; rw [hp]
          refine SettleInv.replaceBook (s := s) (b := b) (B := B) hI (by rw [hu, hbu]; exact hb) hbooks hbets hpend hmk
            (by rw [hmq]; exact fun _ hu => hu) hc (by rw [hp]; exact u3) (by rw [hp]; exact u4) hst ?_ ?_ ?_ ?_ ?_
          · rw [hu]; exact hI.closedNoOpen b hbm hna
          · rw [hu]; exact hI.closedResolved b hbm hna
          · rw [hbal, ho]; exact e1
          · rw [hbal, hof]; exact e2
          · rw [hbal]; exact e3
        split at h
        · simp only [bind, Option.bind_eq_some_iff] at h
          obtain ⟨q, _, h⟩ := h
          refine ih _ _ _ _ ?_ h
          exact key { b1 with status := OB_SETTLED } _ u1 rfl (by show OB_SETTLED ≠ OB_ACTIVE; decide)
            rfl rfl rfl rfl rfl rfl rfl
        · refine ih _ _ _ _ ?_ h
          exact key b1 _ u1 rfl (by rw [u2]; exact hna) rfl rfl rfl rfl rfl rfl rfl

/-- the end-blockers of bet and order book keep the invariant -/
theorem endBlockO_inv {s s' : State} (hI : SettleInv s) (h : endBlockO s = some s') : SettleInv s' := by
  unfold endBlockO at h
  simp only [bind, Option.bind_eq_some_iff] at h
  obtain ⟨s1, h1, h2⟩ := h
  exact obEndBlock_inv _ _ _ _ _ (betEndBlock_inv _ _ _ _ hI h1) h2

end Sge.Core
