/-
  The end-blockers of x/bet and x/orderbook keep the store invariant `StI`; every operation and every history does;
  the decidable invariants `marketInv`, `houseInv`, `obInv` of Sge/Genesis.lean follow from it.
-/
import SgeProofs.Lemmas.GenesisReachOps
import SgeProofs.Lemmas.GenesisReachBet
import SgeProofs.Lemmas.CoreParams
namespace Sge.Core
open Sge Sge.Genesis

-- ---------------------------------------------------------------------------------------------
-- x/bet: settlement

theorem bettorLoses_BkI {n : Nat} : ∀ (fs : List Fulf) (b b' : Book), BkI n b → bettorLoses b fs = some b' → BkI n b' := by
  intro fs
  induction fs with
  | nil => intro b b' hb h; simp [bettorLoses] at h; rw [← h]; exact hb
  | cons f rest ih =>
    intro b b' hb h
    unfold bettorLoses at h
    simp only [bind, Option.bind_eq_some_iff] at h
    obtain ⟨p, hp, h⟩ := h
    refine ih _ _ (hb.setPart _ ?_) h
    exact getPart_bound (p := p) hb hp

theorem bettorWins_BkI {n : Nat} (bettor : Nat) : ∀ (fs : List Fulf) (bal : List (Nat × Int)) (b : Book)
    (r : List (Nat × Int) × Book), BkI n b → bettorWins bal bettor b fs = some r → BkI n r.2 := by
  intro fs
  induction fs with
  | nil => intro bal b r hb h; simp [bettorWins] at h; rw [← h]; exact hb
  | cons f rest ih =>
    intro bal b r hb h
    unfold bettorWins at h
    simp only [bind, Option.bind_eq_some_iff] at h
    obtain ⟨p, hp, bal', _, h⟩ := h
    refine ih _ _ _ (hb.setPart _ ?_) h
    exact getPart_bound (p := p) hb hp

theorem settleOutcome_BkI {n : Nat} {bal : List (Nat × Int)} {won : Bool} {bettor : Nat} {b : Book} {fs : List Fulf}
    {r : List (Nat × Int) × Book} (hb : BkI n b) (h : settleOutcome bal won bettor b fs = some r) : BkI n r.2 := by
  unfold settleOutcome at h
  split at h
  · exact bettorWins_BkI bettor fs bal b r hb h
  · simp only [Option.map_eq_some_iff] at h
    obtain ⟨b', hb', rfl⟩ := h
    exact bettorLoses_BkI fs b b' hb hb'

theorem settleBet_stI {s s' : State} {c u : Nat} (hI : StI s) (h : settleBet s c u = some s') : StI s' := by
  unfold settleBet at h
  simp only [bind, Option.bind_eq_some_iff] at h
  obtain ⟨_, _, bet, _, _, _, m, _, h⟩ := h
  split at h
  · unfold settleRefund at h
    simp only [bind, Option.bind_eq_some_iff, pure, Option.some.injEq] at h
    obtain ⟨s1, h1, s2, h2, rfl⟩ := h
    exact ((hI.of_fr (bankSend_fr h1)).of_fr (bankSend_fr h2)).of_fr ⟨rfl, rfl, rfl, rfl, rfl⟩
  · simp only [Option.bind_eq_some_iff] at h
    obtain ⟨_, _, h⟩ := h
    unfold settleDeclared at h
    simp only [bind, Option.bind_eq_some_iff, pure, Option.some.injEq] at h
    obtain ⟨bk, hbk, r, hr, s2, h2, rfl⟩ := h
    have h0 : StI { s with bal := r.1 } := hI.of_fr ⟨rfl, rfl, rfl, rfl, rfl⟩
    have h1 : StI (setBook { s with bal := r.1 } r.2) := h0.setBook r.2 (settleOutcome_BkI (hI.getBook hbk) hr)
    exact (h1.of_fr (bankSend_fr h2)).of_fr ⟨rfl, rfl, rfl, rfl, rfl⟩

theorem settlePage_stI : ∀ (page : List (Nat × Nat × Nat × Nat)) (s : State) (r : State × Nat),
    StI s → settlePage s page = some r → StI r.1 := by
  intro page
  induction page with
  | nil => intro s r hI h; simp [settlePage] at h; rw [← h]; exact hI
  | cons pb rest ih =>
    intro s r hI h
    unfold settlePage at h
    simp only [bind, Option.bind_eq_some_iff, pure, Option.some.injEq] at h
    obtain ⟨s1, h1, r1, hr, rfl⟩ := h
    exact ih _ r1 (settleBet_stI hI h1) hr

theorem bookResolved_stI {s s' : State} {u : Nat} (hI : StI s) (h : bookResolved s u = some s') : StI s' := by
  unfold bookResolved at h
  simp only [bind, Option.bind_eq_some_iff, pure, Option.some.injEq] at h
  obtain ⟨b, hb, _, _, rfl⟩ := h
  exact (hI.setBook _ ((hI.getBook hb).setStatus OB_RESOLVED)).of_fr ⟨rfl, rfl, rfl, rfl, rfl⟩

theorem betEndBlockStep_stI {s : State} {mk n : Nat} {r : State × Nat} (hI : StI s)
    (h : betEndBlockStep s mk n = some r) : StI r.1 := by
  unfold betEndBlockStep at h
  simp only [bind, Option.bind_eq_some_iff] at h
  obtain ⟨r0, h0, h⟩ := h
  have g0 := settlePage_stI _ _ _ hI h0
  split at h
  · simp only [pure, Option.some.injEq] at h; rw [← h]; exact g0
  · simp only [Option.bind_eq_some_iff, pure, Option.some.injEq] at h
    obtain ⟨q, _, s2, h2, rfl⟩ := h
    exact bookResolved_stI (g0.of_fr (s' := { r0.1 with mqueue := q }) ⟨rfl, rfl, rfl, rfl, rfl⟩) h2

theorem betEndBlock_stI : ∀ (fuel : Nat) (s : State) (n : Nat) (s' : State),
    StI s → betEndBlock fuel s n = some s' → StI s' := by
  intro fuel
  induction fuel with
  | zero => intro s n s' hI h; simp [betEndBlock] at h; rw [← h]; exact hI
  | succ fuel ih =>
    intro s n s' hI h
    unfold betEndBlock at h
    split at h
    · simp at h; rw [← h]; exact hI
    · split at h
      · simp at h; rw [← h]; exact hI
      · simp only [bind, Option.bind_eq_some_iff] at h
        obtain ⟨r, hr, h⟩ := h
        exact ih _ _ _ (betEndBlockStep_stI hI hr) h

-- ---------------------------------------------------------------------------------------------
-- x/orderbook: settlement of the participations

theorem settlePart_stI {n : Nat} {s : State} {b : Book} {p : Part} {m : Market} {r : State × Book} (hb : BkI n b)
    (hp : 1 ≤ p.idx ∧ p.idx ≤ b.partCount) (h : settlePart s b p m = some r) :
    Fr s r.1 ∧ BkI n r.2 ∧ r.2.partCount = b.partCount := by
  unfold settlePart at h
  simp only [bind, Option.bind_eq_some_iff] at h
  obtain ⟨_, _, _, _, s1, h1, h⟩ := h
  have e1 := bankSend_fr h1
  split at h
  · simp only [Option.bind_eq_some_iff, pure, Option.some.injEq] at h
    obtain ⟨s2, h2, rfl⟩ := h
    exact ⟨e1.trans (bankSend_fr h2), hb.setPart _ hp, rfl⟩
  · simp only [Option.bind_eq_some_iff, pure, Option.some.injEq] at h
    obtain ⟨s2, h2, rfl⟩ := h
    exact ⟨e1.trans (bankSend_fr h2), hb.setPart _ hp, rfl⟩

theorem settleParts_stI {n : Nat} (m : Market) (count : Nat) : ∀ (ps : List Part) (s : State) (b : Book) (sc pr : Nat)
    (r : State × Book × Nat × Nat), BkI n b → (∀ p ∈ ps, 1 ≤ p.idx ∧ p.idx ≤ b.partCount) →
    settleParts m count ps s b sc pr = some r → Fr s r.1 ∧ BkI n r.2.1 := by
  intro ps
  induction ps with
  | nil => intro s b sc pr r hb _ h; simp [settleParts] at h; rw [← h]; exact ⟨Fr.refl s, hb⟩
  | cons p rest ih =>
    intro s b sc pr r hb hps h
    unfold settleParts at h
    simp only [bind, Option.bind_eq_some_iff] at h
    obtain ⟨r1, h1, h⟩ := h
    have e1 : Fr s r1.1 ∧ BkI n r1.2.1 ∧ r1.2.1.partCount = b.partCount := by
      unfold settleOne at h1
      split at h1
      · simp only [Option.map_eq_some_iff] at h1
        obtain ⟨x, hx, rfl⟩ := h1
        exact settlePart_stI hb (hps p (List.mem_cons_self ..)) hx
      · cases h1; exact ⟨Fr.refl s, hb, rfl⟩
    split at h
    · simp only [pure, Option.some.injEq] at h; rw [← h]; exact ⟨e1.1, e1.2.1⟩
    · have g := ih _ _ _ _ _ e1.2.1 (fun q hq => by rw [e1.2.2]; exact hps q (List.mem_cons_of_mem _ hq)) h
      exact ⟨e1.1.trans g.1, g.2⟩

theorem obEndBlock_stI : ∀ (fuel : Nat) (s : State) (n i : Nat) (s' : State),
    StI s → obEndBlock fuel s n i = some s' → StI s' := by
  intro fuel
  induction fuel with
  | zero => intro s n i s' hI h; simp [obEndBlock] at h; rw [← h]; exact hI
  | succ fuel ih =>
    intro s n i s' hI h
    unfold obEndBlock at h
    split at h
    · simp at h; rw [← h]; exact hI
    · split at h
      · simp at h; rw [← h]; exact hI
      · simp only [bind, Option.bind_eq_some_iff] at h
        obtain ⟨b, hb, m, _, _, _, r, hr, h⟩ := h
        have hbk := hI.getBook hb
        have g := settleParts_stI m n b.parts s b 0 0 r hbk (fun p hp => hbk.pi p hp) hr
        have hI1 : StI r.1 := hI.of_fr g.1
        have hb1 : BkI r.1.betCount r.2.1 := by rw [g.1.2.2.2.2]; exact g.2
        split at h
        · simp only [Option.bind_eq_some_iff] at h
          obtain ⟨q, _, h⟩ := h
          refine ih _ _ _ _ ?_ h
          exact (hI1.of_fr (s' := { r.1 with obqueue := q }) ⟨rfl, rfl, rfl, rfl, rfl⟩).setBook _ (hb1.setStatus OB_SETTLED)
        · exact ih _ _ _ _ (hI1.setBook _ hb1) h

theorem endBlockO_stI {s s' : State} (hI : StI s) (h : endBlockO s = some s') : StI s' := by
  unfold endBlockO at h
  simp only [bind, Option.bind_eq_some_iff] at h
  obtain ⟨s1, h1, h2⟩ := h
  exact obEndBlock_stI _ _ _ _ _ (betEndBlock_stI _ _ _ _ hI h1) h2

-- ---------------------------------------------------------------------------------------------
-- every operation, every history

theorem StI.commit {s : State} {r : Option State} (hI : StI s) (h : ∀ s', r = some s' → StI s') : StI (commit s r).1 := by
  unfold Core.commit
  cases r with
  | none => exact hI
  | some s' => exact h s' rfl

theorem step_stI (s : State) (op : Op) (hI : StI s) : StI (step s op).1 := by
  cases op with
  | marketAdd c tk u st en o stt => exact hI.commit (fun _ h => marketAddO_stI hI h)
  | marketUpdate tk u st en stt => exact hI.commit (fun _ h => marketUpdateO_stI hI h)
  | marketResolve tk u ts stt w => exact hI.commit (fun _ h => marketResolveO_stI hI h)
  | deposit c tk m a pd =>
    simp only [step, houseDeposit]
    cases h : houseDepositO s c tk m a pd with
    | none => exact hI
    | some r => exact houseDepositO_stI hI h
  | withdraw c tk m i md a pd => exact hI.commit (fun _ h => houseWithdrawO_stI hI h)
  | wager c tk u a pl => exact hI.commit (fun _ h => wagerO_stI hI h)
  | grant g e k l x => exact hI.of_fr ⟨rfl, rfl, rfl, rfl, rfl⟩
  | revoke g e k => exact hI.of_fr ⟨rfl, rfl, rfl, rfl, rfl⟩
  | send a b x =>
    simp only [step]
    split
    · exact hI
    · exact hI.commit (fun _ h => hI.of_fr (bankSend_fr h))
  | setParams p =>
    simp only [step]
    split
    · exact hI.of_fr ⟨rfl, rfl, rfl, rfl, rfl⟩
    · exact hI
  | endBlock =>
    simp only [step, endBlock]
    cases h : endBlockO s with
    | none => exact hI
    | some s' => exact endBlockO_stI hI h
  | newBlock h t => exact hI.of_fr ⟨rfl, rfl, rfl, rfl, rfl⟩

theorem stI_init (p : Params) (bal : List (Nat × Int)) (h t : Nat) :
    StI { bal := bal, params := p, height := h, time := t } :=
  ⟨List.Pairwise.nil, List.Pairwise.nil, List.Pairwise.nil, fun w hw => (by cases hw), List.Pairwise.nil,
    fun b hb => (by cases hb)⟩

theorem run_stI (s : State) (ops : List Op) (hI : StI s) : StI (run s ops) := by
  induction ops generalizing s with
  | nil => exact hI
  | cons op rest ih => exact ih _ (step_stI s op hI)

theorem step_params_valid (s : State) (op : Op) (hv : s.params.valid = true) : (step s op).1.params.valid = true := by
  rcases step_params s op with he | ⟨p, _, hp, he⟩
  · rw [he]; exact hv
  · rw [he]; exact hp

theorem run_params_valid (s : State) (ops : List Op) (hv : s.params.valid = true) : (run s ops).params.valid = true := by
  induction ops generalizing s with
  | nil => exact hv
  | cons op rest ih => exact ih _ (step_params_valid s op hv)

end Sge.Core

-- ---------------------------------------------------------------------------------------------
-- the decidable invariants of Sge/Genesis.lean

namespace Sge.Genesis
open Sge Sge.Core

theorem marketInv_of {s : State} (h : StI s) : marketInv s = true := (sortedB_iff _ _).mpr h.sm

theorem houseInv_of {s : State} (h : StI s) : houseInv s = true := by
  unfold houseInv
  simp only [Bool.and_eq_true]
  refine ⟨⟨(sortedB_iff _ _).mpr h.sd, (sortedB_iff _ _).mpr h.sw⟩, ?_⟩
  rw [List.all_eq_true]
  intro w hw
  obtain ⟨d, hd, h1, h2, h3⟩ := h.wd w hw
  unfold withdrawalHasDeposit
  rw [List.any_eq_true]
  exact ⟨d, hd, by simp [depositOwner, h1, h2, h3]⟩

theorem obInv_of {s : State} (h : StI s) (hI : BetIdx s) : obInv s = true := by
  unfold obInv
  simp only [Bool.and_eq_true]
  refine ⟨⟨⟨(sortedB_iff _ _).mpr h.sb, ?_⟩, ?_⟩, ?_⟩
  · rw [List.all_eq_true]
    intro b hb
    exact bookInv_of (h.bk b hb)
  · rw [hasDup_false_of_pairwise (·.id) s.bets hI.ids_pairwise]
    rfl
  · rw [List.all_eq_true]
    intro b hb
    rw [List.all_eq_true]
    intro x hx
    have hr := (h.bk b hb).pr x hx
    obtain ⟨t, ht, hid⟩ := hI.idSurj x.2 hr.1 hr.2
    rw [List.any_eq_true]
    exact ⟨t, ht, by simp [hid]⟩

end Sge.Genesis
