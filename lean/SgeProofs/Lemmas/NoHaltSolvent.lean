/-
  C05 "block processing never aborts" under WEAK solvency (`nh_Sol`), part 1: settling one bet keeps well-formedness
  and weak solvency (the analogue of `settle_keeps` / `settleBet_keeps` / `replaceBook_keeps`).
-/
import SgeProofs.Lemmas.NoHaltSolventDefs
namespace Sge.Core
open Sge Sge.Genesis

-- ---------------------------------------------------------------------------------------------
-- signs

theorem nh_promisedW_nonneg {s : State} (hV : nh_Sol s) (u i : Nat) : 0 ≤ promisedW s u i := by
  unfold promisedW
  apply sumBy_nonnegSB
  intro x hx
  split
  · rename_i hw
    unfold winsOn at hw
    simp only [Bool.and_eq_true] at hw
    exact cProfit_nonneg _ _ (fun f hf => ((hV.betNonneg x hx hw.1.1).2 f hf).2)
  · exact Int.le_refl _

theorem nh_losesOn_open {s : State} {u : Nat} {x : Bet} (h : nh_losesOn s u x = true) :
    x.isOpen = true ∧ x.market = u ∧ nh_declared s u = true ∧ wonOutcome s u x.odds = false := by
  unfold nh_losesOn at h
  simp only [Bool.and_eq_true, beq_iff_eq, Bool.not_eq_true'] at h
  exact ⟨h.1.1.1, h.1.1.2, h.1.2, h.2⟩

theorem nh_winsOn_open {s : State} {u : Nat} {x : Bet} (h : winsOn s u x = true) :
    x.isOpen = true ∧ x.market = u ∧ wonOutcome s u x.odds = true := by
  unfold winsOn at h
  simp only [Bool.and_eq_true, beq_iff_eq] at h
  exact ⟨h.1.1, h.1.2, h.2⟩

theorem nh_openLoss_nonneg {s : State} (hV : nh_Sol s) (u i : Nat) : 0 ≤ nh_openLoss s u i := by
  unfold nh_openLoss
  apply sumBy_nonnegSB
  intro x hx
  split
  · rename_i hl
    exact cBet_nonneg _ _ (fun f hf => ((hV.betNonneg x hx (nh_losesOn_open hl).1).2 f hf).1)
  · exact Int.le_refl _

theorem nh_Sol.stake_nonneg {s : State} (hV : nh_Sol s) (x : Bet) (hx : x ∈ s.bets) : 0 ≤ x.owedStake ∧ 0 ≤ x.owedFee := by
  unfold Bet.owedStake Bet.owedFee
  cases ho : x.isOpen
  · simp
  · have := hV.betNonneg x hx ho
    simp only [if_true]
    exact ⟨sumBet_nonneg _ (fun f hf => (this.2 f hf).1), this.1⟩

theorem nh_Sol.fee_nonneg {s : State} (hV : nh_Sol s) (b : Book) (hb : b ∈ s.books) (p : Part) (hp : p ∈ b.parts) :
    0 ≤ p.owedFee := by
  unfold Part.owedFee
  cases hs : p.isSettled
  · simp only [Bool.false_eq_true, if_false]
    exact (hV.partCover b hb p hp hs).1
  · simp

theorem nh_declared_false_won {s : State} {u : Nat} (h : nh_declared s u = false) (o : Nat) : wonOutcome s u o = false := by
  unfold nh_declared at h
  unfold wonOutcome
  split
  · rename_i m hm
    rw [hm] at h
    simp only at h
    rw [h]; rfl
  · rfl

theorem nh_declared_congr {s s' : State} (h : s'.markets = s.markets) (u : Nat) : nh_declared s' u = nh_declared s u := by
  unfold nh_declared; rw [getMarket_congr h]

theorem nh_losesOn_congr {s s' : State} (h : s'.markets = s.markets) (u : Nat) (x : Bet) :
    nh_losesOn s' u x = nh_losesOn s u x := by
  unfold nh_losesOn; rw [wonOutcome_congr h, nh_declared_congr h]

-- ---------------------------------------------------------------------------------------------
-- settling one bet

/-- the analogue of `settle_keeps`: the bet `bet` is replaced by its settled copy `bet'`, markets stay, and either the
    books stay and the market of the bet is not declared (refund), or the book `bk` of the bet's market is replaced by
    `B`, in which no participation disappears and the realised profit of every participation moved by exactly what
    the bet's parts booked on it: minus the promised profit if the bet wins, plus the stake if it loses -/
theorem nh_settle_keeps {s s' : State} {bet bet' : Bet} (hS : SettleInv s) (hH : HInv s) (hV : nh_Sol s)
    (hlk : lookup Bet.key (Bet.key bet') s.bets = some bet) (hopen : bet.isOpen = true) (hst' : bet'.status = BS_SETTLED)
    (hbets : s'.bets = upsert Bet.key bet' s.bets) (hmk : s'.markets = s.markets)
    (hbooks : (s'.books = s.books ∧ nh_declared s bet.market = false) ∨
      ∃ bk B, getBook s B.uid = some bk ∧ B.uid = bet.market ∧ s'.books = upsert Book.key B s.books ∧ KeepsParts bk B ∧
      (∀ p' ∈ B.parts, ∃ p ∈ bk.parts, ∃ d, PartMoved p p' d ∧
        0 ≤ d + (if winsOn s bk.uid bet then cProfit bet.fulfs p.idx else 0)
              - (if nh_losesOn s bk.uid bet then cBet bet.fulfs p.idx else 0))) : HInv s' ∧ nh_Sol s' := by
  have hclosed : bet'.isOpen = false := by unfold Bet.isOpen; rw [hst']; rfl
  have hbm : bet ∈ s.bets := (lookup_mem hlk).1
  have hmem : ∀ y ∈ s'.bets, y = bet' ∨ y ∈ s.bets := by
    intro y hy; rw [hbets] at hy; exact mem_upsert_or Bet.key bet' y s.bets hy
  have hprom : ∀ u i, promisedW s' u i = promisedW s u i - (if winsOn s u bet then cProfit bet.fulfs i else 0) := by
    intro u i
    unfold promisedW
    rw [hbets, sumBy_upsert Bet.key _ bet' s.bets hS.sortedBets, hlk]
    simp only [winsOn_congr hmk]
    have : winsOn s u bet' = false := by unfold winsOn; rw [hclosed]; rfl
    simp only [this, Bool.false_eq_true, if_false]
    omega
  have hloss : ∀ u i, nh_openLoss s' u i = nh_openLoss s u i - (if nh_losesOn s u bet then cBet bet.fulfs i else 0) := by
    intro u i
    unfold nh_openLoss
    rw [hbets, sumBy_upsert Bet.key _ bet' s.bets hS.sortedBets, hlk]
    simp only [nh_losesOn_congr hmk]
    have : nh_losesOn s u bet' = false := by unfold nh_losesOn; rw [hclosed]; rfl
    simp only [this, Bool.false_eq_true, if_false]
    omega
  -- a book of another market is not concerned
  have hother : ∀ u, u ≠ bet.market → winsOn s u bet = false ∧ nh_losesOn s u bet = false := by
    intro u hu
    have : (bet.market == u) = false := by simpa using fun e => hu e.symm
    unfold winsOn nh_losesOn
    rw [this]; simp
  -- the books
  have hbk : ∀ b' ∈ s'.books, ∃ b0 ∈ s.books, b'.uid = b0.uid ∧ ∀ p' ∈ b'.parts, ∃ p ∈ b0.parts, ∃ d, PartMoved p p' d ∧
      0 ≤ d + (if winsOn s b0.uid bet then cProfit bet.fulfs p.idx else 0)
            - (if nh_losesOn s b0.uid bet then cBet bet.fulfs p.idx else 0) := by
    intro b' hb'
    have hsame : b' ∈ s.books → (winsOn s b'.uid bet = false ∧ nh_losesOn s b'.uid bet = false) →
        ∃ b0 ∈ s.books, b'.uid = b0.uid ∧ ∀ p' ∈ b'.parts, ∃ p ∈ b0.parts, ∃ d, PartMoved p p' d ∧
        0 ≤ d + (if winsOn s b0.uid bet then cProfit bet.fulfs p.idx else 0)
              - (if nh_losesOn s b0.uid bet then cBet bet.fulfs p.idx else 0) := by
      intro hin hz
      refine ⟨b', hin, rfl, fun p hp => ⟨p, hp, 0, ⟨rfl, rfl, rfl, rfl, by omega⟩, ?_⟩⟩
      rw [hz.1, hz.2]
      simp
    rcases hbooks with ⟨e, hnd⟩ | ⟨bk, B, hg, hBu, e, _, hparts⟩
    · rw [e] at hb'
      apply hsame hb'
      by_cases hu : b'.uid = bet.market
      · have hw := nh_declared_false_won hnd
        unfold winsOn nh_losesOn
        rw [hu, hw, hnd]; simp
      · exact hother _ hu
    · rw [e] at hb'
      rcases (mem_upsert_iff Book.key B b' s.books hS.sortedBooks).mp hb' with rfl | ⟨hin, hk⟩
      · obtain ⟨hbkm, hbku⟩ := getBook_mem hg
        exact ⟨bk, hbkm, hbku.symm, hparts⟩
      · apply hsame hin
        apply hother
        intro e'
        rw [← hBu] at e'
        simp [Book.key, e'] at hk
  have hgb : ∀ u b0, getBook s u = some b0 → ∃ b', getBook s' u = some b' ∧ KeepsParts b0 b' := by
    intro u b0 h0
    rcases hbooks with ⟨e, _⟩ | ⟨bk, B, hg, _, e, hk, _⟩
    · exact ⟨b0, by rw [getBook_congr e]; exact h0, KeepsParts.refl b0⟩
    · by_cases hu : B.uid = u
      · subst hu
        rw [hg] at h0; cases h0
        refine ⟨B, ?_, hk⟩
        unfold getBook; rw [e]
        exact lookup_upsert_self Book.key B s.books
      · refine ⟨b0, ?_, KeepsParts.refl b0⟩
        unfold getBook; rw [e]
        rw [lookup_upsert_ne Book.key B [u] s.books (by simp [Book.key, hu])]
        exact h0
  refine ⟨⟨?_, by rw [hmk]; exact hH.marketStatus, ?_⟩, ⟨?_, ?_⟩⟩
  · intro y hy
    rcases hmem y hy with rfl | hy
    · exact Or.inr hst'
    · exact hH.betStatus y hy
  · intro y hy hyo f hf
    rcases hmem y hy with rfl | hy
    · rw [hclosed] at hyo; cases hyo
    · obtain ⟨b0, p, h1, h2⟩ := hH.fulfParts y hy hyo f hf
      obtain ⟨b', h3, hk⟩ := hgb _ _ h1
      have := hk f.idx (by rw [h2]; rfl)
      obtain ⟨p', hp'⟩ := Option.isSome_iff_exists.mp this
      exact ⟨b', p', h3, hp'⟩
  · intro y hy hyo
    rcases hmem y hy with rfl | hy
    · rw [hclosed] at hyo; cases hyo
    · exact hV.betNonneg y hy hyo
  · intro b' hb' p' hp' hun
    obtain ⟨b0, hb0, hu, hparts⟩ := hbk b' hb'
    obtain ⟨p, hp, d, ⟨m1, m2, m3, m4, m5⟩, hd⟩ := hparts p' hp'
    have hun0 : p.isSettled = false := by rw [← m4]; exact hun
    obtain ⟨c1, c2⟩ := hV.partCover b0 hb0 p hp hun0
    rw [hu, m1, hprom, hloss, m2, m3, m5]
    exact ⟨c1, by omega⟩

/-- a successful `Settle` keeps well-formedness and weak solvency -/
theorem nh_settleBet_keeps {s s' : State} {c u : Nat} (hS : SettleInv s) (hH : HInv s) (hV : nh_Sol s)
    (h : settleBet s c u = some s') : HInv s' ∧ nh_Sol s' := by
  unfold settleBet at h
  simp only [bind, Option.bind_eq_some_iff] at h
  obtain ⟨bet0, _, bet, hb, _, hst, m, hm, h⟩ := h
  have hst := chk_some hst
  obtain ⟨hbm, hkey⟩ := lookup_mem hb
  have hns : bet.status ≠ BS_SETTLED := by
    intro e; simp [e] at hst
  have hopen : bet.isOpen = true := by
    unfold Bet.isOpen
    simpa using hns
  have hlk : ∀ (R H : Nat), lookup Bet.key (Bet.key { bet with status := BS_SETTLED, result := R, settleHeight := H }) s.bets = some bet := by
    intro R H
    show lookup Bet.key (Bet.key bet) s.bets = some bet
    rw [hkey]; exact hb
  split at h
  · -- refund
    rename_i hrf
    have hnd : nh_declared s bet.market = false := by
      unfold nh_declared; rw [hm]
      simp only [Bool.or_eq_true, beq_iff_eq] at hrf
      show (m.status == MS_DECLARED) = false
      rcases hrf with e | e <;> rw [e] <;> rfl
    unfold settleRefund at h
    simp only [bind, Option.bind_eq_some_iff, pure, Option.some.injEq] at h
    obtain ⟨s1, h1, s2, h2, rfl⟩ := h
    obtain ⟨_, _, rfl⟩ := bankSend_shape h1
    obtain ⟨_, _, rfl⟩ := bankSend_shape h2
    exact nh_settle_keeps hS hH hV (hlk BR_REFUNDED s.height) hopen rfl rfl rfl (Or.inl ⟨rfl, hnd⟩)
  · -- declared result
    simp only [Option.bind_eq_some_iff] at h
    obtain ⟨_, hd, h⟩ := h
    have hd : m.status = MS_DECLARED := by simpa using chk_some hd
    unfold settleDeclared at h
    simp only [bind, Option.bind_eq_some_iff, pure, Option.some.injEq] at h
    obtain ⟨bk, hbk, r, hr, s2, h2, rfl⟩ := h
    obtain ⟨_, _, rfl⟩ := bankSend_shape h2
    obtain ⟨hbkm, hbku⟩ := getBook_mem hbk
    have hsb := hS.sortedParts bk hbkm
    have hbooks : ∃ bk0 B, getBook s B.uid = some bk0 ∧ B.uid = bet.market ∧
        (setBook { s with bal := r.1 } r.2).books = upsert Book.key B s.books ∧
        KeepsParts bk0 B ∧ (∀ p' ∈ B.parts, ∃ p ∈ bk0.parts, ∃ d, PartMoved p p' d ∧
          0 ≤ d + (if winsOn s bk0.uid bet then cProfit bet.fulfs p.idx else 0)
                - (if nh_losesOn s bk0.uid bet then cBet bet.fulfs p.idx else 0)) := by
      unfold settleOutcome at hr
      split at hr
      · rename_i hwon
        obtain ⟨a1, _, _, _⟩ := bettorWins_same _ _ _ _ _ hr hsb
        obtain ⟨b1, b2⟩ := bettorWins_parts _ _ _ _ _ hr hsb
        refine ⟨bk, r.2, by rw [a1, hbku]; exact hbk, by rw [a1, hbku], rfl, b2, ?_⟩
        intro p' hp'
        obtain ⟨p, hp, hm'⟩ := b1 p' hp'
        refine ⟨p, hp, _, hm', ?_⟩
        have hw : winsOn s bk.uid bet = true := by
          unfold winsOn wonOutcome
          rw [hopen, hbku, hm]
          simp only [hd, hwon]
          simp
        have hl : nh_losesOn s bk.uid bet = false := by
          unfold nh_losesOn wonOutcome
          rw [hbku, hm]
          simp only [hd, hwon]
          simp
        rw [if_pos hw, hl]
        simp only [Bool.false_eq_true, if_false]
        omega
      · rename_i hwon
        simp only [Option.map_eq_some_iff] at hr
        obtain ⟨b', hb', rfl⟩ := hr
        obtain ⟨a1, _, _, _⟩ := bettorLoses_same _ _ _ hb' hsb
        obtain ⟨b1, b2⟩ := bettorLoses_parts _ _ _ hb' hsb
        refine ⟨bk, b', by rw [a1, hbku]; exact hbk, by rw [a1, hbku], rfl, b2, ?_⟩
        intro p' hp'
        obtain ⟨p, hp, hm'⟩ := b1 p' hp'
        refine ⟨p, hp, _, hm', ?_⟩
        have hwf : m.winners.contains bet.odds = false := by simpa using hwon
        have hw : winsOn s bk.uid bet = false := by
          unfold winsOn wonOutcome
          rw [hbku, hm]
          simp only [hwf]
          simp
        have hl : nh_losesOn s bk.uid bet = true := by
          unfold nh_losesOn wonOutcome nh_declared
          rw [hopen, hbku, hm]
          simp only [hd, hwf]
          simp
        rw [hw, if_pos hl]
        simp only [Bool.false_eq_true, if_false]
        omega
    exact nh_settle_keeps hS hH hV (hlk _ s.height) hopen rfl rfl rfl (Or.inr hbooks)

/-- the analogue of `replaceBook_keeps` -/
theorem nh_replaceBook_keeps {s s' : State} {b B : Book} (hH : HInv s) (hV : nh_Sol s) (hb : getBook s B.uid = some b)
    (hbooks : s'.books = upsert Book.key B s.books) (hbets : s'.bets = s.bets) (hmk : s'.markets = s.markets)
    (hk : KeepsParts b B) (hparts : ∀ p' ∈ B.parts, p' ∈ b.parts ∨ p'.isSettled = true) : HInv s' ∧ nh_Sol s' := by
  obtain ⟨hbm, hbu⟩ := getBook_mem hb
  have hprom : ∀ u i, promisedW s' u i = promisedW s u i := by
    intro u i
    unfold promisedW
    rw [hbets]
    exact sumBy_congrSB _ _ _ (fun x _ => by rw [winsOn_congr hmk])
  have hloss : ∀ u i, nh_openLoss s' u i = nh_openLoss s u i := by
    intro u i
    unfold nh_openLoss
    rw [hbets]
    exact sumBy_congrSB _ _ _ (fun x _ => by rw [nh_losesOn_congr hmk])
  refine ⟨⟨by rw [hbets]; exact hH.betStatus, by rw [hmk]; exact hH.marketStatus, ?_⟩, ⟨by rw [hbets]; exact hV.betNonneg, ?_⟩⟩
  · intro y hy ho f hf
    rw [hbets] at hy
    obtain ⟨b0, p, h1, h2⟩ := hH.fulfParts y hy ho f hf
    by_cases hu : B.uid = y.market
    · rw [← hu, hb] at h1; cases h1
      have := hk f.idx (by rw [h2]; rfl)
      obtain ⟨p', hp'⟩ := Option.isSome_iff_exists.mp this
      refine ⟨B, p', ?_, hp'⟩
      unfold getBook; rw [hbooks, ← hu]
      exact lookup_upsert_self Book.key B s.books
    · refine ⟨b0, p, ?_, h2⟩
      unfold getBook; rw [hbooks]
      rw [lookup_upsert_ne Book.key B [y.market] s.books (by simp [Book.key, hu])]
      exact h1
  · intro b' hb' p' hp' hun
    rw [hbooks] at hb'
    rw [hprom, hloss]
    rcases mem_upsert_or Book.key B b' s.books hb' with rfl | hin
    · rcases hparts p' hp' with h | h
      · have := hV.partCover b hbm p' h hun
        rw [hbu] at this
        exact this
      · rw [h] at hun; cases hun
    · exact hV.partCover b' hin p' hp' hun

end Sge.Core
