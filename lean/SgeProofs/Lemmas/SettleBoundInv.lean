/-
  C05 bounded progress, part 4: what the messages (everything but the end-block) can do to the settlement work, and
  the queue invariant `SbQInv` of every reachable state.
-/
import SgeProofs.Lemmas.SettleBoundOb
namespace Sge.Core
open Sge Sge.Genesis

-- ---------------------------------------------------------------------------------------------
-- what a message may change

/-- Messages never touch the order-book queue; the market queue only grows, at its end, by a market that was open;
    the status of an existing book stays; a market that is (newly) open after the message was open or did not exist
    before — and then got a fresh ACTIVE book; and a RESOLVED MARKET IS FROZEN as far as settlement work is
    concerned: it gains neither pending bets nor unpaid participations. -/
structure MsgFrame (s s' : State) : Prop where
  obq : s'.obqueue = s.obqueue
  mq : s'.mqueue = s.mqueue ∨ ∃ u m, s'.mqueue = s.mqueue ++ [u] ∧ getMarket s u = some m ∧ isOpenStatus m.status = true
  status : ∀ u, statusOf s u ≠ none → statusOf s' u = statusOf s u
  opens : ∀ u m', getMarket s' u = some m' → isOpenStatus m'.status = true →
    (∃ m, getMarket s u = some m ∧ isOpenStatus m.status = true) ∨ statusOf s' u = some OB_ACTIVE
  unpaid : ∀ u m, getMarket s u = some m → m.resolved → unpaidOf s' u = unpaidOf s u
  pend : ∀ u m, getMarket s u = some m → m.resolved → pendCount s' u = pendCount s u

theorem MsgFrame.refl (s : State) : MsgFrame s s :=
  ⟨rfl, Or.inl rfl, fun _ _ => rfl, fun u m' h1 h2 => Or.inl ⟨m', h1, h2⟩, fun _ _ _ _ => rfl, fun _ _ _ _ => rfl⟩

/-- nothing the settlement looks at changed -/
theorem MsgFrame.of_eq {s s' : State} (h1 : s'.obqueue = s.obqueue) (h2 : s'.mqueue = s.mqueue) (h3 : s'.books = s.books)
    (h4 : s'.markets = s.markets) (h5 : s'.pending = s.pending) : MsgFrame s s' := by
  have hb := SameBooks.of_eq h3
  refine ⟨h1, Or.inl h2, fun u _ => (hb u).1, ?_, fun u _ _ _ => (hb u).2, ?_⟩
  · intro u m' hm' ho
    rw [getMarket_congr h4] at hm'
    exact Or.inl ⟨m', hm', ho⟩
  · intro u _ _ _
    unfold pendCount
    rw [h5]

theorem statusOf_congr {s s' : State} (h : s'.books = s.books) (u : Nat) : statusOf s' u = statusOf s u := by
  unfold statusOf; rw [getBook_congr h]
theorem unpaidOf_congr {s s' : State} (h : s'.books = s.books) (u : Nat) : unpaidOf s' u = unpaidOf s u := by
  unfold unpaidOf; rw [getBook_congr h]

theorem open_not_resolved {m : Market} (h : isOpenStatus m.status = true) (hr : m.resolved) : False := by
  unfold Market.resolved at hr
  rw [h] at hr
  cases hr

/-- writing an entry of another market into the pending index does not change the pending count of market `v` -/
theorem filter_upsert_other (v : Nat) (x : Nat × Nat × Nat × Nat) (hx : x.1 ≠ v) : ∀ (l : List (Nat × Nat × Nat × Nat)),
    (upsert ikey x l).filter (fun y => y.1 == v) = l.filter (fun y => y.1 == v) := by
  have hxv : (x.1 == v) = false := by simpa using hx
  intro l
  induction l with
  | nil => simp [upsert, hxv]
  | cons y ys ih =>
    unfold upsert
    split
    · rename_i hk
      have e : ikey y = ikey x := by simpa using hk
      have e1 : y.1 = x.1 := by
        have := congrArg List.head? e
        simpa [ikey] using this
      rw [List.filter_cons, List.filter_cons, hxv, e1, hxv]
      rfl
    · split
      · rw [List.filter_cons, hxv]
        rfl
      · rw [List.filter_cons, List.filter_cons, ih]

-- the single messages ---------------------------------------------------------------------------

theorem marketAddO_frame {s s' : State} {c : Nat} {tk : Tk} {u st en : Nat} {o : List Nat} {stt : Nat}
    (h : marketAddO s c tk u st en o stt = some s') : MsgFrame s s' := by
  unfold marketAddO at h
  simp only [bind, Option.bind_eq_some_iff, pure, Option.some.injEq] at h
  obtain ⟨_, _, _, _, _, _, _, _, _, _, _, hmn, _, hbn, rfl⟩ := h
  have hmn : getMarket s u = none := by simpa using chk_some hmn
  have hbn : getBook s u = none := by simpa using chk_some hbn
  have hst : ∀ v, statusOf (setMarket (setBook s (newBook u o)) { uid := u, creator := c, startTS := st, endTS := en, odds := o, status := stt }) v =
      if v = u then some OB_ACTIVE else statusOf s v := by
    intro v
    have := statusOf_setBook s (newBook u o) v
    exact this
  have hun : ∀ v, unpaidOf (setMarket (setBook s (newBook u o)) { uid := u, creator := c, startTS := st, endTS := en, odds := o, status := stt }) v =
      unpaidOf s v := by
    intro v
    have := unpaidOf_setBook s (newBook u o) v
    refine Eq.trans this ?_
    show (if v = u then (newBook u o).unpaid else unpaidOf s v) = _
    by_cases e : v = u
    · subst e
      simp only [if_true]
      unfold unpaidOf
      rw [hbn]
      rfl
    · simp [e]
  refine ⟨rfl, Or.inl rfl, ?_, ?_, fun v _ _ _ => hun v, fun _ _ _ _ => rfl⟩
  · intro v hv
    rw [hst]
    have : v ≠ u := by
      intro e; subst e
      apply hv
      unfold statusOf; rw [hbn]; rfl
    simp [this]
  · intro v m' hm' ho
    by_cases e : v = u
    · subst e
      right
      rw [hst]; simp
    · left
      have := getMarket_setMarket_ne (setBook s (newBook u o)) { uid := u, creator := c, startTS := st, endTS := en, odds := o, status := stt } v (Ne.symm e)
      rw [this] at hm'
      exact ⟨m', hm', ho⟩

theorem marketUpdateO_frame {s s' : State} {tk : Tk} {u st en stt : Nat}
    (h : marketUpdateO s tk u st en stt = some s') : MsgFrame s s' := by
  unfold marketUpdateO at h
  simp only [bind, Option.bind_eq_some_iff, pure, Option.some.injEq] at h
  obtain ⟨_, _, m0, hm0, _, ho0, _, _, _, _, rfl⟩ := h
  have ho0 : isOpenStatus m0.status = true := chk_some ho0
  have hu := getMarket_uid hm0
  refine ⟨rfl, Or.inl rfl, fun _ _ => rfl, ?_, fun _ _ _ _ => rfl, fun _ _ _ _ => rfl⟩
  intro v m' hm' ho
  left
  by_cases e : v = u
  · subst e
    exact ⟨m0, hm0, ho0⟩
  · have := getMarket_setMarket_ne s { m0 with startTS := st, endTS := en, status := stt } v (by show m0.uid ≠ v; rw [hu]; exact Ne.symm e)
    rw [this] at hm'
    exact ⟨m', hm', ho⟩

theorem marketResolveO_frame {s s' : State} {tk : Tk} {u ts stt : Nat} {w : List Nat}
    (h : marketResolveO s tk u ts stt w = some s') : MsgFrame s s' := by
  obtain ⟨_, _, _, hrs, _, hnew⟩ := c07_resolve h
  unfold marketResolveO at h
  simp only [bind, Option.bind_eq_some_iff, pure, Option.some.injEq] at h
  obtain ⟨_, _, _, _, m0, hm0, _, ho0, _, _, rfl⟩ := h
  have ho0 : isOpenStatus m0.status = true := chk_some ho0
  have hu := getMarket_uid hm0
  refine ⟨rfl, Or.inr ⟨u, m0, rfl, hm0, ho0⟩, fun _ _ => rfl, ?_, fun _ _ _ _ => rfl, fun _ _ _ _ => rfl⟩
  intro v m' hm' ho
  left
  by_cases e : v = u
  · subst e
    rw [hnew] at hm'
    cases hm'
    exfalso
    have := isResolved_not_open hrs
    rw [this] at ho
    cases ho
  · have := getMarket_setMarket_ne { s with mqueue := s.mqueue ++ [u] }
      { m0 with resolutionTS := ts, status := stt, winners := if stt == MS_DECLARED then w else m0.winners } v
      (by show m0.uid ≠ v; rw [hu]; exact Ne.symm e)
    rw [this] at hm'
    exact ⟨m', hm', ho⟩

theorem houseDepositO_frame {s : State} {r : State × Nat} {c : Nat} {tk : Tk} {mk : Nat} {a : Int} {pd : Nat}
    (h : houseDepositO s c tk mk a pd = some r) : MsgFrame s r.1 := by
  unfold houseDepositO at h
  simp only [bind, Option.bind_eq_some_iff, pure, Option.some.injEq] at h
  obtain ⟨_, _, _, _, _, _, s1, hs1, _, _, m, hm, b, hb, _, hms, _, _, _, _, _, _, s2, hs2, s3, hs3, rfl⟩ := h
  obtain ⟨gs, rfl⟩ := grantStep_shape hs1
  obtain ⟨_, _, rfl⟩ := bankSend_shape hs2
  obtain ⟨_, _, rfl⟩ := bankSend_shape hs3
  have hb : getBook s mk = some b := hb
  have hm : getMarket s mk = some m := hm
  have hms : m.status = MS_ACTIVE := by simpa using chk_some hms
  obtain ⟨_, hbu⟩ := getBook_mem hb
  obtain ⟨e1, e2, _⟩ := addParticipation_shape b (depositFor c pd) (a - (s.params.houseFee.mulInt a).roundInt)
    (s.params.houseFee.mulInt a).roundInt
  generalize (b.addParticipation (depositFor c pd) (a - (s.params.houseFee.mulInt a).roundInt)
    (s.params.houseFee.mulInt a).roundInt).1 = B at e1 e2
  refine ⟨rfl, Or.inl rfl, ?_, ?_, ?_, fun _ _ _ _ => rfl⟩
  · intro v _
    refine Eq.trans (statusOf_setBook _ B v) ?_
    rw [e1, hbu]
    by_cases e : v = mk
    · subst e
      simp only [if_true]
      unfold statusOf
      rw [getBook_congr (s := s) rfl, hb, e2]
      rfl
    · simp only [e, if_false]
      exact statusOf_congr rfl v
  · intro v m' hm' ho
    exact Or.inl ⟨m', hm', ho⟩
  · intro v m0 hm0 hr
    refine Eq.trans (unpaidOf_setBook _ B v) ?_
    rw [e1, hbu]
    have : v ≠ mk := by
      intro e; subst e
      rw [hm] at hm0; cases hm0
      exact active_not_resolved hms hr
    simp only [this, if_false]
    exact unpaidOf_congr rfl v

theorem houseWithdrawO_frame {s s' : State} {c : Nat} {tk : Tk} {mk i md : Nat} {a : Int} {pd : Nat}
    (hsp : ∀ b ∈ s.books, Sorted Part.key b.parts) (h : houseWithdrawO s c tk mk i md a pd = some s') : MsgFrame s s' := by
  unfold houseWithdrawO at h
  simp only [bind, Option.bind_eq_some_iff, pure, Option.some.injEq] at h
  obtain ⟨_, _, _, _, _, _, _, _, _, _, d, _, b, hb, _, _, w, hw, s1, hs1, p, hpp, s2, hs2, b', hb', rfl⟩ := h
  obtain ⟨gs, rfl⟩ := grantStep_shape hs1
  obtain ⟨_, _, rfl⟩ := bankSend_shape hs2
  obtain ⟨hbm, hbu⟩ := getBook_mem hb
  obtain ⟨e1, e2, e3⟩ := withdraw_shape hpp hb'
  have hpi := Book.getPart_idx hpp
  have hun : b'.unpaid = b.unpaid := by
    have := setPart_unpaid b p { p with crl := p.crl - w, liq := p.liq - w } (hsp b hbm) (by rw [hpi]; exact hpp) rfl
    unfold Book.unpaid at this ⊢
    rw [e3]
    exact this
  refine ⟨rfl, Or.inl rfl, ?_, ?_, ?_, fun _ _ _ _ => rfl⟩
  · intro v _
    refine Eq.trans (statusOf_setBook _ b' v) ?_
    rw [e1, hbu]
    by_cases e : v = mk
    · subst e
      simp only [if_true]
      unfold statusOf
      rw [getBook_congr (s := s) rfl, hb, e2]
      rfl
    · simp only [e, if_false]
      exact statusOf_congr rfl v
  · intro v m' hm' ho
    exact Or.inl ⟨m', hm', ho⟩
  · intro v _ _ _
    refine Eq.trans (unpaidOf_setBook _ b' v) ?_
    rw [e1, hbu]
    by_cases e : v = mk
    · subst e
      simp only [if_true]
      unfold unpaidOf
      rw [getBook_congr (s := s) rfl, hb, hun]
    · simp only [e, if_false]
      exact unpaidOf_congr rfl v

theorem wagerO_frame {s s' : State} {c : Nat} {tk : Tk} {u : Nat} {a : Int} {pl : WagerPayload}
    (h : wagerO s c tk u a pl = some s') : MsgFrame s s' := by
  unfold wagerO at h
  simp only [bind, Option.bind_eq_some_iff, pure, Option.some.injEq] at h
  obtain ⟨_, _, _, _, _, _, _, _, _, _, _, _, _, _, m, hm, _, hact, _, _, _, _, _, _, _, _, _, _, ov, _, _, _, b, hb, r, hr,
    s1, hs1, s2, hs2, rfl⟩ := h
  obtain ⟨b', fulfs, taken⟩ := r
  obtain ⟨_, _, rfl⟩ := bankSend_shape hs1
  obtain ⟨_, _, rfl⟩ := bankSend_shape hs2
  have hact : m.status = MS_ACTIVE := by simpa using chk_some hact
  obtain ⟨_, hbu⟩ := getBook_mem hb
  have hst := processWager_status _ _ _ _ _ _ _ _ _ _ _ _ _ hr
  have hu' := processWager_uid _ _ _ _ _ _ _ _ _ _ _ _ _ hr
  have hne : ∀ v m0, getMarket s v = some m0 → m0.resolved → v ≠ pl.market := by
    intro v m0 hm0 hres e
    subst e
    rw [hm] at hm0; cases hm0
    exact active_not_resolved hact hres
  refine ⟨rfl, Or.inl rfl, ?_, ?_, ?_, ?_⟩
  · intro v _
    refine Eq.trans (statusOf_setBook _ b' v) ?_
    rw [hu', hbu]
    by_cases e : v = pl.market
    · subst e
      simp only [if_true]
      unfold statusOf
      rw [getBook_congr (s := s) rfl, hb, hst]
      rfl
    · simp only [e, if_false]
      exact statusOf_congr rfl v
  · intro v m' hm' ho
    exact Or.inl ⟨m', hm', ho⟩
  · intro v m0 hm0 hres
    refine Eq.trans (unpaidOf_setBook _ b' v) ?_
    rw [hu', hbu]
    simp only [hne v m0 hm0 hres, if_false]
    exact unpaidOf_congr rfl v
  · intro v m0 hm0 hres
    unfold pendCount
    show ((upsert ikey (pl.market, s.betCount + 1, u, c) s.pending).filter _).length = _
    rw [filter_upsert_other v _ (fun e => hne v m0 hm0 hres e.symm)]

/-- every message: see `MsgFrame` -/
theorem step_msgFrame (s : State) (op : Op) (hsp : ∀ b ∈ s.books, Sorted Part.key b.parts) (hne : op ≠ .endBlock) :
    MsgFrame s (step s op).1 := by
  cases op with
  | marketAdd c tk u st en o stt =>
    simp only [step, marketAdd, commit]
    cases h : marketAddO s c tk u st en o stt with
    | none => exact MsgFrame.refl s
    | some s' => exact marketAddO_frame h
  | marketUpdate tk u st en stt =>
    simp only [step, marketUpdate, commit]
    cases h : marketUpdateO s tk u st en stt with
    | none => exact MsgFrame.refl s
    | some s' => exact marketUpdateO_frame h
  | marketResolve tk u ts stt w =>
    simp only [step, marketResolve, commit]
    cases h : marketResolveO s tk u ts stt w with
    | none => exact MsgFrame.refl s
    | some s' => exact marketResolveO_frame h
  | deposit c tk m a pd =>
    simp only [step, houseDeposit]
    cases h : houseDepositO s c tk m a pd with
    | none => exact MsgFrame.refl s
    | some r => exact houseDepositO_frame h
  | withdraw c tk m i md a pd =>
    simp only [step, houseWithdraw, commit]
    cases h : houseWithdrawO s c tk m i md a pd with
    | none => exact MsgFrame.refl s
    | some s' => exact houseWithdrawO_frame hsp h
  | wager c tk u a pl =>
    simp only [step, wager, commit]
    cases h : wagerO s c tk u a pl with
    | none => exact MsgFrame.refl s
    | some s' => exact wagerO_frame h
  | grant g e k l x => exact MsgFrame.of_eq rfl rfl rfl rfl rfl
  | revoke g e k => exact MsgFrame.of_eq rfl rfl rfl rfl rfl
  | send a b x =>
    simp only [step]
    split
    · exact MsgFrame.refl s
    · unfold commit
      cases h : bankSend s a b x with
      | none => exact MsgFrame.refl s
      | some s' =>
        obtain ⟨_, _, rfl⟩ := bankSend_shape h
        exact MsgFrame.of_eq rfl rfl rfl rfl rfl
  | setParams p =>
    simp only [step]
    split
    · exact MsgFrame.of_eq rfl rfl rfl rfl rfl
    · exact MsgFrame.refl s
  | endBlock => exact absurd rfl hne
  | newBlock h t => exact MsgFrame.of_eq rfl rfl rfl rfl rfl

end Sge.Core
