/-
  Helper lemmas for C06: characterisation of the stages of `Sge.Ticket.verifyKeys`.
-/
import Sge.Ticket
namespace Sge.Ticket
open Sge.Ovm (Pem Key decode)

variable {α : Type}

theorem wellFormed_iff (t : Presented α) :
    t.wellFormed = true ↔ 3 ≤ t.parts ∧ t.claimsOk = true ∧ ∃ e, t.exp = some e := by
  unfold Presented.wellFormed
  cases h : t.exp <;> simp

theorem unexpired_iff (t : Presented α) (now : Int) : t.unexpired now = true ↔ Unexpired t now := by
  unfold Presented.unexpired Unexpired
  cases h : t.exp <;> simp

theorem verifies_iff (t : Presented α) (p : Pem) :
    t.verifies p = true ↔
      t.headerOk = true ∧ t.alg = .EdDSA ∧ t.sigB64 = true ∧ ∃ k, decode p = some k ∧ t.sigKey = some k := by
  unfold Presented.verifies
  cases hd : decode p <;> cases hs : t.sigKey <;> simp [and_assoc]
  intro _ _ _; exact eq_comm

/-- the success condition of `verifyTicketWithKeyUnmarshal`, stage by stage -/
theorem verifyKeys_eq_some (vault : List Pem) (now : Int) (t : Presented α) (keys : List Pem) (a : α) :
    verifyKeys vault now t keys = some a ↔
      t.wellFormed = true ∧ t.unexpired now = true ∧ (∀ k ∈ keys, k ∈ vault) ∧ t.payload = some a ∧
      ((keys = [] ∧ ∃ l rest, vault = l :: rest ∧ t.verifies l = true) ∨
       (keys ≠ [] ∧ ∃ k ∈ keys, t.verifies k = true)) := by
  unfold verifyKeys
  by_cases hw : t.wellFormed = true
  · by_cases hu : t.unexpired now = true
    · by_cases hr : (keys.all (fun k => vault.contains k)) = true
      · have hr' : ∀ k ∈ keys, k ∈ vault := by simpa using hr
        simp only [hw, hu, hr, Bool.not_true, Bool.false_eq_true, if_false]
        cases keys with
        | nil =>
          cases vault with
          | nil => simp
          | cons l rest =>
            by_cases hv : t.verifies l = true
            · simp [hv]
            · simp [hv]
        | cons k ks =>
          by_cases hv : ((k :: ks).any (fun k => t.verifies k)) = true
          · have : ∃ x ∈ k :: ks, t.verifies x = true := by simpa using hv
            simp only [List.isEmpty_cons, Bool.false_eq_true, if_false, hv, if_true]
            constructor
            · intro h; exact ⟨trivial, trivial, hr', h, Or.inr ⟨by simp, this⟩⟩
            · intro h; exact h.2.2.2.1
          · have hn : ¬ ∃ x ∈ k :: ks, t.verifies x = true := by simpa using hv
            simp only [List.isEmpty_cons, Bool.false_eq_true, if_false, hv]
            constructor
            · intro h; cases h
            · rintro ⟨_, _, _, _, h | h⟩
              · exact absurd h.1 (by simp)
              · exact absurd h.2 hn
      · have hr' : ¬ ∀ k ∈ keys, k ∈ vault := by simpa using hr
        simp only [hw, hu, hr, Bool.not_true, Bool.not_false, Bool.false_eq_true, if_false, if_true]
        constructor
        · intro h; cases h
        · rintro ⟨_, _, h, _⟩; exact absurd h hr'
    · simp [hw, hu]
  · simp [hw]

theorem verifyKeys_payload {vault : List Pem} {now : Int} {t : Presented α} {keys : List Pem} {a : α}
    (h : verifyKeys vault now t keys = some a) : t.payload = some a :=
  ((verifyKeys_eq_some vault now t keys a).1 h).2.2.2.1

/-- the verdict does not depend on what the payload is, only on whether it fits -/
theorem verifyKeys_isSome (vault : List Pem) (now : Int) (t : Presented α) (keys : List Pem) :
    (verifyKeys vault now t keys).isSome = true ↔
      t.wellFormed = true ∧ t.unexpired now = true ∧ (∀ k ∈ keys, k ∈ vault) ∧ t.payload.isSome = true ∧
      ((keys = [] ∧ ∃ l rest, vault = l :: rest ∧ t.verifies l = true) ∨
       (keys ≠ [] ∧ ∃ k ∈ keys, t.verifies k = true)) := by
  constructor
  · intro h
    obtain ⟨a, ha⟩ := Option.isSome_iff_exists.1 h
    obtain ⟨h1, h2, h3, h4, h5⟩ := (verifyKeys_eq_some vault now t keys a).1 ha
    exact ⟨h1, h2, h3, by simp [h4], h5⟩
  · rintro ⟨h1, h2, h3, h4, h5⟩
    obtain ⟨a, ha⟩ := Option.isSome_iff_exists.1 h4
    exact Option.isSome_iff_exists.2 ⟨a, (verifyKeys_eq_some vault now t keys a).2 ⟨h1, h2, h3, ha, h5⟩⟩

/-- the general acceptance theorem: with a non-empty list of registered keys, or the leader -/
theorem verifyKeys_accept_iff (vault : List Pem) (now : Int) (t : Presented α) (keys eff : List Pem)
    (hreg : ∀ k ∈ keys, k ∈ vault)
    (heff : (keys = [] ∧ eff = vault.take 1) ∨ (keys ≠ [] ∧ eff = keys)) :
    (verifyKeys vault now t keys).isSome = true ↔ ticketOK t eff now ∧ Readable t := by
  rw [verifyKeys_isSome]
  unfold ticketOK Authentic Readable
  rw [wellFormed_iff, unexpired_iff]
  constructor
  · rintro ⟨⟨hp, hc, _⟩, hu, _, hpl, hv⟩
    rcases hv with ⟨hk, l, rest, hvault, hl⟩ | ⟨hk, k, hkm, hl⟩
    · obtain ⟨hh, ha, hs, kk, hd, hsk⟩ := (verifies_iff t l).1 hl
      rcases heff with ⟨_, he⟩ | ⟨hne, _⟩
      · subst he hvault
        exact ⟨⟨⟨ha, l, by simp, kk, hd, hsk⟩, hu⟩, hp, hh, hc, hs, hpl⟩
      · exact absurd hk hne
    · obtain ⟨hh, ha, hs, kk, hd, hsk⟩ := (verifies_iff t k).1 hl
      rcases heff with ⟨he, _⟩ | ⟨_, he⟩
      · exact absurd he hk
      · subst he
        exact ⟨⟨⟨ha, k, hkm, kk, hd, hsk⟩, hu⟩, hp, hh, hc, hs, hpl⟩
  · rintro ⟨⟨⟨ha, p, hpm, kk, hd, hsk⟩, hu⟩, hp, hh, hc, hs, hpl⟩
    obtain ⟨e, he, _⟩ := hu
    refine ⟨⟨hp, hc, e, he⟩, ⟨e, he, by assumption⟩, hreg, hpl, ?_⟩
    have hv : t.verifies p = true := (verifies_iff t p).2 ⟨hh, ha, hs, kk, hd, hsk⟩
    rcases heff with ⟨hk, he'⟩ | ⟨hk, he'⟩
    · subst he'
      cases vault with
      | nil => simp at hpm
      | cons l rest =>
        have : p = l := by simpa using hpm
        subst this
        exact Or.inl ⟨hk, p, rest, rfl, hv⟩
    · subst he'
      exact Or.inr ⟨hk, p, hpm, hv⟩

/-- `lean/Sge/Ovm.lean` sees exactly the verdict and payload of the byte-level pipeline -/
theorem toOvm_verifyWith (vault : List Pem) (now : Int) (t : Presented α) (keys : List Pem) :
    Sge.Ovm.verifyWith vault now t.toOvm keys = verifyKeys vault now t keys := by
  unfold Sge.Ovm.verifyWith verifyKeys
  have hv : ∀ p, t.toOvm.verifies p = t.verifies p := by
    intro p
    unfold Sge.Ovm.Ticket.verifies Presented.verifies Presented.toOvm
    rfl
  have hf : t.toOvm.format = t.wellFormed := rfl
  have hp : t.toOvm.payload = t.payload := rfl
  by_cases hw : t.wellFormed = true
  · have he : ∃ e, t.exp = some e := ((wellFormed_iff t).1 hw).2.2
    obtain ⟨e, he⟩ := he
    have hx : decide (now < t.toOvm.exp) = t.unexpired now := by
      unfold Presented.unexpired Presented.toOvm
      simp [he]
    simp only [hf, hp, hx, hv]
    rfl
  · simp [hf, hw]

end Sge.Ticket

namespace Sge.Core
open Sge

theorem houseDepositO_bad_ticket (s : State) (c : Nat) (tk : Tk) (m : Nat) (a : Int) (pd : Nat)
    (h : tk.ok = false) : houseDepositO s c tk m a pd = none := by
  unfold houseDepositO
  simp only [chk, h, bind, pure]
  split <;> (try rfl)
  split <;> rfl

theorem houseWithdrawO_bad_ticket (s : State) (c : Nat) (tk : Tk) (m i md : Nat) (a : Int) (pd : Nat)
    (h : tk.ok = false) : houseWithdrawO s c tk m i md a pd = none := by
  unfold houseWithdrawO
  simp only [chk, h, bind, pure]
  split <;> (try rfl)
  split <;> (try rfl)
  split <;> rfl

theorem wagerO_bad_ticket (s : State) (c : Nat) (tk : Tk) (u : Nat) (a : Int) (pl : WagerPayload)
    (h : tk.ok = false) : wagerO s c tk u a pl = none := by
  unfold wagerO
  simp only [chk, h, bind, pure]
  split <;> (try rfl)
  split <;> rfl

end Sge.Core
