/-
  bank = available on the combined slice, part 5: the invariant bundle `cmb2_BXInv` (hooks-total bundle, bet index,
  key-holding bettors / market creators, participations of the subaccount range owned by existing subaccounts, surplus of
  every address of the subaccount range = 0) is kept by every combined operation that is `wfU` and `clean`.
-/
import SgeProofs.Lemmas.CombinedBankExactFrame
namespace Sge.Combined
open Sge Sge.Core Sge.Genesis

structure cmb2_BXInv (s : State) : Prop where
  ht : cmb2_HTInv s
  idx : BetIdx s.core
  keys : cmb2_Keys s.core
  owned : cmb2_Owned s
  zero : ∀ x, SUB_BASE ≤ x → surplus s x = 0

theorem cmb2_step_cframe_exact (s : State) (op : Op) (hI : cmb2_BXInv s) (hwf : op.wfU) (hcl : op.clean = true) :
    cmb2_CFrame s (step s op).1 ∧ cmb2_Exact s (step s op).1 := by
  obtain ⟨⟨hL, hA, hP, hS, hAv⟩, hB, hK, hO, hZ⟩ := hI
  have hR := hL.inRange
  have lift : ∀ {r : Option State}, (∀ s', r = some s' → cmb2_CFrame s s' ∧ cmb2_Exact s s') →
      cmb2_CFrame s (commit s r).1 ∧ cmb2_Exact s (commit s r).1 := by
    intro r h
    cases r with
    | none => exact ⟨cmb2_CFrame.refl _, cmb2_Exact.refl _⟩
    | some s' => exact h s' rfl
  cases op with
  | core cop =>
    by_cases he : cop = .endBlock
    · subst he
      show cmb2_CFrame s (endBlock s).1 ∧ cmb2_Exact s (endBlock s).1
      unfold endBlock
      cases h : endBlockO s with
      | none => exact ⟨cmb2_CFrame.refl _, cmb2_Exact.refl _⟩
      | some s' =>
        refine ⟨?_, cmb2_endBlock_exact hL hA hO (fun x hx => hK.noPay x hx) h⟩
        unfold endBlockO at h
        simp only [bind, Option.bind_eq_some_iff] at h
        obtain ⟨c, hc, h2⟩ := h
        exact (cmb2_endBlockO_cframe hB hA hP hc).trans (cmb2_applyHooks_cframe _ h2)
    · have e : step s (.core cop) = coreStep s cop := by
        cases cop <;> first | rfl | exact absurd rfl he
      rw [e]
      exact ⟨cmb2_coreStep_cframe s cop he hwf hcl hB hA hP, cmb2_exact_core (cmb2_coreStep_exact s.core cop he hwf hcl)⟩
  | subParams w d =>
    exact ⟨cmb2_CFrame.of_same rfl rfl rfl (fun _ h => h), fun _ _ => rfl⟩
  | create c o ls =>
    refine lift (fun s' e => ⟨cmb2_create_cframe e, cmb2_create_exact ?_ hwf.1.1 e⟩)
    cases hx : aget s.subs (subAddr s.nextId) with
    | none => rfl
    | some r =>
      obtain ⟨k, hk, hlt⟩ := hL.range _ (by rw [hx]; rfl)
      have := cmb_subAddr_inj hk
      omega
  | topUp c o ls =>
    have hu : isUser c := hwf
    exact lift (fun s' e => ⟨cmb2_topUp_cframe e, cmb2_topUp_exact hR hu.1 e⟩)
  | withdrawUnlocked o =>
    refine lift (fun s' e => ⟨cmb2_withdrawUnlocked_cframe e, ?_⟩)
    have e' := e
    unfold withdrawUnlockedO at e'
    simp only [bind, Option.bind_eq_some_iff] at e'
    obtain ⟨a, ha, _⟩ := e'
    exact cmb2_withdrawUnlocked_exact hR (hL.users o a ha).1 e
  | subWager o ok ic m sb tk u a pl =>
    exact lift (fun s' e => ⟨cmb2_subWager_cframe hB hA.sett.cmb2_srt hP hL.users e, cmb2_subWager_exact hR hL.users e⟩)
  | subDeposit o tk m a pd =>
    exact lift (fun s' e => ⟨cmb2_subDeposit_cframe hR hL.users e, cmb2_subDeposit_exact hR hL.users e⟩)
  | subWithdraw o tk m i md a pd =>
    exact lift (fun s' e => ⟨cmb2_subWithdraw_cframe e, cmb2_subWithdraw_exact hR e⟩)

theorem cmb2_step_bxinv (s : State) (op : Op) (hI : cmb2_BXInv s) (hwf : op.wfU) (hcl : op.clean = true) :
    cmb2_BXInv (step s op).1 := by
  obtain ⟨k, x⟩ := cmb2_step_cframe_exact s op hI hwf hcl
  obtain ⟨cops, _, e⟩ := (cmb_step_sim s op hI.ht.linv.ownInv (Op.wfU_wf hwf)).1
  refine ⟨cmb2_step_htinv s op hI.ht hwf, ?_, k.keys hI.keys, k.owned hI.owned, ?_⟩
  · rw [e]; exact run_betIdx _ cops hI.idx
  · intro y hy
    rw [x y hy]
    exact hI.zero y hy

theorem cmb2_run_bxinv : ∀ (ops : List Op) (s : State), cmb2_BXInv s → (∀ op ∈ ops, op.wfU) → ops.all Op.clean = true →
    cmb2_BXInv (run s ops) := by
  intro ops
  induction ops with
  | nil => intro s hI _ _; exact hI
  | cons op rest ih =>
    intro s hI hwf hcl
    rw [List.all_cons, Bool.and_eq_true] at hcl
    exact ih (step s op).1 (cmb2_step_bxinv s op hI (hwf op (List.mem_cons_self ..)) hcl.1)
      (fun o ho => hwf o (List.mem_cons_of_mem _ ho)) hcl.2

end Sge.Combined
