/-
  C15, general list facts: results that are obtained from a list only through key look-ups, membership tests,
  `all` / `any`, counting distinct entries, do not depend on the order of the list.
-/
import Sge.Core.Chain
namespace Sge.Core
open Sge

/-- `eraseDups` has no duplicates -/
theorem nodup_eraseDups {α : Type} [BEq α] [LawfulBEq α] : ∀ (n : Nat) (l : List α), l.length ≤ n → l.eraseDups.Nodup
  | _, [], _ => by simp
  | 0, _ :: _, h => by simp at h
  | n + 1, a :: as, h => by
    rw [List.eraseDups_cons, List.nodup_cons]
    refine ⟨?_, nodup_eraseDups n _ ?_⟩
    · intro hm
      rw [List.mem_eraseDups, List.mem_filter] at hm
      simp at hm
    · have := List.length_filter_le (fun b => !b == a) as
      simp only [List.length_cons] at h
      omega

/-- the number of distinct entries depends on the set of entries only -/
theorem eraseDups_length_congr {α : Type} [BEq α] [LawfulBEq α] {a b : List α} (h : ∀ x, x ∈ a ↔ x ∈ b) :
    a.eraseDups.length = b.eraseDups.length := by
  apply List.Perm.length_eq
  rw [List.perm_ext_iff_of_nodup (nodup_eraseDups _ _ (Nat.le_refl _)) (nodup_eraseDups _ _ (Nat.le_refl _))]
  intro x
  simp only [List.mem_eraseDups]
  exact h x

/-- `find?` by a predicate that at most one entry satisfies depends on the set of entries only -/
theorem find?_congr_of_unique {α : Type} (p : α → Bool) {l₁ l₂ : List α} (hmem : ∀ x, x ∈ l₁ ↔ x ∈ l₂)
    (huniq : ∀ x ∈ l₁, ∀ y ∈ l₁, p x = true → p y = true → x = y) : l₁.find? p = l₂.find? p := by
  cases h1 : l₁.find? p with
  | none =>
    rw [List.find?_eq_none] at h1
    symm
    rw [List.find?_eq_none]
    intro x hx
    exact h1 x ((hmem x).2 hx)
  | some x =>
    have hpx := List.find?_some h1
    have hx1 := List.mem_of_find?_eq_some h1
    cases h2 : l₂.find? p with
    | none =>
      rw [List.find?_eq_none] at h2
      exact absurd hpx (h2 x ((hmem x).1 hx1))
    | some y =>
      have hpy := List.find?_some h2
      have hy1 := (hmem y).2 (List.mem_of_find?_eq_some h2)
      rw [huniq x hx1 y hy1 hpx hpy]

/-- a list whose keys are pairwise different and all equal to `c` has at most one entry -/
theorem length_le_one_of_nodup_const {α β : Type} (f : α → β) (c : β) :
    ∀ (l : List α), (l.map f).Nodup → (∀ x ∈ l, f x = c) → l.length ≤ 1
  | [], _, _ => by simp
  | [_], _, _ => by simp
  | a :: b :: t, hn, hc => by
    have ha := hc a (by simp)
    have hb := hc b (by simp)
    simp only [List.map_cons, List.nodup_cons, List.mem_cons] at hn
    exact absurd (Or.inl (ha.trans hb.symm)) hn.1

/-- permutations of a list with at most one entry are equal -/
theorem perm_eq_of_length_le_one {α : Type} {l₁ l₂ : List α} (h : l₁.Perm l₂) (hl : l₁.length ≤ 1) : l₁ = l₂ := by
  match l₁, hl with
  | [], _ => exact (List.Perm.nil_eq h)
  | [a], _ => exact (List.perm_singleton.1 h.symm).symm

/-- injectivity of the key on the entries of a list with pairwise different keys -/
theorem eq_of_key_eq_of_nodup {α β : Type} (f : α → β) :
    ∀ (l : List α), (l.map f).Nodup → ∀ x ∈ l, ∀ y ∈ l, f x = f y → x = y
  | [], _, x, hx, _, _, _ => by simp at hx
  | a :: t, hn, x, hx, y, hy, hxy => by
    simp only [List.map_cons, List.nodup_cons, List.mem_map, not_exists, not_and] at hn
    rcases List.mem_cons.1 hx with rfl | hx'
    · rcases List.mem_cons.1 hy with rfl | hy'
      · rfl
      · exact absurd hxy.symm (hn.1 y hy')
    · rcases List.mem_cons.1 hy with rfl | hy'
      · exact absurd hxy (hn.1 x hx')
      · exact eq_of_key_eq_of_nodup f t hn.2 x hx' y hy' hxy

end Sge.Core
