/-
  Reward model: every operation changes the bank only by transfers between the accounts it names
  (`sup_touch`), for every value of the variant flags (`fixed`, `codecFixed`, `promoterFixed` are fields of the state
  and the lemmas quantify over all states).
-/
import SgeProofs.Lemmas.SupplyMoves
import SgeProofs.Lemmas.RewardStep
namespace Sge.Reward
open Sge

theorem sup_send_moves {A : Nat → Prop} {b b' : Bank} {f t : Nat} {amt : Int} (h : send b f t amt = .ok b')
    (hf : A f) (ht : A t) : sup_Moves A b b' 0 := by
  obtain ⟨h0, _, rfl⟩ := send_ok h
  exact sup_Moves.xfer b f t amt h0 hf ht

/-- the accounts an operation can debit or credit in state `s` (whether or not it succeeds) -/
def sup_touch (s : State) : Op → List Nat
  | .createCampaign m => [m.promoter, POOL]
  | .updateCampaign m =>
    match getC s.campaigns m.uid with
    | some c => [c.promoter, POOL]
    | none => []
  | .withdraw m => [POOL, m.promoter]
  | .grant m => [POOL, SUBBASE + m.receiver, m.receiver]
  | .bankSend f t _ => [f, t]
  | _ => []

/-- the accounts touched along a history -/
def sup_touchRun : State → List Op → List Nat
  | _, [] => []
  | s, op :: rest => sup_touch s op ++ sup_touchRun (step s op) rest

theorem sup_exec_moves {s s' : State} {op : Op} (h : exec s op = .ok s') :
    sup_Moves (· ∈ sup_touch s op) s.bank s'.bank 0 := by
  cases op with
  | time t =>
    simp only [exec, Except.ok.injEq] at h; subst h
    exact sup_Moves.refl _ _
  | createPromoter m =>
    obtain ⟨_, _, rfl⟩ := createPromoter_ok h
    exact sup_Moves.refl _ _
  | setConf m =>
    obtain ⟨p, _, _, _, rfl⟩ := setPromoterConf_ok h
    exact sup_Moves.refl _ _
  | createCampaign m =>
    obtain ⟨funds, gs, bank, _, _, _, _, _, _, _, hsend, rfl⟩ := createCampaign_ok h
    exact sup_send_moves hsend (by simp [sup_touch]) (by simp [sup_touch])
  | updateCampaign m =>
    obtain ⟨c, gs, hget, _, _, _, _, hcase⟩ := updateCampaign_ok h
    rcases hcase with ⟨t, bank, _, _, hsend, rfl⟩ | ⟨_, rfl⟩
    · exact sup_send_moves hsend (by simp [sup_touch, hget]) (by simp [sup_touch, hget])
    · exact sup_Moves.refl _ _
  | withdraw m =>
    obtain ⟨c, gs, amount, bank, _, _, _, _, _, _, _, hsend, rfl⟩ := withdrawFunds_ok h
    exact sup_send_moves hsend (by simp [sup_touch]) (by simp [sup_touch])
  | grant m =>
    obtain ⟨c, r, caps, d, _, _, _, _, _, _, _, _, hd, rfl⟩ := grantReward_ok h
    obtain ⟨r', hs, hm, _⟩ := distribute_ok hd
    have h1 : sup_Moves (· ∈ sup_touch s (.grant m)) s.bank r'.1 0 := by
      rcases distSub_ok hs with ⟨_, hsend, _⟩ | ⟨_, e⟩
      · exact sup_send_moves hsend (by simp [sup_touch]) (by simp [sup_touch])
      · rw [e]; exact sup_Moves.refl _ _
    have h2 : sup_Moves (· ∈ sup_touch s (.grant m)) r'.1 d.1 0 := by
      rcases distMain_ok hm with ⟨_, _, hsend⟩ | ⟨_, e⟩
      · exact sup_send_moves hsend (by simp [sup_touch]) (by simp [sup_touch])
      · rw [e]; exact sup_Moves.refl _ _
    exact h1.trans0 h2
  | authzGrant a b k l e =>
    obtain ⟨_, _, rfl⟩ := authzGrant_ok h
    exact sup_Moves.refl _ _
  | authzRevoke a b k =>
    have := authzRevoke_ok h; subst this
    exact sup_Moves.refl _ _
  | putBet b =>
    obtain ⟨_, rfl⟩ := putBet_ok h
    exact sup_Moves.refl _ _
  | createSub o =>
    have := createSub_ok h; subst this
    exact sup_Moves.refl _ _
  | bankSend f t a =>
    obtain ⟨b, _, _, hsend, rfl⟩ := bankSend_ok h
    exact sup_send_moves hsend (by simp [sup_touch]) (by simp [sup_touch])

theorem sup_step_moves (s : State) (op : Op) : sup_Moves (· ∈ sup_touch s op) s.bank (step s op).bank 0 := by
  unfold step
  cases h : exec s op with
  | ok s' => exact sup_exec_moves h
  | error e => exact sup_Moves.refl _ _

theorem sup_run_moves (ops : List Op) : ∀ s : State, sup_Moves (· ∈ sup_touchRun s ops) s.bank (run s ops).bank 0 := by
  induction ops with
  | nil => intro s; exact sup_Moves.refl _ _
  | cons op rest ih =>
    intro s
    show sup_Moves _ s.bank (run (step s op) rest).bank 0
    have h1 := (sup_step_moves s op).mono (A' := (· ∈ sup_touchRun s (op :: rest)))
      (fun a ha => by simp only [sup_touchRun, List.mem_append]; exact Or.inl ha)
    have h2 := (ih (step s op)).mono (A' := (· ∈ sup_touchRun s (op :: rest)))
      (fun a ha => by simp only [sup_touchRun, List.mem_append]; exact Or.inr ha)
    exact h1.trans0 h2

end Sge.Reward
