/-
  Reward model: every operation changes the bank only by transfers between the accounts it names
  (`sup_touch`), for every value of the variant flags (`fixed`, `codecFixed`, `promoterFixed` are fields of the state
  and the lemmas quantify over all states).
-/
import SgeProofs.Lemmas.SupplyMoves
import SgeProofs.Lemmas.RewardStep
namespace Sge.Reward
open Sge

theorem sup_send_moves {A : Nat → Prop} {b b' : Bank} {f t : Nat} {amt : Int} (h : send b f t amt = .ok b')
    (hf : A f) (ht : A t) : sup_Moves A b b' 0 := by
  obtain ⟨h0, _, rfl⟩ := send_ok h
  exact sup_Moves.xfer b f t amt h0 hf ht

/-- the accounts an operation can debit or credit in state `s` (whether or not it succeeds) -/
def sup_touch (s : State) : Op → List Nat
  | .createCampaign m => [m.promoter, POOL]
  | .updateCampaign m =>
    match getC s.campaigns m.uid with
    | some c => [c.promoter, POOL]
    | none => []
  | .withdraw m => [POOL, m.promoter]
  | .grant m => [POOL, SUBBASE + m.receiver, m.receiver]
  | .bankSend f t _ => [f, t]
  | _ => []

/-- the accounts touched along a history -/
def sup_touchRun : State → List Op → List Nat
  | _, [] => []
  | s, op :: rest => sup_touch s op ++ sup_touchRun (step s op) rest

theorem sup_exec_moves {s s' : State} {op : Op} (h : exec s op = .ok s') :
    sup_Moves (· ∈ sup_touch s op) s.bank s'.bank 0 := by
  cases op with
  | time t =>
    simp only [exec, Except.ok.injEq] at h; subst h
    exact sup_Moves.refl _ _
  | createPromoter m =>
    obtain ⟨_, _, rfl⟩ := createPromoter_ok h
    exact sup_Moves.refl _ _
  | setConf m =>
    obtain ⟨p, _, _, _, rfl⟩ := setPromoterConf_ok h
    exact sup_Moves.refl _ _
  | createCampaign m =>
    obtain ⟨funds, gs, bank, _, _, _, _, _, _, _, hsend, rfl⟩ := createCampaign_ok h
    exact sup_send_moves hsend (by simp [sup_touch]) (by simp [sup_touch])
  | updateCampaign m =>
    obtain ⟨c, gs, hget, _, _, _, _, hcase⟩ := updateCampaign_ok h
    rcases hcase with ⟨t, bank, _, _, hsend, rfl⟩ | ⟨_, rfl⟩
    · exact sup_send_moves hsend (by simp [sup_touch, hget]) (by simp [sup_touch, hget])
    · exact sup_Moves.refl _ _
  | withdraw m =>
    obtain ⟨c, gs, amount, bank, _, _, _, _, _, _, _, hsend, rfl⟩ := withdrawFunds_ok h
    exact sup_send_moves hsend (by simp [sup_touch]) (by simp [sup_touch])
  | grant m =>
    obtain ⟨c, r, caps, d, _, _, _, _, _, _, _, _, hd, rfl⟩ := grantReward_ok h
    obtain ⟨r', hs, hm, _⟩ := distribute_ok hd
    have h1 : sup_Moves (· ∈ sup_touch s (.grant m)) s.bank r'.1 0 := by
      rcases distSub_ok hs with ⟨_, hsend, _⟩ | ⟨_, e⟩
      · exact sup_send_moves hsend (by simp [sup_touch]) (by simp [sup_touch])
      · rw [e]; exact sup_Moves.refl _ _
    have h2 : sup_Moves (· ∈ sup_touch s (.grant m)) r'.1 d.1 0 := by
      rcases distMain_ok hm with ⟨_, _, hsend⟩ | ⟨_, e⟩
      · exact sup_send_moves hsend (by simp [sup_touch]) (by simp [sup_touch])
      · rw [e]; exact sup_Moves.refl _ _
    exact h1.trans0 h2
  | authzGrant a b k l e =>
    obtain ⟨_, _, rfl⟩ := authzGrant_ok h
    exact sup_Moves.refl _ _
  | authzRevoke a b k =>
    have := authzRevoke_ok h; subst this
    exact sup_Moves.refl _ _
  | putBet b =>
    obtain ⟨_, rfl⟩ := putBet_ok h
    exact sup_Moves.refl _ _
  | createSub o =>
    have := createSub_ok h; subst this
    exact sup_Moves.refl _ _
  | bankSend f t a =>
    obtain ⟨b, _, _, hsend, rfl⟩ := bankSend_ok h
    exact sup_send_moves hsend (by simp [sup_touch]) (by simp [sup_touch])

theorem sup_step_moves (s : State) (op : Op) : sup_Moves (· ∈ sup_touch s op) s.bank (step s op).bank 0 := by
  unfold step
  cases h : exec s op with
  | ok s' => exact sup_exec_moves h
  | error e => exact sup_Moves.refl _ _

theorem sup_run_moves (ops : List Op) : ∀ s : State, sup_Moves (· ∈ sup_touchRun s ops) s.bank (run s ops).bank 0 := by
  induction ops with
  | nil => intro s; exact sup_Moves.refl _ _
  | cons op rest ih =>
    intro s
    show sup_Moves _ s.bank (run (step s op) rest).bank 0
    have h1 := (sup_step_moves s op).mono (A' := (· ∈ sup_touchRun s (op :: rest)))
      (fun a ha => by simp only [sup_touchRun, List.mem_append]; exact Or.inl ha)
    have h2 := (ih (step s op)).mono (A' := (· ∈ sup_touchRun s (op :: rest)))
      (fun a ha => by simp only [sup_touchRun, List.mem_append]; exact Or.inr ha)
    exact h1.trans0 h2

/-! ### a state-independent bound on the touched accounts -/

/-- the accounts an operation names by itself -/
def sup_named : Op → List Nat
  | .createCampaign m => [m.promoter, POOL]
  | .updateCampaign _ => [POOL]
  | .withdraw m => [POOL, m.promoter]
  | .grant m => [POOL, SUBBASE + m.receiver, m.receiver]
  | .bankSend f t _ => [f, t]
  | _ => []

def sup_namedRun : List Op → List Nat
  | [] => []
  | op :: rest => sup_named op ++ sup_namedRun rest

/-- the promoter addresses of the stored campaigns -/
def sup_promoters (s : State) : List Nat := s.campaigns.map (·.promoter)

theorem sup_touch_sub (s : State) (op : Op) (a : Nat) (h : a ∈ sup_touch s op) :
    a ∈ sup_named op ∨ a ∈ sup_promoters s := by
  cases op with
  | updateCampaign m =>
    simp only [sup_touch] at h
    split at h
    · rename_i c hget
      simp only [List.mem_cons, List.not_mem_nil, or_false] at h
      rcases h with h | h
      · right
        rw [h]
        exact List.mem_map.mpr ⟨c, getC_mem _ _ _ hget, rfl⟩
      · left; rw [h]; simp [sup_named]
    · cases h
  | createCampaign m => exact Or.inl h
  | withdraw m => exact Or.inl h
  | grant m => exact Or.inl h
  | bankSend f t x => exact Or.inl h
  | time t => exact Or.inl h
  | createPromoter m => exact Or.inl h
  | setConf m => exact Or.inl h
  | authzGrant g e k l x => exact Or.inl h
  | authzRevoke g e k => exact Or.inl h
  | putBet b => exact Or.inl h
  | createSub o => exact Or.inl h

theorem sup_prom_setC (cs : List Campaign) (c : Campaign) (a : Nat) (h : a ∈ (setC cs c).map (·.promoter)) :
    a = c.promoter ∨ a ∈ cs.map (·.promoter) := by
  obtain ⟨x, hx, rfl⟩ := List.mem_map.mp h
  rcases mem_setC cs c x hx with e | e
  · left; rw [e]
  · right; exact List.mem_map.mpr ⟨x, e, rfl⟩

theorem sup_promoters_exec {s s' : State} {op : Op} (h : exec s op = .ok s') (a : Nat) (ha : a ∈ sup_promoters s') :
    a ∈ sup_named op ∨ a ∈ sup_promoters s := by
  cases op with
  | time t =>
    simp only [exec, Except.ok.injEq] at h; subst h; exact Or.inr ha
  | createPromoter m =>
    obtain ⟨_, _, rfl⟩ := createPromoter_ok h; exact Or.inr ha
  | setConf m =>
    obtain ⟨p, _, _, _, rfl⟩ := setPromoterConf_ok h; exact Or.inr ha
  | createCampaign m =>
    obtain ⟨funds, gs, bank, _, _, _, _, _, _, _, _, rfl⟩ := createCampaign_ok h
    rcases sup_prom_setC _ _ a ha with e | e
    · left; rw [e]; simp [sup_named, newCampaign]
    · exact Or.inr e
  | updateCampaign m =>
    obtain ⟨c, gs, hget, _, _, _, _, hcase⟩ := updateCampaign_ok h
    have hc : c.promoter ∈ sup_promoters s := List.mem_map.mpr ⟨c, getC_mem _ _ _ hget, rfl⟩
    rcases hcase with ⟨t, bank, _, _, _, rfl⟩ | ⟨_, rfl⟩
    · rcases sup_prom_setC _ _ a ha with e | e
      · right; rw [e]; exact hc
      · exact Or.inr e
    · rcases sup_prom_setC _ _ a ha with e | e
      · right; rw [e]; exact hc
      · exact Or.inr e
  | withdraw m =>
    obtain ⟨c, gs, amount, bank, hget, _, _, _, _, _, _, _, rfl⟩ := withdrawFunds_ok h
    have hc : c.promoter ∈ sup_promoters s := List.mem_map.mpr ⟨c, getC_mem _ _ _ hget, rfl⟩
    rcases sup_prom_setC _ _ a ha with e | e
    · right; rw [e]; exact hc
    · exact Or.inr e
  | grant m =>
    obtain ⟨c, r, caps, d, _, hget, _, _, _, _, _, _, _, rfl⟩ := grantReward_ok h
    have hc : c.promoter ∈ sup_promoters s := List.mem_map.mpr ⟨c, getC_mem _ _ _ hget, rfl⟩
    rcases sup_prom_setC _ _ a ha with e | e
    · right; rw [e]; exact hc
    · exact Or.inr e
  | authzGrant g e k l x =>
    obtain ⟨_, _, rfl⟩ := authzGrant_ok h; exact Or.inr ha
  | authzRevoke g e k =>
    have := authzRevoke_ok h; subst this; exact Or.inr ha
  | putBet b =>
    obtain ⟨_, rfl⟩ := putBet_ok h; exact Or.inr ha
  | createSub o =>
    have := createSub_ok h; subst this; exact Or.inr ha
  | bankSend f t x =>
    obtain ⟨b, _, _, _, rfl⟩ := bankSend_ok h; exact Or.inr ha

theorem sup_promoters_step (s : State) (op : Op) (a : Nat) (ha : a ∈ sup_promoters (step s op)) :
    a ∈ sup_named op ∨ a ∈ sup_promoters s := by
  unfold step at ha
  cases h : exec s op with
  | ok s' => rw [h] at ha; exact sup_promoters_exec h a ha
  | error e => rw [h] at ha; exact Or.inr ha

/-- every account touched along a history is named by one of its operations or is the promoter of a campaign that
    existed at the start -/
theorem sup_touchRun_sub (ops : List Op) : ∀ (s : State) (a : Nat), a ∈ sup_touchRun s ops →
    a ∈ sup_namedRun ops ∨ a ∈ sup_promoters s := by
  induction ops with
  | nil => intro s a h; cases h
  | cons op rest ih =>
    intro s a h
    simp only [sup_touchRun, List.mem_append] at h
    simp only [sup_namedRun, List.mem_append]
    rcases h with h | h
    · rcases sup_touch_sub s op a h with h | h
      · exact Or.inl (Or.inl h)
      · exact Or.inr h
    · rcases ih (step s op) a h with h | h
      · exact Or.inl (Or.inr h)
      · rcases sup_promoters_step s op a h with h | h
        · exact Or.inl (Or.inl h)
        · exact Or.inr h

end Sge.Reward
