/-
  InitGenesis of the custom modules never touches a balance: whatever the genesis file contains, the bank of the
  chain it is imported into is the bank afterwards (core: `bal`; subaccount: `bank`).  The reward, ovm and mint
  genesis states of `Sge.Genesis` (`RewardStores`, `Ovm.State`, `Minter × Params`) have no balance field at all.
-/
import Sge.Genesis
import SgeProofs.Lemmas.CoreSupply
namespace Sge.Genesis
open Sge Sge.Core

theorem sup_foldl_inv {α β : Type} (P : β → Prop) (f : β → α → β) (hf : ∀ b a, P b → P (f b a)) :
    ∀ (l : List α) (b : β), P b → P (l.foldl f b) := by
  intro l
  induction l with
  | nil => intro b h; exact h
  | cons x l ih => intro b h; exact ih (f b x) (hf b x h)

theorem sup_importMarket_bal (g : MarketGen) (s : State) : (importMarket g s).bal = s.bal := rfl

theorem sup_importHouse_bal (g : HouseGen) (s : State) : (importHouse g s).bal = s.bal := rfl

theorem sup_importOneBet_bal (g : BetGen) (s : State) (b : Bet) : (importOneBet g s b).bal = s.bal := by
  unfold importOneBet
  simp only
  have h1 : ∀ (l : List (Nat × Nat)) (s0 : State),
      (l.foldl (fun (acc : State) p =>
        { acc with pending := upsert pendKey (b.market, idOf g.uid2id b.uid, p.1, p.2) acc.pending }) s0).bal = s0.bal := by
    intro l s0
    apply sup_foldl_inv (fun t : State => t.bal = s0.bal)
    · intro t a h; exact h
    · rfl
  have h2 : ∀ (l : List (Nat × Nat)) (s0 : State),
      (l.foldl (fun (acc : State) p =>
        { acc with settled := upsert pendKey (b.settleHeight, idOf g.uid2id b.uid, p.1, p.2) acc.settled }) s0).bal = s0.bal := by
    intro l s0
    apply sup_foldl_inv (fun t : State => t.bal = s0.bal)
    · intro t a h; exact h
    · rfl
  rw [h2, h1]

theorem sup_importBet_bal (g : BetGen) (s : State) : (importBet g s).bal = s.bal := by
  unfold importBet
  simp only
  exact sup_foldl_inv (fun t : State => t.bal = s.bal) _
    (fun t a h => by rw [sup_importOneBet_bal]; exact h) g.bets _ rfl

theorem sup_onBook_bal (s : State) (uid : Nat) (f : Book → Book) : (onBook s uid f).bal = s.bal := by
  unfold onBook
  split <;> rfl

theorem sup_setBookRec_bal (s : State) (r : BookRec) : (setBookRec s r).bal = s.bal := by
  unfold setBookRec
  split <;> rfl

theorem sup_importPair_bal (b0 : List (Nat × Int)) (acc : Option State) (x : Nat × Nat × Nat)
    (h : ∀ s, acc = some s → s.bal = b0) : ∀ s, importPair acc x = some s → s.bal = b0 := by
  intro s hs
  unfold importPair at hs
  split at hs
  · cases hs
  · rename_i s0
    split at hs
    · cases hs
    · simp only [Option.some.injEq] at hs
      rw [← hs, sup_onBook_bal]
      exact h s0 rfl

theorem sup_importOb_bal (g : ObGen) (s s' : State) (h : importOb g s = some s') : s'.bal = s.bal := by
  unfold importOb at h
  simp only at h
  split at h
  · cases h
  · rename_i s7 h7
    simp only [Option.some.injEq] at h
    rw [← h]
    show s7.bal = s.bal
    have hfold := sup_foldl_inv (fun acc : Option State => ∀ t, acc = some t → t.bal = s.bal) importPair
      (fun acc x hacc => sup_importPair_bal s.bal acc x hacc) g.pairs
    apply hfold _ _ s7 h7
    intro t ht
    simp only [Option.some.injEq] at ht
    rw [← ht]
    have step : ∀ {α : Type} (fn : State → α → State) (hfn : ∀ t a, (fn t a).bal = t.bal) (l : List α) (t0 : State),
        (l.foldl fn t0).bal = t0.bal := by
      intro α fn hfn l t0
      exact sup_foldl_inv (fun t : State => t.bal = t0.bal) fn (fun t a h => by rw [hfn]; exact h) l t0 rfl
    rw [step _ (fun t a => sup_onBook_bal _ _ _), step _ (fun t a => sup_onBook_bal _ _ _),
      step _ (fun t a => sup_onBook_bal _ _ _), step _ (fun t a => sup_onBook_bal _ _ _),
      step _ (fun t a => sup_onBook_bal _ _ _), step _ (fun t a => sup_setBookRec_bal _ _)]

theorem sup_importCore_bal (g : CoreGen) (base s' : State) (h : importCore g base = some s') : s'.bal = base.bal := by
  unfold importCore at h
  simp only [Option.map_eq_some_iff] at h
  obtain ⟨s1, h1, rfl⟩ := h
  rw [sup_importHouse_bal, sup_importOb_bal _ _ _ h1, sup_importMarket_bal, sup_importBet_bal]

theorem sup_importSubAcc_bank (s : Subaccount.State) (x : SubGenAcc) : (importSubAcc s x).bank = s.bank := rfl

theorem sup_importSub_bank (g : SubGen) (base : Subaccount.State) : (importSub g base).bank = base.bank := by
  unfold importSub
  simp only
  exact sup_foldl_inv (fun t : Subaccount.State => t.bank = base.bank) importSubAcc
    (fun t a h => by rw [sup_importSubAcc_bank]; exact h) g.accounts _ rfl

end Sge.Genesis
