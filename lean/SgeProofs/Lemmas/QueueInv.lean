/-
  Queue well-formedness of an order book (`QInv`) — the invariant behind "no participation is visited twice
  within one wager" — and its preservation by the book-level operations of deposits and withdrawals.
  Layer 0: generic facts about keyed stores; layer 1: `BkSInv` / `QV` / `QInv`, deposit, withdrawal.
-/
import SgeProofs.Lemmas.CustodyOps
namespace Sge.Core
open Sge Sge.Genesis

-- ---------------------------------------------------------------------------------------------
-- keyed stores

theorem lookup_memQ {α : Type} {key : α → List Nat} {k : List Nat} {l : List α} {y : α}
    (h : lookup key k l = some y) : y ∈ l ∧ key y = k := by
  unfold lookup at h
  exact ⟨List.mem_of_find?_eq_some h, by simpa using List.find?_some h⟩

/-- in a sorted store a record is what `lookup` finds under its key -/
theorem mem_lookup {α : Type} (key : α → List Nat) (x : α) (l : List α) (hs : Sorted key l) (hx : x ∈ l) :
    lookup key (key x) l = some x := by
  have := upsert_mem key x l hs hx
  have h2 := lookup_upsert_self key x l
  rw [this] at h2
  exact h2

theorem lookup_eq_none_iff {α : Type} (key : α → List Nat) (k : List Nat) (l : List α) :
    lookup key k l = none ↔ ∀ y ∈ l, key y ≠ k := by
  unfold lookup
  rw [List.find?_eq_none]
  simp

theorem upsert_of_all_lt {α : Type} (key : α → List Nat) (x : α) (l : List α)
    (h : ∀ z ∈ l, ltL (key x) (key z) = true) : upsert key x l = x :: l := by
  cases l with
  | nil => rfl
  | cons y ys =>
    have hy := h y (List.mem_cons_self ..)
    unfold upsert
    have h1 : (key y == key x) = false := by
      cases hc : key y == key x
      · rfl
      · have e : key y = key x := by simpa using hc
        rw [e, ltL_irrefl] at hy; cases hy
    simp [h1, hy]

/-- overwriting a stored record keeps the list of keys -/
theorem upsert_keys_of_lookup {α : Type} (key : α → List Nat) (x y : α) (l : List α) (hs : Sorted key l)
    (h : lookup key (key x) l = some y) : (upsert key x l).map key = l.map key := by
  induction l with
  | nil => simp [lookup] at h
  | cons z zs ih =>
    have hs' := hs
    unfold Sorted at hs'
    rw [List.pairwise_cons] at hs'
    unfold upsert
    by_cases h1 : (key z == key x) = true
    · simp only [h1, if_true, List.map_cons]
      have : key z = key x := by simpa using h1
      rw [this]
    · have h1' : (key z == key x) = false := by simpa using h1
      simp only [h1', Bool.false_eq_true, if_false]
      have h' : lookup key (key x) zs = some y := by
        simpa [lookup, List.find?, h1'] using h
      have hy := lookup_memQ h'
      have hlt := hs'.1 y hy.1
      rw [hy.2] at hlt
      rw [ltL_asymm _ _ hlt]
      simp only [Bool.false_eq_true, if_false, List.map_cons]
      rw [ih hs'.2 h']

theorem upsert_length_of_lookup {α : Type} (key : α → List Nat) (x y : α) (l : List α) (hs : Sorted key l)
    (h : lookup key (key x) l = some y) : (upsert key x l).length = l.length := by
  have := congrArg List.length (upsert_keys_of_lookup key x y l hs h)
  simpa using this

theorem remove_of_all_lt {α : Type} (key : α → List Nat) (k : List Nat) (l : List α)
    (h : ∀ z ∈ l, ltL k (key z) = true) : remove key k l = l := by
  unfold remove
  rw [List.filter_eq_self]
  intro z hz
  have := ltL_ne _ _ (h z hz)
  cases hc : key z == k
  · rfl
  · have e : key z = k := by simpa using hc
    rw [e] at this; simp at this

/-- deleting a key and then writing it is the same as writing it -/
theorem upsert_remove {α : Type} (key : α → List Nat) (x : α) (l : List α) (hs : Sorted key l) :
    upsert key x (remove key (key x) l) = upsert key x l := by
  induction l with
  | nil => rfl
  | cons z zs ih =>
    have hs' := hs
    unfold Sorted at hs'
    rw [List.pairwise_cons] at hs'
    by_cases h1 : (key z == key x) = true
    · have e : key z = key x := by simpa using h1
      have hall : ∀ w ∈ zs, ltL (key x) (key w) = true := fun w hw => by rw [← e]; exact hs'.1 w hw
      have : remove key (key x) (z :: zs) = zs := by
        unfold remove
        simp only [List.filter, h1, Bool.not_true]
        exact remove_of_all_lt key (key x) zs hall
      rw [this, upsert_of_all_lt key x zs hall]
      unfold upsert
      simp [h1]
    · have h1' : (key z == key x) = false := by simpa using h1
      have hr : remove key (key x) (z :: zs) = z :: remove key (key x) zs := by
        unfold remove
        simp [List.filter, h1']
      rw [hr]
      unfold upsert
      simp only [h1', Bool.false_eq_true, if_false]
      by_cases h2 : ltL (key x) (key z) = true
      · simp only [h2, if_true]
        have hall : ∀ w ∈ zs, ltL (key x) (key w) = true := fun w hw => ltL_trans _ _ _ h2 (hs'.1 w hw)
        rw [remove_of_all_lt key (key x) zs hall]
      · have h2' : ltL (key x) (key z) = false := by simpa using h2
        simp only [h2', Bool.false_eq_true, if_false]
        rw [ih hs'.2]

theorem sumBy_congr {α : Type} (f g : α → Int) (l : List α) (h : ∀ x ∈ l, f x = g x) : sumBy f l = sumBy g l := by
  induction l with
  | nil => rfl
  | cons x xs ih =>
    rw [sumBy_cons, sumBy_cons, h x (List.mem_cons_self ..), ih (fun y hy => h y (List.mem_cons_of_mem _ hy))]

theorem sumBy_append {α : Type} (f : α → Int) (a b : List α) : sumBy f (a ++ b) = sumBy f a + sumBy f b := by
  simp [sumBy, List.sum_append]

theorem sumBy_nonneg {α : Type} (f : α → Int) (l : List α) (h : ∀ x ∈ l, 0 ≤ f x) : 0 ≤ sumBy f l := by
  induction l with
  | nil => simp [sumBy]
  | cons x xs ih =>
    rw [sumBy_cons]
    have := h x (List.mem_cons_self ..)
    have := ih (fun y hy => h y (List.mem_cons_of_mem _ hy))
    omega

theorem sumBy_ge_mem {α : Type} (f : α → Int) (l : List α) (h : ∀ x ∈ l, 0 ≤ f x) (x : α) (hx : x ∈ l) :
    f x ≤ sumBy f l := by
  induction l with
  | nil => cases hx
  | cons y ys ih =>
    rw [sumBy_cons]
    have hy := h y (List.mem_cons_self ..)
    have hys := sumBy_nonneg f ys (fun z hz => h z (List.mem_cons_of_mem _ hz))
    rcases List.mem_cons.mp hx with rfl | hx
    · omega
    · have := ih (fun z hz => h z (List.mem_cons_of_mem _ hz)) hx
      omega

theorem sumBy_zeroQ {α : Type} (f : α → Int) (l : List α) (h : ∀ x ∈ l, f x = 0) : sumBy f l = 0 := by
  induction l with
  | nil => rfl
  | cons x xs ih =>
    rw [sumBy_cons, h x (List.mem_cons_self ..), ih (fun y hy => h y (List.mem_cons_of_mem _ hy))]; rfl

/-- a keyed sum over a sorted store is the value at the key -/
theorem sumBy_key {α : Type} (key : α → List Nat) (f : α → Int) (k : List Nat) (l : List α) (hs : Sorted key l) :
    sumBy (fun y => if key y == k then f y else 0) l = (match lookup key k l with | some y => f y | none => 0) := by
  induction l with
  | nil => rfl
  | cons z zs ih =>
    have hs' := hs
    unfold Sorted at hs'
    rw [List.pairwise_cons] at hs'
    rw [sumBy_cons]
    by_cases h1 : (key z == k) = true
    · have e : key z = k := by simpa using h1
      have : sumBy (fun y => if key y == k then f y else 0) zs = 0 := by
        apply sumBy_zeroQ
        intro w hw
        have := ltL_ne _ _ (hs'.1 w hw)
        rw [e] at this
        have : (key w == k) = false := by
          cases hc : key w == k
          · rfl
          · have e2 : key w = k := by simpa using hc
            rw [e2] at this; simp at this
        simp [this]
      rw [this]
      simp [lookup, List.find?, h1]
    · have h1' : (key z == k) = false := by simpa using h1
      rw [ih hs'.2]
      simp [lookup, List.find?, h1']

end Sge.Core

namespace Sge.Core
open Sge Sge.Genesis

-- ---------------------------------------------------------------------------------------------
-- the stores of a book

abbrev qkeyQ (x : Nat × List Nat) : List Nat := [x.1]

theorem Book.getQueue_eq_lookup (b : Book) (o : Nat) : b.getQueue o = (lookup qkeyQ [o] b.queues).map (·.2) := by
  unfold Book.getQueue lookup
  have : (fun q : Nat × List Nat => q.1 == o) = (fun y => qkeyQ y == [o]) := by
    funext x; simp [qkeyQ]
  rw [this]

theorem Book.getQueue_setQueue_self (b : Book) (o : Nat) (q : List Nat) : (b.setQueue o q).getQueue o = some q := by
  rw [Book.getQueue_eq_lookup]
  show Option.map _ (lookup qkeyQ (qkeyQ (o, q)) (upsert qkeyQ (o, q) b.queues)) = _
  rw [lookup_upsert_self]; rfl

theorem Book.getQueue_setQueue_ne (b : Book) (o o' : Nat) (q : List Nat) (h : o ≠ o') :
    (b.setQueue o q).getQueue o' = b.getQueue o' := by
  rw [Book.getQueue_eq_lookup, Book.getQueue_eq_lookup]
  show Option.map _ (lookup qkeyQ [o'] (upsert qkeyQ (o, q) b.queues)) = _
  rw [lookup_upsert_ne qkeyQ (o, q) [o'] b.queues (by simp [qkeyQ, h])]

theorem Book.getQueue_mem {b : Book} {o : Nat} {q : List Nat} (h : b.getQueue o = some q) : (o, q) ∈ b.queues := by
  rw [Book.getQueue_eq_lookup] at h
  simp only [Option.map_eq_some_iff] at h
  obtain ⟨x, hx, rfl⟩ := h
  have := lookup_memQ hx
  have e : x.1 = o := by simpa [qkeyQ] using this.2
  rw [← e]; exact this.1

theorem Book.mem_getQueue {b : Book} (hs : Sorted qkeyQ b.queues) {oq : Nat × List Nat} (h : oq ∈ b.queues) :
    b.getQueue oq.1 = some oq.2 := by
  rw [Book.getQueue_eq_lookup]
  have := mem_lookup qkeyQ oq b.queues hs h
  show Option.map _ (lookup qkeyQ (qkeyQ oq) b.queues) = _
  rw [this]; rfl

/-- overwriting the queue of an outcome that has one keeps the outcomes of the book -/
theorem Book.setQueue_keys (b : Book) (o : Nat) (q : List Nat) (hs : Sorted qkeyQ b.queues) (h : (b.getQueue o).isSome) :
    (b.setQueue o q).queues.map (·.1) = b.queues.map (·.1) ∧ Sorted qkeyQ (b.setQueue o q).queues := by
  refine ⟨?_, upsert_sorted qkeyQ _ _ hs⟩
  rw [Book.getQueue_eq_lookup] at h
  cases hl : lookup qkeyQ [o] b.queues with
  | none => rw [hl] at h; cases h
  | some y =>
    have := upsert_keys_of_lookup qkeyQ (o, q) y b.queues hs hl
    have h2 := congrArg (List.map (fun k : List Nat => k.headD 0)) this
    simp only [List.map_map] at h2
    exact h2

theorem Book.getExp_setExp_self (b : Book) (e : PExp) : (b.setExp e).getExp e.odds e.idx = some e :=
  lookup_upsert_self PExp.key e b.pexps

theorem Book.getExp_setExp_ne (b : Book) (e : PExp) (o i : Nat) (h : ¬ (e.odds = o ∧ e.idx = i)) :
    (b.setExp e).getExp o i = b.getExp o i :=
  lookup_upsert_ne PExp.key e [o, i] b.pexps (by
    cases hc : PExp.key e == [o, i]
    · rfl
    · exfalso; apply h
      simpa [PExp.key] using hc)

theorem Book.getExp_key {b : Book} {o i : Nat} {e : PExp} (h : b.getExp o i = some e) : e.odds = o ∧ e.idx = i ∧ e ∈ b.pexps := by
  have := lookup_memQ h
  have hk : e.odds = o ∧ e.idx = i := by simpa [PExp.key] using this.2
  exact ⟨hk.1, hk.2, this.1⟩

theorem Book.mem_getExp {b : Book} (hs : Sorted PExp.key b.pexps) {e : PExp} (h : e ∈ b.pexps) :
    b.getExp e.odds e.idx = some e := mem_lookup PExp.key e b.pexps hs h

theorem Book.mem_getPart {b : Book} (hs : Sorted Part.key b.parts) {p : Part} (h : p ∈ b.parts) :
    b.getPart p.idx = some p := mem_lookup Part.key p b.parts hs h

theorem Book.getPart_mem {b : Book} {i : Nat} {p : Part} (h : b.getPart i = some p) : p ∈ b.parts ∧ p.idx = i := by
  have := lookup_memQ h
  exact ⟨this.1, by simpa [Part.key] using this.2⟩

/-- the participation indices of a book whose index list is `1..n` -/
theorem idx_range_mem {b : Book} (h : b.parts.map (·.idx) = List.range' 1 b.partCount) (i : Nat) :
    (∃ p ∈ b.parts, p.idx = i) ↔ (1 ≤ i ∧ i ≤ b.partCount) := by
  have : (∃ p ∈ b.parts, p.idx = i) ↔ i ∈ b.parts.map (·.idx) := by simp [List.mem_map]
  rw [this, h, List.mem_range'_1]
  omega

theorem Book.setPart_idx (b : Book) (p q : Part) (hs : Sorted Part.key b.parts) (hq : b.getPart p.idx = some q) :
    (b.setPart p).parts.map (·.idx) = b.parts.map (·.idx) := by
  have := upsert_keys_of_lookup Part.key p q b.parts hs hq
  have h2 := congrArg (List.map (fun k : List Nat => k.headD 0)) this
  simp only [List.map_map] at h2
  exact h2

end Sge.Core

namespace Sge.Core
open Sge Sge.Genesis

-- ---------------------------------------------------------------------------------------------
-- the in-place removal loop of `removeNotWithdrawableFromFulfillmentQueue`

theorem goRemoveAux_absent (idx : Nat) : ∀ (n i : Nat) (arr : List Nat) (len : Nat),
    i + n ≤ arr.length → idx ∉ arr.drop i → goRemoveAux idx n i arr len = some (arr, len) := by
  intro n
  induction n with
  | zero => intro i arr len _ _; rfl
  | succ n ih =>
    intro i arr len hl hn
    have hi : i < arr.length := by omega
    rw [List.drop_eq_getElem_cons hi] at hn
    simp only [List.mem_cons, not_or] at hn
    unfold goRemoveAux
    have h1 : (arr.getD i 0 == idx) = false := by
      rw [List.getD_eq_getElem?_getD, List.getElem?_eq_getElem hi]
      simpa using fun e => hn.1 e.symm
    simp only [h1, Bool.false_eq_true, if_false]
    exact ih (i + 1) arr len (by omega) hn.2

theorem goRemoveAux_found (idx : Nat) (post : List Nat) (hpost : idx ∉ post) : ∀ (pre done : List Nat), idx ∉ pre →
    ∃ t, goRemoveAux idx (pre.length + post.length + 1) done.length (done ++ pre ++ idx :: post)
        (done.length + pre.length + post.length + 1) = some (done ++ pre ++ post ++ t, done.length + pre.length + post.length) := by
  intro pre
  induction pre with
  | nil =>
    intro done _
    unfold goRemoveAux
    have h1 : ((done ++ [] ++ idx :: post).getD done.length 0 == idx) = true := by simp
    have h2 : done.length < done.length + ([] : List Nat).length + post.length + 1 := by omega
    simp only [h1, h2, if_true]
    simp
    refine ⟨List.drop post.length (idx :: post), goRemoveAux_absent idx _ _ _ _ (by simp; omega) ?_⟩
    rw [show done.length + 1 = done.length + 1 from rfl, ← List.drop_drop, List.drop_left]
    cases post with
    | nil => simp
    | cons y ys =>
      simp only [List.mem_cons, not_or] at hpost
      simp only [List.length_cons, List.drop_succ_cons, List.cons_append, List.drop_zero, List.mem_append, not_or]
      refine ⟨hpost.2, fun h => ?_⟩
      have := List.mem_of_mem_drop h
      simp only [List.mem_cons] at this
      rcases this with e | e
      · exact hpost.1 e
      · exact hpost.2 e
  | cons x pre ih =>
    intro done hn
    simp only [List.mem_cons, not_or] at hn
    unfold goRemoveAux
    have h1 : ((done ++ x :: pre ++ idx :: post).getD done.length 0 == idx) = false := by
      simp; exact fun e => hn.1 e.symm
    simp only [List.length_cons, h1, Bool.false_eq_true, if_false]
    obtain ⟨t, ht⟩ := ih (done ++ [x]) hn.2
    refine ⟨t, ?_⟩
    simp only [List.length_append, List.length_cons, List.length_nil, List.append_assoc, List.cons_append, List.nil_append] at ht ⊢
    rw [show pre.length + 1 + post.length = pre.length + post.length + 1 by omega] 
    rw [show done.length + (pre.length + 1) + post.length = done.length + (0 + 1) + pre.length + post.length by omega]
    exact ht

/-- on a duplicate-free queue the in-place removal loop of the implementation removes the single occurrence -/
theorem goRemove_nodup (q : List Nat) (idx : Nat) (hq : q.Nodup) : goRemove q idx = some (q.filter (fun j => j != idx)) := by
  unfold goRemove
  by_cases hm : idx ∈ q
  · obtain ⟨pre, post, rfl⟩ := List.append_of_mem hm
    have hn : idx ∉ pre ∧ idx ∉ post := by
      rw [List.nodup_append] at hq
      have h2 := hq.2.1
      rw [List.nodup_cons] at h2
      exact ⟨fun h => hq.2.2 idx h idx (List.mem_cons_self ..) rfl, h2.1⟩
    obtain ⟨t, ht⟩ := goRemoveAux_found idx post hn.2 pre [] hn.1
    simp only [List.length_nil, List.nil_append, Nat.zero_add] at ht
    have hl : (pre ++ idx :: post).length = pre.length + post.length + 1 := by simp; omega
    rw [hl, ht]
    simp only [Option.map_some, Option.some.injEq]
    have hf : ∀ l : List Nat, idx ∉ l → l.filter (fun j => j != idx) = l := by
      intro l hl
      rw [List.filter_eq_self]
      intro a ha
      have : a ≠ idx := fun e => hl (e ▸ ha)
      simpa using this
    rw [List.filter_append, List.filter_cons, hf pre hn.1, hf post hn.2]
    simp
    rw [← List.append_assoc, List.take_left' (by simp)]
  · rw [goRemoveAux_absent idx q.length 0 q q.length (by omega) (by simpa using hm)]
    simp only [Option.map_some, List.take_length, Option.some.injEq]
    rw [List.filter_eq_self.mpr]
    intro a ha
    have : a ≠ idx := fun e => hm (e ▸ ha)
    simpa using this

end Sge.Core

namespace Sge.Core
open Sge Sge.Genesis

-- ---------------------------------------------------------------------------------------------
-- the invariant

/-- 1 if the exposure belongs to participation `i` and is not fulfilled -/
def unfAt (i : Nat) (e : PExp) : Int := if e.idx == i && !e.fulfilled then 1 else 0
/-- 1 if the exposure belongs to participation `i` -/
def cntAt (i : Nat) (e : PExp) : Int := if e.idx == i then 1 else 0
/-- the exposure of participation `i` for outcome `o` exists and is not fulfilled -/
def Book.unf (b : Book) (o i : Nat) : Prop := ∃ e, b.getExp o i = some e ∧ e.fulfilled = false

theorem unfAt_nonneg (i : Nat) (e : PExp) : 0 ≤ unfAt i e := by unfold unfAt; split <;> omega
theorem cntAt_nonneg (i : Nat) (e : PExp) : 0 ≤ cntAt i e := by unfold cntAt; split <;> omega
theorem unfAt_ne {i : Nat} {e : PExp} (h : e.idx ≠ i) : unfAt i e = 0 := by
  unfold unfAt; simp [h]
theorem cntAt_ne {i : Nat} {e : PExp} (h : e.idx ≠ i) : cntAt i e = 0 := by
  unfold cntAt; simp [h]
theorem cntAt_eq {i : Nat} {e : PExp} (h : e.idx = i) : cntAt i e = 1 := by
  unfold cntAt; simp [h]
theorem unfAt_eq {i : Nat} {e : PExp} (h : e.idx = i) : unfAt i e = if e.fulfilled then 0 else 1 := by
  unfold unfAt; cases e.fulfilled <;> simp [h]

/-- store-level well-formedness of a book. `live i` marks the participations whose counters are currently
    written back (all of them between two messages; all but the one in process inside the wager loop). -/
structure BkSInv (b : Book) (live : Nat → Prop) : Prop where
  sP : Sorted Part.key b.parts
  sE : Sorted PExp.key b.pexps
  sH : Sorted PExp.hkey b.hist
  sQ : Sorted qkeyQ b.queues
  pIdx : b.parts.map (·.idx) = List.range' 1 b.partCount
  oc : b.queues.length = b.oddsCount
  eKey : ∀ e ∈ b.pexps, 1 ≤ e.idx ∧ e.idx ≤ b.partCount
  hKey : ∀ h ∈ b.hist, h.idx ≤ b.partCount
  eAll : ∀ i, 1 ≤ i → i ≤ b.partCount → ∀ o ∈ b.queues.map (·.1), (b.getExp o i).isSome
  nf : ∀ i p, live i → b.getPart i = some p → (p.notFilled : Int) = sumBy (unfAt i) b.pexps
  ne : ∀ i, 1 ≤ i → i ≤ b.partCount → sumBy (cntAt i) b.pexps = b.oddsCount
  rnd : ∀ i, live i → ∃ r, (∀ e ∈ b.pexps, e.idx = i → e.round = r) ∧ (∀ h ∈ b.hist, h.idx = i → h.round < r)

/-- a view of the fulfilment queues: duplicate-free, entries are participation indices whose exposure for the
    outcome of the queue is open -/
def QV (b : Book) (qv : Nat → Option (List Nat)) : Prop :=
  ∀ o q, qv o = some q → q.Nodup ∧ ∀ i ∈ q, 1 ≤ i ∧ i ≤ b.partCount ∧ b.unf o i

/-- the queue well-formedness invariant of a stored book -/
structure QInv (b : Book) : Prop where
  s : BkSInv b (fun _ => True)
  q : QV b b.getQueue

theorem BkSInv.weaken {b : Book} {live live' : Nat → Prop} (h : BkSInv b live) (hl : ∀ j, live' j → live j) : BkSInv b live' :=
  ⟨h.sP, h.sE, h.sH, h.sQ, h.pIdx, h.oc, h.eKey, h.hKey, h.eAll, fun i p hi => h.nf i p (hl i hi), h.ne,
   fun i hi => h.rnd i (hl i hi)⟩

/-- changes that leave participations, exposures and history alone and keep the outcomes of the queues -/
theorem BkSInv.of_stores {b b' : Book} {live : Nat → Prop} (h : BkSInv b live) (hp : b'.parts = b.parts) (he : b'.pexps = b.pexps)
    (hh : b'.hist = b.hist) (hc : b'.partCount = b.partCount) (ho : b'.oddsCount = b.oddsCount)
    (hk : b'.queues.map (·.1) = b.queues.map (·.1)) (hs : Sorted qkeyQ b'.queues) : BkSInv b' live := by
  have hgp : ∀ i, b'.getPart i = b.getPart i := by intro i; unfold Book.getPart; rw [hp]
  have hge : ∀ o i, b'.getExp o i = b.getExp o i := by intro o i; unfold Book.getExp; rw [he]
  refine ⟨by rw [hp]; exact h.sP, by rw [he]; exact h.sE, by rw [hh]; exact h.sH, hs, by rw [hp, hc]; exact h.pIdx, ?_,
    by rw [he, hc]; exact h.eKey, by rw [hh, hc]; exact h.hKey, ?_, ?_, by rw [he, hc, ho]; exact h.ne, by rw [he, hh]; exact h.rnd⟩
  · have := congrArg List.length hk
    simp only [List.length_map] at this
    rw [this, ho]; exact h.oc
  · intro i h1 h2 o hm
    rw [hge]
    rw [hk] at hm
    exact h.eAll i h1 (by rw [← hc]; exact h2) o hm
  · intro i p hl hg
    rw [hgp] at hg
    rw [he]; exact h.nf i p hl hg

/-- writing an exposure over a stored one of the same round -/
theorem BkSInv.setExp {b : Book} {live live' : Nat → Prop} (h : BkSInv b live) (e' e0 : PExp)
    (h0 : b.getExp e'.odds e'.idx = some e0) (hr : e'.round = e0.round)
    (hl : ∀ j, live' j → live j ∧ (j = e'.idx → e'.fulfilled = e0.fulfilled)) : BkSInv (b.setExp e') live' := by
  obtain ⟨k1, k2, k3⟩ := Book.getExp_key h0
  have hlk : lookup PExp.key (PExp.key e') b.pexps = some e0 := h0
  have hge : ∀ o i, ((b.setExp e').getExp o i).isSome = (b.getExp o i).isSome := by
    intro o i
    by_cases hc : e'.odds = o ∧ e'.idx = i
    · rw [← hc.1, ← hc.2, Book.getExp_setExp_self, h0]; rfl
    · rw [Book.getExp_setExp_ne _ _ _ _ hc]
  refine ⟨h.sP, upsert_sorted PExp.key e' b.pexps h.sE, h.sH, h.sQ, h.pIdx, h.oc, ?_, h.hKey, ?_, ?_, ?_, ?_⟩
  · intro e he
    rcases (mem_upsert_iff PExp.key e' e b.pexps h.sE).mp he with rfl | he
    · rw [← k2]; exact h.eKey e0 k3
    · exact h.eKey e he.1
  · intro i h1 h2 o hm
    rw [hge]; exact h.eAll i h1 h2 o hm
  · intro i p hli hg
    obtain ⟨hl1, hl2⟩ := hl i hli
    show _ = sumBy (unfAt i) (upsert PExp.key e' b.pexps)
    rw [sumBy_upsert PExp.key _ e' b.pexps h.sE, hlk]
    simp only
    have : unfAt i e' = unfAt i e0 := by
      by_cases hi : i = e'.idx
      · unfold unfAt; rw [hl2 hi, k2, hi]
      · rw [unfAt_ne (fun e => hi e.symm), unfAt_ne (by rw [k2]; exact fun e => hi e.symm)]
    rw [this, h.nf i p hl1 hg]; omega
  · intro i h1 h2
    show sumBy (cntAt i) (upsert PExp.key e' b.pexps) = _
    rw [sumBy_upsert PExp.key _ e' b.pexps h.sE, hlk]
    simp only
    have : cntAt i e' = cntAt i e0 := by unfold cntAt; rw [k2]
    have hne := h.ne i h1 h2
    show _ = (b.oddsCount : Int)
    rw [this, ← hne]; omega
  · intro i hli
    obtain ⟨r, r1, r2⟩ := h.rnd i (hl i hli).1
    refine ⟨r, ?_, r2⟩
    intro e he hei
    rcases (mem_upsert_iff PExp.key e' e b.pexps h.sE).mp he with rfl | he
    · rw [hr]; exact r1 e0 k3 (by rw [k2]; exact hei)
    · exact r1 e he.1 hei

/-- writing a participation over the stored one -/
theorem BkSInv.setPart {b : Book} {live live' : Nat → Prop} (h : BkSInv b live) (p' p0 : Part)
    (h0 : b.getPart p'.idx = some p0)
    (hl : ∀ j, live' j → (j = p'.idx → (p'.notFilled : Int) = sumBy (unfAt j) b.pexps) ∧ (j ≠ p'.idx → live j))
    (hr : ∀ j, live' j → j = p'.idx → ∃ r, (∀ e ∈ b.pexps, e.idx = j → e.round = r) ∧ (∀ h ∈ b.hist, h.idx = j → h.round < r)) :
    BkSInv (b.setPart p') live' := by
  refine ⟨upsert_sorted Part.key p' b.parts h.sP, h.sE, h.sH, h.sQ, ?_, h.oc, h.eKey, h.hKey, h.eAll, ?_, h.ne, ?_⟩
  · rw [Book.setPart_idx b p' p0 h.sP h0]; exact h.pIdx
  · intro i p hli hg
    by_cases hi : i = p'.idx
    · rw [hi, Book.getPart_setPart_self] at hg
      cases hg
      exact (hl i hli).1 hi
    · rw [Book.getPart_setPart_ne _ _ _ (fun e => hi e.symm)] at hg
      exact h.nf i p ((hl i hli).2 hi) hg
  · intro i hli
    by_cases hi : i = p'.idx
    · exact hr i hli hi
    · exact h.rnd i ((hl i hli).2 hi)

theorem BkSInv.inRange_iff {b : Book} {live : Nat → Prop} (h : BkSInv b live) (i : Nat) :
    (∃ p, b.getPart i = some p) ↔ (1 ≤ i ∧ i ≤ b.partCount) := by
  rw [← idx_range_mem h.pIdx]
  constructor
  · rintro ⟨p, hp⟩
    have := Book.getPart_mem hp
    exact ⟨p, this.1, this.2⟩
  · rintro ⟨p, hp, rfl⟩
    exact ⟨p, Book.mem_getPart h.sP hp⟩

theorem Book.getQueue_isSome_iff (b : Book) (o : Nat) : (b.getQueue o).isSome ↔ o ∈ b.queues.map (·.1) := by
  constructor
  · intro h
    cases hq : b.getQueue o with
    | none => rw [hq] at h; cases h
    | some q =>
      have := Book.getQueue_mem hq
      exact List.mem_map.mpr ⟨(o, q), this, rfl⟩
  · intro h
    obtain ⟨oq, hm, rfl⟩ := List.mem_map.mp h
    unfold Book.getQueue
    cases hf : b.queues.find? (fun q => q.1 == oq.1) with
    | some x => rfl
    | none =>
      rw [List.find?_eq_none] at hf
      have := hf oq hm
      simp at this

/-- a new view of the queues whose entries are old entries (whose exposure stayed open) or fresh open ones -/
theorem QV.mono {b b' : Book} {qv qv' : Nat → Option (List Nat)} (h : QV b qv) (hc : b'.partCount = b.partCount)
    (hq : ∀ o q', qv' o = some q' → q'.Nodup ∧ ∀ j ∈ q',
      (∃ q, qv o = some q ∧ j ∈ q ∧ (b.unf o j → b'.unf o j)) ∨ (1 ≤ j ∧ j ≤ b.partCount ∧ b'.unf o j)) : QV b' qv' := by
  intro o q' hq'
  obtain ⟨hn, hm⟩ := hq o q' hq'
  refine ⟨hn, ?_⟩
  intro j hj
  rw [hc]
  rcases hm j hj with ⟨q, hq0, hjq, hu⟩ | ⟨h1, h2, h3⟩
  · obtain ⟨_, hm0⟩ := h o q hq0
    obtain ⟨a1, a2, a3⟩ := hm0 j hjq
    exact ⟨a1, a2, hu a3⟩
  · exact ⟨h1, h2, h3⟩

end Sge.Core

namespace Sge.Core
open Sge Sge.Genesis

-- ---------------------------------------------------------------------------------------------
-- loops that rewrite the queue of every outcome

theorem Book.getQueue_congr {b b' : Book} (h : b'.queues = b.queues) (o : Nat) : b'.getQueue o = b.getQueue o := by
  unfold Book.getQueue; rw [h]

theorem sorted_qkey_pairwise {l : List (Nat × List Nat)} (h : Sorted qkeyQ l) : l.Pairwise (fun a c => a.1 ≠ c.1) := by
  unfold Sorted at h
  refine List.Pairwise.imp ?_ h
  intro a c hac e
  simp only [qkeyQ] at hac
  rw [e, ltL_irrefl] at hac
  cases hac

/-- a loop over the outcome queues that replaces the queue of each outcome by `g` of it -/
theorem foldQueues_getQueue (step : Book → Nat × List Nat → Book) (g : Nat × List Nat → List Nat)
    (hstep : ∀ b oq, (step b oq).queues = (b.setQueue oq.1 (g oq)).queues) :
    ∀ (l : List (Nat × List Nat)) (b : Book), l.Pairwise (fun a c => a.1 ≠ c.1) →
      ∀ o, (l.foldl step b).getQueue o =
        (match l.find? (fun x => x.1 == o) with | some oq => some (g oq) | none => b.getQueue o) := by
  intro l
  induction l with
  | nil => intro b _ o; rfl
  | cons x xs ih =>
    intro b hp o
    rw [List.pairwise_cons] at hp
    simp only [List.foldl_cons]
    rw [ih (step b x) hp.2 o]
    by_cases hx : x.1 = o
    · have hnone : xs.find? (fun y => y.1 == o) = none := by
        rw [List.find?_eq_none]
        intro y hy
        have := hp.1 y hy
        simpa using fun e => this (hx.trans e.symm)
      rw [hnone]
      simp only [List.find?, hx, beq_self_eq_true]
      rw [Book.getQueue_congr (hstep b x), hx, Book.getQueue_setQueue_self]
    · have hx' : (x.1 == o) = false := by simpa using hx
      simp only [List.find?, hx']
      cases hf : xs.find? (fun y => y.1 == o) with
      | some y => rfl
      | none =>
        simp only
        rw [Book.getQueue_congr (hstep b x), Book.getQueue_setQueue_ne _ _ _ _ hx]

theorem foldQueues_keys (step : Book → Nat × List Nat → Book) (g : Nat × List Nat → List Nat)
    (hstep : ∀ b oq, (step b oq).queues = (b.setQueue oq.1 (g oq)).queues) :
    ∀ (l : List (Nat × List Nat)) (b : Book), Sorted qkeyQ b.queues → (∀ oq ∈ l, oq.1 ∈ b.queues.map (·.1)) →
      (l.foldl step b).queues.map (·.1) = b.queues.map (·.1) ∧ Sorted qkeyQ (l.foldl step b).queues := by
  intro l
  induction l with
  | nil => intro b hs _; exact ⟨rfl, hs⟩
  | cons x xs ih =>
    intro b hs hm
    simp only [List.foldl_cons]
    have hx := hm x (List.mem_cons_self ..)
    have hk := Book.setQueue_keys b x.1 (g x) hs ((Book.getQueue_isSome_iff b x.1).mpr hx)
    rw [← hstep b x] at hk
    have := ih (step b x) hk.2 (by
      intro oq hoq
      rw [hk.1]; exact hm oq (List.mem_cons_of_mem _ hoq))
    exact ⟨this.1.trans hk.1, this.2⟩

/-- the loop over the book's own queues -/
theorem foldQueues_self (step : Book → Nat × List Nat → Book) (g : Nat × List Nat → List Nat)
    (hstep : ∀ b oq, (step b oq).queues = (b.setQueue oq.1 (g oq)).queues) (b : Book) (hs : Sorted qkeyQ b.queues) :
    (∀ o, (b.queues.foldl step b).getQueue o = (b.getQueue o).map (fun q => g (o, q))) ∧
    (b.queues.foldl step b).queues.map (·.1) = b.queues.map (·.1) ∧ Sorted qkeyQ (b.queues.foldl step b).queues := by
  refine ⟨?_, foldQueues_keys step g hstep b.queues b hs (fun oq h => List.mem_map.mpr ⟨oq, h, rfl⟩)⟩
  intro o
  rw [foldQueues_getQueue step g hstep b.queues b (sorted_qkey_pairwise hs) o]
  unfold Book.getQueue
  cases hf : b.queues.find? (fun x => x.1 == o) with
  | none => rfl
  | some oq =>
    have : oq.1 = o := by simpa using List.find?_some hf
    simp only [Option.map_some]
    rw [← this]

end Sge.Core

namespace Sge.Core
open Sge Sge.Genesis

-- ---------------------------------------------------------------------------------------------
-- deposits

/-- the exposure a deposit opens for one outcome -/
def freshExp (o n : Nat) : PExp := { odds := o, idx := n, exposure := 0, bet := 0, fulfilled := false, round := 1 }

theorem initFold_fields (n : Nat) : ∀ (l : List (Nat × List Nat)) (b : Book),
    (l.foldl (initExposures n) b).parts = b.parts ∧ (l.foldl (initExposures n) b).hist = b.hist ∧
    (l.foldl (initExposures n) b).partCount = b.partCount ∧ (l.foldl (initExposures n) b).oddsCount = b.oddsCount ∧
    (l.foldl (initExposures n) b).pexps = l.foldl (fun ps oq => upsert PExp.key (freshExp oq.1 n) ps) b.pexps := by
  intro l
  induction l with
  | nil => intro b; exact ⟨rfl, rfl, rfl, rfl, rfl⟩
  | cons x xs ih =>
    intro b
    simp only [List.foldl_cons]
    have := ih (initExposures n b x)
    exact ⟨this.1, this.2.1, this.2.2.1, this.2.2.2.1, this.2.2.2.2⟩

theorem freshFold (n : Nat) : ∀ (l : List (Nat × List Nat)) (ps0 : List PExp), Sorted PExp.key ps0 →
    l.Pairwise (fun a c => a.1 ≠ c.1) → (∀ e ∈ ps0, e.idx = n → ∀ oq ∈ l, e.odds ≠ oq.1) →
    Sorted PExp.key (l.foldl (fun ps oq => upsert PExp.key (freshExp oq.1 n) ps) ps0) ∧
    (∀ e, e ∈ l.foldl (fun ps oq => upsert PExp.key (freshExp oq.1 n) ps) ps0 ↔ e ∈ ps0 ∨ ∃ oq ∈ l, e = freshExp oq.1 n) ∧
    (∀ j, sumBy (cntAt j) (l.foldl (fun ps oq => upsert PExp.key (freshExp oq.1 n) ps) ps0) =
      sumBy (cntAt j) ps0 + if j = n then (l.length : Int) else 0) ∧
    (∀ j, sumBy (unfAt j) (l.foldl (fun ps oq => upsert PExp.key (freshExp oq.1 n) ps) ps0) =
      sumBy (unfAt j) ps0 + if j = n then (l.length : Int) else 0) ∧
    (∀ o i, (i ≠ n ∨ ∀ oq ∈ l, oq.1 ≠ o) → lookup PExp.key [o, i] (l.foldl (fun ps oq => upsert PExp.key (freshExp oq.1 n) ps) ps0) =
      lookup PExp.key [o, i] ps0) ∧
    (∀ oq ∈ l, lookup PExp.key [oq.1, n] (l.foldl (fun ps oq => upsert PExp.key (freshExp oq.1 n) ps) ps0) = some (freshExp oq.1 n)) := by
  intro l
  induction l with
  | nil =>
    intro ps0 hs _ _
    refine ⟨hs, by simp, by simp, by simp, fun _ _ _ => rfl, fun _ h => by cases h⟩
  | cons x xs ih =>
    intro ps0 hs hp hn
    rw [List.pairwise_cons] at hp
    simp only [List.foldl_cons]
    have hnone : lookup PExp.key (PExp.key (freshExp x.1 n)) ps0 = none := by
      rw [lookup_eq_none_iff]
      intro y hy hk
      have : y.odds = x.1 ∧ y.idx = n := by simpa [PExp.key, freshExp] using hk
      exact hn y hy this.2 x (List.mem_cons_self ..) this.1
    have hkne : ∀ y ∈ ps0, (PExp.key y == PExp.key (freshExp x.1 n)) = false := by
      intro y hy
      have := (lookup_eq_none_iff _ _ _).mp hnone y hy
      simpa using this
    have hmem1 : ∀ e, e ∈ upsert PExp.key (freshExp x.1 n) ps0 ↔ e = freshExp x.1 n ∨ e ∈ ps0 := by
      intro e
      rw [mem_upsert_iff PExp.key _ e ps0 hs]
      constructor
      · rintro (h | h)
        · exact Or.inl h
        · exact Or.inr h.1
      · rintro (h | h)
        · exact Or.inl h
        · exact Or.inr ⟨h, hkne e h⟩
    obtain ⟨i1, i2, i3, i4, i5, i6⟩ := ih (upsert PExp.key (freshExp x.1 n) ps0) (upsert_sorted _ _ _ hs) hp.2 (by
      intro e he hen oq hoq
      rcases (hmem1 e).mp he with rfl | he
      · exact hp.1 oq hoq
      · exact hn e he hen oq (List.mem_cons_of_mem _ hoq))
    refine ⟨i1, ?_, ?_, ?_, ?_, ?_⟩
    · intro e
      rw [i2 e, hmem1 e]
      constructor
      · rintro ((h | h) | ⟨oq, h1, h2⟩)
        · exact Or.inr ⟨x, List.mem_cons_self .., h⟩
        · exact Or.inl h
        · exact Or.inr ⟨oq, List.mem_cons_of_mem _ h1, h2⟩
      · rintro (h | ⟨oq, h1, h2⟩)
        · exact Or.inl (Or.inr h)
        · rcases List.mem_cons.mp h1 with rfl | h1
          · exact Or.inl (Or.inl h2)
          · exact Or.inr ⟨oq, h1, h2⟩
    · intro j
      rw [i3 j, sumBy_upsert PExp.key _ _ ps0 hs, hnone]
      simp only [List.length_cons]
      by_cases hj : j = n
      · subst hj
        rw [cntAt_eq (by rfl)]
        simp only [if_true]
        push_cast
        omega
      · rw [cntAt_ne (by show n ≠ j; exact fun e => hj e.symm)]
        simp only [hj, if_false]
        omega
    · intro j
      rw [i4 j, sumBy_upsert PExp.key _ _ ps0 hs, hnone]
      simp only [List.length_cons]
      by_cases hj : j = n
      · subst hj
        rw [unfAt_eq (by rfl)]
        simp only [if_true, freshExp]
        push_cast
        omega
      · rw [unfAt_ne (by show n ≠ j; exact fun e => hj e.symm)]
        simp only [hj, if_false]
        omega
    · intro o i hc
      rw [i5 o i (by
        rcases hc with h | h
        · exact Or.inl h
        · exact Or.inr (fun oq hoq => h oq (List.mem_cons_of_mem _ hoq)))]
      apply lookup_upsert_ne
      cases hk : PExp.key (freshExp x.1 n) == [o, i]
      · rfl
      · exfalso
        have : x.1 = o ∧ n = i := by simpa [PExp.key, freshExp] using hk
        rcases hc with h | h
        · exact h this.2.symm
        · exact h x (List.mem_cons_self ..) this.1
    · intro oq hoq
      rcases List.mem_cons.mp hoq with rfl | hoq
      · rw [i5 oq.1 n (Or.inr (fun oq' h' e => hp.1 oq' h' e.symm))]
        exact lookup_upsert_self PExp.key (freshExp oq.1 n) ps0
      · exact i6 oq hoq

/-- a deposit keeps the queue invariant -/
theorem addParticipation_QInv (b : Book) (addr : Nat) (liq fee : Int) (h : QInv b) :
    QInv (b.addParticipation addr liq fee).1 := by
  obtain ⟨hS, hQ⟩ := h
  have hnew : ∀ p ∈ b.parts, p.idx ≤ b.partCount := by
    intro p hp
    exact ((idx_range_mem hS.pIdx p.idx).mp ⟨p, hp, rfl⟩).2
  -- the book after the new participation is stored
  let np := b.newPart addr liq fee
  let b1 := b.setPart np
  have hstep : ∀ (bk : Book) (oq : Nat × List Nat),
      (initExposures (b.partCount + 1) bk oq).queues = (bk.setQueue oq.1 ((fun x : Nat × List Nat => x.2 ++ [b.partCount + 1]) oq)).queues := fun _ _ => rfl
  obtain ⟨q1, q2, q3⟩ := foldQueues_self (initExposures (b.partCount + 1)) (fun x => x.2 ++ [b.partCount + 1]) hstep b1 hS.sQ
  obtain ⟨f1, f2, f3, f4, f5⟩ := initFold_fields (b.partCount + 1) b1.queues b1
  have hnoN : ∀ e ∈ b.pexps, e.idx ≠ b.partCount + 1 := by
    intro e he
    have := (hS.eKey e he).2
    omega
  obtain ⟨g1, g2, g3, g4, g5, g6⟩ := freshFold (b.partCount + 1) b1.queues b.pexps hS.sE (sorted_qkey_pairwise hS.sQ)
    (fun e he hen => absurd hen (hnoN e he))
  have hz1 : sumBy (cntAt (b.partCount + 1)) b.pexps = 0 := sumBy_zeroQ _ _ (fun e he => cntAt_ne (hnoN e he))
  have hz2 : sumBy (unfAt (b.partCount + 1)) b.pexps = 0 := sumBy_zeroQ _ _ (fun e he => unfAt_ne (hnoN e he))
  -- name the result
  generalize hB : (b.addParticipation addr liq fee).1 = B
  have eParts : B.parts = upsert Part.key np b.parts := by rw [← hB]; exact f1
  have eHist : B.hist = b.hist := by rw [← hB]; exact f2
  have ePc : B.partCount = b.partCount + 1 := by rw [← hB]; rfl
  have eOc : B.oddsCount = b.oddsCount := by rw [← hB]; exact f4
  have eExps : B.pexps = b1.queues.foldl (fun ps oq => upsert PExp.key (freshExp oq.1 (b.partCount + 1)) ps) b.pexps := by
    rw [← hB]; exact f5
  have eQ : ∀ o, B.getQueue o = (b.getQueue o).map (fun q => q ++ [b.partCount + 1]) := by
    intro o; rw [← hB]; exact q1 o
  have eKeys : B.queues.map (·.1) = b.queues.map (·.1) := by rw [← hB]; exact q2
  have eSQ : Sorted qkeyQ B.queues := by rw [← hB]; exact q3
  have hgp : ∀ i, i ≠ b.partCount + 1 → B.getPart i = b.getPart i := by
    intro i hi
    unfold Book.getPart; rw [eParts]
    exact lookup_upsert_ne Part.key np [i] b.parts (by
      simpa [Part.key] using fun e : np.idx = i => hi (e.symm.trans rfl))
  have hgpN : B.getPart (b.partCount + 1) = some np := by
    unfold Book.getPart; rw [eParts]
    exact lookup_upsert_self Part.key np b.parts
  have hge : ∀ o i, i ≠ b.partCount + 1 → B.getExp o i = b.getExp o i := by
    intro o i hi
    unfold Book.getExp; rw [eExps]
    exact g5 o i (Or.inl hi)
  have hgeN : ∀ o, o ∈ b.queues.map (·.1) → B.getExp o (b.partCount + 1) = some (freshExp o (b.partCount + 1)) := by
    intro o ho
    obtain ⟨oq, hoq, rfl⟩ := List.mem_map.mp ho
    unfold Book.getExp; rw [eExps]
    exact g6 oq hoq
  have hlen : (b1.queues.length : Int) = b.oddsCount := by
    show ((b.queues.length : Nat) : Int) = _
    rw [hS.oc]
  constructor
  · refine ⟨?_, ?_, ?_, eSQ, ?_, ?_, ?_, ?_, ?_, ?_, ?_, ?_⟩
    · rw [eParts]; exact upsert_sorted Part.key np b.parts hS.sP
    · rw [eExps]; exact g1
    · rw [eHist]; exact hS.sH
    · rw [eParts, ePc, upsert_append Part.key np b.parts (by
        intro y hy
        have := hnew y hy
        show ltL [y.idx] [b.partCount + 1] = true
        simp [ltL]; omega)]
      rw [List.map_append, hS.pIdx, List.range'_concat]
      simp [np, Book.newPart, Nat.add_comm]
    · have := congrArg List.length eKeys
      simp only [List.length_map] at this
      rw [this, eOc]; exact hS.oc
    · intro e he
      rw [eExps, g2] at he
      rw [ePc]
      rcases he with he | ⟨oq, _, rfl⟩
      · have := hS.eKey e he; omega
      · simp [freshExp]
    · intro x hx
      rw [eHist] at hx
      rw [ePc]
      have := hS.hKey x hx; omega
    · intro i h1 h2 o ho
      rw [eKeys] at ho
      by_cases hi : i = b.partCount + 1
      · rw [hi, hgeN o ho]; rfl
      · rw [hge o i hi]
        exact hS.eAll i h1 (by rw [ePc] at h2; omega) o ho
    · intro i p _ hg
      rw [eExps, g4 i]
      by_cases hi : i = b.partCount + 1
      · rw [hi] at hg ⊢
        rw [hgpN] at hg
        cases hg
        simp only [if_true]
        rw [hz2, hlen]
        simp [np, Book.newPart]
      · rw [hgp i hi] at hg
        simp only [hi, if_false]
        rw [hS.nf i p trivial hg]; omega
    · intro i h1 h2
      rw [eExps, g3 i, eOc]
      by_cases hi : i = b.partCount + 1
      · rw [hi]
        simp only [if_true]
        rw [hz1, hlen]; omega
      · simp only [hi, if_false]
        rw [hS.ne i h1 (by rw [ePc] at h2; omega)]; omega
    · intro i _
      by_cases hi : i = b.partCount + 1
      · refine ⟨1, ?_, ?_⟩
        · intro e he hei
          rw [eExps, g2] at he
          rcases he with he | ⟨oq, _, rfl⟩
          · exact absurd (hei.trans hi) (hnoN e he)
          · rfl
        · intro x hx hxi
          rw [eHist] at hx
          have := hS.hKey x hx; omega
      · obtain ⟨r, r1, r2⟩ := hS.rnd i trivial
        refine ⟨r, ?_, by rw [eHist]; exact r2⟩
        intro e he hei
        rw [eExps, g2] at he
        rcases he with he | ⟨oq, _, rfl⟩
        · exact r1 e he hei
        · exact absurd hei.symm hi
  · intro o q' hq'
    rw [eQ o] at hq'
    simp only [Option.map_eq_some_iff] at hq'
    obtain ⟨q, hq, rfl⟩ := hq'
    obtain ⟨hn, hm⟩ := hQ o q hq
    have hok : o ∈ b.queues.map (·.1) := (Book.getQueue_isSome_iff b o).mp (by rw [hq]; rfl)
    constructor
    · rw [List.nodup_append]
      refine ⟨hn, by simp, ?_⟩
      intro a ha c hc e
      simp only [List.mem_cons, List.not_mem_nil, or_false] at hc
      have := (hm a ha).2.1
      omega
    · intro j hj
      rw [ePc]
      simp only [List.mem_append, List.mem_cons, List.not_mem_nil, or_false] at hj
      rcases hj with hj | rfl
      · obtain ⟨a1, a2, e, a3, a4⟩ := hm j hj
        refine ⟨a1, by omega, e, ?_, a4⟩
        rw [hge o j (by omega)]; exact a3
      · exact ⟨by omega, by omega, freshExp o (b.partCount + 1), hgeN o hok, rfl⟩

end Sge.Core

namespace Sge.Core
open Sge Sge.Genesis

-- ---------------------------------------------------------------------------------------------
-- withdrawals

/-- with duplicate-free queues `removeNotWithdrawableFromFulfillmentQueue` never panics and filters every queue -/
theorem removeFromQueues_eq (idx : Nat) : ∀ (l : List (Nat × List Nat)) (b : Book), (∀ oq ∈ l, oq.2.Nodup) →
    removeFromQueues idx l b = some (l.foldl (fun bk oq => bk.setQueue oq.1 (oq.2.filter (fun j => j != idx))) b) := by
  intro l
  induction l with
  | nil => intro b _; rfl
  | cons x xs ih =>
    intro b hn
    unfold removeFromQueues
    rw [goRemove_nodup x.2 idx (hn x (List.mem_cons_self ..))]
    simp only [List.foldl_cons]
    exact ih _ (fun oq h => hn oq (List.mem_cons_of_mem _ h))

theorem setQueueFold_fields (g : Nat × List Nat → List Nat) : ∀ (l : List (Nat × List Nat)) (b : Book),
    (l.foldl (fun bk oq => bk.setQueue oq.1 (g oq)) b).parts = b.parts ∧
    (l.foldl (fun bk oq => bk.setQueue oq.1 (g oq)) b).pexps = b.pexps ∧
    (l.foldl (fun bk oq => bk.setQueue oq.1 (g oq)) b).hist = b.hist ∧
    (l.foldl (fun bk oq => bk.setQueue oq.1 (g oq)) b).partCount = b.partCount ∧
    (l.foldl (fun bk oq => bk.setQueue oq.1 (g oq)) b).oddsCount = b.oddsCount ∧
    (l.foldl (fun bk oq => bk.setQueue oq.1 (g oq)) b).uid = b.uid := by
  intro l
  induction l with
  | nil => intro b; exact ⟨rfl, rfl, rfl, rfl, rfl, rfl⟩
  | cons x xs ih =>
    intro b
    simp only [List.foldl_cons]
    exact ih (b.setQueue x.1 (g x))

/-- a withdrawal keeps the queue invariant -/
theorem withdraw_QInv (b b' : Book) (idx : Nat) (w : Int) (h : QInv b) (hw : b.withdraw idx w = some b') : QInv b' := by
  obtain ⟨hS, hQ⟩ := h
  unfold Book.withdraw at hw
  cases hp : b.getPart idx with
  | none => rw [hp] at hw; cases hw
  | some p =>
    rw [hp] at hw
    simp only at hw
    have hpi := Book.getPart_idx hp
    have hS1 : BkSInv (b.setPart { p with crl := p.crl - w, liq := p.liq - w }) (fun _ => True) := by
      apply BkSInv.setPart hS _ p (by show b.getPart p.idx = some p; rw [hpi]; exact hp)
      · intro j _
        refine ⟨fun hj => ?_, fun _ => trivial⟩
        have hj : j = idx := hj.trans hpi
        rw [hj]
        exact hS.nf idx p trivial hp
      · intro j _ _
        exact hS.rnd j trivial
    have hQ1 : QV (b.setPart { p with crl := p.crl - w, liq := p.liq - w }) (b.setPart { p with crl := p.crl - w, liq := p.liq - w }).getQueue := hQ
    split at hw
    · cases hw; exact ⟨hS1, hQ1⟩
    · generalize hb1 : b.setPart { p with crl := p.crl - w, liq := p.liq - w } = b1 at hw hS1 hQ1
      have hnd : ∀ oq ∈ b1.queues, oq.2.Nodup := by
        intro oq hoq
        exact (hQ1 oq.1 oq.2 (Book.mem_getQueue hS1.sQ hoq)).1
      rw [removeFromQueues_eq idx b1.queues b1 hnd] at hw
      cases hw
      obtain ⟨q1, q2, q3⟩ := foldQueues_self (fun bk oq => bk.setQueue oq.1 (oq.2.filter (fun j => j != idx)))
        (fun oq => oq.2.filter (fun j => j != idx)) (fun _ _ => rfl) b1 hS1.sQ
      obtain ⟨f1, f2, f3, f4, f5, _⟩ := setQueueFold_fields (fun oq => oq.2.filter (fun j => j != idx)) b1.queues b1
      constructor
      · exact BkSInv.of_stores hS1 f1 f2 f3 f4 f5 q2 q3
      · apply QV.mono hQ1 f4
        intro o q' hq'
        rw [q1 o] at hq'
        simp only [Option.map_eq_some_iff] at hq'
        obtain ⟨q, hq, rfl⟩ := hq'
        refine ⟨(hQ1 o q hq).1.filter _, ?_⟩
        intro j hj
        left
        refine ⟨q, hq, (List.mem_filter.mp hj).1, ?_⟩
        intro hu
        unfold Book.unf Book.getExp at hu ⊢
        rw [f2]; exact hu

end Sge.Core
