/-
  Hooks never fail (C11 on the combined slice), part 3: the invariant that links the account summary of a subaccount
  to the order book. `cmb2_val c a (uid, idx)` is what the UNPAID participation `idx` of book `uid` still holds of
  address `a` (liquidity + house fee; 0 when the record does not exist, is paid, or belongs to somebody else).
  `cmb2_SpentInv`: for every address of the subaccount range and every duplicate-free list of keys, the values add up to
  at most `Spent` of the account summary (0 when there is none). A subaccount house deposit raises both sides by the
  deposit, a withdrawal lowers both by the amount paid out, settlement lowers the left side by liquidity + fee and the
  right side by what the hooks un-spend (liquidity, and the fee only when it goes back to the depositor: a fee routed to
  the market creator stays `Spent` for ever, which is why this is an inequality).
  `cmb2_AvailOK`: `Available()` of every account summary is non-negative.
-/
import SgeProofs.Lemmas.CombinedHooksTotalFrames
namespace Sge.Combined
open Sge Sge.Core Sge.Genesis
open Sge.Subaccount (Summary SumNonneg spend_some unspend_some addLoss_some withdraw_some)

-- ---------------------------------------------------------------------------------------------
-- sums

theorem cmb2_sumBy_le {α : Type} (f g : α → Int) (l : List α) (h : ∀ x ∈ l, f x ≤ g x) : sumBy f l ≤ sumBy g l := by
  induction l with
  | nil => exact Int.le_refl _
  | cons x xs ih =>
    rw [sumBy_cons, sumBy_cons]
    have := h x (List.mem_cons_self ..)
    have := ih (fun y hy => h y (List.mem_cons_of_mem _ hy))
    omega

theorem cmb2_sumBy_ind {κ : Type} [DecidableEq κ] (k0 : κ) (v : Int) : ∀ L : List κ, L.Nodup →
    sumBy (fun k => if k = k0 then v else 0) L = if k0 ∈ L then v else 0 := by
  intro L
  induction L with
  | nil => intro _; rfl
  | cons x xs ih =>
    intro hn
    rw [List.nodup_cons] at hn
    rw [sumBy_cons, ih hn.2]
    by_cases hx : x = k0
    · subst hx
      simp only [if_true, List.mem_cons, true_or, if_neg hn.1]
      omega
    · have : (k0 ∈ x :: xs) ↔ k0 ∈ xs := by
        simp only [List.mem_cons]
        constructor
        · rintro (h | h)
          · exact absurd h.symm hx
          · exact h
        · exact Or.inr
      simp only [if_neg hx, this]
      omega

theorem cmb2_sumBy_add {α : Type} (f g : α → Int) (l : List α) : sumBy (fun x => f x + g x) l = sumBy f l + sumBy g l := by
  induction l with
  | nil => rfl
  | cons x xs ih => rw [sumBy_cons, sumBy_cons, sumBy_cons, ih]; omega

-- ---------------------------------------------------------------------------------------------
-- what an unpaid participation holds of an address

def cmb2_val (c : Core.State) (a : Nat) (k : Nat × Nat) : Int :=
  match getBook c k.1 with
  | some b =>
    match b.getPart k.2 with
    | some p => if p.isSettled = false ∧ p.addr = a then p.liq + p.fee else 0
    | none => 0
  | none => 0

theorem cmb2_val_get {c : Core.State} {a u i : Nat} {b : Book} {p : Part} (hb : getBook c u = some b) (hp : b.getPart i = some p) :
    cmb2_val c a (u, i) = if p.isSettled = false ∧ p.addr = a then p.liq + p.fee else 0 := by
  unfold cmb2_val
  simp only [hb, hp]

theorem cmb2_val_noBook {c : Core.State} {a u i : Nat} (hb : getBook c u = none) : cmb2_val c a (u, i) = 0 := by
  unfold cmb2_val
  simp only [hb]

theorem cmb2_val_noPart {c : Core.State} {a u i : Nat} {b : Book} (hb : getBook c u = some b) (hp : b.getPart i = none) :
    cmb2_val c a (u, i) = 0 := by
  unfold cmb2_val
  simp only [hb, hp]

theorem cmb2_val_congr {c c' : Core.State} (h : c'.books = c.books) (a : Nat) (k : Nat × Nat) : cmb2_val c' a k = cmb2_val c a k := by
  unfold cmb2_val
  rw [getBook_congr h]

/-- to bound a value from above it suffices to look at an unpaid record of the address under that key -/
theorem cmb2_val_le {c : Core.State} {a : Nat} {k : Nat × Nat} {X : Int} (h0 : 0 ≤ X)
    (h : ∀ b p, getBook c k.1 = some b → b.getPart k.2 = some p → p.isSettled = false → p.addr = a → p.liq + p.fee ≤ X) :
    cmb2_val c a k ≤ X := by
  obtain ⟨u, i⟩ := k
  cases hb : getBook c u with
  | none => rw [cmb2_val_noBook hb]; exact h0
  | some b =>
    cases hp : b.getPart i with
    | none => rw [cmb2_val_noPart hb hp]; exact h0
    | some p =>
      rw [cmb2_val_get hb hp]
      split
      · rename_i hc
        exact h b p hb hp hc.1 hc.2
      · exact h0

theorem cmb2_val_nonneg {c : Core.State} (hP : cmb2_PartsOK c) (a : Nat) (k : Nat × Nat) : 0 ≤ cmb2_val c a k := by
  obtain ⟨u, i⟩ := k
  cases hb : getBook c u with
  | none => rw [cmb2_val_noBook hb]; exact Int.le_refl _
  | some b =>
    cases hp : b.getPart i with
    | none => rw [cmb2_val_noPart hb hp]; exact Int.le_refl _
    | some p =>
      rw [cmb2_val_get hb hp]
      have h0 := cmb2_partsOK_get hP hb hp
      have h1 := h0.liq
      have h2 := h0.fee
      split <;> omega

/-- a quiet operation raises no value -/
theorem cmb2_Quiet.val_le {c c' : Core.State} (hq : cmb2_Quiet c c') (hP : cmb2_PartsOK c) (a : Nat) (k : Nat × Nat) :
    cmb2_val c' a k ≤ cmb2_val c a k := by
  apply cmb2_val_le (cmb2_val_nonneg hP a k)
  obtain ⟨u, i⟩ := k
  intro b' p' hb' hp' hu ha
  obtain ⟨_, b, p, hb, hp, e1, e2, e3, e4⟩ := hq u b' i p' hb' hp'
  rw [cmb2_val_get hb hp, if_pos ⟨e4 hu, by rw [← e3]; exact ha⟩]
  omega

/-- a house deposit raises the value of the fresh key by the deposit, for the depositor only -/
theorem cmb2_DepFrame.val_le {c c' : Core.State} {dep : Nat} {amount : Int} {k0 : Nat × Nat}
    (hf : cmb2_DepFrame c c' dep amount k0) (hP : cmb2_PartsOK c) (a : Nat) (k : Nat × Nat) :
    cmb2_val c' a k ≤ cmb2_val c a k + (if k = k0 ∧ dep = a then amount else 0) := by
  obtain ⟨h0, hnone, hall⟩ := hf
  have hn := cmb2_val_nonneg hP a k
  apply cmb2_val_le (by split <;> omega)
  obtain ⟨u, i⟩ := k
  intro b' p' hb' hp' hu ha
  rcases hall u b' i p' hb' hp' with ⟨b, hb, hp⟩ | ⟨ek, e1, e2, _, _, _, _⟩
  · rw [cmb2_val_get hb hp, if_pos ⟨hu, ha⟩]
    split <;> omega
  · rw [if_pos ⟨ek, by rw [← e1]; exact ha⟩]
    omega

/-- a house withdrawal lowers the value of its key by the amount paid out, for the depositor only -/
theorem cmb2_WdFrame.val_le {c c' : Core.State} {dep : Nat} {w : Int} {k0 : Nat × Nat} {p0 : Part}
    (hf : cmb2_WdFrame c c' dep w k0 p0) (hP : cmb2_PartsOK c) (a : Nat) (k : Nat × Nat) :
    cmb2_val c' a k ≤ cmb2_val c a k - (if k = k0 ∧ dep = a then w else 0) := by
  obtain ⟨⟨b0, hb0, hp0⟩, hun, had, hw0, hle, hall⟩ := hf
  have hn := cmb2_val_nonneg hP a k
  have h0 := cmb2_partsOK_get hP hb0 hp0
  have h1 := h0.fee
  have h2 := h0.crl
  have hk0 : cmb2_val c a k0 = if p0.isSettled = false ∧ p0.addr = a then p0.liq + p0.fee else 0 := by
    obtain ⟨u0, i0⟩ := k0
    exact cmb2_val_get hb0 hp0
  apply cmb2_val_le
  · split
    · rename_i hc
      rw [hc.1, hk0, if_pos ⟨hun, by rw [had]; exact hc.2⟩]
      omega
    · omega
  · obtain ⟨u, i⟩ := k
    intro b' p' hb' hp' hu ha
    rcases hall u b' i p' hb' hp' with ⟨ne, b, hb, hp⟩ | ⟨ek, e⟩
    · rw [cmb2_val_get hb hp, if_pos ⟨hu, ha⟩, if_neg (fun hc => ne hc.1)]
      omega
    · have hda : dep = a := by rw [← had, ← ha, e]
      rw [ek, hk0, if_pos ⟨hun, by rw [had]; exact hda⟩, if_pos ⟨rfl, hda⟩, e]
      show p0.liq - w + p0.fee ≤ _
      omega

-- ---------------------------------------------------------------------------------------------
-- the invariant

/-- `Spent` of the account summary stored at `a` (0 when there is none) -/
def cmb2_spentOf (s : State) (a : Nat) : Int :=
  match aget s.subs a with
  | some r => r.sum.spent
  | none => 0

def cmb2_SpentInv (s : State) : Prop :=
  ∀ a, SUB_BASE ≤ a → ∀ L : List (Nat × Nat), L.Nodup → sumBy (cmb2_val s.core a) L ≤ cmb2_spentOf s a

def cmb2_AvailOK (s : State) : Prop := ∀ a r, aget s.subs a = some r → 0 ≤ r.sum.available

theorem cmb2_spentOf_setSub (s : State) (a : Nat) (r : SubRec) (x : Nat) :
    cmb2_spentOf (s.setSub a r) x = if a = x then r.sum.spent else cmb2_spentOf s x := by
  unfold cmb2_spentOf State.setSub
  simp only [cmb_aget_aset]
  by_cases e : a = x
  · simp only [e, if_true]
  · simp only [e, if_false]

theorem cmb2_availOK_setSub {s : State} (h : cmb2_AvailOK s) (a : Nat) (r : SubRec) (hr : 0 ≤ r.sum.available) :
    cmb2_AvailOK (s.setSub a r) := by
  intro b rb hb
  unfold State.setSub at hb
  simp only [cmb_aget_aset] at hb
  split at hb
  · cases hb; exact hr
  · exact h b rb hb

/-- a (sub-)step that raises no value, lowers no `Spent` and keeps `Available()` non-negative -/
structure cmb2_SKeeps (s s' : State) : Prop where
  val : ∀ a, SUB_BASE ≤ a → ∀ k, cmb2_val s'.core a k ≤ cmb2_val s.core a k
  spent : ∀ a, SUB_BASE ≤ a → cmb2_spentOf s a ≤ cmb2_spentOf s' a
  avail : cmb2_AvailOK s → cmb2_AvailOK s'

theorem cmb2_SKeeps.refl (s : State) : cmb2_SKeeps s s := ⟨fun _ _ _ => Int.le_refl _, fun _ _ => Int.le_refl _, id⟩

theorem cmb2_SKeeps.trans {s1 s2 s3 : State} (h1 : cmb2_SKeeps s1 s2) (h2 : cmb2_SKeeps s2 s3) : cmb2_SKeeps s1 s3 :=
  ⟨fun a ha k => Int.le_trans (h2.val a ha k) (h1.val a ha k), fun a ha => Int.le_trans (h1.spent a ha) (h2.spent a ha),
    fun h => h2.avail (h1.avail h)⟩

theorem cmb2_SpentInv.ofKeeps {s s' : State} (h : cmb2_SpentInv s) (k : cmb2_SKeeps s s') : cmb2_SpentInv s' := by
  intro a ha L hL
  have h1 := cmb2_sumBy_le (cmb2_val s'.core a) (cmb2_val s.core a) L (fun x _ => k.val a ha x)
  have h2 := h a ha L hL
  have h3 := k.spent a ha
  omega

/-- only the core component changes, without raising a value -/
theorem cmb2_skeeps_core {s : State} {c : Core.State} (h : ∀ a, SUB_BASE ≤ a → ∀ k, cmb2_val c a k ≤ cmb2_val s.core a k) :
    cmb2_SKeeps s { s with core := c } :=
  ⟨h, fun _ _ => Int.le_refl _, id⟩

/-- the record at `a` (which exists) is rewritten after a change of the core that raises no value -/
theorem cmb2_skeeps_update {s s1 : State} {a : Nat} {r r' : SubRec} (hr : aget s.subs a = some r) (hsubs : s1.subs = s.subs)
    (hval : ∀ x, SUB_BASE ≤ x → ∀ k, cmb2_val s1.core x k ≤ cmb2_val s.core x k)
    (hsp : r.sum.spent ≤ r'.sum.spent) (hav : 0 ≤ r.sum.available → 0 ≤ r'.sum.available) :
    cmb2_SKeeps s (s1.setSub a r') := by
  refine ⟨hval, ?_, ?_⟩
  · intro x _
    rw [cmb2_spentOf_setSub]
    have e : cmb2_spentOf s1 x = cmb2_spentOf s x := by unfold cmb2_spentOf; rw [hsubs]
    by_cases hx : a = x
    · subst hx
      simp only [if_true]
      unfold cmb2_spentOf
      rw [hr]
      exact hsp
    · simp only [if_neg hx, e]
      exact Int.le_refl _
  · intro h0
    have h1 : cmb2_AvailOK s1 := by intro b rb hb; rw [hsubs] at hb; exact h0 b rb hb
    exact cmb2_availOK_setSub h1 a r' (hav (h0 a r hr))

theorem cmb2_send_books {s s' : State} {a b : Nat} {v : Int} (h : send s a b v = some s') :
    s'.core.books = s.core.books ∧ s'.subs = s.subs ∧ 0 ≤ v := by
  unfold send at h
  cases hc : bankSend s.core a b v with
  | none => simp [hc] at h
  | some c =>
    simp only [hc, Option.map_some, Option.some.injEq] at h
    subst h
    obtain ⟨bal', ht, rfl⟩ := bankSend_shape hc
    refine ⟨rfl, rfl, ?_⟩
    unfold transfer at ht
    split at ht
    · cases ht
    · omega

theorem cmb2_send_val {s s' : State} {a b : Nat} {v : Int} (h : send s a b v = some s') (x : Nat) (k : Nat × Nat) :
    cmb2_val s'.core x k ≤ cmb2_val s.core x k := by
  rw [cmb2_val_congr (cmb2_send_books h).1]
  exact Int.le_refl _

-- ---------------------------------------------------------------------------------------------
-- the x/subaccount handlers other than house deposit / withdrawal

theorem cmb2_topUp_skeeps {s s' : State} {creator owner : Nat} {ls : List Sge.Subaccount.Lock}
    (h : topUpO s creator owner ls = some s') : cmb2_SKeeps s s' := by
  unfold topUpO at h
  simp only [bind, Option.bind_eq_some_iff, pure, Option.some.injEq] at h
  obtain ⟨_, _, total, _, a, ha, r, hr, _, _, s1, hs1, rfl⟩ := h
  obtain ⟨_, hsubs, v0⟩ := cmb2_send_books hs1
  apply cmb2_skeeps_update hr hsubs (fun x _ k => cmb2_send_val hs1 x k)
  · exact Int.le_refl _
  · intro h0
    simp only [Summary.available] at h0 ⊢
    omega

theorem cmb2_withdrawUnlocked_skeeps {s s' : State} {owner : Nat}
    (h : withdrawUnlockedO s owner = some s') : cmb2_SKeeps s s' := by
  unfold withdrawUnlockedO at h
  simp only [bind, Option.bind_eq_some_iff, pure, Option.some.injEq] at h
  obtain ⟨a, ha, r, hr, _, _, sum', hw, s1, hs1, rfl⟩ := h
  obtain ⟨_, hsubs, _⟩ := cmb2_send_books hs1
  obtain ⟨w0, w1, rfl⟩ := withdraw_some hw
  apply cmb2_skeeps_update hr hsubs (fun x _ k => cmb2_send_val hs1 x k)
  · exact Int.le_refl _
  · intro _
    simp only [Summary.available] at w1 ⊢
    omega

theorem cmb2_withdrawLocked_skeeps {s s' : State} {a owner : Nat} {d : Int}
    (h : withdrawLockedO s a owner d = some s') : cmb2_SKeeps s s' := by
  unfold withdrawLockedO at h
  simp only [bind, Option.bind_eq_some_iff, pure, Option.some.injEq] at h
  obtain ⟨r, hr, _, _, s1, hs1, sum', hw, rfl⟩ := h
  obtain ⟨_, hsubs, _⟩ := cmb2_send_books hs1
  obtain ⟨w0, w1, rfl⟩ := withdraw_some hw
  apply cmb2_skeeps_update hr hsubs (fun x _ k => cmb2_send_val hs1 x k)
  · exact Int.le_refl _
  · intro _
    simp only [Summary.available] at w1 ⊢
    omega

theorem cmb2_returnToSub_skeeps {s s' : State} {a owner : Nat} {v : Int}
    (h : returnToSubO s a owner v = some s') : cmb2_SKeeps s s' := by
  unfold returnToSubO at h
  split at h
  · cases h; exact cmb2_SKeeps.refl _
  · rename_i hv
    simp only [bind, Option.bind_eq_some_iff, pure, Option.some.injEq] at h
    obtain ⟨r, hr, _, _, s1, hs1, rfl⟩ := h
    obtain ⟨_, hsubs, _⟩ := cmb2_send_books hs1
    apply cmb2_skeeps_update hr hsubs (fun x _ k => cmb2_send_val hs1 x k)
    · exact Int.le_refl _
    · intro h0
      simp only [Summary.available] at h0 ⊢
      omega

theorem cmb2_subWagerBet_skeeps {s s' : State} {owner : Nat} {tk : Tk} {uid : Nat} {amount : Int} {pl : WagerPayload}
    (hs : cmb2_Srt s.core) (hP : cmb2_PartsOK s.core) (h : subWagerBet s owner tk uid amount pl = some s') : cmb2_SKeeps s s' := by
  unfold subWagerBet at h
  cases hc : wagerO s.core owner tk uid amount pl with
  | none => simp [hc] at h
  | some c =>
    simp only [hc, Option.map_some, Option.some.injEq] at h
    subst h
    exact cmb2_skeeps_core (fun a _ k => cmb2_Quiet.val_le (cmb2_wagerO_quiet hs hP hc) hP a k)

theorem cmb2_srt_congr {c c' : Core.State} (h : c'.books = c.books) (hs : cmb2_Srt c) : cmb2_Srt c' := by
  unfold cmb2_Srt; rw [h]; exact hs

theorem cmb2_partsOK_congr {c c' : Core.State} (h : c'.books = c.books) (hs : cmb2_PartsOK c) : cmb2_PartsOK c' := by
  unfold cmb2_PartsOK; rw [h]; exact hs

theorem cmb2_withdrawLocked_books {s s' : State} {a owner : Nat} {d : Int}
    (h : withdrawLockedO s a owner d = some s') : s'.core.books = s.core.books := by
  unfold withdrawLockedO at h
  simp only [bind, Option.bind_eq_some_iff, pure, Option.some.injEq] at h
  obtain ⟨r, hr, _, _, s1, hs1, sum', hw, rfl⟩ := h
  exact (cmb2_send_books hs1).1

theorem cmb2_subWager_skeeps {s s' : State} {owner : Nat} {outerOk : Bool} {ic : Nat} {main sub : Int} {tk : Tk} {uid : Nat}
    {amount : Int} {pl : WagerPayload} (hs : cmb2_Srt s.core) (hP : cmb2_PartsOK s.core)
    (h : subWagerO s owner outerOk ic main sub tk uid amount pl = some s') : cmb2_SKeeps s s' := by
  unfold subWagerO at h
  simp only [bind, Option.bind_eq_some_iff, pure, Option.some.injEq] at h
  obtain ⟨_, _, a, ha, _, _, _, _, _, _, _, _, _, _, s1, hs1, s2, hs2, h3⟩ := h
  have k1 := cmb2_withdrawLocked_skeeps hs1
  have hb1 := cmb2_withdrawLocked_books hs1
  have k2 := cmb2_subWagerBet_skeeps (cmb2_srt_congr hb1 hs) (cmb2_partsOK_congr hb1 hP) hs2
  have k3 := cmb2_returnToSub_skeeps h3
  exact (k1.trans k2).trans k3

/-- MsgCreate: the new record has spent nothing and holds the locked total -/
theorem cmb2_create_skeeps {s s' : State} {creator owner : Nat} {ls : List Sge.Subaccount.Lock}
    (hfresh : aget s.subs (subAddr s.nextId) = none) (h : createO s creator owner ls = some s') : cmb2_SKeeps s s' := by
  unfold createO at h
  simp only [bind, Option.bind_eq_some_iff, pure, Option.some.injEq] at h
  obtain ⟨_, _, total, _, _, _, s1, hs1, rfl⟩ := h
  obtain ⟨hbk, hsubs, v0⟩ := cmb2_send_books hs1
  refine ⟨fun x _ k => cmb2_send_val hs1 x k, ?_, ?_⟩
  · intro x _
    unfold cmb2_spentOf
    simp only [cmb_aget_aset]
    by_cases e : subAddr s.nextId = x
    · subst e
      simp only [if_true, hfresh]
      exact Int.le_refl _
    · simp only [if_neg e]
      exact Int.le_refl _
  · intro h0 b rb hb
    simp only [cmb_aget_aset] at hb
    split at hb
    · cases hb
      simp only [Summary.available]
      omega
    · exact h0 b rb hb

end Sge.Combined
