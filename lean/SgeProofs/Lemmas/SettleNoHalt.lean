/-
  C05 "block processing never aborts", the provable part: in a reachable state that is well formed (`HInv`) and
  solvent (`Solvent`: no negative backing part, no participation over-exposed on the winning outcome) every look-up,
  every status check, every queue operation and every bank transfer of the two end-blockers succeeds.
  Part 1: definitions, the bank, and the settlement of one bet on the book.
-/
import SgeProofs.Lemmas.SettleBound
namespace Sge.Core
open Sge Sge.Genesis

-- ---------------------------------------------------------------------------------------------
-- sums of non-negative terms

theorem sumBy_nonnegSB {α : Type} (f : α → Int) (l : List α) (h : ∀ x ∈ l, 0 ≤ f x) : 0 ≤ sumBy f l := by
  induction l with
  | nil => exact Int.le_refl _
  | cons y ys ih =>
    rw [sumBy_cons]
    have := h y (List.mem_cons_self ..)
    have := ih (fun x hx => h x (List.mem_cons_of_mem _ hx))
    omega

theorem sumBy_mem_le {α : Type} (f : α → Int) (l : List α) (h : ∀ x ∈ l, 0 ≤ f x) (y : α) (hy : y ∈ l) : f y ≤ sumBy f l := by
  induction l with
  | nil => cases hy
  | cons z zs ih =>
    rw [sumBy_cons]
    have hz := h z (List.mem_cons_self ..)
    have hrest := sumBy_nonnegSB f zs (fun x hx => h x (List.mem_cons_of_mem _ hx))
    rcases List.mem_cons.mp hy with rfl | hy
    · omega
    · have := ih (fun x hx => h x (List.mem_cons_of_mem _ hx)) hy
      omega

theorem sumBy_le_sumBy {α : Type} (f g : α → Int) (l : List α) (h : ∀ x ∈ l, f x ≤ g x) : sumBy f l ≤ sumBy g l := by
  induction l with
  | nil => exact Int.le_refl _
  | cons y ys ih =>
    rw [sumBy_cons, sumBy_cons]
    have := h y (List.mem_cons_self ..)
    have := ih (fun x hx => h x (List.mem_cons_of_mem _ hx))
    omega

theorem sumBy_congrSB {α : Type} (f g : α → Int) (l : List α) (h : ∀ x ∈ l, f x = g x) : sumBy f l = sumBy g l := by
  induction l with
  | nil => rfl
  | cons y ys ih =>
    rw [sumBy_cons, sumBy_cons, h y (List.mem_cons_self ..), ih (fun x hx => h x (List.mem_cons_of_mem _ hx))]

-- ---------------------------------------------------------------------------------------------
-- the bank: a transfer of a non-negative amount that the source account holds succeeds

theorem transfer_ok (bal : List (Nat × Int)) (a b : Nat) (x : Int) (h0 : 0 ≤ x) (h1 : x ≤ getBal bal a) :
    ∃ bal', transfer bal a b x = some bal' := by
  unfold transfer
  have n1 : ¬ x < 0 := by omega
  have n2 : ¬ getBal bal a < x := by omega
  simp only [n1, n2, if_false]
  split
  · exact ⟨_, rfl⟩
  · exact ⟨_, rfl⟩

theorem bankSend_okSB (s : State) (a b : Nat) (x : Int) (h0 : 0 ≤ x) (h1 : x ≤ getBal s.bal a) :
    ∃ s', bankSend s a b x = some s' := by
  obtain ⟨bal', h⟩ := transfer_ok s.bal a b x h0 h1
  exact ⟨{ s with bal := bal' }, by unfold bankSend; rw [h]; rfl⟩

-- ---------------------------------------------------------------------------------------------
-- what a state must satisfy

/-- the profit that the fulfilments `fs` promise out of participation `i` -/
def cProfit (fs : List Fulf) (i : Nat) : Int := sumBy (fun f => if f.idx = i then f.profit else 0) fs
/-- the stake that the fulfilments `fs` placed against participation `i` -/
def cBet (fs : List Fulf) (i : Nat) : Int := sumBy (fun f => if f.idx = i then f.bet else 0) fs

/-- the market `u` is declared and `o` is a winning outcome -/
def wonOutcome (s : State) (u o : Nat) : Bool :=
  match getMarket s u with
  | some m => m.status == MS_DECLARED && m.winners.contains o
  | none => false

/-- bet `x` is unsettled, on market `u`, and its outcome has been declared the winner: it will be paid -/
def winsOn (s : State) (u : Nat) (x : Bet) : Bool := x.isOpen && x.market == u && wonOutcome s u x.odds

/-- the profit participation `i` of the book of market `u` still has to pay to unsettled winning bets -/
def promisedW (s : State) (u i : Nat) : Int := sumBy (fun x => if winsOn s u x then cProfit x.fulfs i else 0) s.bets

/-- SOLVENCY, the condition under which no pay-out of the end-blockers can fail:
    (1) no unsettled bet has a negative fee, a negative backing part or a negative promised profit
        (violated by the inputs of known finding KF-C03-negative-part);
    (2) no unpaid participation has a negative fee, and its liquidity plus realised profit covers the profit it
        still has to pay to unsettled bets on the declared winning outcome (0 for a market that is not declared) —
        i.e. no participation is over-exposed on the winner (C02). -/
structure Solvent (s : State) : Prop where
  betNonneg : ∀ x ∈ s.bets, x.isOpen = true → 0 ≤ x.fee ∧ ∀ f ∈ x.fulfs, 0 ≤ f.bet ∧ 0 ≤ f.profit
  partCover : ∀ b ∈ s.books, ∀ p ∈ b.parts, p.isSettled = false →
    0 ≤ p.fee ∧ promisedW s b.uid p.idx ≤ p.liq + p.actualProfit

/-- WELL-FORMEDNESS of the stores, as the end-blockers rely on it: a bet is PLACED or SETTLED, a market is open or
    has one of the three resolved statuses, and every backing part of an unsettled bet names a participation of the
    book of its market. -/
structure HInv (s : State) : Prop where
  betStatus : ∀ x ∈ s.bets, x.status = BS_PLACED ∨ x.status = BS_SETTLED
  marketStatus : ∀ m ∈ s.markets, isOpenStatus m.status = true ∨ isResolvedStatus m.status = true
  fulfParts : ∀ x ∈ s.bets, x.isOpen = true → ∀ f ∈ x.fulfs, ∃ b p, getBook s x.market = some b ∧ b.getPart f.idx = some p

theorem cProfit_nonneg (fs : List Fulf) (i : Nat) (h : ∀ f ∈ fs, 0 ≤ f.profit) : 0 ≤ cProfit fs i := by
  unfold cProfit
  apply sumBy_nonnegSB
  intro f hf
  split
  · exact h f hf
  · exact Int.le_refl _

theorem promisedW_nonneg {s : State} (hV : Solvent s) (u i : Nat) : 0 ≤ promisedW s u i := by
  unfold promisedW
  apply sumBy_nonnegSB
  intro x hx
  split
  · rename_i hw
    unfold winsOn at hw
    simp only [Bool.and_eq_true] at hw
    exact cProfit_nonneg _ _ (fun f hf => ((hV.betNonneg x hx hw.1.1).2 f hf).2)
  · exact Int.le_refl _

theorem sumBet_nonneg (fs : List Fulf) (h : ∀ f ∈ fs, 0 ≤ f.bet) : 0 ≤ sumBet fs := by
  have : sumBet fs = sumBy (·.bet) fs := rfl
  rw [this]
  exact sumBy_nonnegSB _ _ h

theorem sumProfit_nonneg (fs : List Fulf) (h : ∀ f ∈ fs, 0 ≤ f.profit) : 0 ≤ sumProfit fs := by
  have : sumProfit fs = sumBy (·.profit) fs := rfl
  rw [this]
  exact sumBy_nonnegSB _ _ h

/-- what a participation is owed is non-negative in a solvent state -/
theorem Solvent.owed_nonneg {s : State} (hV : Solvent s) (b : Book) (hb : b ∈ s.books) (p : Part) (hp : p ∈ b.parts) :
    0 ≤ p.owed ∧ 0 ≤ p.owedFee := by
  unfold Part.owed Part.owedFee
  cases hs : p.isSettled
  · have := hV.partCover b hb p hp hs
    have h0 := promisedW_nonneg hV b.uid p.idx
    simp only [Bool.false_eq_true, if_false]
    omega
  · simp

theorem Solvent.book_nonneg {s : State} (hV : Solvent s) (b : Book) (hb : b ∈ s.books) : 0 ≤ b.owed ∧ 0 ≤ b.owedFee :=
  ⟨sumBy_nonnegSB _ _ (fun p hp => (hV.owed_nonneg b hb p hp).1), sumBy_nonnegSB _ _ (fun p hp => (hV.owed_nonneg b hb p hp).2)⟩

theorem Solvent.stake_nonneg {s : State} (hV : Solvent s) (x : Bet) (hx : x ∈ s.bets) : 0 ≤ x.owedStake ∧ 0 ≤ x.owedFee := by
  unfold Bet.owedStake Bet.owedFee
  cases ho : x.isOpen
  · simp
  · have := hV.betNonneg x hx ho
    simp only [if_true]
    exact ⟨sumBet_nonneg _ (fun f hf => (this.2 f hf).1), this.1⟩

-- ---------------------------------------------------------------------------------------------
-- BettorLoses / BettorWins on the book

/-- every index that has a participation keeps one -/
def KeepsParts (b b' : Book) : Prop := ∀ i, (b.getPart i).isSome = true → (b'.getPart i).isSome = true

theorem KeepsParts.refl (b : Book) : KeepsParts b b := fun _ h => h
theorem KeepsParts.trans {a b c : Book} (h1 : KeepsParts a b) (h2 : KeepsParts b c) : KeepsParts a c :=
  fun i h => h2 i (h1 i h)

theorem setPart_keeps (b : Book) (p : Part) : KeepsParts b (b.setPart p) := by
  intro i h
  by_cases e : p.idx = i
  · subst e; rw [Book.getPart_setPart_self]; rfl
  · rw [Book.getPart_setPart_ne _ _ _ e]; exact h

theorem cBet_cons (f : Fulf) (fs : List Fulf) (i : Nat) : cBet (f :: fs) i = (if f.idx = i then f.bet else 0) + cBet fs i := by
  unfold cBet; rw [sumBy_cons]
theorem cProfit_cons (f : Fulf) (fs : List Fulf) (i : Nat) :
    cProfit (f :: fs) i = (if f.idx = i then f.profit else 0) + cProfit fs i := by
  unfold cProfit; rw [sumBy_cons]

/-- the custody-relevant relation between a participation before (`p`) and after (`p'`) the settlement of one bet:
    only the realised profit moves, by `d` -/
def PartMoved (p p' : Part) (d : Int) : Prop :=
  p'.idx = p.idx ∧ p'.liq = p.liq ∧ p'.fee = p.fee ∧ p'.isSettled = p.isSettled ∧ p'.actualProfit = p.actualProfit + d

theorem part_key_ne {p q : Part} (h : (Part.key p == Part.key q) = false) : p.idx ≠ q.idx := by
  intro e
  simp [Part.key, e] at h

/-- BettorLoses succeeds when every backing part names a participation -/
theorem bettorLoses_ok : ∀ (fs : List Fulf) (b : Book), (∀ f ∈ fs, (b.getPart f.idx).isSome = true) →
    ∃ b', bettorLoses b fs = some b' := by
  intro fs
  induction fs with
  | nil => intro b _; exact ⟨b, rfl⟩
  | cons f rest ih =>
    intro b h
    have h0 := h f (List.mem_cons_self ..)
    obtain ⟨p, hp⟩ := Option.isSome_iff_exists.mp h0
    obtain ⟨b', hb'⟩ := ih (b.setPart { p with actualProfit := p.actualProfit + f.bet })
      (fun g hg => setPart_keeps b _ g.idx (h g (List.mem_cons_of_mem _ hg)))
    refine ⟨b', ?_⟩
    unfold bettorLoses
    simp only [bind, Option.bind_eq_some_iff]
    exact ⟨p, hp, hb'⟩

/-- BettorLoses: every participation keeps everything but its realised profit, which grows by the stakes placed
    against it; no participation disappears -/
theorem bettorLoses_parts : ∀ (fs : List Fulf) (b b' : Book), bettorLoses b fs = some b' → Sorted Part.key b.parts →
    (∀ p' ∈ b'.parts, ∃ p ∈ b.parts, PartMoved p p' (cBet fs p.idx)) ∧ KeepsParts b b' := by
  intro fs
  induction fs with
  | nil =>
    intro b b' h _
    simp only [bettorLoses, Option.some.injEq] at h
    subst h
    exact ⟨fun p hp => ⟨p, hp, rfl, rfl, rfl, rfl, by simp [cBet, sumBy]⟩, KeepsParts.refl b⟩
  | cons f rest ih =>
    intro b b' h hs
    unfold bettorLoses at h
    simp only [bind, Option.bind_eq_some_iff] at h
    obtain ⟨p0, hp0, h⟩ := h
    have hpi := Book.getPart_idx hp0
    obtain ⟨a1, a2⟩ := ih _ _ h (upsert_sorted Part.key _ b.parts hs)
    refine ⟨?_, (setPart_keeps b _).trans a2⟩
    intro p' hp'
    obtain ⟨p1, hp1, m1, m2, m3, m4, m5⟩ := a1 p' hp'
    rcases (mem_upsert_iff Part.key _ p1 b.parts hs).mp hp1 with e | ⟨hin, hk⟩
    · subst e
      refine ⟨p0, getPart_mem hp0, m1, m2, m3, m4, ?_⟩
      rw [m5, cBet_cons]
      show p0.actualProfit + f.bet + cBet rest p0.idx = _
      simp only [hpi, if_true]
      omega
    · refine ⟨p1, hin, m1, m2, m3, m4, ?_⟩
      have hne : f.idx ≠ p1.idx := by
        have := part_key_ne hk
        intro e
        exact this (by show p1.idx = p0.idx; rw [hpi, e])
      rw [m5, cBet_cons]
      simp [hne]

/-- BettorWins succeeds when every backing part names a participation, no part pays a negative amount, and the pool
    holds the whole pay-out of the bet -/
theorem bettorWins_ok (bettor : Nat) (hne : ACC_POOL ≠ bettor) : ∀ (fs : List Fulf) (bal : List (Nat × Int)) (b : Book),
    (∀ f ∈ fs, (b.getPart f.idx).isSome = true) → (∀ f ∈ fs, 0 ≤ f.profit + f.bet) →
    sumBy (fun f => f.profit + f.bet) fs ≤ getBal bal ACC_POOL → ∃ r, bettorWins bal bettor b fs = some r := by
  intro fs
  induction fs with
  | nil => intro bal b _ _ _; exact ⟨(bal, b), rfl⟩
  | cons f rest ih =>
    intro bal b h hnn hsum
    have h0 := h f (List.mem_cons_self ..)
    obtain ⟨p, hp⟩ := Option.isSome_iff_exists.mp h0
    rw [sumBy_cons] at hsum
    have hrest := sumBy_nonnegSB (fun f => f.profit + f.bet) rest (fun g hg => hnn g (List.mem_cons_of_mem _ hg))
    have hf := hnn f (List.mem_cons_self ..)
    obtain ⟨bal', ht⟩ := transfer_ok bal ACC_POOL bettor (f.profit + f.bet) hf (by omega)
    obtain ⟨_, t1, _, _⟩ := transfer_spec ht hne
    obtain ⟨r, hr⟩ := ih bal' (b.setPart { p with actualProfit := p.actualProfit - f.profit })
      (fun g hg => setPart_keeps b _ g.idx (h g (List.mem_cons_of_mem _ hg)))
      (fun g hg => hnn g (List.mem_cons_of_mem _ hg)) (by rw [t1]; omega)
    refine ⟨r, ?_⟩
    unfold bettorWins
    simp only [bind, Option.bind_eq_some_iff]
    exact ⟨p, hp, bal', ht, hr⟩

/-- BettorWins: every participation keeps everything but its realised profit, which drops by the profit it paid -/
theorem bettorWins_parts (bettor : Nat) : ∀ (fs : List Fulf) (bal : List (Nat × Int)) (b : Book) (r : List (Nat × Int) × Book),
    bettorWins bal bettor b fs = some r → Sorted Part.key b.parts →
    (∀ p' ∈ r.2.parts, ∃ p ∈ b.parts, PartMoved p p' (- cProfit fs p.idx)) ∧ KeepsParts b r.2 := by
  intro fs
  induction fs with
  | nil =>
    intro bal b r h _
    simp only [bettorWins, Option.some.injEq] at h
    subst h
    exact ⟨fun p hp => ⟨p, hp, rfl, rfl, rfl, rfl, by simp [cProfit, sumBy]⟩, KeepsParts.refl b⟩
  | cons f rest ih =>
    intro bal b r h hs
    unfold bettorWins at h
    simp only [bind, Option.bind_eq_some_iff] at h
    obtain ⟨p0, hp0, bal', _, h⟩ := h
    have hpi := Book.getPart_idx hp0
    obtain ⟨a1, a2⟩ := ih _ _ _ h (upsert_sorted Part.key _ b.parts hs)
    refine ⟨?_, (setPart_keeps b _).trans a2⟩
    intro p' hp'
    obtain ⟨p1, hp1, m1, m2, m3, m4, m5⟩ := a1 p' hp'
    rcases (mem_upsert_iff Part.key _ p1 b.parts hs).mp hp1 with e | ⟨hin, hk⟩
    · subst e
      refine ⟨p0, getPart_mem hp0, m1, m2, m3, m4, ?_⟩
      rw [m5, cProfit_cons]
      show p0.actualProfit - f.profit + -cProfit rest p0.idx = _
      simp only [hpi, if_true]
      omega
    · refine ⟨p1, hin, m1, m2, m3, m4, ?_⟩
      have hne : f.idx ≠ p1.idx := by
        have := part_key_ne hk
        intro e
        exact this (by show p1.idx = p0.idx; rw [hpi, e])
      rw [m5, cProfit_cons]
      simp [hne]

-- ---------------------------------------------------------------------------------------------
-- the pool covers the pay-out of a winning bet

theorem sumBy_add {α : Type} (f g : α → Int) (l : List α) : sumBy (fun x => f x + g x) l = sumBy f l + sumBy g l := by
  induction l with
  | nil => rfl
  | cons y ys ih => rw [sumBy_cons, sumBy_cons, sumBy_cons, ih]; omega

/-- in a store sorted by participation index exactly one participation carries a given (present) index -/
theorem sumBy_indicator (c : Int) (j : Nat) : ∀ (parts : List Part), Sorted Part.key parts → (∃ p ∈ parts, p.idx = j) →
    sumBy (fun p => if j = p.idx then c else 0) parts = c := by
  intro parts
  induction parts with
  | nil => intro _ h; obtain ⟨p, hp, _⟩ := h; cases hp
  | cons q qs ih =>
    intro hs hex
    have hs' := hs
    unfold Sorted at hs'
    rw [List.pairwise_cons] at hs'
    rw [sumBy_cons]
    by_cases e : j = q.idx
    · have hz : sumBy (fun p => if j = p.idx then c else 0) qs = 0 := by
        apply sumBy_zero
        intro p hp
        have := part_key_ne (ltL_ne _ _ (hs'.1 p hp))
        have : ¬ j = p.idx := fun e' => this (by rw [← e, e'])
        simp [this]
      rw [hz]; simp [e]
    · obtain ⟨p, hp, hpj⟩ := hex
      have hin : p ∈ qs := by
        rcases List.mem_cons.mp hp with rfl | h
        · exact absurd hpj.symm e
        · exact h
      rw [ih hs'.2 ⟨p, hin, hpj⟩]
      simp [e]

theorem sumBy_cProfit (parts : List Part) (hs : Sorted Part.key parts) : ∀ (fs : List Fulf),
    (∀ f ∈ fs, ∃ p ∈ parts, p.idx = f.idx) → sumBy (fun p => cProfit fs p.idx) parts = sumProfit fs := by
  intro fs
  induction fs with
  | nil =>
    intro _
    show sumBy (fun p => cProfit [] p.idx) parts = 0
    exact sumBy_zero _ _ (fun _ _ => rfl)
  | cons f rest ih =>
    intro h
    have : sumBy (fun p => cProfit (f :: rest) p.idx) parts =
        sumBy (fun p => (if f.idx = p.idx then f.profit else 0) + cProfit rest p.idx) parts :=
      sumBy_congrSB _ _ _ (fun p _ => cProfit_cons f rest p.idx)
    rw [this, sumBy_add, sumBy_indicator f.profit f.idx parts hs (h f (List.mem_cons_self ..)),
      ih (fun g hg => h g (List.mem_cons_of_mem _ hg))]
    simp [sumProfit]

theorem payout_split (fs : List Fulf) : sumBy (fun f => f.profit + f.bet) fs = sumProfit fs + sumBet fs := by
  rw [sumBy_add]; rfl

/-- an unsettled bet lives on an ACTIVE book, none of whose participations is paid -/
theorem open_bet_book {s : State} (hS : SettleInv s) {x : Bet} (hx : x ∈ s.bets) (ho : x.isOpen = true) {bk : Book}
    (hbk : getBook s x.market = some bk) : bk.status = OB_ACTIVE ∧ ∀ p ∈ bk.parts, p.isSettled = false := by
  obtain ⟨hbm, hbu⟩ := getBook_mem hbk
  have hact : bk.status = OB_ACTIVE := by
    by_cases e : bk.status = OB_ACTIVE
    · exact e
    · have := hS.closedNoOpen bk hbm e x hx hbu.symm
      rw [ho] at this; cases this
  refine ⟨hact, ?_⟩
  intro p hp
  cases hps : p.isSettled
  · rfl
  · exact absurd hact (hS.settledClosed bk hbm p hp hps)

/-- SOLVENCY AT WORK: the pool holds the whole pay-out (stakes + promised profits) of an unsettled bet on the
    declared winning outcome: the stakes are part of what the pool owes to bets, and the promised profits are covered
    by what it owes to the participations of that book -/
theorem pool_covers_win {s : State} (hS : SettleInv s) (hH : HInv s) (hV : Solvent s) {x : Bet} (hx : x ∈ s.bets)
    (ho : x.isOpen = true) {bk : Book} (hbk : getBook s x.market = some bk) (hw : wonOutcome s x.market x.odds = true) :
    sumBy (fun f => f.profit + f.bet) x.fulfs ≤ getBal s.bal ACC_POOL := by
  obtain ⟨hbm, hbu⟩ := getBook_mem hbk
  obtain ⟨_, hunp⟩ := open_bet_book hS hx ho hbk
  rw [payout_split, hS.pool]
  unfold owedPool
  have h1 : x.owedStake ≤ sumBy Bet.owedStake s.bets :=
    sumBy_mem_le _ _ (fun y hy => (hV.stake_nonneg y hy).1) x hx
  have h1' : x.owedStake = sumBet x.fulfs := by unfold Bet.owedStake; rw [ho]; rfl
  have h2 : bk.owed ≤ sumBy Book.owed s.books := sumBy_mem_le _ _ (fun b hb => (hV.book_nonneg b hb).1) bk hbm
  have h3 : sumProfit x.fulfs ≤ bk.owed := by
    have hfp : ∀ f ∈ x.fulfs, ∃ p ∈ bk.parts, p.idx = f.idx := by
      intro f hf
      obtain ⟨b, p, hb, hp⟩ := hH.fulfParts x hx ho f hf
      rw [hbk] at hb; cases hb
      exact ⟨p, getPart_mem hp, Book.getPart_idx hp⟩
    rw [← sumBy_cProfit bk.parts (hS.sortedParts bk hbm) x.fulfs hfp]
    unfold Book.owed
    apply sumBy_le_sumBy
    intro p hp
    have hc := (hV.partCover bk hbm p hp (hunp p hp)).2
    have hwin : winsOn s bk.uid x = true := by
      unfold winsOn
      rw [ho, hbu, hw]
      simp
    have hle : cProfit x.fulfs p.idx ≤ promisedW s bk.uid p.idx := by
      have := sumBy_mem_le (fun y => if winsOn s bk.uid y then cProfit y.fulfs p.idx else 0) s.bets ?_ x hx
      · unfold promisedW
        simpa [hwin] using this
      · intro y hy
        split
        · rename_i hwy
          unfold winsOn at hwy
          simp only [Bool.and_eq_true] at hwy
          exact cProfit_nonneg _ _ (fun f hf => ((hV.betNonneg y hy hwy.1.1).2 f hf).2)
        · exact Int.le_refl _
    unfold Part.owed
    rw [hunp p hp]
    simp only [Bool.false_eq_true, if_false]
    omega
  omega

-- ---------------------------------------------------------------------------------------------
-- settling one bet keeps well-formedness and solvency

theorem wonOutcome_congr {s s' : State} (h : s'.markets = s.markets) (u o : Nat) : wonOutcome s' u o = wonOutcome s u o := by
  unfold wonOutcome; rw [getMarket_congr h]

theorem winsOn_congr {s s' : State} (h : s'.markets = s.markets) (u : Nat) (x : Bet) : winsOn s' u x = winsOn s u x := by
  unfold winsOn; rw [wonOutcome_congr h]

/-- the common end of the three settlement branches: the bet `bet` is replaced by its settled copy `bet'`, markets
    stay, and at most one book `bk` is replaced by `B`, in which no participation disappears and realised profits
    moved by at least minus the profit promised to `bet` if it wins -/
theorem settle_keeps {s s' : State} {bet bet' : Bet} (hS : SettleInv s) (hH : HInv s) (hV : Solvent s)
    (hlk : lookup Bet.key (Bet.key bet') s.bets = some bet) (hopen : bet.isOpen = true) (hst' : bet'.status = BS_SETTLED)
    (hbets : s'.bets = upsert Bet.key bet' s.bets) (hmk : s'.markets = s.markets)
    (hbooks : s'.books = s.books ∨ ∃ bk B, getBook s B.uid = some bk ∧ s'.books = upsert Book.key B s.books ∧ KeepsParts bk B ∧
      (∀ p' ∈ B.parts, ∃ p ∈ bk.parts, ∃ d, PartMoved p p' d ∧
        0 ≤ d + (if winsOn s bk.uid bet then cProfit bet.fulfs p.idx else 0))) : HInv s' ∧ Solvent s' := by
  have hclosed : bet'.isOpen = false := by unfold Bet.isOpen; rw [hst']; rfl
  have hbm : bet ∈ s.bets := (lookup_mem hlk).1
  have hmem : ∀ y ∈ s'.bets, y = bet' ∨ y ∈ s.bets := by
    intro y hy; rw [hbets] at hy; exact mem_upsert_or Bet.key bet' y s.bets hy
  -- the promise to the participations drops by what was promised to `bet`
  have hprom : ∀ u i, promisedW s' u i = promisedW s u i - (if winsOn s u bet then cProfit bet.fulfs i else 0) := by
    intro u i
    unfold promisedW
    rw [hbets, sumBy_upsert Bet.key _ bet' s.bets hS.sortedBets, hlk]
    simp only [winsOn_congr hmk]
    have : winsOn s u bet' = false := by unfold winsOn; rw [hclosed]; rfl
    simp only [this, Bool.false_eq_true, if_false]
    omega
  have hcnn : ∀ u i, 0 ≤ (if winsOn s u bet then cProfit bet.fulfs i else 0) := by
    intro u i
    split
    · exact cProfit_nonneg _ _ (fun f hf => ((hV.betNonneg bet hbm hopen).2 f hf).2)
    · exact Int.le_refl _
  -- the books
  have hbk : ∀ b' ∈ s'.books, ∃ b0 ∈ s.books, b'.uid = b0.uid ∧ ∀ p' ∈ b'.parts, ∃ p ∈ b0.parts, ∃ d, PartMoved p p' d ∧
      0 ≤ d + (if winsOn s b0.uid bet then cProfit bet.fulfs p.idx else 0) := by
    intro b' hb'
    have hsame : b' ∈ s.books → ∃ b0 ∈ s.books, b'.uid = b0.uid ∧ ∀ p' ∈ b'.parts, ∃ p ∈ b0.parts, ∃ d, PartMoved p p' d ∧
        0 ≤ d + (if winsOn s b0.uid bet then cProfit bet.fulfs p.idx else 0) := by
      intro hin
      refine ⟨b', hin, rfl, fun p hp => ⟨p, hp, 0, ⟨rfl, rfl, rfl, rfl, by omega⟩, ?_⟩⟩
      have := hcnn b'.uid p.idx
      omega
    rcases hbooks with e | ⟨bk, B, hg, e, _, hparts⟩
    · rw [e] at hb'; exact hsame hb'
    · rw [e] at hb'
      rcases mem_upsert_or Book.key B b' s.books hb' with rfl | hin
      · obtain ⟨hbkm, hbku⟩ := getBook_mem hg
        exact ⟨bk, hbkm, hbku.symm, hparts⟩
      · exact hsame hin
  have hgb : ∀ u b0, getBook s u = some b0 → ∃ b', getBook s' u = some b' ∧ KeepsParts b0 b' := by
    intro u b0 h0
    rcases hbooks with e | ⟨bk, B, hg, e, hk, _⟩
    · exact ⟨b0, by rw [getBook_congr e]; exact h0, KeepsParts.refl b0⟩
    · by_cases hu : B.uid = u
      · subst hu
        rw [hg] at h0; cases h0
        refine ⟨B, ?_, hk⟩
        unfold getBook; rw [e]
        exact lookup_upsert_self Book.key B s.books
      · refine ⟨b0, ?_, KeepsParts.refl b0⟩
        unfold getBook; rw [e]
        rw [lookup_upsert_ne Book.key B [u] s.books (by simp [Book.key, hu])]
        exact h0
  refine ⟨⟨?_, by rw [hmk]; exact hH.marketStatus, ?_⟩, ⟨?_, ?_⟩⟩
  · intro y hy
    rcases hmem y hy with rfl | hy
    · exact Or.inr hst'
    · exact hH.betStatus y hy
  · intro y hy hyo f hf
    rcases hmem y hy with rfl | hy
    · rw [hclosed] at hyo; cases hyo
    · obtain ⟨b0, p, h1, h2⟩ := hH.fulfParts y hy hyo f hf
      obtain ⟨b', h3, hk⟩ := hgb _ _ h1
      have := hk f.idx (by rw [h2]; rfl)
      obtain ⟨p', hp'⟩ := Option.isSome_iff_exists.mp this
      exact ⟨b', p', h3, hp'⟩
  · intro y hy hyo
    rcases hmem y hy with rfl | hy
    · rw [hclosed] at hyo; cases hyo
    · exact hV.betNonneg y hy hyo
  · intro b' hb' p' hp' hun
    obtain ⟨b0, hb0, hu, hparts⟩ := hbk b' hb'
    obtain ⟨p, hp, d, ⟨m1, m2, m3, m4, m5⟩, hd⟩ := hparts p' hp'
    have hun0 : p.isSettled = false := by rw [← m4]; exact hun
    obtain ⟨c1, c2⟩ := hV.partCover b0 hb0 p hp hun0
    rw [hu, m1, hprom, m2, m3, m5]
    exact ⟨c1, by omega⟩

theorem cBet_nonneg (fs : List Fulf) (i : Nat) (h : ∀ f ∈ fs, 0 ≤ f.bet) : 0 ≤ cBet fs i := by
  unfold cBet
  apply sumBy_nonnegSB
  intro f hf
  split
  · exact h f hf
  · exact Int.le_refl _

/-- a successful `Settle` keeps well-formedness and solvency -/
theorem settleBet_keeps {s s' : State} {c u : Nat} (hS : SettleInv s) (hH : HInv s) (hV : Solvent s)
    (h : settleBet s c u = some s') : HInv s' ∧ Solvent s' := by
  unfold settleBet at h
  simp only [bind, Option.bind_eq_some_iff] at h
  obtain ⟨bet0, _, bet, hb, _, hst, m, hm, h⟩ := h
  have hst := chk_some hst
  obtain ⟨hbm, hkey⟩ := lookup_mem hb
  have hns : bet.status ≠ BS_SETTLED := by
    intro e; simp [e] at hst
  have hopen : bet.isOpen = true := by
    unfold Bet.isOpen
    simpa using hns
  have hlk : ∀ (R H : Nat), lookup Bet.key (Bet.key { bet with status := BS_SETTLED, result := R, settleHeight := H }) s.bets = some bet := by
    intro R H
    show lookup Bet.key (Bet.key bet) s.bets = some bet
    rw [hkey]; exact hb
  split at h
  · -- refund
    unfold settleRefund at h
    simp only [bind, Option.bind_eq_some_iff, pure, Option.some.injEq] at h
    obtain ⟨s1, h1, s2, h2, rfl⟩ := h
    obtain ⟨_, _, rfl⟩ := bankSend_shape h1
    obtain ⟨_, _, rfl⟩ := bankSend_shape h2
    exact settle_keeps hS hH hV (hlk BR_REFUNDED s.height) hopen rfl rfl rfl (Or.inl rfl)
  · -- declared result
    simp only [Option.bind_eq_some_iff] at h
    obtain ⟨_, hd, h⟩ := h
    have hd : m.status = MS_DECLARED := by simpa using chk_some hd
    unfold settleDeclared at h
    simp only [bind, Option.bind_eq_some_iff, pure, Option.some.injEq] at h
    obtain ⟨bk, hbk, r, hr, s2, h2, rfl⟩ := h
    obtain ⟨_, _, rfl⟩ := bankSend_shape h2
    obtain ⟨hbkm, hbku⟩ := getBook_mem hbk
    have hsb := hS.sortedParts bk hbkm
    have hnn := (hV.betNonneg bet hbm hopen).2
    have hbooks : ∃ bk0 B, getBook s B.uid = some bk0 ∧ (setBook { s with bal := r.1 } r.2).books = upsert Book.key B s.books ∧
        KeepsParts bk0 B ∧ (∀ p' ∈ B.parts, ∃ p ∈ bk0.parts, ∃ d, PartMoved p p' d ∧
          0 ≤ d + (if winsOn s bk0.uid bet then cProfit bet.fulfs p.idx else 0)) := by
      unfold settleOutcome at hr
      split at hr
      · rename_i hwon
        obtain ⟨a1, _, _, _⟩ := bettorWins_same _ _ _ _ _ hr hsb
        obtain ⟨b1, b2⟩ := bettorWins_parts _ _ _ _ _ hr hsb
        refine ⟨bk, r.2, by rw [a1, hbku]; exact hbk, rfl, b2, ?_⟩
        intro p' hp'
        obtain ⟨p, hp, hm'⟩ := b1 p' hp'
        refine ⟨p, hp, _, hm', ?_⟩
        have hw : winsOn s bk.uid bet = true := by
          unfold winsOn wonOutcome
          rw [hopen, hbku, hm]
          simp only [hd, hwon]
          simp
        rw [if_pos hw]
        omega
      · simp only [Option.map_eq_some_iff] at hr
        obtain ⟨b', hb', rfl⟩ := hr
        obtain ⟨a1, _, _, _⟩ := bettorLoses_same _ _ _ hb' hsb
        obtain ⟨b1, b2⟩ := bettorLoses_parts _ _ _ hb' hsb
        refine ⟨bk, b', by rw [a1, hbku]; exact hbk, rfl, b2, ?_⟩
        intro p' hp'
        obtain ⟨p, hp, hm'⟩ := b1 p' hp'
        refine ⟨p, hp, _, hm', ?_⟩
        have h1 := cBet_nonneg bet.fulfs p.idx (fun f hf => (hnn f hf).1)
        have h2 : 0 ≤ (if winsOn s bk.uid bet then cProfit bet.fulfs p.idx else 0) := by
          split
          · exact cProfit_nonneg _ _ (fun f hf => (hnn f hf).2)
          · exact Int.le_refl _
        omega
    exact settle_keeps hS hH hV (hlk _ s.height) hopen rfl rfl rfl (Or.inr hbooks)

theorem chk_true {c : Bool} (h : c = true) : chk c = some () := by
  unfold chk; rw [h]; rfl

theorem isResolvedStatus_cases {st : Nat} (h : isResolvedStatus st = true) :
    st = MS_CANCELED ∨ st = MS_ABORTED ∨ st = MS_DECLARED := by
  unfold isResolvedStatus at h
  simp only [Bool.or_eq_true, beq_iff_eq] at h
  rcases h with (h | h) | h
  · exact Or.inl h
  · exact Or.inr (Or.inl h)
  · exact Or.inr (Or.inr h)

/-- the status of a resolved market is one of the three resolved statuses -/
theorem resolved_status {s : State} (hH : HInv s) {u : Nat} {m : Market} (hm : getMarket s u = some m) (hr : m.resolved) :
    m.status = MS_CANCELED ∨ m.status = MS_ABORTED ∨ m.status = MS_DECLARED := by
  rcases hH.marketStatus m (getMarket_mem hm) with h | h
  · exact absurd hr (by unfold Market.resolved; rw [h]; exact fun e => nomatch e)
  · exact isResolvedStatus_cases h

/-- C05: in a well-formed, solvent reachable state, `Settle` called for an entry of the pending index whose market
    waits in the market queue SUCCEEDS: the bet is found under both keys and is not settled, its market is resolved,
    its book and every backing participation exist, and every transfer (refund of stake and fee; or stake + profit
    of every part to the winner and the fee to the market creator) is a non-negative amount the paying account holds -/
theorem settleBet_succeeds {s : State} (hI : BetIdx s) (hS : SettleInv s) (hQ : SbQInv s) (hH : HInv s) (hV : Solvent s)
    (x : Nat × Nat × Nat × Nat) (hx : x ∈ s.pending) (hq : x.1 ∈ s.mqueue) :
    ∃ s', settleBet s x.2.2.2 x.2.2.1 = some s' := by
  obtain ⟨b, hb, hns, rfl⟩ := hI.ofPend x hx
  have hopen : b.isOpen = true := by
    unfold Bet.isOpen
    simpa using hns
  have hpl : b.status = BS_PLACED := by
    rcases hH.betStatus b hb with h | h
    · exact h
    · exact absurd h hns
  -- the two look-ups
  have hfind : s.bets.find? (fun y => y.uid == b.uid) = some b := by
    cases hf : s.bets.find? (fun y => y.uid == b.uid) with
    | none =>
      rw [List.find?_eq_none] at hf
      have := hf b hb
      simp at this
    | some b0 =>
      have h1 := List.mem_of_find?_eq_some hf
      have h2 : b0.uid = b.uid := by simpa using List.find?_some hf
      rw [hI.uidInj b0 h1 b hb h2]
  have hlook : lookup Bet.key [b.creator, b.id] s.bets = some b := lookup_of_mem_sorted Bet.key b s.bets hI.sBets hb
  -- market and custody
  obtain ⟨m, hm, hres⟩ := hS.queueResolved b.market hq
  have hst := resolved_status hH hm hres
  obtain ⟨n1, n2, n3⟩ := isModuleAcc_false_ne (hS.bettorsUser b hb)
  have hfee : 0 ≤ b.fee ∧ b.fee ≤ getBal s.bal ACC_BETFEE := by
    refine ⟨(hV.betNonneg b hb hopen).1, ?_⟩
    rw [hS.betFee]
    have := sumBy_mem_le Bet.owedFee s.bets (fun y hy => (hV.stake_nonneg y hy).2) b hb
    have e : b.owedFee = b.fee := by unfold Bet.owedFee; rw [hopen]; rfl
    rw [e] at this
    exact this
  show ∃ s', settleBet s b.creator b.uid = some s'
  suffices hbody : ∃ s', (if (m.status == MS_ABORTED || m.status == MS_CANCELED) = true then settleRefund s b
      else (chk (m.status == MS_DECLARED)).bind fun _ => settleDeclared s b m) = some s' by
    obtain ⟨s', hs'⟩ := hbody
    refine ⟨s', ?_⟩
    unfold settleBet
    simp only [bind, Option.bind_eq_some_iff]
    exact ⟨b, hfind, b, hlook, (), chk_true (by rw [hpl]; decide), m, hm, hs'⟩
  by_cases hrf : (m.status == MS_ABORTED || m.status == MS_CANCELED) = true
  · -- refund of stake and fee
    have hamt : 0 ≤ b.amount ∧ b.amount ≤ getBal s.bal ACC_POOL := by
      rw [hS.stake b hb]
      refine ⟨sumBet_nonneg _ (fun f hf => ((hV.betNonneg b hb hopen).2 f hf).1), ?_⟩
      rw [hS.pool]
      unfold owedPool
      have h1 := sumBy_mem_le Bet.owedStake s.bets (fun y hy => (hV.stake_nonneg y hy).1) b hb
      have h2 := sumBy_nonnegSB Book.owed s.books (fun bk hbk => (hV.book_nonneg bk hbk).1)
      have e : b.owedStake = sumBet b.fulfs := by unfold Bet.owedStake; rw [hopen]; rfl
      rw [e] at h1
      omega
    obtain ⟨s1, h1⟩ := bankSend_okSB s ACC_POOL b.creator b.amount hamt.1 hamt.2
    obtain ⟨bal1, rfl, _, _, _, o1⟩ := bankSend_spec h1 (Ne.symm n1)
    obtain ⟨s2, h2⟩ := bankSend_okSB { s with bal := bal1 } ACC_BETFEE b.creator b.fee hfee.1
      (by rw [o1 ACC_BETFEE (by decide) (Ne.symm n2)]; exact hfee.2)
    rw [if_pos hrf]
    unfold settleRefund
    simp only [bind, Option.bind_eq_some_iff, pure, Option.some.injEq]
    exact ⟨_, _, h1, s2, h2, rfl⟩
  · -- declared result
    have hd : m.status = MS_DECLARED := by
      rcases hst with h | h | h
      · rw [h] at hrf; exact absurd rfl hrf
      · rw [h] at hrf; exact absurd rfl hrf
      · exact h
    obtain ⟨bk, hbk, _⟩ := statusOf_some (hQ.mActive b.market hq)
    obtain ⟨hbkm, hbku⟩ := getBook_mem hbk
    have hparts : ∀ f ∈ b.fulfs, (bk.getPart f.idx).isSome = true := by
      intro f hf
      obtain ⟨b0, p, h1, h2⟩ := hH.fulfParts b hb hopen f hf
      rw [hbk] at h1; cases h1
      rw [h2]; rfl
    have hnn := (hV.betNonneg b hb hopen).2
    have hmu := isModuleAcc_false_ne (hS.creatorsUser m (getMarket_mem hm))
    have hout : ∃ r, settleOutcome s.bal (m.winners.contains b.odds) b.creator bk b.fulfs = some r ∧
        getBal r.1 ACC_BETFEE = getBal s.bal ACC_BETFEE := by
      unfold settleOutcome
      cases hw : m.winners.contains b.odds
      · obtain ⟨b', hb'⟩ := bettorLoses_ok b.fulfs bk hparts
        exact ⟨(s.bal, b'), by simp [hb'], rfl⟩
      · have hwon : wonOutcome s b.market b.odds = true := by
          unfold wonOutcome; rw [hm]
          simp only [hd, hw]
          simp
        obtain ⟨r, hr⟩ := bettorWins_ok b.creator (Ne.symm n1) b.fulfs s.bal bk hparts
          (fun f hf => by have := hnn f hf; omega) (pool_covers_win hS hH hV hb hopen hbk hwon)
        obtain ⟨_, _, _, _, _, _, _, _, a9, _⟩ := bettorWins_spec b.creator (hS.bettorsUser b hb) _ _ _ _ hr
          (hS.sortedParts bk hbkm) (open_bet_book hS hb hopen hbk).2
        exact ⟨r, by simp [hr], a9⟩
    obtain ⟨r, hr, hbf⟩ := hout
    obtain ⟨s2, h2⟩ := bankSend_okSB (setBook { s with bal := r.1 } r.2) ACC_BETFEE m.creator b.fee hfee.1
      (by show b.fee ≤ getBal r.1 ACC_BETFEE; rw [hbf]; exact hfee.2)
    have hdecl : ∃ s', settleDeclared s b m = some s' := by
      unfold settleDeclared
      simp only [bind, Option.bind_eq_some_iff, pure, Option.some.injEq]
      exact ⟨_, bk, hbk, r, hr, s2, h2, rfl⟩
    obtain ⟨s', hs'⟩ := hdecl
    rw [if_neg hrf]
    refine ⟨s', ?_⟩
    simp only [Option.bind_eq_some_iff]
    exact ⟨(), chk_true (by rw [hd]; rfl), hs'⟩

end Sge.Core
