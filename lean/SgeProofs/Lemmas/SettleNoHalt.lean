/-
  C05 "block processing never aborts", the provable part: in a reachable state that is well formed (`HInv`) and
  solvent (`Solvent`: no negative backing part, no participation over-exposed on the winning outcome) every look-up,
  every status check, every queue operation and every bank transfer of the two end-blockers succeeds.
  Part 1: definitions, the bank, and the settlement of one bet on the book.
-/
import SgeProofs.Lemmas.SettleBoundReach
namespace Sge.Core
open Sge Sge.Genesis

-- ---------------------------------------------------------------------------------------------
-- sums of non-negative terms

theorem sumBy_nonneg {α : Type} (f : α → Int) (l : List α) (h : ∀ x ∈ l, 0 ≤ f x) : 0 ≤ sumBy f l := by
  induction l with
  | nil => exact Int.le_refl _
  | cons y ys ih =>
    rw [sumBy_cons]
    have := h y (List.mem_cons_self ..)
    have := ih (fun x hx => h x (List.mem_cons_of_mem _ hx))
    omega

theorem sumBy_mem_le {α : Type} (f : α → Int) (l : List α) (h : ∀ x ∈ l, 0 ≤ f x) (y : α) (hy : y ∈ l) : f y ≤ sumBy f l := by
  induction l with
  | nil => cases hy
  | cons z zs ih =>
    rw [sumBy_cons]
    have hz := h z (List.mem_cons_self ..)
    have hrest := sumBy_nonneg f zs (fun x hx => h x (List.mem_cons_of_mem _ hx))
    rcases List.mem_cons.mp hy with rfl | hy
    · omega
    · have := ih (fun x hx => h x (List.mem_cons_of_mem _ hx)) hy
      omega

theorem sumBy_le_sumBy {α : Type} (f g : α → Int) (l : List α) (h : ∀ x ∈ l, f x ≤ g x) : sumBy f l ≤ sumBy g l := by
  induction l with
  | nil => exact Int.le_refl _
  | cons y ys ih =>
    rw [sumBy_cons, sumBy_cons]
    have := h y (List.mem_cons_self ..)
    have := ih (fun x hx => h x (List.mem_cons_of_mem _ hx))
    omega

theorem sumBy_congr {α : Type} (f g : α → Int) (l : List α) (h : ∀ x ∈ l, f x = g x) : sumBy f l = sumBy g l := by
  induction l with
  | nil => rfl
  | cons y ys ih =>
    rw [sumBy_cons, sumBy_cons, h y (List.mem_cons_self ..), ih (fun x hx => h x (List.mem_cons_of_mem _ hx))]

-- ---------------------------------------------------------------------------------------------
-- the bank: a transfer of a non-negative amount that the source account holds succeeds

theorem transfer_ok (bal : List (Nat × Int)) (a b : Nat) (x : Int) (h0 : 0 ≤ x) (h1 : x ≤ getBal bal a) :
    ∃ bal', transfer bal a b x = some bal' := by
  unfold transfer
  have n1 : ¬ x < 0 := by omega
  have n2 : ¬ getBal bal a < x := by omega
  simp only [n1, n2, if_false]
  split
  · exact ⟨_, rfl⟩
  · exact ⟨_, rfl⟩

theorem bankSend_ok (s : State) (a b : Nat) (x : Int) (h0 : 0 ≤ x) (h1 : x ≤ getBal s.bal a) :
    ∃ s', bankSend s a b x = some s' := by
  obtain ⟨bal', h⟩ := transfer_ok s.bal a b x h0 h1
  exact ⟨{ s with bal := bal' }, by unfold bankSend; rw [h]; rfl⟩

-- ---------------------------------------------------------------------------------------------
-- what a state must satisfy

/-- the profit that the fulfilments `fs` promise out of participation `i` -/
def cProfit (fs : List Fulf) (i : Nat) : Int := sumBy (fun f => if f.idx = i then f.profit else 0) fs
/-- the stake that the fulfilments `fs` placed against participation `i` -/
def cBet (fs : List Fulf) (i : Nat) : Int := sumBy (fun f => if f.idx = i then f.bet else 0) fs

/-- the market `u` is declared and `o` is a winning outcome -/
def wonOutcome (s : State) (u o : Nat) : Bool :=
  match getMarket s u with
  | some m => m.status == MS_DECLARED && m.winners.contains o
  | none => false

/-- bet `x` is unsettled, on market `u`, and its outcome has been declared the winner: it will be paid -/
def winsOn (s : State) (u : Nat) (x : Bet) : Bool := x.isOpen && x.market == u && wonOutcome s u x.odds

/-- the profit participation `i` of the book of market `u` still has to pay to unsettled winning bets -/
def promisedW (s : State) (u i : Nat) : Int := sumBy (fun x => if winsOn s u x then cProfit x.fulfs i else 0) s.bets

/-- SOLVENCY, the condition under which no pay-out of the end-blockers can fail:
    (1) no unsettled bet has a negative fee, a negative backing part or a negative promised profit
        (violated by the inputs of known finding KF-C03-negative-part);
    (2) no unpaid participation has a negative fee, and its liquidity plus realised profit covers the profit it
        still has to pay to unsettled bets on the declared winning outcome (0 for a market that is not declared) —
        i.e. no participation is over-exposed on the winner (C02). -/
structure Solvent (s : State) : Prop where
  betNonneg : ∀ x ∈ s.bets, x.isOpen = true → 0 ≤ x.fee ∧ ∀ f ∈ x.fulfs, 0 ≤ f.bet ∧ 0 ≤ f.profit
  partCover : ∀ b ∈ s.books, ∀ p ∈ b.parts, p.isSettled = false →
    0 ≤ p.fee ∧ promisedW s b.uid p.idx ≤ p.liq + p.actualProfit

/-- WELL-FORMEDNESS of the stores, as the end-blockers rely on it: a bet is PLACED or SETTLED, a market is open or
    has one of the three resolved statuses, and every backing part of an unsettled bet names a participation of the
    book of its market. -/
structure HInv (s : State) : Prop where
  betStatus : ∀ x ∈ s.bets, x.status = BS_PLACED ∨ x.status = BS_SETTLED
  marketStatus : ∀ m ∈ s.markets, isOpenStatus m.status = true ∨ isResolvedStatus m.status = true
  fulfParts : ∀ x ∈ s.bets, x.isOpen = true → ∀ f ∈ x.fulfs, ∃ b p, getBook s x.market = some b ∧ b.getPart f.idx = some p

theorem cProfit_nonneg (fs : List Fulf) (i : Nat) (h : ∀ f ∈ fs, 0 ≤ f.profit) : 0 ≤ cProfit fs i := by
  unfold cProfit
  apply sumBy_nonneg
  intro f hf
  split
  · exact h f hf
  · exact Int.le_refl _

theorem promisedW_nonneg {s : State} (hV : Solvent s) (u i : Nat) : 0 ≤ promisedW s u i := by
  unfold promisedW
  apply sumBy_nonneg
  intro x hx
  split
  · rename_i hw
    unfold winsOn at hw
    simp only [Bool.and_eq_true] at hw
    exact cProfit_nonneg _ _ (fun f hf => ((hV.betNonneg x hx hw.1.1).2 f hf).2)
  · exact Int.le_refl _

theorem sumBet_nonneg (fs : List Fulf) (h : ∀ f ∈ fs, 0 ≤ f.bet) : 0 ≤ sumBet fs := by
  have : sumBet fs = sumBy (·.bet) fs := rfl
  rw [this]
  exact sumBy_nonneg _ _ h

theorem sumProfit_nonneg (fs : List Fulf) (h : ∀ f ∈ fs, 0 ≤ f.profit) : 0 ≤ sumProfit fs := by
  have : sumProfit fs = sumBy (·.profit) fs := rfl
  rw [this]
  exact sumBy_nonneg _ _ h

/-- what a participation is owed is non-negative in a solvent state -/
theorem Solvent.owed_nonneg {s : State} (hV : Solvent s) (b : Book) (hb : b ∈ s.books) (p : Part) (hp : p ∈ b.parts) :
    0 ≤ p.owed ∧ 0 ≤ p.owedFee := by
  unfold Part.owed Part.owedFee
  cases hs : p.isSettled
  · have := hV.partCover b hb p hp hs
    have h0 := promisedW_nonneg hV b.uid p.idx
    simp only [Bool.false_eq_true, if_false]
    omega
  · simp

theorem Solvent.book_nonneg {s : State} (hV : Solvent s) (b : Book) (hb : b ∈ s.books) : 0 ≤ b.owed ∧ 0 ≤ b.owedFee :=
  ⟨sumBy_nonneg _ _ (fun p hp => (hV.owed_nonneg b hb p hp).1), sumBy_nonneg _ _ (fun p hp => (hV.owed_nonneg b hb p hp).2)⟩

theorem Solvent.stake_nonneg {s : State} (hV : Solvent s) (x : Bet) (hx : x ∈ s.bets) : 0 ≤ x.owedStake ∧ 0 ≤ x.owedFee := by
  unfold Bet.owedStake Bet.owedFee
  cases ho : x.isOpen
  · simp
  · have := hV.betNonneg x hx ho
    simp only [if_true]
    exact ⟨sumBet_nonneg _ (fun f hf => (this.2 f hf).1), this.1⟩

-- ---------------------------------------------------------------------------------------------
-- BettorLoses / BettorWins on the book

/-- every index that has a participation keeps one -/
def KeepsParts (b b' : Book) : Prop := ∀ i, (b.getPart i).isSome = true → (b'.getPart i).isSome = true

theorem KeepsParts.refl (b : Book) : KeepsParts b b := fun _ h => h
theorem KeepsParts.trans {a b c : Book} (h1 : KeepsParts a b) (h2 : KeepsParts b c) : KeepsParts a c :=
  fun i h => h2 i (h1 i h)

theorem setPart_keeps (b : Book) (p : Part) : KeepsParts b (b.setPart p) := by
  intro i h
  by_cases e : p.idx = i
  · subst e; rw [Book.getPart_setPart_self]; rfl
  · rw [Book.getPart_setPart_ne _ _ _ e]; exact h

theorem cBet_cons (f : Fulf) (fs : List Fulf) (i : Nat) : cBet (f :: fs) i = (if f.idx = i then f.bet else 0) + cBet fs i := by
  unfold cBet; rw [sumBy_cons]
theorem cProfit_cons (f : Fulf) (fs : List Fulf) (i : Nat) :
    cProfit (f :: fs) i = (if f.idx = i then f.profit else 0) + cProfit fs i := by
  unfold cProfit; rw [sumBy_cons]

/-- the custody-relevant relation between a participation before (`p`) and after (`p'`) the settlement of one bet:
    only the realised profit moves, by `d` -/
def PartMoved (p p' : Part) (d : Int) : Prop :=
  p'.idx = p.idx ∧ p'.liq = p.liq ∧ p'.fee = p.fee ∧ p'.isSettled = p.isSettled ∧ p'.actualProfit = p.actualProfit + d

theorem part_key_ne {p q : Part} (h : (Part.key p == Part.key q) = false) : p.idx ≠ q.idx := by
  intro e
  simp [Part.key, e] at h

/-- BettorLoses succeeds when every backing part names a participation -/
theorem bettorLoses_ok : ∀ (fs : List Fulf) (b : Book), (∀ f ∈ fs, (b.getPart f.idx).isSome = true) →
    ∃ b', bettorLoses b fs = some b' := by
  intro fs
  induction fs with
  | nil => intro b _; exact ⟨b, rfl⟩
  | cons f rest ih =>
    intro b h
    have h0 := h f (List.mem_cons_self ..)
    obtain ⟨p, hp⟩ := Option.isSome_iff_exists.mp h0
    obtain ⟨b', hb'⟩ := ih (b.setPart { p with actualProfit := p.actualProfit + f.bet })
      (fun g hg => setPart_keeps b _ g.idx (h g (List.mem_cons_of_mem _ hg)))
    refine ⟨b', ?_⟩
    unfold bettorLoses
    simp only [bind, Option.bind_eq_some_iff]
    exact ⟨p, hp, hb'⟩

/-- BettorLoses: every participation keeps everything but its realised profit, which grows by the stakes placed
    against it; no participation disappears -/
theorem bettorLoses_parts : ∀ (fs : List Fulf) (b b' : Book), bettorLoses b fs = some b' → Sorted Part.key b.parts →
    (∀ p' ∈ b'.parts, ∃ p ∈ b.parts, PartMoved p p' (cBet fs p.idx)) ∧ KeepsParts b b' := by
  intro fs
  induction fs with
  | nil =>
    intro b b' h _
    simp only [bettorLoses, Option.some.injEq] at h
    subst h
    exact ⟨fun p hp => ⟨p, hp, rfl, rfl, rfl, rfl, by simp [cBet, sumBy]⟩, KeepsParts.refl b⟩
  | cons f rest ih =>
    intro b b' h hs
    unfold bettorLoses at h
    simp only [bind, Option.bind_eq_some_iff] at h
    obtain ⟨p0, hp0, h⟩ := h
    have hpi := Book.getPart_idx hp0
    obtain ⟨a1, a2⟩ := ih _ _ h (upsert_sorted Part.key _ b.parts hs)
    refine ⟨?_, (setPart_keeps b _).trans a2⟩
    intro p' hp'
    obtain ⟨p1, hp1, m1, m2, m3, m4, m5⟩ := a1 p' hp'
    rcases (mem_upsert_iff Part.key _ p1 b.parts hs).mp hp1 with e | ⟨hin, hk⟩
    · subst e
      refine ⟨p0, getPart_mem hp0, m1, m2, m3, m4, ?_⟩
      rw [m5, cBet_cons]
      show p0.actualProfit + f.bet + cBet rest p0.idx = _
      simp only [hpi, if_true]
      omega
    · refine ⟨p1, hin, m1, m2, m3, m4, ?_⟩
      have hne : f.idx ≠ p1.idx := by
        have := part_key_ne hk
        intro e
        exact this (by show p1.idx = p0.idx; rw [hpi, e])
      rw [m5, cBet_cons]
      simp [hne]

/-- BettorWins succeeds when every backing part names a participation, no part pays a negative amount, and the pool
    holds the whole pay-out of the bet -/
theorem bettorWins_ok (bettor : Nat) (hne : ACC_POOL ≠ bettor) : ∀ (fs : List Fulf) (bal : List (Nat × Int)) (b : Book),
    (∀ f ∈ fs, (b.getPart f.idx).isSome = true) → (∀ f ∈ fs, 0 ≤ f.profit + f.bet) →
    sumBy (fun f => f.profit + f.bet) fs ≤ getBal bal ACC_POOL → ∃ r, bettorWins bal bettor b fs = some r := by
  intro fs
  induction fs with
  | nil => intro bal b _ _ _; exact ⟨(bal, b), rfl⟩
  | cons f rest ih =>
    intro bal b h hnn hsum
    have h0 := h f (List.mem_cons_self ..)
    obtain ⟨p, hp⟩ := Option.isSome_iff_exists.mp h0
    rw [sumBy_cons] at hsum
    have hrest := sumBy_nonneg (fun f => f.profit + f.bet) rest (fun g hg => hnn g (List.mem_cons_of_mem _ hg))
    have hf := hnn f (List.mem_cons_self ..)
    obtain ⟨bal', ht⟩ := transfer_ok bal ACC_POOL bettor (f.profit + f.bet) hf (by omega)
    obtain ⟨_, t1, _, _⟩ := transfer_spec ht hne
    obtain ⟨r, hr⟩ := ih bal' (b.setPart { p with actualProfit := p.actualProfit - f.profit })
      (fun g hg => setPart_keeps b _ g.idx (h g (List.mem_cons_of_mem _ hg)))
      (fun g hg => hnn g (List.mem_cons_of_mem _ hg)) (by rw [t1]; omega)
    refine ⟨r, ?_⟩
    unfold bettorWins
    simp only [bind, Option.bind_eq_some_iff]
    exact ⟨p, hp, bal', ht, hr⟩

/-- BettorWins: every participation keeps everything but its realised profit, which drops by the profit it paid -/
theorem bettorWins_parts (bettor : Nat) : ∀ (fs : List Fulf) (bal : List (Nat × Int)) (b : Book) (r : List (Nat × Int) × Book),
    bettorWins bal bettor b fs = some r → Sorted Part.key b.parts →
    (∀ p' ∈ r.2.parts, ∃ p ∈ b.parts, PartMoved p p' (- cProfit fs p.idx)) ∧ KeepsParts b r.2 := by
  intro fs
  induction fs with
  | nil =>
    intro bal b r h _
    simp only [bettorWins, Option.some.injEq] at h
    subst h
    exact ⟨fun p hp => ⟨p, hp, rfl, rfl, rfl, rfl, by simp [cProfit, sumBy]⟩, KeepsParts.refl b⟩
  | cons f rest ih =>
    intro bal b r h hs
    unfold bettorWins at h
    simp only [bind, Option.bind_eq_some_iff] at h
    obtain ⟨p0, hp0, bal', _, h⟩ := h
    have hpi := Book.getPart_idx hp0
    obtain ⟨a1, a2⟩ := ih _ _ _ h (upsert_sorted Part.key _ b.parts hs)
    refine ⟨?_, (setPart_keeps b _).trans a2⟩
    intro p' hp'
    obtain ⟨p1, hp1, m1, m2, m3, m4, m5⟩ := a1 p' hp'
    rcases (mem_upsert_iff Part.key _ p1 b.parts hs).mp hp1 with e | ⟨hin, hk⟩
    · subst e
      refine ⟨p0, getPart_mem hp0, m1, m2, m3, m4, ?_⟩
      rw [m5, cProfit_cons]
      show p0.actualProfit - f.profit + -cProfit rest p0.idx = _
      simp only [hpi, if_true]
      omega
    · refine ⟨p1, hin, m1, m2, m3, m4, ?_⟩
      have hne : f.idx ≠ p1.idx := by
        have := part_key_ne hk
        intro e
        exact this (by show p1.idx = p0.idx; rw [hpi, e])
      rw [m5, cProfit_cons]
      simp [hne]

end Sge.Core
