/- lemmas about the mint model: the per-block carry and the steady-phase run -/
import Sge.Mint
import SgeProofs.Lemmas.Dec
namespace Sge.Mint
open Sge

/-- per-block provision (raw, 18 digits) of a minter in a phase with `blocks` blocks -/
def perBlock (m : Minter) (blocks : Dec) : Int := (m.phaseProvisions.quo blocks.truncDec).raw

theorem chopTrunc_mul_PREC {k : Int} (hk : 0 ≤ k) : chopTrunc (k * PREC) = k := by
  rw [chopTrunc_nonneg (by unfold PREC; omega)]
  unfold PREC; omega

/-- `BlockProvisions` when the amount to provision is non-negative: floor and remainder -/
theorem blockProvisions_steady (m : Minter) (blocks : Dec)
    (hb : blocks.truncDec.raw ≠ 0) (hq : 0 ≤ perBlock m blocks + m.truncated.raw) :
    blockProvisions m blocks =
      some ((perBlock m blocks + m.truncated.raw) / PREC, ⟨(perBlock m blocks + m.truncated.raw) % PREC⟩) := by
  unfold blockProvisions
  simp only [hb, if_false]
  unfold perBlock at *
  simp only [Dec.add, Dec.sub, Dec.truncDec, Dec.truncInt] at *
  have h1 := chopTrunc_nonneg hq
  have h2 : 0 ≤ chopTrunc ((m.phaseProvisions.quo ⟨chopTrunc blocks.raw * PREC⟩).raw + m.truncated.raw) :=
    chopTrunc_ge_zero hq
  rw [chopTrunc_mul_PREC h2, h1]
  have : ∀ x : Int, x - x / PREC * PREC = x % PREC := by intro x; unfold PREC; omega
  rw [this]

structure Steady (p : Params) (ph : Phase) (step : Int) (m : Minter) : Prop where
  step_eq : m.phaseStep = step
  infl_eq : m.inflation = ph.inflation
  infl_ne : ph.inflation.raw ≠ 0
  blocks_ne : (phaseBlocks p ph).truncDec.raw ≠ 0
  q_nonneg : 0 ≤ perBlock m (phaseBlocks p ph)
  carry : 0 ≤ m.truncated.raw ∧ m.truncated.raw < PREC

/-- one block inside a phase: mints ⌊q + t⌋, carries the fraction, keeps everything else -/
theorem beginBlock_steady (p : Params) (ph : Phase) (step : Int) (m : Minter) (h s : Int)
    (hcp : currentPhase p h = (ph, step)) (st : Steady p ph step m) :
    let q := perBlock m (phaseBlocks p ph)
    beginBlock p m h s = ({ m with truncated := ⟨(q + m.truncated.raw) % PREC⟩ }, .ok ((q + m.truncated.raw) / PREC)) := by
  intro q
  obtain ⟨h1, h2, h3, h4, h5, h6⟩ := st
  unfold beginBlock
  simp only [hcp]
  have hne : ¬ (step ≠ m.phaseStep ∨ m.inflation ≠ ph.inflation) := by
    intro hc; rcases hc with hc | hc
    · exact hc h1.symm
    · exact hc h2
  have hr : refresh p m ph step s = m := by unfold refresh; simp only [hne, if_false]
  rw [hr]
  unfold provision
  have h3' : ¬ m.inflation.raw = 0 := by rw [h2]; exact h3
  simp only [h3', if_false]
  rw [blockProvisions_steady m (phaseBlocks p ph) h4 (by omega)]
  simp only
  have : ¬ ((perBlock m (phaseBlocks p ph) + m.truncated.raw) / PREC < 0) := by
    unfold PREC; omega
  simp only [this, if_false]
  rfl

theorem provision_nonneg (m0 m1 : Minter) (b : Dec) (n : Int) (h : (provision m0 m1 b).2 = .ok n) : 0 ≤ n := by
  unfold provision at h
  split at h
  · simp only [BlockRes.ok.injEq] at h; omega
  · split at h
    · simp at h
    · split at h
      · simp at h
      · simp only [BlockRes.ok.injEq] at h; omega

theorem provision_zero (m0 m1 : Minter) (b : Dec) (h : m1.inflation.raw = 0) : provision m0 m1 b = (m1, .ok 0) := by
  unfold provision; simp [h]

theorem refresh_inflation (p : Params) (m : Minter) (ph : Phase) (step s : Int) :
    (refresh p m ph step s).inflation = ph.inflation := by
  unfold refresh
  split
  · rfl
  · rename_i hne
    apply Classical.byContradiction; intro hc; exact hne (Or.inr hc)

theorem steady_next (p : Params) (ph : Phase) (step : Int) (m : Minter) (st : Steady p ph step m) (t : Int)
    (ht : 0 ≤ t ∧ t < PREC) : Steady p ph step { m with truncated := ⟨t⟩ } := by
  obtain ⟨h1, h2, h3, h4, h5, h6⟩ := st
  exact ⟨h1, h2, h3, h4, h5, ht⟩


/-- the chain after one block inside a phase -/
theorem begin_steady (p : Params) (ph : Phase) (step : Int) (c : Chain) (h : Int)
    (hcp : currentPhase p h = (ph, step)) (st : Steady p ph step c.minter) (hh : c.halted = false) :
    c.begin p h =
      { supply := c.supply + (perBlock c.minter (phaseBlocks p ph) + c.minter.truncated.raw) / PREC,
        collector := c.collector + (perBlock c.minter (phaseBlocks p ph) + c.minter.truncated.raw) / PREC,
        minter := { c.minter with truncated := ⟨(perBlock c.minter (phaseBlocks p ph) + c.minter.truncated.raw) % PREC⟩ },
        halted := false } := by
  have hstep := beginBlock_steady p ph step c.minter h c.supply hcp st
  simp only at hstep
  unfold Chain.begin
  simp only [hh, Bool.false_eq_true, if_false, hstep]

/-- invariant of a run of `n` blocks inside one phase: exact carry equation -/
theorem runBlocks_steady (p : Params) (ph : Phase) (step : Int) (q : Int) (n : Nat) :
    ∀ (h : Int) (c : Chain),
    (∀ i : Nat, i < n → currentPhase p (h + i) = (ph, step)) →
    Steady p ph step c.minter → c.halted = false → perBlock c.minter (phaseBlocks p ph) = q →
    (runBlocks p n h c).halted = false ∧
    (runBlocks p n h c).minter.phaseProvisions = c.minter.phaseProvisions ∧
    (runBlocks p n h c).supply - c.supply = (runBlocks p n h c).collector - c.collector ∧
    ((runBlocks p n h c).supply - c.supply) * PREC
        = n * q + c.minter.truncated.raw - (runBlocks p n h c).minter.truncated.raw ∧
    0 ≤ (runBlocks p n h c).minter.truncated.raw ∧ (runBlocks p n h c).minter.truncated.raw < PREC := by
  induction n with
  | zero =>
    intro h c _ st hh _
    have := st.carry
    refine ⟨hh, rfl, by simp [runBlocks], by simp [runBlocks], this.1, this.2⟩
  | succ n ih =>
    intro h c hcp st hh hq
    have h0 := hcp 0 (by omega)
    simp only [Int.natCast_zero, Int.add_zero] at h0
    have hc1 := begin_steady p ph step c h h0 st hh
    rw [hq] at hc1
    have hcar : 0 ≤ (q + c.minter.truncated.raw) % PREC ∧ (q + c.minter.truncated.raw) % PREC < PREC := by
      unfold PREC; omega
    have st1 := steady_next p ph step c.minter st _ hcar
    have ih' := ih (h + 1) (c.begin p h)
      (by
        intro i hi
        have := hcp (i + 1) (by omega)
        rw [show h + 1 + (i : Int) = h + ((i + 1 : Nat) : Int) by push_cast; omega]
        exact this)
      (by rw [hc1]; exact st1) (by rw [hc1]) (by rw [hc1]; exact hq)
    simp only [runBlocks]
    generalize runBlocks p n (h + 1) (c.begin p h) = r at ih' ⊢
    rw [hc1] at ih'
    simp only at ih'
    obtain ⟨i1, i2, i3, i4, i5, i6⟩ := ih'
    have key : ((n + 1 : Nat) : Int) * q = n * q + q := by push_cast; rw [Int.add_mul]; omega
    rw [key]
    refine ⟨i1, i2, by omega, ?_, i5, i6⟩
    have hc := st.carry
    unfold PREC at *
    omega

theorem list_sum_nonneg (l : List Int) (h : ∀ x ∈ l, 0 ≤ x) : 0 ≤ l.sum := by
  induction l with
  | nil => simp
  | cons a t ih =>
    simp only [List.sum_cons]
    have := h a (List.mem_cons_self ..)
    have := ih (fun x hx => h x (List.mem_cons_of_mem _ hx))
    omega

end Sge.Mint
