/- each core operation before settlement preserves the custody invariant -/
import SgeProofs.Lemmas.Custody
namespace Sge.Core
open Sge Sge.Genesis

/-- the invariant used for the histories without settlement: custody equations + store shape + bet ids bounded
    by the counter -/
structure CustI (s : State) : Prop extends Cust s where
  betIds : ∀ b ∈ s.bets, b.id ≤ s.betCount

theorem initExposures_parts (idx : Nat) (b : Book) (oq : Nat × List Nat) :
    (initExposures idx b oq).parts = b.parts ∧ (initExposures idx b oq).uid = b.uid := ⟨rfl, rfl⟩

theorem initExposuresFold_parts (idx : Nat) : ∀ (l : List (Nat × List Nat)) (b : Book),
    (l.foldl (initExposures idx) b).parts = b.parts ∧ (l.foldl (initExposures idx) b).uid = b.uid := by
  intro l
  induction l with
  | nil => intro b; exact ⟨rfl, rfl⟩
  | cons x xs ih =>
    intro b
    simp only [List.foldl_cons]
    have h1 := ih (initExposures idx b x)
    exact ⟨h1.1, h1.2⟩

theorem addParticipation_spec (b : Book) (addr : Nat) (liq fee : Int) (hs : Sorted Part.key b.parts)
    (hnew : b.getPart (b.partCount + 1) = none) :
    (b.addParticipation addr liq fee).1.uid = b.uid ∧
    (b.addParticipation addr liq fee).1.owed = b.owed + liq ∧
    (b.addParticipation addr liq fee).1.owedFee = b.owedFee + fee ∧
    Sorted Part.key (b.addParticipation addr liq fee).1.parts ∧
    (∀ p ∈ (b.addParticipation addr liq fee).1.parts, p ∈ b.parts ∨ p.addr = addr) := by
  unfold Book.addParticipation
  simp only
  have hf := initExposuresFold_parts (b.partCount + 1) (b.setPart (b.newPart addr liq fee)).queues (b.setPart (b.newPart addr liq fee))
  have hk : lookup Part.key (Part.key (b.newPart addr liq fee)) b.parts = none := hnew
  refine ⟨hf.2, ?_, ?_, ?_, ?_⟩
  · show sumBy Part.owed (Book.parts (List.foldl _ _ _)) = _
    rw [hf.1]
    show sumBy Part.owed (upsert Part.key _ b.parts) = _
    rw [sumBy_upsert Part.key _ _ b.parts hs, hk]
    simp [Part.owed, Book.owed, Book.newPart]
  · show sumBy Part.owedFee (Book.parts (List.foldl _ _ _)) = _
    rw [hf.1]
    show sumBy Part.owedFee (upsert Part.key _ b.parts) = _
    rw [sumBy_upsert Part.key _ _ b.parts hs, hk]
    simp [Part.owedFee, Book.owedFee, Book.newPart]
  · show Sorted Part.key (Book.parts (List.foldl _ _ _))
    rw [hf.1]
    exact upsert_sorted Part.key _ b.parts hs
  · intro p hp
    have hp' : p ∈ Book.parts (List.foldl (initExposures (b.partCount + 1)) _ _) := hp
    rw [hf.1] at hp'
    rcases (mem_upsert_iff Part.key _ p b.parts hs).mp hp' with h | h
    · right; rw [h]; rfl
    · left; exact h.1

theorem removeFromQueues_parts (idx : Nat) : ∀ (l : List (Nat × List Nat)) (b b' : Book),
    removeFromQueues idx l b = some b' → b'.parts = b.parts ∧ b'.uid = b.uid := by
  intro l
  induction l with
  | nil => intro b b' h; simp [removeFromQueues] at h; rw [← h]; exact ⟨rfl, rfl⟩
  | cons x xs ih =>
    intro b b' h
    unfold removeFromQueues at h
    split at h
    · cases h
    · have := ih _ _ h
      exact ⟨this.1, this.2⟩

end Sge.Core

namespace Sge.Core
open Sge Sge.Genesis

theorem getBook_congr {s s' : State} (h : s'.books = s.books) (u : Nat) : getBook s' u = getBook s u := by
  unfold getBook; rw [h]

/-- MsgDeposit keeps the custody invariant (the depositor is a user account) -/
theorem houseDepositO_custI {s : State} {r : State × Nat} {c : Nat} {tk : Tk} {m : Nat} {a : Int} {pd : Nat}
    (hI : CustI s) (h : houseDepositO s c tk m a pd = some r) (hu : isModuleAcc (depositFor c pd) = false) : CustI r.1 := by
  obtain ⟨⟨hp, hbf, hhf, hsb, hsp, hsbets, hpu⟩, hids⟩ := hI
  unfold houseDepositO at h
  simp only [bind, Option.bind_eq_some_iff, pure, Option.some.injEq] at h
  obtain ⟨_, _, _, _, _, _, s1, hs1, _, _, mk, _, b, hb, _, _, _, _, _, _, _, hnew, s2, hs2, s3, hs3, rfl⟩ := h
  have hnew := chk_some hnew
  obtain ⟨gs, rfl⟩ := grantStep_shape hs1
  obtain ⟨hne1, hne2, hne3⟩ := isModuleAcc_false_ne hu
  obtain ⟨bal2, rfl, _, _, e2b, e2c⟩ := bankSend_spec hs2 hne1
  obtain ⟨bal3, rfl, _, _, e3b, e3c⟩ := bankSend_spec hs3 hne3
  have e2b : getBal bal2 ACC_POOL = getBal s.bal ACC_POOL + (a - (s.params.houseFee.mulInt a).roundInt) := e2b
  have e2c : ∀ c', c' ≠ depositFor c pd → c' ≠ ACC_POOL → getBal bal2 c' = getBal s.bal c' := e2c
  have e3b : getBal bal3 ACC_HOUSEFEE = getBal bal2 ACC_HOUSEFEE + (s.params.houseFee.mulInt a).roundInt := e3b
  have e3c : ∀ c', c' ≠ depositFor c pd → c' ≠ ACC_HOUSEFEE → getBal bal3 c' = getBal bal2 c' := e3c
  have hb' : getBook s m = some b := hb
  obtain ⟨hbm, hbu⟩ := getBook_mem hb'
  have hsparts := hsp b hbm
  have hnone : b.getPart (b.partCount + 1) = none := by simpa using hnew
  obtain ⟨au, ao, af, asrt, amem⟩ := addParticipation_spec b (depositFor c pd)
    (a - (s.params.houseFee.mulInt a).roundInt) (s.params.houseFee.mulInt a).roundInt hsparts hnone
  have hbk : getBook s (b.addParticipation (depositFor c pd) (a - (s.params.houseFee.mulInt a).roundInt)
      (s.params.houseFee.mulInt a).roundInt).1.uid = some b := by rw [au, hbu]; exact hb'
  have hsums := setBook_sums s _ _ hsb hbk
  refine ⟨⟨?_, ?_, ?_, ?_, ?_, hsbets, ?_⟩, hids⟩
  · -- pool
    show getBal bal3 ACC_POOL = sumBy Book.owed (upsert Book.key _ s.books) + sumBy Bet.owedStake s.bets
    have e1 : getBal bal3 ACC_POOL = getBal bal2 ACC_POOL := e3c ACC_POOL (Ne.symm hne1) (by decide)
    have hs' : sumBy Book.owed (upsert Book.key (b.addParticipation (depositFor c pd) (a - (s.params.houseFee.mulInt a).roundInt)
      (s.params.houseFee.mulInt a).roundInt).1 s.books) = sumBy Book.owed s.books - b.owed + (b.owed + (a - (s.params.houseFee.mulInt a).roundInt)) := by
      have := hsums.1; unfold setBook at this; rw [this, ao]
    rw [hs', e1, e2b]
    unfold owedPool at hp
    omega
  · -- bet fee collector untouched
    show getBal bal3 ACC_BETFEE = sumBy Bet.owedFee s.bets
    rw [e3c ACC_BETFEE (Ne.symm hne2) (by decide), e2c ACC_BETFEE (Ne.symm hne2) (by decide)]
    exact hbf
  · -- house fee collector
    show getBal bal3 ACC_HOUSEFEE = sumBy Book.owedFee (upsert Book.key _ s.books)
    have hs' : sumBy Book.owedFee (upsert Book.key (b.addParticipation (depositFor c pd) (a - (s.params.houseFee.mulInt a).roundInt)
      (s.params.houseFee.mulInt a).roundInt).1 s.books) = sumBy Book.owedFee s.books - b.owedFee + (b.owedFee + (s.params.houseFee.mulInt a).roundInt) := by
      have := hsums.2; unfold setBook at this; rw [this, af]
    rw [hs', e3b, e2c ACC_HOUSEFEE (Ne.symm hne3) (by decide)]
    unfold owedHouseFee at hhf
    omega
  · exact upsert_sorted Book.key _ s.books hsb
  · intro x hx
    rcases setBook_mem (s := s) hsb hx with rfl | hx
    · exact asrt
    · exact hsp x hx
  · intro x hx p hpx
    rcases setBook_mem (s := s) hsb hx with rfl | hx
    · rcases amem p hpx with h | h
      · exact hpu b hbm p h
      · rw [h]; exact hu
    · exact hpu x hx p hpx

end Sge.Core

namespace Sge.Core
open Sge Sge.Genesis

/-- MsgWithdraw keeps the custody invariant -/
theorem houseWithdrawO_custI {s s' : State} {c : Nat} {tk : Tk} {m i md : Nat} {a : Int} {pd : Nat}
    (hI : CustI s) (h : houseWithdrawO s c tk m i md a pd = some s') : CustI s' := by
  obtain ⟨⟨hp, hbf, hhf, hsb, hsp, hsbets, hpu⟩, hids⟩ := hI
  unfold houseWithdrawO at h
  simp only [bind, Option.bind_eq_some_iff, pure, Option.some.injEq] at h
  obtain ⟨_, _, _, _, _, _, _, _, _, _, d, _, b, hb, _, _, w, hw, s1, hs1, p, hpp, s2, hs2, b', hb', rfl⟩ := h
  obtain ⟨gs, rfl⟩ := grantStep_shape hs1
  obtain ⟨hbm, hbu⟩ := getBook_mem hb
  have hsparts := hsp b hbm
  -- the participation is unsettled and belongs to a user
  have hpm : p ∈ b.parts := by
    unfold Book.getPart lookup at hpp
    exact List.mem_of_find?_eq_some hpp
  obtain ⟨hne1, _, _⟩ := isModuleAcc_false_ne (hpu b hbm p hpm)
  have hunset : p.isSettled = false := by
    unfold calcWithdrawal at hw
    simp only [bind, Option.bind_eq_some_iff] at hw
    obtain ⟨p', hp', _, c1, _⟩ := hw
    rw [hpp] at hp'; cases hp'
    simpa using chk_some c1
  obtain ⟨bal2, rfl, _, e2a, e2b, e2c⟩ := bankSend_spec hs2 (Ne.symm hne1)
  have e2a : getBal bal2 ACC_POOL = getBal s.bal ACC_POOL - w := e2a
  have e2c : ∀ c', c' ≠ ACC_POOL → c' ≠ p.addr → getBal bal2 c' = getBal s.bal c' := e2c
  -- the book after the withdrawal
  have hbw : b'.parts = (b.setPart { p with crl := p.crl - w, liq := p.liq - w }).parts ∧ b'.uid = b.uid := by
    unfold Book.withdraw at hb'
    rw [hpp] at hb'
    simp only at hb'
    split at hb'
    · cases hb'; exact ⟨rfl, rfl⟩
    · have := removeFromQueues_parts _ _ _ _ hb'
      exact ⟨this.1, this.2⟩
  have hpi := Book.getPart_idx hpp
  have hq' : lookup Part.key (Part.key { p with crl := p.crl - w, liq := p.liq - w }) b.parts = some p := by
    show lookup Part.key [p.idx] b.parts = some p
    rw [hpi]; exact hpp
  have ho : b'.owed = b.owed - w := by
    unfold Book.owed; rw [hbw.1]
    show sumBy Part.owed (upsert Part.key _ b.parts) = _
    rw [sumBy_upsert Part.key _ _ b.parts hsparts, hq']
    simp only [Part.owed, hunset]
    simp only [Bool.false_eq_true, if_false]
    omega
  have hof : b'.owedFee = b.owedFee := by
    unfold Book.owedFee; rw [hbw.1]
    show sumBy Part.owedFee (upsert Part.key _ b.parts) = _
    rw [sumBy_upsert Part.key _ _ b.parts hsparts, hq']
    simp only [Part.owedFee, hunset]
    omega
  have hbk : getBook s b'.uid = some b := by rw [hbw.2, hbu]; exact hb
  have hsums := setBook_sums s b b' hsb hbk
  refine ⟨⟨?_, ?_, ?_, ?_, ?_, hsbets, ?_⟩, hids⟩
  · show getBal bal2 ACC_POOL = sumBy Book.owed (upsert Book.key b' s.books) + sumBy Bet.owedStake s.bets
    have := hsums.1; unfold setBook at this; simp only at this
    rw [this, ho, e2a]
    unfold owedPool at hp
    omega
  · show getBal bal2 ACC_BETFEE = sumBy Bet.owedFee s.bets
    rw [e2c ACC_BETFEE (by decide) (by intro e; exact absurd e.symm (isModuleAcc_false_ne (hpu b hbm p hpm)).2.1)]
    exact hbf
  · show getBal bal2 ACC_HOUSEFEE = sumBy Book.owedFee (upsert Book.key b' s.books)
    have := hsums.2; unfold setBook at this; simp only at this
    rw [this, hof, e2c ACC_HOUSEFEE (by decide) (by intro e; exact absurd e.symm (isModuleAcc_false_ne (hpu b hbm p hpm)).2.2)]
    unfold owedHouseFee at hhf
    omega
  · exact upsert_sorted Book.key _ s.books hsb
  · intro x hx
    rcases setBook_mem (s := s) hsb hx with rfl | hx
    · rw [hbw.1]; exact upsert_sorted Part.key _ b.parts hsparts
    · exact hsp x hx
  · intro x hx q hqx
    rcases setBook_mem (s := s) hsb hx with rfl | hx
    · rw [hbw.1] at hqx
      rcases (mem_upsert_iff Part.key _ q b.parts hsparts).mp hqx with h | h
      · rw [h]; exact hpu b hbm p hpm
      · exact hpu b hbm q h.1
    · exact hpu x hx q hqx

end Sge.Core

namespace Sge.Core
open Sge Sge.Genesis

theorem lookup_none_of_forall {α : Type} (key : α → List Nat) (k : List Nat) (l : List α)
    (h : ∀ y ∈ l, key y ≠ k) : lookup key k l = none := by
  unfold lookup
  rw [List.find?_eq_none]
  intro y hy
  simp only [beq_iff_eq]
  exact h y hy

/-- MsgWager keeps the custody invariant (the bettor is a user account) -/
theorem wagerO_custI {s s' : State} {c : Nat} {tk : Tk} {u : Nat} {a : Int} {pl : WagerPayload}
    (hI : CustI s) (h : wagerO s c tk u a pl = some s') (hu : isModuleAcc c = false) : CustI s' := by
  obtain ⟨⟨hp, hbf, hhf, hsb, hsp, hsbets, hpu⟩, hids⟩ := hI
  unfold wagerO at h
  simp only [bind, Option.bind_eq_some_iff, pure, Option.some.injEq] at h
  obtain ⟨_, _, _, _, _, _, _, _, _, _, _, _, _, _, m, _, _, _, _, _, _, _, _, _, _, _, _, _, ov, _, _, _, b, hb, r, hr, s1, hs1, s2, hs2, rfl⟩ := h
  obtain ⟨b', fulfs, taken⟩ := r
  obtain ⟨hne1, hne2, hne3⟩ := isModuleAcc_false_ne hu
  obtain ⟨bal1, rfl, _, _, e1b, e1c⟩ := bankSend_spec hs1 hne2
  obtain ⟨bal2, rfl, _, _, e2b, e2c⟩ := bankSend_spec hs2 hne1
  have e1b : getBal bal1 ACC_BETFEE = getBal s.bal ACC_BETFEE + s.params.betFee := e1b
  have e1c : ∀ c', c' ≠ c → c' ≠ ACC_BETFEE → getBal bal1 c' = getBal s.bal c' := e1c
  have e2b : getBal bal2 ACC_POOL = getBal bal1 ACC_POOL + taken := e2b
  have e2c : ∀ c', c' ≠ c → c' ≠ ACC_POOL → getBal bal2 c' = getBal bal1 c' := e2c
  obtain ⟨hbm, hbu⟩ := getBook_mem hb
  have hsparts := hsp b hbm
  obtain ⟨ho, hof, hsrt, hbu', hfrom⟩ := processWager_custody _ _ _ _ _ _ _ _ _ _ _ _ _ hsparts hr
  have htaken := processWager_charged _ _ _ _ _ _ _ _ _ _ _ _ _ hr
  have hbk : getBook s b'.uid = some b := by rw [hbu', hbu]; exact hb
  have hsums := setBook_sums s b b' hsb hbk
  -- the new bet has a fresh key
  have hfresh : lookup Bet.key [c, s.betCount + 1] s.bets = none := by
    apply lookup_none_of_forall
    intro y hy hk
    have := hids y hy
    simp only [Bet.key, List.cons.injEq, and_true] at hk
    omega
  refine ⟨⟨?_, ?_, ?_, ?_, ?_, ?_, ?_⟩, ?_⟩
  · show getBal bal2 ACC_POOL = sumBy Book.owed (upsert Book.key b' s.books) + sumBy Bet.owedStake (upsert Bet.key _ s.bets)
    have h1 := hsums.1; unfold setBook at h1; simp only at h1
    rw [h1, ho, sumBy_upsert Bet.key _ _ s.bets hsbets]
    have : lookup Bet.key (Bet.key (newBet s c u pl ov fulfs)) s.bets = none := hfresh
    rw [this]
    simp only [Bet.owedStake, Bet.isOpen, newBet]
    rw [e2b, e1c ACC_POOL (Ne.symm hne1) (by decide)]
    unfold owedPool at hp
    have : (BS_PLACED != BS_SETTLED) = true := by decide
    simp only [this, if_true]
    omega
  · show getBal bal2 ACC_BETFEE = sumBy Bet.owedFee (upsert Bet.key _ s.bets)
    rw [sumBy_upsert Bet.key _ _ s.bets hsbets]
    have : lookup Bet.key (Bet.key (newBet s c u pl ov fulfs)) s.bets = none := hfresh
    rw [this]
    simp only [Bet.owedFee, Bet.isOpen, newBet]
    rw [e2c ACC_BETFEE (Ne.symm hne2) (by decide), e1b]
    unfold owedBetFee at hbf
    have : (BS_PLACED != BS_SETTLED) = true := by decide
    simp only [this, if_true]
    omega
  · show getBal bal2 ACC_HOUSEFEE = sumBy Book.owedFee (upsert Book.key b' s.books)
    have h1 := hsums.2; unfold setBook at h1; simp only at h1
    rw [h1, hof, e2c ACC_HOUSEFEE (Ne.symm hne3) (by decide), e1c ACC_HOUSEFEE (Ne.symm hne3) (by decide)]
    unfold owedHouseFee at hhf
    omega
  · exact upsert_sorted Book.key _ s.books hsb
  · intro x hx
    rcases setBook_mem (s := s) hsb hx with rfl | hx
    · exact hsrt
    · exact hsp x hx
  · exact upsert_sorted Bet.key _ s.bets hsbets
  · intro x hx q hqx
    rcases setBook_mem (s := s) hsb hx with rfl | hx
    · obtain ⟨q0, hq0, hc0⟩ := hfrom q hqx
      rw [hc0.2.2.2.2.2]; exact hpu b hbm q0 hq0
    · exact hpu x hx q hqx
  · intro y hy
    show y.id ≤ s.betCount + 1
    rcases (mem_upsert_iff Bet.key _ y s.bets hsbets).mp hy with h | h
    · rw [h]; exact Nat.le_refl _
    · have := hids y h.1; omega

end Sge.Core

namespace Sge.Core
open Sge Sge.Genesis

theorem marketAddO_custI {s s' : State} {c : Nat} {tk : Tk} {u st en : Nat} {o : List Nat} {stt : Nat}
    (hI : CustI s) (h : marketAddO s c tk u st en o stt = some s') : CustI s' := by
  obtain ⟨⟨hp, hbf, hhf, hsb, hsp, hsbets, hpu⟩, hids⟩ := hI
  unfold marketAddO at h
  simp only [bind, Option.bind_eq_some_iff, pure, Option.some.injEq] at h
  obtain ⟨_, _, _, _, _, _, _, _, _, _, _, _, _, h7, rfl⟩ := h
  have h7 : getBook s u = none := by simpa using chk_some h7
  have hsums := setBook_new_sums s (newBook u o) hsb h7
  have hz : (newBook u o).owed = 0 ∧ (newBook u o).owedFee = 0 := ⟨rfl, rfl⟩
  refine ⟨⟨?_, hbf, ?_, ?_, ?_, hsbets, ?_⟩, hids⟩
  · show getBal s.bal ACC_POOL = sumBy Book.owed (setBook s (newBook u o)).books + sumBy Bet.owedStake s.bets
    rw [hsums.1, hz.1]; unfold owedPool at hp; omega
  · show getBal s.bal ACC_HOUSEFEE = sumBy Book.owedFee (setBook s (newBook u o)).books
    rw [hsums.2, hz.2]; unfold owedHouseFee at hhf; omega
  · exact upsert_sorted Book.key _ s.books hsb
  · intro x hx
    rcases setBook_mem (s := s) hsb hx with rfl | hx
    · show Sorted Part.key []; unfold Sorted; exact List.Pairwise.nil
    · exact hsp x hx
  · intro x hx q hqx
    rcases setBook_mem (s := s) hsb hx with rfl | hx
    · cases hqx
    · exact hpu x hx q hqx

/-- the invariant only reads balances, books, bets and the bet counter -/
theorem CustI.of_eq {s s' : State} (h : CustI s) (hb : s'.bal = s.bal) (hk : s'.books = s.books) (ht : s'.bets = s.bets)
    (hc : s'.betCount = s.betCount) : CustI s' := by
  obtain ⟨⟨hp, hbf, hhf, hsb, hsp, hsbets, hpu⟩, hids⟩ := h
  refine ⟨⟨?_, ?_, ?_, by rw [hk]; exact hsb, by rw [hk]; exact hsp, by rw [ht]; exact hsbets, by rw [hk]; exact hpu⟩, ?_⟩
  · unfold owedPool at *; rw [hb, hk, ht]; exact hp
  · unfold owedBetFee at *; rw [hb, ht]; exact hbf
  · unfold owedHouseFee at *; rw [hb, hk]; exact hhf
  · rw [ht, hc]; exact hids

theorem marketUpdateO_custI {s s' : State} {tk : Tk} {u st en stt : Nat}
    (hI : CustI s) (h : marketUpdateO s tk u st en stt = some s') : CustI s' := by
  unfold marketUpdateO at h
  simp only [bind, Option.bind_eq_some_iff, pure, Option.some.injEq] at h
  obtain ⟨_, _, _, _, _, _, _, _, _, _, rfl⟩ := h
  exact hI.of_eq rfl rfl rfl rfl

theorem marketResolveO_custI {s s' : State} {tk : Tk} {u ts stt : Nat} {w : List Nat}
    (hI : CustI s) (h : marketResolveO s tk u ts stt w = some s') : CustI s' := by
  unfold marketResolveO at h
  simp only [bind, Option.bind_eq_some_iff, pure, Option.some.injEq] at h
  obtain ⟨_, _, _, _, _, _, _, _, _, _, rfl⟩ := h
  exact hI.of_eq rfl rfl rfl rfl

/-- well-formed operations: messages are signed by (and deposits made for) user accounts, never module accounts -/
def Op.userSigned : Op → Prop
  | .deposit c _ _ _ pd => isModuleAcc (depositFor c pd) = false
  | .wager c _ _ _ _ => isModuleAcc c = false
  | _ => True

/-- every operation other than an end-block keeps the custody invariant -/
theorem step_custI (s : State) (op : Op) (hI : CustI s) (hwf : op.userSigned) (hne : op ≠ .endBlock) : CustI (step s op).1 := by
  cases op with
  | marketAdd c tk u st en o stt =>
    simp only [step, marketAdd, commit]
    cases h : marketAddO s c tk u st en o stt with
    | none => exact hI
    | some s' => exact marketAddO_custI hI h
  | marketUpdate tk u st en stt =>
    simp only [step, marketUpdate, commit]
    cases h : marketUpdateO s tk u st en stt with
    | none => exact hI
    | some s' => exact marketUpdateO_custI hI h
  | marketResolve tk u ts stt w =>
    simp only [step, marketResolve, commit]
    cases h : marketResolveO s tk u ts stt w with
    | none => exact hI
    | some s' => exact marketResolveO_custI hI h
  | deposit c tk m a pd =>
    simp only [step, houseDeposit]
    cases h : houseDepositO s c tk m a pd with
    | none => exact hI
    | some r => exact houseDepositO_custI hI h hwf
  | withdraw c tk m i md a pd =>
    simp only [step, houseWithdraw, commit]
    cases h : houseWithdrawO s c tk m i md a pd with
    | none => exact hI
    | some s' => exact houseWithdrawO_custI hI h
  | wager c tk u a pl =>
    simp only [step, wager, commit]
    cases h : wagerO s c tk u a pl with
    | none => exact hI
    | some s' => exact wagerO_custI hI h hwf
  | grant g e k l x => exact hI.of_eq rfl rfl rfl rfl
  | revoke g e k => exact hI.of_eq rfl rfl rfl rfl
  | send a b x =>
    simp only [step]
    split
    · exact hI
    · rename_i hm
      unfold commit
      cases h : bankSend s a b x with
      | none => exact hI
      | some s' =>
        simp only [Bool.or_eq_true, not_or, Bool.not_eq_true] at hm
        obtain ⟨ha1, ha2, ha3⟩ := isModuleAcc_false_ne hm.1
        obtain ⟨hb1, hb2, hb3⟩ := isModuleAcc_false_ne hm.2
        obtain ⟨⟨hp, hbf, hhf, hsb, hsp, hsbets, hpu⟩, hids⟩ := hI
        by_cases hab : a = b
        · subst hab
          obtain ⟨bal', ht, rfl⟩ := bankSend_shape h
          -- a transfer to oneself changes no balance
          have : ∀ c', getBal bal' c' = getBal s.bal c' := by
            intro c'
            unfold transfer at ht
            split at ht
            · cases ht
            · split at ht
              · cases ht
              · split at ht
                · cases ht; rfl
                · simp only [Option.some.injEq] at ht
                  subst ht
                  by_cases hc : a = c'
                  · subst hc; rw [getBal_setBal_self, getBal_setBal_self]; omega
                  · rw [getBal_setBal_ne _ _ _ _ hc, getBal_setBal_ne _ _ _ _ hc]
          exact ⟨⟨by show getBal bal' ACC_POOL = _; rw [this]; exact hp,
                  by show getBal bal' ACC_BETFEE = _; rw [this]; exact hbf,
                  by show getBal bal' ACC_HOUSEFEE = _; rw [this]; exact hhf, hsb, hsp, hsbets, hpu⟩, hids⟩
        · obtain ⟨bal', rfl, _, _, _, ec⟩ := bankSend_spec h hab
          exact ⟨⟨by show getBal bal' ACC_POOL = _; rw [ec _ (Ne.symm ha1) (Ne.symm hb1)]; exact hp,
                  by show getBal bal' ACC_BETFEE = _; rw [ec _ (Ne.symm ha2) (Ne.symm hb2)]; exact hbf,
                  by show getBal bal' ACC_HOUSEFEE = _; rw [ec _ (Ne.symm ha3) (Ne.symm hb3)]; exact hhf, hsb, hsp, hsbets, hpu⟩, hids⟩
  | setParams p =>
    simp only [step]
    split
    · exact hI.of_eq rfl rfl rfl rfl
    · exact hI
  | endBlock => exact absurd rfl hne
  | newBlock h t => exact hI.of_eq rfl rfl rfl rfl

theorem run_custI (s : State) (ops : List Op) (hI : CustI s)
    (hwf : ∀ op ∈ ops, op.userSigned ∧ op ≠ .endBlock) : CustI (run s ops) := by
  induction ops generalizing s with
  | nil => exact hI
  | cons op rest ih =>
    have h1 := hwf op (List.mem_cons_self ..)
    exact ih _ (step_custI s op hI h1.1 h1.2) (fun o ho => hwf o (List.mem_cons_of_mem _ ho))

end Sge.Core

namespace Sge.Core
open Sge Sge.Genesis

theorem addParticipation_uid (b : Book) (addr : Nat) (liq fee : Int) : (b.addParticipation addr liq fee).1.uid = b.uid := by
  unfold Book.addParticipation
  simp only
  exact (initExposuresFold_parts (b.partCount + 1) _ _).2

theorem requeue_uid (f : FInfo) (p : Part) (e : PExp) (o : Nat) : (requeue f p e o).book.uid = f.book.uid := by
  unfold requeue
  simp only
  have hr := rollFold_frame (decide ((0 : Int) < p.crl - maxI 0 p.crMaxLoss)) o p.idx (f.book.expsOfIdx p.idx) (f.book, e, f.fmap)
  split
  · show (List.foldl _ _ _ : Book).uid = _
    rw [(requeueOddsFold_parts _ _ _).2]
    exact hr.2.1
  · exact hr.2.1

theorem visit_uid (o : Nat) (ov mult : Dec) (mo : List Nat) (ms : List (Nat × Dec)) (thr : Int) (f : FInfo) (i : Nat) :
    (visit o ov mult mo ms thr f i).book.uid = f.book.uid := by
  unfold visit
  split
  · rfl
  · rename_i pe _
    have s1 := stage1_frame o ov mult thr f pe
    have s2 := stage2_frame o mo ms thr (stage1 o ov mult thr f pe)
    unfold stage3
    simp only
    split
    · rw [requeue_uid]
      show (stage2 o mo ms thr (stage1 o ov mult thr f pe)).2.2.book.uid = _
      rw [s2.2.2.2, s1.2.2.2]
    · show (stage2 o mo ms thr (stage1 o ov mult thr f pe)).2.2.book.uid = _
      rw [s2.2.2.2, s1.2.2.2]

theorem loop_uid (o : Nat) (ov mult : Dec) (mo : List Nat) (ms : List (Nat × Dec)) (thr : Int) :
    ∀ (q : List Nat) (f : FInfo), (loop o ov mult mo ms thr q f).book.uid = f.book.uid := by
  intro q
  induction q with
  | nil => intro f; rfl
  | cons i rest ih =>
    intro f
    unfold loop
    simp only
    split
    · exact visit_uid ..
    · split
      · exact visit_uid ..
      · rw [ih]; exact visit_uid ..

/-- the book returned by ProcessWager is the book of the same market (no sortedness needed) -/
theorem processWager_uid (b b' : Book) (o betId : Nat) (ov mult : Dec) (mo : List Nat) (ms : List (Nat × Dec))
    (thr A : Int) (P : Dec) (fulfs : List Fulf) (taken : Int)
    (h : processWager b o betId ov mult mo ms thr A P = some (b', fulfs, taken)) : b'.uid = b.uid := by
  unfold processWager at h
  simp only [bind, Option.bind_eq_some_iff] at h
  obtain ⟨q, _, f0, hf0, h⟩ := h
  have h0 : f0.book = b := by
    unfold initFInfo at hf0
    simp only [bind, Option.bind_eq_some_iff, pure, Option.some.injEq] at hf0
    obtain ⟨_, _, _, _, _, _, _, _, rfl⟩ := hf0
    rfl
  unfold finishWager at h
  split at h
  · cases h
  · split at h
    · cases h
    · simp only [Option.some.injEq, Prod.mk.injEq] at h
      obtain ⟨h1, _, _⟩ := h
      rw [← h1]
      show (loop o ov mult mo ms thr q f0).book.uid = _
      rw [loop_uid, h0]

end Sge.Core
