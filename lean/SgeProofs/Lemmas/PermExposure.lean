/-
  C15 (b): the wager reads the exposure records of the book three times
    * `GetExposureByOrderBookAndOdds`  → slice `pes`, used for its length and copied by participation index into
      the `fulfillmentMap` (a Go map keyed by participation index),
    * `GetExposureByOrderBook`         → `peMap : map[uint64]map[string]*ParticipationExposure`, used for its length
      (number of distinct participation indices), for membership of every participation index, and afterwards
      (`allExposures`) only looked up by (outcome, participation index),
  and never ranges over either map. The model keeps all three reads as the list `b.pexps`; `initFInfoFrom` /
  `processWagerFrom` make the list that is read a parameter (`rfl`-equal to the model at `b.pexps`), so that
  order-independence can be stated.
-/
import SgeProofs.Lemmas.PermList
namespace Sge.Core
open Sge

/-- `initFInfo` reading the exposure records from `exps` instead of `b.pexps` -/
def initFInfoFrom (exps : List PExp) (b : Book) (oddsCur betId : Nat) (betAmount : Int) (payoutProfit : Dec) (q : List Nat) : Option FInfo := do
  let pes := exps.filter (fun e => e.odds == oddsCur)
  let idxs := (exps.map (·.idx)).eraseDups
  chk (b.parts.length == b.partCount)
  chk (pes.length == b.partCount)
  chk (idxs.length == b.partCount)
  chk (b.parts.all (fun p => idxs.contains p.idx))
  pure { book := b, betId := betId, betAmount := betAmount, payoutProfit := payoutProfit, uq := q,
         fmap := b.parts.map fun p => (p.idx, p, (pes.find? (fun e => e.idx == p.idx)).getD default),
         allExp := exps }

theorem initFInfo_eq_from (b : Book) (oddsCur betId : Nat) (betAmount : Int) (payoutProfit : Dec) (q : List Nat) :
    initFInfo b oddsCur betId betAmount payoutProfit q = initFInfoFrom b.pexps b oddsCur betId betAmount payoutProfit q := rfl

/-- `processWager` reading the exposure records from `exps` -/
def processWagerFrom (exps : List PExp) (b : Book) (oddsCur betId : Nat) (oddsVal mult : Dec) (marketOdds : List Nat)
    (mults : List (Nat × Dec)) (thr : Int) (betAmount : Int) (payoutProfit : Dec) : Option (Book × List Fulf × Int) := do
  let q ← b.getQueue oddsCur
  let f0 ← initFInfoFrom exps b oddsCur betId betAmount payoutProfit q
  finishWager oddsCur (loop oddsCur oddsVal mult marketOdds mults thr q f0)

theorem processWager_eq_from (b : Book) (oddsCur betId : Nat) (oddsVal mult : Dec) (marketOdds : List Nat)
    (mults : List (Nat × Dec)) (thr : Int) (betAmount : Int) (payoutProfit : Dec) :
    processWager b oddsCur betId oddsVal mult marketOdds mults thr betAmount payoutProfit =
      processWagerFrom b.pexps b oddsCur betId oddsVal mult marketOdds mults thr betAmount payoutProfit := rfl

/-- two snapshots answer every (outcome, participation) look-up alike -/
def SameLookup (l₁ l₂ : List PExp) : Prop :=
  ∀ o i, l₁.find? (fun x => x.odds == o && x.idx == i) = l₂.find? (fun x => x.odds == o && x.idx == i)

/-- replace the snapshot of a fulfilment info -/
def FInfo.withAll (f : FInfo) (l : List PExp) : FInfo := { f with allExp := l }

theorem secondaryOne_sameLookup {l₁ l₂ : List PExp} (h : SameLookup l₁ l₂) (oc : Nat) (thr : Int) (ms : List (Nat × Dec)) :
    secondaryOne oc thr l₁ ms = secondaryOne oc thr l₂ ms := by
  funext acc o
  unfold secondaryOne
  rw [h o acc.1.idx]

theorem stage1_withAll (oc : Nat) (ov m : Dec) (thr : Int) (f : FInfo) (l : List PExp) (pe : Part × PExp) :
    stage1 oc ov m thr (f.withAll l) pe =
      ((stage1 oc ov m thr f pe).1, (stage1 oc ov m thr f pe).2.1, (stage1 oc ov m thr f pe).2.2.1,
        (stage1 oc ov m thr f pe).2.2.2.withAll l) := by
  unfold stage1 FInfo.withAll
  simp only
  split <;> rfl

theorem item_withAll (f : FInfo) (l : List PExp) (i : Nat) : (f.withAll l).item i = f.item i := rfl

theorem stage2_withAll {l : List PExp} (oc : Nat) (mo : List Nat) (ms : List (Nat × Dec)) (thr : Int)
    (p : Part) (e : PExp) (c : Bool) (f : FInfo) (h : SameLookup f.allExp l) :
    stage2 oc mo ms thr (p, e, c, f.withAll l) =
      ((stage2 oc mo ms thr (p, e, c, f)).1, (stage2 oc mo ms thr (p, e, c, f)).2.1,
        (stage2 oc mo ms thr (p, e, c, f)).2.2.withAll l) := by
  unfold stage2 FInfo.withAll
  simp only [secondaryOne_sameLookup h]
  split
  · split <;> rfl
  · rfl

theorem requeue_withAll (f : FInfo) (l : List PExp) (p : Part) (e : PExp) (oc : Nat) :
    requeue (f.withAll l) p e oc = (requeue f p e oc).withAll l := by
  unfold requeue FInfo.withAll
  simp only
  split <;> rfl

theorem stage3_withAll (oc : Nat) (p : Part) (e : PExp) (f : FInfo) (l : List PExp) :
    stage3 oc (p, e, f.withAll l) = (stage3 oc (p, e, f)).withAll l := by
  unfold stage3
  simp only
  split
  · exact requeue_withAll { f with book := (f.book.setExp e).setPart p } l p e oc
  · rfl

theorem stage1_allExp (oc : Nat) (ov m : Dec) (thr : Int) (f : FInfo) (pe : Part × PExp) :
    (stage1 oc ov m thr f pe).2.2.2.allExp = f.allExp := by
  unfold stage1
  simp only
  split <;> rfl

theorem stage2_allExp (oc : Nat) (mo : List Nat) (ms : List (Nat × Dec)) (thr : Int) (x : Part × PExp × Bool × FInfo) :
    (stage2 oc mo ms thr x).2.2.allExp = x.2.2.2.allExp := by
  unfold stage2
  split
  · simp only
    split <;> rfl
  · rfl

theorem requeue_allExp (f : FInfo) (p : Part) (e : PExp) (oc : Nat) : (requeue f p e oc).allExp = f.allExp := by
  unfold requeue
  simp only
  split <;> rfl

theorem stage3_allExp (oc : Nat) (x : Part × PExp × FInfo) : (stage3 oc x).allExp = x.2.2.allExp := by
  unfold stage3
  simp only
  split
  · exact requeue_allExp _ _ _ _
  · rfl

theorem visit_allExp (oc : Nat) (ov m : Dec) (mo : List Nat) (ms : List (Nat × Dec)) (thr : Int) (f : FInfo) (i : Nat) :
    (visit oc ov m mo ms thr f i).allExp = f.allExp := by
  unfold visit
  cases f.item i with
  | none => rfl
  | some pe =>
    simp only
    rw [stage3_allExp, stage2_allExp, stage1_allExp]

/-- one queue visit commutes with replacing the snapshot by one that answers the look-ups alike -/
theorem visit_withAll {l : List PExp} (oc : Nat) (ov m : Dec) (mo : List Nat) (ms : List (Nat × Dec)) (thr : Int)
    (f : FInfo) (i : Nat) (h : SameLookup f.allExp l) :
    visit oc ov m mo ms thr (f.withAll l) i = (visit oc ov m mo ms thr f i).withAll l := by
  unfold visit
  rw [item_withAll]
  cases f.item i with
  | none => rfl
  | some pe =>
    simp only
    rw [stage1_withAll]
    have h1 : SameLookup (stage1 oc ov m thr f pe).2.2.2.allExp l := by rw [stage1_allExp]; exact h
    rw [stage2_withAll oc mo ms thr _ _ _ _ h1]
    exact stage3_withAll oc _ _ _ l

theorem loop_withAll {l : List PExp} (oc : Nat) (ov m : Dec) (mo : List Nat) (ms : List (Nat × Dec)) (thr : Int) :
    ∀ (q : List Nat) (f : FInfo), SameLookup f.allExp l →
      loop oc ov m mo ms thr q (f.withAll l) = (loop oc ov m mo ms thr q f).withAll l
  | [], _, _ => rfl
  | i :: rest, f, h => by
    unfold loop
    simp only [visit_withAll oc ov m mo ms thr f i h]
    have hv : SameLookup (visit oc ov m mo ms thr f i).allExp l := by rw [visit_allExp]; exact h
    by_cases he : (visit oc ov m mo ms thr f i).err = true
    · have : ((visit oc ov m mo ms thr f i).withAll l).err = true := he
      simp only [this, he, if_true]
    · have he' : ((visit oc ov m mo ms thr f i).withAll l).err = (visit oc ov m mo ms thr f i).err := rfl
      have hp : ((visit oc ov m mo ms thr f i).withAll l).payoutProfit = (visit oc ov m mo ms thr f i).payoutProfit := rfl
      simp only [he', hp, he]
      by_cases hc : (decide ((visit oc ov m mo ms thr f i).payoutProfit.raw < PREC) || rest.isEmpty) = true
      · rw [if_pos hc, if_pos hc]
        simp
      · rw [if_neg hc, if_neg hc]
        simp only [Bool.false_eq_true, if_false]
        exact loop_withAll oc ov m mo ms thr rest _ hv

theorem finishWager_withAll (oc : Nat) (f : FInfo) (l : List PExp) : finishWager oc (f.withAll l) = finishWager oc f := rfl

-- ---------------------------------------------------------------------------------------------
-- permutations of a snapshot with pairwise different (outcome, participation) keys

theorem sameLookup_of_perm {l₁ l₂ : List PExp} (hp : l₁.Perm l₂) (hn : (l₁.map PExp.key).Nodup) : SameLookup l₁ l₂ := by
  intro o i
  apply find?_congr_of_unique _ (fun x => hp.mem_iff)
  intro x hx y hy hpx hpy
  apply eq_of_key_eq_of_nodup PExp.key l₁ hn x hx y hy
  simp only [Bool.and_eq_true, beq_iff_eq] at hpx hpy
  simp only [PExp.key, hpx.1, hpx.2, hpy.1, hpy.2]

theorem initFInfoFrom_allExp {exps : List PExp} {b : Book} {oc betId : Nat} {amt : Int} {pp : Dec} {q : List Nat} {f : FInfo}
    (h : initFInfoFrom exps b oc betId amt pp q = some f) : f.allExp = exps := by
  unfold initFInfoFrom at h
  simp only [bind, Option.bind_eq_some_iff, pure, Option.some.injEq] at h
  obtain ⟨_, _, _, _, _, _, _, _, rfl⟩ := h
  rfl

theorem initFInfoFrom_perm {l₁ l₂ : List PExp} (hp : l₁.Perm l₂) (hn : (l₁.map PExp.key).Nodup)
    (b : Book) (oc betId : Nat) (amt : Int) (pp : Dec) (q : List Nat) :
    initFInfoFrom l₂ b oc betId amt pp q = (initFInfoFrom l₁ b oc betId amt pp q).map (·.withAll l₂) := by
  have hf := hp.filter (fun e => e.odds == oc)
  have hlen : (l₂.filter (fun e => e.odds == oc)).length = (l₁.filter (fun e => e.odds == oc)).length := hf.length_eq.symm
  have hmem : ∀ k, k ∈ l₂.map (·.idx) ↔ k ∈ l₁.map (·.idx) := fun k => (hp.map (·.idx)).mem_iff.symm
  have hcard : (l₂.map (·.idx)).eraseDups.length = (l₁.map (·.idx)).eraseDups.length := eraseDups_length_congr hmem
  have hcont : (fun p : Part => (l₂.map (·.idx)).eraseDups.contains p.idx) =
      (fun p : Part => (l₁.map (·.idx)).eraseDups.contains p.idx) := by
    funext p
    rw [Bool.eq_iff_iff]
    simp only [List.contains_iff_mem, List.mem_eraseDups]
    exact hmem p.idx
  have hfind : (fun p : Part => (p.idx, p, ((l₂.filter (fun e => e.odds == oc)).find? (fun e => e.idx == p.idx)).getD default)) =
      (fun p : Part => (p.idx, p, ((l₁.filter (fun e => e.odds == oc)).find? (fun e => e.idx == p.idx)).getD default)) := by
    funext p
    have : (l₂.filter (fun e => e.odds == oc)).find? (fun e => e.idx == p.idx) =
        (l₁.filter (fun e => e.odds == oc)).find? (fun e => e.idx == p.idx) := by
      symm
      apply find?_congr_of_unique _ (fun x => hf.mem_iff)
      intro x hx y hy hpx hpy
      have hx' := List.mem_filter.1 hx
      have hy' := List.mem_filter.1 hy
      apply eq_of_key_eq_of_nodup PExp.key l₁ hn x hx'.1 y hy'.1
      simp only [beq_iff_eq] at hpx hpy
      have hxo := hx'.2; have hyo := hy'.2
      simp only [beq_iff_eq] at hxo hyo
      simp only [PExp.key, hpx, hpy, hxo, hyo]
    rw [this]
  unfold initFInfoFrom
  simp only [hlen, hcard, hcont, hfind]
  generalize (b.parts.length == b.partCount) = c1
  generalize ((l₁.filter (fun e => e.odds == oc)).length == b.partCount) = c2
  generalize ((l₁.map (·.idx)).eraseDups.length == b.partCount) = c3
  generalize (b.parts.all fun p => (l₁.map (·.idx)).eraseDups.contains p.idx) = c4
  cases c1 <;> cases c2 <;> cases c3 <;> cases c4 <;> rfl

/-- (b) the wager is a function of the exposure records as a keyed collection -/
theorem processWagerFrom_perm {l₁ l₂ : List PExp} (hp : l₁.Perm l₂) (hn : (l₁.map PExp.key).Nodup)
    (b : Book) (oc betId : Nat) (ov m : Dec) (mo : List Nat) (ms : List (Nat × Dec)) (thr : Int) (amt : Int) (pp : Dec) :
    processWagerFrom l₁ b oc betId ov m mo ms thr amt pp = processWagerFrom l₂ b oc betId ov m mo ms thr amt pp := by
  unfold processWagerFrom
  cases hq : b.getQueue oc with
  | none => rfl
  | some q =>
    simp only [bind, Option.bind]
    rw [initFInfoFrom_perm hp hn]
    cases h0 : initFInfoFrom l₁ b oc betId amt pp q with
    | none => rfl
    | some f0 =>
      simp only [Option.map]
      have hs : SameLookup f0.allExp l₂ := by
        rw [initFInfoFrom_allExp h0]; exact sameLookup_of_perm hp hn
      rw [loop_withAll oc ov m mo ms thr q f0 hs, finishWager_withAll]

end Sge.Core
