/-
  C11 ledger on the combined slice, part 2: the invariant `LInv` (maps mutually inverse, summaries non-negative,
  every address of the subaccount range holds at least its ledger's `Available()`, plus the C01 invariant of the core
  projection) is kept by every combined operation, the settling end-block with its hooks included.
-/
import SgeProofs.Lemmas.CombinedLedger
namespace Sge.Combined
open Sge Sge.Core Sge.Genesis
open Sge.Subaccount (Summary SumNonneg spend_some unspend_some addLoss_some withdraw_some)

/-- signers, creators and owners are key-holding accounts (below the subaccount address range, not custody accounts) -/
def Op.wfU : Op → Prop
  | .core (.marketAdd c _ _ _ _ _ _) => isModuleAcc c = false
  | .core (.deposit c _ _ _ pd) => isUser (depositFor c pd)
  | .core (.withdraw c _ _ _ _ _ pd) => isModuleAcc (if pd != 0 then pd else c) = false
  | .core (.wager c _ _ _ _) => isUser c
  | .core (.send a _ _) => a < SUB_BASE
  | .core _ => True
  | .create c o _ => isUser c ∧ isUser o
  | .topUp c _ _ => isUser c
  | _ => True

theorem Op.wfU_wf {op : Op} (h : op.wfU) : op.wf := by
  cases op with
  | core cop =>
    cases cop <;> first | exact h | exact h.2 | trivial
  | create c o ls => exact ⟨h.1.2, h.2.2⟩
  | topUp c o ls => exact h.2
  | subParams _ _ => trivial
  | withdrawUnlocked _ => trivial
  | subWager _ _ _ _ _ _ _ _ _ => trivial
  | subDeposit _ _ _ _ _ => trivial
  | subWithdraw _ _ _ _ _ _ _ => trivial

structure LInv (s : State) : Prop where
  sett : SettleInv s.core
  users : ∀ o a, aget s.owners o = some a → isUser o
  mapsInv : ∀ o a, aget s.owners o = some a ↔ aget s.subOwner a = some o
  dom : ∀ a, (aget s.subs a).isSome ↔ (aget s.subOwner a).isSome
  range : ∀ a, (aget s.subs a).isSome → ∃ k, a = subAddr k ∧ k < s.nextId
  nn : ∀ a r, aget s.subs a = some r → SumNonneg r.sum
  sur : ∀ x, SUB_BASE ≤ x → 0 ≤ surplus s x

theorem LInv.inRange {s : State} (h : LInv s) : InRange s := by
  intro a ha
  obtain ⟨k, rfl, _⟩ := h.range a ha
  exact cmb_subAddr_range k

theorem LInv.ownInv {s : State} (h : LInv s) : OwnInv s := by
  have hsub : ∀ o a, aget s.owners o = some a → isModuleAcc a = false := by
    intro o a hoa
    have h1 := (h.mapsInv o a).mp hoa
    have h2 : (aget s.subs a).isSome := (h.dom a).mpr (by rw [h1]; rfl)
    exact cmb_range_notModule (h.inRange a h2)
  refine ⟨fun o a hoa => ⟨(h.users o a hoa).2, hsub o a hoa⟩, fun a o hao => ?_⟩
  have := (h.mapsInv o a).mpr hao
  exact ⟨hsub o a this, (h.users o a this).2⟩

theorem LInv.ofKeeps {s s' : State} (h : LInv s) (k : Keeps s s') (hS : SettleInv s'.core) : LInv s' := by
  refine ⟨hS, ?_, ?_, ?_, ?_, k.nn h.nn, ?_⟩
  · intro o a; rw [k.maps.1]; exact h.users o a
  · intro o a; rw [k.maps.1, k.maps.2]; exact h.mapsInv o a
  · intro a; rw [k.dom a, k.maps.2]; exact h.dom a
  · intro a ha; rw [k.dom a] at ha; rw [k.nid]; exact h.range a ha
  · intro x hx
    have := h.sur x hx
    have := k.sur x hx
    omega

-- ---------------------------------------------------------------------------------------------
-- core operations other than the end-block never lower a balance of the subaccount range

theorem cmb_coreStep_mono (c : Core.State) (op : Core.Op) (hne : op ≠ .endBlock) (hwf : (Op.core op).wfU) :
    ∀ x, SUB_BASE ≤ x → getBal c.bal x ≤ getBal (Core.step c op).1.bal x := by
  intro x hx
  have hxm := cmb_range_notModule hx
  cases op with
  | marketAdd cr tk u st en o stt =>
    simp only [Core.step, Core.marketAdd, Core.commit]
    cases h : marketAddO c cr tk u st en o stt with
    | none => exact Int.le_refl _
    | some c' =>
      unfold marketAddO at h
      simp only [bind, Option.bind_eq_some_iff, pure, Option.some.injEq] at h
      obtain ⟨_, _, _, _, _, _, _, _, _, _, _, _, _, _, rfl⟩ := h
      exact Int.le_refl _
  | marketUpdate tk u st en stt =>
    simp only [Core.step, Core.marketUpdate, Core.commit]
    cases h : marketUpdateO c tk u st en stt with
    | none => exact Int.le_refl _
    | some c' =>
      unfold marketUpdateO at h
      simp only [bind, Option.bind_eq_some_iff, pure, Option.some.injEq] at h
      obtain ⟨_, _, _, _, _, _, _, _, _, _, rfl⟩ := h
      exact Int.le_refl _
  | marketResolve tk u ts stt w =>
    simp only [Core.step, Core.marketResolve, Core.commit]
    cases h : marketResolveO c tk u ts stt w with
    | none => exact Int.le_refl _
    | some c' =>
      unfold marketResolveO at h
      simp only [bind, Option.bind_eq_some_iff, pure, Option.some.injEq] at h
      obtain ⟨_, _, _, _, _, _, _, _, _, _, rfl⟩ := h
      exact Int.le_refl _
  | deposit cr tk m a pd =>
    simp only [Core.step, Core.houseDeposit]
    cases h : houseDepositO c cr tk m a pd with
    | none => exact Int.le_refl _
    | some r =>
      have hu : isUser (depositFor cr pd) := hwf
      obtain ⟨_, hoth⟩ := cmb_houseDepositO_bal h hu.2
      show _ ≤ getBal r.1.bal x
      rw [hoth x (by have := hu.1; omega) hxm]
      exact Int.le_refl _
  | withdraw cr tk m i md a pd =>
    simp only [Core.step, Core.houseWithdraw, Core.commit]
    cases h : houseWithdrawO c cr tk m i md a pd with
    | none => exact Int.le_refl _
    | some c' =>
      obtain ⟨_, _, w, _, _, _, w0, hself, hoth⟩ := cmb_houseWithdrawO_bal h hwf
      show _ ≤ getBal c'.bal x
      by_cases e : x = (if pd != 0 then pd else cr)
      · rw [e, hself]; omega
      · rw [hoth x e hxm]; exact Int.le_refl _
  | wager cr tk u a pl =>
    simp only [Core.step, Core.wager, Core.commit]
    cases h : wagerO c cr tk u a pl with
    | none => exact Int.le_refl _
    | some c' =>
      have hu : isUser cr := hwf
      obtain ⟨_, _, _, hoth⟩ := cmb_wagerO_bal h hu.2
      show _ ≤ getBal c'.bal x
      rw [hoth x (by have := hu.1; omega) hxm]
      exact Int.le_refl _
  | grant g e k l ex => exact Int.le_refl _
  | revoke g e k => exact Int.le_refl _
  | send a b v =>
    simp only [Core.step]
    split
    · exact Int.le_refl _
    · simp only [Core.commit]
      cases h : bankSend c a b v with
      | none => exact Int.le_refl _
      | some c' =>
        have ha : a < SUB_BASE := hwf
        obtain ⟨v0, e, _⟩ := cmb_bankSend_recv h x (by omega)
        show _ ≤ getBal c'.bal x
        rw [e]
        split <;> omega
  | setParams p =>
    simp only [Core.step]
    split <;> exact Int.le_refl _
  | endBlock => exact absurd rfl hne
  | newBlock h t => exact Int.le_refl _

-- ---------------------------------------------------------------------------------------------
-- the hook calls

/-- the facts about owners and addresses that the hook accounting needs; kept by the hooks -/
structure HookCtx (s : State) : Prop where
  inRange : InRange s
  ownersUser : ∀ a o, aget s.subOwner a = some o → o < SUB_BASE

/-- what a hook call (or a list of them, worth `v x` for the address `x`) does -/
structure HookStep (s s' : State) (v : Nat → Int) : Prop where
  maps : Maps s s'
  nid : s'.nextId = s.nextId
  dom : ∀ a, (aget s'.subs a).isSome = (aget s.subs a).isSome
  nn : (∀ a r, aget s.subs a = some r → SumNonneg r.sum) → ∀ a r, aget s'.subs a = some r → SumNonneg r.sum
  sur : ∀ x, SUB_BASE ≤ x → surplus s' x = surplus s x - (if (aget s.subs x).isSome = true then v x else 0)

theorem HookStep.refl (s : State) : HookStep s s (fun _ => 0) :=
  ⟨Maps.refl _, rfl, fun _ => rfl, fun h => h, fun x _ => by split <;> omega⟩

theorem HookCtx.step {s s' : State} {v : Nat → Int} (hC : HookCtx s) (k : HookStep s s' v) : HookCtx s' :=
  ⟨fun a ha => hC.inRange a (by rw [← k.dom a]; exact ha), fun a o h => hC.ownersUser a o (by rw [← k.maps.2]; exact h)⟩

/-- a hook that rewrites the record at `hs` (which exists) after a change of balances that touches no other address of
    the subaccount range -/
theorem cmb_hookStep_update {s s1 : State} {hs : Nat} {r : SubRec} {sum' : Summary} {val : Int}
    (hr : aget s.subs hs = some r) (hsubs : s1.subs = s.subs) (hmaps : Maps s s1) (hnid : s1.nextId = s.nextId)
    (hother : ∀ x, SUB_BASE ≤ x → x ≠ hs → s1.bal x = s.bal x)
    (hself : s1.bal hs - sum'.available = s.bal hs - r.sum.available - val)
    (hnn : SumNonneg r.sum → SumNonneg sum') :
    HookStep s (s1.setSub hs { r with sum := sum' }) (fun x => if hs = x then val else 0) := by
  refine ⟨hmaps, hnid, ?_, ?_, ?_⟩
  · intro b
    unfold State.setSub
    simp only [cmb_aget_aset]
    split
    · rename_i e; subst e; simp [hr]
    · rw [hsubs]
  · intro h0 b rb hb
    unfold State.setSub at hb
    simp only [cmb_aget_aset] at hb
    split at hb
    · cases hb; exact hnn (h0 hs r hr)
    · rw [hsubs] at hb; exact h0 b rb hb
  · intro x hx
    unfold surplus
    rw [cmb_led_setSub, cmb_bal_setSub]
    by_cases e : hs = x
    · subst e
      simp only [if_true, led, hr, Option.isSome_some]
      omega
    · simp only [if_neg e]
      have hl : led s1 x = led s x := by unfold led; rw [hsubs]
      rw [hl, hother x hx (fun h => e h.symm)]
      split <;> omega

theorem cmb_applyHook_step {s s' : State} {hc : HookCall} (hC : HookCtx s) (h : applyHook s hc = some s') :
    HookStep s s' (fun x => if hc.house = x then hookBooks hc else 0) := by
  have none_case : ∀ hs, aget s.subs hs = none → ∀ val : Int, HookStep s s (fun x => if hs = x then val else 0) := by
    intro hs hn val
    refine ⟨Maps.refl _, rfl, fun _ => rfl, fun h => h, ?_⟩
    intro x _
    by_cases e : hs = x
    · subst e; simp [hn]
    · simp [e]
  cases hc with
  | win hs orig profit =>
    simp only [applyHook] at h
    split at h
    · rename_i hn
      cases h
      exact none_case hs hn _
    · rename_i r hr
      simp only [bind, Option.bind_eq_some_iff, pure, Option.some.injEq] at h
      obtain ⟨sum', hu, owner, ho, s1, hs1, rfl⟩ := h
      obtain ⟨u0, u1, rfl⟩ := unspend_some hu
      obtain ⟨v0, hrecv, hsubs, hmaps, hnid, hsrc⟩ := cmb_send_recv hs1
      have hra := hC.inRange.of hr
      have hou := hC.ownersUser hs owner ho
      apply cmb_hookStep_update hr hsubs hmaps hnid
      · intro x hx hne
        rw [hrecv x hne]
        have : ¬ x = owner := by omega
        simp [this]
      · rw [hsrc (by omega)]
        simp only [Summary.available, hookBooks]
        omega
      · intro h0
        exact ⟨h0.dep, by show 0 ≤ r.sum.spent - orig; omega, h0.wd, h0.lost⟩
  | loss hs orig lost =>
    simp only [applyHook] at h
    split at h
    · rename_i hn
      cases h
      exact none_case hs hn _
    · rename_i r hr
      simp only [bind, Option.bind_eq_some_iff, pure, Option.some.injEq] at h
      obtain ⟨sum1, hu, sum', hl, rfl⟩ := h
      obtain ⟨u0, u1, rfl⟩ := unspend_some hu
      obtain ⟨l0, rfl⟩ := addLoss_some hl
      apply cmb_hookStep_update (s1 := s) hr rfl (Maps.refl _) rfl
      · intro x _ _; rfl
      · simp only [Summary.available, hookBooks]
        omega
      · intro h0
        exact ⟨h0.dep, by show 0 ≤ r.sum.spent - orig; omega, h0.wd, by have := h0.lost; show 0 ≤ r.sum.lost + lost; omega⟩
  | refund hs orig =>
    simp only [applyHook] at h
    split at h
    · rename_i hn
      cases h
      exact none_case hs hn _
    · rename_i r hr
      simp only [bind, Option.bind_eq_some_iff, pure, Option.some.injEq] at h
      obtain ⟨sum', hu, rfl⟩ := h
      obtain ⟨u0, u1, rfl⟩ := unspend_some hu
      apply cmb_hookStep_update (s1 := s) hr rfl (Maps.refl _) rfl
      · intro x _ _; rfl
      · simp only [Summary.available, hookBooks]
        omega
      · intro h0
        exact ⟨h0.dep, by show 0 ≤ r.sum.spent - orig; omega, h0.wd, h0.lost⟩

theorem cmb_applyHooks_step : ∀ (l : List HookCall) {s s' : State}, HookCtx s → applyHooks s l = some s' →
    HookStep s s' (fun x => hooksFor x l) := by
  intro l
  induction l with
  | nil =>
    intro s s' _ h
    simp only [applyHooks, Option.some.injEq] at h
    subst h
    exact HookStep.refl s
  | cons hc rest ih =>
    intro s s' hC h
    simp only [applyHooks, bind, Option.bind_eq_some_iff] at h
    obtain ⟨s1, h1, h2⟩ := h
    have k1 := cmb_applyHook_step hC h1
    have k2 := ih (hC.step k1) h2
    refine ⟨k1.maps.trans k2.maps, k2.nid.trans k1.nid, fun a => (k2.dom a).trans (k1.dom a), fun h0 => k2.nn (k1.nn h0), ?_⟩
    intro x hx
    rw [k2.sur x hx, k1.sur x hx, k1.dom x]
    have : hooksFor x (hc :: rest) = (if hc.house = x then hookBooks hc else 0) + hooksFor x rest := sumBy_cons _ _ _
    rw [this]
    split <;> omega

-- ---------------------------------------------------------------------------------------------
-- the end-block

theorem cmb_obRef_sorted {c : Core.State} (hS : SettleInv c) : PartsSorted (obRef c) := by
  unfold obRef
  cases h : betEndBlock (c.mqueue.length + 1) c c.params.betBatch with
  | none => exact hS.sortedParts
  | some c1 => exact (betEndBlock_inv _ _ _ _ hS h).sortedParts

theorem cmb_endBlockO_mono {c c' : Core.State} (h : Core.endBlockO c = some c') (hP : PartsSorted (obRef c))
    (a : Nat) (ha : isModuleAcc a = false) : getBal c.bal a ≤ getBal c'.bal a := by
  unfold Core.endBlockO at h
  simp only [bind, Option.bind_eq_some_iff] at h
  obtain ⟨c1, h1, h2⟩ := h
  have href : obRef c = c1 := by unfold obRef; rw [h1]
  rw [href] at hP
  have m1 := cmb_betEndBlock_mono a ha _ _ _ _ h1
  have m2 := cmb_obEndBlock_bal a ha c1 [] List.nodup_nil _ _ _ _ _ h2 hP
  have z : ∀ c0, walkVal a c1 [] c0 = 0 := fun _ => rfl
  rw [z, z] at m2
  omega

theorem cmb_endBlock_keeps {s s' : State} (hI : LInv s) (h : endBlockO s = some s') : Keeps s s' := by
  unfold endBlockO at h
  simp only [bind, Option.bind_eq_some_iff] at h
  obtain ⟨c, hc, h2⟩ := h
  have hP := cmb_obRef_sorted hI.sett
  have hC : HookCtx { s with core := c } := by
    refine ⟨hI.inRange, ?_⟩
    intro a o hao
    have := (hI.mapsInv o a).mpr hao
    exact (hI.users o a this).1
  have k := cmb_applyHooks_step _ hC h2
  refine ⟨?_, fun h0 => k.nn h0, k.maps, k.dom, k.nid⟩
  intro x hx
  have hxm := cmb_range_notModule hx
  have e1 := cmb_endBlockO_mono hc hP x hxm
  have e2 := cmb_endBlockO_covers hc hP x hxm
  rw [k.sur x hx]
  have hmid : surplus { s with core := c } x = getBal c.bal x - led s x := rfl
  have hs0 : surplus s x = getBal s.core.bal x - led s x := rfl
  rw [hmid, hs0]
  have hsub : aget ({ s with core := c } : State).subs x = aget s.subs x := rfl
  rw [hsub]
  split <;> omega

-- ---------------------------------------------------------------------------------------------
-- create

theorem cmb_subAddr_inj {k1 k2 : Nat} (h : subAddr k1 = subAddr k2) : k1 = k2 := by
  unfold subAddr at h; omega

theorem cmb_create_linv {s s' : State} {creator owner : Nat} {ls : List Sge.Subaccount.Lock} (hI : LInv s)
    (hc : isUser creator) (ho : isUser owner) (hS : SettleInv s'.core) (h : createO s creator owner ls = some s') : LInv s' := by
  unfold createO at h
  simp only [bind, Option.bind_eq_some_iff, pure, Option.some.injEq] at h
  obtain ⟨_, _, total, _, _, hnone, s1, hs1, rfl⟩ := h
  have hnone : aget s.owners owner = none := by
    have := cmb_chk_true hnone
    exact Option.isNone_iff_eq_none.mp this
  obtain ⟨v0, hrecv, hsubs, hmaps, hnid, _⟩ := cmb_send_recv hs1
  -- the new address is fresh
  have hfresh : aget s.subs (subAddr s.nextId) = none := by
    cases hx : aget s.subs (subAddr s.nextId) with
    | none => rfl
    | some r =>
      obtain ⟨k, hk, hlt⟩ := hI.range _ (by rw [hx]; rfl)
      have := cmb_subAddr_inj hk
      omega
  have hfreshO : aget s.subOwner (subAddr s.nextId) = none := by
    cases hx : aget s.subOwner (subAddr s.nextId) with
    | none => rfl
    | some o =>
      have := (hI.dom (subAddr s.nextId)).mpr (by rw [hx]; rfl)
      rw [hfresh] at this
      cases this
  have hra := cmb_subAddr_range s.nextId
  refine ⟨hS, ?_, ?_, ?_, ?_, ?_, ?_⟩
  · intro o a hoa
    simp only [cmb_aget_aset] at hoa
    split at hoa
    · rename_i e; subst e; exact ho
    · exact hI.users o a hoa
  · intro o a
    simp only [cmb_aget_aset]
    constructor
    · intro hoa
      split at hoa
      · rename_i e
        cases hoa
        subst e
        simp
      · rename_i e
        have h1 := (hI.mapsInv o a).mp hoa
        have : ¬ subAddr s.nextId = a := by
          intro e2; rw [← e2, hfreshO] at h1; cases h1
        simp only [this, if_false]
        exact h1
    · intro hao
      split at hao
      · rename_i e
        cases hao
        subst e
        simp
      · rename_i e
        have h1 := (hI.mapsInv o a).mpr hao
        have : ¬ owner = o := by
          intro e2; rw [← e2, hnone] at h1; cases h1
        simp only [this, if_false]
        exact h1
  · intro a
    simp only [cmb_aget_aset]
    by_cases e : subAddr s.nextId = a
    · simp [e]
    · simp only [e, if_false]
      exact hI.dom a
  · intro a ha
    simp only [cmb_aget_aset] at ha
    by_cases e : subAddr s.nextId = a
    · exact ⟨s.nextId, e.symm, by show s.nextId < s.nextId + 1; omega⟩
    · simp only [e, if_false] at ha
      obtain ⟨k, hk, hlt⟩ := hI.range a ha
      exact ⟨k, hk, by show k < s.nextId + 1; omega⟩
  · intro a r har
    simp only [cmb_aget_aset] at har
    split at har
    · cases har
      exact ⟨v0, Int.le_refl _, Int.le_refl _, Int.le_refl _⟩
    · exact hI.nn a r har
  · intro x hx
    have hb : ∀ y, SUB_BASE ≤ y → s1.bal y = s.bal y + (if y = subAddr s.nextId then total else 0) :=
      fun y hy => hrecv y (by have := hc.1; omega)
    unfold surplus led
    show 0 ≤ s1.bal x - _
    simp only [cmb_aget_aset]
    rw [hb x hx]
    by_cases e : subAddr s.nextId = x
    · subst e
      simp only [if_true, Summary.available]
      have := hI.sur _ hra
      unfold surplus led at this
      rw [hfresh] at this
      simp only at this ⊢
      omega
    · have e' : ¬ x = subAddr s.nextId := fun h => e h.symm
      simp only [e, e', if_false]
      have := hI.sur x hx
      unfold surplus led at this
      omega

-- ---------------------------------------------------------------------------------------------
-- every step, every history

theorem cmb_commit_keeps {s : State} {r : Option State} (h : ∀ s', r = some s' → Keeps s s') : Keeps s (commit s r).1 := by
  cases r with
  | none => exact Keeps.refl _
  | some s' => exact h s' rfl

/-- (d) the ledger invariant is kept by every combined operation -/
theorem cmb_step_linv (s : State) (op : Op) (hI : LInv s) (hwf : op.wfU) : LInv (step s op).1 := by
  have hS : SettleInv (step s op).1.core := by
    obtain ⟨cops, hw, e⟩ := (cmb_step_sim s op hI.ownInv (Op.wfU_wf hwf)).1
    rw [e]
    exact run_settleInv _ cops hI.sett hw
  have hR := hI.inRange
  cases op with
  | core cop =>
    by_cases he : cop = .endBlock
    · subst he
      have e : step s (.core .endBlock) = endBlock s := rfl
      rw [e] at hS ⊢
      unfold endBlock at hS ⊢
      cases h : endBlockO s with
      | none => exact hI
      | some s' =>
        rw [h] at hS
        exact hI.ofKeeps (cmb_endBlock_keeps hI h) hS
    · have e : step s (.core cop) = coreStep s cop := by
        cases cop <;> first | rfl | exact absurd rfl he
      rw [e] at hS ⊢
      exact hI.ofKeeps (cmb_keeps_core (cmb_coreStep_mono s.core cop he hwf)) hS
  | subParams w d => exact hI.ofKeeps ⟨fun _ _ => Int.le_refl _, fun h => h, Maps.refl _, fun _ => rfl, rfl⟩ hS
  | create c o ls =>
    show LInv (commit s (createO s c o ls)).1
    have hS' : SettleInv (commit s (createO s c o ls)).1.core := hS
    cases h : createO s c o ls with
    | none => exact hI
    | some s' =>
      rw [h] at hS'
      exact cmb_create_linv hI hwf.1 hwf.2 hS' h
  | topUp c o ls =>
    have hu : isUser c := hwf
    exact hI.ofKeeps (cmb_commit_keeps (fun s' e => cmb_topUp_keeps hR hu.1 e)) hS
  | withdrawUnlocked o =>
    refine hI.ofKeeps (cmb_commit_keeps (fun s' e => ?_)) hS
    have e' := e
    unfold withdrawUnlockedO at e'
    simp only [bind, Option.bind_eq_some_iff] at e'
    obtain ⟨a, ha, _⟩ := e'
    exact cmb_withdrawUnlocked_keeps hR (hI.users o a ha).1 e
  | subWager o ok ic m sb tk u a pl =>
    exact hI.ofKeeps (cmb_commit_keeps (fun s' e => cmb_subWager_keeps hR hI.users e)) hS
  | subDeposit o tk m a pd =>
    exact hI.ofKeeps (cmb_commit_keeps (fun s' e => cmb_subDeposit_keeps hR hI.users e)) hS
  | subWithdraw o tk m i md a pd =>
    exact hI.ofKeeps (cmb_commit_keeps (fun s' e => cmb_subWithdraw_keeps hR e)) hS

theorem cmb_run_linv : ∀ (ops : List Op) (s : State), LInv s → (∀ op ∈ ops, op.wfU) → LInv (run s ops) := by
  intro ops
  induction ops with
  | nil => intro s hI _; exact hI
  | cons op rest ih =>
    intro s hI hwf
    exact ih (step s op).1 (cmb_step_linv s op hI (hwf op (List.mem_cons_self ..))) (fun o ho => hwf o (List.mem_cons_of_mem _ ho))

end Sge.Combined
