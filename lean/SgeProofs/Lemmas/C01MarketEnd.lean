/- C01 per market: the end-block changes the ledgers of no market but the ones in its two settlement queues -/
import SgeProofs.Lemmas.C01MarketFrame
import SgeProofs.Lemmas.BetIndex
namespace Sge.Core
open Sge Sge.Genesis

theorem c1f_same_refl (s : State) (m : Nat) : c1m_Same s s m := ⟨rfl, rfl, rfl⟩

theorem c1f_same_trans {a b c : State} {m : Nat} (h1 : c1m_Same a b m) (h2 : c1m_Same b c m) : c1m_Same a c m :=
  ⟨h2.same.1.trans h1.same.1, h2.same.2.1.trans h1.same.2.1, h2.same.2.2.trans h1.same.2.2⟩

/-- the stores after `Settle`: one stored bet `b0` is overwritten by a copy `b0'` with the same key, uid and market;
    the books are unchanged (refund) or the book of `b0`'s market is overwritten; both queues stay -/
theorem c1f_settleBet_stores {s s' : State} {c u : Nat} (h : settleBet s c u = some s') :
    ∃ (b0 b0' : Bet), b0 ∈ s.bets ∧ b0'.market = b0.market ∧ b0'.uid = b0.uid ∧ Bet.key b0' = Bet.key b0 ∧
      s'.bets = upsert Bet.key b0' s.bets ∧
      (s'.books = s.books ∨ ∃ bk, s'.books = upsert Book.key bk s.books ∧ bk.uid = b0.market) ∧
      s'.mqueue = s.mqueue ∧ s'.obqueue = s.obqueue ∧ ∃ bet0 ∈ s.bets, bet0.uid = u ∧ bet0.id = b0.id := by
  unfold settleBet at h
  simp only [bind, Option.bind_eq_some_iff] at h
  obtain ⟨bet0, hf, bet, hb, _, hst, m, hm, h⟩ := h
  have hin : bet ∈ s.bets := (lookup_mem hb).1
  have hk : bet.creator = c ∧ bet.id = bet0.id := by
    have := (lookup_mem hb).2
    simpa [Bet.key] using this
  have h0 : ∃ bet0 ∈ s.bets, bet0.uid = u ∧ bet0.id = bet.id :=
    ⟨bet0, List.mem_of_find?_eq_some hf, by simpa using List.find?_some hf, hk.2.symm⟩
  split at h
  · unfold settleRefund at h
    simp only [bind, Option.bind_eq_some_iff, pure, Option.some.injEq] at h
    obtain ⟨s1, h1, s2, h2, rfl⟩ := h
    obtain ⟨_, _, rfl⟩ := bankSend_shape h1
    obtain ⟨_, _, rfl⟩ := bankSend_shape h2
    exact ⟨bet, { ({ bet with status := BS_SETTLED, result := BR_REFUNDED } : Bet) with settleHeight := s.height },
      hin, rfl, rfl, rfl, rfl, Or.inl rfl, rfl, rfl, h0⟩
  · simp only [Option.bind_eq_some_iff] at h
    obtain ⟨_, _, h⟩ := h
    unfold settleDeclared at h
    simp only [bind, Option.bind_eq_some_iff, pure, Option.some.injEq] at h
    obtain ⟨bk, hbk, r, hr, s2, h2, rfl⟩ := h
    obtain ⟨_, _, rfl⟩ := bankSend_shape h2
    have hu : r.2.uid = bet.market := (settleOutcome_ext hr).uid.trans (getBook_mem hbk).2
    generalize (if m.winners.contains bet.odds then BR_WON else BR_LOST) = res
    exact ⟨bet, { ({ bet with status := BS_SETTLED, result := res } : Bet) with settleHeight := s.height },
      hin, rfl, rfl, rfl, rfl, Or.inr ⟨r.2, rfl, hu⟩, rfl, rfl, h0⟩

/-- `Settle` of a bet on another market keeps the ledgers of `m` -/
theorem c1f_settleBet_frame {s s' : State} {c u m : Nat} (hI : BetIdx s) (hsB : Sorted Book.key s.books)
    (hu : ∀ b ∈ s.bets, b.uid = u → b.market ≠ m) (h : settleBet s c u = some s') :
    c1m_Same s s' m ∧ Sorted Book.key s'.books ∧ s'.mqueue = s.mqueue ∧ s'.obqueue = s.obqueue ∧
      ∀ u', (∀ b ∈ s.bets, b.uid = u' → b.market ≠ m) → ∀ b ∈ s'.bets, b.uid = u' → b.market ≠ m := by
  obtain ⟨b0, b0', hb0, em, eu, ek, hbets, hbooks, hq, hoq, bet0, hbet0, hu0, hid⟩ := c1f_settleBet_stores h
  rw [hI.idInj bet0 hbet0 b0 hb0 hid] at hu0
  have hne : b0.market ≠ m := hu b0 hb0 hu0
  refine ⟨?_, ?_, hq, hoq, ?_⟩
  · refine c1m_Same.of_writes hsB hI.sBets ?_ (Or.inr ⟨b0', hbets, by rw [em]; exact hne, ?_⟩)
    · rcases hbooks with e | ⟨bk, e, hbk⟩
      · exact Or.inl e
      · exact Or.inr ⟨bk, e, by rw [hbk]; exact hne⟩
    · intro y hy hyk
      rw [sorted_mem_key_inj Bet.key s.bets hI.sBets y b0 hy hb0 (hyk.trans ek)]
      exact hne
  · rcases hbooks with e | ⟨bk, e, _⟩
    · rw [e]; exact hsB
    · rw [e]; exact upsert_sorted Book.key bk s.books hsB
  · intro u' hu' b hb hbu
    rw [hbets] at hb
    rcases (mem_upsert_iff Bet.key b0' b s.bets hI.sBets).mp hb with rfl | ⟨hb, _⟩
    · rw [em]; exact hu' b0 hb0 (eu.symm.trans hbu)
    · exact hu' b hb hbu

theorem c1f_settlePage_frame (m : Nat) : ∀ (page : List (Nat × Nat × Nat × Nat)) (s : State) (r : State × Nat),
    BetIdx s → Sorted Book.key s.books → (∀ pb ∈ page, ∀ b ∈ s.bets, b.uid = pb.2.2.1 → b.market ≠ m) →
    settlePage s page = some r →
    c1m_Same s r.1 m ∧ Sorted Book.key r.1.books ∧ r.1.mqueue = s.mqueue ∧ r.1.obqueue = s.obqueue := by
  intro page
  induction page with
  | nil =>
    intro s r _ hsB _ h
    simp only [settlePage, Option.some.injEq] at h
    rw [← h]; exact ⟨c1f_same_refl s m, hsB, rfl, rfl⟩
  | cons pb rest ih =>
    intro s r hI hsB hpg h
    unfold settlePage at h
    simp only [bind, Option.bind_eq_some_iff, pure, Option.some.injEq] at h
    obtain ⟨s1, h1, r1, hr, rfl⟩ := h
    obtain ⟨f1, f2, f3, f4, f5⟩ := c1f_settleBet_frame hI hsB (hpg pb (List.mem_cons_self ..)) h1
    have g1 := settleBet_good hI h1
    obtain ⟨k1, k2, k3, k4⟩ := ih s1 r1 g1.1 f2
      (fun pb' hpb' => f5 pb'.2.2.1 (hpg pb' (List.mem_cons_of_mem _ hpb'))) hr
    exact ⟨c1f_same_trans f1 k1, k2, k3.trans f3, k4.trans f4⟩

/-- one iteration of BatchMarketSettlements for market `mk ≠ m` keeps the ledgers of `m`; the market queue shrinks
    and the book queue gains at most `mk` -/
theorem c1f_betEndBlockStep_frame {s : State} {mk n m : Nat} {r : State × Nat} (hI : BetIdx s)
    (hsB : Sorted Book.key s.books) (hne : mk ≠ m) (h : betEndBlockStep s mk n = some r) :
    c1m_Same s r.1 m ∧ Sorted Book.key r.1.books ∧ (∀ x ∈ r.1.mqueue, x ∈ s.mqueue) ∧
      (∀ x ∈ r.1.obqueue, x ∈ s.obqueue ∨ x = mk) := by
  unfold betEndBlockStep at h
  simp only [bind, Option.bind_eq_some_iff] at h
  obtain ⟨r0, h0, h⟩ := h
  have hpg : ∀ pb ∈ (s.pending.filter (fun x => x.1 == mk)).take n, ∀ b ∈ s.bets, b.uid = pb.2.2.1 → b.market ≠ m := by
    intro pb hpb b hb hbu
    have hpf := List.mem_of_mem_take hpb
    rw [List.mem_filter] at hpf
    obtain ⟨hpp, hpm⟩ := hpf
    have hpm : pb.1 = mk := by simpa using hpm
    obtain ⟨b', hb', _, e⟩ := hI.ofPend pb hpp
    have e1 : pb.1 = b'.market := by rw [e]
    have e2 : pb.2.2.1 = b'.uid := by rw [e]
    rw [hI.uidInj b hb b' hb' (hbu.trans e2), ← e1, hpm]
    exact hne
  obtain ⟨f1, f2, f3, f4⟩ := c1f_settlePage_frame m _ _ _ hI hsB hpg h0
  split at h
  · simp only [pure, Option.some.injEq] at h
    rw [← h]
    exact ⟨f1, f2, fun x hx => by rw [f3] at hx; exact hx, fun x hx => by rw [f4] at hx; exact Or.inl hx⟩
  · simp only [Option.bind_eq_some_iff, pure, Option.some.injEq] at h
    obtain ⟨q, hq, s2, h2, rfl⟩ := h
    unfold bookResolved at h2
    simp only [bind, Option.bind_eq_some_iff, pure, Option.some.injEq] at h2
    obtain ⟨b, hb, _, _, rfl⟩ := h2
    have hb : getBook r0.1 mk = some b := hb
    have hbu := (getBook_mem hb).2
    have g0 := settlePage_good _ _ _ hI h0
    refine ⟨c1f_same_trans f1 ?_, ?_, ?_, ?_⟩
    · exact c1m_Same.of_writes f2 g0.1.sBets (Or.inr ⟨{ b with status := OB_RESOLVED }, rfl, by
        show b.uid ≠ m
        rw [hbu]; exact hne⟩) (Or.inl rfl)
    · exact upsert_sorted Book.key _ r0.1.books f2
    · intro x hx
      have := goRemove_sub hq x hx
      rw [f3] at this; exact this
    · intro x hx
      have hx : x ∈ r0.1.obqueue ++ [mk] := hx
      rw [List.mem_append] at hx
      rcases hx with hx | hx
      · rw [f4] at hx; exact Or.inl hx
      · exact Or.inr (by simpa using hx)

/-- BatchMarketSettlements keeps the ledgers of a market in neither queue (and leaves it out of the book queue) -/
theorem c1f_betEndBlock_frame (m : Nat) : ∀ (fuel : Nat) (s : State) (n : Nat) (s' : State),
    BetIdx s → Sorted Book.key s.books → m ∉ s.mqueue → m ∉ s.obqueue → betEndBlock fuel s n = some s' →
    c1m_Same s s' m ∧ Sorted Book.key s'.books ∧ m ∉ s'.obqueue := by
  intro fuel
  induction fuel with
  | zero =>
    intro s n s' _ hsB _ ho h
    simp only [betEndBlock, Option.some.injEq] at h
    rw [← h]; exact ⟨c1f_same_refl s m, hsB, ho⟩
  | succ fuel ih =>
    intro s n s' hI hsB hq ho h
    unfold betEndBlock at h
    split at h
    · simp only [Option.some.injEq] at h; rw [← h]; exact ⟨c1f_same_refl s m, hsB, ho⟩
    · split at h
      · simp only [Option.some.injEq] at h; rw [← h]; exact ⟨c1f_same_refl s m, hsB, ho⟩
      · rename_i mk rest hmq
        simp only [bind, Option.bind_eq_some_iff] at h
        obtain ⟨r, hr, h⟩ := h
        have hne : mk ≠ m := by
          intro e
          apply hq
          rw [hmq, e]; exact List.mem_cons_self ..
        obtain ⟨f1, f2, f3, f4⟩ := c1f_betEndBlockStep_frame hI hsB hne hr
        have g1 := betEndBlockStep_good hI hr
        obtain ⟨k1, k2, k3⟩ := ih r.1 _ s' g1.1 f2 (fun hx => hq (f3 m hx))
          (fun hx => by
            rcases f4 m hx with hx | hx
            · exact ho hx
            · exact hne hx.symm) h
        exact ⟨c1f_same_trans f1 k1, k2, k3⟩

/-- the participation loop changes balances only and hands back the book under its uid -/
theorem c1f_settleParts_stores (mk : Market) (count : Nat) : ∀ (ps : List Part) (s : State) (b : Book) (sc pr : Nat)
    (r : State × Book × Nat × Nat), settleParts mk count ps s b sc pr = some r →
    (∃ bal', r.1 = { s with bal := bal' }) ∧ r.2.1.uid = b.uid := by
  intro ps
  induction ps with
  | nil => intro s b sc pr r h; simp [settleParts] at h; rw [← h]; exact ⟨⟨s.bal, rfl⟩, rfl⟩
  | cons p rest ih =>
    intro s b sc pr r h
    unfold settleParts at h
    simp only [bind, Option.bind_eq_some_iff] at h
    obtain ⟨r1, h1, h⟩ := h
    have hstep : (∃ bal', r1.1 = { s with bal := bal' }) ∧ r1.2.1.uid = b.uid := by
      unfold settleOne at h1
      split at h1
      · simp only [Option.map_eq_some_iff] at h1
        obtain ⟨x, hx, rfl⟩ := h1
        obtain ⟨hb, p', e1, _⟩ := settlePart_shape hx
        refine ⟨hb, ?_⟩
        show x.2.uid = b.uid
        rw [e1]; rfl
      · cases h1
        exact ⟨⟨s.bal, rfl⟩, rfl⟩
    obtain ⟨⟨bal1, hb1⟩, hu1⟩ := hstep
    split at h
    · simp only [pure, Option.some.injEq] at h
      rw [← h]
      exact ⟨⟨bal1, hb1⟩, hu1⟩
    · obtain ⟨⟨bal2, hb2⟩, hu2⟩ := ih _ _ _ _ _ h
      exact ⟨⟨bal2, by rw [hb2, hb1]⟩, hu2.trans hu1⟩

/-- BatchOrderBookSettlements keeps the ledgers of a market whose book is not queued -/
theorem c1f_obEndBlock_frame (m : Nat) : ∀ (fuel : Nat) (s : State) (n i : Nat) (s' : State),
    Sorted Book.key s.books → Sorted Bet.key s.bets → m ∉ s.obqueue → obEndBlock fuel s n i = some s' →
    c1m_Same s s' m := by
  intro fuel
  induction fuel with
  | zero => intro s n i s' _ _ _ h; simp only [obEndBlock, Option.some.injEq] at h; rw [← h]; exact c1f_same_refl s m
  | succ fuel ih =>
    intro s n i s' hsB hsT ho h
    unfold obEndBlock at h
    split at h
    · simp only [Option.some.injEq] at h; rw [← h]; exact c1f_same_refl s m
    · split at h
      · simp only [Option.some.injEq] at h; rw [← h]; exact c1f_same_refl s m
      · rename_i uid hidx
        simp only [bind, Option.bind_eq_some_iff] at h
        obtain ⟨b, hb, mk, _, _, _, r, hr, h⟩ := h
        have hbu := (getBook_mem hb).2
        have huid : uid ≠ m := by
          intro e
          apply ho
          rw [← e]
          exact List.mem_of_getElem? hidx
        obtain ⟨⟨bal', hbal⟩, hru⟩ := c1f_settleParts_stores mk n b.parts s b 0 0 r hr
        have hBne : r.2.1.uid ≠ m := by rw [hru, hbu]; exact huid
        split at h
        · simp only [Option.bind_eq_some_iff] at h
          obtain ⟨q, hq, h⟩ := h
          have hstep : c1m_Same s (setBook { r.1 with obqueue := q } { r.2.1 with status := OB_SETTLED }) m := by
            refine c1m_Same.of_writes hsB hsT (Or.inr ⟨{ r.2.1 with status := OB_SETTLED }, ?_, hBne⟩) (Or.inl ?_)
            · rw [hbal]; rfl
            · rw [hbal]; rfl
          refine c1f_same_trans hstep (ih _ _ _ _ ?_ ?_ ?_ h)
          · show Sorted Book.key (upsert Book.key _ r.1.books)
            rw [hbal]; exact upsert_sorted Book.key _ s.books hsB
          · show Sorted Bet.key r.1.bets
            rw [hbal]; exact hsT
          · intro hx
            have hx : m ∈ q := hx
            have := goRemove_sub hq m hx
            rw [hbal] at this
            exact ho this
        · have hstep : c1m_Same s (setBook r.1 r.2.1) m := by
            refine c1m_Same.of_writes hsB hsT (Or.inr ⟨r.2.1, ?_, hBne⟩) (Or.inl ?_)
            · rw [hbal]; rfl
            · rw [hbal]; rfl
          refine c1f_same_trans hstep (ih _ _ _ _ ?_ ?_ ?_ h)
          · show Sorted Book.key (upsert Book.key _ r.1.books)
            rw [hbal]; exact upsert_sorted Book.key _ s.books hsB
          · show Sorted Bet.key r.1.bets
            rw [hbal]; exact hsT
          · intro hx
            have hx : m ∈ r.1.obqueue := hx
            rw [hbal] at hx
            exact ho hx

/-- the end-block keeps the three ledgers of every market that is in neither settlement queue -/
theorem c1f_endBlockO_frame {s s' : State} {m : Nat} (hI : BetIdx s) (hsB : Sorted Book.key s.books)
    (hq : m ∉ s.mqueue) (ho : m ∉ s.obqueue) (h : endBlockO s = some s') : c1m_Same s s' m := by
  unfold endBlockO at h
  simp only [bind, Option.bind_eq_some_iff] at h
  obtain ⟨s1, h1, h2⟩ := h
  obtain ⟨f1, f2, f3⟩ := c1f_betEndBlock_frame m _ _ _ _ hI hsB hq ho h1
  have g1 := betEndBlock_good _ _ _ _ hI h1
  exact c1f_same_trans f1 (c1f_obEndBlock_frame m _ _ _ _ _ f2 g1.1.sBets f3 h2)

theorem c1f_step_endBlock_frame (s : State) (m : Nat) (hI : BetIdx s) (hsB : Sorted Book.key s.books)
    (hq : m ∉ s.mqueue) (ho : m ∉ s.obqueue) : c1m_Same s (step s .endBlock).1 m := by
  simp only [step, endBlock]
  cases h : endBlockO s with
  | none => exact c1f_same_refl s m
  | some s' => exact c1f_endBlockO_frame hI hsB hq ho h

end Sge.Core
