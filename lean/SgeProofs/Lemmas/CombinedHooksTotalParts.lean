/-
  Hooks never fail (C11 on the combined slice), part 1: facts about single participation records that hold in every
  reachable core state, whatever the bets did: the house fee and the liquidity of a participation are not negative and
  the current-round liquidity never exceeds the liquidity (so a withdrawal, which is bounded by the current-round
  liquidity, never takes more than the liquidity). The wager loop is covered by a loop invariant of its own
  (`cmb2_WP`): it writes participations back with the liquidity untouched and the current-round liquidity only trimmed.
-/
import SgeProofs.Lemmas.CombinedLedgerStep
namespace Sge.Core
open Sge Sge.Genesis

/-- the current-round liquidity does not exceed the liquidity -/
def cmb2_crlOK (p : Part) : Prop := p.crl ≤ p.liq

theorem cmb2_setMaxLoss_crl (p : Part) (e : PExp) (o : Nat) (b : Int) :
    (setMaxLoss p e o b).crl = p.crl ∧ (setMaxLoss p e o b).liq = p.liq := by
  unfold setMaxLoss
  simp only
  split
  · exact ⟨rfl, rfl⟩
  · split <;> exact ⟨rfl, rfl⟩

theorem cmb2_applyFul_crl (o : Nat) (p : Part) (e : PExp) (b π : Int) :
    (applyFul o p e b π).1.crl = p.crl ∧ (applyFul o p e b π).1.liq = p.liq := by
  unfold applyFul
  exact cmb2_setMaxLoss_crl _ _ _ _

theorem cmb2_stage1_crl (o : Nat) (ov mult : Dec) (thr : Int) (f : FInfo) (pe : Part × PExp) :
    (stage1 o ov mult thr f pe).1.crl = pe.1.crl ∧ (stage1 o ov mult thr f pe).1.liq = pe.1.liq := by
  unfold stage1
  simp only
  split
  · exact cmb2_applyFul_crl _ _ _ _ _
  · exact ⟨rfl, rfl⟩

theorem cmb2_secondaryOne_crl (o : Nat) (thr : Int) (allExp : List PExp) (ms : List (Nat × Dec))
    (acc : Part × Book × Bool) (x : Nat) :
    (secondaryOne o thr allExp ms acc x).1.crl = acc.1.crl ∧ (secondaryOne o thr allExp ms acc x).1.liq = acc.1.liq := by
  unfold secondaryOne
  split
  · exact ⟨rfl, rfl⟩
  · split
    · exact ⟨rfl, rfl⟩
    · split
      · exact ⟨rfl, rfl⟩
      · split
        · exact ⟨rfl, rfl⟩
        · split
          · exact ⟨rfl, rfl⟩
          · exact ⟨rfl, rfl⟩

theorem cmb2_secondaryFold_crl (o : Nat) (thr : Int) (allExp : List PExp) (ms : List (Nat × Dec)) :
    ∀ (l : List Nat) (acc : Part × Book × Bool),
    (l.foldl (secondaryOne o thr allExp ms) acc).1.crl = acc.1.crl ∧
    (l.foldl (secondaryOne o thr allExp ms) acc).1.liq = acc.1.liq := by
  intro l
  induction l with
  | nil => intro acc; exact ⟨rfl, rfl⟩
  | cons x xs ih =>
    intro acc
    simp only [List.foldl_cons]
    have h1 := cmb2_secondaryOne_crl o thr allExp ms acc x
    have h2 := ih (secondaryOne o thr allExp ms acc x)
    exact ⟨h2.1.trans h1.1, h2.2.trans h1.2⟩

theorem cmb2_stage2_crl (o : Nat) (mo : List Nat) (ms : List (Nat × Dec)) (thr : Int) (x : Part × PExp × Bool × FInfo) :
    (stage2 o mo ms thr x).1.crl = x.1.crl ∧ (stage2 o mo ms thr x).1.liq = x.1.liq := by
  unfold stage2
  split
  · simp only
    split
    · have := cmb2_secondaryFold_crl o thr x.2.2.2.allExp ms mo
        ({ x.1 with notFilled := wrapDec x.1.notFilled }, x.2.2.2.book, x.2.2.2.err)
      exact this
    · exact ⟨rfl, rfl⟩
  · exact ⟨rfl, rfl⟩

/-- loop invariant of the wager loop: the bound holds of every stored participation and of every in-memory copy -/
structure cmb2_WP (f : FInfo) : Prop where
  parts : ∀ q ∈ f.book.parts, cmb2_crlOK q
  fmap : ∀ x ∈ f.fmap, cmb2_crlOK x.2.1

/-- a new loop state whose stored participations and in-memory copies are the old ones or `p` -/
theorem cmb2_WP.next {f f' : FInfo} (h : cmb2_WP f) (p : Part) (hp : cmb2_crlOK p)
    (h1 : ∀ q ∈ f'.book.parts, q = p ∨ q ∈ f.book.parts)
    (h2 : ∀ y ∈ f'.fmap, y.2.1 = p ∨ ∃ x ∈ f.fmap, y.2.1 = x.2.1) : cmb2_WP f' := by
  constructor
  · intro q hq
    rcases h1 q hq with e | e
    · rw [e]; exact hp
    · exact h.parts q e
  · intro y hy
    rcases h2 y hy with e | ⟨x, hx, e⟩
    · unfold cmb2_crlOK; rw [e]; exact hp
    · unfold cmb2_crlOK; rw [e]; exact h.fmap x hx

theorem cmb2_maxI_nonneg (x : Int) : 0 ≤ maxI 0 x := by
  unfold maxI; split <;> omega

theorem cmb2_requeue_WP {f : FInfo} (h : cmb2_WP f) (p : Part) (e : PExp) (o : Nat) (hp : cmb2_crlOK p) :
    cmb2_WP (requeue f p e o) := by
  unfold requeue
  simp only
  have hr := rollFold_frame (decide ((0 : Int) < p.crl - maxI 0 p.crMaxLoss)) o p.idx (f.book.expsOfIdx p.idx) (f.book, e, f.fmap)
  generalize hR : (f.book.expsOfIdx p.idx).foldl (rollOne (decide ((0 : Int) < p.crl - maxI 0 p.crMaxLoss)) o p.idx) (f.book, e, f.fmap) = R at hr
  let p2 : Part := { p with crl := p.crl - maxI 0 p.crMaxLoss, notFilled := R.1.oddsCount, maxLoss := p.maxLoss + p.crMaxLoss, crTotalBet := 0, crMaxLoss := 0 }
  have hp2 : cmb2_crlOK p2 := by
    have := cmb2_maxI_nonneg p.crMaxLoss
    unfold cmb2_crlOK at hp ⊢
    show p.crl - maxI 0 p.crMaxLoss ≤ p.liq
    omega
  have hfm : ∀ y ∈ (R.2.2.map fun x => if x.1 == p2.idx then (x.1, p2, x.2.2) else x),
      y.2.1 = p2 ∨ ∃ x ∈ f.fmap, y.2.1 = x.2.1 := by
    intro y hy
    simp only [List.mem_map] at hy
    obtain ⟨x, hx, rfl⟩ := hy
    split
    · exact Or.inl rfl
    · obtain ⟨z, hz, _, e2⟩ := hr.2.2 x hx
      exact Or.inr ⟨z, hz, e2⟩
  split
  · apply h.next p2 hp2
    · intro q hq
      have hq' : q ∈ ((R.1.setPart p2).queues.foldl (requeueOdds p2.idx) (R.1.setPart p2)).parts := hq
      rw [(requeueOddsFold_parts _ _ _).1] at hq'
      rcases mem_upsert_or Part.key p2 q R.1.parts hq' with e | e
      · exact Or.inl e
      · rw [hr.1] at e; exact Or.inr e
    · exact hfm
  · apply h.next p2 hp2
    · intro q hq
      have hq' : q ∈ (R.1.setPart p2).parts := hq
      rcases mem_upsert_or Part.key p2 q R.1.parts hq' with e | e
      · exact Or.inl e
      · rw [hr.1] at e; exact Or.inr e
    · exact hfm

theorem cmb2_stage3_WP (o : Nat) (x : Part × PExp × FInfo) (h : cmb2_WP x.2.2) (hp : cmb2_crlOK x.1) :
    cmb2_WP (stage3 o x) := by
  unfold stage3
  simp only
  have h1 : cmb2_WP { x.2.2 with book := (x.2.2.book.setExp x.2.1).setPart x.1 } := by
    apply h.next x.1 hp
    · intro q hq
      have hq' : q ∈ ((x.2.2.book.setExp x.2.1).setPart x.1).parts := hq
      rcases mem_upsert_or Part.key x.1 q _ hq' with e | e
      · exact Or.inl e
      · exact Or.inr e
    · intro y hy
      exact Or.inr ⟨y, hy, rfl⟩
  split
  · exact cmb2_requeue_WP h1 x.1 x.2.1 o hp
  · exact h1

theorem cmb2_visit_WP (o : Nat) (ov mult : Dec) (mo : List Nat) (ms : List (Nat × Dec)) (thr : Int)
    (f : FInfo) (i : Nat) (h : cmb2_WP f) : cmb2_WP (visit o ov mult mo ms thr f i) := by
  unfold visit
  split
  · exact ⟨h.parts, h.fmap⟩
  · rename_i pe hpe
    unfold FInfo.item at hpe
    simp only [Option.map_eq_some_iff] at hpe
    obtain ⟨x, hx, rfl⟩ := hpe
    have hxm := List.mem_of_find?_eq_some hx
    have hx0 := h.fmap x hxm
    have s1 := stage1_frame o ov mult thr f (x.2.1, x.2.2)
    have s2 := stage2_frame o mo ms thr (stage1 o ov mult thr f (x.2.1, x.2.2))
    have c1 := cmb2_stage1_crl o ov mult thr f (x.2.1, x.2.2)
    have c2 := cmb2_stage2_crl o mo ms thr (stage1 o ov mult thr f (x.2.1, x.2.2))
    apply cmb2_stage3_WP
    · constructor
      · intro q hq
        rw [s2.2.1, s1.2.1] at hq
        exact h.parts q hq
      · intro y hy
        rw [s2.2.2.1, s1.2.2.1] at hy
        exact h.fmap y hy
    · unfold cmb2_crlOK at hx0 ⊢
      rw [c2.1, c2.2, c1.1, c1.2]
      exact hx0

theorem cmb2_loop_WP (o : Nat) (ov mult : Dec) (mo : List Nat) (ms : List (Nat × Dec)) (thr : Int) :
    ∀ (qs : List Nat) (f : FInfo), cmb2_WP f → cmb2_WP (loop o ov mult mo ms thr qs f) := by
  intro qs
  induction qs with
  | nil => intro f h; exact h
  | cons i rest ih =>
    intro f h
    unfold loop
    simp only
    have hv := cmb2_visit_WP o ov mult mo ms thr f i h
    split
    · exact hv
    · split
      · exact hv
      · exact ih _ hv

/-- ProcessWager keeps "current-round liquidity ≤ liquidity" for every participation of the book -/
theorem cmb2_processWager_crl (b b' : Book) (o betId : Nat) (ov mult : Dec) (mo : List Nat) (ms : List (Nat × Dec))
    (thr A : Int) (P : Dec) (fulfs : List Fulf) (taken : Int) (h0 : ∀ q ∈ b.parts, cmb2_crlOK q)
    (h : processWager b o betId ov mult mo ms thr A P = some (b', fulfs, taken)) : ∀ q ∈ b'.parts, cmb2_crlOK q := by
  unfold processWager at h
  simp only [bind, Option.bind_eq_some_iff] at h
  obtain ⟨q, _, f0, hf0, h⟩ := h
  have hW0 : cmb2_WP f0 := by
    unfold initFInfo at hf0
    simp only [bind, Option.bind_eq_some_iff, pure, Option.some.injEq] at hf0
    obtain ⟨_, _, _, _, _, _, _, _, rfl⟩ := hf0
    refine ⟨h0, ?_⟩
    intro x hx
    simp only [List.mem_map] at hx
    obtain ⟨p, hp, rfl⟩ := hx
    exact h0 p hp
  have hW := cmb2_loop_WP o ov mult mo ms thr q f0 hW0
  unfold finishWager at h
  split at h
  · cases h
  · split at h
    · cases h
    · simp only [Option.some.injEq, Prod.mk.injEq] at h
      obtain ⟨h1, _, _⟩ := h
      rw [← h1]
      exact hW.parts

end Sge.Core
