/-
  The participation-settlement phase of the end-block, traced: every participation record of the new state is the
  record of the old state, or the paid record written by ONE `settleParticipation` call (`PaidAt`) on the so far
  unpaid record, made in a state that satisfies the whole-history invariants.
-/
import SgeProofs.Lemmas.ReturnsStepOps
namespace Sge.Core
open Sge Sge.Genesis

-- ---------------------------------------------------------------------------------------------
-- the participation loop

/-- batchSettlementOfParticipation, traced. `W p p'` stands for "a settleParticipation call on `p` wrote `p'`". -/
theorem ret_settleParts_trace (m : Market) (count : Nat) (W : Part → Part → Prop) (s0 : State) :
    ∀ (ps : List Part) (s : State) (bk : Book) (sc pr : Nat) (r : State × Book × Nat × Nat),
    settleParts m count ps s bk sc pr = some r →
    (∃ bal, s = { s0 with bal := bal }) →
    ps.Pairwise (fun a c => a.idx ≠ c.idx) → (∀ p ∈ ps, bk.getPart p.idx = some p) →
    (∀ p ∈ ps, ∀ (t : State) (bk1 : Book) (r1 : State × Book), (∃ bal, t = { s0 with bal := bal }) →
        settlePart t bk1 p m = some r1 → W p (p.paidRec m)) →
    (∃ bal', r.1 = { s0 with bal := bal' }) ∧ r.2.1.uid = bk.uid ∧ r.2.1.status = bk.status ∧
    (∀ i q', r.2.1.getPart i = some q' → ∃ q, bk.getPart i = some q ∧
        (q' = q ∨ (q ∈ ps ∧ q.isSettled = false ∧ q'.isSettled = true ∧ W q q'))) ∧
    (∀ i q, bk.getPart i = some q → ∃ q', r.2.1.getPart i = some q') ∧
    r.2.2.2 ≤ pr + ps.length ∧
    (r.2.2.2 = pr + ps.length → ∀ p ∈ ps, ∃ q', r.2.1.getPart p.idx = some q' ∧ q'.isSettled = true) := by
  intro ps
  induction ps with
  | nil =>
    intro s bk sc pr r h hs _ _ _
    simp only [settleParts, Option.some.injEq] at h
    subst h
    exact ⟨hs, rfl, rfl, fun i q' hq' => ⟨q', hq', Or.inl rfl⟩, fun i q hq => ⟨q, hq⟩, by simp,
      fun _ p hp => by cases hp⟩
  | cons p rest ih =>
    intro s bk sc pr r h hs hd hg hw
    rw [List.pairwise_cons] at hd
    unfold settleParts at h
    simp only [bind, Option.bind_eq_some_iff] at h
    obtain ⟨r1, h1, h⟩ := h
    have hgp : bk.getPart p.idx = some p := hg p (List.mem_cons_self ..)
    have hstep : (∃ bal, r1.1 = { s0 with bal := bal }) ∧ r1.2.1.uid = bk.uid ∧ r1.2.1.status = bk.status ∧
        (∀ i q', r1.2.1.getPart i = some q' → ∃ q, bk.getPart i = some q ∧
          (q' = q ∨ (q = p ∧ q.isSettled = false ∧ q'.isSettled = true ∧ W q q'))) ∧
        (∀ i q, bk.getPart i = some q → ∃ q', r1.2.1.getPart i = some q') ∧
        (∀ q ∈ rest, r1.2.1.getPart q.idx = some q) ∧
        (∃ q', r1.2.1.getPart p.idx = some q' ∧ q'.isSettled = true) := by
      unfold settleOne at h1
      split at h1
      · simp only [Option.map_eq_some_iff] at h1
        obtain ⟨x, hx, rfl⟩ := h1
        obtain ⟨hun, ⟨bal1, hb1⟩, e1⟩ := ret_settlePart_rec hx
        obtain ⟨f1, _, _, _, _, _, f7, _⟩ := p.paidRec_fields m
        have hW := hw p (List.mem_cons_self ..) s bk x hs hx
        obtain ⟨bal0, rfl⟩ := hs
        refine ⟨⟨bal1, hb1⟩, by show x.2.uid = _; rw [e1]; rfl, by show x.2.status = _; rw [e1]; rfl, ?_, ?_, ?_, ?_⟩
        · intro i q' hq'
          have hq' : x.2.getPart i = some q' := hq'
          rw [e1] at hq'
          by_cases hi : (p.paidRec m).idx = i
          · rw [ret_getPart_setPart_at bk _ i hi] at hq'
            cases hq'
            exact ⟨p, by rw [← hi, f1]; exact hgp, Or.inr ⟨rfl, hun, f7, hW⟩⟩
          · rw [Book.getPart_setPart_ne _ _ _ hi] at hq'
            exact ⟨q', hq', Or.inl rfl⟩
        · intro i q hq
          show ∃ q', x.2.getPart i = some q'
          rw [e1]
          by_cases hi : (p.paidRec m).idx = i
          · exact ⟨_, ret_getPart_setPart_at bk _ i hi⟩
          · exact ⟨q, by rw [Book.getPart_setPart_ne _ _ _ hi]; exact hq⟩
        · intro q hq
          show x.2.getPart q.idx = some q
          rw [e1, Book.getPart_setPart_ne _ _ _ (by rw [f1]; exact hd.1 q hq)]
          exact hg q (List.mem_cons_of_mem _ hq)
        · refine ⟨p.paidRec m, ?_, f7⟩
          show x.2.getPart p.idx = _
          rw [e1]
          exact ret_getPart_setPart_at bk _ p.idx f1
      · rename_i hset
        cases h1
        have hps : p.isSettled = true := by simpa using hset
        exact ⟨hs, rfl, rfl, fun i q' hq' => ⟨q', hq', Or.inl rfl⟩, fun i q hq => ⟨q, hq⟩,
          fun q hq => hg q (List.mem_cons_of_mem _ hq), ⟨p, hgp, hps⟩⟩
    obtain ⟨S1, S2, S2', S3, S4, S5, S6⟩ := hstep
    split at h
    · simp only [pure, Option.some.injEq] at h
      subst h
      refine ⟨S1, S2, S2', ?_, S4, by simp only [List.length_cons]; omega, ?_⟩
      · intro i q' hq'
        obtain ⟨q, hq, hor⟩ := S3 i q' hq'
        refine ⟨q, hq, ?_⟩
        rcases hor with e | ⟨e, a1, a2, a3⟩
        · exact Or.inl e
        · exact Or.inr ⟨by rw [e]; exact List.mem_cons_self .., a1, a2, a3⟩
      · intro hlen q hq
        simp only [List.length_cons] at hlen
        have : rest = [] := by
          cases rest with
          | nil => rfl
          | cons _ _ => simp only [List.length_cons] at hlen; omega
        subst this
        simp only [List.mem_singleton] at hq
        subst hq
        exact S6
    · obtain ⟨T1, T2, T2', T3, T4, T5, T6⟩ := ih r1.1 r1.2.1 r1.2.2 (pr + 1) r h S1 hd.2 S5
        (fun q hq => hw q (List.mem_cons_of_mem _ hq))
      refine ⟨T1, T2.trans S2, T2'.trans S2', ?_, ?_, by simp only [List.length_cons]; omega, ?_⟩
      · intro i q' hq'
        obtain ⟨q1, hq1, hor1⟩ := T3 i q' hq'
        obtain ⟨q, hq, hor⟩ := S3 i q1 hq1
        refine ⟨q, hq, ?_⟩
        rcases hor1 with e1 | ⟨m1, a1, a2, a3⟩
        · rcases hor with e | ⟨e, b1, b2, b3⟩
          · exact Or.inl (e1.trans e)
          · exact Or.inr ⟨by rw [e]; exact List.mem_cons_self .., b1, by rw [e1]; exact b2, by rw [e1]; exact b3⟩
        · rcases hor with e | ⟨e, b1, b2, b3⟩
          · rw [← e]
            exact Or.inr ⟨List.mem_cons_of_mem _ m1, a1, a2, a3⟩
          · rw [a1] at b2; cases b2
      · intro i q hq
        obtain ⟨q1, hq1⟩ := S4 i q hq
        exact T4 i q1 hq1
      · intro hlen q hq
        simp only [List.length_cons] at hlen
        rcases List.mem_cons.mp hq with rfl | hq
        · obtain ⟨q1, hq1, hs1⟩ := S6
          obtain ⟨q', hq'⟩ := T4 _ q1 hq1
          obtain ⟨q1', hq1', hor⟩ := T3 _ q' hq'
          rw [hq1] at hq1'
          cases hq1'
          rcases hor with e | ⟨_, _, a2, _⟩
          · exact ⟨q', hq', by rw [e]; exact hs1⟩
          · exact ⟨q', hq', a2⟩
        · exact T6 (by omega) q hq

-- ---------------------------------------------------------------------------------------------
-- the witness of one payment

/-- participation record `p` of market `u` was paid by one `settleParticipation` call that wrote `p'`: the call was
    made in a state `t` with the bets `bets` and the markets `mks` that satisfies the whole-history invariants, on a
    book of `t` that is resolved and lists `p` -/
def PaidAt (bets : List Bet) (mks : List Market) (u : Nat) (p p' : Part) : Prop :=
  ∃ (t : State) (b0 bk : Book) (m : Market) (r : State × Book),
    PayInv t ∧ t.bets = bets ∧ t.markets = mks ∧ b0 ∈ t.books ∧ b0.uid = u ∧ b0.status = OB_RESOLVED ∧ p ∈ b0.parts ∧
    getMarket t u = some m ∧ settlePart t bk p m = some r ∧ p' = p.paidRec m

/-- `b'` is `b` after (part of) the participation-settlement phase -/
structure ObBk (bets : List Bet) (mks : List Market) (b b' : Book) : Prop where
  uid : b'.uid = b.uid
  st : b'.status = b.status ∨
    (b.status = OB_RESOLVED ∧ b'.status = OB_SETTLED ∧ ∀ i p', b'.getPart i = some p' → p'.isSettled = true)
  gp : ∀ i p', b'.getPart i = some p' → ∃ p, b.getPart i = some p ∧
    (p' = p ∨ (p.isSettled = false ∧ p'.isSettled = true ∧ PaidAt bets mks b.uid p p'))
  gp' : ∀ i p, b.getPart i = some p → ∃ p', b'.getPart i = some p'

theorem ObBk.refl (bets : List Bet) (mks : List Market) (b : Book) : ObBk bets mks b b :=
  ⟨rfl, Or.inl rfl, fun _ p' h => ⟨p', h, Or.inl rfl⟩, fun _ p h => ⟨p, h⟩⟩

theorem ObBk.trans {bets : List Bet} {mks : List Market} {a b c : Book} (h1 : ObBk bets mks a b) (h2 : ObBk bets mks b c) :
    ObBk bets mks a c := by
  have hgp : ∀ i p'', c.getPart i = some p'' → ∃ p, a.getPart i = some p ∧
      (p'' = p ∨ (p.isSettled = false ∧ p''.isSettled = true ∧ PaidAt bets mks a.uid p p'')) := by
    intro i p'' hp''
    obtain ⟨p', hp', hor2⟩ := h2.gp i p'' hp''
    obtain ⟨p, hp, hor1⟩ := h1.gp i p' hp'
    refine ⟨p, hp, ?_⟩
    rcases hor2 with e2 | ⟨a1, a2, a3⟩
    · rcases hor1 with e1 | ⟨b1, b2, b3⟩
      · exact Or.inl (e2.trans e1)
      · exact Or.inr ⟨b1, by rw [e2]; exact b2, by rw [e2]; exact b3⟩
    · rcases hor1 with e1 | ⟨b1, b2, b3⟩
      · rw [← e1]
        exact Or.inr ⟨a1, a2, by rw [← h1.uid]; exact a3⟩
      · rw [a1] at b2; cases b2
  refine ⟨h2.uid.trans h1.uid, ?_, hgp, ?_⟩
  · rcases h2.st with e2 | ⟨r2, s2, all2⟩
    · rcases h1.st with e1 | ⟨r1, s1, all1⟩
      · exact Or.inl (e2.trans e1)
      · refine Or.inr ⟨r1, e2.trans s1, fun i p'' hp'' => ?_⟩
        obtain ⟨p', hp', hor⟩ := h2.gp i p'' hp''
        rcases hor with e | ⟨_, a2, _⟩
        · rw [e]; exact all1 i p' hp'
        · exact a2
    · rcases h1.st with e1 | ⟨r1, s1, all1⟩
      · exact Or.inr ⟨by rw [← e1]; exact r2, s2, all2⟩
      · rw [s1] at r2; cases r2
  · intro i p hp
    obtain ⟨p', hp'⟩ := h1.gp' i p hp
    exact h2.gp' i p' hp'

/-- the states before and after (part of) the participation-settlement phase -/
structure ObStep (s s' : State) : Prop where
  bets : s'.bets = s.bets
  mks : s'.markets = s.markets
  fwd : ∀ b ∈ s.books, ∃ b' ∈ s'.books, ObBk s.bets s.markets b b'
  bwd : ∀ b' ∈ s'.books, ∃ b ∈ s.books, ObBk s.bets s.markets b b'

theorem ObStep.refl (s : State) : ObStep s s :=
  ⟨rfl, rfl, fun b hb => ⟨b, hb, ObBk.refl _ _ b⟩, fun b hb => ⟨b, hb, ObBk.refl _ _ b⟩⟩

theorem ObStep.trans {a b c : State} (h1 : ObStep a b) (h2 : ObStep b c) : ObStep a c := by
  refine ⟨h2.bets.trans h1.bets, h2.mks.trans h1.mks, ?_, ?_⟩
  · intro x hx
    obtain ⟨y, hy, e1⟩ := h1.fwd x hx
    obtain ⟨z, hz, e2⟩ := h2.fwd y hy
    rw [h1.bets, h1.mks] at e2
    exact ⟨z, hz, e1.trans e2⟩
  · intro z hz
    obtain ⟨y, hy, e2⟩ := h2.bwd z hz
    obtain ⟨x, hx, e1⟩ := h1.bwd y hy
    rw [h1.bets, h1.mks] at e2
    exact ⟨x, hx, e1.trans e2⟩

theorem ObStep.replace {s s' : State} (hsB : Sorted Book.key s.books) (b b' : Book) (hb : getBook s b'.uid = some b)
    (hx : ObBk s.bets s.markets b b') (hk : s'.books = upsert Book.key b' s.books) (ht : s'.bets = s.bets)
    (hm : s'.markets = s.markets) : ObStep s s' := by
  obtain ⟨hbm, hbu⟩ := getBook_eq_some s _ b hb
  refine ⟨ht, hm, ?_, ?_⟩
  · intro x hxm
    rw [hk]
    by_cases hu : x.uid = b'.uid
    · have : x = b := by
        have := mem_getBook hsB hxm
        rw [hu, hb] at this
        cases this; rfl
      subst this
      exact ⟨b', mem_upsert_self Book.key b' s.books, hx⟩
    · refine ⟨x, mem_upsert_of_ne Book.key b' x s.books hxm ?_, ObBk.refl _ _ x⟩
      simpa [Book.key] using hu
  · intro x hxm
    rw [hk] at hxm
    rcases (mem_upsert_iff Book.key b' x s.books hsB).mp hxm with rfl | ⟨e, _⟩
    · exact ⟨b, hbm, hx⟩
    · exact ⟨x, e, ObBk.refl _ _ x⟩

end Sge.Core
