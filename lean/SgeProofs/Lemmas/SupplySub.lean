/-
  Stand-alone subaccount model: every operation changes the bank only by transfers between the accounts it names
  (`sup_touch`), except the environment operation `fund`, which adds exactly its (non-negative) amount from outside.
  All three variant flags are fields of the state; the lemmas quantify over all states.
-/
import SgeProofs.Lemmas.SupplyMoves
import Sge.Subaccount
namespace Sge.Subaccount
open Sge

theorem sup_send_moves {A : Nat → Prop} {b b' : Nat → Int} {f t : Nat} {amt : Int} (h : send b f t amt = some b')
    (hf : A f) (ht : A t) : sup_Moves A b b' 0 := by
  unfold send at h
  split at h
  · cases h
  · split at h
    · cases h
    · simp only [Option.some.injEq] at h
      subst h
      exact sup_Moves.xfer b f t amt (by omega) hf ht

def sup_optL (o : Option Nat) : List Nat :=
  match o with
  | some a => [a]
  | none => []

theorem sup_mem_optL {o : Option Nat} {a : Nat} (h : o = some a) : a ∈ sup_optL o := by
  subst h; simp [sup_optL]

/-- the accounts an operation can debit or credit in state `s` (whether or not it succeeds) -/
def sup_touch (s : State) : Op → List Nat
  | .advance _ => []
  | .params _ _ => []
  | .fund a _ => [a]
  | .send f t _ => [f, t]
  | .create c _ _ => [c, addrOf s.nextId]
  | .topUp c o _ => c :: sup_optL (s.ownerMap o)
  | .withdrawUnlocked o => o :: sup_optL (s.ownerMap o)
  | .grant c r _ _ => [c, poolAcct, addrOf s.nextId] ++ sup_optL (s.ownerMap r)
  | .wager o _ _ _ => [o, extAcct] ++ sup_optL (s.ownerMap o)
  | .houseDeposit o _ _ => extAcct :: sup_optL (s.ownerMap o)
  | .houseWithdraw o _ => extAcct :: sup_optL (s.ownerMap o)
  | .settle _ h _ _ _ => [extAcct, h] ++ sup_optL (s.subMap h)

/-- what an operation brings in from outside the modelled accounts: only `fund`, and only a non-negative amount -/
def sup_fundAmt : Op → Int
  | .fund _ v => if v < 0 then 0 else v
  | _ => 0

def sup_touchRun : State → List Op → List Nat
  | _, [] => []
  | s, op :: rest => sup_touch s op ++ sup_touchRun (step s op).1 rest

def sup_fundRun : List Op → Int
  | [] => 0
  | op :: rest => sup_fundAmt op + sup_fundRun rest

theorem sup_createKeeper_moves {A : Nat → Prop} (s : State) (creator owner : Nat) (ls : List Lock)
    (hc : A creator) (ha : A (addrOf s.nextId)) : sup_Moves A s.bank (createKeeper s creator owner ls).1.bank 0 := by
  unfold createKeeper
  split
  · exact sup_Moves.refl _ _
  · split
    · exact sup_Moves.refl _ _
    · simp only
      split
      · exact sup_Moves.refl _ _
      · rename_i hs
        exact sup_send_moves hs hc ha

theorem sup_createKeeper_owner (s : State) (creator owner : Nat) (ls : List Lock) (a : Nat)
    (h : (createKeeper s creator owner ls).1.ownerMap owner = some a) :
    s.ownerMap owner = some a ∨ a = addrOf s.nextId := by
  unfold createKeeper at h
  split at h
  · exact Or.inl h
  · split at h
    · exact Or.inl h
    · simp only at h
      split at h
      · exact Or.inl h
      · simp [upd] at h
        exact Or.inr h.symm

theorem sup_topUpKeeper_moves {A : Nat → Prop} (s : State) (creator owner : Nat) (ls : List Lock)
    (hc : A creator) (ha : ∀ a, s.ownerMap owner = some a → A a) :
    sup_Moves A s.bank (topUpKeeper s creator owner ls).1.bank 0 := by
  unfold topUpKeeper
  split
  · exact sup_Moves.refl _ _
  · split
    · exact sup_Moves.refl _ _
    · rename_i a hown
      split
      · exact sup_Moves.refl _ _
      · split
        · exact sup_Moves.refl _ _
        · split
          · exact sup_Moves.refl _ _
          · rename_i hs
            exact sup_send_moves hs hc (ha a hown)

theorem sup_withdrawUnlockedAt_moves {A : Nat → Prop} (s : State) (a owner : Nat) (ha : A a) (ho : A owner) :
    sup_Moves A s.bank (withdrawUnlockedAt s a owner).1.bank 0 := by
  unfold withdrawUnlockedAt
  split
  · exact sup_Moves.refl _ _
  · simp only
    split
    · exact sup_Moves.refl _ _
    · split
      · exact sup_Moves.refl _ _
      · split
        · exact sup_Moves.refl _ _
        · rename_i hs
          exact sup_send_moves hs ha ho

theorem sup_withdrawLockedAt_moves {A : Nat → Prop} (s : State) (a owner : Nat) (d : Int) (ha : A a) (ho : A owner) :
    sup_Moves A s.bank (withdrawLockedAt s a owner d).1.bank 0 := by
  unfold withdrawLockedAt
  split
  · exact sup_Moves.refl _ _
  · simp only
    split
    · exact sup_Moves.refl _ _
    · split
      · exact sup_Moves.refl _ _
      · split
        · exact sup_Moves.refl _ _
        · rename_i hs
          split
          · exact sup_Moves.refl _ _
          · exact sup_send_moves hs ha ho

/-- `wagerBet` returns the state before the message or moves on from the state after the deduction -/
theorem sup_wagerBet_moves {A : Nat → Prop} (s0 s1 : State) (owner a : Nat) (x : WagerExt) (ho : A owner) (he : A extAcct) :
    (wagerBet s0 s1 owner a x).1 = s0 ∨ sup_Moves A s1.bank (wagerBet s0 s1 owner a x).1.bank 0 := by
  unfold wagerBet
  split
  · exact Or.inl rfl
  · split
    · exact Or.inl rfl
    · rename_i hs
      split
      · exact Or.inl rfl
      · exact Or.inr (sup_send_moves hs ho he)

theorem sup_wagerReturn_moves {A : Nat → Prop} (s0 s2 : State) (owner a : Nat) (main sub : Int) (ho : A owner) (ha : A a) :
    (wagerReturn s0 s2 owner a main sub).1 = s0 ∨ sup_Moves A s2.bank (wagerReturn s0 s2 owner a main sub).1.bank 0 := by
  unfold wagerReturn
  split
  · exact Or.inr (sup_Moves.refl _ _)
  · simp only
    split
    · exact Or.inr (sup_Moves.refl _ _)
    · split
      · exact Or.inl rfl
      · split
        · exact Or.inl rfl
        · split
          · exact Or.inl rfl
          · rename_i hs
            exact Or.inr (sup_send_moves hs ho ha)

theorem sup_wagerTail_moves {A : Nat → Prop} (s : State) (owner a : Nat) (main sub : Int) (x : WagerExt)
    (ho : A owner) (ha : A a) (he : A extAcct) :
    sup_Moves A s.bank (wagerTail s owner a main sub x).1.bank 0 := by
  unfold wagerTail
  have h1 := sup_withdrawLockedAt_moves (A := A) s a owner sub ha ho
  split
  · rename_i s1 e1
    rw [e1] at h1
    have h2 := sup_wagerBet_moves (A := A) s s1 owner a x ho he
    split
    · rename_i s2 e2
      rw [e2] at h2
      have h3 := sup_wagerReturn_moves (A := A) s s2 owner a main sub ho ha
      rcases h3 with h3 | h3
      · rw [h3]; exact sup_Moves.refl _ _
      · rcases h2 with h2 | h2
        · simp only at h2
          subst h2
          exact h3
        · exact (h1.trans0 h2).trans0 h3
    · exact sup_Moves.refl _ _
  · exact sup_Moves.refl _ _

theorem sup_wager_moves {A : Nat → Prop} (s : State) (owner : Nat) (main sub : Int) (x : WagerExt)
    (ho : A owner) (ha : ∀ a, s.ownerMap owner = some a → A a) (he : A extAcct) :
    sup_Moves A s.bank (wager s owner main sub x).1.bank 0 := by
  unfold wager
  split
  · exact sup_Moves.refl _ _
  · split
    · exact sup_Moves.refl _ _
    · rename_i a hown
      repeat' split
      all_goals first
        | exact sup_Moves.refl _ _
        | exact sup_wagerTail_moves s owner a main sub x ho (ha a hown) he

theorem sup_houseDeposit_moves {A : Nat → Prop} (s : State) (owner : Nat) (amount : Int) (x : HouseDepExt)
    (ha : ∀ a, s.ownerMap owner = some a → A a) (he : A extAcct) :
    sup_Moves A s.bank (houseDeposit s owner amount x).1.bank 0 := by
  unfold houseDeposit
  split
  · exact sup_Moves.refl _ _
  · split
    · exact sup_Moves.refl _ _
    · rename_i a hown
      repeat' split
      all_goals first
        | exact sup_Moves.refl _ _
        | exact sup_send_moves (by assumption) (ha a hown) he

theorem sup_houseWithdraw_moves {A : Nat → Prop} (s : State) (owner : Nat) (x : HouseWdExt)
    (ha : ∀ a, s.ownerMap owner = some a → A a) (he : A extAcct) :
    sup_Moves A s.bank (houseWithdraw s owner x).1.bank 0 := by
  unfold houseWithdraw
  split
  · exact sup_Moves.refl _ _
  · rename_i a hown
    repeat' split
    all_goals first
      | exact sup_Moves.refl _ _
      | exact sup_send_moves (by assumption) he (ha a hown)

theorem sup_hook_moves {A : Nat → Prop} (s : State) (k : HookKind) (house : Nat) (x y : Int)
    (hh : A house) (ho : ∀ o, s.subMap house = some o → A o) :
    sup_Moves A s.bank (hook s k house x y).1.bank 0 := by
  cases k with
  | win =>
    simp only [hook]
    unfold hookWin
    split
    · exact sup_Moves.refl _ _
    · split
      · exact sup_Moves.refl _ _
      · split
        · exact sup_Moves.refl _ _
        · rename_i o hown
          split
          · exact sup_Moves.refl _ _
          · rename_i hs
            exact sup_send_moves hs hh (ho o hown)
  | loss =>
    simp only [hook]
    unfold hookLoss
    repeat' split
    all_goals exact sup_Moves.refl _ _
  | refund =>
    simp only [hook]
    unfold hookRefund
    repeat' split
    all_goals exact sup_Moves.refl _ _
  | feeRefund =>
    simp only [hook]
    unfold hookRefund
    repeat' split
    all_goals exact sup_Moves.refl _ _

theorem sup_settle_moves {A : Nat → Prop} (s : State) (k : HookKind) (house : Nat) (refund x y : Int)
    (he : A extAcct) (hh : A house) (ho : ∀ o, s.subMap house = some o → A o) :
    sup_Moves A s.bank (settle s k house refund x y).1.bank 0 := by
  unfold settle
  split
  · exact sup_Moves.refl _ _
  · rename_i bank1 hs
    have h1 : sup_Moves A s.bank bank1 0 := sup_send_moves hs he hh
    simp only
    split
    · rename_i s2 e2
      have h2 := sup_hook_moves (A := A)
        { s with bank := bank1, clean := s.clean && (decide (house < subBase) || (s.subs house).isSome) } k house x y hh ho
      rw [e2] at h2
      exact h1.trans0 h2
    · exact sup_Moves.refl _ _

theorem sup_grant_moves {A : Nat → Prop} (s : State) (creator receiver : Nat) (amt : Int) (period : Nat)
    (hc : A creator) (hp : A poolAcct) (hn : A (addrOf s.nextId)) (ha : ∀ a, s.ownerMap receiver = some a → A a) :
    sup_Moves A s.bank (grant s creator receiver amt period).1.bank 0 := by
  unfold grant
  have h1 : sup_Moves A s.bank (grantCreate s creator receiver).1.bank 0 := by
    unfold grantCreate
    split
    · exact sup_Moves.refl _ _
    · exact sup_createKeeper_moves s creator receiver [] hc hn
  have hown : ∀ a, (grantCreate s creator receiver).1.ownerMap receiver = some a → A a := by
    intro a
    unfold grantCreate
    split
    · exact ha a
    · intro h
      rcases sup_createKeeper_owner s creator receiver [] a h with h | h
      · exact ha a h
      · rw [h]; exact hn
  split
  · rename_i s1 e1
    rw [e1] at h1 hown
    split
    · have h2 := sup_topUpKeeper_moves (A := A) s1 poolAcct receiver [(s.now + period, amt)] hp hown
      split
      · rename_i s2 e2
        rw [e2] at h2
        exact h1.trans0 h2
      · exact sup_Moves.refl _ _
    · exact h1
  · exact sup_Moves.refl _ _

theorem sup_step_moves (s : State) (op : Op) :
    sup_Moves (· ∈ sup_touch s op) s.bank (step s op).1.bank (sup_fundAmt op) := by
  cases op with
  | advance dt => exact sup_Moves.refl _ _
  | params w d => exact sup_Moves.refl _ _
  | fund a v =>
    simp only [step, fund, sup_fundAmt]
    split
    · exact sup_Moves.refl _ _
    · exact sup_Moves.mint s.bank a v (by omega) (by simp [sup_touch])
  | send f t v =>
    simp only [step, bankSend, sup_fundAmt]
    split
    · exact sup_Moves.refl _ _
    · rename_i hs
      exact sup_send_moves hs (by simp [sup_touch]) (by simp [sup_touch])
  | create c o ls =>
    simp only [step, create, sup_fundAmt]
    split
    · exact sup_Moves.refl _ _
    · exact sup_createKeeper_moves s c o ls (by simp [sup_touch]) (by simp [sup_touch])
  | topUp c o ls =>
    simp only [step, topUp, sup_fundAmt]
    split
    · exact sup_Moves.refl _ _
    · exact sup_topUpKeeper_moves s c o ls (by simp [sup_touch])
        (fun a h => by simp [sup_touch, sup_mem_optL h])
  | withdrawUnlocked o =>
    simp only [step, withdrawUnlocked, sup_fundAmt]
    split
    · exact sup_Moves.refl _ _
    · rename_i a h
      exact sup_withdrawUnlockedAt_moves s a o (by simp [sup_touch, sup_mem_optL h]) (by simp [sup_touch])
  | grant c r amt p =>
    exact sup_grant_moves s c r amt p (by simp [sup_touch]) (by simp [sup_touch]) (by simp [sup_touch])
      (fun a h => by simp [sup_touch, sup_mem_optL h])
  | wager o m sb x =>
    exact sup_wager_moves s o m sb x (by simp [sup_touch]) (fun a h => by simp [sup_touch, sup_mem_optL h])
      (by simp [sup_touch])
  | houseDeposit o amt x =>
    exact sup_houseDeposit_moves s o amt x (fun a h => by simp [sup_touch, sup_mem_optL h]) (by simp [sup_touch])
  | houseWithdraw o x =>
    exact sup_houseWithdraw_moves s o x (fun a h => by simp [sup_touch, sup_mem_optL h]) (by simp [sup_touch])
  | settle k h r x y =>
    exact sup_settle_moves s k h r x y (by simp [sup_touch]) (by simp [sup_touch])
      (fun o ho => by simp [sup_touch, sup_mem_optL ho])

theorem sup_run_moves (ops : List Op) :
    ∀ s : State, sup_Moves (· ∈ sup_touchRun s ops) s.bank (run s ops).bank (sup_fundRun ops) := by
  induction ops with
  | nil => intro s; exact sup_Moves.refl _ _
  | cons op rest ih =>
    intro s
    show sup_Moves _ s.bank (run (step s op).1 rest).bank (sup_fundAmt op + sup_fundRun rest)
    have h1 := (sup_step_moves s op).mono (A' := (· ∈ sup_touchRun s (op :: rest)))
      (fun a ha => by simp only [sup_touchRun, List.mem_append]; exact Or.inl ha)
    have h2 := (ih (step s op).1).mono (A' := (· ∈ sup_touchRun s (op :: rest)))
      (fun a ha => by simp only [sup_touchRun, List.mem_append]; exact Or.inr ha)
    exact h1.trans h2

/-- a history without `fund` brings nothing in from outside -/
theorem sup_fundRun_zero (ops : List Op) (h : ∀ op ∈ ops, ∀ a v, op ≠ .fund a v) : sup_fundRun ops = 0 := by
  induction ops with
  | nil => rfl
  | cons op rest ih =>
    have h1 : sup_fundAmt op = 0 := by
      cases op with
      | fund a v => exact absurd rfl (h _ (List.mem_cons_self ..) a v)
      | _ => rfl
    simp only [sup_fundRun, h1, ih (fun o ho => h o (List.mem_cons_of_mem _ ho))]
    rfl

end Sge.Subaccount
