/-
  The block-level balance equation (SgeProofs/Lemmas/BlockPay.lean) with closed formulas: the move of a bet settled by
  the block read off its recorded result, the move of a participation paid by the block as the sums over the bet
  records used by `c04_payout`. The link is the trace of the end-block: every record settled / paid by the block was
  written by one witnessed `Settle` / `settleParticipation` call (`BpSettledAt`, `PaidAt`).
-/
import SgeProofs.Lemmas.BlockPay
import SgeProofs.Properties.C03Sums
import SgeProofs.Properties.C04Sums
namespace Sge.Core
open Sge Sge.Genesis

/-- an end-block that does not halt is a successful run of the two end-blockers -/
theorem c4b_step_endBlock {s : State} (h : (step s .endBlock).2 ≠ .halt) : endBlockO s = some (step s .endBlock).1 := by
  simp only [step, endBlock] at h ⊢
  cases e : endBlockO s with
  | none => rw [e] at h; exact absurd rfl h
  | some s' => rfl

theorem c4b_step_of_endBlockO {s s' : State} (h : endBlockO s = some s') : (step s .endBlock).1 = s' := by
  simp only [step, endBlock, h]

-- ---------------------------------------------------------------------------------------------
-- closed formulas

/-- bet record `x` is settled now and was stored unsettled in `s`: settled by this block -/
def c4b_settledNow (s : State) (x : Bet) : Bool := x.status == BS_SETTLED && c4b_openAt s.bets (Bet.key x)

/-- participation record `q` of book `u` is paid now and was stored unpaid in `s`: paid by this block -/
def c4b_paidNow (s : State) (u : Nat) (q : Part) : Bool := q.isSettled && c4b_unpaidAt s.books u q.idx

/-- what the pool paid the bettor of the settled bet `x`, by its recorded result -/
def c4b_betPaid (x : Bet) : Int :=
  if x.result = BR_WON then sumBet x.fulfs + sumProfit x.fulfs else if x.result = BR_REFUNDED then x.amount else 0

/-- the share of account `a` in the settlement of bet `x` on a market created by `mc` -/
def c4b_betShare (a mc : Nat) (x : Bet) : Int :=
  (if a = x.creator then c4b_betPaid x else 0) + (if a = (if x.result = BR_REFUNDED then x.creator else mc) then x.fee else 0)
  - (if a = ACC_POOL then c4b_betPaid x else 0) - (if a = ACC_BETFEE then x.fee else 0)

/-- what the pool paid the depositor of participation `q` of market `u`, over the bet records `bets` -/
def c4b_partPaid (bets : List Bet) (u : Nat) (m : Market) (q : Part) : Int :=
  if m.status = MS_DECLARED then q.liq + lostStakeOn bets u q.idx - wonProfitOn bets u q.idx else q.liq

/-- who received the participation fee -/
def c4b_partFeeTo (bets : List Bet) (u : Nat) (m : Market) (q : Part) : Nat :=
  if m.status ≠ MS_DECLARED ∨ stakedOn bets u q.idx = 0 then q.addr else m.creator

/-- the share of account `a` in the payment of participation `q` of market `u` -/
def c4b_partShare (a : Nat) (bets : List Bet) (u : Nat) (m : Market) (q : Part) : Int :=
  (if a = q.addr then c4b_partPaid bets u m q else 0) + (if a = c4b_partFeeTo bets u m q then q.fee else 0)
  - (if a = ACC_POOL then c4b_partPaid bets u m q else 0) - (if a = ACC_HOUSEFEE then q.fee else 0)

/-- the record `Settle` writes carries its own amounts: the move of the call is the share read off the record -/
theorem c4b_betMove_closed (a : Nat) (m : Market) (b0 : Bet) (h : Nat) :
    c4b_betMove a m (bpSettledRec m b0 h) = c4b_betShare a m.creator (bpSettledRec m b0 h) := by
  unfold c4b_betMove c4b_betShare c4b_betPaid bpPay bpFeeTo bpSettledRec bpResult
  cases hr : bpRefund m <;> cases hc : m.winners.contains b0.odds <;>
    simp [BR_WON, BR_LOST, BR_REFUNDED]

theorem c4b_betShare_no_role (a mc : Nat) (x : Bet) (h1 : a ≠ x.creator) (h2 : a ≠ mc) (h3 : a ≠ ACC_POOL)
    (h4 : a ≠ ACC_BETFEE) : c4b_betShare a mc x = 0 := by
  unfold c4b_betShare
  rw [if_neg h1, if_neg h3, if_neg h4]
  split <;> first | rfl | (rw [if_neg h1]; rfl) | (rw [if_neg h2]; rfl)

theorem c4b_partShare_no_role (a : Nat) (bets : List Bet) (u : Nat) (m : Market) (q : Part) (h1 : a ≠ q.addr)
    (h2 : a ≠ m.creator) (h3 : a ≠ ACC_POOL) (h4 : a ≠ ACC_HOUSEFEE) : c4b_partShare a bets u m q = 0 := by
  unfold c4b_partShare c4b_partFeeTo
  rw [if_neg h1, if_neg h3, if_neg h4]
  split <;> first | rfl | (rw [if_neg h1]; rfl) | (rw [if_neg h2]; rfl)

/-- the move of a witnessed payment, in closed form -/
theorem c4b_partMove_closed (a : Nat) (bets : List Bet) (u : Nat) (m : Market) (p0 : Part)
    (c4 : p0.payout m = payAmount bets u m p0)
    (c5 : p0.feeToDepositor m = true ↔ (m.status ≠ MS_DECLARED ∨ backedStake bets u p0.idx = 0)) :
    c4b_partMove a m (p0.paidRec m) = c4b_partShare a bets u m (p0.paidRec m) := by
  obtain ⟨f1, f2, f3, f4, _⟩ := p0.paidRec_fields m
  have hpay : p0.payout m = c4b_partPaid bets u m (p0.paidRec m) := by
    rw [c4]
    unfold payAmount c4b_partPaid
    rw [f1, f3, c04s_lostStakes_eq, c04s_wonProfits_eq]
  have hdest : feeDest p0 m = c4b_partFeeTo bets u m (p0.paidRec m) := by
    unfold feeDest c4b_partFeeTo
    rw [f1, f2, ← c04s_backedStake_eq]
    by_cases hc : p0.feeToDepositor m = true
    · rw [if_pos hc, if_pos (c5.mp hc)]
    · rw [if_neg hc, if_neg (fun x => hc (c5.mpr x))]
  rw [c4b_partMove_paidRec]
  unfold c4b_partMove c4b_partShare
  rw [← hpay, ← hdest, f2, f4]

-- ---------------------------------------------------------------------------------------------
-- the two sums of the block equation, in closed form

/-- the bet sum: over the bets settled by this block, the share read off the settled record -/
theorem c4b_bets_closed {s s' : State} (_hA : RetAll s) (hI : BetIdx s) (h : endBlockO s = some s') (a : Nat) :
    sumBy (c4b_betTerm a s.markets (c4b_openAt s.bets)) s'.bets =
      sumBy (fun x => match getMarket s x.market with
          | some m => c4b_betShare a m.creator x
          | none => 0) (s'.bets.filter (c4b_settledNow s)) := by
  have hT := bp_endBlockO_trace hI h
  have e : ∀ (g : Bet → Int), sumBy g (s'.bets.filter (c4b_settledNow s))
      = sumBy (fun x => if c4b_settledNow s x then g x else 0) s'.bets := by
    intro g
    rw [sumBy_filter]
    rfl
  rw [e]
  apply sumBy_congr
  intro x hx
  unfold c4b_betTerm
  show (if c4b_settledNow s x = true then _ else 0) = _
  by_cases hc : c4b_settledNow s x = true
  · rw [if_pos hc, if_pos hc]
    unfold c4b_settledNow at hc
    simp only [Bool.and_eq_true, beq_iff_eq] at hc
    obtain ⟨hst, hopen⟩ := hc
    rcases hT.origin x hx with hin | ⟨b0, hb0, _, τ, τ', m', hIτ, hmkτ, _, hb0τ, _, _, hgm, hrec, _⟩
    · exfalso
      unfold c4b_openAt at hopen
      rw [lookup_of_mem_sorted Bet.key x s.bets hI.sBets hin] at hopen
      simp [hst] at hopen
    · have hmk : x.market = b0.market := by rw [hrec]; rfl
      have hgm' : getMarket s x.market = some m' := by
        rw [hmk]
        unfold getMarket at hgm ⊢
        rw [← hmkτ]; exact hgm
      have hgm'' : lookup Market.key [x.market] s.markets = some m' := hgm'
      rw [hgm', hgm'']
      simp only
      rw [hrec]
      exact c4b_betMove_closed a m' b0 s.height
  · rw [if_neg hc, if_neg hc]

/-- the participation sum: over the participations paid by this block, the share in the closed form of `c04_payout` -/
theorem c4b_books_closed {s s' : State} (hA : RetAll s) (_hI : BetIdx s) (h : endBlockO s = some s') (a : Nat) :
    sumBy (c4b_bookTerm a s.markets (c4b_unpaidAt s.books)) s'.books =
      sumBy (fun b => match getMarket s b.uid with
          | some m => sumBy (c4b_partShare a s'.bets b.uid m) (b.parts.filter (c4b_paidNow s b.uid))
          | none => 0) s'.books := by
  have hs' := c4b_step_of_endBlockO h
  apply sumBy_congr
  intro b hb
  unfold c4b_bookTerm
  have hgm0 : lookup Market.key [b.uid] s.markets = getMarket s b.uid := rfl
  rw [hgm0]
  cases hm : getMarket s b.uid with
  | none =>
    simp only
    apply sumBy_zeroQ
    intro q _
    unfold c4b_partTerm
    split <;> rfl
  | some m =>
    simp only
    have e : ∀ (g : Part → Int), sumBy g (b.parts.filter (c4b_paidNow s b.uid))
        = sumBy (fun q => if c4b_paidNow s b.uid q then g q else 0) b.parts := by
      intro g
      rw [sumBy_filter]
      rfl
    rw [e]
    apply sumBy_congr
    intro q hq
    unfold c4b_partTerm
    show (if c4b_paidNow s b.uid q = true then _ else 0) = _
    by_cases hc : c4b_paidNow s b.uid q = true
    · rw [if_pos hc, if_pos hc]
      simp only
      unfold c4b_paidNow at hc
      simp only [Bool.and_eq_true] at hc
      obtain ⟨hpaid, hun⟩ := hc
      unfold c4b_unpaidAt at hun
      cases hl : lookup Book.key [b.uid] s.books with
      | none => rw [hl] at hun; cases hun
      | some b0 =>
        rw [hl] at hun
        simp only at hun
        cases hg : b0.getPart q.idx with
        | none => rw [hg] at hun; cases hun
        | some pt =>
          rw [hg] at hun
          simp only [Bool.not_eq_true'] at hun
          obtain ⟨hb0, hk0⟩ := lookup_memQ hl
          have hu0 : b0.uid = b.uid := by simpa [Book.key] using hk0
          obtain ⟨hpt, hpi⟩ := Book.getPart_mem hg
          have hb' : b ∈ (step s .endBlock).1.books := by rw [hs']; exact hb
          obtain ⟨_, p0, _, hP⟩ := step_paid s .endBlock hA trivial b0 hb0 pt hpt hun b hb' hu0.symm q hq hpi.symm hpaid
          rw [hs'] at hP
          obtain ⟨t, _, m', _, _, e2, e3, _, e5, _, _, _, c4, c5, _⟩ := ret_paidAt_exact hP
          have : m' = m := by
            unfold getMarket at e3 hm
            rw [e2, hu0, hm] at e3
            cases e3; rfl
          subst this
          rw [e5, ← hu0]
          exact c4b_partMove_closed a s'.bets b0.uid m' p0 c4 c5
    · rw [if_neg hc, if_neg hc]

-- ---------------------------------------------------------------------------------------------
-- the block equation as a difference, in both forms, and the account without a role

theorem c4b_endBlockO_diff {s s' : State} (hA : RetAll s) (hI : BetIdx s) (h : endBlockO s = some s') (a : Nat) :
    getBal s'.bal a - getBal s.bal a =
      sumBy (c4b_betTerm a s.markets (c4b_openAt s.bets)) s'.bets
      + sumBy (c4b_bookTerm a s.markets (c4b_unpaidAt s.books)) s'.books := by
  have := c4b_endBlockO_bal hA hI h a
  omega

theorem c4b_endBlockO_diff_closed {s s' : State} (hA : RetAll s) (hI : BetIdx s) (h : endBlockO s = some s') (a : Nat) :
    getBal s'.bal a - getBal s.bal a =
      sumBy (fun x => match getMarket s x.market with
          | some m => c4b_betShare a m.creator x
          | none => 0) (s'.bets.filter (c4b_settledNow s))
      + sumBy (fun b => match getMarket s b.uid with
          | some m => sumBy (c4b_partShare a s'.bets b.uid m) (b.parts.filter (c4b_paidNow s b.uid))
          | none => 0) s'.books := by
  rw [← c4b_bets_closed hA hI h a, ← c4b_books_closed hA hI h a]
  exact c4b_endBlockO_diff hA hI h a

theorem c4b_endBlockO_no_role {s s' : State} (hA : RetAll s) (hI : BetIdx s) (h : endBlockO s = some s') (a : Nat)
    (hmod : isModuleAcc a = false)
    (hbets : ∀ x ∈ s'.bets, c4b_settledNow s x = true →
        a ≠ x.creator ∧ ∀ m, getMarket s x.market = some m → a ≠ m.creator)
    (hparts : ∀ b ∈ s'.books, ∀ q ∈ b.parts, c4b_paidNow s b.uid q = true →
        a ≠ q.addr ∧ ∀ m, getMarket s b.uid = some m → a ≠ m.creator) :
    getBal s'.bal a = getBal s.bal a := by
  have e := c4b_endBlockO_diff_closed hA hI h a
  obtain ⟨n1, n2, n3⟩ := isModuleAcc_false_ne hmod
  rw [sumBy_zeroQ, sumBy_zeroQ] at e
  · omega
  · intro b hb
    cases hm : getMarket s b.uid with
    | none => rfl
    | some m =>
      simp only
      apply sumBy_zeroQ
      intro q hq
      rw [List.mem_filter] at hq
      obtain ⟨r1, r2⟩ := hparts b hb q hq.1 hq.2
      exact c4b_partShare_no_role a _ b.uid m q r1 (r2 m hm) n1 n3
  · intro x hx
    rw [List.mem_filter] at hx
    cases hm : getMarket s x.market with
    | none => rfl
    | some m =>
      simp only
      obtain ⟨r1, r2⟩ := hbets x hx.1 hx.2
      exact c4b_betShare_no_role a m.creator x r1 (r2 m hm) n1 n2

-- ---------------------------------------------------------------------------------------------
-- "settled / paid by this block" in terms of the records of the two states

/-- a bet record of the new state is "settled by this block" iff it is settled and the record with the same id in
    the old state is not -/
theorem c4b_settledNow_iff {s s' : State} (hI : BetIdx s) (h : endBlockO s = some s') (x : Bet) (hx : x ∈ s'.bets) :
    c4b_settledNow s x = true ↔ x.status = BS_SETTLED ∧ ∃ y ∈ s.bets, y.id = x.id ∧ y.status ≠ BS_SETTLED := by
  unfold c4b_settledNow c4b_openAt
  simp only [Bool.and_eq_true, beq_iff_eq]
  constructor
  · rintro ⟨hst, hop⟩
    refine ⟨hst, ?_⟩
    cases hl : lookup Bet.key (Bet.key x) s.bets with
    | none => rw [hl] at hop; cases hop
    | some y =>
      rw [hl] at hop
      obtain ⟨hy, hk⟩ := lookup_memQ hl
      refine ⟨y, hy, ?_, by simpa using hop⟩
      simp only [Bet.key, List.cons.injEq, and_true] at hk
      exact hk.2
  · rintro ⟨hst, y, hy, hid, hns⟩
    refine ⟨hst, ?_⟩
    have hkey : Bet.key x = Bet.key y := by
      rcases (endBlockO_good hI h).2.origin x hx with hin | ⟨b0, hb0, _, res, e⟩
      · have := hI.idInj x hin y hy hid.symm
        rw [this] at hst
        exact absurd hst hns
      · have hb : b0 = y := hI.idInj b0 hb0 y hy (by rw [hid, e])
        rw [e, hb]
        rfl
    rw [hkey, lookup_of_mem_sorted Bet.key y s.bets hI.sBets hy]
    simpa using hns

/-- a participation record of a book of the new state is "paid by this block" iff it is paid and the record with
    the same index in the book with the same uid of the old state is not -/
theorem c4b_paidNow_iff {s : State} (hA : RetAll s) (u : Nat) (q : Part) :
    c4b_paidNow s u q = true ↔
      q.isSettled = true ∧ ∃ b0 ∈ s.books, b0.uid = u ∧ ∃ pt ∈ b0.parts, pt.idx = q.idx ∧ pt.isSettled = false := by
  unfold c4b_paidNow c4b_unpaidAt
  simp only [Bool.and_eq_true]
  constructor
  · rintro ⟨hp, hun⟩
    refine ⟨hp, ?_⟩
    cases hl : lookup Book.key [u] s.books with
    | none => rw [hl] at hun; cases hun
    | some b0 =>
      rw [hl] at hun
      simp only at hun
      cases hg : b0.getPart q.idx with
      | none => rw [hg] at hun; cases hun
      | some pt =>
        rw [hg] at hun
        obtain ⟨hb0, hk0⟩ := lookup_memQ hl
        obtain ⟨hpt, hpi⟩ := Book.getPart_mem hg
        exact ⟨b0, hb0, by simpa [Book.key] using hk0, pt, hpt, hpi, by simpa using hun⟩
  · rintro ⟨hp, b0, hb0, hu, pt, hpt, hpi, hun⟩
    refine ⟨hp, ?_⟩
    have hl : lookup Book.key [u] s.books = some b0 := by
      have := mem_getBook hA.ob.sB hb0
      unfold getBook at this
      rw [← hu]; exact this
    have hg : b0.getPart q.idx = some pt := by
      rw [← hpi]; exact Book.mem_getPart (hA.sortedParts b0 hb0) hpt
    rw [hl]
    simp only
    rw [hg]
    simp [hun]

-- ---------------------------------------------------------------------------------------------
-- a user account only receives

/-- what a user account receives from the settlement of bet `x`: the payment as bettor, the fee as its receiver -/
def c4b_betCredit (a mc : Nat) (x : Bet) : Int :=
  (if a = x.creator then c4b_betPaid x else 0) + (if a = (if x.result = BR_REFUNDED then x.creator else mc) then x.fee else 0)

/-- what a user account receives from the payment of participation `q`: the payment as depositor, the fee as its
    receiver (depositor or market creator) -/
def c4b_partCredit (a : Nat) (bets : List Bet) (u : Nat) (m : Market) (q : Part) : Int :=
  (if a = q.addr then c4b_partPaid bets u m q else 0) + (if a = c4b_partFeeTo bets u m q then q.fee else 0)

theorem c4b_betShare_user (a mc : Nat) (x : Bet) (h3 : a ≠ ACC_POOL) (h4 : a ≠ ACC_BETFEE) :
    c4b_betShare a mc x = c4b_betCredit a mc x := by
  unfold c4b_betShare c4b_betCredit
  rw [if_neg h3, if_neg h4]
  omega

theorem c4b_partShare_user (a : Nat) (bets : List Bet) (u : Nat) (m : Market) (q : Part) (h3 : a ≠ ACC_POOL)
    (h4 : a ≠ ACC_HOUSEFEE) : c4b_partShare a bets u m q = c4b_partCredit a bets u m q := by
  unfold c4b_partShare c4b_partCredit
  rw [if_neg h3, if_neg h4]
  omega

theorem c4b_endBlockO_user {s s' : State} (hA : RetAll s) (hI : BetIdx s) (h : endBlockO s = some s') (a : Nat)
    (hmod : isModuleAcc a = false) :
    getBal s'.bal a - getBal s.bal a =
      sumBy (fun x => match getMarket s x.market with
          | some m => c4b_betCredit a m.creator x
          | none => 0) (s'.bets.filter (c4b_settledNow s))
      + sumBy (fun b => match getMarket s b.uid with
          | some m => sumBy (c4b_partCredit a s'.bets b.uid m) (b.parts.filter (c4b_paidNow s b.uid))
          | none => 0) s'.books := by
  obtain ⟨n1, n2, n3⟩ := isModuleAcc_false_ne hmod
  rw [c4b_endBlockO_diff_closed hA hI h a]
  have e1 : ∀ x ∈ s'.bets.filter (c4b_settledNow s),
      (match getMarket s x.market with | some m => c4b_betShare a m.creator x | none => 0)
      = (match getMarket s x.market with | some m => c4b_betCredit a m.creator x | none => 0) := by
    intro x _
    cases getMarket s x.market with
    | none => rfl
    | some m => exact c4b_betShare_user a m.creator x n1 n2
  have e2 : ∀ b ∈ s'.books,
      (match getMarket s b.uid with
        | some m => sumBy (c4b_partShare a s'.bets b.uid m) (b.parts.filter (c4b_paidNow s b.uid)) | none => 0)
      = (match getMarket s b.uid with
        | some m => sumBy (c4b_partCredit a s'.bets b.uid m) (b.parts.filter (c4b_paidNow s b.uid)) | none => 0) := by
    intro b _
    cases getMarket s b.uid with
    | none => rfl
    | some m =>
      simp only
      exact sumBy_congr _ _ _ (fun q _ => c4b_partShare_user a s'.bets b.uid m q n1 n3)
  rw [sumBy_congr _ _ _ e1, sumBy_congr _ _ _ e2]

end Sge.Core
