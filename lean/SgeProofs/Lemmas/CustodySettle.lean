/- the settling end-blocks preserve the custody invariant bundle `SettleInv` -/
import SgeProofs.Lemmas.CustodySettleDefs
namespace Sge.Core
open Sge Sge.Genesis

-- ---------------------------------------------------------------------------------------------
-- bet settlement on the book: BettorWins / BettorLoses

/-- rewriting the realised profit of an unpaid participation moves what the book owes by exactly the difference -/
theorem setPart_profit (b : Book) (p : Part) (i : Nat) (v : Int) (hs : Sorted Part.key b.parts)
    (hp : b.getPart i = some p) (hu : p.isSettled = false) :
    (b.setPart { p with actualProfit := v }).owed = b.owed - p.actualProfit + v ∧
    (b.setPart { p with actualProfit := v }).owedFee = b.owedFee ∧
    Sorted Part.key (b.setPart { p with actualProfit := v }).parts ∧
    (∀ q ∈ (b.setPart { p with actualProfit := v }).parts, q = { p with actualProfit := v } ∨ q ∈ b.parts) := by
  have hpi := Book.getPart_idx hp
  have hq' : lookup Part.key (Part.key { p with actualProfit := v }) b.parts = some p := by
    show lookup Part.key [p.idx] b.parts = some p
    rw [hpi]; exact hp
  refine ⟨?_, ?_, upsert_sorted Part.key _ b.parts hs, fun q hq => mem_upsert_or Part.key _ q b.parts hq⟩
  · unfold Book.owed Book.setPart
    simp only
    rw [sumBy_upsert Part.key _ _ b.parts hs, hq']
    simp only [Part.owed, hu]
    simp only [Bool.false_eq_true, if_false]
    omega
  · unfold Book.owedFee Book.setPart
    simp only
    rw [sumBy_upsert Part.key _ _ b.parts hs, hq']
    simp only [Part.owedFee, hu]
    omega

/-- BettorLoses: the stakes of the bet become realised profit of the backing participations -/
theorem bettorLoses_spec : ∀ (fs : List Fulf) (b b' : Book), bettorLoses b fs = some b' →
    Sorted Part.key b.parts → (∀ p ∈ b.parts, p.isSettled = false) →
    b'.uid = b.uid ∧ b'.status = b.status ∧ Sorted Part.key b'.parts ∧ (∀ p ∈ b'.parts, p.isSettled = false) ∧
    b'.owed = b.owed + sumBet fs ∧ b'.owedFee = b.owedFee ∧ (∀ q ∈ b'.parts, ∃ q0 ∈ b.parts, q.addr = q0.addr) := by
  intro fs
  induction fs with
  | nil =>
    intro b b' h hs hu
    simp only [bettorLoses, Option.some.injEq] at h
    subst h
    exact ⟨rfl, rfl, hs, hu, by simp [sumBet], rfl, fun q hq => ⟨q, hq, rfl⟩⟩
  | cons f rest ih =>
    intro b b' h hs hu
    unfold bettorLoses at h
    simp only [bind, Option.bind_eq_some_iff] at h
    obtain ⟨p, hp, h⟩ := h
    have hpm : p ∈ b.parts := getPart_mem hp
    obtain ⟨e1, e2, e3, e4⟩ := setPart_profit b p f.idx (p.actualProfit + f.bet) hs hp (hu p hpm)
    have hu1 : ∀ q ∈ (b.setPart { p with actualProfit := p.actualProfit + f.bet }).parts, q.isSettled = false := by
      intro q hq
      rcases e4 q hq with rfl | hq
      · exact hu p hpm
      · exact hu q hq
    obtain ⟨a1, a2, a3, a4, a5, a6, a7⟩ := ih _ _ h e3 hu1
    refine ⟨a1, a2, a3, a4, ?_, a6.trans e2, ?_⟩
    · rw [a5, e1]
      simp only [sumBet, List.map_cons, List.sum_cons]
      omega
    · intro q hq
      obtain ⟨q1, hq1, ha⟩ := a7 q hq
      rcases e4 q1 hq1 with rfl | hq1
      · exact ⟨p, hpm, ha⟩
      · exact ⟨q1, hq1, ha⟩

/-- BettorWins: the pool pays stake + profit of every part; the promised profits become realised losses of the
    backing participations -/
theorem bettorWins_spec (bettor : Nat) (hbu : isModuleAcc bettor = false) :
    ∀ (fs : List Fulf) (bal : List (Nat × Int)) (b : Book) (r : List (Nat × Int) × Book),
    bettorWins bal bettor b fs = some r →
    Sorted Part.key b.parts → (∀ p ∈ b.parts, p.isSettled = false) →
    r.2.uid = b.uid ∧ r.2.status = b.status ∧ Sorted Part.key r.2.parts ∧ (∀ p ∈ r.2.parts, p.isSettled = false) ∧
    r.2.owed = b.owed - sumProfit fs ∧ r.2.owedFee = b.owedFee ∧ (∀ q ∈ r.2.parts, ∃ q0 ∈ b.parts, q.addr = q0.addr) ∧
    getBal r.1 ACC_POOL = getBal bal ACC_POOL - sumBet fs - sumProfit fs ∧
    getBal r.1 ACC_BETFEE = getBal bal ACC_BETFEE ∧ getBal r.1 ACC_HOUSEFEE = getBal bal ACC_HOUSEFEE := by
  obtain ⟨hne1, hne2, hne3⟩ := isModuleAcc_false_ne hbu
  intro fs
  induction fs with
  | nil =>
    intro bal b r h hs hu
    simp only [bettorWins, Option.some.injEq] at h
    subst h
    exact ⟨rfl, rfl, hs, hu, by simp [sumProfit], rfl, fun q hq => ⟨q, hq, rfl⟩, by simp [sumBet, sumProfit], rfl, rfl⟩
  | cons f rest ih =>
    intro bal b r h hs hu
    unfold bettorWins at h
    simp only [bind, Option.bind_eq_some_iff] at h
    obtain ⟨p, hp, bal', ht, h⟩ := h
    have hpm : p ∈ b.parts := getPart_mem hp
    obtain ⟨e1, e2, e3, e4⟩ := setPart_profit b p f.idx (p.actualProfit - f.profit) hs hp (hu p hpm)
    have hu1 : ∀ q ∈ (b.setPart { p with actualProfit := p.actualProfit - f.profit }).parts, q.isSettled = false := by
      intro q hq
      rcases e4 q hq with rfl | hq
      · exact hu p hpm
      · exact hu q hq
    obtain ⟨_, t1, _, t3⟩ := transfer_spec ht (Ne.symm hne1)
    obtain ⟨a1, a2, a3, a4, a5, a6, a7, a8, a9, a10⟩ := ih _ _ _ h e3 hu1
    refine ⟨a1, a2, a3, a4, ?_, a6.trans e2, ?_, ?_, ?_, ?_⟩
    · rw [a5, e1]
      simp only [sumProfit, List.map_cons, List.sum_cons]
      omega
    · intro q hq
      obtain ⟨q1, hq1, ha⟩ := a7 q hq
      rcases e4 q1 hq1 with rfl | hq1
      · exact ⟨p, hpm, ha⟩
      · exact ⟨q1, hq1, ha⟩
    · rw [a8, t1]
      simp only [sumBet, sumProfit, List.map_cons, List.sum_cons]
      omega
    · rw [a9]; exact t3 _ (by decide) (Ne.symm hne2)
    · rw [a10]; exact t3 _ (by decide) (Ne.symm hne3)

/-- settleResolved on the book of an open bet: whatever the outcome, pool balance minus what the book owes drops by
    exactly the stake of the bet; the fee collectors and the fees owed are untouched -/
theorem settleOutcome_spec {bal : List (Nat × Int)} {won : Bool} {bettor : Nat} {b : Book} {fs : List Fulf}
    {r : List (Nat × Int) × Book} (hbu : isModuleAcc bettor = false) (h : settleOutcome bal won bettor b fs = some r)
    (hs : Sorted Part.key b.parts) (hu : ∀ p ∈ b.parts, p.isSettled = false) :
    r.2.uid = b.uid ∧ r.2.status = b.status ∧ Sorted Part.key r.2.parts ∧ (∀ p ∈ r.2.parts, p.isSettled = false) ∧
    r.2.owedFee = b.owedFee ∧ (∀ q ∈ r.2.parts, ∃ q0 ∈ b.parts, q.addr = q0.addr) ∧
    getBal r.1 ACC_POOL - r.2.owed = getBal bal ACC_POOL - b.owed - sumBet fs ∧
    getBal r.1 ACC_BETFEE = getBal bal ACC_BETFEE ∧ getBal r.1 ACC_HOUSEFEE = getBal bal ACC_HOUSEFEE := by
  unfold settleOutcome at h
  split at h
  · obtain ⟨a1, a2, a3, a4, a5, a6, a7, a8, a9, a10⟩ := bettorWins_spec bettor hbu _ _ _ _ h hs hu
    exact ⟨a1, a2, a3, a4, a6, a7, by omega, a9, a10⟩
  · simp only [Option.map_eq_some_iff] at h
    obtain ⟨b', hb', rfl⟩ := h
    obtain ⟨a1, a2, a3, a4, a5, a6, a7⟩ := bettorLoses_spec _ _ _ hb' hs hu
    exact ⟨a1, a2, a3, a4, a6, a7, by show getBal bal ACC_POOL - b'.owed = _; omega, rfl, rfl⟩

-- ---------------------------------------------------------------------------------------------
-- replacing the book of a market whose bets are all settled

/-- the book of a resolved market without open bets is replaced by a non-active copy whose participations keep
    address and realised profit, while pool / house-fee balances move by exactly the change of what the book owes;
    the market queue may shrink -/
theorem SettleInv.replaceBook {s s' : State} {b B : Book} (hI : SettleInv s) (hb : getBook s B.uid = some b)
    (hbooks : s'.books = upsert Book.key B s.books) (hbets : s'.bets = s.bets) (hpend : s'.pending = s.pending)
    (hmk : s'.markets = s.markets) (hq : ∀ u ∈ s'.mqueue, u ∈ s.mqueue) (hc : s'.betCount = s.betCount)
    (hsort : Sorted Part.key B.parts)
    (hparts : ∀ q ∈ B.parts, ∃ q0 ∈ b.parts, q.addr = q0.addr ∧ q.actualProfit = q0.actualProfit)
    (hst : B.status ≠ OB_ACTIVE)
    (hno : ∀ x ∈ s.bets, x.market = B.uid → x.isOpen = false)
    (hres : ∃ m, getMarket s B.uid = some m ∧ m.resolved)
    (hpool : getBal s'.bal ACC_POOL - B.owed = getBal s.bal ACC_POOL - b.owed)
    (hhf : getBal s'.bal ACC_HOUSEFEE - B.owedFee = getBal s.bal ACC_HOUSEFEE - b.owedFee)
    (hbf : getBal s'.bal ACC_BETFEE = getBal s.bal ACC_BETFEE) : SettleInv s' := by
  obtain ⟨⟨⟨c1, c2, c3, hsb, hsp, hsbets, hpu⟩, hids⟩, ⟨k1, k2, k3, k4, k5, k6, k7, k8, k9, k10⟩⟩ := hI
  obtain ⟨hbm, hbu⟩ := getBook_mem hb
  have hg : ∀ u, getMarket s' u = getMarket s u := getMarket_congr hmk
  have hsums := setBook_sums s b B hsb hb
  have hmem : ∀ x ∈ s'.books, x = B ∨ x ∈ s.books := by
    intro x hx
    rw [hbooks] at hx
    exact mem_upsert_or Book.key B x s.books hx
  refine { toCustI := ⟨⟨?_, ?_, ?_, ?_, ?_, ?_, ?_⟩, ?_⟩, toSInv := ⟨?_, ?_, ?_, ?_, ?_, ?_, ?_, ?_, ?_, ?_⟩ }
  · unfold owedPool
    rw [hbooks, hbets]
    have := hsums.1
    unfold setBook at this
    simp only at this
    rw [this]
    unfold owedPool at c1
    omega
  · unfold owedBetFee
    rw [hbets, hbf]
    exact c2
  · unfold owedHouseFee
    rw [hbooks]
    have := hsums.2
    unfold setBook at this
    simp only at this
    rw [this]
    unfold owedHouseFee at c3
    omega
  · rw [hbooks]; exact upsert_sorted Book.key _ s.books hsb
  · intro x hx
    rcases hmem x hx with rfl | hx
    · exact hsort
    · exact hsp x hx
  · rw [hbets]; exact hsbets
  · intro x hx q hq
    rcases hmem x hx with rfl | hx
    · obtain ⟨q0, hq0, e, _⟩ := hparts q hq
      rw [e]; exact hpu b hbm q0 hq0
    · exact hpu x hx q hq
  · rw [hbets, hc]; exact hids
  · rw [hbets, hpend]; exact k1
  · rw [hbets]; exact k2
  · intro x hx hxs y hy hym
    rw [hbets] at hy
    rcases hmem x hx with rfl | hx
    · exact hno y hy hym
    · exact k3 x hx hxs y hy hym
  · intro x hx q hq hqs
    rcases hmem x hx with rfl | hx
    · exact hst
    · exact k4 x hx q hq hqs
  · intro x hx hxs
    rw [hg]
    rcases hmem x hx with rfl | hx
    · exact hres
    · exact k5 x hx hxs
  · intro u hu
    rw [hg]
    exact k6 u (hq u hu)
  · rw [hbets]; exact k7
  · rw [hbets]; exact k8
  · rw [hmk]; exact k9
  · intro x hx q hq hne
    rw [hg]
    rcases hmem x hx with rfl | hx
    · obtain ⟨q0, hq0, _, e⟩ := hparts q hq
      have := k10 b hbm q0 hq0 (by rw [← e]; exact hne)
      rw [hbu] at this
      exact this
    · exact k10 x hx q hq hne

end Sge.Core
