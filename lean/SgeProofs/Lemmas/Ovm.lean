/-
  Lemmas about the x/ovm model (lean/Sge/Ovm.lean): store plumbing, frame lemmas of the three operations,
  the per-iteration and per-block description of the end-blocker, list facts used by the invariants.
-/
import Sge.Ovm
import SgeProofs.Lemmas.OvmMajority
namespace Sge.Ovm

/-! ### list facts -/

theorem perm_cons_eraseIdx {α : Type} : ∀ (l : List α) (i : Nat) (x : α), l[i]? = some x →
    (x :: l.eraseIdx i).Perm l
  | [], i, x, h => by simp at h
  | a :: t, 0, x, h => by
    simp at h; subst h; simp
  | a :: t, i + 1, x, h => by
    simp at h
    have ih := perm_cons_eraseIdx t i x h
    simp only [List.eraseIdx_cons_succ]
    exact (List.Perm.swap a x _).trans (ih.cons a)

theorem nodup_map_of_inj_on {α β : Type} (f : α → β) : ∀ (l : List α),
    (∀ x ∈ l, ∀ y ∈ l, f x = f y → x = y) → l.Nodup → (l.map f).Nodup
  | [], _, _ => by simp
  | a :: t, hinj, hnd => by
    rw [List.nodup_cons] at hnd
    simp only [List.map_cons, List.nodup_cons, List.mem_map, not_exists, not_and]
    refine ⟨?_, nodup_map_of_inj_on f t (fun x hx y hy => hinj x (List.mem_cons_of_mem _ hx) y (List.mem_cons_of_mem _ hy)) hnd.2⟩
    intro y hy hfy
    have := hinj y (List.mem_cons_of_mem _ hy) a (List.mem_cons_self) hfy
    subst this
    exact hnd.1 hy

theorem inj_on_of_nodup_map {α β : Type} (f : α → β) : ∀ (l : List α), (l.map f).Nodup →
    ∀ x ∈ l, ∀ y ∈ l, f x = f y → x = y
  | [], _, x, hx, _, _, _ => by simp at hx
  | a :: t, hnd, x, hx, y, hy, hxy => by
    simp only [List.map_cons, List.nodup_cons, List.mem_map, not_exists, not_and] at hnd
    rcases List.mem_cons.mp hx with rfl | hx'
    · rcases List.mem_cons.mp hy with rfl | hy'
      · rfl
      · exact absurd hxy.symm (hnd.1 y hy')
    · rcases List.mem_cons.mp hy with rfl | hy'
      · exact absurd hxy (hnd.1 x hx')
      · exact inj_on_of_nodup_map f t hnd.2 x hx' y hy' hxy

/-! ### `dedup` (RemoveDuplicateStrs) -/

theorem dedupAux_mem : ∀ (l seen : List Pem) (x : Pem), x ∈ dedupAux seen l → x ∈ l ∧ x ∉ seen
  | [], _, x, h => by simp [dedupAux] at h
  | a :: t, seen, x, h => by
    unfold dedupAux at h
    split at h
    · have := dedupAux_mem t seen x h
      exact ⟨List.mem_cons_of_mem _ this.1, this.2⟩
    · rename_i hc
      rcases List.mem_cons.mp h with rfl | h'
      · refine ⟨List.mem_cons_self, ?_⟩
        simpa using hc
      · have := dedupAux_mem t (a :: seen) x h'
        exact ⟨List.mem_cons_of_mem _ this.1, fun hs => this.2 (List.mem_cons_of_mem _ hs)⟩

theorem dedupAux_nodup : ∀ (l seen : List Pem), (dedupAux seen l).Nodup
  | [], _ => by simp [dedupAux]
  | a :: t, seen => by
    unfold dedupAux
    split
    · exact dedupAux_nodup t seen
    · rw [List.nodup_cons]
      refine ⟨fun h => ?_, dedupAux_nodup t (a :: seen)⟩
      exact (dedupAux_mem t (a :: seen) a h).2 List.mem_cons_self

theorem dedup_nodup (l : List Pem) : (dedup l).Nodup := dedupAux_nodup l []

theorem dedup_subset (l : List Pem) (x : Pem) (h : x ∈ dedup l) : x ∈ l := (dedupAux_mem l [] x h).1

/-! ### proposal store -/

theorem mem_setP : ∀ (l : List Proposal) (p q : Proposal), q ∈ setP l p → q = p ∨ q ∈ l
  | [], p, q, h => by simp [setP] at h; exact Or.inl h
  | a :: t, p, q, h => by
    unfold setP at h
    split at h
    · rcases List.mem_cons.mp h with rfl | h'
      · exact Or.inl rfl
      · exact Or.inr h'
    · split at h
      · rcases List.mem_cons.mp h with rfl | h'
        · exact Or.inl rfl
        · exact Or.inr (List.mem_cons_of_mem _ h')
      · rcases List.mem_cons.mp h with rfl | h'
        · exact Or.inr List.mem_cons_self
        · rcases mem_setP t p q h' with h1 | h1
          · exact Or.inl h1
          · exact Or.inr (List.mem_cons_of_mem _ h1)

theorem self_mem_setP : ∀ (l : List Proposal) (p : Proposal), p ∈ setP l p
  | [], p => by simp [setP]
  | a :: t, p => by
    unfold setP
    split
    · exact List.mem_cons_self
    · split
      · exact List.mem_cons_self
      · exact List.mem_cons_of_mem _ (self_mem_setP t p)

theorem mem_of_getP (l : List Proposal) (id : Nat) (p : Proposal) (h : getP l id = some p) :
    p ∈ l ∧ p.id = id := by
  unfold getP at h
  refine ⟨List.mem_of_find?_eq_some h, ?_⟩
  have := List.find?_some h
  simpa using this

theorem mem_delP (l : List Proposal) (id : Nat) (q : Proposal) (h : q ∈ delP l id) : q ∈ l := by
  unfold delP at h
  exact (List.mem_filter.mp h).1

/-! ### tickets -/

theorem verifies_spec {α : Type} (t : Ticket α) (p : Pem) (h : t.verifies p = true) :
    t.alg = true ∧ ∃ k, decode p = some k ∧ t.signer = some k := by
  unfold Ticket.verifies at h
  simp only [Bool.and_eq_true] at h
  refine ⟨h.1, ?_⟩
  have h2 := h.2
  split at h2
  · rename_i k s hk hs
    exact ⟨k, hk, by simp at h2; rw [hs, h2]⟩
  · simp at h2

/-- what a successful `verifyTicketWithKeyUnmarshal` with a non-empty key list guarantees -/
theorem verifyWith_spec {α : Type} (vault : List Pem) (now : Int) (t : Ticket α) (keys : List Pem) (pl : α)
    (hne : keys ≠ []) (h : verifyWith vault now t keys = some pl) :
    t.format = true ∧ now < t.exp ∧ (∀ k ∈ keys, k ∈ vault) ∧ (∃ k ∈ keys, t.verifies k = true) ∧
      t.payload = some pl := by
  unfold verifyWith at h
  have hkeys : keys.isEmpty = false := by
    cases keys with
    | nil => exact absurd rfl hne
    | cons a b => rfl
  by_cases hf : t.format = true
  · by_cases he : now < t.exp
    · by_cases hr : (keys.all fun k => vault.contains k) = true
      · by_cases hv : (keys.any fun k => t.verifies k) = true
        · simp only [hf, he, hr, hkeys, hv, Bool.not_true, decide_true, Bool.false_eq_true, if_false] at h
          refine ⟨hf, he, ?_, ?_, h⟩
          · intro k hk
            have := List.all_eq_true.mp hr k hk
            simpa using this
          · simpa using hv
        · simp only [hf, he, hr, hkeys, hv, Bool.not_true, decide_true, Bool.false_eq_true, if_false] at h
          simp at h
      · simp only [hf, he, hr, Bool.not_true, decide_true, Bool.false_eq_true, if_false] at h
        simp at h
    · simp [hf, he] at h
  · simp [hf] at h

/-! ### frame lemmas: messages never touch the vault -/

theorem submitMsg_vault (fixed : Bool) (s : State) (now : Int) (c : Nat) (t : Ticket ProposalPayload) :
    (submitMsg fixed s now c t).1.vault = s.vault := by
  unfold submitMsg
  split
  · rfl
  · simp only
    split <;> rfl

theorem voteMsg_vault (fixed : Bool) (s : State) (now : Int) (i : Nat) (t : Ticket VotePayload) :
    (voteMsg fixed s now i t).1.vault = s.vault := by
  unfold voteMsg
  split
  · rfl
  · split
    · rfl
    · split
      · rfl
      · split
        · rfl
        · split <;> rfl

theorem submitMsg_err (fixed : Bool) (s : State) (now : Int) (c : Nat) (t : Ticket ProposalPayload)
    (h : (submitMsg fixed s now c t).2 = false) : (submitMsg fixed s now c t).1 = s := by
  unfold submitMsg at *
  cases hv : verifyWith s.vault now t s.vault with
  | none => rfl
  | some pl =>
    simp only [hv] at h ⊢
    by_cases hp : validPayload fixed (dedup pl.keys) pl.leader = true
    · simp [hp] at h
    · simp [hp]

/-- a successful `SubmitPubkeysChangeProposal` -/
theorem submitMsg_ok (fixed : Bool) (s : State) (now : Int) (c : Nat) (t : Ticket ProposalPayload)
    (h : (submitMsg fixed s now c t).2 = true) :
    ∃ pl, verifyWith s.vault now t s.vault = some pl ∧ validPayload fixed (dedup pl.keys) pl.leader = true ∧
      (submitMsg fixed s now c t).1 =
        { s with active := setP s.active (newProposal (s.count + 1) c (dedup pl.keys) pl.leader now),
                 count := s.count + 1 } := by
  unfold submitMsg at *
  cases hv : verifyWith s.vault now t s.vault with
  | none => simp [hv] at h
  | some pl =>
    simp only [hv] at h ⊢
    by_cases hp : validPayload fixed (dedup pl.keys) pl.leader = true
    · exact ⟨pl, rfl, hp, by simp [hp]⟩
    · simp [hp] at h

theorem voteMsg_err (fixed : Bool) (s : State) (now : Int) (i : Nat) (t : Ticket VotePayload)
    (h : (voteMsg fixed s now i t).2 = false) : (voteMsg fixed s now i t).1 = s := by
  unfold voteMsg at *
  cases h1 : s.vault[i]? with
  | none => rfl
  | some pk =>
    simp only [h1] at h ⊢
    cases h2 : verifyWith s.vault now t [pk] with
    | none => rfl
    | some pl =>
      simp only [h2] at h ⊢
      cases h3 : voteOfNat pl.vote with
      | none => rfl
      | some v =>
        simp only [h3] at h ⊢
        cases h4 : getP s.active pl.proposalId with
        | none => rfl
        | some p =>
          simp only [h4] at h ⊢
          by_cases h5 : alreadyVoted fixed p.votes pk = true
          · simp [h5]
          · simp [h5] at h

/-- a successful `VotePubkeysChange` -/
theorem voteMsg_ok (fixed : Bool) (s : State) (now : Int) (i : Nat) (t : Ticket VotePayload)
    (h : (voteMsg fixed s now i t).2 = true) :
    ∃ pk pl v p, s.vault[i]? = some pk ∧ verifyWith s.vault now t [pk] = some pl ∧
      voteOfNat pl.vote = some v ∧ getP s.active pl.proposalId = some p ∧
      alreadyVoted fixed p.votes pk = false ∧
      (voteMsg fixed s now i t).1 = { s with active := setP s.active (addVote p pk v) } := by
  unfold voteMsg at *
  cases h1 : s.vault[i]? with
  | none => simp [h1] at h
  | some pk =>
    simp only [h1] at h ⊢
    cases h2 : verifyWith s.vault now t [pk] with
    | none => simp [h2] at h
    | some pl =>
      simp only [h2] at h ⊢
      cases h3 : voteOfNat pl.vote with
      | none => simp [h3] at h
      | some v =>
        simp only [h3] at h ⊢
        cases h4 : getP s.active pl.proposalId with
        | none => simp [h4] at h
        | some p =>
          simp only [h4] at h ⊢
          by_cases h5 : alreadyVoted fixed p.votes pk = true
          · simp [h5] at h
          · refine ⟨pk, pl, v, p, ?_, ?_, ?_, ?_, by simpa using h5, by simp [h5]⟩ <;> first | rfl | assumption

/-! ### the end-blocker -/

theorem finish_spec (s : State) (id : Nat) (r : Result) (now : Int) (s' : State)
    (h : finish s id r now = some s') :
    s'.vault = s.vault ∧ s'.count = s.count ∧ s'.active = delP s.active id := by
  unfold finish at h
  split at h
  · simp at h
  · simp at h; subst h; exact ⟨rfl, rfl, rfl⟩

theorem finishStep_spec (s : State) (id : Nat) (r : Result) (now : Int) :
    finishStep s id r now = .abort s ∨
    ∃ s', finishStep s id r now = .cont s' ∧ s'.vault = s.vault ∧ s'.active = delP s.active id := by
  unfold finishStep
  cases h : finish s id r now with
  | none => exact Or.inl rfl
  | some s' => exact Or.inr ⟨s', rfl, (finish_spec s id r now s' h).1, (finish_spec s id r now s' h).2.2⟩

/-- `p` is approved when it is decided at time `now` against the vault `vd` -/
def ApprovedBy (fixed : Bool) (now : Int) (vd : List Pem) (p : Proposal) : Prop :=
  isExpired p now = false ∧ decideResult fixed vd p = .approved

/-- one loop iteration: either the vault stays, or `p` was approved against the decision vault and the new
    vault is the leader-first arrangement of its keys; an abort leaves the state as it was -/
theorem processOne_spec (fixed : Bool) (now : Int) (v0 : List Pem) (s : State) (p : Proposal) :
    processOne fixed now v0 s p = .halt ∨ processOne fixed now v0 s p = .abort s ∨
    ∃ s', processOne fixed now v0 s p = .cont s' ∧
      (s'.active = s.active ∨ s'.active = delP s.active p.id) ∧
      (s'.vault = s.vault ∨
        (ApprovedBy fixed now (decisionVault fixed v0 s) p ∧ newVault p = some s'.vault)) := by
  unfold processOne
  by_cases hx : isExpired p now = true
  · simp only [hx, if_true]
    rcases finishStep_spec s p.id .expired now with h | ⟨s', h, hv, ha⟩
    · exact Or.inr (Or.inl h)
    · exact Or.inr (Or.inr ⟨s', h, Or.inr ha, Or.inl hv⟩)
  · simp only [hx]
    cases hd : decideResult fixed (decisionVault fixed v0 s) p with
    | rejected =>
      simp only
      rcases finishStep_spec s p.id .rejected now with h | ⟨s', h, hv, ha⟩
      · exact Or.inr (Or.inl h)
      · exact Or.inr (Or.inr ⟨s', h, Or.inr ha, Or.inl hv⟩)
    | approved =>
      simp only
      cases hn : newVault p with
      | none => exact Or.inl rfl
      | some nv =>
        simp only
        cases hf : finish s p.id .approved now with
        | none => exact Or.inr (Or.inl rfl)
        | some s' =>
          simp only
          refine Or.inr (Or.inr ⟨_, rfl, Or.inr (finish_spec s p.id .approved now s' hf).2.2, Or.inr ⟨⟨by simpa using hx, hd⟩, rfl⟩⟩)
    | unspecified => exact Or.inr (Or.inr ⟨s, rfl, Or.inl rfl, Or.inl rfl⟩)
    | expired => exact Or.inr (Or.inr ⟨s, rfl, Or.inl rfl, Or.inl rfl⟩)

theorem finishLoop_cons_cont (fixed : Bool) (now : Int) (v0 : List Pem) (p : Proposal) (rest : List Proposal)
    (s s1 : State) (h : processOne fixed now v0 s p = .cont s1) :
    finishLoop fixed now v0 (p :: rest) s = finishLoop fixed now v0 rest s1 := by
  simp only [finishLoop, h]

/-- the end-block loop: if the vault differs afterwards, some proposal of the list was approved against the
    decision vault of the state `mid` the loop had reached, and the vault is that proposal's key list,
    leader first (the last such proposal) -/
theorem finishLoop_vault (fixed : Bool) (now : Int) (v0 : List Pem) : ∀ (l : List Proposal) (s s' : State),
    (finishLoop fixed now v0 l s = .cont s' ∨ finishLoop fixed now v0 l s = .abort s') →
    s'.vault = s.vault ∨ ∃ pre p post mid, l = pre ++ p :: post ∧
      finishLoop fixed now v0 pre s = .cont mid ∧
      ApprovedBy fixed now (decisionVault fixed v0 mid) p ∧ newVault p = some s'.vault
  | [], s, s', h => by
    simp only [finishLoop] at h
    rcases h with h | h
    · injection h with h; subst h; exact Or.inl rfl
    · cases h
  | p :: rest, s, s', h => by
    rcases processOne_spec fixed now v0 s p with h1 | h1 | ⟨s1, h1, _, hv⟩
    · simp only [finishLoop, h1] at h
      rcases h with h | h <;> cases h
    · simp only [finishLoop, h1] at h
      rcases h with h | h
      · cases h
      · injection h with h; subst h; exact Or.inl rfl
    · rw [finishLoop_cons_cont fixed now v0 p rest s s1 h1] at h
      rcases finishLoop_vault fixed now v0 rest s1 s' h with ih | ⟨pre, q, post, mid, hl, hpre, happ, hnv⟩
      · rcases hv with hv | ⟨happ, hnv⟩
        · exact Or.inl (ih.trans hv)
        · refine Or.inr ⟨[], p, rest, s, rfl, rfl, happ, ?_⟩
          rw [ih]; exact hnv
      · refine Or.inr ⟨p :: pre, q, post, mid, by rw [hl]; rfl, ?_, happ, hnv⟩
        rw [finishLoop_cons_cont fixed now v0 p pre s s1 h1]; exact hpre

/-- the loop only removes proposals from the active store -/
theorem finishLoop_active (fixed : Bool) (now : Int) (v0 : List Pem) : ∀ (l : List Proposal) (s s' : State),
    (finishLoop fixed now v0 l s = .cont s' ∨ finishLoop fixed now v0 l s = .abort s') →
    ∀ q ∈ s'.active, q ∈ s.active
  | [], s, s', h => by
    simp only [finishLoop] at h
    rcases h with h | h
    · injection h with h; subst h; exact fun q hq => hq
    · cases h
  | p :: rest, s, s', h => by
    rcases processOne_spec fixed now v0 s p with h1 | h1 | ⟨s1, h1, ha, _⟩
    · simp only [finishLoop, h1] at h
      rcases h with h | h <;> cases h
    · simp only [finishLoop, h1] at h
      rcases h with h | h
      · cases h
      · injection h with h; subst h; exact fun q hq => hq
    · rw [finishLoop_cons_cont fixed now v0 p rest s s1 h1] at h
      intro q hq
      have := finishLoop_active fixed now v0 rest s1 s' h q hq
      rcases ha with ha | ha
      · rw [ha] at this; exact this
      · rw [ha] at this; exact mem_delP _ _ _ this

/-- if no proposal of the list can be approved against the vault of the state, the vault stays -/
theorem finishLoop_no_approval (fixed : Bool) (now : Int) (v0 : List Pem) (l : List Proposal) (s s' : State)
    (hv0 : v0 = s.vault)
    (hno : ∀ p ∈ l, ¬ ApprovedBy fixed now s.vault p)
    (h : finishLoop fixed now v0 l s = .cont s' ∨ finishLoop fixed now v0 l s = .abort s') :
    s'.vault = s.vault := by
  induction l generalizing s with
  | nil =>
    simp only [finishLoop] at h
    rcases h with h | h
    · injection h with h; subst h; rfl
    · cases h
  | cons p rest ih =>
    rcases processOne_spec fixed now v0 s p with h1 | h1 | ⟨s1, h1, _, hv⟩
    · simp only [finishLoop, h1] at h
      rcases h with h | h <;> cases h
    · simp only [finishLoop, h1] at h
      rcases h with h | h
      · cases h
      · injection h with h; subst h; rfl
    · rw [finishLoop_cons_cont fixed now v0 p rest s s1 h1] at h
      have hs1 : s1.vault = s.vault := by
        rcases hv with hv | ⟨happ, _⟩
        · exact hv
        · exfalso
          apply hno p List.mem_cons_self
          have : decisionVault fixed v0 s = s.vault := by
            unfold decisionVault; split
            · rfl
            · exact hv0
          rw [this] at happ; exact happ
      have := ih s1 (hv0.trans hs1.symm) (fun q hq => by rw [hs1]; exact hno q (List.mem_cons_of_mem _ hq)) h
      exact this.trans hs1

end Sge.Ovm
