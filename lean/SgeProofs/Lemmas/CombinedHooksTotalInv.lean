/-
  Hooks never fail (C11 on the combined slice), part 7: the invariant bundle `cmb2_HTInv` is kept by every combined
  operation, hence by every history.
-/
import SgeProofs.Lemmas.CombinedHooksTotalBlock
namespace Sge.Combined
open Sge Sge.Core Sge.Genesis

/-- everything the hooks-total argument needs of a reachable state -/
structure cmb2_HTInv (s : State) : Prop where
  linv : LInv s
  ret : RetAll s.core
  parts : cmb2_PartsOK s.core
  spent : cmb2_SpentInv s
  avail : cmb2_AvailOK s

theorem cmb2_step_spent (s : State) (op : Op) (hI : cmb2_HTInv s) (hwf : op.wfU) :
    cmb2_SpentInv (step s op).1 ∧ cmb2_AvailOK (step s op).1 := by
  obtain ⟨hL, hA, hP, hS, hAv⟩ := hI
  have hR := hL.inRange
  have keep : ∀ {s' : State}, cmb2_SKeeps s s' → cmb2_SpentInv s' ∧ cmb2_AvailOK s' :=
    fun k => ⟨hS.ofKeeps k, k.avail hAv⟩
  have lift : ∀ {r : Option State}, (∀ s', r = some s' → cmb2_SpentInv s' ∧ cmb2_AvailOK s') →
      cmb2_SpentInv (commit s r).1 ∧ cmb2_AvailOK (commit s r).1 := by
    intro r h
    cases r with
    | none => exact ⟨hS, hAv⟩
    | some s' => exact h s' rfl
  cases op with
  | core cop =>
    by_cases he : cop = .endBlock
    · subst he
      show cmb2_SpentInv (endBlock s).1 ∧ cmb2_AvailOK (endBlock s).1
      unfold endBlock
      cases h : endBlockO s with
      | none => exact ⟨hS, hAv⟩
      | some s' =>
        have h' := h
        unfold endBlockO at h'
        simp only [bind, Option.bind_eq_some_iff] at h'
        obtain ⟨c, hc, _⟩ := h'
        obtain ⟨s'', e, i1, i2⟩ := cmb2_endBlock_total hL hS hAv hA hP hc
        rw [h] at e
        cases e
        exact ⟨i1, i2⟩
    · have e : step s (.core cop) = coreStep s cop := by
        cases cop <;> first | rfl | exact absurd rfl he
      rw [e]
      exact keep (cmb2_coreStep_skeeps s cop he hwf hA hP)
  | subParams w d => exact keep ⟨fun _ _ _ => Int.le_refl _, fun _ _ => Int.le_refl _, id⟩
  | create c o ls =>
    refine lift (fun s' e => keep (cmb2_create_skeeps ?_ e))
    cases hx : aget s.subs (subAddr s.nextId) with
    | none => rfl
    | some r =>
      obtain ⟨k, hk, hlt⟩ := hL.range _ (by rw [hx]; rfl)
      have := cmb_subAddr_inj hk
      omega
  | topUp c o ls => exact lift (fun s' e => keep (cmb2_topUp_skeeps e))
  | withdrawUnlocked o => exact lift (fun s' e => keep (cmb2_withdrawUnlocked_skeeps e))
  | subWager o ok ic m sb tk u a pl => exact lift (fun s' e => keep (cmb2_subWager_skeeps hA.sett.cmb2_srt hP e))
  | subDeposit o tk m a pd => exact lift (fun s' e => cmb2_subDeposit_inv hS hAv hP hR hL.users e)
  | subWithdraw o tk m i md a pd => exact lift (fun s' e => cmb2_subWithdraw_inv hS hAv hP hR e)

theorem cmb2_step_htinv (s : State) (op : Op) (hI : cmb2_HTInv s) (hwf : op.wfU) : cmb2_HTInv (step s op).1 := by
  obtain ⟨cops, hw, e⟩ := (cmb_step_sim s op hI.linv.ownInv (Op.wfU_wf hwf)).1
  obtain ⟨h1, h2⟩ := cmb2_step_spent s op hI hwf
  refine ⟨cmb_step_linv s op hI.linv hwf, ?_, ?_, h1, h2⟩
  · rw [e]; exact run_retAll _ cops hI.ret hw
  · rw [e]; exact cmb2_run_partsOK _ cops hI.ret hI.parts hw

theorem cmb2_run_htinv : ∀ (ops : List Op) (s : State), cmb2_HTInv s → (∀ op ∈ ops, op.wfU) → cmb2_HTInv (run s ops) := by
  intro ops
  induction ops with
  | nil => intro s hI _; exact hI
  | cons op rest ih =>
    intro s hI hwf
    exact ih (step s op).1 (cmb2_step_htinv s op hI (hwf op (List.mem_cons_self ..))) (fun o ho => hwf o (List.mem_cons_of_mem _ ho))

end Sge.Combined
