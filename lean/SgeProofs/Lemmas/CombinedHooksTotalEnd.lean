/-
  Hooks never fail (C11 on the combined slice), part 5: the participations paid in one core end-block, traced back to
  the state before the block. Every record that the combined end-block derives a hook call from (`newlyPaid`) is the
  paid copy of a record that was UNPAID before the block, with the same depositor, liquidity and fee; it was paid by one
  successful `settleParticipation`, so its payout was not negative. Consequences for the derived hook list: every
  un-spent amount is ≥ 0, a booked loss is at most the un-spent liquidity, a forwarded profit is ≥ 0, and what the hooks
  un-spend for an address is at most the value its unpaid participations had before the block.
-/
import SgeProofs.Lemmas.CombinedHooksTotalOps
namespace Sge.Combined
open Sge Sge.Core Sge.Genesis

/-- the core end-block, with the state between the two end-blockers named as the combined model names it (`obRef`) -/
theorem cmb2_endBlockO_trace {c c' : Core.State} (hA : RetAll c) (h : Core.endBlockO c = some c') :
    RetAll (obRef c) ∧ RetAll c' ∧ ProfOnly c (obRef c) ∧ (obRef c).markets = c.markets ∧ ObStep (obRef c) c' := by
  unfold Core.endBlockO at h
  simp only [bind, Option.bind_eq_some_iff] at h
  obtain ⟨s1, h1, h2⟩ := h
  have href : obRef c = s1 := by unfold obRef; rw [h1]
  rw [href]
  obtain ⟨hR1, hP1⟩ := ret_betEndBlock _ _ _ _ hA.ob hA.ret h1
  have hA1 : RetAll s1 := ⟨betEndBlock_inv _ _ _ _ hA.sett h1, betEndBlock_obInv _ _ _ _ hA.ob h1, hR1⟩
  obtain ⟨hA', hS⟩ := ret_obEndBlock_trace _ _ _ _ _ hA1 h2
  exact ⟨hA1, hA', hP1, betEndBlock_markets _ _ _ _ h1, hS⟩

/-- a successful `settleParticipation` paid a non-negative payout -/
theorem cmb2_settlePart_payout {s : Core.State} {b : Book} {p : Part} {m : Market} {r : Core.State × Book}
    (h : settlePart s b p m = some r) : 0 ≤ p.payout m := by
  unfold settlePart at h
  simp only [bind, Option.bind_eq_some_iff] at h
  obtain ⟨_, _, _, _, s1, h1, _⟩ := h
  obtain ⟨bal', ht, _⟩ := bankSend_shape h1
  unfold transfer at ht
  split at ht
  · cases ht
  · omega

theorem cmb2_mem_newlyPaid {pre post : Core.State} {uid : Nat} {p : Part} (h : p ∈ newlyPaid pre post uid) :
    ∃ b0 b1, getBook pre uid = some b0 ∧ getBook post uid = some b1 ∧ p ∈ b1.parts ∧ p.isSettled = true ∧
      ∃ q ∈ b0.parts, q.idx = p.idx ∧ q.isSettled = false := by
  unfold newlyPaid at h
  split at h
  · rename_i b0 b1 h0 h1
    rw [List.mem_filter] at h
    obtain ⟨hp, hc⟩ := h
    simp only [Bool.and_eq_true, List.any_eq_true, beq_iff_eq, Bool.not_eq_true'] at hc
    obtain ⟨hs, q, hq, hqi, hqs⟩ := hc
    exact ⟨b0, b1, h0, h1, hp, hs, q, hq, hqi, hqs⟩
  · cases h

/-- what is known of a record paid in the block -/
structure cmb2_Paid (c c' : Core.State) (uid : Nat) (m : Market) (p : Part) : Prop where
  post : ∃ b1, getBook c' uid = some b1 ∧ b1.getPart p.idx = some p
  settled : p.isSettled = true
  pre : ∃ b p0, getBook c uid = some b ∧ b.getPart p.idx = some p0 ∧ p0.isSettled = false ∧ p0.addr = p.addr ∧
    p0.liq = p.liq ∧ p0.fee = p.fee
  payout : m.status = MS_DECLARED → 0 ≤ p.liq + p.actualProfit

theorem cmb2_newlyPaid_paid {c c' : Core.State} (hA : RetAll c) (h : Core.endBlockO c = some c') {uid : Nat} {m : Market}
    (hm : getMarket c' uid = some m) {p : Part} (hp : p ∈ newlyPaid (obRef c) c' uid) : cmb2_Paid c c' uid m p := by
  obtain ⟨hA1, hA', hPO, hmk, hOS⟩ := cmb2_endBlockO_trace hA h
  obtain ⟨b0, b1, hb0, hb1, hpm, hps, q, hq, hqi, hqs⟩ := cmb2_mem_newlyPaid hp
  obtain ⟨hb0m, hb0u⟩ := getBook_mem hb0
  obtain ⟨hb1m, hb1u⟩ := getBook_mem hb1
  have hg1 : b1.getPart p.idx = some p := Book.mem_getPart (hA'.sett.sortedParts b1 hb1m) hpm
  -- the book of the reference state
  obtain ⟨bx, hbxm, hx⟩ := hOS.bwd b1 hb1m
  have hbx : bx = b0 := (ret_book_unique hA1.sett.sortedBooks hb0m hbxm (by rw [← hx.uid, hb1u, hb0u])).symm ▸ rfl
  subst hbx
  obtain ⟨p1, hp1, hor⟩ := hx.gp p.idx p hg1
  have hq1 : bx.getPart p.idx = some q := by
    have := Book.mem_getPart (hA1.sett.sortedParts bx hb0m) hq
    rw [hqi] at this; exact this
  rw [hq1] at hp1
  cases hp1
  rcases hor with e | ⟨_, _, t, bA, bk, m', r, _, _, htm, _, _, _, _, hgm, hsp, e⟩
  · rw [e, hqs] at hps; cases hps
  · -- the market is the one of the new state
    have hmm : m' = m := by
      have e1 : getMarket t bx.uid = getMarket c' bx.uid := by
        unfold getMarket; rw [htm, hOS.mks]
      rw [e1, hb0u, hm] at hgm
      exact (Option.some.inj hgm).symm
    subst hmm
    obtain ⟨g1, g2, g3, g4, _, g6, _, _⟩ := q.paidRec_fields m'
    -- the record before the bet phase
    obtain ⟨bc, hbcm, hbcu, hgc⟩ := hPO bx hb0m
    obtain ⟨pc, hpc, epc⟩ := hgc p.idx q hq1
    have hbc : getBook c uid = some bc := by
      have := mem_getBook hA.sett.sortedBooks hbcm
      rw [hbcu, hb0u] at this; exact this
    have f : q.isSettled = pc.isSettled ∧ q.addr = pc.addr ∧ q.liq = pc.liq ∧ q.fee = pc.fee := by
      rw [epc]; exact ⟨rfl, rfl, rfl, rfl⟩
    refine ⟨⟨b1, hb1, hg1⟩, hps, ⟨bc, pc, hbc, hpc, by rw [← f.1]; exact hqs, ?_, ?_, ?_⟩, ?_⟩
    · rw [e, g2]; exact f.2.1.symm
    · rw [e, g3]; exact f.2.2.1.symm
    · rw [e, g4]; exact f.2.2.2.symm
    · intro hd
      have := cmb2_settlePart_payout hsp
      unfold Part.payout at this
      have hd' : (m'.status == MS_DECLARED) = true := by rw [hd]; rfl
      rw [if_pos hd'] at this
      rw [e, g3, g6]
      exact this

-- ---------------------------------------------------------------------------------------------
-- the hook list

/-- what a hook call un-spends -/
def cmb2_unsp : HookCall → Int
  | .win _ orig _ => orig
  | .loss _ orig _ => orig
  | .refund _ orig => orig

/-- what a hook call forwards to the owner -/
def cmb2_prof : HookCall → Int
  | .win _ _ profit => profit
  | _ => 0

def cmb2_unspFor (a : Nat) (l : List HookCall) : Int := sumBy (fun h => if h.house = a then cmb2_unsp h else 0) l
def cmb2_profFor (a : Nat) (l : List HookCall) : Int := sumBy (fun h => if h.house = a then cmb2_prof h else 0) l

/-- a hook call whose amounts cannot make the hook fail by themselves -/
def cmb2_hookOK : HookCall → Prop
  | .win _ orig profit => 0 ≤ orig ∧ 0 ≤ profit
  | .loss _ orig lost => 0 ≤ lost ∧ lost ≤ orig
  | .refund _ orig => 0 ≤ orig

theorem cmb2_unspFor_cons (a : Nat) (h : HookCall) (l : List HookCall) :
    cmb2_unspFor a (h :: l) = (if h.house = a then cmb2_unsp h else 0) + cmb2_unspFor a l := sumBy_cons _ _ _

theorem cmb2_profFor_cons (a : Nat) (h : HookCall) (l : List HookCall) :
    cmb2_profFor a (h :: l) = (if h.house = a then cmb2_prof h else 0) + cmb2_profFor a l := sumBy_cons _ _ _

theorem cmb2_unspFor_append (a : Nat) (l1 l2 : List HookCall) : cmb2_unspFor a (l1 ++ l2) = cmb2_unspFor a l1 + cmb2_unspFor a l2 :=
  cmb_sumBy_append _ l1 l2

theorem cmb2_sumBy_flatMap {α β : Type} (f : β → Int) (g : α → List β) (l : List α) :
    sumBy f (l.flatMap g) = sumBy (fun x => sumBy f (g x)) l := by
  induction l with
  | nil => rfl
  | cons x xs ih => rw [List.flatMap_cons, cmb_sumBy_append, ih, sumBy_cons]

theorem cmb2_sumBy_map {α β : Type} (f : β → Int) (g : α → β) (l : List α) : sumBy f (l.map g) = sumBy (fun x => f (g x)) l := by
  induction l with
  | nil => rfl
  | cons x xs ih => rw [List.map_cons, sumBy_cons, sumBy_cons, ih]

theorem cmb2_hookOK_nonneg {h : HookCall} (hk : cmb2_hookOK h) : 0 ≤ cmb2_unsp h ∧ 0 ≤ cmb2_prof h ∧ cmb2_prof h ≤ hookBooks h := by
  cases h with
  | win a o p => obtain ⟨h1, h2⟩ := hk; simp only [cmb2_unsp, cmb2_prof, hookBooks]; omega
  | loss a o l => obtain ⟨h1, h2⟩ := hk; simp only [cmb2_unsp, cmb2_prof, hookBooks]; omega
  | refund a o => have h1 : 0 ≤ o := hk; simp only [cmb2_unsp, cmb2_prof, hookBooks]; omega

theorem cmb2_unspFor_nonneg (a : Nat) (l : List HookCall) (h : ∀ x ∈ l, cmb2_hookOK x) : 0 ≤ cmb2_unspFor a l := by
  apply sumBy_nonneg
  intro x hx
  have := (cmb2_hookOK_nonneg (h x hx)).1
  split <;> omega

theorem cmb2_profFor_nonneg (a : Nat) (l : List HookCall) (h : ∀ x ∈ l, cmb2_hookOK x) : 0 ≤ cmb2_profFor a l := by
  apply sumBy_nonneg
  intro x hx
  have := (cmb2_hookOK_nonneg (h x hx)).2.1
  split <;> omega

theorem cmb2_profFor_le_hooksFor (a : Nat) (l : List HookCall) (h : ∀ x ∈ l, cmb2_hookOK x) : cmb2_profFor a l ≤ hooksFor a l := by
  apply cmb2_sumBy_le
  intro x hx
  have := (cmb2_hookOK_nonneg (h x hx)).2.2
  split <;> omega

/-- the hook calls derived from one paid record -/
theorem cmb2_partHooks_ok {c c' : Core.State} {uid : Nat} {m : Market} {p : Part} (hpd : cmb2_Paid c c' uid m p)
    (hP : cmb2_PartsOK c) : ∀ h ∈ partHooks m p, cmb2_hookOK h := by
  obtain ⟨_, _, ⟨b, p0, hb, hp0, _, _, e1, e2⟩, hpay⟩ := hpd
  have h0 := cmb2_partsOK_get hP hb hp0
  have hl : 0 ≤ p.liq := by rw [← e1]; exact h0.liq
  have hf : 0 ≤ p.fee := by rw [← e2]; exact h0.fee
  intro h hh
  unfold partHooks at hh
  rw [List.mem_append] at hh
  rcases hh with hh | hh
  · split at hh
    · rename_i hd
      have hd' : m.status = MS_DECLARED := by simpa using hd
      have := hpay hd'
      split at hh
      · simp only [List.mem_singleton] at hh
        subst hh
        exact ⟨by omega, by omega⟩
      · simp only [List.mem_singleton] at hh
        subst hh
        exact ⟨hl, by omega⟩
    · simp only [List.mem_singleton] at hh
      subst hh
      exact hl
  · split at hh
    · simp only [List.mem_singleton] at hh
      subst hh
      exact hf
    · cases hh

/-- what the hook calls of one paid record un-spend for address `a` is at most the value the record had before -/
theorem cmb2_partHooks_unsp {c c' : Core.State} {uid : Nat} {m : Market} {p : Part} (hpd : cmb2_Paid c c' uid m p)
    (hP : cmb2_PartsOK c) (a : Nat) : cmb2_unspFor a (partHooks m p) ≤ cmb2_val c a (uid, p.idx) := by
  obtain ⟨_, _, ⟨b, p0, hb, hp0, hun, ea, e1, e2⟩, _⟩ := hpd
  have h0 := cmb2_partsOK_get hP hb hp0
  have hl := h0.liq
  have hf := h0.fee
  rw [cmb2_val_get hb hp0]
  unfold partHooks
  rw [cmb2_unspFor_append]
  by_cases ha : p.addr = a
  · have hv : (if p0.isSettled = false ∧ p0.addr = a then p0.liq + p0.fee else 0) = p0.liq + p0.fee :=
      if_pos ⟨hun, by rw [ea]; exact ha⟩
    rw [hv]
    have s1 : cmb2_unspFor a (if (m.status == MS_DECLARED) = true then
        (if p.actualProfit < 0 then [HookCall.loss p.addr p.liq (-p.actualProfit)] else [HookCall.win p.addr p.liq p.actualProfit])
        else [HookCall.refund p.addr p.liq]) = p.liq := by
      split
      · split <;> simp [cmb2_unspFor, sumBy, HookCall.house, cmb2_unsp, ha]
      · simp [cmb2_unspFor, sumBy, HookCall.house, cmb2_unsp, ha]
    have s2 : cmb2_unspFor a (if p.feeToDepositor m = true then [HookCall.refund p.addr p.fee] else []) ≤ p.fee := by
      split
      · simp [cmb2_unspFor, sumBy, HookCall.house, cmb2_unsp, ha]
      · show (0 : Int) ≤ p.fee
        omega
    rw [s1]
    omega
  · have s1 : cmb2_unspFor a (if (m.status == MS_DECLARED) = true then
        (if p.actualProfit < 0 then [HookCall.loss p.addr p.liq (-p.actualProfit)] else [HookCall.win p.addr p.liq p.actualProfit])
        else [HookCall.refund p.addr p.liq]) = 0 := by
      split
      · split <;> simp [cmb2_unspFor, sumBy, HookCall.house, ha]
      · simp [cmb2_unspFor, sumBy, HookCall.house, ha]
    have s2 : cmb2_unspFor a (if p.feeToDepositor m = true then [HookCall.refund p.addr p.fee] else []) = 0 := by
      split
      · simp [cmb2_unspFor, sumBy, HookCall.house, ha]
      · rfl
    rw [s1, s2]
    split <;> omega

end Sge.Combined
