/-
  Hooks never fail (C11 on the combined slice), part 6: the hook phase of the combined end-block.
  `cmb2_block_spent`: after a successful core end-block, for every address of the subaccount range the values of the
  still unpaid participations plus everything the derived hook calls will un-spend stay within `Spent`.
  `cmb2_applyHooks_total`: under that bound (and: amounts of the calls well-formed, forwarded profits covered by the
  bank balance, every account summary has an owner) no hook call fails, and the bound is handed on.
  `cmb2_endBlock_total`: if the core end-block succeeds, the combined end-block succeeds.
-/
import SgeProofs.Lemmas.CombinedHooksTotalEnd
namespace Sge.Combined
open Sge Sge.Core Sge.Genesis
open Sge.Subaccount (Summary SumNonneg spend_some unspend_some addLoss_some withdraw_some unspend_isSome addLoss_isSome)

-- ---------------------------------------------------------------------------------------------
-- the keys of the records paid in the block

def cmb2_paidKeys (c c' : Core.State) : List (Nat × Nat) :=
  (obWalk c).flatMap fun uid => (newlyPaid (obRef c) c' uid).map fun p => (uid, p.idx)

theorem cmb2_newlyPaid_pairwise (pre post : Core.State) (uid : Nat) (hs : ∀ b ∈ post.books, Sorted Part.key b.parts) :
    (newlyPaid pre post uid).Pairwise (fun x y => x.idx ≠ y.idx) := by
  unfold newlyPaid
  split
  · rename_i b0 b1 _ h1
    exact List.Pairwise.filter _ (ret_sorted_pairwise_idx (hs b1 (getBook_mem h1).1))
  · exact List.Pairwise.nil

theorem cmb2_paidKeys_nodup (c c' : Core.State) (hs : ∀ b ∈ c'.books, Sorted Part.key b.parts) : (cmb2_paidKeys c c').Nodup := by
  unfold cmb2_paidKeys
  show List.Pairwise (· ≠ ·) _
  rw [List.pairwise_flatMap]
  constructor
  · intro uid _
    rw [List.pairwise_map]
    refine (cmb2_newlyPaid_pairwise (obRef c) c' uid hs).imp ?_
    intro x y hxy e
    simp only [Prod.mk.injEq, true_and] at e
    exact hxy e
  · have hW : (obWalk c).Nodup := cmb_nodup_eraseDups _ _ (Nat.le_refl _)
    refine List.Pairwise.imp ?_ hW
    intro u1 u2 hne x hx y hy e
    simp only [List.mem_map] at hx hy
    obtain ⟨p1, _, rfl⟩ := hx
    obtain ⟨p2, _, e2⟩ := hy
    rw [← e2] at e
    simp only [Prod.mk.injEq] at e
    exact hne e.1

theorem cmb2_mem_paidKeys {c c' : Core.State} {k : Nat × Nat} (h : k ∈ cmb2_paidKeys c c') :
    ∃ p, p ∈ newlyPaid (obRef c) c' k.1 ∧ p.idx = k.2 := by
  unfold cmb2_paidKeys at h
  simp only [List.mem_flatMap, List.mem_map] at h
  obtain ⟨uid, _, p, hp, rfl⟩ := h
  exact ⟨p, hp, rfl⟩

/-- a record paid in the block holds nothing any more -/
theorem cmb2_paidKeys_val {c c' : Core.State} (hs : ∀ b ∈ c'.books, Sorted Part.key b.parts) (a : Nat) {k : Nat × Nat}
    (h : k ∈ cmb2_paidKeys c c') : cmb2_val c' a k = 0 := by
  obtain ⟨p, hp, hi⟩ := cmb2_mem_paidKeys h
  obtain ⟨u, i⟩ := k
  obtain ⟨b0, b1, _, hb1, hpm, hps, _⟩ := cmb2_mem_newlyPaid hp
  have hg := Book.mem_getPart (hs b1 (getBook_mem hb1).1) hpm
  have hi' : p.idx = i := hi
  rw [hi'] at hg
  rw [cmb2_val_get hb1 hg, if_neg (fun hc => by rw [hps] at hc; cases hc.1)]

theorem cmb2_mem_bookHooks {pre post : Core.State} {uid : Nat} {h : HookCall} (hh : h ∈ bookHooks pre post uid) :
    ∃ m p, getMarket post uid = some m ∧ p ∈ newlyPaid pre post uid ∧ h ∈ partHooks m p := by
  unfold bookHooks at hh
  split at hh
  · rename_i m hm
    simp only [List.mem_flatMap] at hh
    obtain ⟨p, hp, hh⟩ := hh
    exact ⟨m, p, hm, hp, hh⟩
  · cases hh

/-- every derived hook call has well-formed amounts -/
theorem cmb2_endBlockHooks_ok {c c' : Core.State} (hA : RetAll c) (hP : cmb2_PartsOK c) (h : Core.endBlockO c = some c') :
    ∀ x ∈ endBlockHooks c c', cmb2_hookOK x := by
  intro x hx
  unfold endBlockHooks at hx
  simp only [List.mem_flatMap] at hx
  obtain ⟨uid, _, hx⟩ := hx
  obtain ⟨m, p, hm, hp, hxp⟩ := cmb2_mem_bookHooks hx
  exact cmb2_partHooks_ok (cmb2_newlyPaid_paid hA h hm hp) hP x hxp

/-- what the derived hook calls un-spend for `a` is covered by the values, before the block, of the records paid -/
theorem cmb2_endBlockHooks_unsp {c c' : Core.State} (hA : RetAll c) (hP : cmb2_PartsOK c) (h : Core.endBlockO c = some c')
    (a : Nat) : cmb2_unspFor a (endBlockHooks c c') ≤ sumBy (cmb2_val c a) (cmb2_paidKeys c c') := by
  unfold cmb2_unspFor endBlockHooks cmb2_paidKeys
  rw [cmb2_sumBy_flatMap, cmb2_sumBy_flatMap]
  apply cmb2_sumBy_le
  intro uid _
  rw [cmb2_sumBy_map]
  unfold bookHooks
  cases hm : getMarket c' uid with
  | none =>
    show (0 : Int) ≤ _
    exact sumBy_nonneg _ _ (fun p _ => cmb2_val_nonneg hP a _)
  | some m =>
    show sumBy _ ((newlyPaid (obRef c) c' uid).flatMap (partHooks m)) ≤ _
    rw [cmb2_sumBy_flatMap]
    apply cmb2_sumBy_le
    intro p hp
    exact cmb2_partHooks_unsp (cmb2_newlyPaid_paid hA h hm hp) hP a

theorem cmb2_sumBy_filter_le {κ : Type} (f g : κ → Int) (P : κ → Bool) : ∀ L : List κ,
    (∀ k ∈ L, P k = true → f k ≤ g k) → (∀ k ∈ L, P k = false → f k ≤ 0) → sumBy f L ≤ sumBy g (L.filter P) := by
  intro L
  induction L with
  | nil => intro _ _; exact Int.le_refl _
  | cons x xs ih =>
    intro h1 h2
    have ih' := ih (fun k hk => h1 k (List.mem_cons_of_mem _ hk)) (fun k hk => h2 k (List.mem_cons_of_mem _ hk))
    rw [List.filter_cons, sumBy_cons]
    cases hP : P x
    · simp only [Bool.false_eq_true, if_false]
      have := h2 x (List.mem_cons_self ..) hP
      omega
    · simp only [if_true]
      rw [sumBy_cons]
      have := h1 x (List.mem_cons_self ..) hP
      omega

/-- THE BOUND AFTER THE CORE END-BLOCK: the values still held plus everything the hooks will un-spend ≤ `Spent` -/
theorem cmb2_block_spent {s : State} {c' : Core.State} (hI : cmb2_SpentInv s) (hA : RetAll s.core) (hP : cmb2_PartsOK s.core)
    (h : Core.endBlockO s.core = some c') (a : Nat) (ha : SUB_BASE ≤ a) (L : List (Nat × Nat)) (hL : L.Nodup) :
    sumBy (cmb2_val c' a) L + cmb2_unspFor a (endBlockHooks s.core c') ≤ cmb2_spentOf s a := by
  obtain ⟨_, hA', _, _, _⟩ := cmb2_endBlockO_trace hA h
  have hsP := hA'.sett.sortedParts
  have hK := cmb2_paidKeys_nodup s.core c' hsP
  have hq := cmb2_endBlockO_quiet hA hP h
  have h1 : sumBy (cmb2_val c' a) L ≤ sumBy (cmb2_val s.core a) (L.filter fun k => decide (¬ k ∈ cmb2_paidKeys s.core c')) := by
    apply cmb2_sumBy_filter_le
    · intro k _ _
      exact cmb2_Quiet.val_le hq hP a k
    · intro k _ hk
      have hk' : k ∈ cmb2_paidKeys s.core c' := by
        have := of_decide_eq_false hk
        exact Classical.not_not.mp this
      rw [cmb2_paidKeys_val hsP a hk']
      exact Int.le_refl _
  have hnd : ((L.filter fun k => decide (¬ k ∈ cmb2_paidKeys s.core c')) ++ cmb2_paidKeys s.core c').Nodup := by
    rw [List.nodup_append]
    refine ⟨List.Pairwise.filter _ hL, hK, ?_⟩
    intro x hx y hy e
    rw [List.mem_filter] at hx
    have := of_decide_eq_true hx.2
    rw [e] at this
    exact this hy
  have h2 := hI a ha _ hnd
  rw [sumBy_append] at h2
  have h3 := cmb2_endBlockHooks_unsp hA hP h a
  omega

-- ---------------------------------------------------------------------------------------------
-- the hook phase

/-- what the hook phase needs of the state in which the remaining hook calls `rest` are applied -/
structure cmb2_HP (t : State) (rest : List HookCall) : Prop where
  sp : ∀ a, SUB_BASE ≤ a → ∀ L : List (Nat × Nat), L.Nodup →
    sumBy (cmb2_val t.core a) L + cmb2_unspFor a rest ≤ cmb2_spentOf t a
  ok : ∀ h ∈ rest, cmb2_hookOK h
  bal : ∀ a, SUB_BASE ≤ a → cmb2_profFor a rest ≤ t.bal a
  ctx : HookCtx t
  own : ∀ a, (aget t.subs a).isSome → (aget t.subOwner a).isSome
  av : cmb2_AvailOK t

/-- a call may be dropped from the list: what it would un-spend / forward is not negative -/
theorem cmb2_HP.skip {t : State} {h : HookCall} {rest : List HookCall} (hp : cmb2_HP t (h :: rest)) : cmb2_HP t rest := by
  have hk := cmb2_hookOK_nonneg (hp.ok h (List.mem_cons_self ..))
  refine ⟨?_, fun x hx => hp.ok x (List.mem_cons_of_mem _ hx), ?_, hp.ctx, hp.own, hp.av⟩
  · intro a ha L hL
    have := hp.sp a ha L hL
    rw [cmb2_unspFor_cons] at this
    split at this <;> omega
  · intro a ha
    have := hp.bal a ha
    rw [cmb2_profFor_cons] at this
    split at this <;> omega

theorem cmb2_send_isSome (t : State) (src dst : Nat) (v : Int) (h0 : 0 ≤ v) (h1 : v ≤ t.bal src) :
    ∃ t', send t src dst v = some t' := by
  unfold send bankSend transfer
  have h1' : ¬ getBal t.core.bal src < v := by
    have : t.bal src = getBal t.core.bal src := rfl
    omega
  rw [if_neg (by omega), if_neg h1']
  split <;> exact ⟨_, rfl⟩

/-- the record at the house of the call is rewritten: `Spent` falls by what the call un-spends, the bank balance by
    what it forwards -/
theorem cmb2_HP.update {t s1 : State} {h : HookCall} {rest : List HookCall} {r : SubRec} {sum' : Summary}
    (hp : cmb2_HP t (h :: rest)) (hr : aget t.subs h.house = some r) (hbooks : s1.core.books = t.core.books)
    (hsubs : s1.subs = t.subs) (hmaps : Maps t s1)
    (hbal : ∀ a, SUB_BASE ≤ a → s1.bal a = t.bal a - (if h.house = a then cmb2_prof h else 0))
    (hspent : sum'.spent = r.sum.spent - cmb2_unsp h) (hav : 0 ≤ r.sum.available → 0 ≤ sum'.available) :
    cmb2_HP (s1.setSub h.house { r with sum := sum' }) rest := by
  have hdom : ∀ b, (aget (s1.setSub h.house { r with sum := sum' }).subs b).isSome = (aget t.subs b).isSome := by
    intro b
    unfold State.setSub
    simp only [cmb_aget_aset]
    split
    · rename_i e; subst e; simp [hr]
    · rw [hsubs]
  refine ⟨?_, fun x hx => hp.ok x (List.mem_cons_of_mem _ hx), ?_, ?_, ?_, ?_⟩
  · intro a ha L hL
    have := hp.sp a ha L hL
    rw [cmb2_unspFor_cons] at this
    have ev : sumBy (cmb2_val (s1.setSub h.house { r with sum := sum' }).core a) L = sumBy (cmb2_val t.core a) L := by
      apply sumBy_congr
      intro k _
      exact cmb2_val_congr hbooks a k
    rw [ev, cmb2_spentOf_setSub]
    have es : cmb2_spentOf s1 a = cmb2_spentOf t a := by unfold cmb2_spentOf; rw [hsubs]
    by_cases e : h.house = a
    · rw [if_pos e] at this ⊢
      have : cmb2_spentOf t a = r.sum.spent := by unfold cmb2_spentOf; rw [← e, hr]
      show _ ≤ sum'.spent
      omega
    · rw [if_neg e] at this ⊢
      omega
  · intro a ha
    have := hp.bal a ha
    rw [cmb2_profFor_cons] at this
    rw [cmb_bal_setSub, hbal a ha]
    split <;> omega
  · refine ⟨fun b hb => hp.ctx.inRange b (by rw [← hdom b]; exact hb), fun b o hbo => hp.ctx.ownersUser b o ?_⟩
    have : (s1.setSub h.house { r with sum := sum' }).subOwner = t.subOwner := hmaps.2
    rw [← this]; exact hbo
  · intro b hb
    have : (s1.setSub h.house { r with sum := sum' }).subOwner = t.subOwner := hmaps.2
    rw [this]
    exact hp.own b (by rw [← hdom b]; exact hb)
  · have h1 : cmb2_AvailOK s1 := by intro b rb hb; rw [hsubs] at hb; exact hp.av b rb hb
    exact cmb2_availOK_setSub h1 _ _ (hav (hp.av _ r hr))

/-- ONE HOOK CALL NEVER FAILS -/
theorem cmb2_applyHook_total {t : State} {h : HookCall} {rest : List HookCall} (hp : cmb2_HP t (h :: rest)) :
    ∃ t', applyHook t h = some t' ∧ cmb2_HP t' rest := by
  have hok := hp.ok h (List.mem_cons_self ..)
  have hrest := cmb2_unspFor_nonneg
  cases hr : aget t.subs h.house with
  | none =>
    refine ⟨t, ?_, hp.skip⟩
    cases h with
    | win hs orig profit => have hr' : aget t.subs hs = none := hr; simp only [applyHook, hr']
    | loss hs orig lost => have hr' : aget t.subs hs = none := hr; simp only [applyHook, hr']
    | refund hs orig => have hr' : aget t.subs hs = none := hr; simp only [applyHook, hr']
  | some r =>
    have hra : SUB_BASE ≤ h.house := hp.ctx.inRange.of hr
    -- the un-spent amount is within `Spent`
    have hsp := hp.sp h.house hra [] List.nodup_nil
    rw [cmb2_unspFor_cons, if_pos rfl] at hsp
    have hs0 : cmb2_spentOf t h.house = r.sum.spent := by unfold cmb2_spentOf; rw [hr]
    have hrn := cmb2_unspFor_nonneg h.house rest (fun x hx => hp.ok x (List.mem_cons_of_mem _ hx))
    have hz : sumBy (cmb2_val t.core h.house) [] = 0 := rfl
    have hu1 : cmb2_unsp h ≤ r.sum.spent := by omega
    have hu0 := (cmb2_hookOK_nonneg hok).1
    obtain ⟨sum1, hsum1⟩ := unspend_isSome hu0 hu1
    obtain ⟨_, _, esum1⟩ := unspend_some hsum1
    cases h with
    | win hs orig profit =>
      simp only [HookCall.house, cmb2_unsp] at hr hra hsp hs0 hrn hz hu1 hu0 hsum1 esum1
      have hr' : aget t.subs hs = some r := hr
      -- the owner
      obtain ⟨owner, hown⟩ := Option.isSome_iff_exists.mp (hp.own hs (by rw [hr']; rfl))
      have hou := hp.ctx.ownersUser hs owner hown
      -- the profit is covered by the balance
      have hb := hp.bal hs hra
      rw [cmb2_profFor_cons] at hb
      simp only [HookCall.house, cmb2_prof, if_true] at hb
      have hpn := cmb2_profFor_nonneg hs rest (fun x hx => hp.ok x (List.mem_cons_of_mem _ hx))
      have hp0 : 0 ≤ profit := hok.2
      have hp1 : profit ≤ t.bal hs := by omega
      obtain ⟨s1, hs1⟩ := cmb2_send_isSome t hs owner profit hp0 hp1
      obtain ⟨_, hrecv, hsubs, hmaps, _, hsrc⟩ := cmb_send_recv hs1
      have hsum1' : r.sum.unspend orig = some sum1 := hsum1
      refine ⟨s1.setSub hs { r with sum := sum1 }, ?_, ?_⟩
      · simp only [applyHook, hr', bind, Option.bind_eq_some_iff, pure, Option.some.injEq]
        exact ⟨sum1, hsum1', owner, hown, s1, hs1, rfl⟩
      · apply cmb2_HP.update (h := HookCall.win hs orig profit) hp hr (cmb2_send_books hs1).1 hsubs hmaps
        · intro a ha
          by_cases e : hs = a
          · subst e
            have hne : hs ≠ owner := by have : SUB_BASE ≤ hs := hra; omega
            rw [hsrc hne]
            show _ = t.bal hs - (if hs = hs then profit else 0)
            rw [if_pos rfl]
          · have hne : a ≠ hs := fun x => e x.symm
            rw [hrecv a hne]
            have hno : ¬ a = owner := by omega
            show _ = t.bal a - (if hs = a then _ else 0)
            rw [if_neg hno, if_neg e]
            omega
        · rw [esum1]; try rfl
        · intro h0
          rw [esum1]
          have ho : 0 ≤ orig := hok.1
          simp only [Summary.available] at h0 ⊢
          omega
    | loss hs orig lost =>
      simp only [HookCall.house, cmb2_unsp] at hr hra hsp hs0 hrn hz hu1 hu0 hsum1 esum1
      have hr' : aget t.subs hs = some r := hr
      have hl0 : 0 ≤ lost := hok.1
      obtain ⟨sum2, hsum2⟩ := addLoss_isSome (m := sum1) hl0
      obtain ⟨_, esum2⟩ := addLoss_some hsum2
      have hsum1' : r.sum.unspend orig = some sum1 := hsum1
      refine ⟨t.setSub hs { r with sum := sum2 }, ?_, ?_⟩
      · simp only [applyHook, hr', bind, Option.bind_eq_some_iff, pure, Option.some.injEq]
        exact ⟨sum1, hsum1', sum2, hsum2, rfl⟩
      · apply cmb2_HP.update (h := HookCall.loss hs orig lost) (s1 := t) hp hr rfl rfl (Maps.refl _)
        · intro a _
          show t.bal a = t.bal a - (if hs = a then 0 else 0)
          split <;> omega
        · rw [esum2, esum1]; try rfl
        · intro h0
          rw [esum2, esum1]
          have ho : lost ≤ orig := hok.2
          simp only [Summary.available] at h0 ⊢
          omega
    | refund hs orig =>
      simp only [HookCall.house, cmb2_unsp] at hr hra hsp hs0 hrn hz hu1 hu0 hsum1 esum1
      have hr' : aget t.subs hs = some r := hr
      have hsum1' : r.sum.unspend orig = some sum1 := hsum1
      refine ⟨t.setSub hs { r with sum := sum1 }, ?_, ?_⟩
      · simp only [applyHook, hr', bind, Option.bind_eq_some_iff, pure, Option.some.injEq]
        exact ⟨sum1, hsum1', rfl⟩
      · apply cmb2_HP.update (h := HookCall.refund hs orig) (s1 := t) hp hr rfl rfl (Maps.refl _)
        · intro a _
          show t.bal a = t.bal a - (if hs = a then 0 else 0)
          split <;> omega
        · rw [esum1]; try rfl
        · intro h0
          rw [esum1]
          have ho : 0 ≤ orig := hok
          simp only [Summary.available] at h0 ⊢
          omega

/-- NO HOOK CALL OF THE LIST FAILS -/
theorem cmb2_applyHooks_total : ∀ (l : List HookCall) (t : State), cmb2_HP t l →
    ∃ t', applyHooks t l = some t' ∧ cmb2_HP t' [] := by
  intro l
  induction l with
  | nil => intro t hp; exact ⟨t, rfl, hp⟩
  | cons h rest ih =>
    intro t hp
    obtain ⟨t1, h1, hp1⟩ := cmb2_applyHook_total hp
    obtain ⟨t2, h2, hp2⟩ := ih t1 hp1
    refine ⟨t2, ?_, hp2⟩
    simp only [applyHooks, bind, Option.bind_eq_some_iff]
    exact ⟨t1, h1, h2⟩

-- ---------------------------------------------------------------------------------------------
-- the combined end-block

/-- the state after the core end-block satisfies what the hook phase needs -/
theorem cmb2_block_HP {s : State} {c' : Core.State} (hL : LInv s) (hI : cmb2_SpentInv s) (hAv : cmb2_AvailOK s)
    (hA : RetAll s.core) (hP : cmb2_PartsOK s.core) (h : Core.endBlockO s.core = some c') :
    cmb2_HP { s with core := c' } (endBlockHooks s.core c') := by
  have hok := cmb2_endBlockHooks_ok hA hP h
  refine ⟨?_, hok, ?_, ?_, ?_, hAv⟩
  · intro a ha L hLn
    exact cmb2_block_spent hI hA hP h a ha L hLn
  · intro a ha
    have h1 := cmb2_profFor_le_hooksFor a _ hok
    have h2 := cmb_endBlockO_covers h (cmb_obRef_sorted hL.sett) a (cmb_range_notModule ha)
    have h3 := hL.sur a ha
    unfold surplus led at h3
    have h4 : 0 ≤ getBal s.core.bal a := by
      have e : s.bal a = getBal s.core.bal a := rfl
      cases hr : aget s.subs a with
      | none => rw [hr] at h3; simp only at h3; omega
      | some r =>
        rw [hr] at h3
        simp only at h3
        have := hAv a r hr
        omega
    show _ ≤ getBal c'.bal a
    omega
  · refine ⟨hL.inRange, ?_⟩
    intro a o hao
    have := (hL.mapsInv o a).mpr hao
    exact (hL.users o a this).1
  · intro a ha
    exact (hL.dom a).mp ha

/-- HOOKS TOTAL: in a state that satisfies the invariants, if the core end-block succeeds then every hook call the
    combined end-block derives succeeds, i.e. the combined end-block succeeds; the invariants of this file are handed on -/
theorem cmb2_endBlock_total {s : State} {c' : Core.State} (hL : LInv s) (hI : cmb2_SpentInv s) (hAv : cmb2_AvailOK s)
    (hA : RetAll s.core) (hP : cmb2_PartsOK s.core) (h : Core.endBlockO s.core = some c') :
    ∃ s', endBlockO s = some s' ∧ cmb2_SpentInv s' ∧ cmb2_AvailOK s' := by
  obtain ⟨t', ht', hp'⟩ := cmb2_applyHooks_total _ _ (cmb2_block_HP hL hI hAv hA hP h)
  refine ⟨t', ?_, ?_, hp'.av⟩
  · unfold endBlockO
    simp only [bind, Option.bind_eq_some_iff]
    exact ⟨c', h, ht'⟩
  · intro a ha L hLn
    have := hp'.sp a ha L hLn
    have z : cmb2_unspFor a [] = 0 := rfl
    omega

end Sge.Combined
