/-
  C02, lift to reachable states — the wager loop, ProcessWager, MsgWager, every operation, every history.
  Ghost hypothesis: the backing parts of the bets have non-negative stakes (`NonNegParts`).
-/
import SgeProofs.Lemmas.CollateralWager
import SgeProofs.Lemmas.CollateralSettle
import SgeProofs.Lemmas.BetIndex
namespace Sge.Core
open Sge Sge.Genesis

-- ---------------------------------------------------------------------------------------------
-- backing parts are only ever appended

theorem col_visit_fulfs (o : Nat) (ov mult : Dec) (mo : List Nat) (ms : List (Nat × Dec)) (thr : Int) (f : FInfo) (i : Nat) :
    ∀ fl ∈ f.fulfs, fl ∈ (visit o ov mult mo ms thr f i).fulfs := by
  intro fl hfl
  unfold visit
  split
  · exact hfl
  · rename_i pe _
    have h2 := stage2_core o mo ms thr (stage1 o ov mult thr f pe)
    have h3 := stage3_core o (stage2 o mo ms thr (stage1 o ov mult thr f pe))
    rw [h3.2.1, h2.2.1]
    rcases col_stage1 o ov mult thr f pe with ⟨_, _, c3, _, _⟩ | ⟨_, _, _, _, _, ⟨_, _, c3⟩, _, _⟩
    · rw [c3]; exact hfl
    · rw [c3]; exact List.mem_append_left _ hfl

theorem col_loop_cons (o : Nat) (ov mult : Dec) (mo : List Nat) (ms : List (Nat × Dec)) (thr : Int) (i : Nat) (rest : List Nat) (f : FInfo) :
    loop o ov mult mo ms thr (i :: rest) f = visit o ov mult mo ms thr f i ∨
    ((visit o ov mult mo ms thr f i).err ≠ true ∧ ¬ ((visit o ov mult mo ms thr f i).payoutProfit.raw < PREC) ∧
      loop o ov mult mo ms thr (i :: rest) f = loop o ov mult mo ms thr rest (visit o ov mult mo ms thr f i)) := by
  rw [loop]
  split
  · exact Or.inl rfl
  · rename_i he
    split
    · exact Or.inl rfl
    · rename_i hc
      simp only [Bool.or_eq_true, decide_eq_true_eq, not_or] at hc
      exact Or.inr ⟨he, hc.1, rfl⟩

theorem col_loop_fulfs (o : Nat) (ov mult : Dec) (mo : List Nat) (ms : List (Nat × Dec)) (thr : Int) :
    ∀ (q : List Nat) (f : FInfo), ∀ fl ∈ f.fulfs, fl ∈ (loop o ov mult mo ms thr q f).fulfs := by
  intro q
  induction q with
  | nil => intro f fl hfl; unfold loop; exact hfl
  | cons i rest ih =>
    intro f fl hfl
    have hv := col_visit_fulfs o ov mult mo ms thr f i fl hfl
    rcases col_loop_cons o ov mult mo ms thr i rest f with e | ⟨_, _, e⟩
    · rw [e]; exact hv
    · rw [e]; exact ih _ fl hv

-- ---------------------------------------------------------------------------------------------
-- the loop

theorem visit_col (b0 : Book) (o : Nat) (ov mult : Dec) (mo : List Nat) (ms : List (Nat × Dec)) (thr : Int)
    (f : FInfo) (i : Nat) (rest : List Nat) (hmo : mo.Nodup) (h : LInv b0 o (i :: rest) f)
    (hm : 0 < mult.raw ∧ mult.raw ≤ PREC) (hC : ColInv f.book) (hK : 0 ≤ f.betAmount → 0 ≤ f.payoutProfit.raw)
    (hnn : ∀ fl ∈ (visit o ov mult mo ms thr f i).fulfs, 0 ≤ fl.bet) :
    ColInv (visit o ov mult mo ms thr f i).book ∧
    (0 ≤ (visit o ov mult mo ms thr f i).betAmount → 0 ≤ (visit o ov mult mo ms thr f i).payoutProfit.raw) := by
  unfold visit at hnn ⊢
  cases hitem : f.item i with
  | none => exact ⟨hC, hK⟩
  | some pe =>
    rw [hitem] at hnn
    exact col_visit_some b0 o ov mult mo ms thr f i rest hmo h hm hC hK pe hitem hnn

theorem loop_col (b0 : Book) (o : Nat) (ov mult : Dec) (mo : List Nat) (ms : List (Nat × Dec)) (thr : Int) (hmo : mo.Nodup)
    (hm : 0 < mult.raw ∧ mult.raw ≤ PREC) :
    ∀ (q : List Nat) (f : FInfo), LInv b0 o q f → ColInv f.book → (0 ≤ f.betAmount → 0 ≤ f.payoutProfit.raw) →
      (∀ fl ∈ (loop o ov mult mo ms thr q f).fulfs, 0 ≤ fl.bet) → ColInv (loop o ov mult mo ms thr q f).book := by
  intro q
  induction q with
  | nil => intro f _ hC _ _; unfold loop; exact hC
  | cons i rest ih =>
    intro f h hC hK hnn
    rcases col_loop_cons o ov mult mo ms thr i rest f with e | ⟨he, hp, e⟩
    · rw [e] at hnn ⊢
      exact (visit_col b0 o ov mult mo ms thr f i rest hmo h hm hC hK hnn).1
    · rw [e] at hnn ⊢
      have hnn1 : ∀ fl ∈ (visit o ov mult mo ms thr f i).fulfs, 0 ≤ fl.bet :=
        fun fl hfl => hnn fl (col_loop_fulfs o ov mult mo ms thr rest _ fl hfl)
      obtain ⟨c1, c2⟩ := visit_col b0 o ov mult mo ms thr f i rest hmo h hm hC hK hnn1
      rcases visit_LInv b0 o ov mult mo ms thr f i rest hmo h with hv | hv | hv
      · exact absurd hv he
      · exact ih _ hv c1 c2 hnn
      · exact absurd hv.1 hp

/-- ProcessWager keeps the collateral invariant of the book when no backing part has a negative stake -/
theorem processWager_col (b b' : Book) (o betId : Nat) (ov mult : Dec) (mo : List Nat) (ms : List (Nat × Dec))
    (thr A : Int) (P : Dec) (fulfs : List Fulf) (taken : Int) (hI : QInv b) (hmo : mo.Nodup)
    (hm : 0 < mult.raw ∧ mult.raw ≤ PREC) (hAP : 0 ≤ A → 0 ≤ P.raw) (hC : ColInv b)
    (h : processWager b o betId ov mult mo ms thr A P = some (b', fulfs, taken))
    (hnn : ∀ fl ∈ fulfs, 0 ≤ fl.bet) : ColInv b' := by
  unfold processWager at h
  simp only [bind, Option.bind_eq_some_iff] at h
  obtain ⟨q, hq, f0, hf0, h⟩ := h
  have hL0 := initFInfo_LInv b o betId A P q f0 hI hq hf0
  have hf0' : f0.book = b ∧ f0.betAmount = A ∧ f0.payoutProfit = P := by
    unfold initFInfo at hf0
    simp only [bind, Option.bind_eq_some_iff, pure, Option.some.injEq] at hf0
    obtain ⟨_, _, _, _, _, _, _, _, rfl⟩ := hf0
    exact ⟨rfl, rfl, rfl⟩
  have hl := loop_col b o ov mult mo ms thr hmo hm q f0 hL0 (by rw [hf0'.1]; exact hC) (by rw [hf0'.2.1, hf0'.2.2]; exact hAP)
  generalize loop o ov mult mo ms thr q f0 = fL at hl h
  unfold finishWager at h
  split at h
  · cases h
  · split at h
    · cases h
    · simp only [Option.some.injEq, Prod.mk.injEq] at h
      obtain ⟨rfl, rfl, _⟩ := h
      exact (hl hnn).of_stores rfl rfl rfl

theorem wagerO_col {s s' : State} {c : Nat} {tk : Tk} {u : Nat} {a : Int} {pl : WagerPayload}
    (hI : ObInv s) (hC : ColSt s) (h : wagerO s c tk u a pl = some s')
    (hnn : ∀ t ∈ s'.bets, ∀ fl ∈ t.fulfs, 0 ≤ fl.bet) : ColSt s' := by
  have hI' := wagerO_obInv hI h
  unfold wagerO at h
  simp only [bind, Option.bind_eq_some_iff, pure, Option.some.injEq] at h
  obtain ⟨_, _, _, _, _, _, _, _, _, hmult, _, _, _, _, m, hm, _, _, _, _, _, _, _, _, _, _, _, _, ov, _, _, hov, b, hb, r, hr, s1, hs1, s2, hs2, rfl⟩ := h
  obtain ⟨b', fulfs, taken⟩ := r
  obtain ⟨bal1, _, rfl⟩ := bankSend_shape hs1
  obtain ⟨bal2, _, rfl⟩ := bankSend_shape hs2
  obtain ⟨hbm, hbu⟩ := getBook_mem hb
  have hmo : m.odds.Nodup := (allDistinct_iff_nodup m.odds).mp (hI.mkt m (getMarket_memQ hm))
  have hmult := chk_some hmult
  have hov := chk_some hov
  have hmr : 0 < pl.mult.raw ∧ pl.mult.raw ≤ PREC := by
    unfold multOk at hmult
    simpa using hmult
  have hovr : PREC < ov.raw := by simpa using hov
  have hAP : 0 ≤ a - s.params.betFee → 0 ≤ ((ov.mulInt (a - s.params.betFee)).sub (Dec.ofInt (a - s.params.betFee))).raw := by
    intro h0
    simp only [Dec.sub, Dec.mulInt, Dec.ofInt]
    have : 0 ≤ (ov.raw - PREC) * (a - s.params.betFee) := Int.mul_nonneg (by omega) h0
    rw [Int.sub_mul] at this
    rw [Int.mul_comm (a - s.params.betFee) PREC]
    omega
  have hfn : ∀ fl ∈ fulfs, 0 ≤ fl.bet := by
    apply hnn (newBet s c u pl ov fulfs)
    show newBet s c u pl ov fulfs ∈ upsert Bet.key (newBet s c u pl ov fulfs) s.bets
    exact (mem_upsert Bet.key _ _ s.bets).mpr (Or.inl rfl)
  have hx := processWager_col b b' pl.odds (s.betCount + 1) ov pl.mult m.odds pl.allOdds _ _ _ fulfs taken (hI.qinv b hbm) hmo hmr hAP
    (hC b hbm) hr hfn
  have h1 := hC.setBook b' hx
  exact h1.of_eq (by rfl)

-- ---------------------------------------------------------------------------------------------
-- the ghost hypothesis and its monotonicity: bets are only appended, their backing parts never change

/-- every backing part of every bet has a non-negative stake -/
def NonNegParts (s : State) : Prop := ∀ t ∈ s.bets, ∀ fl ∈ t.fulfs, 0 ≤ fl.bet

/-- every bet of `s` is still a bet of `s'`, with the same backing parts -/
def KeepF (s s' : State) : Prop := ∀ t ∈ s.bets, ∃ t' ∈ s'.bets, t'.fulfs = t.fulfs

theorem KeepF.refl (s : State) : KeepF s s := fun t ht => ⟨t, ht, rfl⟩
theorem KeepF.trans {a b c : State} (h1 : KeepF a b) (h2 : KeepF b c) : KeepF a c := by
  intro t ht
  obtain ⟨t', ht', e1⟩ := h1 t ht
  obtain ⟨t'', ht'', e2⟩ := h2 t' ht'
  exact ⟨t'', ht'', e2.trans e1⟩
theorem KeepF.of_eq {s s' : State} (e : s'.bets = s.bets) : KeepF s s' := fun t ht => ⟨t, by rw [e]; exact ht, rfl⟩
theorem KeepF.of_same {s s' : State} (e : SameBets s s') : KeepF s s' := KeepF.of_eq e.1

theorem KeepF.nonneg {s s' : State} (h : KeepF s s') (hn : NonNegParts s') : NonNegParts s := by
  intro t ht fl hfl
  obtain ⟨t', ht', e⟩ := h t ht
  exact hn t' ht' fl (by rw [e]; exact hfl)

theorem col_upsert_keep (x : Bet) (l : List Bet) (h : ∀ t ∈ l, (Bet.key t == Bet.key x) = true → x.fulfs = t.fulfs) :
    ∀ t ∈ l, ∃ t' ∈ upsert Bet.key x l, t'.fulfs = t.fulfs := by
  intro t ht
  cases hk : (Bet.key t == Bet.key x) with
  | true => exact ⟨x, (mem_upsert Bet.key x x l).mpr (Or.inl rfl), h t ht hk⟩
  | false => exact ⟨t, (mem_upsert Bet.key x t l).mpr (Or.inr (Or.inl ⟨ht, hk, trivial⟩)), rfl⟩

theorem settleBet_keepF {s s' : State} {c u : Nat} (hI : ObInv s) (h : settleBet s c u = some s') : KeepF s s' := by
  unfold settleBet at h
  simp only [bind, Option.bind_eq_some_iff] at h
  obtain ⟨bet0, _, bet, hbet, _, _, m, _, h⟩ := h
  have hkey : Bet.key bet = [c, bet0.id] := (lookup_memQ hbet).2
  have huniq : ∀ t ∈ s.bets, (Bet.key t == Bet.key bet) = true → t = bet := by
    intro t ht hk
    have h1 := mem_lookup Bet.key t s.bets hI.sT ht
    have hk' : Bet.key t = Bet.key bet := by simpa using hk
    rw [hk', hkey, hbet] at h1
    cases h1; rfl
  have hmark : ∀ (s2 : State) (bet' : Bet), s2.bets = s.bets → Bet.key bet' = Bet.key bet → bet'.fulfs = bet.fulfs →
      KeepF s (markSettled s2 bet') := by
    intro s2 bet' e1 e2 e3
    show ∀ t ∈ s.bets, ∃ t' ∈ upsert Bet.key { bet' with settleHeight := s2.height } s2.bets, t'.fulfs = t.fulfs
    rw [e1]
    apply col_upsert_keep
    intro t ht hk
    have : Bet.key ({ bet' with settleHeight := s2.height } : Bet) = Bet.key bet := e2
    rw [this] at hk
    rw [huniq t ht hk]
    exact e3
  split at h
  · unfold settleRefund at h
    simp only [bind, Option.bind_eq_some_iff, pure, Option.some.injEq] at h
    obtain ⟨s1, h1, s2, h2, rfl⟩ := h
    obtain ⟨_, _, rfl⟩ := bankSend_shape h1
    obtain ⟨_, _, rfl⟩ := bankSend_shape h2
    exact hmark _ _ rfl rfl rfl
  · simp only [Option.bind_eq_some_iff] at h
    obtain ⟨_, _, h⟩ := h
    unfold settleDeclared at h
    simp only [bind, Option.bind_eq_some_iff, pure, Option.some.injEq] at h
    obtain ⟨bk, hbk, r, hr, s2, h2, rfl⟩ := h
    obtain ⟨_, _, rfl⟩ := bankSend_shape h2
    exact hmark _ _ rfl rfl rfl

theorem settlePage_keepF : ∀ (page : List (Nat × Nat × Nat × Nat)) (s : State) (r : State × Nat),
    ObInv s → settlePage s page = some r → KeepF s r.1 := by
  intro page
  induction page with
  | nil => intro s r _ h; simp [settlePage] at h; rw [← h]; exact KeepF.refl s
  | cons pb rest ih =>
    intro s r hI h
    unfold settlePage at h
    simp only [bind, Option.bind_eq_some_iff, pure, Option.some.injEq] at h
    obtain ⟨s1, h1, r1, hr, rfl⟩ := h
    exact (settleBet_keepF hI h1).trans (ih _ r1 (settleBet_obInv hI h1) hr)

theorem betEndBlockStep_keepF {s : State} {mk n : Nat} {r : State × Nat} (hI : ObInv s) (h : betEndBlockStep s mk n = some r) :
    KeepF s r.1 := by
  unfold betEndBlockStep at h
  simp only [bind, Option.bind_eq_some_iff] at h
  obtain ⟨r0, h0, h⟩ := h
  have e0 := settlePage_keepF _ _ _ hI h0
  split at h
  · simp only [pure, Option.some.injEq] at h; rw [← h]; exact e0
  · simp only [Option.bind_eq_some_iff, pure, Option.some.injEq] at h
    obtain ⟨q, _, s2, h2, rfl⟩ := h
    have e1 : KeepF r0.1 { r0.1 with mqueue := q } := KeepF.of_eq rfl
    exact e0.trans (e1.trans (KeepF.of_same (bookResolved_same h2)))

theorem betEndBlock_keepF : ∀ (fuel : Nat) (s : State) (n : Nat) (s' : State),
    ObInv s → betEndBlock fuel s n = some s' → KeepF s s' := by
  intro fuel
  induction fuel with
  | zero => intro s n s' _ h; simp [betEndBlock] at h; rw [← h]; exact KeepF.refl s
  | succ fuel ih =>
    intro s n s' hI h
    unfold betEndBlock at h
    split at h
    · simp at h; rw [← h]; exact KeepF.refl s
    · split at h
      · simp at h; rw [← h]; exact KeepF.refl s
      · simp only [bind, Option.bind_eq_some_iff] at h
        obtain ⟨r, hr, h⟩ := h
        exact (betEndBlockStep_keepF hI hr).trans (ih _ _ _ (betEndBlockStep_obInv hI hr) h)

theorem endBlockO_keepF {s s' : State} (hI : ObInv s) (h : endBlockO s = some s') : KeepF s s' := by
  unfold endBlockO at h
  simp only [bind, Option.bind_eq_some_iff] at h
  obtain ⟨s1, h1, h2⟩ := h
  exact (betEndBlock_keepF _ _ _ _ hI h1).trans (KeepF.of_same (obEndBlock_same _ _ _ _ _ h2))

theorem wagerO_keepF {s s' : State} {c : Nat} {tk : Tk} {u : Nat} {a : Int} {pl : WagerPayload}
    (hI : ObInv s) (h : wagerO s c tk u a pl = some s') : KeepF s s' := by
  unfold wagerO at h
  simp only [bind, Option.bind_eq_some_iff, pure, Option.some.injEq] at h
  obtain ⟨_, _, _, _, _, _, _, _, _, _, _, _, _, _, m, _, _, _, _, _, _, _, _, _, _, _, _, _, ov, _, _, _, b, _, r, _, s1, hs1, s2, hs2, rfl⟩ := h
  obtain ⟨_, _, rfl⟩ := bankSend_shape hs1
  obtain ⟨_, _, rfl⟩ := bankSend_shape hs2
  show ∀ t ∈ s.bets, ∃ t' ∈ upsert Bet.key (newBet s c u pl ov r.2.1) s.bets, t'.fulfs = t.fulfs
  apply col_upsert_keep
  intro t ht hk
  exfalso
  have := hI.ids t ht
  simp only [Bet.key, newBet, beq_iff_eq, List.cons.injEq, and_true] at hk
  omega

theorem step_keepF (s : State) (op : Op) (hI : ObInv s) : KeepF s (step s op).1 := by
  cases op with
  | marketAdd c tk u st en o stt =>
    simp only [step, marketAdd, commit]
    cases h : marketAddO s c tk u st en o stt with
    | none => exact KeepF.refl s
    | some s' => exact KeepF.of_same (marketAddO_same h)
  | marketUpdate tk u st en stt =>
    simp only [step, marketUpdate, commit]
    cases h : marketUpdateO s tk u st en stt with
    | none => exact KeepF.refl s
    | some s' => exact KeepF.of_same (marketUpdateO_same h)
  | marketResolve tk u ts stt w =>
    simp only [step, marketResolve, commit]
    cases h : marketResolveO s tk u ts stt w with
    | none => exact KeepF.refl s
    | some s' => exact KeepF.of_same (marketResolveO_same h)
  | deposit c tk m a pd =>
    simp only [step, houseDeposit]
    cases h : houseDepositO s c tk m a pd with
    | none => exact KeepF.refl s
    | some r => exact KeepF.of_same (houseDepositO_same h)
  | withdraw c tk m i md a pd =>
    simp only [step, houseWithdraw, commit]
    cases h : houseWithdrawO s c tk m i md a pd with
    | none => exact KeepF.refl s
    | some s' => exact KeepF.of_same (houseWithdrawO_same h)
  | wager c tk u a pl =>
    simp only [step, wager, commit]
    cases h : wagerO s c tk u a pl with
    | none => exact KeepF.refl s
    | some s' => exact wagerO_keepF hI h
  | grant g e k l x => exact KeepF.of_eq rfl
  | revoke g e k => exact KeepF.of_eq rfl
  | send a b x =>
    simp only [step]
    split
    · exact KeepF.refl s
    · unfold commit
      cases h : bankSend s a b x with
      | none => exact KeepF.refl s
      | some s' => exact KeepF.of_same (bankSend_same h)
  | setParams p =>
    simp only [step]
    split
    · exact KeepF.of_eq rfl
    · exact KeepF.refl s
  | endBlock =>
    simp only [step, endBlock]
    cases h : endBlockO s with
    | none => exact KeepF.refl s
    | some s' => exact endBlockO_keepF hI h
  | newBlock h t => exact KeepF.of_eq rfl

theorem run_keepF (s : State) (ops : List Op) (hI : ObInv s) : KeepF s (run s ops) := by
  induction ops generalizing s with
  | nil => exact KeepF.refl s
  | cons op rest ih => exact (step_keepF s op hI).trans (ih _ (step_obInv s op hI))

-- ---------------------------------------------------------------------------------------------
-- every operation, every history

theorem step_col (s : State) (op : Op) (hI : ObInv s) (hC : ColSt s) (hnn : NonNegParts (step s op).1) :
    ColSt (step s op).1 := by
  cases op with
  | marketAdd c tk u st en o stt =>
    simp only [step, marketAdd, commit]
    cases h : marketAddO s c tk u st en o stt with
    | none => exact hC
    | some s' => exact marketAddO_col hC h
  | marketUpdate tk u st en stt =>
    simp only [step, marketUpdate, commit]
    cases h : marketUpdateO s tk u st en stt with
    | none => exact hC
    | some s' => exact marketUpdateO_col hC h
  | marketResolve tk u ts stt w =>
    simp only [step, marketResolve, commit]
    cases h : marketResolveO s tk u ts stt w with
    | none => exact hC
    | some s' => exact marketResolveO_col hC h
  | deposit c tk m a pd =>
    simp only [step, houseDeposit]
    cases h : houseDepositO s c tk m a pd with
    | none => exact hC
    | some r => exact houseDepositO_col hI hC h
  | withdraw c tk m i md a pd =>
    simp only [step, houseWithdraw, commit]
    cases h : houseWithdrawO s c tk m i md a pd with
    | none => exact hC
    | some s' => exact houseWithdrawO_col hI hC h
  | wager c tk u a pl =>
    simp only [step, wager, commit] at hnn ⊢
    cases h : wagerO s c tk u a pl with
    | none => exact hC
    | some s' =>
      rw [h] at hnn
      exact wagerO_col hI hC h hnn
  | grant g e k l x => exact hC.of_eq (by rfl)
  | revoke g e k => exact hC.of_eq (by rfl)
  | send a b x =>
    simp only [step]
    split
    · exact hC
    · unfold commit
      cases h : bankSend s a b x with
      | none => exact hC
      | some s' =>
        obtain ⟨_, _, rfl⟩ := bankSend_shape h
        exact hC.of_eq (by rfl)
  | setParams p =>
    simp only [step]
    split
    · exact hC.of_eq (by rfl)
    · exact hC
  | endBlock =>
    simp only [step, endBlock]
    cases h : endBlockO s with
    | none => exact hC
    | some s' => exact endBlockO_col hI hC h
  | newBlock h t => exact hC.of_eq (by rfl)

theorem run_col (s : State) (ops : List Op) (hI : ObInv s) (hC : ColSt s) (hnn : NonNegParts (run s ops)) :
    ColSt (run s ops) := by
  induction ops generalizing s with
  | nil => exact hC
  | cons op rest ih =>
    have hI1 := step_obInv s op hI
    have hn1 : NonNegParts (step s op).1 := (run_keepF (step s op).1 rest hI1).nonneg hnn
    exact ih _ hI1 (step_col s op hI hC hn1) hnn

theorem colSt_init (p : Params) (bal : List (Nat × Int)) (h t : Nat) :
    ColSt { bal := bal, params := p, height := h, time := t } := fun b hb => by cases hb

end Sge.Core
