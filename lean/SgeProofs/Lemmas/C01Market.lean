/- C01 per market: what the three custody accounts owe ON ACCOUNT OF ONE MARKET, the regrouping of the global custody
   ledgers of Custody.lean by market, and the link to `nh_bookDue` (NoHaltSolventPool.lean) -/
import SgeProofs.Properties.C05NoHalt
namespace Sge.Core
open Sge Sge.Genesis

/-- what the liquidity pool owes on account of market `m`: liquidity + realised profit of the unpaid participations of
    `m`'s book, plus the stakes of the unsettled bets on `m` (the summands of `owedPool`) -/
def c1m_owed (s : State) (m : Nat) : Int :=
  sumBy (fun b : Book => if b.uid == m then b.owed else 0) s.books
    + sumBy (fun y : Bet => if y.market == m then y.owedStake else 0) s.bets

/-- what the bet-fee collector owes on account of market `m`: the fees of the unsettled bets on `m` -/
def c1m_owedBetFee (s : State) (m : Nat) : Int := sumBy (fun y : Bet => if y.market == m then y.owedFee else 0) s.bets

/-- what the house-fee collector owes on account of market `m`: the fees of the unpaid participations of `m`'s book -/
def c1m_owedHouseFee (s : State) (m : Nat) : Int := sumBy (fun b : Book => if b.uid == m then b.owedFee else 0) s.books

/-- the uids of the markets that have an order book (every market gets one when it is added) -/
def c1m_markets (s : State) : List Nat := s.books.map (·.uid)

-- ---------------------------------------------------------------------------------------------
-- regrouping a sum by a key

/-- in a store keyed by `[u x]` exactly one element carries a uid that occurs -/
theorem c1m_indicator {α : Type} (key : α → List Nat) (u : α → Nat) (hk : ∀ x, key x = [u x]) (c : Int) (j : Nat) :
    ∀ (l : List α), Sorted key l → (∃ x ∈ l, u x = j) → sumBy (fun x => if j == u x then c else 0) l = c := by
  intro l
  induction l with
  | nil => intro _ ⟨x, hx, _⟩; cases hx
  | cons q qs ih =>
    intro hs hex
    have hs' := hs
    unfold Sorted at hs'
    rw [List.pairwise_cons] at hs'
    rw [sumBy_cons]
    by_cases e : u q = j
    · have hz : sumBy (fun x => if j == u x then c else 0) qs = 0 := by
        apply sumBy_zero
        intro p hp
        have hne := ltL_ne _ _ (hs'.1 p hp)
        have : ¬ j = u p := by
          intro e'
          rw [hk, hk, e, e'] at hne
          simp at hne
        simp [this]
      rw [hz]; simp [e]
    · obtain ⟨x, hx, hxu⟩ := hex
      rcases List.mem_cons.mp hx with rfl | hx
      · exact absurd hxu e
      · have := ih hs'.2 ⟨x, hx, hxu⟩
        have e' : ¬ j = u q := fun h => e h.symm
        simp only [beq_iff_eq, e', if_false]
        simp only [beq_iff_eq] at this
        omega

/-- a sum over `l` regrouped by the key `g`, the keys ranging over a keyed store that contains every key in use -/
theorem c1m_regroup {α β : Type} (key : β → List Nat) (u : β → Nat) (hk : ∀ x, key x = [u x]) (g : α → Nat) (f : α → Int)
    (ks : List β) (hs : Sorted key ks) (l : List α) (h : ∀ x ∈ l, ∃ k ∈ ks, u k = g x) :
    sumBy (fun k => sumBy (fun x => if g x == u k then f x else 0) l) ks = sumBy f l := by
  rw [nh_sumBy_swap]
  apply sumBy_congrSB
  intro x hx
  exact c1m_indicator key u hk (f x) (g x) ks hs (h x hx)

-- ---------------------------------------------------------------------------------------------
-- the three global ledgers are the sums of the per-market ledgers

theorem c1m_bet_has_book {s : State} (hI : ObInv s) : ∀ y ∈ s.bets, ∃ k ∈ s.books, k.uid = y.market := by
  intro y hy
  obtain ⟨b, hb, _⟩ := hI.wf y hy
  exact ⟨b, (getBook_mem hb).1, (getBook_mem hb).2⟩

theorem c1m_owedPool_regroup {s : State} (hI : ObInv s) :
    owedPool s = sumBy (c1m_owed s) (c1m_markets s) := by
  have e0 : sumBy (c1m_owed s) (c1m_markets s) = sumBy (fun k : Book => c1m_owed s k.uid) s.books := by
    unfold c1m_markets sumBy; rw [List.map_map]; rfl
  rw [e0]
  unfold c1m_owed owedPool
  rw [sumBy_add]
  rw [c1m_regroup Book.key Book.uid (fun _ => rfl) Book.uid Book.owed s.books hI.sB s.books (fun x hx => ⟨x, hx, rfl⟩),
    c1m_regroup Book.key Book.uid (fun _ => rfl) Bet.market Bet.owedStake s.books hI.sB s.bets (c1m_bet_has_book hI)]

theorem c1m_owedBetFee_regroup {s : State} (hI : ObInv s) :
    owedBetFee s = sumBy (c1m_owedBetFee s) (c1m_markets s) := by
  have e0 : sumBy (c1m_owedBetFee s) (c1m_markets s) = sumBy (fun k : Book => c1m_owedBetFee s k.uid) s.books := by
    unfold c1m_markets sumBy; rw [List.map_map]; rfl
  rw [e0]
  unfold c1m_owedBetFee owedBetFee
  rw [c1m_regroup Book.key Book.uid (fun _ => rfl) Bet.market Bet.owedFee s.books hI.sB s.bets (c1m_bet_has_book hI)]

theorem c1m_owedHouseFee_regroup {s : State} (hI : ObInv s) :
    owedHouseFee s = sumBy (c1m_owedHouseFee s) (c1m_markets s) := by
  have e0 : sumBy (c1m_owedHouseFee s) (c1m_markets s) = sumBy (fun k : Book => c1m_owedHouseFee s k.uid) s.books := by
    unfold c1m_markets sumBy; rw [List.map_map]; rfl
  rw [e0]
  unfold c1m_owedHouseFee owedHouseFee
  rw [c1m_regroup Book.key Book.uid (fun _ => rfl) Book.uid Book.owedFee s.books hI.sB s.books (fun x hx => ⟨x, hx, rfl⟩)]

-- ---------------------------------------------------------------------------------------------
-- the per-market pool ledger is what the book of the market is due

/-- the book part of the per-market ledger is the ledger of the market's book -/
theorem c1m_books_part {s : State} (hsB : Sorted Book.key s.books) (f : Book → Int) (m : Nat) :
    sumBy (fun b : Book => if b.uid == m then f b else 0) s.books =
      match getBook s m with
      | some b => f b
      | none => 0 := by
  cases hg : getBook s m with
  | none =>
    simp only
    apply sumBy_zero
    intro b hb
    have : ¬ b.uid = m := by
      intro e
      have := mem_getBook hsB hb
      rw [e, hg] at this; cases this
    simp [this]
  | some b =>
    simp only
    obtain ⟨hbm, hbu⟩ := getBook_mem hg
    have e1 : sumBy (fun x : Book => if x.uid == m then f x else 0) s.books =
        sumBy (fun x : Book => if m == x.uid then f b else 0) s.books := by
      apply sumBy_congrSB
      intro x hx
      by_cases e : x.uid = m
      · have : x = b := by
          have := mem_getBook hsB hx
          rw [e, hg] at this; cases this; rfl
        subst this
        simp [e]
      · have e' : ¬ m = x.uid := fun h => e h.symm
        simp [e, e']
    rw [e1]
    exact c1m_indicator Book.key Book.uid (fun _ => rfl) (f b) m s.books hsB ⟨b, hbm, hbu⟩

theorem c1m_stake_part (s : State) (m : Nat) :
    sumBy (fun y : Bet => if y.market == m then y.owedStake else 0) s.bets = nh_stakeOn s m := by
  unfold nh_stakeOn
  apply sumBy_congrSB
  intro y _
  unfold Bet.owedStake
  cases y.isOpen <;> cases (y.market == m) <;> simp

/-- for a market with a book, the per-market pool ledger is `nh_bookDue` of that book -/
theorem c1m_owed_eq_bookDue {s : State} (hsB : Sorted Book.key s.books) (b : Book) (hb : b ∈ s.books) :
    c1m_owed s b.uid = nh_bookDue s b := by
  unfold c1m_owed nh_bookDue
  rw [c1m_books_part hsB Book.owed b.uid, mem_getBook hsB hb, c1m_stake_part]

/-- for a uid without a book nothing is owed (no bet is on it) -/
theorem c1m_owed_no_book {s : State} (hI : ObInv s) (m : Nat) (hn : getBook s m = none) :
    c1m_owed s m = 0 ∧ c1m_owedBetFee s m = 0 ∧ c1m_owedHouseFee s m = 0 := by
  have hbets : ∀ y ∈ s.bets, ¬ y.market = m := by
    intro y hy e
    obtain ⟨b, hb, _⟩ := hI.wf y hy
    rw [e, hn] at hb; cases hb
  refine ⟨?_, ?_, ?_⟩
  · unfold c1m_owed
    rw [c1m_books_part hI.sB Book.owed m, hn]
    simp only
    rw [sumBy_zero _ _ (fun y hy => by simp [hbets y hy])]
    rfl
  · unfold c1m_owedBetFee
    exact sumBy_zero _ _ (fun y hy => by simp [hbets y hy])
  · unfold c1m_owedHouseFee
    rw [c1m_books_part hI.sB Book.owedFee m, hn]

/-- under weak solvency (which follows from the whole-history invariants when no backing part is negative) every
    per-market pool ledger is non-negative -/
theorem c1m_owed_nonneg {s : State} (hS : SettleInv s) (hI : ObInv s) (hH : HInv s) (hV : nh_Sol s) (m : Nat) :
    0 ≤ c1m_owed s m := by
  cases hg : getBook s m with
  | none => rw [(c1m_owed_no_book hI m hg).1]; exact Int.le_refl _
  | some b =>
    obtain ⟨hbm, hbu⟩ := getBook_mem hg
    rw [← hbu, c1m_owed_eq_bookDue hI.sB b hbm]
    exact nh_bookDue_nonneg hS hH hV b hbm

end Sge.Core
