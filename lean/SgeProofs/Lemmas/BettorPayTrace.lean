/-
  The bet-settlement phase of the end-block, traced: every bet record of the new state is a record of the old state,
  or the settled record written by ONE witnessed `Settle` call (`BpSettledAt`) on a so far unsettled record, made in a
  state of the same block (same height, same markets) that satisfies the bet-index invariant.
-/
import SgeProofs.Lemmas.BettorPay
namespace Sge.Core
open Sge Sge.Genesis

/-- bet `x` was settled by ONE `Settle` call, made in a state `τ` at height `h` with the markets `mks` that satisfies
    the bet-index invariant, stores `x` and lists it as pending; `m` is the market of the bet and `x'` the record
    that call wrote -/
def BpSettledAt (mks : List Market) (h : Nat) (x x' : Bet) : Prop :=
  ∃ (τ τ' : State) (m : Market), BetIdx τ ∧ τ.markets = mks ∧ τ.height = h ∧ x ∈ τ.bets ∧
    (x.market, x.id, x.uid, x.creator) ∈ τ.pending ∧
    settleBet τ x.creator x.uid = some τ' ∧ getMarket τ x.market = some m ∧ x' = bpSettledRec m x h ∧ x' ∈ τ'.bets

theorem BpSettledAt.status {mks : List Market} {h : Nat} {x x' : Bet} (hs : BpSettledAt mks h x x') :
    x'.status = BS_SETTLED := by
  obtain ⟨_, _, _, _, _, _, _, _, _, _, e, _⟩ := hs
  rw [e]; rfl

/-- one `Settle` call: every record afterwards is an old record or the witnessed settled record of the target -/
theorem bp_settleBet_origin {τ τ' : State} {c u : Nat} (hI : BetIdx τ) (h : settleBet τ c u = some τ') :
    τ'.height = τ.height ∧ τ'.markets = τ.markets ∧
    ∀ b' ∈ τ'.bets, b' ∈ τ.bets ∨ ∃ b0 ∈ τ.bets, b0.status ≠ BS_SETTLED ∧ BpSettledAt τ.markets τ.height b0 b' := by
  obtain ⟨b0, hb0, hu, hc, hns, _⟩ := settleBet_target hI h
  subst hu
  subst hc
  obtain ⟨_, m, hm, _, hbets, hmk, hh, _⟩ := bp_settleBet_exact hI hb0 h
  refine ⟨hh, hmk, ?_⟩
  intro b' hb'
  have hin : bpSettledRec m b0 τ.height ∈ τ'.bets := by
    rw [hbets]; exact mem_upsert_self Bet.key _ _
  rw [hbets] at hb'
  rcases mem_upsert_or Bet.key _ _ _ hb' with e | hold
  · exact Or.inr ⟨b0, hb0, hns, τ, τ', m, hI, rfl, rfl, hb0, hI.pendOf b0 hb0 hns, h, hm, e, by rw [e]; exact hin⟩
  · exact Or.inl hold

/-- the states before and after (part of) the bet-settlement phase of one block -/
structure BpTrace (s s' : State) : Prop where
  height : s'.height = s.height
  mks : s'.markets = s.markets
  origin : ∀ b' ∈ s'.bets, b' ∈ s.bets ∨ ∃ b0 ∈ s.bets, b0.status ≠ BS_SETTLED ∧ BpSettledAt s.markets s.height b0 b'

theorem BpTrace.of_eq {s s' : State} (e1 : s'.bets = s.bets) (e2 : s'.markets = s.markets) (e3 : s'.height = s.height) :
    BpTrace s s' :=
  ⟨e3, e2, fun b hb => Or.inl (by rw [← e1]; exact hb)⟩

theorem BpTrace.refl (s : State) : BpTrace s s := BpTrace.of_eq rfl rfl rfl

theorem BpTrace.trans {a b c : State} (h1 : BpTrace a b) (h2 : BpTrace b c) : BpTrace a c := by
  refine ⟨h2.height.trans h1.height, h2.mks.trans h1.mks, ?_⟩
  intro b' hb'
  rcases h2.origin b' hb' with h | ⟨b0, hb0, hns, hs⟩
  · exact h1.origin b' h
  · rcases h1.origin b0 hb0 with h | ⟨b00, _, _, hs0⟩
    · rw [h1.mks, h1.height] at hs
      exact Or.inr ⟨b0, h, hns, hs⟩
    · exact absurd hs0.status hns

theorem bp_settlePage_trace : ∀ (page : List (Nat × Nat × Nat × Nat)) (s : State) (r : State × Nat),
    BetIdx s → settlePage s page = some r → BpTrace s r.1 := by
  intro page
  induction page with
  | nil => intro s r _ h; simp [settlePage] at h; rw [← h]; exact BpTrace.refl s
  | cons pb rest ih =>
    intro s r hI h
    unfold settlePage at h
    simp only [bind, Option.bind_eq_some_iff, pure, Option.some.injEq] at h
    obtain ⟨s1, h1, r1, hr, rfl⟩ := h
    obtain ⟨o1, o2, o3⟩ := bp_settleBet_origin hI h1
    have g1 := settleBet_good hI h1
    exact BpTrace.trans ⟨o1, o2, o3⟩ (ih s1 r1 g1.1 hr)

theorem bp_betEndBlockStep_trace {s : State} {mk n : Nat} {r : State × Nat} (hI : BetIdx s)
    (h : betEndBlockStep s mk n = some r) : BpTrace s r.1 := by
  have hmk := betEndBlockStep_markets h
  unfold betEndBlockStep at h
  simp only [bind, Option.bind_eq_some_iff] at h
  obtain ⟨r0, h0, h⟩ := h
  have g0 := bp_settlePage_trace _ _ _ hI h0
  split at h
  · simp only [pure, Option.some.injEq] at h; rw [← h]; exact g0
  · simp only [Option.bind_eq_some_iff, pure, Option.some.injEq] at h
    obtain ⟨q, _, s2, h2, rfl⟩ := h
    have e : SameBets r0.1 s2 := by
      refine SameBets.trans ?_ (bookResolved_same h2)
      exact ⟨rfl, rfl, rfl, rfl, rfl⟩
    exact g0.trans (BpTrace.of_eq e.1 (hmk.trans g0.mks.symm) e.2.2.2.2)

theorem bp_betEndBlock_trace : ∀ (fuel : Nat) (s : State) (n : Nat) (s' : State),
    BetIdx s → betEndBlock fuel s n = some s' → BpTrace s s' := by
  intro fuel
  induction fuel with
  | zero => intro s n s' _ h; simp [betEndBlock] at h; rw [← h]; exact BpTrace.refl s
  | succ fuel ih =>
    intro s n s' hI h
    unfold betEndBlock at h
    split at h
    · simp at h; rw [← h]; exact BpTrace.refl s
    · split at h
      · simp at h; rw [← h]; exact BpTrace.refl s
      · simp only [bind, Option.bind_eq_some_iff] at h
        obtain ⟨r, hr, h⟩ := h
        have g1 := betEndBlockStep_good hI hr
        exact (bp_betEndBlockStep_trace hI hr).trans (ih _ _ _ g1.1 h)

theorem bp_endBlockO_trace {s s' : State} (hI : BetIdx s) (h : endBlockO s = some s') : BpTrace s s' := by
  have hmk := endBlockO_markets h
  unfold endBlockO at h
  simp only [bind, Option.bind_eq_some_iff] at h
  obtain ⟨s1, h1, h2⟩ := h
  have g1 := bp_betEndBlock_trace _ _ _ _ hI h1
  have e := obEndBlock_same _ _ _ _ _ h2
  exact g1.trans (BpTrace.of_eq e.1 (hmk.trans g1.mks.symm) e.2.2.2.2)

/-- THE SETTLEMENT OF A BET. If an operation turns the unsettled bet `x` into a settled record `x'` (same id), the
    operation is an end-block and `x'` was written by one witnessed `Settle` call on `x`, made in a state with the
    markets and the height of the old state. -/
theorem bp_step_settled (s : State) (op : Op) (hI : BetIdx s) (x : Bet) (hx : x ∈ s.bets) (hns : x.status ≠ BS_SETTLED)
    (x' : Bet) (hx' : x' ∈ (step s op).1.bets) (hid : x'.id = x.id) (hst : x'.status = BS_SETTLED) :
    op = .endBlock ∧ BpSettledAt s.markets s.height x x' := by
  have hold : x' ∉ s.bets := by
    intro hin
    rw [hI.idInj x' hin x hx hid] at hst
    exact hns hst
  rcases (step_good s op hI).2.2 x' hx' hst with hin | ⟨rfl, _⟩
  · exact absurd hin hold
  · refine ⟨rfl, ?_⟩
    simp only [step, endBlock] at hx'
    cases h : endBlockO s with
    | none => rw [h] at hx'; exact absurd hx' hold
    | some s' =>
      rw [h] at hx'
      rcases (bp_endBlockO_trace hI h).origin x' hx' with hin | ⟨b0, hb0, _, hs⟩
      · exact absurd hin hold
      · obtain ⟨_, _, _, _, _, _, _, _, _, _, e, _⟩ := id hs
        have : b0 = x := hI.idInj b0 hb0 x hx (by rw [← hid, e]; rfl)
        rw [this] at hs
        exact hs

end Sge.Core
