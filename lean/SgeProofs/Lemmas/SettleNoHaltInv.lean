/-
  C05 "block processing never aborts", part 3: well-formedness (`HInv`) is an invariant of every history: bets are
  PLACED or SETTLED, markets are open or carry a resolved status, and the backing parts of an unsettled bet name
  participations of the book of its market (ProcessWager only ever writes participations back under their own index).
-/
import SgeProofs.Lemmas.SettleNoHaltBlock
namespace Sge.Core
open Sge Sge.Genesis

-- ---------------------------------------------------------------------------------------------
-- ProcessWager never drops a participation, and every backing part it records names one

theorem keeps_of_parts {b b' : Book} (p : Part) (h : b'.parts = upsert Part.key p b.parts) : KeepsParts b b' := by
  intro i hi
  have : b'.getPart i = (b.setPart p).getPart i := by unfold Book.getPart Book.setPart; rw [h]
  rw [this]
  exact setPart_keeps b p i hi

theorem keeps_of_parts_eq {b b' : Book} (h : b'.parts = b.parts) : KeepsParts b b' := by
  intro i hi
  have : b'.getPart i = b.getPart i := by unfold Book.getPart; rw [h]
  rw [this]; exact hi

theorem requeue_keeps (f : FInfo) (p : Part) (e : PExp) (o : Nat) :
    KeepsParts f.book (requeue f p e o).book ∧ (requeue f p e o).fulfs = f.fulfs := by
  unfold requeue
  simp only
  have hr := rollFold_frame (decide ((0 : Int) < p.crl - maxI 0 p.crMaxLoss)) o p.idx (f.book.expsOfIdx p.idx) (f.book, e, f.fmap)
  generalize (f.book.expsOfIdx p.idx).foldl (rollOne (decide ((0 : Int) < p.crl - maxI 0 p.crMaxLoss)) o p.idx) (f.book, e, f.fmap) = R at hr
  split
  · refine ⟨?_, rfl⟩
    apply keeps_of_parts { p with crl := p.crl - maxI 0 p.crMaxLoss, notFilled := R.1.oddsCount, maxLoss := p.maxLoss + p.crMaxLoss, crTotalBet := 0, crMaxLoss := 0 }
    show (List.foldl _ _ _ : Book).parts = _
    rw [(requeueOddsFold_parts _ _ _).1]
    show upsert Part.key _ R.1.parts = _
    rw [hr.1]
  · refine ⟨?_, rfl⟩
    apply keeps_of_parts { p with crl := p.crl - maxI 0 p.crMaxLoss, notFilled := R.1.oddsCount, maxLoss := p.maxLoss + p.crMaxLoss, crTotalBet := 0, crMaxLoss := 0 }
    show upsert Part.key _ R.1.parts = _
    rw [hr.1]

theorem stage3_keeps (o : Nat) (x : Part × PExp × FInfo) :
    KeepsParts x.2.2.book (stage3 o x).book ∧ (stage3 o x).fulfs = x.2.2.fulfs := by
  unfold stage3
  simp only
  have h1 : KeepsParts x.2.2.book ((x.2.2.book.setExp x.2.1).setPart x.1) := keeps_of_parts x.1 rfl
  split
  · have := requeue_keeps { x.2.2 with book := (x.2.2.book.setExp x.2.1).setPart x.1 } x.1 x.2.1 o
    exact ⟨h1.trans this.1, this.2⟩
  · exact ⟨h1, rfl⟩

theorem stage2_fulfs (o : Nat) (mo : List Nat) (ms : List (Nat × Dec)) (thr : Int) (x : Part × PExp × Bool × FInfo) :
    (stage2 o mo ms thr x).2.2.fulfs = x.2.2.2.fulfs := by
  unfold stage2
  split
  · simp only
    split <;> rfl
  · rfl

/-- stage 1 records at most one new backing part, for the participation in hand -/
theorem stage1_fulfs (o : Nat) (ov mult : Dec) (thr : Int) (f : FInfo) (pe : Part × PExp) :
    ∀ fl ∈ (stage1 o ov mult thr f pe).2.2.2.fulfs, fl ∈ f.fulfs ∨ fl.idx = pe.1.idx := by
  unfold stage1
  simp only
  split
  · intro fl hfl
    simp only [List.mem_append, List.mem_singleton] at hfl
    rcases hfl with h | h
    · exact Or.inl h
    · right
      rw [h]
      exact (applyFul_sameCust o pe.1 pe.2 _ _).1
  · intro fl hfl; exact Or.inl hfl

theorem visit_keeps {b0 : Book} (o : Nat) (ov mult : Dec) (mo : List Nat) (ms : List (Nat × Dec)) (thr : Int)
    (f : FInfo) (i : Nat) (h : WInv b0 f) :
    KeepsParts f.book (visit o ov mult mo ms thr f i).book ∧
    ∀ fl ∈ (visit o ov mult mo ms thr f i).fulfs, fl ∈ f.fulfs ∨ (f.book.getPart fl.idx).isSome = true := by
  unfold visit
  split
  · exact ⟨KeepsParts.refl _, fun fl hfl => Or.inl hfl⟩
  · rename_i pe hpe
    unfold FInfo.item at hpe
    simp only [Option.map_eq_some_iff] at hpe
    obtain ⟨x, hx, rfl⟩ := hpe
    have hxm := List.mem_of_find?_eq_some hx
    obtain ⟨q, hq, hcq⟩ := h.fmapOk x hxm
    have hqi := Book.getPart_idx hq
    have s1 := stage1_frame o ov mult thr f (x.2.1, x.2.2)
    have s2 := stage2_frame o mo ms thr (stage1 o ov mult thr f (x.2.1, x.2.2))
    have k3 := stage3_keeps o (stage2 o mo ms thr (stage1 o ov mult thr f (x.2.1, x.2.2)))
    have hk12 : KeepsParts f.book (stage2 o mo ms thr (stage1 o ov mult thr f (x.2.1, x.2.2))).2.2.book :=
      keeps_of_parts_eq (s2.2.1.trans s1.2.1)
    refine ⟨hk12.trans k3.1, ?_⟩
    intro fl hfl
    rw [k3.2, stage2_fulfs] at hfl
    rcases stage1_fulfs o ov mult thr f (x.2.1, x.2.2) fl hfl with h' | h'
    · exact Or.inl h'
    · right
      have : fl.idx = x.1 := by rw [h']; show x.2.1.idx = x.1; rw [hcq.1]; exact hqi
      rw [this, hq]; rfl

theorem loop_keeps {b0 : Book} (o : Nat) (ov mult : Dec) (mo : List Nat) (ms : List (Nat × Dec)) (thr : Int) :
    ∀ (qs : List Nat) (f : FInfo), WInv b0 f →
    KeepsParts f.book (loop o ov mult mo ms thr qs f).book ∧
    ∀ fl ∈ (loop o ov mult mo ms thr qs f).fulfs, fl ∈ f.fulfs ∨ ((loop o ov mult mo ms thr qs f).book.getPart fl.idx).isSome = true := by
  intro qs
  induction qs with
  | nil => intro f _; exact ⟨KeepsParts.refl _, fun fl hfl => Or.inl hfl⟩
  | cons i rest ih =>
    intro f h
    have hv := visit_keeps o ov mult mo ms thr f i h
    have hW := visit_WInv o ov mult mo ms thr f i h
    have hvis : KeepsParts f.book (visit o ov mult mo ms thr f i).book ∧
        ∀ fl ∈ (visit o ov mult mo ms thr f i).fulfs, fl ∈ f.fulfs ∨ ((visit o ov mult mo ms thr f i).book.getPart fl.idx).isSome = true := by
      refine ⟨hv.1, ?_⟩
      intro fl hfl
      rcases hv.2 fl hfl with h' | h'
      · exact Or.inl h'
      · exact Or.inr (hv.1 fl.idx h')
    unfold loop
    simp only
    split
    · exact hvis
    · split
      · exact hvis
      · have hr := ih (visit o ov mult mo ms thr f i) hW
        refine ⟨hvis.1.trans hr.1, ?_⟩
        intro fl hfl
        rcases hr.2 fl hfl with h' | h'
        · rcases hvis.2 fl h' with h'' | h''
          · exact Or.inl h''
          · exact Or.inr (hr.1 fl.idx h'')
        · exact Or.inr h'

/-- ProcessWager keeps every participation of the book, and every backing part it returns names one -/
theorem processWager_keeps (b b' : Book) (o betId : Nat) (ov mult : Dec) (mo : List Nat) (ms : List (Nat × Dec))
    (thr A : Int) (P : Dec) (fulfs : List Fulf) (taken : Int) (hs : Sorted Part.key b.parts)
    (h : processWager b o betId ov mult mo ms thr A P = some (b', fulfs, taken)) :
    KeepsParts b b' ∧ ∀ fl ∈ fulfs, (b'.getPart fl.idx).isSome = true := by
  unfold processWager at h
  simp only [bind, Option.bind_eq_some_iff] at h
  obtain ⟨q, _, f0, hf0, h⟩ := h
  have hf0' := hf0
  unfold initFInfo at hf0
  simp only [bind, Option.bind_eq_some_iff, pure, Option.some.injEq] at hf0
  obtain ⟨_, _, _, _, _, _, _, _, hf0⟩ := hf0
  have hbook : f0.book = b := by rw [← hf0]
  have hful : f0.fulfs = [] := by rw [← hf0]
  have hW0 : WInv b f0 := by
    rw [← hf0]
    refine ⟨hs, rfl, rfl, ?_, rfl, fun q hq => ⟨q, hq, Part.sameCust.refl _⟩⟩
    intro x hx
    simp only [List.mem_map] at hx
    obtain ⟨p, hp, rfl⟩ := hx
    exact ⟨p, lookup_of_mem_sorted Part.key p b.parts hs hp, Part.sameCust.refl _⟩
  have hl := loop_keeps o ov mult mo ms thr q f0 hW0
  unfold finishWager at h
  split at h
  · cases h
  · split at h
    · cases h
    · simp only [Option.some.injEq, Prod.mk.injEq] at h
      obtain ⟨h1, h2, _⟩ := h
      have hk : KeepsParts b b' := by
        rw [← h1, ← hbook]
        exact hl.1.trans (keeps_of_parts_eq rfl)
      refine ⟨hk, ?_⟩
      intro fl hfl
      rw [← h2] at hfl
      rcases hl.2 fl hfl with h' | h'
      · rw [hful] at h'; cases h'
      · rw [← h1]
        exact keeps_of_parts_eq (b := (loop o ov mult mo ms thr q f0).book) rfl fl.idx h'

end Sge.Core
