/-
  C05 "block processing never aborts", part 3: well-formedness (`HInv`) is an invariant of every history: bets are
  PLACED or SETTLED, markets are open or carry a resolved status, and the backing parts of an unsettled bet name
  participations of the book of its market (ProcessWager only ever writes participations back under their own index).
-/
import SgeProofs.Lemmas.SettleNoHaltBlock
namespace Sge.Core
open Sge Sge.Genesis

-- ---------------------------------------------------------------------------------------------
-- ProcessWager never drops a participation, and every backing part it records names one

theorem keeps_of_parts {b b' : Book} (p : Part) (h : b'.parts = upsert Part.key p b.parts) : KeepsParts b b' := by
  intro i hi
  have : b'.getPart i = (b.setPart p).getPart i := by unfold Book.getPart Book.setPart; rw [h]
  rw [this]
  exact setPart_keeps b p i hi

theorem keeps_of_parts_eq {b b' : Book} (h : b'.parts = b.parts) : KeepsParts b b' := by
  intro i hi
  have : b'.getPart i = b.getPart i := by unfold Book.getPart; rw [h]
  rw [this]; exact hi

theorem requeue_keeps (f : FInfo) (p : Part) (e : PExp) (o : Nat) :
    KeepsParts f.book (requeue f p e o).book ∧ (requeue f p e o).fulfs = f.fulfs := by
  unfold requeue
  simp only
  have hr := rollFold_frame (decide ((0 : Int) < p.crl - maxI 0 p.crMaxLoss)) o p.idx (f.book.expsOfIdx p.idx) (f.book, e, f.fmap)
  generalize (f.book.expsOfIdx p.idx).foldl (rollOne (decide ((0 : Int) < p.crl - maxI 0 p.crMaxLoss)) o p.idx) (f.book, e, f.fmap) = R at hr
  split
  · refine ⟨?_, rfl⟩
    apply keeps_of_parts { p with crl := p.crl - maxI 0 p.crMaxLoss, notFilled := R.1.oddsCount, maxLoss := p.maxLoss + p.crMaxLoss, crTotalBet := 0, crMaxLoss := 0 }
    show (List.foldl _ _ _ : Book).parts = _
    rw [(requeueOddsFold_parts _ _ _).1]
    show upsert Part.key _ R.1.parts = _
    rw [hr.1]
  · refine ⟨?_, rfl⟩
    apply keeps_of_parts { p with crl := p.crl - maxI 0 p.crMaxLoss, notFilled := R.1.oddsCount, maxLoss := p.maxLoss + p.crMaxLoss, crTotalBet := 0, crMaxLoss := 0 }
    show upsert Part.key _ R.1.parts = _
    rw [hr.1]

theorem stage3_keeps (o : Nat) (x : Part × PExp × FInfo) :
    KeepsParts x.2.2.book (stage3 o x).book ∧ (stage3 o x).fulfs = x.2.2.fulfs := by
  unfold stage3
  simp only
  have h1 : KeepsParts x.2.2.book ((x.2.2.book.setExp x.2.1).setPart x.1) := keeps_of_parts x.1 rfl
  split
  · have := requeue_keeps { x.2.2 with book := (x.2.2.book.setExp x.2.1).setPart x.1 } x.1 x.2.1 o
    exact ⟨h1.trans this.1, this.2⟩
  · exact ⟨h1, rfl⟩

theorem stage2_fulfs (o : Nat) (mo : List Nat) (ms : List (Nat × Dec)) (thr : Int) (x : Part × PExp × Bool × FInfo) :
    (stage2 o mo ms thr x).2.2.fulfs = x.2.2.2.fulfs := by
  unfold stage2
  split
  · simp only
    split <;> rfl
  · rfl

/-- stage 1 records at most one new backing part, for the participation in hand -/
theorem stage1_fulfs (o : Nat) (ov mult : Dec) (thr : Int) (f : FInfo) (pe : Part × PExp) :
    ∀ fl ∈ (stage1 o ov mult thr f pe).2.2.2.fulfs, fl ∈ f.fulfs ∨ fl.idx = pe.1.idx := by
  unfold stage1
  simp only
  split
  · intro fl hfl
    simp only [List.mem_append, List.mem_singleton] at hfl
    rcases hfl with h | h
    · exact Or.inl h
    · right
      rw [h]
      exact (applyFul_sameCust o pe.1 pe.2 _ _).1
  · intro fl hfl; exact Or.inl hfl

theorem visit_keeps {b0 : Book} (o : Nat) (ov mult : Dec) (mo : List Nat) (ms : List (Nat × Dec)) (thr : Int)
    (f : FInfo) (i : Nat) (h : WInv b0 f) :
    KeepsParts f.book (visit o ov mult mo ms thr f i).book ∧
    ∀ fl ∈ (visit o ov mult mo ms thr f i).fulfs, fl ∈ f.fulfs ∨ (f.book.getPart fl.idx).isSome = true := by
  unfold visit
  split
  · exact ⟨KeepsParts.refl _, fun fl hfl => Or.inl hfl⟩
  · rename_i pe hpe
    unfold FInfo.item at hpe
    simp only [Option.map_eq_some_iff] at hpe
    obtain ⟨x, hx, rfl⟩ := hpe
    have hxm := List.mem_of_find?_eq_some hx
    obtain ⟨q, hq, hcq⟩ := h.fmapOk x hxm
    have hqi := Book.getPart_idx hq
    have s1 := stage1_frame o ov mult thr f (x.2.1, x.2.2)
    have s2 := stage2_frame o mo ms thr (stage1 o ov mult thr f (x.2.1, x.2.2))
    have k3 := stage3_keeps o (stage2 o mo ms thr (stage1 o ov mult thr f (x.2.1, x.2.2)))
    have hk12 : KeepsParts f.book (stage2 o mo ms thr (stage1 o ov mult thr f (x.2.1, x.2.2))).2.2.book :=
      keeps_of_parts_eq (s2.2.1.trans s1.2.1)
    refine ⟨hk12.trans k3.1, ?_⟩
    intro fl hfl
    rw [k3.2, stage2_fulfs] at hfl
    rcases stage1_fulfs o ov mult thr f (x.2.1, x.2.2) fl hfl with h' | h'
    · exact Or.inl h'
    · right
      have : fl.idx = x.1 := by rw [h']; show x.2.1.idx = x.1; rw [hcq.1]; exact hqi
      rw [this, hq]; rfl

theorem loop_keeps {b0 : Book} (o : Nat) (ov mult : Dec) (mo : List Nat) (ms : List (Nat × Dec)) (thr : Int) :
    ∀ (qs : List Nat) (f : FInfo), WInv b0 f →
    KeepsParts f.book (loop o ov mult mo ms thr qs f).book ∧
    ∀ fl ∈ (loop o ov mult mo ms thr qs f).fulfs, fl ∈ f.fulfs ∨ ((loop o ov mult mo ms thr qs f).book.getPart fl.idx).isSome = true := by
  intro qs
  induction qs with
  | nil => intro f _; exact ⟨KeepsParts.refl _, fun fl hfl => Or.inl hfl⟩
  | cons i rest ih =>
    intro f h
    have hv := visit_keeps o ov mult mo ms thr f i h
    have hW := visit_WInv o ov mult mo ms thr f i h
    have hvis : KeepsParts f.book (visit o ov mult mo ms thr f i).book ∧
        ∀ fl ∈ (visit o ov mult mo ms thr f i).fulfs, fl ∈ f.fulfs ∨ ((visit o ov mult mo ms thr f i).book.getPart fl.idx).isSome = true := by
      refine ⟨hv.1, ?_⟩
      intro fl hfl
      rcases hv.2 fl hfl with h' | h'
      · exact Or.inl h'
      · exact Or.inr (hv.1 fl.idx h')
    unfold loop
    simp only
    split
    · exact hvis
    · split
      · exact hvis
      · have hr := ih (visit o ov mult mo ms thr f i) hW
        refine ⟨hvis.1.trans hr.1, ?_⟩
        intro fl hfl
        rcases hr.2 fl hfl with h' | h'
        · rcases hvis.2 fl h' with h'' | h''
          · exact Or.inl h''
          · exact Or.inr (hr.1 fl.idx h'')
        · exact Or.inr h'

/-- ProcessWager keeps every participation of the book, and every backing part it returns names one -/
theorem processWager_keeps (b b' : Book) (o betId : Nat) (ov mult : Dec) (mo : List Nat) (ms : List (Nat × Dec))
    (thr A : Int) (P : Dec) (fulfs : List Fulf) (taken : Int) (hs : Sorted Part.key b.parts)
    (h : processWager b o betId ov mult mo ms thr A P = some (b', fulfs, taken)) :
    KeepsParts b b' ∧ ∀ fl ∈ fulfs, (b'.getPart fl.idx).isSome = true := by
  unfold processWager at h
  simp only [bind, Option.bind_eq_some_iff] at h
  obtain ⟨q, _, f0, hf0, h⟩ := h
  have hf0' := hf0
  unfold initFInfo at hf0
  simp only [bind, Option.bind_eq_some_iff, pure, Option.some.injEq] at hf0
  obtain ⟨_, _, _, _, _, _, _, _, hf0⟩ := hf0
  have hbook : f0.book = b := by rw [← hf0]
  have hful : f0.fulfs = [] := by rw [← hf0]
  have hW0 : WInv b f0 := by
    rw [← hf0]
    refine ⟨hs, rfl, rfl, ?_, rfl, fun q hq => ⟨q, hq, Part.sameCust.refl _⟩⟩
    intro x hx
    simp only [List.mem_map] at hx
    obtain ⟨p, hp, rfl⟩ := hx
    exact ⟨p, lookup_of_mem_sorted Part.key p b.parts hs hp, Part.sameCust.refl _⟩
  have hl := loop_keeps o ov mult mo ms thr q f0 hW0
  unfold finishWager at h
  split at h
  · cases h
  · split at h
    · cases h
    · simp only [Option.some.injEq, Prod.mk.injEq] at h
      obtain ⟨h1, h2, _⟩ := h
      have hk : KeepsParts b b' := by
        rw [← h1, ← hbook]
        exact hl.1.trans (keeps_of_parts_eq rfl)
      refine ⟨hk, ?_⟩
      intro fl hfl
      rw [← h2] at hfl
      rcases hl.2 fl hfl with h' | h'
      · rw [hful] at h'; cases h'
      · rw [← h1]
        exact keeps_of_parts_eq (b := (loop o ov mult mo ms thr q f0).book) rfl fl.idx h'

-- ---------------------------------------------------------------------------------------------
-- messages keep well-formedness

/-- the common argument: new bets are PLACED with existing backing participations, new market records are open or
    resolved, and no participation of any book disappears -/
theorem HInv.of_frame {s s' : State} (hH : HInv s)
    (hbets : ∀ x ∈ s'.bets, x ∈ s.bets ∨ (x.status = BS_PLACED ∧
      ∀ f ∈ x.fulfs, ∃ b p, getBook s' x.market = some b ∧ b.getPart f.idx = some p))
    (hmk : ∀ m ∈ s'.markets, m ∈ s.markets ∨ isOpenStatus m.status = true ∨ isResolvedStatus m.status = true)
    (hbooks : ∀ u b, getBook s u = some b → ∃ b', getBook s' u = some b' ∧ KeepsParts b b') : HInv s' := by
  refine ⟨?_, ?_, ?_⟩
  · intro x hx
    rcases hbets x hx with h | h
    · exact hH.betStatus x h
    · exact Or.inl h.1
  · intro m hm
    rcases hmk m hm with h | h
    · exact hH.marketStatus m h
    · exact h
  · intro x hx ho f hf
    rcases hbets x hx with h | h
    · obtain ⟨b, p, h1, h2⟩ := hH.fulfParts x h ho f hf
      obtain ⟨b', h3, hk⟩ := hbooks _ _ h1
      obtain ⟨p', hp'⟩ := Option.isSome_iff_exists.mp (hk f.idx (by rw [h2]; rfl))
      exact ⟨b', p', h3, hp'⟩
    · exact h.2 f hf

theorem HInv.of_eq {s s' : State} (hH : HInv s) (h1 : s'.bets = s.bets) (h2 : s'.markets = s.markets) (h3 : s'.books = s.books) :
    HInv s' :=
  hH.of_frame (fun x hx => Or.inl (by rw [← h1]; exact hx)) (fun m hm => Or.inl (by rw [← h2]; exact hm))
    (fun u b hb => ⟨b, by rw [getBook_congr h3]; exact hb, KeepsParts.refl b⟩)

/-- one book is replaced by a copy that keeps its participations -/
theorem books_keep {s : State} {bk B : Book} (books' : List Book) (hb : getBook s B.uid = some bk)
    (hbooks : books' = upsert Book.key B s.books) (hk : KeepsParts bk B) (u : Nat) (b : Book) (h : getBook s u = some b) :
    ∃ b', lookup Book.key [u] books' = some b' ∧ KeepsParts b b' := by
  by_cases hu : B.uid = u
  · subst hu
    rw [hb] at h; cases h
    exact ⟨B, by rw [hbooks]; exact lookup_upsert_self Book.key B s.books, hk⟩
  · refine ⟨b, ?_, KeepsParts.refl b⟩
    rw [hbooks, lookup_upsert_ne Book.key B [u] s.books (by simp [Book.key, hu])]
    exact h

theorem step_hinv_msg (s : State) (op : Op) (hS : SettleInv s) (hH : HInv s) (hne : op ≠ .endBlock) :
    HInv (step s op).1 := by
  cases op with
  | marketAdd c tk u st en o stt =>
    simp only [step, marketAdd, commit]
    cases h : marketAddO s c tk u st en o stt with
    | none => exact hH
    | some s' =>
      unfold marketAddO at h
      simp only [bind, Option.bind_eq_some_iff, pure, Option.some.injEq] at h
      obtain ⟨_, _, _, _, _, hop, _, _, _, _, _, _, _, hbn, rfl⟩ := h
      have hop : isOpenStatus stt = true := chk_some hop
      have hbn : getBook s u = none := by simpa using chk_some hbn
      refine hH.of_frame (fun x hx => Or.inl hx) ?_ ?_
      · intro m hm
        rcases mem_upsert_or Market.key _ m s.markets hm with rfl | hm
        · exact Or.inr (Or.inl hop)
        · exact Or.inl hm
      · intro v b hb
        have hne : u ≠ v := by intro e; subst e; rw [hbn] at hb; cases hb
        exact ⟨b, by
          show getBook (setBook s (newBook u o)) v = some b
          rw [getBook_setBook_neSB _ _ _ (by show (newBook u o).uid ≠ v; exact hne)]; exact hb, KeepsParts.refl b⟩
  | marketUpdate tk u st en stt =>
    simp only [step, marketUpdate, commit]
    cases h : marketUpdateO s tk u st en stt with
    | none => exact hH
    | some s' =>
      unfold marketUpdateO at h
      simp only [bind, Option.bind_eq_some_iff, pure, Option.some.injEq] at h
      obtain ⟨_, _, m0, _, _, _, _, hop, _, _, rfl⟩ := h
      have hop : isOpenStatus stt = true := chk_some hop
      refine hH.of_frame (fun x hx => Or.inl hx) ?_ (fun v b hb => ⟨b, hb, KeepsParts.refl b⟩)
      intro m hm
      rcases mem_upsert_or Market.key _ m s.markets hm with rfl | hm
      · exact Or.inr (Or.inl hop)
      · exact Or.inl hm
  | marketResolve tk u ts stt w =>
    simp only [step, marketResolve, commit]
    cases h : marketResolveO s tk u ts stt w with
    | none => exact hH
    | some s' =>
      obtain ⟨_, _, _, hrs, _, _⟩ := c07_resolve h
      unfold marketResolveO at h
      simp only [bind, Option.bind_eq_some_iff, pure, Option.some.injEq] at h
      obtain ⟨_, _, _, _, m0, _, _, _, _, _, rfl⟩ := h
      refine hH.of_frame (fun x hx => Or.inl hx) ?_ (fun v b hb => ⟨b, hb, KeepsParts.refl b⟩)
      intro m hm
      rcases mem_upsert_or Market.key _ m s.markets hm with rfl | hm
      · exact Or.inr (Or.inr hrs)
      · exact Or.inl hm
  | deposit c tk mk a pd =>
    simp only [step, houseDeposit]
    cases h : houseDepositO s c tk mk a pd with
    | none => exact hH
    | some r =>
      unfold houseDepositO at h
      simp only [bind, Option.bind_eq_some_iff, pure, Option.some.injEq] at h
      obtain ⟨_, _, _, _, _, _, s1, hs1, _, _, m, _, b, hb, _, _, _, _, _, _, _, _, s2, hs2, s3, hs3, rfl⟩ := h
      obtain ⟨gs, rfl⟩ := grantStep_shape hs1
      obtain ⟨_, _, rfl⟩ := bankSend_shape hs2
      obtain ⟨_, _, rfl⟩ := bankSend_shape hs3
      have hb : getBook s mk = some b := hb
      obtain ⟨_, hbu⟩ := getBook_mem hb
      obtain ⟨e1, _, e3⟩ := addParticipation_shape b (depositFor c pd) (a - (s.params.houseFee.mulInt a).roundInt)
        (s.params.houseFee.mulInt a).roundInt
      refine hH.of_frame (fun x hx => Or.inl hx) (fun m hm => Or.inl hm) ?_
      exact books_keep _ (by rw [e1, hbu]; exact hb) rfl (keeps_of_parts _ e3)
  | withdraw c tk mk i md a pd =>
    simp only [step, houseWithdraw, commit]
    cases h : houseWithdrawO s c tk mk i md a pd with
    | none => exact hH
    | some s' =>
      unfold houseWithdrawO at h
      simp only [bind, Option.bind_eq_some_iff, pure, Option.some.injEq] at h
      obtain ⟨_, _, _, _, _, _, _, _, _, _, d, _, b, hb, _, _, w, _, s1, hs1, p, hpp, s2, hs2, b', hb', rfl⟩ := h
      obtain ⟨gs, rfl⟩ := grantStep_shape hs1
      obtain ⟨_, _, rfl⟩ := bankSend_shape hs2
      obtain ⟨_, hbu⟩ := getBook_mem hb
      obtain ⟨e1, _, e3⟩ := withdraw_shape hpp hb'
      refine hH.of_frame (fun x hx => Or.inl hx) (fun m hm => Or.inl hm) ?_
      exact books_keep _ (by rw [e1, hbu]; exact hb) rfl (keeps_of_parts _ e3)
  | wager c tk u a pl =>
    simp only [step, wager, commit]
    cases h : wagerO s c tk u a pl with
    | none => exact hH
    | some s' =>
      unfold wagerO at h
      simp only [bind, Option.bind_eq_some_iff, pure, Option.some.injEq] at h
      obtain ⟨_, _, _, _, _, _, _, _, _, _, _, _, _, _, m, _, _, _, _, _, _, _, _, _, _, _, _, _, ov, _, _, _, b, hb, r, hr,
        s1, hs1, s2, hs2, rfl⟩ := h
      obtain ⟨b', fulfs, taken⟩ := r
      obtain ⟨_, _, rfl⟩ := bankSend_shape hs1
      obtain ⟨_, _, rfl⟩ := bankSend_shape hs2
      obtain ⟨hbm, hbu⟩ := getBook_mem hb
      have hu' := processWager_uid _ _ _ _ _ _ _ _ _ _ _ _ _ hr
      obtain ⟨hk, hfp⟩ := processWager_keeps _ _ _ _ _ _ _ _ _ _ _ _ _ (hS.sortedParts b hbm) hr
      have hgb' : lookup Book.key [pl.market] (upsert Book.key b' s.books) = some b' := by
        have := lookup_upsert_self Book.key b' s.books
        rw [show Book.key b' = [pl.market] from by show [b'.uid] = _; rw [hu', hbu]] at this
        exact this
      refine hH.of_frame ?_ (fun m hm => Or.inl hm) ?_
      · intro x hx
        rcases mem_upsert_or Bet.key _ x s.bets hx with rfl | hx
        · refine Or.inr ⟨rfl, ?_⟩
          intro f hf
          obtain ⟨p', hp'⟩ := Option.isSome_iff_exists.mp (hfp f hf)
          exact ⟨b', p', hgb', hp'⟩
        · exact Or.inl hx
      · exact books_keep _ (by rw [hu', hbu]; exact hb) rfl hk
  | grant g e k l x => exact hH.of_eq rfl rfl rfl
  | revoke g e k => exact hH.of_eq rfl rfl rfl
  | send a b x =>
    simp only [step]
    split
    · exact hH
    · unfold commit
      cases h : bankSend s a b x with
      | none => exact hH
      | some s' =>
        obtain ⟨_, _, rfl⟩ := bankSend_shape h
        exact hH.of_eq rfl rfl rfl
  | setParams p =>
    simp only [step]
    split
    · exact hH.of_eq rfl rfl rfl
    · exact hH
  | endBlock => exact absurd rfl hne
  | newBlock h t => exact hH.of_eq rfl rfl rfl

theorem hinv_init (p : Params) (bal : List (Nat × Int)) (h t : Nat) :
    HInv { bal := bal, params := p, height := h, time := t } :=
  ⟨(fun _ hx => nomatch hx), (fun _ hm => nomatch hm), (fun _ hx => nomatch hx)⟩

-- ---------------------------------------------------------------------------------------------
-- histories

theorem commit_not_halt (s : State) (r : Option State) : (commit s r).2 ≠ .halt := by
  unfold commit
  cases r <;> exact fun e => nomatch e

/-- only an end-block can halt -/
theorem step_msg_not_halt (s : State) (op : Op) (hne : op ≠ .endBlock) : (step s op).2 ≠ .halt := by
  cases op with
  | marketAdd c tk u st en o stt => exact commit_not_halt _ _
  | marketUpdate tk u st en stt => exact commit_not_halt _ _
  | marketResolve tk u ts stt w => exact commit_not_halt _ _
  | deposit c tk m a pd =>
    simp only [step, houseDeposit]
    cases houseDepositO s c tk m a pd <;> exact fun e => nomatch e
  | withdraw c tk m i md a pd => exact commit_not_halt _ _
  | wager c tk u a pl => exact commit_not_halt _ _
  | grant g e k l x => exact fun e => nomatch e
  | revoke g e k => exact fun e => nomatch e
  | send a b x =>
    simp only [step]
    split
    · exact fun e => nomatch e
    · exact commit_not_halt _ _
  | setParams p =>
    simp only [step]
    split <;> exact fun e => nomatch e
  | endBlock => exact absurd rfl hne
  | newBlock h t => exact fun e => nomatch e

/-- the state is solvent at the start of every end-block of the history -/
def solventAtEnds : State → List Op → Prop
  | _, [] => True
  | s, op :: rest => (op.isEnd = true → Solvent s) ∧ solventAtEnds (step s op).1 rest

/-- C05: through a history signed by user accounts in which the state is solvent whenever an end-block starts, no
    end-block halts, and reachability and well-formedness are kept -/
theorem run_no_halt : ∀ (ops : List Op) (s : State), Reach s → HInv s → signedOk ops = true → solventAtEnds s ops →
    noHalt s ops = true ∧ Reach (run s ops) ∧ HInv (run s ops) := by
  intro ops
  induction ops with
  | nil => intro s hR hH _ _; exact ⟨rfl, hR, hH⟩
  | cons op rest ih =>
    intro s hR hH hwf hsol
    have hwf1 : op.userSigned' := signedOk_spec _ hwf op (List.mem_cons_self ..)
    have hwf2 : signedOk rest = true := signedOk_of (fun o ho => signedOk_spec _ hwf o (List.mem_cons_of_mem _ ho))
    have hR' := step_reach s op hR hwf1
    obtain ⟨hs1, hs2⟩ := hsol
    have hstep : (step s op).2 ≠ .halt ∧ HInv (step s op).1 := by
      by_cases hend : op = .endBlock
      · subst hend
        obtain ⟨s', he, hS'⟩ := endBlockO_ok ⟨hR, hH, hs1 rfl⟩
        have : step s .endBlock = (s', .ok) := by
          show endBlock s = _
          unfold endBlock
          rw [he]
        rw [this]
        exact ⟨(fun e => nomatch e), hS'.wf⟩
      · exact ⟨step_msg_not_halt s op hend, step_hinv_msg s op hR.inv hH hend⟩
    obtain ⟨a1, a2, a3⟩ := ih (step s op).1 hR' hstep.2 hwf2 hs2
    refine ⟨?_, a2, a3⟩
    simp only [noHalt, Bool.and_eq_true, bne_iff_ne, ne_eq]
    exact ⟨hstep.1, a1⟩

-- ---------------------------------------------------------------------------------------------
-- Boolean checkers for concrete states

/-- `Solvent`, computable -/
def solventB (s : State) : Bool :=
  s.bets.all (fun x => !x.isOpen || (decide (0 ≤ x.fee) && x.fulfs.all (fun f => decide (0 ≤ f.bet) && decide (0 ≤ f.profit)))) &&
  s.books.all (fun b => b.parts.all (fun p => p.isSettled ||
    (decide (0 ≤ p.fee) && decide (promisedW s b.uid p.idx ≤ p.liq + p.actualProfit))))

theorem solventB_spec {s : State} (h : solventB s = true) : Solvent s := by
  unfold solventB at h
  simp only [Bool.and_eq_true, List.all_eq_true, Bool.or_eq_true, Bool.not_eq_true', decide_eq_true_eq] at h
  refine ⟨?_, ?_⟩
  · intro x hx ho
    rcases h.1 x hx with h' | h'
    · rw [ho] at h'; cases h'
    · exact ⟨h'.1, fun f hf => h'.2 f hf⟩
  · intro b hb p hp hun
    rcases h.2 b hb p hp with h' | h'
    · rw [hun] at h'; cases h'
    · exact h'

/-- `solventAtEnds`, computable -/
def solventAtEndsB : State → List Op → Bool
  | _, [] => true
  | s, op :: rest => (!op.isEnd || solventB s) && solventAtEndsB (step s op).1 rest

theorem solventAtEndsB_spec : ∀ (ops : List Op) (s : State), solventAtEndsB s ops = true → solventAtEnds s ops := by
  intro ops
  induction ops with
  | nil => intro s _; trivial
  | cons op rest ih =>
    intro s h
    simp only [solventAtEndsB, Bool.and_eq_true, Bool.or_eq_true, Bool.not_eq_true'] at h
    refine ⟨?_, ih _ h.2⟩
    intro he
    rcases h.1 with h' | h'
    · rw [he] at h'; cases h'
    · exact solventB_spec h'

end Sge.Core
