/- the settling end-block preserves `RetInv`: `Settle` adds to the realised profit of every participation exactly
   what the newly settled bet realises for it; paying participations realises nothing -/
import SgeProofs.Lemmas.ReturnsOps
namespace Sge.Core
open Sge Sge.Genesis

-- ---------------------------------------------------------------------------------------------
-- BettorLoses / BettorWins, participation by participation

theorem ret_getPart_setPart_at (b : Book) (x : Part) (i : Nat) (h : x.idx = i) : (b.setPart x).getPart i = some x := by
  subst h; exact Book.getPart_setPart_self b x

/-- BettorLoses: every participation is the old one with the stakes of the backing parts naming it added to
    its realised profit; nothing else of the book's participation list changes -/
theorem ret_bettorLoses : ∀ (fs : List Fulf) (b b' : Book), bettorLoses b fs = some b' →
    b'.uid = b.uid ∧ b'.status = b.status ∧
    (∀ i p', b'.getPart i = some p' →
      ∃ p, b.getPart i = some p ∧ p' = { p with actualProfit := p.actualProfit + sumBy (fbAt i) fs }) ∧
    (∀ i p, b.getPart i = some p → ∃ p', b'.getPart i = some p') := by
  intro fs
  induction fs with
  | nil =>
    intro b b' h
    simp only [bettorLoses, Option.some.injEq] at h
    subst h
    exact ⟨rfl, rfl, fun i p' hp' => ⟨p', hp', by simp [sumBy]⟩, fun i p hp => ⟨p, hp⟩⟩
  | cons f rest ih =>
    intro b b' h
    unfold bettorLoses at h
    simp only [bind, Option.bind_eq_some_iff] at h
    obtain ⟨p0, hp0, h⟩ := h
    have hpi := Book.getPart_idx hp0
    obtain ⟨a1, a2, a3, a4⟩ := ih _ _ h
    refine ⟨a1, a2, ?_, ?_⟩
    · intro i p' hp'
      obtain ⟨p1, hp1, e⟩ := a3 i p' hp'
      by_cases hi : f.idx = i
      · have : (b.setPart { p0 with actualProfit := p0.actualProfit + f.bet }).getPart i
            = some { p0 with actualProfit := p0.actualProfit + f.bet } :=
          ret_getPart_setPart_at b _ i (hpi.trans hi)
        rw [this] at hp1
        cases hp1
        refine ⟨p0, by rw [← hi]; exact hp0, ?_⟩
        rw [e, sumBy_cons]
        have hf : fbAt i f = f.bet := by unfold fbAt; simp [hi]
        rw [hf]
        simp only [Int.add_assoc]
      · rw [Book.getPart_setPart_ne _ _ _ (by show p0.idx ≠ i; rw [hpi]; exact hi)] at hp1
        refine ⟨p1, hp1, ?_⟩
        rw [e, sumBy_cons]
        have hf : fbAt i f = 0 := by unfold fbAt; simp [hi]
        rw [hf, Int.zero_add]
    · intro i p hp
      by_cases hi : f.idx = i
      · exact a4 i { p0 with actualProfit := p0.actualProfit + f.bet } (ret_getPart_setPart_at b _ i (hpi.trans hi))
      · apply a4 i p
        rw [Book.getPart_setPart_ne _ _ _ (by show p0.idx ≠ i; rw [hpi]; exact hi)]
        exact hp

/-- BettorWins: every participation is the old one with the winnings promised by the backing parts naming it
    subtracted from its realised profit -/
theorem ret_bettorWins (bettor : Nat) : ∀ (fs : List Fulf) (bal : List (Nat × Int)) (b : Book) (r : List (Nat × Int) × Book),
    bettorWins bal bettor b fs = some r →
    r.2.uid = b.uid ∧ r.2.status = b.status ∧
    (∀ i p', r.2.getPart i = some p' →
      ∃ p, b.getPart i = some p ∧ p' = { p with actualProfit := p.actualProfit + - sumBy (fpAt i) fs }) ∧
    (∀ i p, b.getPart i = some p → ∃ p', r.2.getPart i = some p') := by
  intro fs
  induction fs with
  | nil =>
    intro bal b r h
    simp only [bettorWins, Option.some.injEq] at h
    subst h
    exact ⟨rfl, rfl, fun i p' hp' => ⟨p', hp', by simp [sumBy]⟩, fun i p hp => ⟨p, hp⟩⟩
  | cons f rest ih =>
    intro bal b r h
    unfold bettorWins at h
    simp only [bind, Option.bind_eq_some_iff] at h
    obtain ⟨p0, hp0, bal', _, h⟩ := h
    have hpi := Book.getPart_idx hp0
    obtain ⟨a1, a2, a3, a4⟩ := ih _ _ _ h
    refine ⟨a1, a2, ?_, ?_⟩
    · intro i p' hp'
      obtain ⟨p1, hp1, e⟩ := a3 i p' hp'
      by_cases hi : f.idx = i
      · have : (b.setPart { p0 with actualProfit := p0.actualProfit - f.profit }).getPart i
            = some { p0 with actualProfit := p0.actualProfit - f.profit } :=
          ret_getPart_setPart_at b _ i (hpi.trans hi)
        rw [this] at hp1
        cases hp1
        refine ⟨p0, by rw [← hi]; exact hp0, ?_⟩
        rw [e, sumBy_cons]
        have hf : fpAt i f = f.profit := by unfold fpAt; simp [hi]
        rw [hf]
        have : p0.actualProfit - f.profit + -sumBy (fpAt i) rest = p0.actualProfit + -(f.profit + sumBy (fpAt i) rest) := by omega
        simp only [this]
      · rw [Book.getPart_setPart_ne _ _ _ (by show p0.idx ≠ i; rw [hpi]; exact hi)] at hp1
        refine ⟨p1, hp1, ?_⟩
        rw [e, sumBy_cons]
        have hf : fpAt i f = 0 := by unfold fpAt; simp [hi]
        rw [hf, Int.zero_add]
    · intro i p hp
      by_cases hi : f.idx = i
      · exact a4 i { p0 with actualProfit := p0.actualProfit - f.profit } (ret_getPart_setPart_at b _ i (hpi.trans hi))
      · apply a4 i p
        rw [Book.getPart_setPart_ne _ _ _ (by show p0.idx ≠ i; rw [hpi]; exact hi)]
        exact hp

/-- what a bet with backing parts `fs` realises for participation `i` when it is settled on a declared result -/
def realOf (won : Bool) (i : Nat) (fs : List Fulf) : Int := if won then - sumBy (fpAt i) fs else sumBy (fbAt i) fs

theorem ret_settleOutcome {bal : List (Nat × Int)} {won : Bool} {bettor : Nat} {b : Book} {fs : List Fulf}
    {r : List (Nat × Int) × Book} (h : settleOutcome bal won bettor b fs = some r) :
    r.2.uid = b.uid ∧ r.2.status = b.status ∧
    (∀ i p', r.2.getPart i = some p' →
      ∃ p, b.getPart i = some p ∧ p' = { p with actualProfit := p.actualProfit + realOf won i fs }) ∧
    (∀ i p, b.getPart i = some p → ∃ p', r.2.getPart i = some p') := by
  unfold settleOutcome at h
  split at h
  · rename_i hw
    have := ret_bettorWins bettor fs bal b r h
    unfold realOf
    simpa [hw] using this
  · rename_i hw
    simp only [Option.map_eq_some_iff] at h
    obtain ⟨b', hb', rfl⟩ := h
    have := ret_bettorLoses fs b b' hb'
    unfold realOf
    simpa [hw] using this

-- ---------------------------------------------------------------------------------------------
-- the bet record written by `Settle`

theorem ret_betRealAt_declared (u i : Nat) (t : Bet) (won : Bool) (h : Nat) :
    betRealAt u i { t with status := BS_SETTLED, result := if won then BR_WON else BR_LOST, settleHeight := h }
      = if t.market = u then realOf won i t.fulfs else 0 := by
  unfold betRealAt realOf
  by_cases hm : t.market = u <;> cases won <;> simp [hm, BR_WON, BR_LOST]

theorem ret_betRealAt_refunded (u i : Nat) (t : Bet) (h : Nat) :
    betRealAt u i { t with status := BS_SETTLED, result := BR_REFUNDED, settleHeight := h } = 0 := by
  unfold betRealAt
  by_cases hm : t.market = u <;> simp [hm, BR_WON, BR_LOST, BR_REFUNDED]

/-- the books of two states of the bet-settlement phase: the same books, each participation an old one of which
    only the realised profit may have changed -/
def ProfOnly (s s' : State) : Prop :=
  ∀ b' ∈ s'.books, ∃ b ∈ s.books, b.uid = b'.uid ∧
    ∀ i p', b'.getPart i = some p' → ∃ p, b.getPart i = some p ∧ p' = { p with actualProfit := p'.actualProfit }

theorem ProfOnly.of_eq {s s' : State} (h : s'.books = s.books) : ProfOnly s s' := by
  intro b' hb'
  rw [h] at hb'
  exact ⟨b', hb', rfl, fun i p' hp' => ⟨p', hp', rfl⟩⟩

theorem ProfOnly.refl (s : State) : ProfOnly s s := ProfOnly.of_eq rfl

theorem ProfOnly.trans {a b c : State} (h1 : ProfOnly a b) (h2 : ProfOnly b c) : ProfOnly a c := by
  intro b3 hb3
  obtain ⟨b2, hb2, u2, g2⟩ := h2 b3 hb3
  obtain ⟨b1, hb1, u1, g1⟩ := h1 b2 hb2
  refine ⟨b1, hb1, u1.trans u2, fun i p3 hp3 => ?_⟩
  obtain ⟨p2, hp2, e2⟩ := g2 i p3 hp3
  obtain ⟨p1, hp1, e1⟩ := g1 i p2 hp2
  refine ⟨p1, hp1, ?_⟩
  rw [e2, e1]

/-- `Settle`: the invariant is kept — the settled bet realises for every participation exactly what is added to
    its realised profit — and only realised profits change in the books -/
theorem ret_settleBet {s s' : State} {c u : Nat} (hO : ObInv s) (hR : RetInv s) (h : settleBet s c u = some s') :
    RetInv s' ∧ ProfOnly s s' := by
  unfold settleBet at h
  simp only [bind, Option.bind_eq_some_iff] at h
  obtain ⟨bet0, _, bet, hbet, _, hst, m, _, h⟩ := h
  have hst := chk_some hst
  have hns : bet.status ≠ BS_SETTLED := by
    intro e; simp [e] at hst
  have hkey : Bet.key bet = [c, bet0.id] := (lookup_memQ hbet).2
  have hl : lookup Bet.key (Bet.key bet) s.bets = some bet := by rw [hkey]; exact hbet
  split at h
  · unfold settleRefund at h
    simp only [bind, Option.bind_eq_some_iff, pure, Option.some.injEq] at h
    obtain ⟨s1, h1, s2, h2, rfl⟩ := h
    obtain ⟨_, _, rfl⟩ := bankSend_shape h1
    obtain ⟨_, _, rfl⟩ := bankSend_shape h2
    refine ⟨?_, ProfOnly.of_eq (by rfl)⟩
    refine RetInv.settle hO hR bet { bet with status := BS_SETTLED, result := BR_REFUNDED, settleHeight := s.height } hl hns (by rfl) ?_
    intro b' hb'
    refine ⟨b', hb', rfl, fun i p' hp' => ⟨p', hp', ?_⟩⟩
    rw [ret_betRealAt_refunded]; omega
  · simp only [Option.bind_eq_some_iff] at h
    obtain ⟨_, _, h⟩ := h
    unfold settleDeclared at h
    simp only [bind, Option.bind_eq_some_iff, pure, Option.some.injEq] at h
    obtain ⟨bk, hbk, r, hr, s2, h2, rfl⟩ := h
    obtain ⟨_, _, rfl⟩ := bankSend_shape h2
    obtain ⟨hbkm, hbu⟩ := getBook_mem hbk
    obtain ⟨x1, _, x3, _⟩ := ret_settleOutcome hr
    have hmem : ∀ b' ∈ upsert Book.key r.2 s.books, b' = r.2 ∨ (b' ∈ s.books ∧ b'.uid ≠ bet.market) := by
      intro b' hb'
      rcases (mem_upsert_iff Book.key r.2 b' s.books hO.sB).mp hb' with e | ⟨e1, e2⟩
      · exact Or.inl e
      · refine Or.inr ⟨e1, ?_⟩
        rw [← hbu, ← x1]
        simpa [Book.key] using e2
    constructor
    · refine RetInv.settle hO hR bet
        { bet with status := BS_SETTLED, result := (if m.winners.contains bet.odds then BR_WON else BR_LOST), settleHeight := s.height }
        hl hns (by rfl) ?_
      intro b' hb'
      rcases hmem b' hb' with rfl | ⟨hb0, hne⟩
      · refine ⟨bk, hbkm, x1.symm, fun i p' hp' => ?_⟩
        obtain ⟨p, hp, e⟩ := x3 i p' hp'
        refine ⟨p, hp, ?_⟩
        rw [ret_betRealAt_declared, x1, hbu, e]
        simp
      · refine ⟨b', hb0, rfl, fun i p' hp' => ⟨p', hp', ?_⟩⟩
        rw [ret_betRealAt_declared]
        simp [Ne.symm hne]
    · intro b' hb'
      rcases hmem b' hb' with rfl | ⟨hb0, _⟩
      · refine ⟨bk, hbkm, x1.symm, fun i p' hp' => ?_⟩
        obtain ⟨p, hp, e⟩ := x3 i p' hp'
        refine ⟨p, hp, ?_⟩
        rw [e]
      · exact ⟨b', hb0, rfl, fun i p' hp' => ⟨p', hp', rfl⟩⟩

theorem ret_settlePage : ∀ (page : List (Nat × Nat × Nat × Nat)) (s : State) (r : State × Nat),
    ObInv s → RetInv s → settlePage s page = some r → RetInv r.1 ∧ ProfOnly s r.1 := by
  intro page
  induction page with
  | nil => intro s r _ hR h; simp [settlePage] at h; rw [← h]; exact ⟨hR, ProfOnly.refl s⟩
  | cons pb rest ih =>
    intro s r hO hR h
    unfold settlePage at h
    simp only [bind, Option.bind_eq_some_iff, pure, Option.some.injEq] at h
    obtain ⟨s1, h1, r1, hr, rfl⟩ := h
    obtain ⟨a1, a2⟩ := ret_settleBet hO hR h1
    obtain ⟨c1, c2⟩ := ih _ r1 (settleBet_obInv hO h1) a1 hr
    exact ⟨c1, a2.trans c2⟩

theorem ret_bookResolved {s s' : State} {u : Nat} (hO : ObInv s) (hR : RetInv s) (h : bookResolved s u = some s') :
    RetInv s' ∧ ProfOnly s s' := by
  unfold bookResolved at h
  simp only [bind, Option.bind_eq_some_iff, pure, Option.some.injEq] at h
  obtain ⟨b, hb, _, _, rfl⟩ := h
  obtain ⟨hbm, hbu⟩ := getBook_mem hb
  have h1 := hR.setBook hO b { b with status := OB_RESOLVED } (by show getBook s b.uid = some b; rw [hbu]; exact hb)
    (PExt.of_parts rfl rfl)
  refine ⟨h1.of_eq (by rfl) (by rfl), ?_⟩
  intro b' hb'
  rcases (mem_upsert_iff Book.key { b with status := OB_RESOLVED } b' s.books hO.sB).mp hb' with rfl | ⟨e, _⟩
  · exact ⟨b, hbm, rfl, fun i p' hp' => ⟨p', hp', rfl⟩⟩
  · exact ⟨b', e, rfl, fun i p' hp' => ⟨p', hp', rfl⟩⟩

theorem ret_betEndBlockStep {s : State} {mk n : Nat} {r : State × Nat} (hO : ObInv s) (hR : RetInv s)
    (h : betEndBlockStep s mk n = some r) : RetInv r.1 ∧ ProfOnly s r.1 := by
  unfold betEndBlockStep at h
  simp only [bind, Option.bind_eq_some_iff] at h
  obtain ⟨r0, h0, h⟩ := h
  obtain ⟨a1, a2⟩ := ret_settlePage _ _ _ hO hR h0
  have e0 := settlePage_obInv _ _ _ hO h0
  split at h
  · simp only [pure, Option.some.injEq] at h; rw [← h]; exact ⟨a1, a2⟩
  · simp only [bind, Option.bind_eq_some_iff, pure, Option.some.injEq] at h
    obtain ⟨q, _, s2, h2, rfl⟩ := h
    have e1 : ObInv { r0.1 with mqueue := q } := e0.of_eq (by rfl) (by rfl) (by rfl) e0.mkt
    have a1' : RetInv { r0.1 with mqueue := q } := a1.of_eq (by rfl) (by rfl)
    obtain ⟨c1, c2⟩ := ret_bookResolved e1 a1' h2
    exact ⟨c1, a2.trans (ProfOnly.trans (ProfOnly.of_eq (by rfl)) c2)⟩

theorem ret_betEndBlock : ∀ (fuel : Nat) (s : State) (n : Nat) (s' : State),
    ObInv s → RetInv s → betEndBlock fuel s n = some s' → RetInv s' ∧ ProfOnly s s' := by
  intro fuel
  induction fuel with
  | zero => intro s n s' _ hR h; simp [betEndBlock] at h; rw [← h]; exact ⟨hR, ProfOnly.refl s⟩
  | succ fuel ih =>
    intro s n s' hO hR h
    unfold betEndBlock at h
    split at h
    · simp at h; rw [← h]; exact ⟨hR, ProfOnly.refl s⟩
    · split at h
      · simp at h; rw [← h]; exact ⟨hR, ProfOnly.refl s⟩
      · simp only [bind, Option.bind_eq_some_iff] at h
        obtain ⟨r, hr, h⟩ := h
        obtain ⟨a1, a2⟩ := ret_betEndBlockStep hO hR hr
        obtain ⟨c1, c2⟩ := ih _ _ _ (betEndBlockStep_obInv hO hr) a1 h
        exact ⟨c1, a2.trans c2⟩

-- ---------------------------------------------------------------------------------------------
-- paying participations

/-- the record `settleParticipation` writes: what was returned (payout, plus the fee when it goes back to the
    depositor), the reimbursed fee, and the paid flag; everything else as it was -/
def Part.paidRec (p : Part) (m : Market) : Part :=
  if p.feeToDepositor m then { p with returned := p.payout m + p.fee, reimbursedFee := p.fee, isSettled := true }
  else { p with returned := p.payout m, isSettled := true }

theorem Part.paidRec_fields (p : Part) (m : Market) :
    (p.paidRec m).idx = p.idx ∧ (p.paidRec m).addr = p.addr ∧ (p.paidRec m).liq = p.liq ∧ (p.paidRec m).fee = p.fee ∧
    (p.paidRec m).totalBet = p.totalBet ∧ (p.paidRec m).actualProfit = p.actualProfit ∧ (p.paidRec m).isSettled = true ∧
    (p.paidRec m).notFilled = p.notFilled := by
  unfold Part.paidRec
  split <;> exact ⟨rfl, rfl, rfl, rfl, rfl, rfl, rfl, rfl⟩

/-- settleParticipation: only balances change in the state, and the book gets the paid record -/
theorem ret_settlePart_rec {s : State} {b : Book} {p : Part} {m : Market} {r : State × Book}
    (h : settlePart s b p m = some r) :
    p.isSettled = false ∧ (∃ bal', r.1 = { s with bal := bal' }) ∧ r.2 = b.setPart (p.paidRec m) := by
  unfold settlePart at h
  simp only [bind, Option.bind_eq_some_iff] at h
  obtain ⟨_, h0, _, _, s1, h1, h⟩ := h
  have h0 := chk_some h0
  obtain ⟨_, _, rfl⟩ := bankSend_shape h1
  refine ⟨by simpa using h0, ?_⟩
  unfold Part.paidRec
  split at h
  · rename_i hc
    simp only [bind, Option.bind_eq_some_iff, pure, Option.some.injEq] at h
    obtain ⟨s2, h2, rfl⟩ := h
    obtain ⟨bal2, _, rfl⟩ := bankSend_shape h2
    rw [if_pos hc]
    exact ⟨⟨bal2, rfl⟩, rfl⟩
  · rename_i hc
    simp only [bind, Option.bind_eq_some_iff, pure, Option.some.injEq] at h
    obtain ⟨s2, h2, rfl⟩ := h
    obtain ⟨bal2, _, rfl⟩ := bankSend_shape h2
    rw [if_neg hc]
    exact ⟨⟨bal2, rfl⟩, rfl⟩

/-- the participation loop realises nothing -/
theorem ret_settleParts_pext (m : Market) (count : Nat) : ∀ (ps : List Part) (s : State) (b : Book) (sc pr : Nat)
    (r : State × Book × Nat × Nat), settleParts m count ps s b sc pr = some r →
    ps.Pairwise (fun a c => a.idx ≠ c.idx) → (∀ p ∈ ps, b.getPart p.idx = some p) →
    (∃ bal', r.1 = { s with bal := bal' }) ∧ PExt b r.2.1 ∧ ∀ i p, b.getPart i = some p → ∃ p', r.2.1.getPart i = some p' := by
  intro ps
  induction ps with
  | nil =>
    intro s b sc pr r h _ _
    simp [settleParts] at h; rw [← h]
    exact ⟨⟨s.bal, rfl⟩, PExt.refl b, fun i p hp => ⟨p, hp⟩⟩
  | cons p rest ih =>
    intro s b sc pr r h hd hg
    rw [List.pairwise_cons] at hd
    unfold settleParts at h
    simp only [bind, Option.bind_eq_some_iff] at h
    obtain ⟨r1, h1, h⟩ := h
    have hstep : (∃ bal', r1.1 = { s with bal := bal' }) ∧ PExt b r1.2.1 ∧ (∀ q ∈ rest, r1.2.1.getPart q.idx = some q) ∧
        ∀ i p, b.getPart i = some p → ∃ p', r1.2.1.getPart i = some p' := by
      unfold settleOne at h1
      split at h1
      · simp only [Option.map_eq_some_iff] at h1
        obtain ⟨x, hx, rfl⟩ := h1
        obtain ⟨_, hb, e1⟩ := ret_settlePart_rec hx
        obtain ⟨f1, _, _, _, _, f6, _⟩ := p.paidRec_fields m
        have hgp : b.getPart (p.paidRec m).idx = some p := by rw [f1]; exact hg p (List.mem_cons_self ..)
        refine ⟨hb, ?_, ?_, ?_⟩
        · show PExt b x.2
          rw [e1]
          exact PExt.upsert (p.paidRec m) rfl rfl (Or.inl ⟨p, hgp, f6⟩)
        · intro q hq
          show x.2.getPart q.idx = some q
          rw [e1, Book.getPart_setPart_ne _ _ _ (by rw [f1]; exact hd.1 q hq)]
          exact hg q (List.mem_cons_of_mem _ hq)
        · intro i q hq
          show ∃ p', x.2.getPart i = some p'
          rw [e1]
          by_cases hi : (p.paidRec m).idx = i
          · exact ⟨_, ret_getPart_setPart_at b _ i hi⟩
          · exact ⟨q, by rw [Book.getPart_setPart_ne _ _ _ hi]; exact hq⟩
      · cases h1
        exact ⟨⟨s.bal, rfl⟩, PExt.refl b, fun q hq => hg q (List.mem_cons_of_mem _ hq), fun i q hq => ⟨q, hq⟩⟩
    obtain ⟨⟨bal1, hb1⟩, hx1, hg1, hk1⟩ := hstep
    split at h
    · simp only [pure, Option.some.injEq] at h
      rw [← h]
      exact ⟨⟨bal1, hb1⟩, hx1, hk1⟩
    · obtain ⟨⟨bal2, hb2⟩, hx2, hk2⟩ := ih _ _ _ _ _ h hd.2 hg1
      refine ⟨⟨bal2, by rw [hb2, hb1]⟩, hx1.trans hx2 hk1, ?_⟩
      intro i q hq
      obtain ⟨q1, hq1⟩ := hk1 i q hq
      exact hk2 i q1 hq1

theorem ret_sorted_pairwise_idx {ps : List Part} (h : Sorted Part.key ps) : ps.Pairwise (fun a c => a.idx ≠ c.idx) := by
  unfold Sorted at h
  refine List.Pairwise.imp ?_ h
  intro a c hac e
  simp only [Part.key, e] at hac
  rw [ltL_irrefl] at hac
  cases hac

theorem ret_obEndBlock : ∀ (fuel : Nat) (s : State) (n i : Nat) (s' : State),
    ObInv s → RetInv s → obEndBlock fuel s n i = some s' → RetInv s' := by
  intro fuel
  induction fuel with
  | zero => intro s n i s' _ hR h; simp [obEndBlock] at h; rw [← h]; exact hR
  | succ fuel ih =>
    intro s n i s' hO hR h
    have hO' := obEndBlock_obInv 1 s n i
    unfold obEndBlock at h
    split at h
    · simp at h; rw [← h]; exact hR
    · split at h
      · simp at h; rw [← h]; exact hR
      · simp only [bind, Option.bind_eq_some_iff] at h
        obtain ⟨b, hb, m, _, _, _, r, hr, h⟩ := h
        obtain ⟨hbm, hbu⟩ := getBook_mem hb
        have hsP := (hO.qinv b hbm).s.sP
        obtain ⟨⟨bal', hbal⟩, hx, _⟩ := ret_settleParts_pext m n b.parts s b 0 0 r hr (ret_sorted_pairwise_idx hsP)
          (fun p hp => Book.mem_getPart hsP hp)
        obtain ⟨_, hx0⟩ := settleParts_ext m n b.parts s b 0 0 r hr (ret_sorted_pairwise_idx hsP)
          (fun p hp => Book.mem_getPart hsP hp)
        have hO1 : ObInv r.1 := by rw [hbal]; exact hO.of_eq (by rfl) (by rfl) (by rfl) hO.mkt
        have hR1 : RetInv r.1 := by rw [hbal]; exact hR.of_eq (by rfl) (by rfl)
        have hb1 : getBook r.1 b.uid = some b := by rw [hbal, hbu]; exact hb
        split at h
        · simp only [bind, Option.bind_eq_some_iff] at h
          obtain ⟨q, _, h⟩ := h
          have hx2 : PExt b { r.2.1 with status := OB_SETTLED } := ⟨hx.uid, hx.gp⟩
          have hx02 : Ext b { r.2.1 with status := OB_SETTLED } := hx0.trans (Ext.status r.2.1 OB_SETTLED)
          have hO2 : ObInv { r.1 with obqueue := q } := hO1.of_eq (by rfl) (by rfl) (by rfl) hO1.mkt
          have hR2 : RetInv { r.1 with obqueue := q } := hR1.of_eq (by rfl) (by rfl)
          exact ih _ _ _ _ (hO2.setBook b _ (by rw [hx02.uid]; exact hb1) hx02)
            (hR2.setBook hO2 b _ (by rw [hx2.uid]; exact hb1) hx2) h
        · exact ih _ _ _ _ (hO1.setBook b _ (by rw [hx0.uid]; exact hb1) hx0)
            (hR1.setBook hO1 b _ (by rw [hx.uid]; exact hb1) hx) h

theorem ret_endBlockO {s s' : State} (hO : ObInv s) (hR : RetInv s) (h : endBlockO s = some s') : RetInv s' := by
  unfold endBlockO at h
  simp only [bind, Option.bind_eq_some_iff] at h
  obtain ⟨s1, h1, h2⟩ := h
  exact ret_obEndBlock _ _ _ _ _ (betEndBlock_obInv _ _ _ _ hO h1) (ret_betEndBlock _ _ _ _ hO hR h1).1 h2

-- ---------------------------------------------------------------------------------------------
-- every operation, every history

theorem step_retInv (s : State) (op : Op) (hO : ObInv s) (hR : RetInv s) : RetInv (step s op).1 := by
  cases op with
  | marketAdd c tk u st en o stt =>
    simp only [step, marketAdd, commit]
    cases h : marketAddO s c tk u st en o stt with
    | none => exact hR
    | some s' => exact ret_marketAddO hO hR h
  | marketUpdate tk u st en stt =>
    simp only [step, marketUpdate, commit]
    cases h : marketUpdateO s tk u st en stt with
    | none => exact hR
    | some s' => exact ret_marketUpdateO hR h
  | marketResolve tk u ts stt w =>
    simp only [step, marketResolve, commit]
    cases h : marketResolveO s tk u ts stt w with
    | none => exact hR
    | some s' => exact ret_marketResolveO hR h
  | deposit c tk m a pd =>
    simp only [step, houseDeposit]
    cases h : houseDepositO s c tk m a pd with
    | none => exact hR
    | some r => exact ret_houseDepositO hO hR h
  | withdraw c tk m i md a pd =>
    simp only [step, houseWithdraw, commit]
    cases h : houseWithdrawO s c tk m i md a pd with
    | none => exact hR
    | some s' => exact ret_houseWithdrawO hO hR h
  | wager c tk u a pl =>
    simp only [step, wager, commit]
    cases h : wagerO s c tk u a pl with
    | none => exact hR
    | some s' => exact ret_wagerO hO hR h
  | grant g e k l x => exact hR.of_eq (by rfl) (by rfl)
  | revoke g e k => exact hR.of_eq (by rfl) (by rfl)
  | send a b x =>
    simp only [step]
    split
    · exact hR
    · unfold commit
      cases h : bankSend s a b x with
      | none => exact hR
      | some s' =>
        obtain ⟨_, _, rfl⟩ := bankSend_shape h
        exact hR.of_eq (by rfl) (by rfl)
  | setParams p =>
    simp only [step]
    split
    · exact hR.of_eq (by rfl) (by rfl)
    · exact hR
  | endBlock =>
    simp only [step, endBlock]
    cases h : endBlockO s with
    | none => exact hR
    | some s' => exact ret_endBlockO hO hR h
  | newBlock h t => exact hR.of_eq (by rfl) (by rfl)

theorem run_retInv (s : State) (ops : List Op) (hO : ObInv s) (hR : RetInv s) : RetInv (run s ops) := by
  induction ops generalizing s with
  | nil => exact hR
  | cons op rest ih => exact ih _ (step_obInv s op hO) (step_retInv s op hO hR)

theorem retInv_init (p : Params) (bal : List (Nat × Int)) (h t : Nat) :
    RetInv { bal := bal, params := p, height := h, time := t } :=
  ⟨fun b hb => by cases hb⟩

end Sge.Core
