/-
  Reachability of the genesis invariant of x/reward, part 2: the conjuncts of `rewardInv` on the projection
  `grm_stores d s` of a model state `s` that satisfies `grm_RwI` (and, for the by-category index, `grm_CatOK`):
    * the six stores are in key order (by construction of the projection),
    * lookups in the projected stores agree with the lookups of the model,
    * the by-category index is filed under the promoter of the reward's campaign        (`grm_cat_conj`),
    * the grant counters are what the patched InitGenesis rebuilds from the reward list  (`grm_stats_conj`).
-/
import SgeProofs.Lemmas.GenesisReachModsReward
namespace Sge.Genesis
open Sge Sge.Core

-- ---------------------------------------------------------------------------------------------
-- the projected stores are permutations of the model's collections

theorem grm_rewards_perm (d : grm_Digests) (s : Sge.Reward.State) (h : (s.rewards.map (·.uid)).Nodup) :
    (grm_stores d s).rewards.Perm (s.rewards.map (grm_rewRec d)) := by
  apply grm_sort_perm
  rw [List.pairwise_map]
  have h' : s.rewards.Pairwise (fun a b => a.uid ≠ b.uid) := by
    unfold List.Nodup at h; rw [List.pairwise_map] at h; exact h
  exact h'.imp (fun {a b} hab => by simpa [grm_rewRec] using hab)

theorem grm_campaigns_perm (d : grm_Digests) (s : Sge.Reward.State) (h : s.campaigns.Pairwise (fun a b => a.uid ≠ b.uid)) :
    (grm_stores d s).campaigns.Perm (s.campaigns.map (grm_campRec d)) := by
  apply grm_sort_perm
  rw [List.pairwise_map]
  exact h.imp (fun {a b} hab => by simpa [grm_campRec] using hab)

theorem grm_byAddress_perm (d : grm_Digests) (s : Sge.Reward.State) (h : s.byAddr.Pairwise (fun a b => a.1 ≠ b.1)) :
    (grm_stores d s).byAddress.Perm s.byAddr := by
  apply grm_sort_perm
  exact h.imp (fun {a b} hab => by simpa using hab)

theorem grm_stats_perm (d : grm_Digests) (s : Sge.Reward.State)
    (h : s.stats.Pairwise (fun a b => ¬ (a.campaign = b.campaign ∧ a.addr = b.addr))) :
    (grm_stores d s).grantStats.Perm (s.stats.map grm_statRec) := by
  apply grm_sort_perm
  rw [List.pairwise_map]
  exact h.imp (fun {a b} hab => by simpa [grm_statRec, statKey] using hab)

-- ---------------------------------------------------------------------------------------------
-- lookups

theorem grm_find_reward (d : grm_Digests) (s : Sge.Reward.State) (h : (s.rewards.map (·.uid)).Nodup)
    (r : Sge.Reward.Reward) (hr : r ∈ s.rewards) :
    (grm_stores d s).rewards.find? (fun x => x.uid == r.uid) = some (grm_rewRec d r) :=
  grm_find_of_mem (fun (x : Reward) => x.uid) _ (grm_sort_sorted _ _) (grm_rewRec d r)
    ((grm_rewards_perm d s h).mem_iff.mpr (List.mem_map_of_mem hr))

theorem grm_find_campaign_some (d : grm_Digests) (s : Sge.Reward.State) (h : s.campaigns.Pairwise (fun a b => a.uid ≠ b.uid))
    (k : Nat) (c : Sge.Reward.Campaign) (hc : Sge.Reward.getC s.campaigns k = some c) :
    (grm_stores d s).campaigns.find? (fun x => x.uid == k) = some (grm_campRec d c) := by
  have hu := Sge.Reward.getC_uid _ _ _ hc
  have hm := Sge.Reward.getC_mem _ _ _ hc
  rw [← hu]
  exact grm_find_of_mem (fun (x : Campaign) => x.uid) _ (grm_sort_sorted _ _) (grm_campRec d c)
    ((grm_campaigns_perm d s h).mem_iff.mpr (List.mem_map_of_mem hm))

theorem grm_find_campaign_none (d : grm_Digests) (s : Sge.Reward.State) (k : Nat)
    (hc : Sge.Reward.getC s.campaigns k = none) :
    (grm_stores d s).campaigns.find? (fun x => x.uid == k) = none := by
  apply grm_find_none (fun (x : Campaign) => x.uid)
  intro x hx
  rcases grm_mem_setAll_sub _ _ _ _ hx with hx | hx
  · obtain ⟨c, hcm, rfl⟩ := List.mem_map.mp hx
    exact Sge.Reward.getBy_none _ _ _ hc c hcm
  · cases hx

theorem grm_find_addr_some (d : grm_Digests) (s : Sge.Reward.State) (h : s.byAddr.Pairwise (fun a b => a.1 ≠ b.1))
    (a : Nat) (pa : Nat × Nat) (hp : Sge.Reward.getA s.byAddr a = some pa) :
    (grm_stores d s).byAddress.find? (fun p => p.1 == a) = some pa := by
  have hu : pa.1 = a := Sge.Reward.getBy_key _ _ _ _ hp
  have hm : pa ∈ s.byAddr := Sge.Reward.getBy_mem _ _ _ _ hp
  rw [← hu]
  exact grm_find_of_mem (fun (x : Nat × Nat) => x.1) _ (grm_sort_sorted _ _) pa
    ((grm_byAddress_perm d s h).mem_iff.mpr hm)

-- ---------------------------------------------------------------------------------------------
-- conjunct 7: the by-category index

theorem grm_promoterOfReward (d : grm_Digests) (s : Sge.Reward.State) (hI : Sge.Reward.grm_RwI s)
    (r : Sge.Reward.Reward) (hr : r ∈ s.rewards) (c : Sge.Reward.Campaign) (hc : Sge.Reward.getC s.campaigns r.campaign = some c)
    (pa : Nat × Nat) (hp : Sge.Reward.getA s.byAddr c.promoter = some pa) :
    promoterOfReward (grm_stores d s) r.uid = some pa.2 := by
  unfold promoterOfReward
  rw [grm_find_reward d s hI.base.once r hr]
  simp only
  have e1 : (grm_rewRec d r).campaign = r.campaign := rfl
  rw [e1, grm_find_campaign_some d s hI.campKeys _ c hc]
  simp only
  have e2 : (grm_campRec d c).promoter = c.promoter := rfl
  rw [e2, grm_find_addr_some d s hI.addrKeys _ pa hp]

theorem grm_cat_conj (d : grm_Digests) (s : Sge.Reward.State) (hI : Sge.Reward.grm_RwI s) (hC : Sge.Reward.grm_CatOK s) :
    (grm_stores d s).byCategory.all (fun x => promoterOfReward (grm_stores d s) x.uid == some x.promoterUid) = true := by
  rw [List.all_eq_true]
  intro x hx
  rcases grm_mem_setAll_sub _ _ _ _ hx with hx | hx
  · obtain ⟨y, hy, rfl⟩ := List.mem_map.mp hx
    obtain ⟨r, hr, hru, c, hc, pa, hpa, hp⟩ := hC y hy
    have e := grm_promoterOfReward d s hI r hr c hc pa hpa
    rw [hru, hp] at e
    show (promoterOfReward (grm_stores d s) y.uid == some y.promoter) = true
    rw [e]
    exact beq_self_eq_true _
  · cases hx

/-- without any assumption on the promoters: the three lookups of the genesis import succeed for every entry -/
theorem grm_cat_some (d : grm_Digests) (s : Sge.Reward.State) (hI : Sge.Reward.grm_RwI s) (hS : Sge.Reward.grm_CatSome s) :
    ∀ x ∈ (grm_stores d s).byCategory, (promoterOfReward (grm_stores d s) x.uid).isSome = true := by
  intro x hx
  rcases grm_mem_setAll_sub _ _ _ _ hx with hx | hx
  · obtain ⟨y, hy, rfl⟩ := List.mem_map.mp hx
    obtain ⟨r, hr, hru, c, hc, pa, hpa, _⟩ := hS y hy
    have e := grm_promoterOfReward d s hI r hr c hc pa hpa
    rw [hru] at e
    show (promoterOfReward (grm_stores d s) y.uid).isSome = true
    rw [e]
    rfl
  · cases hx

-- ---------------------------------------------------------------------------------------------
-- grant counters: the genesis-level counter store

theorem grm_getStat_cons (y : Nat × Nat × Nat) (ys : List (Nat × Nat × Nat)) (c a : Nat) :
    getStat (y :: ys) c a = if y.1 = c ∧ y.2.1 = a then y.2.2 else getStat ys c a := by
  by_cases h : y.1 = c ∧ y.2.1 = a
  · simp [getStat, h]
  · rw [if_neg h]
    have : (y.1 == c && y.2.1 == a) = false := by
      rw [Bool.eq_false_iff]
      intro e
      simp only [Bool.and_eq_true, beq_iff_eq] at e
      exact h e
    simp [getStat, this]

theorem grm_getStat_nil (c a : Nat) : getStat [] c a = 0 := rfl

theorem grm_statKey_eq (x y : Nat × Nat × Nat) : (statKey y == statKey x) = true ↔ (y.1 = x.1 ∧ y.2.1 = x.2.1) := by
  simp [statKey]

theorem grm_getStat_upsert (G : List (Nat × Nat × Nat)) (c a n c' a' : Nat) :
    getStat (upsert statKey (c, a, n) G) c' a' = if c' = c ∧ a' = a then n else getStat G c' a' := by
  induction G with
  | nil =>
    show getStat [(c, a, n)] c' a' = _
    rw [grm_getStat_cons]
    by_cases h : c' = c ∧ a' = a
    · rw [if_pos h, if_pos ⟨h.1.symm, h.2.symm⟩]
    · rw [if_neg h, if_neg (fun e => h ⟨e.1.symm, e.2.symm⟩)]
  | cons y ys ih =>
    unfold upsert
    by_cases hk : (statKey y == statKey (c, a, n)) = true
    · rw [if_pos hk]
      have hy := (grm_statKey_eq (c, a, n) y).mp hk
      simp only at hy
      rw [grm_getStat_cons, grm_getStat_cons]
      by_cases h : c' = c ∧ a' = a
      · rw [if_pos h, if_pos ⟨h.1.symm, h.2.symm⟩]
      · rw [if_neg h, if_neg (fun e => h ⟨e.1.symm, e.2.symm⟩)]
        rw [if_neg (fun e => h ⟨by rw [← e.1, hy.1], by rw [← e.2, hy.2]⟩)]
    · rw [if_neg hk]
      have hy : ¬ (y.1 = c ∧ y.2.1 = a) := fun e => hk ((grm_statKey_eq (c, a, n) y).mpr e)
      split
      · rw [grm_getStat_cons]
        by_cases h : c' = c ∧ a' = a
        · rw [if_pos h, if_pos ⟨h.1.symm, h.2.symm⟩]
        · rw [if_neg h, if_neg (fun e => h ⟨e.1.symm, e.2.symm⟩)]
      · rw [grm_getStat_cons, ih, grm_getStat_cons]
        by_cases h : c' = c ∧ a' = a
        · have hy' : ¬ (y.1 = c' ∧ y.2.1 = a') := fun e => hy ⟨by rw [e.1, h.1], by rw [e.2, h.2]⟩
          simp only [if_pos h, if_neg hy']
        · simp only [if_neg h]

theorem grm_getStat_of_mem (G : List (Nat × Nat × Nat)) (hs : Sorted statKey G) (z : Nat × Nat × Nat) (hz : z ∈ G) :
    getStat G z.1 z.2.1 = z.2.2 := by
  unfold getStat
  cases hf : G.find? (fun x => x.1 == z.1 && x.2.1 == z.2.1) with
  | none =>
    have := List.find?_eq_none.mp hf z hz
    simp at this
  | some b =>
    have hb := List.mem_of_find?_eq_some hf
    have hp := List.find?_some hf
    simp only [Bool.and_eq_true, beq_iff_eq] at hp
    have : b = z := sorted_mem_key_inj statKey G hs b z hb hz (by simp [statKey, hp.1, hp.2])
    rw [this]

theorem grm_getStat_none (G : List (Nat × Nat × Nat)) (c a : Nat) (h : ∀ z ∈ G, ¬ (z.1 = c ∧ z.2.1 = a)) :
    getStat G c a = 0 := by
  unfold getStat
  have : G.find? (fun x => x.1 == c && x.2.1 == a) = none := by
    rw [List.find?_eq_none]
    intro x hx e
    simp only [Bool.and_eq_true, beq_iff_eq] at e
    exact h x hx e
  rw [this]

theorem grm_mem_of_getStat (G : List (Nat × Nat × Nat)) (c a n : Nat) (hn : 0 < n) (h : getStat G c a = n) : (c, a, n) ∈ G := by
  unfold getStat at h
  cases hf : G.find? (fun x => x.1 == c && x.2.1 == a) with
  | none => rw [hf] at h; simp only at h; omega
  | some b =>
    rw [hf] at h
    simp only at h
    have hb := List.mem_of_find?_eq_some hf
    have hp := List.find?_some hf
    simp only [Bool.and_eq_true, beq_iff_eq] at hp
    have : b = (c, a, n) := by
      rw [← hp.1, ← hp.2, ← h]
    rw [← this]; exact hb

/-- two counter stores in key order with positive counters and the same counter for every key are equal -/
theorem grm_stats_ext (G1 G2 : List (Nat × Nat × Nat)) (h1 : Sorted statKey G1) (h2 : Sorted statKey G2)
    (p1 : ∀ z ∈ G1, 0 < z.2.2) (p2 : ∀ z ∈ G2, 0 < z.2.2) (h : ∀ c a, getStat G1 c a = getStat G2 c a) : G1 = G2 := by
  apply sorted_ext statKey _ _ h1 h2
  intro z
  constructor
  · intro hz
    have e := grm_getStat_of_mem G1 h1 z hz
    rw [h] at e
    exact grm_mem_of_getStat G2 z.1 z.2.1 z.2.2 (p1 z hz) e
  · intro hz
    have e := grm_getStat_of_mem G2 h2 z hz
    rw [← h] at e
    exact grm_mem_of_getStat G1 z.1 z.2.1 z.2.2 (p2 z hz) e

-- ---------------------------------------------------------------------------------------------
-- what the patched InitGenesis counts

/-- the campaign is in the store and has a cap count -/
def grm_capped (C : List Campaign) (cu : Nat) : Bool :=
  match C.find? (fun c => c.uid == cu) with
  | some c => decide (c.capCount > 0)
  | none => false

/-- number of rewards of campaign `cu` for account `a` that `countGrant` counts -/
def grm_cnt (C : List Campaign) (R : List Reward) (cu a : Nat) : Nat :=
  (R.filter (fun r => decide (r.campaign = cu ∧ r.receiver = a) && grm_capped C r.campaign)).length

theorem grm_countGrant_eq (st : RewardStores) (r : Reward) :
    countGrant st r = if grm_capped st.campaigns r.campaign = true then
      { st with grantStats := upsert statKey (r.campaign, r.receiver, getStat st.grantStats r.campaign r.receiver + 1) st.grantStats }
    else st := by
  unfold countGrant grm_capped
  cases st.campaigns.find? (fun c => c.uid == r.campaign) with
  | none => simp
  | some c =>
    simp only [gt_iff_lt, decide_eq_true_eq]

theorem grm_cnt_cons (C : List Campaign) (x : Reward) (xs : List Reward) (cu a : Nat) :
    grm_cnt C (x :: xs) cu a =
      (if (x.campaign = cu ∧ x.receiver = a) ∧ grm_capped C x.campaign = true then 1 else 0) + grm_cnt C xs cu a := by
  unfold grm_cnt
  rw [List.filter_cons]
  by_cases h : (x.campaign = cu ∧ x.receiver = a) ∧ grm_capped C x.campaign = true
  · rw [if_pos h]
    have : (decide (x.campaign = cu ∧ x.receiver = a) && grm_capped C x.campaign) = true := by
      rw [Bool.and_eq_true, decide_eq_true_eq]; exact h
    rw [if_pos this, List.length_cons]
    omega
  · rw [if_neg h]
    have : ¬ (decide (x.campaign = cu ∧ x.receiver = a) && grm_capped C x.campaign) = true := by
      rw [Bool.and_eq_true, decide_eq_true_eq]; exact h
    rw [if_neg this]
    omega

theorem grm_fold_countGrant (R : List Reward) (st : RewardStores) (hs : Sorted statKey st.grantStats)
    (hp : ∀ z ∈ st.grantStats, 0 < z.2.2) :
    (R.foldl countGrant st).campaigns = st.campaigns ∧ Sorted statKey (R.foldl countGrant st).grantStats ∧
    (∀ z ∈ (R.foldl countGrant st).grantStats, 0 < z.2.2) ∧
    ∀ c a, getStat (R.foldl countGrant st).grantStats c a = getStat st.grantStats c a + grm_cnt st.campaigns R c a := by
  induction R generalizing st with
  | nil => exact ⟨rfl, hs, hp, fun c a => by simp [grm_cnt]⟩
  | cons x xs ih =>
    simp only [List.foldl_cons]
    rw [grm_countGrant_eq]
    by_cases hc : grm_capped st.campaigns x.campaign = true
    · rw [if_pos hc]
      obtain ⟨i1, i2, i3, i4⟩ := ih
        { st with grantStats := upsert statKey (x.campaign, x.receiver, getStat st.grantStats x.campaign x.receiver + 1) st.grantStats }
        (upsert_sorted statKey _ _ hs)
        (by
          intro z hz
          rcases grm_mem_upsert_sub statKey _ z _ hz with e | hz
          · rw [e]; exact Nat.succ_pos _
          · exact hp z hz)
      refine ⟨i1, i2, i3, ?_⟩
      intro c a
      rw [i4]
      show getStat (upsert statKey (x.campaign, x.receiver, getStat st.grantStats x.campaign x.receiver + 1) st.grantStats) c a +
        grm_cnt st.campaigns xs c a = _
      rw [grm_getStat_upsert, grm_cnt_cons]
      by_cases h : c = x.campaign ∧ a = x.receiver
      · rw [if_pos h, if_pos ⟨⟨h.1.symm, h.2.symm⟩, hc⟩, h.1, h.2]
        omega
      · rw [if_neg h, if_neg (fun e => h ⟨e.1.1.symm, e.1.2.symm⟩)]
        omega
    · rw [if_neg hc]
      obtain ⟨i1, i2, i3, i4⟩ := ih st hs hp
      refine ⟨i1, i2, i3, ?_⟩
      intro c a
      rw [i4, grm_cnt_cons, if_neg (fun e => hc e.2)]
      omega

-- ---------------------------------------------------------------------------------------------
-- the model's counters

theorem grm_model_getStat_spec (xs : List Sge.Reward.Stat) (c a : Nat) :
    (∃ x ∈ xs, x.campaign = c ∧ x.addr = a ∧ Sge.Reward.getStat xs c a = x.n) ∨
    ((∀ x ∈ xs, ¬ (x.campaign = c ∧ x.addr = a)) ∧ Sge.Reward.getStat xs c a = 0) := by
  induction xs with
  | nil => exact Or.inr ⟨fun x hx => (by cases hx), rfl⟩
  | cons y ys ih =>
    unfold Sge.Reward.getStat
    split
    · rename_i hy
      exact Or.inl ⟨y, List.mem_cons_self, hy.1, hy.2, rfl⟩
    · rename_i hy
      rcases ih with ⟨x, hx, h1, h2, h3⟩ | ⟨h1, h2⟩
      · exact Or.inl ⟨x, List.mem_cons_of_mem _ hx, h1, h2, h3⟩
      · refine Or.inr ⟨?_, h2⟩
        intro x hx
        rcases List.mem_cons.mp hx with e | hx
        · rw [e]; exact hy
        · exact h1 x hx

/-- the projected counter store answers like the model's -/
theorem grm_getStat_proj (d : grm_Digests) (s : Sge.Reward.State) (hI : Sge.Reward.grm_RwI s) (c a : Nat) :
    getStat (grm_stores d s).grantStats c a = Sge.Reward.getStat s.stats c a := by
  have hperm := grm_stats_perm d s hI.statKeys
  rcases grm_model_getStat_spec s.stats c a with ⟨x, hx, h1, h2, h3⟩ | ⟨h1, h2⟩
  · have hm : grm_statRec x ∈ (grm_stores d s).grantStats := hperm.mem_iff.mpr (List.mem_map_of_mem hx)
    have e : getStat (grm_stores d s).grantStats (grm_statRec x).1 (grm_statRec x).2.1 = (grm_statRec x).2.2 :=
      grm_getStat_of_mem _ (grm_sort_sorted _ _) _ hm
    rw [← h1, ← h2] at h3 ⊢
    rw [h3]
    exact e
  · rw [h2]
    apply grm_getStat_none
    intro z hz
    obtain ⟨x, hx, rfl⟩ := List.mem_map.mp (hperm.mem_iff.mp hz)
    exact h1 x hx

/-- the model's counter in terms of the reward list -/
theorem grm_stats_model (s : Sge.Reward.State) (hI : Sge.Reward.grm_RwI s) (cu a : Nat) :
    Sge.Reward.getStat s.stats cu a =
      match Sge.Reward.getC s.campaigns cu with
      | some c => if 0 < c.capCount then Sge.Reward.countR s.rewards cu a else 0
      | none => 0 := by
  cases hc : Sge.Reward.getC s.campaigns cu with
  | none => exact (hI.base.cap.1 cu a hc).2
  | some c =>
    simp only
    split
    · rename_i hpos
      exact (hI.base.cap.2 cu a c hc hpos).1.symm
    · rename_i hpos
      rcases grm_model_getStat_spec s.stats cu a with ⟨x, hx, h1, _, _⟩ | ⟨_, h2⟩
      · obtain ⟨c0, h0, hp0⟩ := hI.statCap x hx
        rw [h1, hc] at h0
        cases h0
        exact absurd hp0 hpos
      · exact h2

theorem grm_capped_model (d : grm_Digests) (s : Sge.Reward.State) (hI : Sge.Reward.grm_RwI s) (cu : Nat) :
    grm_capped (grm_stores d s).campaigns cu =
      match Sge.Reward.getC s.campaigns cu with
      | some c => decide (0 < c.capCount)
      | none => false := by
  unfold grm_capped
  cases hc : Sge.Reward.getC s.campaigns cu with
  | none => rw [grm_find_campaign_none d s cu hc]
  | some c => rw [grm_find_campaign_some d s hI.campKeys cu c hc]; rfl

theorem grm_cnt_model (d : grm_Digests) (s : Sge.Reward.State) (hI : Sge.Reward.grm_RwI s) (cu a : Nat) :
    grm_cnt (grm_stores d s).campaigns (grm_stores d s).rewards cu a =
      if grm_capped (grm_stores d s).campaigns cu = true then Sge.Reward.countR s.rewards cu a else 0 := by
  unfold grm_cnt
  rw [((grm_rewards_perm d s hI.base.once).filter _).length_eq, List.filter_map, List.length_map]
  by_cases hcap : grm_capped (grm_stores d s).campaigns cu = true
  · rw [if_pos hcap]
    unfold Sge.Reward.countR
    congr 1
    apply List.filter_congr
    intro r _
    simp only [Function.comp, grm_rewRec]
    by_cases e : r.campaign = cu
    · have hc' : grm_capped (grm_stores d s).campaigns r.campaign = true := by rw [e]; exact hcap
      rw [hc', Bool.and_true]
      rfl
    · have : ¬ (r.campaign = cu ∧ r.receiver = a) := fun h => e h.1
      simp [this]
  · rw [if_neg hcap]
    rw [List.length_eq_zero_iff, List.filter_eq_nil_iff]
    intro r _ h
    simp only [Function.comp, grm_rewRec, Bool.and_eq_true] at h
    have h1 : r.campaign = cu := (of_decide_eq_true h.1).1
    have h2 := h.2
    rw [h1] at h2
    exact hcap h2

/-- conjunct 8 of `rewardInv`: the grant counters are exactly what the patched InitGenesis rebuilds -/
theorem grm_stats_conj (d : grm_Digests) (s : Sge.Reward.State) (hI : Sge.Reward.grm_RwI s) :
    (grm_stores d s).grantStats = rebuiltStats (grm_stores d s) := by
  unfold rebuiltStats
  obtain ⟨_, f2, f3, f4⟩ := grm_fold_countGrant (grm_stores d s).rewards
    { emptyReward with campaigns := (grm_stores d s).campaigns } (by simp [emptyReward, Sorted])
    (by intro z hz; simp [emptyReward] at hz)
  have hpos : ∀ z ∈ (grm_stores d s).grantStats, 0 < z.2.2 := by
    intro z hz
    obtain ⟨x, hx, rfl⟩ := List.mem_map.mp ((grm_stats_perm d s hI.statKeys).mem_iff.mp hz)
    exact hI.statPos x hx
  refine grm_stats_ext (grm_stores d s).grantStats _ (grm_sort_sorted _ _) f2 hpos f3 ?_
  intro c a
  rw [f4, grm_getStat_proj d s hI]
  show _ = getStat [] c a + grm_cnt (grm_stores d s).campaigns (grm_stores d s).rewards c a
  rw [grm_getStat_nil, Nat.zero_add, grm_cnt_model d s hI, grm_capped_model d s hI, grm_stats_model s hI]
  cases Sge.Reward.getC s.campaigns c with
  | none => simp
  | some x =>
    simp only [decide_eq_true_eq]

-- ---------------------------------------------------------------------------------------------
-- `rewardInv` of the projection

/-- everything of `rewardInv` except the by-category conjunct -/
theorem grm_rewardInv_partial_of (d : grm_Digests) (s : Sge.Reward.State) (hI : Sge.Reward.grm_RwI s) :
    sortedB (fun (x : Nat × Nat) => [x.1]) (grm_stores d s).promoters = true ∧
    sortedB (fun (x : Nat × Nat) => [x.1]) (grm_stores d s).byAddress = true ∧
    sortedB (fun (c : Campaign) => [c.uid]) (grm_stores d s).campaigns = true ∧
    sortedB (fun (r : Reward) => [r.uid]) (grm_stores d s).rewards = true ∧
    sortedB ByCat.key (grm_stores d s).byCategory = true ∧
    sortedB (fun (x : Nat × Nat) => [x.1, x.2]) (grm_stores d s).byCampaign = true ∧
    (grm_stores d s).grantStats = rebuiltStats (grm_stores d s) :=
  ⟨(sortedB_iff _ _).mpr (grm_sort_sorted _ _), (sortedB_iff _ _).mpr (grm_sort_sorted _ _),
   (sortedB_iff _ _).mpr (grm_sort_sorted _ _), (sortedB_iff _ _).mpr (grm_sort_sorted _ _),
   (sortedB_iff _ _).mpr (grm_sort_sorted _ _), (sortedB_iff _ _).mpr (grm_sort_sorted _ _),
   grm_stats_conj d s hI⟩

theorem grm_rewardInv_of (d : grm_Digests) (s : Sge.Reward.State) (hI : Sge.Reward.grm_RwI s) (hC : Sge.Reward.grm_CatOK s) :
    rewardInv (grm_stores d s) = true := by
  obtain ⟨h1, h2, h3, h4, h5, h6, h8⟩ := grm_rewardInv_partial_of d s hI
  have h7 := grm_cat_conj d s hI hC
  unfold rewardInv
  simp only [Bool.and_eq_true]
  exact ⟨⟨⟨⟨⟨⟨⟨h1, h2⟩, h3⟩, h4⟩, h5⟩, h6⟩, h7⟩, beq_iff_eq.mpr h8⟩

theorem grm_inj_of_nodup_map {α : Type} (f : α → Nat) : ∀ (l : List α), (l.map f).Nodup →
    ∀ x ∈ l, ∀ y ∈ l, f x = f y → x = y
  | [], _, x, hx, _, _, _ => by cases hx
  | a :: t, hnd, x, hx, y, hy, hxy => by
    simp only [List.map_cons, List.nodup_cons, List.mem_map, not_exists, not_and] at hnd
    rcases List.mem_cons.mp hx with rfl | hx'
    · rcases List.mem_cons.mp hy with rfl | hy'
      · rfl
      · exact absurd hxy.symm (hnd.1 y hy')
    · rcases List.mem_cons.mp hy with rfl | hy'
      · exact absurd hxy (hnd.1 x hx')
      · exact grm_inj_of_nodup_map f t hnd.2 x hx' y hy' hxy

/-- the two index lists of the export carry every reward uid once -/
theorem grm_index_uids (d : grm_Digests) (s : Sge.Reward.State) (hI : Sge.Reward.grm_RwI s) :
    hasDup ((grm_stores d s).byCategory.map (·.uid)) = false ∧ hasDup ((grm_stores d s).byCampaign.map (·.2)) = false := by
  have inj : ∀ {α : Type} (f : α → Nat) (l : List α), (l.map f).Nodup → ∀ a ∈ l, ∀ b ∈ l, f a = f b → a = b :=
    fun f l h a ha b hb e => grm_inj_of_nodup_map f l h a ha b hb e
  constructor
  · apply grm_hasDup_false
    apply grm_sorted_pairwise_ne ByCat.key (·.uid) _ (grm_sort_sorted _ _)
    intro x hx y hy e
    rcases grm_mem_setAll_sub _ _ _ _ hx with hx | hx
    · rcases grm_mem_setAll_sub _ _ _ _ hy with hy | hy
      · obtain ⟨x0, hx0, rfl⟩ := List.mem_map.mp hx
        obtain ⟨y0, hy0, rfl⟩ := List.mem_map.mp hy
        have hn : (s.byCat.map (·.uid)).Nodup := by rw [hI.base.idxCat]; exact hI.base.once
        rw [inj (·.uid) s.byCat hn x0 hx0 y0 hy0 e]
      · cases hy
    · cases hx
  · apply grm_hasDup_false
    apply grm_sorted_pairwise_ne (fun (x : Nat × Nat) => [x.1, x.2]) (·.2) _ (grm_sort_sorted _ _)
    intro x hx y hy e
    rcases grm_mem_setAll_sub _ _ _ _ hx with hx | hx
    · rcases grm_mem_setAll_sub _ _ _ _ hy with hy | hy
      · have hn : (s.byCamp.map (·.2)).Nodup := by rw [hI.base.idxCamp]; exact hI.base.once
        exact inj (·.2) s.byCamp hn x hx y hy e
      · cases hy
    · cases hx

end Sge.Genesis
