/- lemmas about the ordered association lists and the bank of the core slice -/
import Sge.Core.Store
namespace Sge.Core
open Sge

theorem lookup_upsert_self {α : Type} (key : α → List Nat) (x : α) (l : List α) :
    lookup key (key x) (upsert key x l) = some x := by
  induction l with
  | nil => simp [upsert, lookup, List.find?]
  | cons y ys ih =>
    unfold upsert
    split
    · simp [lookup, List.find?]
    · split
      · simp [lookup, List.find?]
      · rename_i h1 _
        simp only [lookup, List.find?] at ih ⊢
        have : (key y == key x) = false := by simpa using h1
        simp [this, ih]

theorem lookup_upsert_ne {α : Type} (key : α → List Nat) (x : α) (k : List Nat) (l : List α)
    (h : (key x == k) = false) : lookup key k (upsert key x l) = lookup key k l := by
  induction l with
  | nil => simp [upsert, lookup, List.find?, h]
  | cons y ys ih =>
    unfold upsert
    split
    · rename_i h1
      have hy : (key y == k) = false := by
        have : key y = key x := by simpa using h1
        rw [this]; exact h
      simp [lookup, List.find?, h, hy]
    · split
      · simp [lookup, List.find?, h]
      · simp only [lookup, List.find?] at ih ⊢
        cases hyk : (key y == k) <;> simp [ih]

-- ---------------------------------------------------------------------------------------------
-- bank

theorem getBal_nil (a : Nat) : getBal [] a = 0 := rfl

/-- sum of all balances after overwriting one account -/
theorem totalBal_setBal (b : List (Nat × Int)) (a : Nat) (v : Int) :
    totalBal (setBal b a v) = totalBal b - getBal b a + v := by
  induction b with
  | nil => simp [setBal, totalBal, getBal]
  | cons y ys ih =>
    obtain ⟨k, w⟩ := y
    unfold setBal getBal
    split
    · simp [totalBal]; omega
    · simp only [totalBal, List.map_cons, List.sum_cons] at ih ⊢
      rw [ih]; omega

theorem getBal_setBal_self (b : List (Nat × Int)) (a : Nat) (v : Int) : getBal (setBal b a v) a = v := by
  induction b with
  | nil => simp [setBal, getBal]
  | cons y ys ih =>
    obtain ⟨k, w⟩ := y
    unfold setBal
    split
    · simp [getBal]
    · rename_i h1
      simp [getBal, h1, ih]

theorem getBal_setBal_ne (b : List (Nat × Int)) (a c : Nat) (v : Int) (h : a ≠ c) :
    getBal (setBal b a v) c = getBal b c := by
  induction b with
  | nil => simp [setBal, getBal, h]
  | cons y ys ih =>
    obtain ⟨k, w⟩ := y
    unfold setBal
    split
    · rename_i h1
      have : ¬ k = c := by rw [h1]; exact h
      simp [getBal, h, this]
    · simp only [getBal]
      split
      · rfl
      · exact ih

/-- a transfer never changes the total: the core modules can neither mint nor burn -/
theorem transfer_total (b b' : List (Nat × Int)) (src dst : Nat) (amt : Int)
    (h : transfer b src dst amt = some b') : totalBal b' = totalBal b := by
  unfold transfer at h
  split at h
  · simp at h
  · split at h
    · simp at h
    · split at h
      · simp at h; rw [← h]
      · simp only [Option.some.injEq] at h
        rw [← h, totalBal_setBal, totalBal_setBal]
        by_cases hsd : src = dst
        · subst hsd
          rw [getBal_setBal_self]
          omega
        · rw [getBal_setBal_ne _ _ _ _ hsd]
          omega

end Sge.Core
